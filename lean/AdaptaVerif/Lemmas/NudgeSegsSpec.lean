/-
Specification lemmas for `Model/NudgeSegs.segAt` (the body of the loop of
`buildOrthogonalNudgingSegments`): which route segments become fixed shift segments, the rule for
first / last segments, limits from checkpoints on adjoining segments, s-bend / z-bend limits.

Technique: `segAt` is cut into small auxiliary functions (`fixedPart`, `endPart`, `midPart`), the
characterisation `segAt_eq0` holds by `rfl`, and `segAt_cases` lists the four ways in which
`segAt … = some s` can come about.  Everything else is derived from `segAt_cases` with the auxiliary
functions kept folded.
-/
import AdaptaVerif.Lemmas.NudgeSegs
import AdaptaVerif.Props.C14Limits
namespace AdaptaVerif.Lemmas.NudgeSegsSpec
open AdaptaVerif.Model AdaptaVerif.Model.NudgeSegs AdaptaVerif.Model.NudgeRegion AdaptaVerif.Model.FinalSegLimits AdaptaVerif.Lemmas.NudgeSegs

/-! ### the pieces of `segAt` -/

/-- `ps[i-1][altDim] > ps[i][altDim]`: the segment is stored with its indexes swapped -/
def swapF (dim : Nat) (a b : Pt) : Bool := decide (a.c (alt dim) > b.c (alt dim))
def gIl (dim i : Nat) (a b : Pt) : Nat := if swapF dim a b then i else i - 1
def gIh (dim i : Nat) (a b : Pt) : Nat := if swapF dim a b then i - 1 else i
def gLo (dim : Nat) (a b : Pt) : Rat := if swapF dim a b then b.c (alt dim) else a.c (alt dim)
def gHi (dim : Nat) (a b : Pt) : Rat := if swapF dim a b then a.c (alt dim) else b.c (alt dim)
def gPos (dim : Nat) (a b : Pt) : Rat := if swapF dim a b then b.c dim else a.c dim

/-- the fixed shift segment between `a = ps[i-1]` and `b = ps[i]` -/
def fixedPart (dim : Nat) (c : Conn) (i : Nat) (a b : Pt) : MSeg :=
  fixedSeg c.id (gIl dim i a b) (gIh dim i a b) (gLo dim a b) (gHi dim a b) (gPos dim a b)

/-- first / last segment, option on (as in `segAt`, `Option`-valued) -/
def endPartO (lims : List Rect) (dim : Nat) (c : Conn) (i : Nat) (a b : Pt) : Option MSeg :=
  let l := AdaptaVerif.Model.FinalSegLimits.finalLimits (decide (dim = 0)) a b lims
  if l.isFixed || c.fixedRoute then some (fixedPart dim c i a b)
  else
    let s := freeSeg c.id (gIl dim i a b) (gIh dim i a b) (gLo dim a b) (gHi dim a b) (gPos dim a b) false false l.lo l.hi
    some { s with seg := { s.seg with finalSeg := true, endsInShape := l.first || l.last, single := decide (c.ps.length = 2) && l.first && l.last } }

/-- the non-fixed case of `endPartO` -/
def endFree (lims : List Rect) (dim : Nat) (c : Conn) (i : Nat) (a b : Pt) : MSeg :=
  let l := AdaptaVerif.Model.FinalSegLimits.finalLimits (decide (dim = 0)) a b lims
  let s := freeSeg c.id (gIl dim i a b) (gIh dim i a b) (gLo dim a b) (gHi dim a b) (gPos dim a b) false false l.lo l.hi
  { s with seg := { s.seg with finalSeg := true, endsInShape := l.first || l.last, single := decide (c.ps.length = 2) && l.first && l.last } }

/-- limits from the checkpoints on the two adjoining segments -/
def midL (dim : Nat) (c : Conn) (i : Nat) (b : Pt) : Rat × Rat :=
  cpLimits dim (b.c dim) (cpsOnSegment c.cache (i - 2) 2)
    (cpLimits dim (b.c dim) (cpsOnSegment c.cache i 1) (-NudgeRegion.channelMax, NudgeRegion.channelMax))

/-- (minLim, maxLim, sBend, zBend) of a middle segment -/
def midLims (dim : Nat) (c : Conn) (i : Nat) (b pv nx : Pt) : Rat × Rat × Bool × Bool :=
  if (cpsOnSegment c.cache (i - 1) 0).isEmpty then
    if pv.c dim < b.c dim ∧ nx.c dim > b.c dim then (max (midL dim c i b).1 (pv.c dim), min (midL dim c i b).2 (nx.c dim), false, true)
    else if pv.c dim > b.c dim ∧ nx.c dim < b.c dim then (max (midL dim c i b).1 (nx.c dim), min (midL dim c i b).2 (pv.c dim), true, false)
    else ((midL dim c i b).1, (midL dim c i b).2, false, false)
  else ((midL dim c i b).1, (midL dim c i b).2, false, false)

/-- middle segment (as in `segAt`, `Option`-valued) -/
def midPartO (dim : Nat) (c : Conn) (i : Nat) (a b pv nx : Pt) : Option MSeg :=
  let (mn, mx, sB, zB) := midLims dim c i b pv nx
  let s := freeSeg c.id (gIl dim i a b) (gIh dim i a b) (gLo dim a b) (gHi dim a b) (gPos dim a b) sB zB mn mx
  some { s with seg := { s.seg with cps := (cpsOnSegment c.cache (i - 1) 0).map (fun p => (p.c dim, p.c (alt dim))) } }

def midPart (dim : Nat) (c : Conn) (i : Nat) (a b pv nx : Pt) : MSeg :=
  let q := midLims dim c i b pv nx
  let s := freeSeg c.id (gIl dim i a b) (gIh dim i a b) (gLo dim a b) (gHi dim a b) (gPos dim a b) q.2.2.1 q.2.2.2 q.1 q.2.1
  { s with seg := { s.seg with cps := (cpsOnSegment c.cache (i - 1) 0).map (fun p => (p.c dim, p.c (alt dim))) } }

/-- `segAt` for a segment between two existing points -/
def body (nf : Bool) (lims : List Rect) (dim : Nat) (c : Conn) (i : Nat) (a b : Pt) : Option MSeg :=
  if a.c dim ≠ b.c dim then none
  else if a.c (alt dim) = b.c (alt dim) then none
  else if !(cpsOnSegment c.cache (i - 1) 0).isEmpty && !nf then some (fixedPart dim c i a b)
  else if i = 1 ∨ i + 1 = c.ps.length then
    if nf then endPartO lims dim c i a b else some (fixedPart dim c i a b)
  else
    match c.ps[i - 2]?, c.ps[i + 1]? with
    | some pv, some nx => midPartO dim c i a b pv nx
    | _, _ => none

theorem segAt_eq0 (nf : Bool) (lims : List Rect) (dim : Nat) (c : Conn) (i : Nat) :
    segAt nf lims dim c i =
      if i = 0 then none else
      match c.ps[i - 1]?, c.ps[i]? with
      | some a, some b => body nf lims dim c i a b
      | _, _ => none := rfl

theorem endPartO_eq (lims : List Rect) (dim : Nat) (c : Conn) (i : Nat) (a b : Pt) :
    endPartO lims dim c i a b =
      some (if ((finalLimits (decide (dim = 0)) a b lims).isFixed || c.fixedRoute) = true then fixedPart dim c i a b
            else endFree lims dim c i a b) := by
  unfold endPartO endFree
  by_cases h : ((finalLimits (decide (dim = 0)) a b lims).isFixed || c.fixedRoute) = true
  · simp only [h, if_true]
  · simp only [h]; rfl

theorem midPartO_eq (dim : Nat) (c : Conn) (i : Nat) (a b pv nx : Pt) :
    midPartO dim c i a b pv nx = some (midPart dim c i a b pv nx) := by
  unfold midPartO midPart
  rcases midLims dim c i b pv nx with ⟨mn, mx, sB, zB⟩
  rfl

/-- the four ways in which `segAt` yields a segment -/
theorem segAt_cases (nf : Bool) (lims : List Rect) (dim : Nat) (c : Conn) (i : Nat) (s : MSeg)
    (h : segAt nf lims dim c i = some s) :
    ∃ a b, 1 ≤ i ∧ c.ps[i - 1]? = some a ∧ c.ps[i]? = some b ∧ a.c dim = b.c dim ∧ a.c (alt dim) ≠ b.c (alt dim) ∧
      ((cpsOnSegment c.cache (i - 1) 0 ≠ [] ∧ nf = false ∧ s = fixedPart dim c i a b) ∨
       ((i = 1 ∨ i + 1 = c.ps.length) ∧ nf = false ∧ s = fixedPart dim c i a b) ∨
       ((i = 1 ∨ i + 1 = c.ps.length) ∧ nf = true ∧
          (((finalLimits (decide (dim = 0)) a b lims).isFixed || c.fixedRoute) = true ∧ s = fixedPart dim c i a b ∨
           ((finalLimits (decide (dim = 0)) a b lims).isFixed || c.fixedRoute) = false ∧ s = endFree lims dim c i a b)) ∨
       (¬ (i = 1 ∨ i + 1 = c.ps.length) ∧ (cpsOnSegment c.cache (i - 1) 0 = [] ∨ nf = true) ∧
          ∃ pv nx, c.ps[i - 2]? = some pv ∧ c.ps[i + 1]? = some nx ∧ s = midPart dim c i a b pv nx)) := by
  rw [segAt_eq0] at h
  by_cases hi : i = 0
  · simp [hi] at h
  rw [if_neg hi] at h
  cases ha : c.ps[i - 1]? with
  | none => simp [ha] at h
  | some a =>
    cases hb : c.ps[i]? with
    | none => simp [ha, hb] at h
    | some b =>
      simp only [ha, hb] at h
      refine ⟨a, b, by omega, rfl, rfl, ?_⟩
      unfold body at h
      by_cases h1 : a.c dim ≠ b.c dim
      · rw [if_pos h1] at h; cases h
      rw [if_neg h1] at h
      by_cases h2 : a.c (alt dim) = b.c (alt dim)
      · rw [if_pos h2] at h; cases h
      rw [if_neg h2] at h
      refine ⟨by simpa using h1, h2, ?_⟩
      by_cases h3 : (!(cpsOnSegment c.cache (i - 1) 0).isEmpty && !nf) = true
      · rw [if_pos h3] at h
        left
        simp only [Bool.and_eq_true, Bool.not_eq_true', List.isEmpty_eq_false_iff] at h3
        exact ⟨h3.1, h3.2, (Option.some.inj h).symm⟩
      rw [if_neg h3] at h
      have h3' : cpsOnSegment c.cache (i - 1) 0 = [] ∨ nf = true := by
        cases nf <;> simp_all
      by_cases h4 : i = 1 ∨ i + 1 = c.ps.length
      · rw [if_pos h4] at h
        cases nf with
        | false =>
          simp only [Bool.false_eq_true, if_false] at h
          right; left
          exact ⟨h4, rfl, (Option.some.inj h).symm⟩
        | true =>
          simp only [if_true] at h
          rw [endPartO_eq] at h
          right; right; left
          refine ⟨h4, rfl, ?_⟩
          have h := (Option.some.inj h).symm
          by_cases h5 : ((finalLimits (decide (dim = 0)) a b lims).isFixed || c.fixedRoute) = true
          · rw [if_pos h5] at h; exact Or.inl ⟨h5, h⟩
          · rw [if_neg h5] at h; exact Or.inr ⟨by simpa using h5, h⟩
      · rw [if_neg h4] at h
        right; right; right
        refine ⟨h4, h3', ?_⟩
        cases hpv : c.ps[i - 2]? with
        | none => simp [hpv] at h
        | some pv =>
          cases hnx : c.ps[i + 1]? with
          | none => simp [hpv, hnx] at h
          | some nx =>
            simp only [hpv, hnx, midPartO_eq] at h
            exact ⟨pv, nx, rfl, rfl, (Option.some.inj h).symm⟩

/-! ### geometry of a candidate -/

theorem g_extent (dim : Nat) (a b : Pt) (hne : a.c (alt dim) ≠ b.c (alt dim)) :
    gLo dim a b = min (a.c (alt dim)) (b.c (alt dim)) ∧ gHi dim a b = max (a.c (alt dim)) (b.c (alt dim)) ∧
      gLo dim a b < gHi dim a b := by
  unfold gLo gHi swapF
  by_cases h : a.c (alt dim) > b.c (alt dim)
  · simp only [h, decide_true, if_true]; grind
  · simp only [h, decide_false, Bool.false_eq_true, if_false]; grind

theorem g_pos (dim : Nat) (a b : Pt) (heq : a.c dim = b.c dim) : gPos dim a b = a.c dim := by
  unfold gPos; split <;> simp [heq]

theorem g_idx (dim i : Nat) (a b : Pt) :
    (gIl dim i a b = i - 1 ∧ gIh dim i a b = i) ∨ (gIl dim i a b = i ∧ gIh dim i a b = i - 1) := by
  unfold gIl gIh; cases swapF dim a b <;> simp

theorem co_eq (p : Pt) (dim : Nat) : P.co p (decide (dim = 0)) = p.c dim := by
  unfold P.co Pt.c; by_cases h : dim = 0 <;> simp [h]

theorem channelMax_eq : NudgeRegion.channelMax = FinalSegLimits.channelMax := rfl

/-! ### fields of the three kinds of segment -/

theorem fixedPart_fields (dim : Nat) (c : Conn) (i : Nat) (a b : Pt) :
    (fixedPart dim c i a b).seg.fixed = true ∧ (fixedPart dim c i a b).seg.minLim = (fixedPart dim c i a b).seg.pos ∧
    (fixedPart dim c i a b).seg.maxLim = (fixedPart dim c i a b).seg.pos ∧ (fixedPart dim c i a b).seg.cps = [] ∧
    (fixedPart dim c i a b).seg.sBend = false ∧ (fixedPart dim c i a b).seg.zBend = false ∧
    (fixedPart dim c i a b).seg.finalSeg = false := by
  simp [fixedPart, fixedSeg]

theorem fixedPart_geom (dim : Nat) (c : Conn) (i : Nat) (a b : Pt) :
    (fixedPart dim c i a b).seg.pos = gPos dim a b ∧ (fixedPart dim c i a b).seg.conn = c.id ∧
    (fixedPart dim c i a b).seg.lo = gLo dim a b ∧ (fixedPart dim c i a b).seg.hi = gHi dim a b ∧
    (fixedPart dim c i a b).idxLow = gIl dim i a b ∧ (fixedPart dim c i a b).idxHigh = gIh dim i a b := by
  simp [fixedPart, fixedSeg]

theorem endFree_fields (lims : List Rect) (dim : Nat) (c : Conn) (i : Nat) (a b : Pt) :
    (endFree lims dim c i a b).seg.fixed = false ∧ (endFree lims dim c i a b).seg.finalSeg = true ∧
    (endFree lims dim c i a b).seg.sBend = false ∧ (endFree lims dim c i a b).seg.zBend = false ∧
    (endFree lims dim c i a b).seg.minLim = (finalLimits (decide (dim = 0)) a b lims).lo ∧
    (endFree lims dim c i a b).seg.maxLim = (finalLimits (decide (dim = 0)) a b lims).hi ∧
    (endFree lims dim c i a b).seg.endsInShape =
      ((finalLimits (decide (dim = 0)) a b lims).first || (finalLimits (decide (dim = 0)) a b lims).last) := by
  simp [endFree, freeSeg]

theorem endFree_geom (lims : List Rect) (dim : Nat) (c : Conn) (i : Nat) (a b : Pt) :
    (endFree lims dim c i a b).seg.pos = gPos dim a b ∧ (endFree lims dim c i a b).seg.conn = c.id ∧
    (endFree lims dim c i a b).seg.lo = gLo dim a b ∧ (endFree lims dim c i a b).seg.hi = gHi dim a b ∧
    (endFree lims dim c i a b).idxLow = gIl dim i a b ∧ (endFree lims dim c i a b).idxHigh = gIh dim i a b := by
  simp [endFree, freeSeg]

theorem midPart_fields (dim : Nat) (c : Conn) (i : Nat) (a b pv nx : Pt) :
    (midPart dim c i a b pv nx).seg.fixed = false ∧ (midPart dim c i a b pv nx).seg.finalSeg = false ∧
    (midPart dim c i a b pv nx).seg.minLim = (midLims dim c i b pv nx).1 ∧
    (midPart dim c i a b pv nx).seg.maxLim = (midLims dim c i b pv nx).2.1 ∧
    (midPart dim c i a b pv nx).seg.sBend = (midLims dim c i b pv nx).2.2.1 ∧
    (midPart dim c i a b pv nx).seg.zBend = (midLims dim c i b pv nx).2.2.2 := by
  simp [midPart, freeSeg]

theorem midPart_geom (dim : Nat) (c : Conn) (i : Nat) (a b pv nx : Pt) :
    (midPart dim c i a b pv nx).seg.pos = gPos dim a b ∧ (midPart dim c i a b pv nx).seg.conn = c.id ∧
    (midPart dim c i a b pv nx).seg.lo = gLo dim a b ∧ (midPart dim c i a b pv nx).seg.hi = gHi dim a b ∧
    (midPart dim c i a b pv nx).idxLow = gIl dim i a b ∧ (midPart dim c i a b pv nx).idxHigh = gIh dim i a b := by
  simp [midPart, freeSeg]

/-- the flags of `finalLimits` are those of the loop over the shapes -/
theorem finalLimits_flags (dx : Bool) (a z : Pt) (lims : List Rect) :
    (finalLimits dx a z lims).first = lims.any (insideBounds a) ∧ (finalLimits dx a z lims).last = lims.any (insideBounds z) := by
  have h := AdaptaVerif.Props.C14Limits.shapeLimits_flags dx a z lims
  unfold finalLimits
  simp only
  split
  · exact h
  · exact h

/-- what `midLims` computes, relative to the checkpoint limits `midL` -/
theorem midLims_spec (dim : Nat) (c : Conn) (i : Nat) (b pv nx : Pt) :
    (midL dim c i b).1 ≤ (midLims dim c i b pv nx).1 ∧ (midLims dim c i b pv nx).2.1 ≤ (midL dim c i b).2 ∧
    ((midL dim c i b).1 ≤ b.c dim → (midLims dim c i b pv nx).1 ≤ b.c dim) ∧
    ((b.c dim ≤ (midL dim c i b).2 → b.c dim ≤ (midLims dim c i b pv nx).2.1)) ∧
    ¬ ((midLims dim c i b pv nx).2.2.1 = true ∧ (midLims dim c i b pv nx).2.2.2 = true) ∧
    ((midLims dim c i b pv nx).2.2.2 = true →
      pv.c dim < b.c dim ∧ b.c dim < nx.c dim ∧ pv.c dim ≤ (midLims dim c i b pv nx).1 ∧ (midLims dim c i b pv nx).2.1 ≤ nx.c dim) ∧
    ((midLims dim c i b pv nx).2.2.1 = true →
      nx.c dim < b.c dim ∧ b.c dim < pv.c dim ∧ nx.c dim ≤ (midLims dim c i b pv nx).1 ∧ (midLims dim c i b pv nx).2.1 ≤ pv.c dim) := by
  unfold midLims
  split
  · split
    · simp only [Bool.false_eq_true, not_false_eq_true, true_and, false_implies, and_true]
      grind
    · split
      · simp only [Bool.false_eq_true, and_false, not_false_eq_true, true_and, false_implies]
        grind
      · simp
  · simp

theorem midL_contain (dim : Nat) (c : Conn) (i : Nat) (b : Pt)
    (h1 : -NudgeRegion.channelMax ≤ b.c dim) (h2 : b.c dim ≤ NudgeRegion.channelMax) :
    (midL dim c i b).1 ≤ b.c dim ∧ b.c dim ≤ (midL dim c i b).2 := by
  unfold midL
  have h := cpLimits_contain dim (b.c dim) (cpsOnSegment c.cache i 1) (-NudgeRegion.channelMax, NudgeRegion.channelMax) h1 h2
  exact cpLimits_contain dim (b.c dim) (cpsOnSegment c.cache (i - 2) 2) _ h.1 h.2

theorem midL_bounds (dim : Nat) (c : Conn) (i : Nat) (b : Pt) (cp : Pt)
    (hcp : cp ∈ cpsOnSegment c.cache i 1 ∨ cp ∈ cpsOnSegment c.cache (i - 2) 2) :
    (cp.c dim < b.c dim → cp.c dim ≤ (midL dim c i b).1) ∧ (b.c dim < cp.c dim → (midL dim c i b).2 ≤ cp.c dim) := by
  unfold midL
  rcases hcp with hcp | hcp
  · have hm := cpLimits_mono dim (b.c dim) (cpsOnSegment c.cache (i - 2) 2)
      (cpLimits dim (b.c dim) (cpsOnSegment c.cache i 1) (-NudgeRegion.channelMax, NudgeRegion.channelMax))
    constructor
    · intro hlt
      have := cpLimits_lower dim (b.c dim) (cpsOnSegment c.cache i 1) (-NudgeRegion.channelMax, NudgeRegion.channelMax) cp hcp hlt
      grind
    · intro hgt
      have := cpLimits_upper dim (b.c dim) (cpsOnSegment c.cache i 1) (-NudgeRegion.channelMax, NudgeRegion.channelMax) cp hcp hgt
      grind
  · constructor
    · intro hlt; exact cpLimits_lower dim (b.c dim) _ _ cp hcp hlt
    · intro hgt; exact cpLimits_upper dim (b.c dim) _ _ cp hcp hgt

/-! ### the specification of `segAt` -/

/-- (b1) option off: a route segment that carries a checkpoint becomes a FIXED shift segment without room and without recorded checkpoints -/
theorem checkpoint_segment_fixed (lims : List Rect) (dim : Nat) (c : Conn) (i : Nat) (s : MSeg)
    (h : segAt false lims dim c i = some s) (hcp : cpsOnSegment c.cache (i - 1) 0 ≠ []) :
    s.seg.fixed = true ∧ s.seg.minLim = s.seg.pos ∧ s.seg.maxLim = s.seg.pos ∧ s.seg.cps = [] := by
  obtain ⟨a, b, _, _, _, _, _, hc⟩ := segAt_cases false lims dim c i s h
  have hf := fixedPart_fields dim c i a b
  rcases hc with ⟨_, _, rfl⟩ | ⟨_, _, rfl⟩ | ⟨_, hnf, _⟩ | ⟨_, hor, _⟩
  · exact ⟨hf.1, hf.2.1, hf.2.2.1, hf.2.2.2.1⟩
  · exact ⟨hf.1, hf.2.1, hf.2.2.1, hf.2.2.2.1⟩
  · cases hnf
  · rcases hor with h0 | h0
    · exact absurd h0 hcp
    · cases h0

/-- (b2) a middle segment that is not fixed: every checkpoint on the adjoining segments (corner excluded, as `checkpointsOnSegment(i, +1)` / `(i-2, -1)` select them) bounds the limit on its own side -/
theorem adjacent_checkpoint_bounds (nf : Bool) (lims : List Rect) (dim : Nat) (c : Conn) (i : Nat) (s : MSeg)
    (h : segAt nf lims dim c i = some s) (hmid : ¬ (i = 1 ∨ i + 1 = c.ps.length)) (hfree : s.seg.fixed = false)
    (cp : Pt) (hcp : cp ∈ cpsOnSegment c.cache i 1 ∨ cp ∈ cpsOnSegment c.cache (i - 2) 2) :
    (cp.c dim < s.seg.pos → cp.c dim ≤ s.seg.minLim) ∧ (s.seg.pos < cp.c dim → s.seg.maxLim ≤ cp.c dim) := by
  obtain ⟨a, b, _, _, _, heq, _, hc⟩ := segAt_cases nf lims dim c i s h
  rcases hc with ⟨_, _, rfl⟩ | ⟨hend, _, _⟩ | ⟨hend, _, _⟩ | ⟨_, _, pv, nx, _, _, rfl⟩
  · have hf := fixedPart_fields dim c i a b
    rw [hf.1] at hfree; cases hfree
  · exact absurd hend hmid
  · exact absurd hend hmid
  · have hf := midPart_fields dim c i a b pv nx
    have hg := midPart_geom dim c i a b pv nx
    have hp := g_pos dim a b heq
    have hs := midLims_spec dim c i b pv nx
    have hb := midL_bounds dim c i b cp hcp
    rw [hf.2.2.1, hf.2.2.2.1, hg.1, hp, heq]
    constructor
    · intro hlt; have := hb.1 hlt; grind
    · intro hgt; have := hb.2 hgt; grind

/-- (a, option off) first and last segments are fixed -/
theorem end_segment_fixed_without_option (lims : List Rect) (dim : Nat) (c : Conn) (i : Nat) (s : MSeg)
    (hend : i = 1 ∨ i + 1 = c.ps.length) (h : segAt false lims dim c i = some s) :
    s.seg.fixed = true ∧ s.seg.minLim = s.seg.pos ∧ s.seg.maxLim = s.seg.pos := by
  obtain ⟨a, b, _, _, _, _, _, hc⟩ := segAt_cases false lims dim c i s h
  have hf := fixedPart_fields dim c i a b
  rcases hc with ⟨_, _, rfl⟩ | ⟨_, _, rfl⟩ | ⟨_, hnf, _⟩ | ⟨hmid, _, _⟩
  · exact ⟨hf.1, hf.2.1, hf.2.2.1⟩
  · exact ⟨hf.1, hf.2.1, hf.2.2.1⟩
  · cases hnf
  · exact absurd hend hmid

/-- (a, option on) a first / last segment is fixed, or it is a final segment whose limits are `finalLimits` of its two end points -/
theorem end_segment_rule (lims : List Rect) (dim : Nat) (c : Conn) (i : Nat) (s : MSeg) (a b : Pt)
    (hend : i = 1 ∨ i + 1 = c.ps.length) (ha : c.ps[i - 1]? = some a) (hb : c.ps[i]? = some b)
    (h : segAt true lims dim c i = some s) :
    (s.seg.fixed = true ∧ s.seg.minLim = s.seg.pos ∧ s.seg.maxLim = s.seg.pos) ∨
    (s.seg.fixed = false ∧ s.seg.finalSeg = true ∧ s.seg.sBend = false ∧ s.seg.zBend = false ∧
      s.seg.minLim = (finalLimits (decide (dim = 0)) a b lims).lo ∧ s.seg.maxLim = (finalLimits (decide (dim = 0)) a b lims).hi ∧
      s.seg.endsInShape = (lims.any (insideBounds a) || lims.any (insideBounds b)) ∧
      (∀ r ∈ lims, insideBounds a r = true ∨ insideBounds b r = true →
        Rect.lo r (decide (dim = 0)) ≤ s.seg.minLim ∧ s.seg.maxLim ≤ Rect.hi r (decide (dim = 0))) ∧
      (lims.any (insideBounds a) = false ∧ lims.any (insideBounds b) = false →
        s.seg.pos - 15 ≤ s.seg.minLim ∧ s.seg.maxLim ≤ s.seg.pos + 15)) := by
  obtain ⟨a', b', _, ha', hb', heq, _, hc⟩ := segAt_cases true lims dim c i s h
  rw [ha] at ha'; rw [hb] at hb'
  cases ha'; cases hb'
  have hf := fixedPart_fields dim c i a b
  rcases hc with ⟨_, hnf, _⟩ | ⟨_, hnf, _⟩ | ⟨_, _, hc⟩ | ⟨hmid, _, _⟩
  · cases hnf
  · cases hnf
  · rcases hc with ⟨_, rfl⟩ | ⟨_, rfl⟩
    · exact Or.inl ⟨hf.1, hf.2.1, hf.2.2.1⟩
    · right
      have he := endFree_fields lims dim c i a b
      have hg := endFree_geom lims dim c i a b
      have hp := g_pos dim a b heq
      have hfl := finalLimits_flags (decide (dim = 0)) a b lims
      refine ⟨he.1, he.2.1, he.2.2.1, he.2.2.2.1, he.2.2.2.2.1, he.2.2.2.2.2.1, ?_, ?_, ?_⟩
      · rw [he.2.2.2.2.2.2, hfl.1, hfl.2]
      · intro r hr hin
        rw [he.2.2.2.2.1, he.2.2.2.2.2.1]
        exact AdaptaVerif.Props.C14Limits.finalLimits_within (decide (dim = 0)) a b lims r hr hin
      · intro hfree
        have hw := AdaptaVerif.Props.C14Limits.finalLimits_free (decide (dim = 0)) a b lims hfree
        rw [co_eq] at hw
        rw [he.2.2.2.2.1, he.2.2.2.2.2.1, hg.1, hp]
        simpa [freeConnBuffer] using hw
  · exact absurd hend hmid

/-- (c) limits contain the position (for positions within ±CHANNEL_MAX) -/
theorem limits_contain_pos (nf : Bool) (lims : List Rect) (dim : Nat) (c : Conn) (i : Nat) (s : MSeg)
    (h : segAt nf lims dim c i = some s) (h1 : -NudgeRegion.channelMax ≤ s.seg.pos) (h2 : s.seg.pos ≤ NudgeRegion.channelMax) :
    s.seg.minLim ≤ s.seg.pos ∧ s.seg.pos ≤ s.seg.maxLim := by
  obtain ⟨a, b, _, _, _, heq, _, hc⟩ := segAt_cases nf lims dim c i s h
  have hf := fixedPart_fields dim c i a b
  have hp := g_pos dim a b heq
  have hfix : (fixedPart dim c i a b).seg.minLim ≤ (fixedPart dim c i a b).seg.pos ∧
      (fixedPart dim c i a b).seg.pos ≤ (fixedPart dim c i a b).seg.maxLim := by
    rw [hf.2.1, hf.2.2.1]; exact ⟨Rat.le_refl, Rat.le_refl⟩
  rcases hc with ⟨_, _, rfl⟩ | ⟨_, _, rfl⟩ | ⟨_, _, hc⟩ | ⟨_, _, pv, nx, _, _, rfl⟩
  · exact hfix
  · exact hfix
  · rcases hc with ⟨_, rfl⟩ | ⟨_, rfl⟩
    · exact hfix
    · have he := endFree_fields lims dim c i a b
      have hg := endFree_geom lims dim c i a b
      rw [hg.1, hp] at h1 h2
      rw [he.2.2.2.2.1, he.2.2.2.2.2.1, hg.1, hp]
      have hco : P.co a (decide (dim = 0)) = P.co b (decide (dim = 0)) := by rw [co_eq, co_eq]; exact heq
      have := finalLimits_contain (decide (dim = 0)) a b lims hco
        (by rw [co_eq, ← channelMax_eq]; exact h1) (by rw [co_eq, ← channelMax_eq]; exact h2)
      rw [co_eq] at this
      exact this
  · have hm := midPart_fields dim c i a b pv nx
    have hg := midPart_geom dim c i a b pv nx
    rw [hg.1, hp, heq] at h1 h2
    rw [hm.2.2.1, hm.2.2.2.1, hg.1, hp, heq]
    have hs := midLims_spec dim c i b pv nx
    have hl := midL_contain dim c i b h1 h2
    exact ⟨hs.2.2.1 hl.1, hs.2.2.2.1 hl.2⟩

/-- s-bend / z-bend: the limits lie within the positions of the two adjoining segments, and only non-fixed middle segments are zigzags -/
theorem zigzag_limits (nf : Bool) (lims : List Rect) (dim : Nat) (c : Conn) (i : Nat) (s : MSeg) (pv nx : Pt)
    (h : segAt nf lims dim c i = some s) (hz : s.seg.sBend = true ∨ s.seg.zBend = true)
    (hpv : c.ps[i - 2]? = some pv) (hnx : c.ps[i + 1]? = some nx) :
    s.seg.fixed = false ∧ s.seg.finalSeg = false ∧ ¬ (s.seg.sBend = true ∧ s.seg.zBend = true) ∧
    min (pv.c dim) (nx.c dim) ≤ s.seg.minLim ∧ s.seg.maxLim ≤ max (pv.c dim) (nx.c dim) ∧
    (s.seg.zBend = true → pv.c dim < s.seg.pos ∧ s.seg.pos < nx.c dim) ∧
    (s.seg.sBend = true → nx.c dim < s.seg.pos ∧ s.seg.pos < pv.c dim) := by
  obtain ⟨a, b, _, _, _, heq, _, hc⟩ := segAt_cases nf lims dim c i s h
  have hf := fixedPart_fields dim c i a b
  have hp := g_pos dim a b heq
  have hfix : ¬ ((fixedPart dim c i a b).seg.sBend = true ∨ (fixedPart dim c i a b).seg.zBend = true) := by
    rw [hf.2.2.2.2.1, hf.2.2.2.2.2.1]; simp
  rcases hc with ⟨_, _, rfl⟩ | ⟨_, _, rfl⟩ | ⟨_, _, hc⟩ | ⟨_, _, pv', nx', hpv', hnx', rfl⟩
  · exact absurd hz hfix
  · exact absurd hz hfix
  · rcases hc with ⟨_, rfl⟩ | ⟨_, rfl⟩
    · exact absurd hz hfix
    · have he := endFree_fields lims dim c i a b
      rw [he.2.2.1, he.2.2.2.1] at hz
      simp at hz
  · rw [hpv] at hpv'; rw [hnx] at hnx'
    cases hpv'; cases hnx'
    have hm := midPart_fields dim c i a b pv nx
    have hg := midPart_geom dim c i a b pv nx
    have hs := midLims_spec dim c i b pv nx
    rw [hm.2.2.2.2.1, hm.2.2.2.2.2] at hz ⊢
    rw [hm.1, hm.2.1, hm.2.2.1, hm.2.2.2.1, hg.1, hp, heq]
    refine ⟨rfl, rfl, hs.2.2.2.2.1, ?_, ?_, ?_, ?_⟩
    · rcases hz with hz | hz
      · have := hs.2.2.2.2.2.2 hz; grind
      · have := hs.2.2.2.2.2.1 hz; grind
    · rcases hz with hz | hz
      · have := hs.2.2.2.2.2.2 hz; grind
      · have := hs.2.2.2.2.2.1 hz; grind
    · intro hz'; have := hs.2.2.2.2.2.1 hz'; exact ⟨this.1, this.2.1⟩
    · intro hz'; have := hs.2.2.2.2.2.2 hz'; exact ⟨this.1, this.2.1⟩

/-- basic facts: connector id, position, extent -/
theorem segAt_basic (nf : Bool) (lims : List Rect) (dim : Nat) (c : Conn) (i : Nat) (s : MSeg)
    (h : segAt nf lims dim c i = some s) :
    ∃ a b, 1 ≤ i ∧ c.ps[i - 1]? = some a ∧ c.ps[i]? = some b ∧ a.c dim = b.c dim ∧ s.seg.pos = a.c dim ∧ s.seg.conn = c.id ∧
      s.seg.lo = min (a.c (alt dim)) (b.c (alt dim)) ∧ s.seg.hi = max (a.c (alt dim)) (b.c (alt dim)) ∧ s.seg.lo < s.seg.hi ∧
      ((s.idxLow = i - 1 ∧ s.idxHigh = i) ∨ (s.idxLow = i ∧ s.idxHigh = i - 1)) := by
  obtain ⟨a, b, hi, ha, hb, heq, hne, hc⟩ := segAt_cases nf lims dim c i s h
  have hp := g_pos dim a b heq
  have he := g_extent dim a b hne
  have hx := g_idx dim i a b
  have key : ∀ t : MSeg, (t.seg.pos = gPos dim a b ∧ t.seg.conn = c.id ∧ t.seg.lo = gLo dim a b ∧ t.seg.hi = gHi dim a b ∧
      t.idxLow = gIl dim i a b ∧ t.idxHigh = gIh dim i a b) →
      t.seg.pos = a.c dim ∧ t.seg.conn = c.id ∧
      t.seg.lo = min (a.c (alt dim)) (b.c (alt dim)) ∧ t.seg.hi = max (a.c (alt dim)) (b.c (alt dim)) ∧ t.seg.lo < t.seg.hi ∧
      ((t.idxLow = i - 1 ∧ t.idxHigh = i) ∨ (t.idxLow = i ∧ t.idxHigh = i - 1)) := by
    intro t ht
    rw [ht.1, ht.2.1, ht.2.2.1, ht.2.2.2.1, ht.2.2.2.2.1, ht.2.2.2.2.2]
    exact ⟨hp, rfl, he.1, he.2.1, he.2.2, hx⟩
  refine ⟨a, b, hi, ha, hb, heq, ?_⟩
  rcases hc with ⟨_, _, rfl⟩ | ⟨_, _, rfl⟩ | ⟨_, _, hc⟩ | ⟨_, _, pv, nx, _, _, rfl⟩
  · exact key _ (fixedPart_geom dim c i a b)
  · exact key _ (fixedPart_geom dim c i a b)
  · rcases hc with ⟨_, rfl⟩ | ⟨_, rfl⟩
    · exact key _ (fixedPart_geom dim c i a b)
    · exact key _ (endFree_geom lims dim c i a b)
  · exact key _ (midPart_geom dim c i a b pv nx)

end AdaptaVerif.Lemmas.NudgeSegsSpec
