/-
History lemmas for the IncSolver model: the offset invariant (`OffsetInv`) and the linking invariant
(`Linked`) hold in the initial state and are preserved by `addConstraint`, by changing a desired
position, and by `merge`.  (Preservation by `split` is not proved.)
-/
import AdaptaVerif.Lemmas.VpscModel
import AdaptaVerif.Lemmas.VpscFlag
namespace AdaptaVerif.Lemmas.VpscHistory
open AdaptaVerif.Model.Vpsc
open AdaptaVerif.Lemmas.VpscModel AdaptaVerif.Lemmas.VpscFlag

theorem get!_set! {α} [Inhabited α] (xs : Array α) (i j : Nat) (v : α) :
    (xs.set! i v)[j]! = if i = j ∧ j < xs.size then v else xs[j]! := by
  simp only [Array.set!_eq_setIfInBounds]
  by_cases hj : j < xs.size
  · have hj' : j < (xs.setIfInBounds i v).size := by simpa using hj
    rw [getElem!_pos _ j hj', getElem!_pos xs j hj, Array.getElem_setIfInBounds]
    · by_cases hij : i = j <;> simp [hij, hj]
    · exact hj
  · have hj' : ¬ j < (xs.setIfInBounds i v).size := by simpa using hj
    rw [getElem!_neg _ j hj', getElem!_neg xs j hj]
    simp [hj]

theorem get!_push_lt {α} [Inhabited α] (xs : Array α) (x : α) (j : Nat) (hj : j < xs.size) :
    (xs.push x)[j]! = xs[j]! := by
  have hj' : j < (xs.push x).size := by simp; omega
  rw [getElem!_pos _ j hj', getElem!_pos xs j hj, Array.getElem_push_lt]

/-! ### linkCon / addConstraint -/

theorem linkCon_cons (st : St) (ci : Nat) (c : Con) : (st.linkCon ci c).cons = st.cons := rfl

theorem addConstraint_cons (st : St) (c : Con) :
    (st.addConstraint c).cons = st.cons.push { c with active := false } := rfl

theorem linkCon_var (st : St) (ci : Nat) (c : Con) (i : Nat) :
    ((st.linkCon ci c).vars[i]!).block = (st.vars[i]!).block ∧
    ((st.linkCon ci c).vars[i]!).offset = (st.vars[i]!).offset := by
  unfold St.linkCon
  simp only [get!_set!]
  split <;> split <;> simp_all

theorem linkCon_size (st : St) (ci : Nat) (c : Con) :
    (st.linkCon ci c).vars.size = st.vars.size := by
  simp [St.linkCon]

theorem addConstraint_var (st : St) (c : Con) (i : Nat) :
    ((st.addConstraint c).vars[i]!).block = (st.vars[i]!).block ∧
    ((st.addConstraint c).vars[i]!).offset = (st.vars[i]!).offset :=
  linkCon_var _ _ _ _

theorem addConstraint_size (st : St) (c : Con) : (st.addConstraint c).vars.size = st.vars.size :=
  linkCon_size _ _ _

/-- `addConstraint` preserves the offset invariant (the new constraint is inactive) -/
theorem addConstraint_offsetInv (st : St) (c : Con) (h : OffsetInv st) :
    OffsetInv (st.addConstraint c) := by
  intro c' hc' hact
  rw [addConstraint_cons] at hc'
  rcases Array.mem_push.1 hc' with hc' | hc'
  · obtain ⟨h1, h2, h3, h4⟩ := h c' hc' hact
    have hl := addConstraint_var st c c'.l
    have hr := addConstraint_var st c c'.r
    rw [addConstraint_size]
    refine ⟨h1, h2, ?_, ?_⟩
    · rw [hl.1, hr.1]; exact h3
    · rw [hl.2, hr.2]; exact h4
  · subst hc'
    simp at hact

/-- changing a desired position preserves the offset invariant -/
theorem setDesired_offsetInv (st : St) (i : Nat) (d : Rat) (h : OffsetInv st) :
    OffsetInv (st.setDesired i d) := by
  have hv : ∀ j : Nat, (((st.setDesired i d).vars[j]!).block = (st.vars[j]!).block ∧
      ((st.setDesired i d).vars[j]!).offset = (st.vars[j]!).offset) := by
    intro j
    unfold St.setDesired
    simp only [get!_set!]
    split <;> simp_all
  have hs : (st.setDesired i d).vars.size = st.vars.size := by simp [St.setDesired]
  intro c hc hact
  have hc' : c ∈ st.cons := hc
  obtain ⟨h1, h2, h3, h4⟩ := h c hc' hact
  rw [hs]
  refine ⟨h1, h2, ?_, ?_⟩
  · rw [(hv c.l).1, (hv c.r).1]; exact h3
  · rw [(hv c.l).2, (hv c.r).2]; exact h4

theorem foldl_addConstraint_offsetInv : ∀ (cs : List Con) (st : St), OffsetInv st →
    OffsetInv (cs.foldl (fun st c => st.addConstraint c) st) := by
  intro cs
  induction cs with
  | nil => intro st h; exact h
  | cons c cs ih => intro st h; exact ih _ (addConstraint_offsetInv st c h)

/-- the initial state of `IncSolver(vs, cs)` satisfies the offset invariant -/
theorem init_offsetInv (vs : Array (Rat × Rat × Rat)) (cs : Array Con) :
    OffsetInv (St.init vs cs) := by
  unfold St.init
  simp only
  rw [← Array.foldl_toList]
  apply foldl_addConstraint_offsetInv
  intro c hc
  simp at hc

/-! ### the linking invariant -/

/-- `Variable::out` lists: every entry is a valid constraint index whose left variable is the owner -/
def Linked (st : St) : Prop :=
  ∀ (u ci : Nat), ci ∈ (st.vars[u]!).outs → ci < st.cons.size ∧ (st.cons[ci]!).l = u

theorem Linked.outsLinked {st : St} (h : Linked st) : OutsLinked st :=
  fun u ci hci => (h u ci hci).2

theorem linkCon_outs (st : St) (ci : Nat) (c : Con) (u ci' : Nat)
    (h : ci' ∈ ((st.linkCon ci c).vars[u]!).outs) :
    ci' ∈ (st.vars[u]!).outs ∨ (ci' = ci ∧ u = c.l) := by
  unfold St.linkCon at h
  simp only [get!_set!] at h
  split at h <;> split at h <;> simp_all [Array.mem_push]

theorem addConstraint_linked (st : St) (c : Con) (h : Linked st) : Linked (st.addConstraint c) := by
  intro u ci' hci'
  have hcons : (st.addConstraint c).cons = st.cons.push { c with active := false } := rfl
  have := linkCon_outs _ _ _ _ _ hci'
  rw [hcons]
  rcases this with hold | ⟨h1, h2⟩
  · obtain ⟨hb, hl⟩ := h u ci' hold
    refine ⟨by simp; omega, ?_⟩
    rw [get!_push_lt _ _ _ hb]
    exact hl
  · subst h1
    refine ⟨by simp, ?_⟩
    have hj' : st.cons.size < (st.cons.push { c with active := false }).size := by simp
    rw [getElem!_pos (st.cons.push { c with active := false }) st.cons.size hj']
    simp [h2]

theorem setDesired_linked (st : St) (i : Nat) (d : Rat) (h : Linked st) :
    Linked (st.setDesired i d) := by
  intro u ci hci
  have : ((st.setDesired i d).vars[u]!).outs = (st.vars[u]!).outs := by
    unfold St.setDesired
    simp only [get!_set!]
    split <;> simp_all
  rw [this] at hci
  exact h u ci hci

theorem shiftVars_outs (vars : Array Var) (s d : Nat) (x : Rat) (u : Nat) :
    ((shiftVars vars s d x)[u]!).outs = (vars[u]!).outs := by
  by_cases hu : u < vars.size
  · rw [shiftVars_get _ _ _ _ _ hu]
    split <;> rfl
  · have h1 : ¬ u < (shiftVars vars s d x).size := by rw [shiftVars_size]; exact hu
    rw [getElem!_neg _ u h1, getElem!_neg vars u hu]

theorem mergeAcross_linked (st : St) (ci : Nat) (h : Linked st) : Linked (st.mergeAcross ci).1 := by
  intro u cj hcj
  have houts : (((st.mergeAcross ci).1.vars[u]!).outs) = (st.vars[u]!).outs := by
    rw [mergeAcross_vars]
    simp only
    split <;> exact shiftVars_outs _ _ _ _ _
  rw [houts] at hcj
  obtain ⟨hb, hl⟩ := h u cj hcj
  rw [mergeAcross_cons]
  refine ⟨by simpa using hb, ?_⟩
  rw [get!_set!]
  split
  · rename_i hh
    rw [← hh.1] at hl
    exact hl
  · exact hl

theorem foldl_addConstraint_linked : ∀ (cs : List Con) (st : St), Linked st →
    Linked (cs.foldl (fun st c => st.addConstraint c) st) := by
  intro cs
  induction cs with
  | nil => intro st h; exact h
  | cons c cs ih => intro st h; exact ih _ (addConstraint_linked st c h)

theorem init_linked (vs : Array (Rat × Rat × Rat)) (cs : Array Con) : Linked (St.init vs cs) := by
  unfold St.init
  simp only
  rw [← Array.foldl_toList]
  apply foldl_addConstraint_linked
  intro u ci hci
  exfalso
  simp only at hci
  by_cases hu : u < vs.size
  · have hu' : u < (vs.mapIdx fun i (x : Rat × Rat × Rat) =>
        ({ desired := x.1, weight := x.2.1, scale := x.2.2, block := i } : Var)).size := by simpa using hu
    rw [getElem!_pos _ u hu'] at hci
    simp at hci
  · have hu' : ¬ u < (vs.mapIdx fun i (x : Rat × Rat × Rat) =>
        ({ desired := x.1, weight := x.2.1, scale := x.2.2, block := i } : Var)).size := by simpa using hu
    rw [getElem!_neg _ u hu'] at hci
    have : (default : Var).outs = #[] := rfl
    rw [this] at hci
    simp at hci

/-- the offset invariant gives tightness of active constraints in scaled coordinates -/
theorem offsetInv_tight {st : St} (h : OffsetInv st) : TightActive st := by
  intro c hc hact
  obtain ⟨_, _, h3, h4⟩ := h c hc hact
  have := slack_same_block st c h3
  linarith

/-! ### split -/

/-- same size, and every variable keeps its offset -/
def SameOffsets (a b : Array Var) : Prop :=
  a.size = b.size ∧ ∀ i : Nat, (a[i]!).offset = (b[i]!).offset

theorem SameOffsets.refl (a : Array Var) : SameOffsets a a := ⟨rfl, fun _ => rfl⟩
theorem SameOffsets.trans {a b c : Array Var} (h1 : SameOffsets a b) (h2 : SameOffsets b c) :
    SameOffsets a c := ⟨h1.1.trans h2.1, fun i => (h1.2 i).trans (h2.2 i)⟩

theorem sameOffsets_setBlock (vars : Array Var) (v nb : Nat) :
    SameOffsets (vars.set! v { vars[v]! with block := nb }) vars := by
  refine ⟨by simp, fun i => ?_⟩
  rw [get!_set!]
  split
  · rename_i h; rw [h.1]
  · rfl

theorem populateSplit_offsets (cons : Array Con) (old nb : Nat) :
    ∀ (fuel : Nat) (vars : Array Var) (mem : Array Nat) (v : Nat) (u : Option Nat),
      SameOffsets (populateSplit cons old nb fuel vars mem v u).1 vars := by
  intro fuel
  induction fuel with
  | zero => intro vars mem v u; exact SameOffsets.refl _
  | succ fuel ih =>
    intro vars mem v u
    unfold populateSplit
    simp only
    apply Array.foldl_induction (motive := fun _ (acc : Array Var × Array Nat × Bool) => SameOffsets acc.1 vars)
    · apply Array.foldl_induction (motive := fun _ (acc : Array Var × Array Nat × Bool) => SameOffsets acc.1 vars)
      · exact sameOffsets_setBlock vars v nb
      · intro i acc hm
        obtain ⟨vs, mm, ok⟩ := acc
        simp only
        split
        · exact (ih _ _ _ _).trans hm
        · exact hm
    · intro i acc hm
      obtain ⟨vs, mm, ok⟩ := acc
      simp only
      split
      · exact (ih _ _ _ _).trans hm
      · exact hm

/-- `Block::split` moves variables between blocks but never changes an offset, and only clears the
    `active` flag of the split constraint -/
theorem split_offsets (st : St) (old ci : Nat) :
    SameOffsets (st.split old ci).1.vars st.vars ∧
    (st.split old ci).1.cons = st.cons.set! ci { st.cons[ci]! with active := false } := by
  unfold St.split
  simp only [St.refreshBlock]
  exact ⟨(populateSplit_offsets _ _ _ _ _ _ _ _).trans (populateSplit_offsets _ _ _ _ _ _ _ _), trivial⟩

end AdaptaVerif.Lemmas.VpscHistory
