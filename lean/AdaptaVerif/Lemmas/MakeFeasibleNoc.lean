/-
The invariant of `makeFeasible` (`Lemmas/MakeFeasibleInv.lean`) survives the non-overlap phase
(`MF.runNoc`): the lazily generated alternatives of a shape pair are well-formed constraints over the
node variables, and every iteration runs the same `tryAlts` as the user-constraint loop.
-/
import AdaptaVerif.Lemmas.MakeFeasibleInv
namespace AdaptaVerif.Lemmas.MakeFeasibleNoc
open AdaptaVerif.Model.MakeFeasible AdaptaVerif.Model.Vpsc
open AdaptaVerif.Model.Compound (Dim)
open AdaptaVerif.Lemmas.MakeFeasibleInv

/-- the pair refers to node variables that exist in both dimensions -/
def PairWf (nx ny : Nat) (p : PairInfo) : Prop := p.v1 < nx ∧ p.v2 < nx ∧ p.v1 < ny ∧ p.v2 < ny

/-- every pair refers to node variables that exist in both dimensions -/
def NocWf (noc : Noc) (nx ny : Nat) : Prop :=
  ∀ p ∈ noc.pairs, p.v1 < nx ∧ p.v2 < nx ∧ p.v1 < ny ∧ p.v2 < ny

/-! ### the pair list: sorting and recomputation never touch `v1`, `v2` -/

theorem insertPair_mem (a x : PairInfo) : ∀ l : List PairInfo, x ∈ insertPair a l → x = a ∨ x ∈ l
  | [], h => by
    unfold insertPair at h
    simp at h
    exact Or.inl h
  | b :: t, h => by
    unfold insertPair at h
    split at h
    · rcases List.mem_cons.1 h with h | h
      · exact Or.inr (by simp [h])
      · rcases insertPair_mem a x t h with h | h
        · exact Or.inl h
        · exact Or.inr (by simp [h])
    · rcases List.mem_cons.1 h with h | h
      · exact Or.inl h
      · exact Or.inr h

theorem sortPairs_mem (x : PairInfo) : ∀ l : List PairInfo, x ∈ sortPairs l → x ∈ l
  | [], h => by simp [sortPairs] at h
  | b :: t, h => by
    have h' : x ∈ insertPair b (sortPairs t) := h
    rcases insertPair_mem b x _ h' with h | h
    · simp [h]
    · exact List.mem_cons_of_mem _ (sortPairs_mem x t h)

theorem go_mem (noc : Noc) (fx fy ix iy : Array Rat) (exAt : Array Rat → Array Rat → PairInfo → Bool)
    (q : PairInfo) : ∀ (l : List PairInfo) (stop : Bool) (m : Rat),
    q ∈ (Noc.computeAndSort.go noc fx fy ix iy exAt l stop m).1 → ∃ p ∈ l, q.v1 = p.v1 ∧ q.v2 = p.v2
  | [], stop, m, h => by
    unfold Noc.computeAndSort.go at h
    simp at h
  | p :: t, stop, m, h => by
    unfold Noc.computeAndSort.go at h
    split at h
    · simp only at h
      rcases List.mem_cons.1 h with h | h
      · exact ⟨p, by simp, by rw [h], by rw [h]⟩
      · obtain ⟨p', hp', e⟩ := go_mem noc fx fy ix iy exAt q t _ _ h
        exact ⟨p', List.mem_cons_of_mem _ hp', e⟩
    · simp only at h
      rcases List.mem_cons.1 h with h | h
      · exact ⟨p, by simp, by rw [h], by rw [h]⟩
      · obtain ⟨p', hp', e⟩ := go_mem noc fx fy ix iy exAt q t _ _ h
        exact ⟨p', List.mem_cons_of_mem _ hp', e⟩

theorem computeAndSort_wf (noc : Noc) (fx fy : Array Rat) (exact : Bool) (ix iy : Array Rat)
    (nx ny : Nat) (h : NocWf noc nx ny) : NocWf (noc.computeAndSort fx fy exact ix iy) nx ny := by
  intro q hq
  unfold Noc.computeAndSort at hq
  simp only at hq
  obtain ⟨p, hp, e1, e2⟩ := go_mem _ _ _ _ _ _ q _ _ _ (sortPairs_mem q _ hq)
  rw [e1, e2]
  exact h p hp

/-! ### the alternatives of a pair -/

theorem insertCost_mem (a x : CostAlt) : ∀ l : List CostAlt, x ∈ insertCost a l → x = a ∨ x ∈ l
  | [], h => by
    unfold insertCost at h
    simp at h
    exact Or.inl h
  | b :: t, h => by
    unfold insertCost at h
    split at h
    · rcases List.mem_cons.1 h with h | h
      · exact Or.inr (by simp [h])
      · rcases insertCost_mem a x t h with h | h
        · exact Or.inl h
        · exact Or.inr (by simp [h])
    · rcases List.mem_cons.1 h with h | h
      · exact Or.inl h
      · exact Or.inr h

theorem foldr_insertCost_mem (x : CostAlt) : ∀ l : List CostAlt, x ∈ l.foldr insertCost [] → x ∈ l
  | [], h => by simp at h
  | b :: t, h => by
    rw [List.foldr_cons] at h
    rcases insertCost_mem b x _ h with h | h
    · simp [h]
    · exact List.mem_cons_of_mem _ (foldr_insertCost_mem x t h)

theorem pairAlternatives_wf (half : Array (Rat × Rat)) (dx dy : Array Rat) (p : PairInfo)
    (nx ny : Nat) (hp : p.v1 < nx ∧ p.v2 < nx ∧ p.v1 < ny ∧ p.v2 < ny) :
    ∀ a ∈ pairAlternatives half dx dy p, Alt.wf nx ny a = true := by
  intro a ha
  unfold pairAlternatives at ha
  simp only at ha
  obtain ⟨ca, hca, rfl⟩ := List.mem_map.1 ha
  have := foldr_insertCost_mem ca _ hca
  simp only [List.mem_cons, List.not_mem_nil, or_false] at this
  obtain ⟨h1, h2, h3, h4⟩ := hp
  rcases this with rfl | rfl | rfl | rfl <;> simp [Alt.wf, mkCon, h1, h2, h3, h4]

/-! ### `getCurr`, `mark` -/

theorem getCurr_wf (noc : Noc) (mf : MF) (exact : Bool) (nx ny : Nat) (h : NocWf noc nx ny) :
    NocWf (noc.getCurr mf exact).1 nx ny ∧ ∀ a ∈ (noc.getCurr mf exact).2, Alt.wf nx ny a = true := by
  unfold Noc.getCurr
  simp only
  generalize hn1 : (if noc.initialSort = true then noc
    else { (noc.computeAndSort mf.x.final mf.y.final exact (mf.x.vars.map (·.1)) (mf.y.vars.map (·.1))) with
           sorted := true, initialSort := true }) = n1
  have h1 : NocWf n1 nx ny := by
    subst hn1
    split
    · exact h
    · exact computeAndSort_wf noc _ _ _ _ _ nx ny h
  clear hn1 h
  split
  · exact ⟨h1, fun a ha => by simp at ha⟩
  · rename_i front rest hpairs
    have hfront := h1 front (by rw [hpairs]; simp)
    have h2 : ∀ (f : PairInfo) (m : Rat), f.v1 = front.v1 → f.v2 = front.v2 →
        NocWf { n1 with pairs := f :: rest, margin := m } nx ny := by
      intro f m e1 e2 q hq
      rcases List.mem_cons.1 hq with hq | hq
      · rw [hq, e1, e2]; exact hfront
      · exact h1 q (by rw [hpairs]; exact List.mem_cons_of_mem _ hq)
    have hnil : ∀ a ∈ ([] : List Alt), Alt.wf nx ny a = true := fun a ha => by simp at ha
    split
    · -- sorted: the front pair as it is
      simp only
      split
      · exact ⟨h1, hnil⟩
      · exact ⟨h1, pairAlternatives_wf _ _ _ _ nx ny hfront⟩
    · -- not sorted: the front pair is recomputed
      simp only
      split
      · exact ⟨computeAndSort_wf _ _ _ _ _ _ nx ny (h2 _ _ rfl rfl), hnil⟩
      · exact ⟨h2 _ _ rfl rfl, pairAlternatives_wf _ _ _ _ nx ny hfront⟩

theorem mark_wf (noc : Noc) (sat : Bool) (nx ny : Nat) (h : NocWf noc nx ny) :
    NocWf (noc.mark sat) nx ny := by
  unfold Noc.mark
  split
  · exact h
  · rename_i front rest hpairs
    intro q hq
    rcases List.mem_append.1 hq with hq | hq
    · exact h q (by rw [hpairs]; exact List.mem_cons_of_mem _ hq)
    · simp only [List.mem_singleton] at hq
      rw [hq]
      exact h front (by rw [hpairs]; simp)

/-! ### the loop -/

theorem runNoc_ustep (cc : Nat) : ∀ (fuel : Nat) (mf : MF) (noc : Noc) (mf' : MF) (noc' : Noc),
    MF.runNoc cc fuel mf noc = some (mf', noc') → NocWf noc mf.x.vars.size mf.y.vars.size →
    UStep mf mf' ∧ NocWf noc' mf.x.vars.size mf.y.vars.size
  | 0, mf, noc, mf', noc', h, _ => by
    unfold MF.runNoc at h
    cases h
  | fuel + 1, mf, noc, mf', noc', h, hw => by
    unfold MF.runNoc at h
    split at h
    · simp only [Option.some.injEq, Prod.mk.injEq] at h
      obtain ⟨rfl, rfl⟩ := h
      exact ⟨UStep.refl _, hw⟩
    · simp only at h
      obtain ⟨g1, g2⟩ := getCurr_wf noc mf mf.positionsExact _ _ hw
      split at h
      · exact runNoc_ustep cc fuel mf _ mf' noc' h g1
      · have hs := tryAlts_ustep cc mf.marks.size (noc.getCurr mf mf.positionsExact).2 mf 0 g2
        have hs2 : UStep mf
            { (mf.tryAlts cc mf.marks.size 0 (noc.getCurr mf mf.positionsExact).2).1 with
              marks := (mf.tryAlts cc mf.marks.size 0 (noc.getCurr mf mf.positionsExact).2).1.marks.push
                (cc, (mf.tryAlts cc mf.marks.size 0 (noc.getCurr mf mf.positionsExact).2).1.marks.size,
                 (mf.tryAlts cc mf.marks.size 0 (noc.getCurr mf mf.positionsExact).2).2) } :=
          hs.trans (UStep.of_same rfl rfl rfl rfl rfl rfl)
        have hm := mark_wf (noc.getCurr mf mf.positionsExact).1
          (mf.tryAlts cc mf.marks.size 0 (noc.getCurr mf mf.positionsExact).2).2 _ _ g1
        have ih := runNoc_ustep cc fuel _ _ mf' noc' h (by rw [hs2.xv, hs2.yv]; exact hm)
        rw [hs2.xv, hs2.yv] at ih
        exact ⟨hs2.trans ih.1, ih.2⟩

/-- **the invariant survives the non-overlap phase**; frame: `n`, `vars`, `combineFlags`, `escaped`
    unchanged, `fuelOut` only grows, the pair list stays well-formed -/
theorem runNoc_good (cc : Nat) (fuel : Nat) (mf : MF) (noc : Noc) (mf' : MF) (noc' : Noc)
    (h : MF.runNoc cc fuel mf noc = some (mf', noc'))
    (hw : NocWf noc mf.x.vars.size mf.y.vars.size) :
    mf'.n = mf.n ∧ mf'.x.vars = mf.x.vars ∧ mf'.y.vars = mf.y.vars ∧
    mf'.combineFlags = mf.combineFlags ∧ mf'.escaped = mf.escaped ∧
    (mf'.fuelOut = false → mf.fuelOut = false) ∧
    (Good mf.n mf.x ∧ Good mf.n mf.y → Good mf'.n mf'.x ∧ Good mf'.n mf'.y) ∧
    NocWf noc' mf.x.vars.size mf.y.vars.size := by
  obtain ⟨hs, hw'⟩ := runNoc_ustep cc fuel mf noc mf' noc' h hw
  exact ⟨hs.n, hs.xv, hs.yv, hs.flags, hs.esc, hs.fuel, hs.good, hw'⟩

theorem ofSizes_wf (half : Array (Rat × Rat)) (nx ny : Nat) (hn : half.size ≤ nx ∧ half.size ≤ ny) :
    NocWf (Noc.ofSizes half) nx ny := by
  intro p hp
  unfold Noc.ofSizes at hp
  simp only [List.mem_flatMap, List.mem_map, List.mem_range] at hp
  obtain ⟨i, hi, j, hj, rfl⟩ := hp
  simp only
  omega

/-- the whole pipeline: user constraints, then the non-overlap item -/
theorem makeFeasible_noc_good (n : Nat) (vx vy : Array (Rat × Rat × Rat)) (items : List Item)
    (half : Array (Rat × Rat)) (cc fuel : Nat) (mf' : MF) (noc' : Noc)
    (hwf : itemsWf vx.size vy.size items = true) (hn : half.size ≤ vx.size ∧ half.size ≤ vy.size)
    (hrun : MF.runNoc cc fuel (makeFeasible n vx vy items) (Noc.ofSizes half) = some (mf', noc'))
    (hclean : mf'.combineFlags = #[]) (hesc : mf'.escaped = false) (hfuel : mf'.fuelOut = false) :
    Good n mf'.x ∧ Good n mf'.y ∧ mf'.x.vars = vx ∧ mf'.y.vars = vy ∧ mf'.n = n := by
  have hs0 : Step (MF.init n vx vy) (makeFeasible n vx vy items) :=
    run_step items (MF.init n vx vy) (itemsWf_mem hwf)
  have ex : (makeFeasible n vx vy items).x.vars = vx := hs0.frame.xv
  have ey : (makeFeasible n vx vy items).y.vars = vy := hs0.frame.yv
  have en : (makeFeasible n vx vy items).n = n := hs0.frame.n
  obtain ⟨hs, _⟩ := runNoc_ustep cc fuel _ _ mf' noc' hrun
    (by rw [ex, ey]; exact ofSizes_wf half _ _ hn)
  have hg := hs0.good (mfgood_init n vx vy) (by rw [← hs.flags]; exact hclean)
    (by rw [← hs.esc]; exact hesc) (hs.fuel hfuel)
  have hg' := hs.good hg
  rw [hs.n, en] at hg'
  exact ⟨hg'.1, hg'.2, hs.xv.trans ex, hs.yv.trans ey, hs.n.trans en⟩

end AdaptaVerif.Lemmas.MakeFeasibleNoc
