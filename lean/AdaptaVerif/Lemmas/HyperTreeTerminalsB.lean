/-
C12: executable form of the side condition `NoLeafZero` (used by the driver to decide on which real
states the terminal-set theorem applies) and its soundness.
-/
import AdaptaVerif.Lemmas.HyperTreeTerminals
namespace AdaptaVerif.Lemmas.HyperTreeTerminals
open AdaptaVerif.Model.HyperTree AdaptaVerif.Check.Tree AdaptaVerif.Spec.Tree AdaptaVerif.Lemmas.HyperTree

theorem pt_beq_self (p : AdaptaVerif.Model.Geometry.Pt) : (p == p) = true := by
  cases p
  simp only [BEq.beq]
  unfold AdaptaVerif.Model.Geometry.instBEqPt.beq
  simp

theorem zeroLength_of_zeroLen {t : HTree} (hw : WF t) {e : HEdge} (h : ZeroLen t e) : zeroLength t e = true := by
  obtain ⟨na, hna, nb, hnb, h1, h2, hp⟩ := h
  unfold zeroLength pointOf
  rw [h1, h2]
  simp only [node?_of_mem hw.nodupN hna, node?_of_mem hw.nodupN hnb, Option.map_some]
  rw [hp]
  exact pt_beq_self _

theorem noLeafZerob_sound {t : HTree} (hw : WF t) (h : noLeafZerob t = true) : NoLeafZero t := by
  intro e he hfree hz a b hj
  have := List.all_eq_true.mp h e he
  rw [hfree, zeroLength_of_zeroLen hw hz] at this
  simp only [Bool.false_or, Bool.not_true] at this
  rcases hj with ⟨j1, j2⟩ | ⟨j1, j2⟩
  · rw [j1, j2] at this
    simp only [Bool.and_eq_true, decide_eq_true_eq] at this
    exact this
  · rw [j1, j2] at this
    simp only [Bool.and_eq_true, decide_eq_true_eq] at this
    exact ⟨this.2, this.1⟩

end AdaptaVerif.Lemmas.HyperTreeTerminals
