/-
C15 (A) — helper lemmas, part 3: `Router::processActions` on a well-formed queue raises no fault,
whether transactions are on or off (since /repo 448bcee nothing re-enters `processTransaction`, so a
queue left over from `setTransactionUse(false)` is simply processed by the next mutator).
-/
import AdaptaVerif.Lemmas.LifecycleQueue
namespace AdaptaVerif.Lemmas.Lifecycle
open AdaptaVerif.Model.Lifecycle AdaptaVerif.Spec.Lifecycle

/-! ### `processActions` on a well-formed queue raises no fault -/

def isObstT (t : AType) : Bool := isRemove t || isMove t || isAdd t

/-- two queue entries do not conflict: an obstacle with a queued removal has no other obstacle action -/
def RS (a b : Action) : Prop :=
  (isRemove a.type = true ∨ isRemove b.type = true) → isObstT a.type = true → isObstT b.type = true →
    a.obj ≠ b.obj

def CActsOk (HC HO : Id → Prop) (acts : List Action) : Prop :=
  ∀ a ∈ acts, a.type = .connChange → HC a.obj ∧ ∀ u ∈ a.ends, ∀ an, u.2 = some an → HO an.obj

theorem mem_followers {cs : List Conn} {o : Id} {f : Id × Bool × Anchor} (h : f ∈ followers cs o) :
    f.1 ∈ cs.map (·.id) ∧ f.2.2.obj = o := by
  unfold followers at h
  rw [List.mem_flatMap] at h
  obtain ⟨c, hc, hf⟩ := h
  rw [List.mem_append] at hf
  rcases hf with hf | hf
  · cases hs : c.src with
    | none => simp [hs] at hf
    | some x =>
      simp only [hs] at hf
      split at hf
      · rename_i hx
        simp only [List.mem_singleton] at hf
        subst hf
        exact ⟨List.mem_map.2 ⟨c, hc, rfl⟩, by simpa using hx⟩
      · cases hf
  · cases hs : c.dst with
    | none => simp [hs] at hf
    | some x =>
      simp only [hs] at hf
      split at hf
      · rename_i hx
        simp only [List.mem_singleton] at hf
        subst hf
        exact ⟨List.mem_map.2 ⟨c, hc, rfl⟩, by simpa using hx⟩
      · cases hf

theorem cActsOk_modifyConn {HC HO : Id → Prop} {acts : List Action} (h : CActsOk HC HO acts) {c : Id}
    (d : Bool) {e : EndSpec} (pm : Bool) (hc : HC c) (he : ∀ an, e = some an → HO an.obj) :
    CActsOk HC HO (modifyConn acts c d e pm) := by
  unfold modifyConn
  split
  · intro a ha
    simp only [List.mem_map] at ha
    obtain ⟨a0, ha0, rfl⟩ := ha
    split
    · intro x
      have h3 := h a0 ha0 x
      refine ⟨h3.1, ?_⟩
      intro u hu an han
      rcases mem_mergeEnd hu with hu | rfl
      · exact h3.2 u hu an han
      · exact he an han
    · exact h a0 ha0
  · intro a ha
    simp only [List.mem_append, List.mem_singleton] at ha
    rcases ha with ha | rfl
    · exact h a ha
    · intro _
      refine ⟨hc, ?_⟩
      intro u hu an han
      simp only [List.mem_singleton] at hu
      subst hu; exact he an han

theorem procRemoveMove_remove {t : St} {a : Action} (hr : isRemove a.type = true)
    (ho : t.hasObst a.obj = true) :
    procRemoveMove t a = { t.freeObstacle a.obj with
      actions := (t.actions ++ List.map (fun p : Pin => ({ type := .pinChange, obj := p.id } : Action))
        (t.pinsOf a.obj)) } := by
  unfold procRemoveMove
  rw [if_pos hr, if_neg (by simp [ho])]

theorem procRemoveMove_move {t : St} {a : Action} (hnr : isRemove a.type = false)
    (hm : isMove a.type = true) (ho : t.hasObst a.obj = true) :
    procRemoveMove t a = { t with
      actions := (followers t.conns a.obj).foldl
        (fun acts f => modifyConn acts f.1 f.2.1 (some f.2.2) true) t.actions
      conns := detachAnchor t.conns a.obj
      obst := t.obst.map (fun x => if x.id == a.obj then { x with active := false } else x) } := by
  unfold procRemoveMove
  rw [if_neg (by simp [hnr]), if_pos hm, if_neg (by simp [ho])]

theorem procRemoveMove_other {t : St} {a : Action} (hnr : isRemove a.type = false)
    (hm : isMove a.type = false) : procRemoveMove t a = t := by
  unfold procRemoveMove
  rw [if_neg (by simp [hnr]), if_neg (by simp [hm])]


theorem foldl_inv_mem {α β : Type} (P : β → Prop) (f : β → α → β) (l : List α)
    (hf : ∀ s a, a ∈ l → P s → P (f s a)) (s : β) (h : P s) : P (l.foldl f s) := by
  induction l generalizing s with
  | nil => exact h
  | cons a l ih =>
    exact ih (fun s x hx => hf s x (List.mem_cons_of_mem _ hx)) _ (hf s a List.mem_cons_self h)

/-- hypotheses of the remove/move pass for the remaining entries `rest` in state `t` -/
structure P1 (Keep : Id → Prop) (t : St) (rest : List Action) : Prop where
  objs : ∀ b ∈ rest, (isRemove b.type = true ∨ isMove b.type = true) → b.obj ∈ oids t
  pw : rest.Pairwise RS
  k1 : ∀ b ∈ rest, isRemove b.type = true → ¬ Keep b.obj
  k2 : ∀ b ∈ rest, isMove b.type = true → Keep b.obj
  keep : ∀ o, Keep o → o ∈ oids t
  acts : CActsOk (· ∈ cids t) Keep t.actions

theorem isObstT_of_remove {t : AType} (h : isRemove t = true) : isObstT t = true := by
  simp [isObstT, h]
theorem isObstT_of_move {t : AType} (h : isMove t = true) : isObstT t = true := by
  simp [isObstT, h]
theorem isObstT_of_add {t : AType} (h : isAdd t = true) : isObstT t = true := by
  simp [isObstT, h]

theorem cids_detachAnchor (cs : List Conn) (o : Id) :
    (detachAnchor cs o).map (·.id) = cs.map (·.id) := by
  simp [detachAnchor, Function.comp_def]

theorem p1_step {Keep : Id → Prop} {t : St} {b : Action} {rest : List Action}
    (h : P1 Keep t (b :: rest)) :
    P1 Keep (procRemoveMove t b) rest ∧ (procRemoveMove t b).faults = t.faults ∧
      cids (procRemoveMove t b) = cids t := by
  obtain ⟨h1, h2, h3, h4, h5, h6⟩ := h
  rw [List.pairwise_cons] at h2
  have h1' : ∀ c ∈ rest, (isRemove c.type = true ∨ isMove c.type = true) → c.obj ∈ oids t :=
    fun c hc => h1 c (List.mem_cons_of_mem _ hc)
  have h3' : ∀ c ∈ rest, isRemove c.type = true → ¬ Keep c.obj := fun c hc => h3 c (List.mem_cons_of_mem _ hc)
  have h4' : ∀ c ∈ rest, isMove c.type = true → Keep c.obj := fun c hc => h4 c (List.mem_cons_of_mem _ hc)
  cases hr : isRemove b.type
  · cases hm : isMove b.type
    · -- neither
      rw [procRemoveMove_other hr hm]
      exact ⟨⟨h1', h2.2, h3', h4', h5, h6⟩, rfl, rfl⟩
    · -- move
      have ho : t.hasObst b.obj = true := hasObst_iff.2 (h1 b List.mem_cons_self (Or.inr hm))
      rw [procRemoveMove_move hr hm ho]
      have eo : ∀ X : St, X.obst = t.obst.map (fun x => if x.id == b.obj then { x with active := false } else x) →
          oids X = oids t := by
        intro X hX
        simp only [oids, hX, List.map_map]
        apply List.map_congr_left
        intro x _; simp only [Function.comp]; split <;> rfl
      have ec : ∀ X : St, X.conns = detachAnchor t.conns b.obj → cids X = cids t := by
        intro X hX; simp only [cids, hX]; exact cids_detachAnchor _ _
      refine ⟨⟨?_, h2.2, h3', h4', ?_, ?_⟩, rfl, ec _ rfl⟩
      · intro c hc hx; rw [eo _ rfl]; exact h1' c hc hx
      · intro o ho'; rw [eo _ rfl]; exact h5 o ho'
      · rw [ec _ rfl]
        refine foldl_inv_mem (CActsOk (· ∈ cids t) Keep) _ _ ?_ _ h6
        intro acts f hf hacts
        obtain ⟨hf1, hf2⟩ := mem_followers hf
        refine cActsOk_modifyConn hacts _ _ hf1 ?_
        intro an han
        cases han
        rw [hf2]; exact h4 b List.mem_cons_self hm
  · -- remove
    have ho : t.hasObst b.obj = true := hasObst_iff.2 (h1 b List.mem_cons_self (Or.inl hr))
    rw [procRemoveMove_remove hr ho]
    have eo : ∀ X : St, X.obst = t.obst.filter (fun x => x.id != b.obj) →
        oids X = (oids t).filter (· != b.obj) := by
      intro X hX; rw [← oids_freeObstacle]; simp only [oids, hX, St.freeObstacle]
    have ec : ∀ X : St, X.conns = detachAnchor t.conns b.obj → cids X = cids t := by
      intro X hX; simp only [cids, hX]; exact cids_detachAnchor _ _
    dsimp only [St.freeObstacle]
    refine ⟨⟨?_, h2.2, h3', h4', ?_, ?_⟩, rfl, ec _ rfl⟩
    · intro c hc hx
      rw [eo _ rfl, List.mem_filter]
      refine ⟨h1' c hc hx, ?_⟩
      have hne := h2.1 c hc (Or.inl hr) (isObstT_of_remove hr)
        (by rcases hx with hx | hx
            · exact isObstT_of_remove hx
            · exact isObstT_of_move hx)
      simpa using fun e => hne e.symm
    · intro o ho'
      rw [eo _ rfl, List.mem_filter]
      refine ⟨h5 o ho', ?_⟩
      have : o ≠ b.obj := by
        rintro rfl; exact h3 b List.mem_cons_self hr ho'
      simpa using this
    · rw [ec _ rfl]
      intro a ha
      simp only [List.mem_append, List.mem_map] at ha
      rcases ha with ha | ⟨p, _, rfl⟩
      · exact h6 a ha
      · intro x; cases x

theorem p1_fold {Keep : Id → Prop} (rest : List Action) (t : St) (h : P1 Keep t rest) :
    (rest.foldl procRemoveMove t).faults = t.faults ∧
    (∀ o, Keep o → o ∈ oids (rest.foldl procRemoveMove t)) ∧
    cids (rest.foldl procRemoveMove t) = cids t ∧
    CActsOk (· ∈ cids t) Keep (rest.foldl procRemoveMove t).actions := by
  induction rest generalizing t with
  | nil => exact ⟨rfl, h.keep, rfl, h.acts⟩
  | cons b rest ih =>
    obtain ⟨hp, hf, hc⟩ := p1_step h
    obtain ⟨a1, a2, a3, a4⟩ := ih _ hp
    exact ⟨a1.trans hf, a2, a3.trans hc, by rw [← hc]; exact a4⟩


theorem procAddMove_ok {t : St} {a : Action}
    (h : (isAdd a.type || isMove a.type) = true → a.obj ∈ oids t) :
    (procAddMove t a).faults = t.faults ∧ oids (procAddMove t a) = oids t ∧
      (procAddMove t a).conns = t.conns ∧ (procAddMove t a).actions = t.actions := by
  unfold procAddMove
  split
  · rename_i hc
    rw [if_neg (by simp [hasObst_iff.2 (h hc)])]
    refine ⟨rfl, ?_, rfl, rfl⟩
    simp only [oids, List.map_map]
    apply List.map_congr_left
    intro x _; simp only [Function.comp]; split <;> rfl
  · exact ⟨rfl, rfl, rfl, rfl⟩

theorem p2_fold (l : List Action) (t : St)
    (h : ∀ b ∈ l, (isAdd b.type || isMove b.type) = true → b.obj ∈ oids t) :
    (l.foldl procAddMove t).faults = t.faults ∧ oids (l.foldl procAddMove t) = oids t ∧
      (l.foldl procAddMove t).conns = t.conns ∧ (l.foldl procAddMove t).actions = t.actions := by
  induction l generalizing t with
  | nil => exact ⟨rfl, rfl, rfl, rfl⟩
  | cons b l ih =>
    obtain ⟨a1, a2, a3, a4⟩ := procAddMove_ok (h b List.mem_cons_self)
    obtain ⟨b1, b2, b3, b4⟩ := ih (procAddMove t b) (fun c hc hx => by
      rw [a2]; exact h c (List.mem_cons_of_mem _ hc) hx)
    exact ⟨b1.trans a1, b2.trans a2, b3.trans a3, b4.trans a4⟩

theorem applyEnd_ok {t : St} {c : Id} {u : Bool × EndSpec}
    (h : ∀ an, u.2 = some an → an.obj ∈ oids t) :
    (applyEnd t c u).faults = t.faults ∧ oids (applyEnd t c u) = oids t ∧
      cids (applyEnd t c u) = cids t := by
  unfold applyEnd
  split
  · refine ⟨rfl, rfl, ?_⟩
    simp only [cids, List.map_map]
    apply List.map_congr_left
    intro x _; simp only [Function.comp]; split
    · exact setEnd_id ..
    · rfl
  · rename_i an han
    rw [if_neg (by simp [hasObst_iff.2 (h an han)])]
    refine ⟨rfl, rfl, ?_⟩
    simp only [cids, List.map_map]
    apply List.map_congr_left
    intro x _; simp only [Function.comp]; split
    · exact setEnd_id ..
    · rfl

theorem applyEnds_ok (c : Id) (l : List (Bool × EndSpec)) (t : St)
    (h : ∀ u ∈ l, ∀ an, u.2 = some an → an.obj ∈ oids t) :
    (l.foldl (fun s u => applyEnd s c u) t).faults = t.faults ∧
      oids (l.foldl (fun s u => applyEnd s c u) t) = oids t ∧
      cids (l.foldl (fun s u => applyEnd s c u) t) = cids t := by
  induction l generalizing t with
  | nil => exact ⟨rfl, rfl, rfl⟩
  | cons u l ih =>
    obtain ⟨a1, a2, a3⟩ := applyEnd_ok (c := c) (h u List.mem_cons_self)
    obtain ⟨b1, b2, b3⟩ := ih (applyEnd t c u) (fun v hv an han => by
      rw [a2]; exact h v (List.mem_cons_of_mem _ hv) an han)
    exact ⟨b1.trans a1, b2.trans a2, b3.trans a3⟩

theorem procConnChange_ok {t : St} {a : Action}
    (h : a.type = .connChange → a.obj ∈ cids t ∧ ∀ u ∈ a.ends, ∀ an, u.2 = some an → an.obj ∈ oids t) :
    (procConnChange t a).faults = t.faults ∧ oids (procConnChange t a) = oids t ∧
      cids (procConnChange t a) = cids t := by
  unfold procConnChange
  split
  · rename_i hc
    have := h (by simpa using hc)
    rw [if_neg (by simp [hasConn_iff.2 this.1])]
    exact applyEnds_ok _ _ _ this.2
  · exact ⟨rfl, rfl, rfl⟩

theorem p3_fold (l : List Action) (t : St) (h : CActsOk (· ∈ cids t) (· ∈ oids t) l) :
    (l.foldl procConnChange t).faults = t.faults ∧ oids (l.foldl procConnChange t) = oids t ∧
      cids (l.foldl procConnChange t) = cids t := by
  induction l generalizing t with
  | nil => exact ⟨rfl, rfl, rfl⟩
  | cons a l ih =>
    obtain ⟨a1, a2, a3⟩ := procConnChange_ok (h a List.mem_cons_self)
    obtain ⟨b1, b2, b3⟩ := ih (procConnChange t a) (by
      rw [a2, a3]; exact fun b hb => h b (List.mem_cons_of_mem _ hb))
    exact ⟨b1.trans a1, b2.trans a2, b3.trans a3⟩

/-- the three passes of `Router::processActions` on a well-formed queue — whatever the transaction
    mode —: no fault, no connector is lost, and every obstacle in `Keep` survives -/
theorem processActions_faults {s : St} (Keep : Id → Prop) (h : P1 Keep s s.actions)
    (hk : ∀ b ∈ s.actions, isAdd b.type = true → Keep b.obj) :
    s.processActions.faults = s.faults ∧ cids s.processActions = cids s ∧
      ∀ o, Keep o → o ∈ oids s.processActions := by
  obtain ⟨a1, a2, a3, a4⟩ := p1_fold s.actions s h
  have hmid : ∀ b ∈ s.actions, (isAdd b.type || isMove b.type) = true →
      b.obj ∈ oids (s.actions.foldl procRemoveMove s) := by
    intro b hb hx
    rw [Bool.or_eq_true] at hx
    rcases hx with hx | hx
    · exact a2 _ (hk b hb hx)
    · exact a2 _ (h.k2 b hb hx)
  obtain ⟨b1, b2, b3, b4⟩ := p2_fold s.actions _ hmid
  have hc3 : CActsOk (· ∈ cids (s.actions.foldl procAddMove (s.actions.foldl procRemoveMove s)))
      (· ∈ oids (s.actions.foldl procAddMove (s.actions.foldl procRemoveMove s)))
      (s.actions.foldl procAddMove (s.actions.foldl procRemoveMove s)).actions := by
    rw [b4]
    intro a ha hc
    obtain ⟨c1, c2⟩ := a4 a ha hc
    refine ⟨?_, ?_⟩
    · show a.obj ∈ cids _
      simp only [cids] at a3 c1 ⊢
      rw [b3, a3]; exact c1
    · intro u hu an han
      show an.obj ∈ oids _
      rw [b2]; exact a2 _ (c2 u hu an han)
  obtain ⟨c1, c2, c3⟩ := p3_fold _ _ hc3
  unfold St.processActions
  refine ⟨?_, ?_, ?_⟩
  · show (List.foldl procConnChange _ _).faults = _
    rw [c1, b1, a1]
  · show cids (List.foldl procConnChange _ _) = _
    rw [c3]
    simp only [cids] at a3 ⊢
    rw [b3, a3]
  · intro o ho
    show o ∈ oids (List.foldl procConnChange _ _)
    rw [c2, b2]; exact a2 o ho


/-! ### the queue invariant of strictly legal histories -/

/-- no queued `ConnEnd` names an obstacle with a queued removal -/
def QC (acts : List Action) : Prop :=
  ∀ a ∈ acts, ∀ u ∈ a.ends, ∀ an, u.2 = some an → ∀ b ∈ acts, isRemove b.type = true → b.obj ≠ an.obj

structure QOk (g : List Id) (s : St) : Prop where
  core : Core g s
  nd : NoDanglingAction s
  pw : s.actions.Pairwise RS
  qc : QC s.actions

/-- what holds between the operations of a strictly legal history -/
structure FOk (g : List Id) (s : St) : Prop where
  qok : QOk g s
  nofault : s.faults = []

theorem RS.symm {a b : Action} (h : RS a b) : RS b a := by
  intro h1 h2 h3 e
  exact h h1.symm h3 h2 e.symm

theorem pairwise_mem {l : List Action} (h : l.Pairwise RS) {a b : Action} (ha : a ∈ l) (hb : b ∈ l)
    (hne : a ≠ b) : RS a b := by
  induction l with
  | nil => cases ha
  | cons x l ih =>
    rw [List.pairwise_cons] at h
    rcases List.mem_cons.1 ha with rfl | ha'
    · rcases List.mem_cons.1 hb with rfl | hb'
      · exact absurd rfl hne
      · exact h.1 b hb'
    · rcases List.mem_cons.1 hb with rfl | hb'
      · exact (h.1 a ha').symm
      · exact ih h.2 ha' hb'

theorem nd_obstT {s : St} (h : NoDanglingAction s) {a : Action} (ha : a ∈ s.actions)
    (ht : isObstT a.type = true) : a.obj ∈ oids s := by
  obtain ⟨h1, h2, _⟩ := h a ha
  cases hty : a.type <;> simp [hty, isObstT, isRemove, isMove, isAdd] at ht
  · exact hasShape_obst (h1 (Or.inl hty))
  · exact hasShape_obst (h1 (Or.inr (Or.inl hty)))
  · exact hasShape_obst (h1 (Or.inr (Or.inr hty)))
  · exact hasJunction_obst (h2 (Or.inl hty))
  · exact hasJunction_obst (h2 (Or.inr (Or.inl hty)))
  · exact hasJunction_obst (h2 (Or.inr (Or.inr hty)))

theorem not_remove_of_move {t : AType} (h : isMove t = true) : isRemove t = false := by
  cases t <;> simp_all [isMove, isRemove]
theorem not_remove_of_add {t : AType} (h : isAdd t = true) : isRemove t = false := by
  cases t <;> simp_all [isAdd, isRemove]

/-- the hypotheses of `processActions_faults` from the queue invariant -/
theorem qok_p1 {g : List Id} {s : St} (h : QOk g s) :
    P1 (fun o => o ∈ oids s ∧ ∀ a ∈ s.actions, isRemove a.type = true → a.obj ≠ o) s s.actions ∧
    (∀ b ∈ s.actions, isAdd b.type = true →
      (fun o => o ∈ oids s ∧ ∀ a ∈ s.actions, isRemove a.type = true → a.obj ≠ o) b.obj) := by
  obtain ⟨hcore, hnd, hpw, hqc⟩ := h
  have key : ∀ b ∈ s.actions, isObstT b.type = true → isRemove b.type = false →
      b.obj ∈ oids s ∧ ∀ a ∈ s.actions, isRemove a.type = true → a.obj ≠ b.obj := by
    intro b hb hbt hbr
    refine ⟨nd_obstT hnd hb hbt, ?_⟩
    intro a ha har
    have hne : a ≠ b := by rintro rfl; rw [har] at hbr; cases hbr
    exact pairwise_mem hpw ha hb hne (Or.inl har) (isObstT_of_remove har) hbt
  refine ⟨⟨?_, hpw, ?_, ?_, fun o ho => ho.1, ?_⟩, ?_⟩
  · intro b hb hx
    rcases hx with hx | hx
    · exact nd_obstT hnd hb (isObstT_of_remove hx)
    · exact nd_obstT hnd hb (isObstT_of_move hx)
  · intro b hb hr hk; exact hk.2 b hb hr rfl
  · intro b hb hm; exact key b hb (isObstT_of_move hm) (not_remove_of_move hm)
  · intro a ha hc
    obtain ⟨_, _, h3⟩ := hnd a ha
    refine ⟨hasConn_iff.1 (h3 hc).1, ?_⟩
    intro u hu an han
    exact ⟨hasObst_iff.1 ((h3 hc).2 u hu an han), fun b hb hbr => hqc a ha u hu an han b hb hbr⟩
  · intro b hb ha; exact key b hb (isObstT_of_add ha) (not_remove_of_add ha)

theorem cids_reroute (t : St) : cids (reroute t) = cids t := by
  simp only [cids, reroute, List.map_map]
  apply List.map_congr_left
  intro x _; simp only [Function.comp]; split <;> rfl

/-- a transaction on a well-formed queue (transactions on or off): no fault, the connectors stay,
    and so does every obstacle without a queued removal -/
theorem processTransaction_spec {g : List Id} {s : St} (h : QOk g s) :
    s.processTransaction.faults = s.faults ∧ cids s.processTransaction = cids s ∧
      ∀ o ∈ oids s, (∀ a ∈ s.actions, isRemove a.type = true → a.obj ≠ o) →
        o ∈ oids s.processTransaction := by
  unfold St.processTransaction
  split
  · exact ⟨rfl, rfl, fun o ho _ => ho⟩
  · obtain ⟨h1, h2⟩ := qok_p1 h
    obtain ⟨a1, a2, a3⟩ := processActions_faults _ h1 h2
    exact ⟨a1, (cids_reroute _).trans a2, fun o ho hno => a3 o ⟨ho, hno⟩⟩

theorem faults_processTransaction {g : List Id} {s : St} (h : QOk g s) :
    s.processTransaction.faults = s.faults := (processTransaction_spec h).1

theorem qok_nil {g : List Id} {s : St} (hc : Core g s) (ha : s.actions = []) : QOk g s := by
  refine ⟨hc, nd_of_nil ha, ?_, ?_⟩
  · rw [ha]; exact List.Pairwise.nil
  · rw [ha]; intro a h; cases h

theorem qok_processTransaction {g : List Id} {s : St} (h : QOk g s) : QOk g s.processTransaction :=
  qok_nil (core_processTransaction h.core) (actions_processTransaction s)

theorem maybeProcess_eq_off {X : St} (hc : X.consolidate = false) : X.maybeProcess = X.processTransaction := by
  unfold St.maybeProcess; rw [if_neg (by simp [hc])]

/-- the common tail `maybeProcess` of the mutators -/
theorem finish {g : List Id} {X : St} (h : QOk g X) (hf : X.faults = []) : FOk g X.maybeProcess := by
  cases hc : X.consolidate
  · rw [maybeProcess_eq_off hc]
    exact ⟨qok_processTransaction h, (faults_processTransaction h).trans hf⟩
  · rw [maybeProcess_on hc]
    exact ⟨h, hf⟩

theorem maybeProcess_spec {g : List Id} {X : St} (h : QOk g X) :
    cids X.maybeProcess = cids X ∧
      ∀ o ∈ oids X, (∀ a ∈ X.actions, isRemove a.type = true → a.obj ≠ o) → o ∈ oids X.maybeProcess := by
  cases hc : X.consolidate
  · rw [maybeProcess_eq_off hc]; exact (processTransaction_spec h).2
  · rw [maybeProcess_on hc]; exact ⟨rfl, fun o ho _ => ho⟩

/-- same queue or a sublist of it -/
theorem qok_sub {g g' : List Id} {s t : St} (h : QOk g s) (hcore : Core g' t) (hnd : NoDanglingAction t)
    (hsub : t.actions.Sublist s.actions) : QOk g' t := by
  refine ⟨hcore, hnd, h.pw.sublist hsub, ?_⟩
  intro a ha u hu an han b hb hbr
  exact h.qc a (hsub.subset ha) u hu an han b (hsub.subset hb) hbr

theorem qok_enqueue {g : List Id} {s : St} (h : QOk g s) (t : AType) (o : Id)
    (hS : isShapeAct t → s.hasShape o = true) (hJ : isJunctionAct t → s.hasJunction o = true)
    (hne : t ≠ .connChange) (hrs : ∀ a ∈ s.actions, RS a { type := t, obj := o })
    (hqc : isRemove t = true → ∀ a ∈ s.actions, ∀ u ∈ a.ends, ∀ an, u.2 = some an → an.obj ≠ o) :
    QOk g (s.enqueue t o) := by
  refine ⟨core_enqueue h.core t o, nd_enqueue h.nd t o hS hJ hne, ?_, ?_⟩
  · unfold St.enqueue; split
    · exact h.pw
    · show (s.actions ++ [_]).Pairwise RS
      rw [List.pairwise_append]
      refine ⟨h.pw, List.pairwise_singleton _ _, ?_⟩
      intro a ha b hb
      rw [List.mem_singleton] at hb; subst hb; exact hrs a ha
  · unfold St.enqueue; split
    · exact h.qc
    · show QC (s.actions ++ [_])
      intro a ha u hu an han b hb hbr
      rw [List.mem_append, List.mem_singleton] at ha hb
      rcases ha with ha | rfl
      · rcases hb with hb | rfl
        · exact h.qc a ha u hu an han b hb hbr
        · exact fun e => hqc hbr a ha u hu an han e.symm
      · cases hu


theorem rs_congr {a a' b b' : Action} (ha : a'.type = a.type ∧ a'.obj = a.obj)
    (hb : b'.type = b.type ∧ b'.obj = b.obj) (h : RS a b) : RS a' b' := by
  unfold RS at h ⊢
  rw [ha.1, ha.2, hb.1, hb.2]; exact h

theorem mem_modifyConn_key {acts : List Action} {c : Id} {d : Bool} {e : EndSpec} {pm : Bool}
    {b' : Action} (h : b' ∈ modifyConn acts c d e pm) :
    (∃ b ∈ acts, b'.type = b.type ∧ b'.obj = b.obj) ∨ b'.type = .connChange := by
  unfold modifyConn at h
  split at h
  · rw [List.mem_map] at h
    obtain ⟨b, hb, rfl⟩ := h
    left; refine ⟨b, hb, ?_⟩
    split <;> exact ⟨rfl, rfl⟩
  · rw [List.mem_append, List.mem_singleton] at h
    rcases h with h | rfl
    · exact Or.inl ⟨b', h, rfl, rfl⟩
    · exact Or.inr rfl

theorem mem_modifyConn_ends {acts : List Action} {c : Id} {d : Bool} {e : EndSpec} {pm : Bool}
    {a' : Action} (h : a' ∈ modifyConn acts c d e pm) {u : Bool × EndSpec} (hu : u ∈ a'.ends) :
    (∃ a ∈ acts, u ∈ a.ends) ∨ u = (d, e) := by
  unfold modifyConn at h
  split at h
  · rw [List.mem_map] at h
    obtain ⟨a, ha, rfl⟩ := h
    split at hu
    · rcases mem_mergeEnd hu with hu | hu
      · exact Or.inl ⟨a, ha, hu⟩
      · exact Or.inr hu
    · exact Or.inl ⟨a, ha, hu⟩
  · rw [List.mem_append, List.mem_singleton] at h
    rcases h with h | rfl
    · exact Or.inl ⟨a', h, hu⟩
    · rw [List.mem_singleton] at hu; exact Or.inr hu

theorem pw_modifyConn {acts : List Action} (h : acts.Pairwise RS) (c : Id) (d : Bool) (e : EndSpec)
    (pm : Bool) : (modifyConn acts c d e pm).Pairwise RS := by
  unfold modifyConn
  split
  · rw [List.pairwise_map]
    refine h.imp ?_
    intro a b hab
    refine rs_congr ?_ ?_ hab <;> (split <;> exact ⟨rfl, rfl⟩)
  · rw [List.pairwise_append]
    refine ⟨h, List.pairwise_singleton _ _, ?_⟩
    intro a _ b hb
    rw [List.mem_singleton] at hb; subst hb
    intro _ _ h3; simp [isObstT, isRemove, isMove, isAdd] at h3

theorem specOk_noRemove {s : St} {e : EndSpec} (h : specOk s e = true) :
    ∀ an, e = some an → ∀ b ∈ s.actions, isRemove b.type = true → b.obj ≠ an.obj := by
  intro an han b hb hbr; subst han
  simp only [specOk, Bool.and_eq_true, Bool.not_eq_true', St.hasAction, List.any_eq_false,
    Bool.and_eq_true, beq_iff_eq, not_and] at h
  intro e
  simp only [isRemove, Bool.or_eq_true, beq_iff_eq] at hbr
  rcases hbr with hbr | hbr
  · exact h.1.2 b hb hbr e
  · exact h.2 b hb hbr e

theorem qok_modify {g : List Id} {s : St} (h : QOk g s) {c : Id} (d : Bool) {e : EndSpec}
    (hc : s.hasConn c = true) (hspec : specOk s e = true) : QOk g (s.modify c d e) := by
  refine ⟨core_modify h.core c d e, nd_modify h.nd d hc (specOk_obst hspec), pw_modifyConn h.pw _ _ _ _, ?_⟩
  show QC (modifyConn s.actions c d e false)
  intro a' ha' u hu an han b' hb' hbr
  have hb : ∃ b ∈ s.actions, b'.type = b.type ∧ b'.obj = b.obj := by
    rcases mem_modifyConn_key hb' with hb | hb
    · exact hb
    · rw [hb] at hbr; simp [isRemove] at hbr
  obtain ⟨b, hbm, hbt, hbo⟩ := hb
  rw [hbt] at hbr; rw [hbo]
  rcases mem_modifyConn_ends ha' hu with ⟨a, ha, hua⟩ | rfl
  · exact h.qc a ha u hua an han b hbm hbr
  · exact specOk_noRemove hspec an han b hbm hbr


/-! ### small facts used by the per-operation proofs -/

@[simp] theorem faults_enqueue (s : St) (t : AType) (o : Id) : (s.enqueue t o).faults = s.faults := by
  unfold St.enqueue; split <;> rfl
@[simp] theorem faults_dropAction (s : St) (t : AType) (o : Id) : (s.dropAction t o).faults = s.faults := rfl
@[simp] theorem faults_removeFromQueue (s : St) (o : Id) : (s.removeFromQueue o).faults = s.faults := rfl
@[simp] theorem faults_modify (s : St) (c : Id) (d : Bool) (e : EndSpec) : (s.modify c d e).faults = s.faults := rfl
@[simp] theorem faults_addObst (s : St) (i : Id) (j a : Bool) : (s.addObst i j a).faults = s.faults := rfl
@[simp] theorem faults_addPin (s : St) (p o : Id) (c : Nat) : (s.addPin p o c).faults = s.faults := rfl
@[simp] theorem faults_addConn (s : St) (i : Id) (a : Bool) : (s.addConn i a).faults = s.faults := rfl
@[simp] theorem faults_unlinkPin (s : St) (p : Id) : (s.unlinkPin p).faults = s.faults := rfl
@[simp] theorem faults_releasePin (s : St) (p : Id) : (s.releasePin p).faults = s.faults := rfl
@[simp] theorem faults_freeObstacle (s : St) (o : Id) : (s.freeObstacle o).faults = s.faults := rfl
@[simp] theorem faults_freeConn (s : St) (c : Id) : (s.freeConn c).faults = s.faults := rfl
@[simp] theorem faults_addCluster (s : St) (k : Id) : (s.addCluster k).faults = s.faults := rfl
@[simp] theorem faults_freeCluster (s : St) (k : Id) : (s.freeCluster k).faults = s.faults := rfl
@[simp] theorem faults_closeRouter (s : St) : s.closeRouter.faults = s.faults := rfl

theorem fresh_ne {g : List Id} {s : St} (h : Core g s) {id o : Id} (hx : id ∉ s.created)
    (ho : o ∈ oids s) : o ≠ id := by
  rintro rfl
  exact hx ((h.ids.refine o).1 (Or.inl ho)).1

theorem rs_fresh {g : List Id} {s : St} (h : QOk g s) {id : Id} (hx : id ∉ s.created) (t : AType) :
    ∀ a ∈ s.actions, RS a { type := t, obj := id } := by
  intro a ha _ hobst _
  exact fresh_ne h.core hx (nd_obstT h.nd ha hobst)

theorem maybeProcess_actions_sub (X : St) : X.maybeProcess.actions.Sublist X.actions := by
  cases hc : X.consolidate
  · rw [maybeProcess_off hc]; exact List.nil_sublist _
  · rw [maybeProcess_on hc]; exact List.Sublist.refl _

/-! the connector pass leaves the obstacles alone -/

theorem obst_applyEnd (t : St) (c : Id) (u : Bool × EndSpec) :
    (applyEnd t c u).obst = t.obst ∧ cids (applyEnd t c u) = cids t := by
  have key : ∀ e : End, cids { t with conns := t.conns.map (fun x => if x.id == c then setEnd x u.1 e else x) }
      = cids t := by
    intro e
    simp only [cids, List.map_map]
    apply List.map_congr_left
    intro x _; simp only [Function.comp]; split
    · exact setEnd_id ..
    · rfl
  unfold applyEnd
  split
  · exact ⟨rfl, key _⟩
  · split
    · exact ⟨rfl, rfl⟩
    · exact ⟨rfl, key _⟩

theorem obst_procConnChange (t : St) (a : Action) :
    (procConnChange t a).obst = t.obst ∧ cids (procConnChange t a) = cids t := by
  unfold procConnChange
  split
  · split
    · exact ⟨rfl, rfl⟩
    · exact foldl_inv (fun x => x.obst = t.obst ∧ cids x = cids t) _
        (fun x u hx => ⟨(obst_applyEnd x a.obj u).1.trans hx.1, (obst_applyEnd x a.obj u).2.trans hx.2⟩)
        _ _ ⟨rfl, rfl⟩
  · exact ⟨rfl, rfl⟩

theorem eq_of_nodup_map {α β : Type} {f : α → β} {l : List α} (h : (l.map f).Nodup) {x y : α}
    (hx : x ∈ l) (hy : y ∈ l) (hf : f x = f y) : x = y := by
  induction l with
  | nil => cases hx
  | cons a l ih =>
    rw [List.map_cons, List.nodup_cons, List.mem_map] at h
    rcases List.mem_cons.1 hx with rfl | hx'
    · rcases List.mem_cons.1 hy with rfl | hy'
      · rfl
      · exact absurd ⟨y, hy', hf.symm⟩ h.1
    · rcases List.mem_cons.1 hy with rfl | hy'
      · exact absurd ⟨x, hx', hf⟩ h.1
      · exact ih h.2 hx' hy'

theorem shape_not_junction {g : List Id} {s : St} (h : Core g s) {o : Id} (h1 : s.hasShape o = true)
    (h2 : s.hasJunction o = true) : False := by
  have hn := h.ids.nodupAlloc
  simp only [List.nodup_append] at hn
  have hno : (s.obst.map (·.id)).Nodup := hn.1.1.1
  simp only [St.hasShape, St.hasJunction, List.any_eq_true, Bool.and_eq_true, beq_iff_eq,
    Bool.not_eq_true'] at h1 h2
  obtain ⟨x, hx, hxi, hxj⟩ := h1
  obtain ⟨y, hy, hyi, hyj⟩ := h2
  have := eq_of_nodup_map hno hx hy (hxi.trans hyi.symm)
  subst this; rw [hxj] at hyj; cases hyj


/-! ### what a transaction that runs in the middle of a mutator (transactions off) leaves -/

/-- every obstacle of `t` is one of `s` (same id, same kind) -/
def ObstFrom (s t : St) : Prop := ∀ x ∈ t.obst, ∃ y ∈ s.obst, y.id = x.id ∧ y.junction = x.junction

theorem obstFrom_refl (s : St) : ObstFrom s s := fun x hx => ⟨x, hx, rfl, rfl⟩

theorem obstFrom_mapActive {s t : St} (h : ObstFrom s t) (o : Id) (b : Bool) :
    ∀ x ∈ t.obst.map (fun x => if x.id == o then { x with active := b } else x),
      ∃ y ∈ s.obst, y.id = x.id ∧ y.junction = x.junction := by
  intro x hx
  simp only [List.mem_map] at hx
  obtain ⟨x0, hx0, rfl⟩ := hx
  obtain ⟨y, hy, e1, e2⟩ := h x0 hx0
  refine ⟨y, hy, ?_⟩
  split <;> exact ⟨e1, e2⟩

theorem obstFrom_procRemoveMove {s t : St} (h : ObstFrom s t) (a : Action) :
    ObstFrom s (procRemoveMove t a) := by
  unfold procRemoveMove
  split
  · split
    · exact h
    · intro x hx
      simp only [St.freeObstacle, List.mem_filter] at hx
      exact h x hx.1
  · split
    · split
      · exact h
      · exact obstFrom_mapActive h _ _
    · exact h

theorem obstFrom_procAddMove {s t : St} (h : ObstFrom s t) (a : Action) :
    ObstFrom s (procAddMove t a) := by
  unfold procAddMove
  split
  · split
    · exact h
    · exact obstFrom_mapActive h _ _
  · exact h

theorem obstFrom_procConnChange {s t : St} (h : ObstFrom s t) (a : Action) :
    ObstFrom s (procConnChange t a) := by
  intro x hx
  rw [(obst_procConnChange t a).1] at hx
  exact h x hx

theorem obstFrom_processTransaction (s : St) : ObstFrom s s.processTransaction := by
  unfold St.processTransaction
  split
  · exact obstFrom_refl s
  · have h1 := foldl_inv (ObstFrom s) _ (fun t a ht => obstFrom_procRemoveMove ht a) s.actions s
      (obstFrom_refl s)
    have h2 := foldl_inv (ObstFrom s) _ (fun t a ht => obstFrom_procAddMove ht a) s.actions _ h1
    have h3 := foldl_inv (ObstFrom s) _ (fun t a ht => obstFrom_procConnChange ht a)
      (s.actions.foldl procAddMove (s.actions.foldl procRemoveMove s)).actions _ h2
    unfold St.processActions
    exact h3

theorem hasJunction_of_obstFrom {g : List Id} {s t : St} (hc : Core g s) (h : ObstFrom s t) {o : Id}
    (hj : s.hasJunction o = true) (ho : o ∈ oids t) : t.hasJunction o = true := by
  simp only [oids, List.mem_map] at ho
  obtain ⟨x, hx, rfl⟩ := ho
  obtain ⟨y, hy, e1, e2⟩ := h x hx
  simp only [St.hasJunction, List.any_eq_true, Bool.and_eq_true, beq_iff_eq] at hj ⊢
  obtain ⟨z, hz, hz1, hz2⟩ := hj
  have hn := hc.ids.nodupAlloc
  simp only [List.nodup_append] at hn
  have hno : (s.obst.map (·.id)).Nodup := hn.1.1.1
  have := eq_of_nodup_map hno hy hz (e1.trans hz1.symm)
  subst this
  exact ⟨x, hx, rfl, e2 ▸ hz2⟩

/-- a junction without a queued removal is still a junction after the mutator's `processTransaction` -/
theorem hasJunction_maybeProcess {g : List Id} {X : St} (h : QOk g X) {o : Id}
    (hj : X.hasJunction o = true)
    (hno : ∀ a ∈ X.actions, isRemove a.type = true → a.obj ≠ o) : X.maybeProcess.hasJunction o = true := by
  have hmem := (maybeProcess_spec h).2 o (hasJunction_obst hj) hno
  cases hc : X.consolidate
  · rw [maybeProcess_eq_off hc] at hmem ⊢
    exact hasJunction_of_obstFrom h.core (obstFrom_processTransaction X) hj hmem
  · rw [maybeProcess_on hc]; exact hj

/-- a user `ConnEnd` that was acceptable before the mutator's `processTransaction` still is after it -/
theorem specOk_maybeProcess {g : List Id} {X : St} (h : QOk g X) {e : EndSpec}
    (hs : specOk X e = true) : specOk X.maybeProcess e = true := by
  cases hc : X.consolidate
  · cases e with
    | none => rfl
    | some an =>
      have h1 := hasObst_iff.1 (specOk_obst hs an rfl)
      have h2 := specOk_noRemove hs an rfl
      have h3 := hasObst_iff.2 ((maybeProcess_spec h).2 an.obj h1 h2)
      simp [specOk, St.hasAction, maybeProcess_off hc, h3]
  · rw [maybeProcess_on hc]; exact hs


/-! ### the operations preserve `FOk` under strict legality -/

theorem mem_enqueue {s : St} {t : AType} {o : Id} {a : Action} (h : a ∈ (s.enqueue t o).actions) :
    a ∈ s.actions ∨ a = { type := t, obj := o } := by
  unfold St.enqueue at h
  split at h
  · exact Or.inl h
  · exact List.mem_append.1 h |>.imp id List.mem_singleton.1

theorem obst_enqueue (s : St) (t : AType) (o : Id) : (s.enqueue t o).obst = s.obst := by
  unfold St.enqueue; split <;> rfl

/-- queueing a ConnectionPinChange entry never matters -/
theorem qok_enqueue_pin {g : List Id} {s : St} (h : QOk g s) (p : Id) : QOk g (s.enqueue .pinChange p) := by
  refine qok_enqueue h _ _ ?_ ?_ (by decide) ?_ ?_
  · intro x; exact absurd x (not_shapeAct_of (by decide) (by decide) (by decide))
  · intro x; exact absurd x (not_junctionAct_of (by decide) (by decide) (by decide))
  · intro a _ _ _ h3; exact absurd (show isObstT .pinChange = true from h3) (by decide)
  · intro x; exact absurd x (by decide)

theorem fok_newShape {s : St} (h : FOk [] s) {id : Id} (hx : id ∉ s.created) :
    FOk [] ((s.addObst id false false).enqueue .shapeAdd id).maybeProcess := by
  obtain ⟨hq, hnf⟩ := h
  have hA : QOk [] (s.addObst id false false) :=
    qok_sub hq (core_addObst hq.core _ _ hx) (nd_addObst hq.nd _ _ _) (List.Sublist.refl _)
  refine finish ?_ (by simpa using hnf)
  refine qok_enqueue hA .shapeAdd id ?_ ?_ (by decide) (rs_fresh hq hx _) (fun x => absurd x (by decide))
  · intro _; simp [St.hasShape, St.addObst, List.any_append]
  · intro x; exact absurd x (not_junctionAct_of (by decide) (by decide) (by decide))

theorem fok_newJunction {s : St} (h : FOk [] s) {id pin : Id} (hx : id ∉ s.created)
    (hp : pin ∉ s.created) (hne : id ≠ pin) :
    FOk [] (((((s.addObst id true false).addPin pin id centreCls).enqueue .pinChange pin).maybeProcess).enqueue
      .junctionAdd id).maybeProcess := by
  obtain ⟨hq, hnf⟩ := h
  have hcA : Core [] ((s.addObst id true false).addPin pin id centreCls) := by
    refine core_addPin (core_addObst hq.core true false hx) _ ?_ ?_
    · simp only [St.addObst, List.mem_append, List.mem_singleton]; intro hh
      rcases hh with hh | hh
      · exact hp hh
      · exact hne hh.symm
    · simp [oids, St.addObst]
  have hA : QOk [] ((s.addObst id true false).addPin pin id centreCls) :=
    qok_sub hq hcA (nd_addPin (nd_addObst hq.nd _ _ _) _ _ _) (List.Sublist.refl _)
  have hX1 := qok_enqueue_pin hA pin
  have F1 := finish hX1 (by simpa using hnf)
  have hj1 : (((s.addObst id true false).addPin pin id centreCls).enqueue .pinChange pin).hasJunction id = true := by
    simp [St.hasJunction, obst_enqueue, St.addObst, St.addPin, List.any_append]
  generalize hX : (((s.addObst id true false).addPin pin id centreCls).enqueue .pinChange pin) = X1 at hX1 F1 hj1 ⊢
  have hX1acts : ∀ a ∈ X1.actions, a ∈ s.actions ∨ a = { type := .pinChange, obj := pin } := by
    intro a ha; rw [← hX] at ha
    exact mem_enqueue (s := (s.addObst id true false).addPin pin id centreCls) ha
  -- the queue (possibly non-empty, processed right here when transactions are off) holds no
  -- removal of the new junction
  have hno : ∀ a ∈ X1.actions, isRemove a.type = true → a.obj ≠ id := by
    intro a ha hr
    rcases hX1acts a ha with ha2 | rfl
    · exact fresh_ne hq.core hx (nd_obstT hq.nd ha2 (isObstT_of_remove hr))
    · exact absurd (show isRemove .pinChange = true from hr) (by decide)
  have hj := hasJunction_maybeProcess hX1 hj1 hno
  refine finish ?_ (by simpa using F1.nofault)
  refine qok_enqueue F1.qok .junctionAdd id ?_ ?_ (by decide) ?_ (fun x => absurd x (by decide))
  · intro x; exact absurd x (not_shapeAct_of (by decide) (by decide) (by decide))
  · intro _; exact hj
  · intro a ha _ hobstT _
    have ha1 := (maybeProcess_actions_sub X1).subset ha
    rcases hX1acts a ha1 with ha2 | rfl
    · exact fresh_ne hq.core hx (nd_obstT hq.nd ha2 hobstT)
    · exact absurd (show isObstT .pinChange = true from hobstT) (by decide)

theorem fok_newPin {s : St} (h : FOk [] s) {pin shape : Id} (cls : Nat) (hx : pin ∉ s.created)
    (hs : s.hasShape shape = true) :
    FOk [] ((s.addPin pin shape cls).enqueue .pinChange pin).maybeProcess := by
  obtain ⟨hq, hnf⟩ := h
  have hA : QOk [] (s.addPin pin shape cls) :=
    qok_sub hq (core_addPin hq.core _ hx (hasShape_obst hs)) (nd_addPin hq.nd _ _ _) (List.Sublist.refl _)
  exact finish (qok_enqueue_pin hA pin) (by simpa using hnf)


theorem hasObst_congr {s t : St} (h : t.obst = s.obst) (o : Id) : t.hasObst o = s.hasObst o := by
  simp only [St.hasObst, h]

/-- `specOk` survives when the obstacles stay and no new removal is queued -/
theorem specOk_transfer {s t : St} {e : EndSpec} (hobst : t.obst = s.obst)
    (hrem : ∀ b ∈ t.actions, isRemove b.type = true → ∃ b0 ∈ s.actions, b.type = b0.type ∧ b.obj = b0.obj)
    (h : specOk s e = true) : specOk t e = true := by
  cases e with
  | none => rfl
  | some an =>
    have h1 := specOk_obst h an rfl
    have h2 := specOk_noRemove h an rfl
    simp only [specOk, Bool.and_eq_true, Bool.not_eq_true', St.hasAction, List.any_eq_false,
      beq_iff_eq, not_and]
    refine ⟨⟨by rw [hasObst_congr hobst]; exact h1, ?_⟩, ?_⟩
    · intro b hb hbt e
      obtain ⟨b0, hb0, e1, e2⟩ := hrem b hb (by simp [isRemove, hbt])
      exact h2 b0 hb0 (by rw [← e1]; simp [isRemove, hbt]) (e2 ▸ e)
    · intro b hb hbt e
      obtain ⟨b0, hb0, e1, e2⟩ := hrem b hb (by simp [isRemove, hbt])
      exact h2 b0 hb0 (by rw [← e1]; simp [isRemove, hbt]) (e2 ▸ e)

theorem fok_modify {g : List Id} {s : St} (h : FOk g s) {c : Id} (d : Bool) {e : EndSpec}
    (hc : s.hasConn c = true) (hspec : specOk s e = true) : FOk g (s.modify c d e).maybeProcess := by
  obtain ⟨hq, hnf⟩ := h
  exact finish (qok_modify hq d hc hspec) hnf

theorem fok_newConn {s : St} (h : FOk [] s) {id : Id} {src dst : EndSpec} (hx : id ∉ s.created)
    (hsrc : specOk s src = true) (hdst : specOk s dst = true) :
    FOk [] ((((s.addConn id false).modify id false src).maybeProcess).modify id true dst).maybeProcess := by
  obtain ⟨hq, hnf⟩ := h
  have hA : QOk [] (s.addConn id false) :=
    qok_sub hq (core_addConn hq.core _ hx) (nd_addConn hq.nd _ _) (List.Sublist.refl _)
  have hcA : (s.addConn id false).hasConn id = true := by
    simp [St.hasConn, St.addConn, List.any_append]
  have hQ1 : QOk [] ((s.addConn id false).modify id false src) := qok_modify hA false hcA (e := src) hsrc
  have F1 : FOk [] ((s.addConn id false).modify id false src).maybeProcess := finish hQ1 hnf
  -- `dst` is still acceptable when the second modifyConnector runs: with transactions off the first
  -- one has processed the whole queue, which held no removal of `dst`'s obstacle
  have hspec1 : specOk ((s.addConn id false).modify id false src) dst = true := by
    refine specOk_transfer (s := s) rfl ?_ hdst
    intro b hb hbr
    have hb1 : b ∈ modifyConn s.actions id false src false := hb
    rcases mem_modifyConn_key hb1 with hk | hk
    · exact hk
    · rw [hk] at hbr; exact absurd hbr (by decide)
  have hspec2 := specOk_maybeProcess hQ1 hspec1
  have hc2 : ((s.addConn id false).modify id false src).maybeProcess.hasConn id = true := by
    rw [hasConn_iff, (maybeProcess_spec hQ1).1]; exact hasConn_iff.1 hcA
  exact fok_modify F1 true hc2 hspec2

theorem hasAction_false {s : St} {t : AType} {o : Id} (h : s.hasAction t o = false) {a : Action}
    (ha : a ∈ s.actions) (e : a.obj = o) : a.type ≠ t := by
  simp only [St.hasAction, List.any_eq_false, Bool.and_eq_true, beq_iff_eq, not_and] at h
  exact fun hty => h a ha hty e

/-- the only obstacle action that can be queued for an obstacle one may still delete / move is its move -/
theorem only_move_queued {g : List Id} {s : St} (hq : QOk g s) {o : Id} {a : Action} (ham : a ∈ s.actions)
    (e : a.obj = o) (hobstT : isObstT a.type = true) (j : Bool)
    (hhas : (if j then s.hasJunction o else s.hasShape o) = true)
    (hpend : s.pendingRemove o = false)
    (hadd : s.hasAction (if j then .junctionAdd else .shapeAdd) o = false) :
    a.type = (if j then .junctionMove else .shapeMove) := by
  obtain ⟨n1, n2, _⟩ := hq.nd a ham
  rw [e] at n1 n2
  simp only [St.pendingRemove, Bool.or_eq_false_iff] at hpend
  have r1 := hasAction_false hpend.1 ham e
  have r2 := hasAction_false hpend.2 ham e
  have r3 := hasAction_false hadd ham e
  cases j <;> simp only [Bool.false_eq_true, ↓reduceIte] at hhas r3 ⊢
  · cases hty : a.type with
    | shapeMove => rfl
    | shapeAdd => exact absurd hty r3
    | shapeRemove => exact absurd hty r1
    | junctionMove => exact (shape_not_junction hq.core hhas (n2 (Or.inl hty))).elim
    | junctionAdd => exact (shape_not_junction hq.core hhas (n2 (Or.inr (Or.inl hty)))).elim
    | junctionRemove => exact (shape_not_junction hq.core hhas (n2 (Or.inr (Or.inr hty)))).elim
    | connChange => rw [hty] at hobstT; exact absurd hobstT (by decide)
    | pinChange => rw [hty] at hobstT; exact absurd hobstT (by decide)
  · cases hty : a.type with
    | junctionMove => rfl
    | junctionAdd => exact absurd hty r3
    | junctionRemove => exact absurd hty r2
    | shapeMove => exact (shape_not_junction hq.core (n1 (Or.inl hty)) hhas).elim
    | shapeAdd => exact (shape_not_junction hq.core (n1 (Or.inr (Or.inl hty))) hhas).elim
    | shapeRemove => exact (shape_not_junction hq.core (n1 (Or.inr (Or.inr hty))) hhas).elim
    | connChange => rw [hty] at hobstT; exact absurd hobstT (by decide)
    | pinChange => rw [hty] at hobstT; exact absurd hobstT (by decide)

theorem fok_deleteObstacleOp {s : St} (h : FOk [] s) (o : Id) (j : Bool)
    (hhas : (if j then s.hasJunction o else s.hasShape o) = true)
    (hpend : s.pendingRemove o = false)
    (hadd : s.hasAction (if j then .junctionAdd else .shapeAdd) o = false)
    (hment : s.actions.any (mentions · o) = false) :
    FOk [] (deleteObstacleOp s o j) := by
  obtain ⟨hq, hnf⟩ := h
  have hD : QOk [] (s.dropAction (if j then .junctionMove else .shapeMove) o) :=
    qok_sub hq (core_dropAction hq.core _ _) (nd_dropAction hq.nd _ _) List.filter_sublist
  have hrs : ∀ a ∈ (s.dropAction (if j then .junctionMove else .shapeMove) o).actions,
      RS a { type := (if j then AType.junctionRemove else .shapeRemove), obj := o } := by
    intro a ha _ hobstT _ e0
    have e : a.obj = o := e0
    simp only [St.dropAction, List.mem_filter] at ha
    obtain ⟨ham, hnm⟩ := ha
    have := only_move_queued hq ham e hobstT j hhas hpend hadd
    rw [this, e] at hnm
    simp at hnm
  have hqc : ∀ a ∈ (s.dropAction (if j then .junctionMove else .shapeMove) o).actions,
      ∀ u ∈ a.ends, ∀ an, u.2 = some an → an.obj ≠ o := by
    intro a ha u hu an han e
    simp only [St.dropAction, List.mem_filter] at ha
    simp only [List.any_eq_false, mentions, List.any_eq_true, not_exists, not_and] at hment
    exact hment a ha.1 u hu (by rw [han]; simpa using e)
  unfold deleteObstacleOp
  cases j <;> simp only [Bool.false_eq_true, ↓reduceIte] at hhas hadd hD hrs hqc ⊢ <;>
  · rw [if_neg (by simp [hhas]), if_neg (by simp [hadd])]
    refine finish (qok_enqueue hD _ _ ?_ ?_ (by decide) hrs (fun _ => hqc)) (by simpa using hnf)
    · intro x; first | exact hhas | exact absurd x (not_shapeAct_of (by decide) (by decide) (by decide))
    · intro x; first | exact hhas | exact absurd x (not_junctionAct_of (by decide) (by decide) (by decide))


theorem fok_moveObstacleOp {s : St} (h : FOk [] s) (o : Id) (j : Bool)
    (hhas : (if j then s.hasJunction o else s.hasShape o) = true)
    (hpend : s.pendingRemove o = false) :
    FOk [] (moveObstacleOp s o j) := by
  obtain ⟨hq, hnf⟩ := h
  have hrs : ∀ a ∈ s.actions, RS a { type := (if j then AType.junctionMove else .shapeMove), obj := o } := by
    intro a ha hr _ _ e0
    have e : a.obj = o := e0
    have har : isRemove a.type = true := by
      rcases hr with hr | hr
      · exact hr
      · cases j <;> exact absurd (show isRemove _ = true from hr) (by simp [isRemove])
    simp only [St.pendingRemove, Bool.or_eq_false_iff] at hpend
    simp only [isRemove, Bool.or_eq_true, beq_iff_eq] at har
    rcases har with har | har
    · exact hasAction_false hpend.1 ha e har
    · exact hasAction_false hpend.2 ha e har
  unfold moveObstacleOp
  cases j <;> simp only [Bool.false_eq_true, ↓reduceIte] at hhas hrs ⊢ <;>
  · rw [if_neg (by simp [hhas])]
    split
    · exact ⟨hq, hnf⟩
    · refine finish (qok_enqueue hq _ _ ?_ ?_ (by decide) hrs (fun x => absurd x (by decide)))
        (by simpa using hnf)
      · intro x; first | exact hhas | exact absurd x (not_shapeAct_of (by decide) (by decide) (by decide))
      · intro x; first | exact hhas | exact absurd x (not_junctionAct_of (by decide) (by decide) (by decide))

theorem fok_freeConn {s : St} (h : FOk [] s) {c : Id} (hc : s.hasConn c = true) : FOk [] (s.freeConn c) := by
  obtain ⟨hq, hnf⟩ := h
  exact ⟨qok_sub hq (core_freeConn hq.core (hasConn_iff.1 hc)) (nd_freeConn hq.nd c) List.filter_sublist, hnf⟩

theorem fok_setCheckpoints {s : St} (h : FOk [] s) (c : Id) (vs : List Id) :
    FOk [] (s.setCheckpoints c vs) := by
  obtain ⟨hq, hnf⟩ := h
  exact ⟨qok_sub hq (core_setCheckpoints hq.core c vs) (nd_setCheckpoints hq.nd c vs) (List.Sublist.refl _), hnf⟩

theorem fok_deletePin {s : St} (h : FOk [] s) {pin : Id} (hp : s.hasPin pin = true) :
    FOk [] ((((s.unlinkPin pin).enqueue .pinChange pin).maybeProcess).releasePin pin) := by
  obtain ⟨hq, hnf⟩ := h
  have hU : QOk [pin] (s.unlinkPin pin) :=
    qok_sub hq (core_unlinkPin hq.core (hasPin_iff.1 hp)) (nd_unlinkPin hq.nd pin) (List.Sublist.refl _)
  obtain ⟨fq, fnf⟩ := finish (qok_enqueue_pin hU pin) (by simpa using hnf)
  exact ⟨qok_sub fq (core_releasePin fq.core) (nd_releasePin fq.nd pin) (List.Sublist.refl _), fnf⟩

theorem fok_processTransaction {s : St} (h : FOk [] s) : FOk [] s.processTransaction := by
  obtain ⟨hq, hnf⟩ := h
  exact ⟨qok_processTransaction hq, (faults_processTransaction hq).trans hnf⟩

/-- switching transactions off with work queued is fine: the next mutator processes the whole queue -/
theorem fok_setTransactionUse {s : St} (h : FOk [] s) (b : Bool) : FOk [] { s with consolidate := b } := by
  obtain ⟨hq, hnf⟩ := h
  exact ⟨qok_sub hq (core_congr hq.core rfl rfl rfl rfl rfl) (nd_setConsolidate hq.nd b)
    (List.Sublist.refl _), hnf⟩

theorem faults_freeConns (l : List Conn) (s : St) :
    (l.foldl (fun s c => s.freeConn c.id) s).faults = s.faults :=
  foldl_inv (fun t => t.faults = s.faults) (fun s c => s.freeConn c.id) (fun _ _ ht => ht) l s rfl

theorem faults_freeObsts (l : List Obst) (s : St) :
    (l.foldl (fun s o => s.freeObstacle o.id) s).faults = s.faults :=
  foldl_inv (fun t => t.faults = s.faults) (fun s o => s.freeObstacle o.id) (fun _ _ ht => ht) l s rfl

theorem faults_freeClusters (l : List Cluster) (s : St) :
    (l.foldl (fun s k => s.freeCluster k.id) s).faults = s.faults :=
  foldl_inv (fun t => t.faults = s.faults) (fun s k => s.freeCluster k.id) (fun _ _ ht => ht) l s rfl

theorem fok_deleteRouter {s : St} (h : FOk [] s) (hl : Legal s .deleteRouter = true) :
    FOk [] (step s .deleteRouter) := by
  obtain ⟨hq, hnf⟩ := h
  have hcore := core_step hq.core .deleteRouter (legal_legalDoc hl)
  have hact : (step s .deleteRouter).actions = [] := by
    unfold step; split
    · rename_i hal
      have := (legal_deleteRouter hl).1
      rw [this] at hal; cases hal
    · rfl
  refine ⟨qok_nil hcore hact, ?_⟩
  unfold step
  rw [if_neg (by simp [(legal_deleteRouter hl).1])]
  simp only [faults_closeRouter, faults_freeClusters, faults_freeObsts, faults_freeConns]
  exact hnf

theorem fok_rDelJunction {s : St} (h : FOk [] s) {id : Id} (hj : s.hasJunction id = true)
    (hnil : s.actions = []) : FOk [] ((s.freeObstacle id).removeFromQueue id) := by
  obtain ⟨hq, hnf⟩ := h
  have hact : ((s.freeObstacle id).removeFromQueue id).actions = [] := by
    simp [St.removeFromQueue, St.freeObstacle, hnil]
  exact ⟨qok_nil (core_removeFromQueue (core_freeObstacle hq.core (hasJunction_obst hj)) _) hact, hnf⟩

theorem fok_rNewJunction {s : St} (h : FOk [] s) {id pin : Id} (hx : id ∉ s.created)
    (hp : pin ∉ s.created) (hne : id ≠ pin) :
    FOk [] ((s.addObst id true true).addPin pin id centreCls) := by
  obtain ⟨hq, hnf⟩ := h
  have hcA : Core [] ((s.addObst id true true).addPin pin id centreCls) := by
    refine core_addPin (core_addObst hq.core true true hx) _ ?_ ?_
    · simp only [St.addObst, List.mem_append, List.mem_singleton]; intro hh
      rcases hh with hh | hh
      · exact hp hh
      · exact hne hh.symm
    · simp [oids, St.addObst]
  exact ⟨qok_sub hq hcA (nd_addPin (nd_addObst hq.nd _ _ _) _ _ _) (List.Sublist.refl _), hnf⟩

theorem fok_rNewConn {s : St} (h : FOk [] s) {id : Id} (hx : id ∉ s.created) :
    FOk [] (s.addConn id true) := by
  obtain ⟨hq, hnf⟩ := h
  exact ⟨qok_sub hq (core_addConn hq.core _ hx) (nd_addConn hq.nd _ _) (List.Sublist.refl _), hnf⟩

/-- cluster construction / destruction touches neither the queue nor obstacles, connectors, pins -/
theorem fok_addCluster {s : St} (h : FOk [] s) {id : Id} (hx : id ∉ s.created) (refs : List Id := []) :
    FOk [] (s.addCluster id refs) := by
  obtain ⟨hq, hnf⟩ := h
  exact ⟨qok_sub hq (core_addCluster hq.core hx refs) (nd_clusters hq.nd rfl rfl rfl) (List.Sublist.refl _), hnf⟩

theorem fok_freeCluster {s : St} (h : FOk [] s) {id : Id} (hk : s.hasCluster id = true) :
    FOk [] (s.freeCluster id) := by
  obtain ⟨hq, hnf⟩ := h
  exact ⟨qok_sub hq (core_freeCluster hq.core (hasCluster_kids hk)) (nd_clusters hq.nd rfl rfl rfl)
    (List.Sublist.refl _), hnf⟩

/-- `Router::modifyConnector(conn)`: a bare ConnChange conflicts with nothing -/
theorem qok_touch {g : List Id} {s : St} (h : QOk g s) {c : Id} (hc : s.hasConn c = true) :
    QOk g (s.enqueue .connChange c) := by
  refine ⟨core_enqueue h.core _ _, nd_touch h.nd hc, ?_, ?_⟩
  · unfold St.enqueue; split
    · exact h.pw
    · show (s.actions ++ [_]).Pairwise RS
      rw [List.pairwise_append]
      refine ⟨h.pw, List.pairwise_singleton _ _, ?_⟩
      intro a _ b hb
      rw [List.mem_singleton] at hb; subst hb
      intro _ _ h3; simp [isObstT, isRemove, isMove, isAdd] at h3
  · unfold St.enqueue; split
    · exact h.qc
    · show QC (s.actions ++ [_])
      intro a ha u hu an han b hb hbr
      rw [List.mem_append, List.mem_singleton] at ha hb
      rcases ha with ha | rfl
      · rcases hb with hb | rfl
        · exact h.qc a ha u hu an han b hb hbr
        · simp [isRemove] at hbr
      · cases hu

theorem fok_touch {s : St} (h : FOk [] s) {c : Id} (hc : s.hasConn c = true) :
    FOk [] (s.enqueue .connChange c).maybeProcess := by
  obtain ⟨hq, hnf⟩ := h
  exact finish (qok_touch hq hc) (by simpa using hnf)

theorem fok_init : FOk [] init :=
  ⟨qok_nil core_init rfl, rfl⟩

theorem fok_step {s : St} (h : FOk [] s) (op : Op) (hl : Legal s op = true) : FOk [] (step s op) := by
  have hal : s.alive = true := by
    have := legal_legalDoc hl
    unfold LegalDoc at this
    simp only [Bool.and_eq_true] at this
    exact this.1
  cases op with
  | deleteRouter => exact fok_deleteRouter h hl
  | newShape id =>
    simp only [Legal, LegalDoc, Bool.and_eq_true, Bool.and_true] at hl
    unfold step; rw [if_neg (by simp [hal])]
    exact fok_newShape h (fresh_of_contains hl.2)
  | newJunction id pin =>
    simp only [Legal, LegalDoc, Bool.and_eq_true, Bool.and_true] at hl
    unfold step; rw [if_neg (by simp [hal])]
    exact fok_newJunction h (fresh_of_contains hl.2.1.1) (fresh_of_contains hl.2.1.2) (by simpa using hl.2.2)
  | newConn id src dst ctor3 =>
    simp only [Legal, LegalDoc, Bool.and_eq_true, Bool.and_true] at hl
    unfold step; rw [if_neg (by simp [hal])]
    exact fok_newConn h (fresh_of_contains hl.2.1.1) hl.2.1.2 hl.2.2
  | newPin pin shape cls =>
    simp only [Legal, LegalDoc, Bool.and_eq_true, Bool.and_true] at hl
    unfold step; rw [if_neg (by simp [hal])]
    dsimp only
    rw [if_neg (by simp [hl.2.1.2])]
    exact fok_newPin h cls (fresh_of_contains hl.2.1.1) hl.2.1.2
  | deleteShape id =>
    simp only [Legal, LegalDoc, Bool.and_eq_true, Bool.not_eq_true'] at hl
    unfold step; rw [if_neg (by simp [hal])]
    exact fok_deleteObstacleOp h id false hl.1.2.1 hl.1.2.2 hl.2.1.1 hl.2.1.2
  | deleteJunction id =>
    simp only [Legal, LegalDoc, Bool.and_eq_true, Bool.not_eq_true'] at hl
    unfold step; rw [if_neg (by simp [hal])]
    exact fok_deleteObstacleOp h id true hl.1.2.1 hl.1.2.2 hl.2.1.1 hl.2.1.2
  | deleteConn id =>
    simp only [Legal, LegalDoc, Bool.and_eq_true, Bool.and_true] at hl
    unfold step; rw [if_neg (by simp [hal])]
    dsimp only
    rw [if_neg (by simp [hl.2])]
    exact fok_freeConn h hl.2
  | deletePin pin =>
    simp only [Legal, LegalDoc, Bool.and_eq_true, Bool.and_true, List.any_eq_true] at hl
    obtain ⟨_, p, hp, hpid, _⟩ := hl
    have hpin : s.hasPin pin = true := by
      simp only [St.hasPin, List.any_eq_true]; exact ⟨p, hp, hpid.1⟩
    unfold step; rw [if_neg (by simp [hal])]
    dsimp only
    rw [if_neg (by simp [hpin])]
    exact fok_deletePin h hpin
  | moveShape id =>
    simp only [Legal, LegalDoc, Bool.and_eq_true, Bool.and_true, Bool.not_eq_true'] at hl
    unfold step; rw [if_neg (by simp [hal])]
    exact fok_moveObstacleOp h id false hl.2.1 hl.2.2
  | moveJunction id =>
    simp only [Legal, LegalDoc, Bool.and_eq_true, Bool.and_true, Bool.not_eq_true'] at hl
    unfold step; rw [if_neg (by simp [hal])]
    exact fok_moveObstacleOp h id true hl.2.1 hl.2.2
  | setEndpoint c isDst e =>
    simp only [Legal, LegalDoc, Bool.and_eq_true, Bool.and_true] at hl
    unfold step; rw [if_neg (by simp [hal])]
    dsimp only
    rw [if_neg (by simp [hl.2.1])]
    exact fok_modify h isDst hl.2.1 hl.2.2
  | setRoutingCheckpoints c vs =>
    simp only [Legal, LegalDoc, Bool.and_eq_true, Bool.and_true] at hl
    unfold step; rw [if_neg (by simp [hal])]
    dsimp only
    rw [if_neg (by simp [hl.2.1.1])]
    exact fok_setCheckpoints h c vs
  | processTransaction =>
    unfold step; rw [if_neg (by simp [hal])]
    exact fok_processTransaction h
  | setTransactionUse b =>
    unfold step; rw [if_neg (by simp [hal])]
    exact fok_setTransactionUse h b
  | rDelConn id =>
    simp only [Legal, LegalDoc, Bool.and_eq_true, Bool.and_true] at hl
    unfold step; rw [if_neg (by simp [hal])]
    dsimp only
    rw [if_neg (by simp [hl.2.1])]
    exact fok_freeConn h hl.2.1
  | rDelJunction id =>
    simp only [Legal, LegalDoc, Bool.and_eq_true, Bool.and_true, List.isEmpty_iff] at hl
    unfold step; rw [if_neg (by simp [hal])]
    dsimp only
    rw [if_neg (by simp [hl.2.1.1])]
    exact fok_rDelJunction h hl.2.1.1 hl.2.1.2
  | rNewJunction id pin =>
    simp only [Legal, LegalDoc, Bool.and_eq_true, Bool.and_true] at hl
    unfold step; rw [if_neg (by simp [hal])]
    exact fok_rNewJunction h (fresh_of_contains hl.2.1.1.1) (fresh_of_contains hl.2.1.1.2) (by simpa using hl.2.1.2)
  | rNewConn id =>
    simp only [Legal, LegalDoc, Bool.and_eq_true, Bool.and_true] at hl
    unfold step; rw [if_neg (by simp [hal])]
    exact fok_rNewConn h (fresh_of_contains hl.2.1)
  | newCluster id refs =>
    simp only [Legal, LegalDoc, Bool.and_eq_true, Bool.and_true] at hl
    unfold step; rw [if_neg (by simp [hal])]
    exact fok_addCluster h (fresh_of_contains hl.2.1) refs
  | deleteCluster id =>
    simp only [Legal, LegalDoc, Bool.and_eq_true, Bool.and_true] at hl
    unfold step; rw [if_neg (by simp [hal])]
    dsimp only
    rw [if_neg (by simp [hl.2])]
    exact fok_freeCluster h hl.2
  | setClusterPoly id refs =>
    simp only [Legal, LegalDoc, Bool.and_eq_true, Bool.and_true] at hl
    unfold step; rw [if_neg (by simp [hal])]
    dsimp only
    rw [if_neg (by simp [hl.2.1])]
    obtain ⟨hq, hnf⟩ := h
    exact ⟨qok_sub hq (core_setClusterRefs hq.core _ _) (nd_clusters hq.nd rfl rfl rfl) (List.Sublist.refl _), hnf⟩
  | touchConn c =>
    simp only [Legal, LegalDoc, Bool.and_eq_true, Bool.and_true] at hl
    unfold step; rw [if_neg (by simp [hal])]
    dsimp only
    rw [if_neg (by simp [hl.2])]
    exact fok_touch h hl.2
  | touchPin pin =>
    simp only [Legal, LegalDoc, Bool.and_eq_true, Bool.and_true, List.any_eq_true] at hl
    obtain ⟨_, p, hp, hpid, _⟩ := hl
    have hpin : s.hasPin pin = true := by
      simp only [St.hasPin, List.any_eq_true]; exact ⟨p, hp, hpid.1⟩
    unfold step; rw [if_neg (by simp [hal])]
    dsimp only
    rw [if_neg (by simp [hpin])]
    obtain ⟨hq, hnf⟩ := h
    exact finish (qok_enqueue_pin hq pin) (by simpa using hnf)
  | apiRouter =>
    unfold step; rw [if_neg (by simp [hal])]
    exact h
  | apiConn c =>
    simp only [Legal, LegalDoc, Bool.and_eq_true, Bool.and_true] at hl
    unfold step; rw [if_neg (by simp [hal])]
    dsimp only
    rw [if_neg (by simp [hl.2])]
    exact h
  | apiObst o =>
    simp only [Legal, LegalDoc, Bool.and_eq_true, Bool.and_true] at hl
    unfold step; rw [if_neg (by simp [hal])]
    dsimp only
    rw [if_neg (by simp [hl.2.1])]
    exact h

theorem fok_run_from {s : St} (h : FOk [] s) (ops : List Op) (hl : legalFrom Legal s ops = true) :
    FOk [] (ops.foldl step s) := by
  induction ops generalizing s with
  | nil => exact h
  | cons op rest ih =>
    simp only [legalFrom, Bool.and_eq_true] at hl
    exact ih (fok_step h op hl.1) hl.2

theorem fok_run (ops : List Op) (hl : LegalHist ops = true) : FOk [] (run ops) :=
  fok_run_from fok_init ops hl

end AdaptaVerif.Lemmas.Lifecycle
