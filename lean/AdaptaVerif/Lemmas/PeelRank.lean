import AdaptaVerif.Spec.UGraph

/-!
Rank/parent witnesses for acyclicity (C19): if every edge joins a vertex to its unique parent and
the parent has strictly larger rank, the graph has no simple cycle. Core Lean only.
-/
namespace AdaptaVerif.Lemmas.PeelRank

open AdaptaVerif.Spec.UGraph

/-- a non-empty index range has an index minimising an `Int`-valued function -/
theorem exists_min_index (f : Nat → Int) : ∀ n, 0 < n → ∃ i, i < n ∧ ∀ j, j < n → f i ≤ f j := by
  intro n
  induction n with
  | zero => intro h; exact absurd h (Nat.lt_irrefl 0)
  | succ n ih =>
    intro _
    cases n with
    | zero =>
      refine ⟨0, Nat.zero_lt_succ 0, ?_⟩
      intro j hj
      have hj0 : j = 0 := by omega
      subst hj0
      exact Int.le_refl _
    | succ k =>
      obtain ⟨i, hi, hmin⟩ := ih (Nat.zero_lt_succ k)
      by_cases hc : f i ≤ f (k + 1)
      · refine ⟨i, by omega, ?_⟩
        intro j hj
        by_cases hjk : j < k + 1
        · exact hmin j hjk
        · have hje : j = k + 1 := by omega
          subst hje
          exact hc
      · refine ⟨k + 1, by omega, ?_⟩
        intro j hj
        by_cases hjk : j < k + 1
        · have h1 := hmin j hjk
          omega
        · have hje : j = k + 1 := by omega
          subst hje
          exact Int.le_refl _

theorem getD_mem_of_lt : ∀ (l : List Nat) (i : Nat), i < l.length → l.getD i 0 ∈ l := by
  intro l
  induction l with
  | nil => intro i hi; exact absurd hi (Nat.not_lt_zero i)
  | cons a t ih =>
    intro i hi
    cases i with
    | zero =>
      rw [List.getD_cons_zero]
      exact List.mem_cons_self
    | succ k =>
      rw [List.getD_cons_succ]
      have hk : k < t.length := by
        simp only [List.length_cons] at hi
        omega
      exact List.mem_cons_of_mem a (ih k hk)

/-- in a duplicate-free list, equal entries have equal (in-range) indices -/
theorem nodup_getD_inj : ∀ (l : List Nat), l.Nodup → ∀ i j, i < l.length → j < l.length →
    l.getD i 0 = l.getD j 0 → i = j := by
  intro l
  induction l with
  | nil => intro _ i j hi; exact absurd hi (Nat.not_lt_zero i)
  | cons a t ih =>
    intro hnd i j hi hj heq
    have hnd' := List.nodup_cons.mp hnd
    simp only [List.length_cons] at hi hj
    cases i with
    | zero =>
      cases j with
      | zero => rfl
      | succ j' =>
        rw [List.getD_cons_zero, List.getD_cons_succ] at heq
        have hm : t.getD j' 0 ∈ t := getD_mem_of_lt t j' (by omega)
        rw [← heq] at hm
        exact absurd hm hnd'.1
    | succ i' =>
      cases j with
      | zero =>
        rw [List.getD_cons_zero, List.getD_cons_succ] at heq
        have hm : t.getD i' 0 ∈ t := getD_mem_of_lt t i' (by omega)
        rw [heq] at hm
        exact absurd hm hnd'.1
      | succ j' =>
        rw [List.getD_cons_succ, List.getD_cons_succ] at heq
        have := ih hnd'.2 i' j' (by omega) (by omega) heq
        omega

/-- the predecessor index `(i + n - 1) % n` on a cycle of length `n`: in range, its successor
    is `i`, and it differs from the successor `(i + 1) % n` once `n ≥ 3` -/
theorem cyc_index_facts (n i : Nat) (hn : 3 ≤ n) (hi : i < n) :
    ∃ s q, s = (i + 1) % n ∧ s < n ∧ q < n ∧ (q + 1) % n = i ∧ s ≠ q ∧ s ≠ i ∧ q ≠ i := by
  by_cases hs : i + 1 = n
  · -- i = n - 1 : successor 0, predecessor n - 2
    refine ⟨0, i - 1, ?_, by omega, by omega, ?_, by omega, by omega, by omega⟩
    · rw [hs, Nat.mod_self]
    · have h1 : i - 1 + 1 = i := by omega
      rw [h1]
      exact Nat.mod_eq_of_lt hi
  · have hlt : i + 1 < n := by omega
    by_cases h0 : i = 0
    · refine ⟨1, n - 1, ?_, by omega, by omega, ?_, by omega, by omega, by omega⟩
      · subst h0
        exact (Nat.mod_eq_of_lt (by omega)).symm
      · have h1 : n - 1 + 1 = n := by omega
        rw [h1, Nat.mod_self]
        exact h0.symm
    · refine ⟨i + 1, i - 1, ?_, hlt, by omega, ?_, by omega, by omega, by omega⟩
      · exact (Nat.mod_eq_of_lt hlt).symm
      · have h1 : i - 1 + 1 = i := by omega
        rw [h1]
        exact Nat.mod_eq_of_lt hi

/-- with the rank/parent hypothesis: a neighbour `x` of a vertex `m` of no larger rank... is the
    parent of `m` -/
theorem parent_of_adj_min (es : List Edge) (p : Nat → Nat) (r : Nat → Int)
    (h : ∀ a b, (a, b) ∈ es → (p a = b ∧ r a < r b) ∨ (p b = a ∧ r b < r a))
    {m x : Nat} (hadj : Adj es m x) (hmin : r m ≤ r x) : p m = x := by
  cases hadj with
  | inl hmem =>
    cases h m x hmem with
    | inl h1 => exact h1.1
    | inr h2 => have := h2.2; omega
  | inr hmem =>
    cases h x m hmem with
    | inl h1 => have := h1.2; omega
    | inr h2 => exact h2.1

/-- Rank/parent witness ⇒ no simple cycle. Every edge joins a vertex to its unique parent `p`, and the parent has strictly larger rank. -/
theorem acyclic_of_rank (es : List Edge) (p : Nat → Nat) (r : Nat → Int)
    (h : ∀ a b, (a, b) ∈ es → (p a = b ∧ r a < r b) ∨ (p b = a ∧ r b < r a)) : Acyclic es := by
  intro c hc
  obtain ⟨hlen, hnd, hadj⟩ := hc
  obtain ⟨i, hi, hmin⟩ := exists_min_index (fun k => r (c.getD k 0)) c.length (by omega)
  obtain ⟨s, q, hs, hsn, hqn, hqs, hsq, _, _⟩ := cyc_index_facts c.length i hlen hi
  have hmin' : ∀ j, j < c.length → r (c.getD i 0) ≤ r (c.getD j 0) := hmin
  -- successor edge
  have a1 : Adj es (c.getD i 0) (c.getD s 0) := by
    have := hadj i hi
    rw [← hs] at this
    exact this
  -- predecessor edge
  have a2 : Adj es (c.getD i 0) (c.getD q 0) := by
    have := hadj q hqn
    rw [hqs] at this
    exact this.symm
  have e1 := parent_of_adj_min es p r h a1 (hmin' s hsn)
  have e2 := parent_of_adj_min es p r h a2 (hmin' q hqn)
  have heq : c.getD s 0 = c.getD q 0 := e1.symm.trans e2
  exact hsq (nodup_getD_inj c hnd s q hsn hqn heq)

theorem acyclic_of_depth (es : List Edge) (p : Nat → Nat) (d : Nat → Nat)
    (h : ∀ a b, (a, b) ∈ es → (p a = b ∧ d a = d b + 1) ∨ (p b = a ∧ d b = d a + 1)) : Acyclic es := by
  apply acyclic_of_rank es p (fun v => -((d v : Nat) : Int))
  intro a b hab
  cases h a b hab with
  | inl h1 =>
    refine Or.inl ⟨h1.1, ?_⟩
    have := h1.2
    show -((d a : Nat) : Int) < -((d b : Nat) : Int)
    omega
  | inr h2 =>
    refine Or.inr ⟨h2.1, ?_⟩
    have := h2.2
    show -((d b : Nat) : Int) < -((d a : Nat) : Int)
    omega

/-! ### Stretch: simple paths and uniqueness of tops -/

/-- consecutive entries adjacent (structural form, internal) -/
def Chain (es : List Edge) : List Nat → Prop
  | [] => True
  | [_] => True
  | a :: b :: t => Adj es a b ∧ Chain es (b :: t)

theorem chain_getD (es : List Edge) : ∀ (l : List Nat), Chain es l →
    ∀ i, i + 1 < l.length → Adj es (l.getD i 0) (l.getD (i + 1) 0) := by
  intro l
  induction l with
  | nil => intro _ i hi; exact absurd hi (Nat.not_lt_zero _)
  | cons a t ih =>
    cases t with
    | nil =>
      intro _ i hi
      simp only [List.length_cons, List.length_nil] at hi
      omega
    | cons b t' =>
      intro hch i hi
      have hch' : Adj es a b ∧ Chain es (b :: t') := hch
      cases i with
      | zero =>
        rw [List.getD_cons_succ, List.getD_cons_zero, List.getD_cons_zero]
        exact hch'.1
      | succ k =>
        rw [List.getD_cons_succ, List.getD_cons_succ]
        have hk : k + 1 < (b :: t').length := by
          simp only [List.length_cons] at hi ⊢
          omega
        exact ih hch'.2 k hk

theorem chain_suffix (es : List Edge) (u w : Nat) : ∀ (P : List Nat), P.Nodup → Chain es P →
    P.getLast? = some w → u ∈ P →
    ∃ Q : List Nat, Q.Nodup ∧ Chain es Q ∧ Q.head? = some u ∧ Q.getLast? = some w := by
  intro P
  induction P with
  | nil => intro _ _ _ hu; exact absurd hu List.not_mem_nil
  | cons a t ih =>
    intro hnd hch hlast hu
    by_cases hau : a = u
    · refine ⟨a :: t, hnd, hch, ?_, hlast⟩
      rw [List.head?_cons, hau]
    · have hut : u ∈ t := by
        cases List.mem_cons.mp hu with
        | inl h1 => exact absurd h1.symm hau
        | inr h2 => exact h2
      cases t with
      | nil => exact absurd hut List.not_mem_nil
      | cons b t' =>
        have hch' : Adj es a b ∧ Chain es (b :: t') := hch
        rw [List.getLast?_cons_cons] at hlast
        exact ih (List.nodup_cons.mp hnd).2 hch'.2 hlast hut

theorem reach_simple_chain {es : List Edge} {u v : Nat} (h : Reach es u v) :
    ∃ path : List Nat, path.Nodup ∧ Chain es path ∧ path.head? = some u ∧
      path.getLast? = some v := by
  induction h with
  | refl u =>
    refine ⟨[u], ?_, True.intro, rfl, rfl⟩
    exact List.nodup_cons.mpr ⟨List.not_mem_nil, List.nodup_nil⟩
  | @step u v w hadj _ ih =>
    obtain ⟨P, hnd, hch, hhead, hlast⟩ := ih
    by_cases hu : u ∈ P
    · exact chain_suffix es u w P hnd hch hlast hu
    · cases P with
      | nil =>
        rw [List.head?_nil] at hhead
        cases hhead
      | cons b t' =>
        rw [List.head?_cons] at hhead
        have hbv : b = v := Option.some.inj hhead
        refine ⟨u :: b :: t', List.nodup_cons.mpr ⟨hu, hnd⟩, ?_, ?_, ?_⟩
        · show Adj es u b ∧ Chain es (b :: t')
          rw [hbv]
          rw [hbv] at hch
          exact ⟨hadj, hch⟩
        · rw [List.head?_cons]
        · rw [List.getLast?_cons_cons]
          exact hlast

/-- (S1) every walk contains a simple path -/
theorem reach_simple_path {es : List Edge} {u v : Nat} (h : Reach es u v) :
    ∃ path : List Nat, path.Nodup ∧ path.head? = some u ∧ path.getLast? = some v ∧
      ∀ i, i + 1 < path.length → Adj es (path.getD i 0) (path.getD (i + 1) 0) := by
  obtain ⟨P, hnd, hch, hhead, hlast⟩ := reach_simple_chain h
  exact ⟨P, hnd, hhead, hlast, chain_getD es P hch⟩

/-- `t` is a top: every neighbour is a child of `t` with strictly smaller rank -/
def Top (es : List Edge) (p : Nat → Nat) (r : Nat → Int) (t : Nat) : Prop :=
  ∀ b, Adj es t b → p b = t ∧ r b < r t

/-- (S2) under the rank/parent hypothesis a simple path with at least two vertices cannot have
    a top at both ends -/
theorem no_simple_path_between_tops (es : List Edge) (p : Nat → Nat) (r : Nat → Int)
    (h : ∀ a b, (a, b) ∈ es → (p a = b ∧ r a < r b) ∨ (p b = a ∧ r b < r a))
    (path : List Nat) (hnd : path.Nodup) (hlen : 2 ≤ path.length)
    (hadj : ∀ i, i + 1 < path.length → Adj es (path.getD i 0) (path.getD (i + 1) 0))
    (ht1 : Top es p r (path.getD 0 0)) (ht2 : Top es p r (path.getD (path.length - 1) 0)) :
    False := by
  obtain ⟨i, hi, hmin⟩ := exists_min_index (fun k => r (path.getD k 0)) path.length (by omega)
  have hmin' : ∀ j, j < path.length → r (path.getD i 0) ≤ r (path.getD j 0) := hmin
  by_cases h0 : i = 0
  · subst h0
    have a := hadj 0 (by omega)
    have := (ht1 _ a).2
    have := hmin' (0 + 1) (by omega)
    omega
  · by_cases hl : i = path.length - 1
    · have a := hadj (i - 1) (by omega)
      have e : i - 1 + 1 = i := by omega
      rw [e] at a
      rw [← hl] at ht2
      have := (ht2 _ a.symm).2
      have := hmin' (i - 1) (by omega)
      omega
    · have a1 : Adj es (path.getD i 0) (path.getD (i + 1) 0) := hadj i (by omega)
      have a2 : Adj es (path.getD i 0) (path.getD (i - 1) 0) := by
        have a := hadj (i - 1) (by omega)
        have e : i - 1 + 1 = i := by omega
        rw [e] at a
        exact a.symm
      have e1 := parent_of_adj_min es p r h a1 (hmin' (i + 1) (by omega))
      have e2 := parent_of_adj_min es p r h a2 (hmin' (i - 1) (by omega))
      have heq : path.getD (i + 1) 0 = path.getD (i - 1) 0 := e1.symm.trans e2
      have := nodup_getD_inj path hnd (i + 1) (i - 1) (by omega) (by omega) heq
      omega

theorem head?_getD {l : List Nat} {u : Nat} (h : l.head? = some u) : l.getD 0 0 = u := by
  cases l with
  | nil =>
    rw [List.head?_nil] at h
    cases h
  | cons a t =>
    rw [List.head?_cons] at h
    rw [List.getD_cons_zero]
    exact Option.some.inj h

theorem getLast?_getD {l : List Nat} {v : Nat} (h : l.getLast? = some v) :
    l.getD (l.length - 1) 0 = v := by
  rw [List.getLast?_eq_getElem?] at h
  rw [List.getD_eq_getElem?_getD, h]
  rfl

/-- two tops joined by a walk coincide -/
theorem tops_unique (es : List Edge) (p : Nat → Nat) (r : Nat → Int)
    (h : ∀ a b, (a, b) ∈ es → (p a = b ∧ r a < r b) ∨ (p b = a ∧ r b < r a))
    {t1 t2 : Nat} (ht1 : Top es p r t1) (ht2 : Top es p r t2) (hr : Reach es t1 t2) :
    t1 = t2 := by
  obtain ⟨P, hnd, hhead, hlast, hadj⟩ := reach_simple_path hr
  have e1 := head?_getD hhead
  have e2 := getLast?_getD hlast
  by_cases hlen : 2 ≤ P.length
  · rw [← e1] at ht1
    rw [← e2] at ht2
    exact (no_simple_path_between_tops es p r h P hnd hlen hadj ht1 ht2).elim
  · have hl : P.length - 1 = 0 := by omega
    rw [hl] at e2
    exact e1.symm.trans e2

end AdaptaVerif.Lemmas.PeelRank
