/-
`Block::compute_dfdv` (model: `computeDfdv`) computes the tree multipliers:
on a state satisfying the block invariant with blocks at their stationary positions, the recursion
started at any variable of a block returns the `q`-sum of the subtree and assigns to every active
constraint of the block exactly `lamOf st j` (the multiplier that satisfies stationarity).
-/
import AdaptaVerif.Lemmas.VpscKktOpt
namespace AdaptaVerif.Lemmas.VpscKktDfdv
open AdaptaVerif.Model.Vpsc
open AdaptaVerif.Lemmas.VpscGraph AdaptaVerif.Lemmas.VpscInv AdaptaVerif.Lemmas.VpscWalk
open AdaptaVerif.Lemmas.VpscKkt AdaptaVerif.Lemmas.VpscKktOpt
open AdaptaVerif.Lemmas.VpscLoop (forest_of_inv)
open AdaptaVerif.Spec.Qp (sumTo listSum)
open AdaptaVerif.Lemmas.Qp
open Relation Classical

/-- how a call of the recursion is attached to the rest of the tree: the root call (`u = none`, `e` a
    dummy index beyond all constraints) or a call that arrived from `u'` along the active constraint `e` -/
def Par (cons : Array Con) (e : Nat) (u : Option Nat) (v : Nat) : Prop :=
  (u = none ∧ cons.size ≤ e) ∨ (∃ u', u = some u' ∧ AE cons e u' v)

section Tree
variable {vars : Array Var} {cons : Array Con} {nb : Nat} {ia : Array Nat}

/-- at most one active constraint joins two given variables -/
theorem parallel_eq (h : InvC vars cons nb ia) {j e a b : Nat} (h1 : AE cons j a b) (h2 : AE cons e b a) :
    j = e := by
  by_contra hne
  exact forest_of_inv h _ _ _ h2 (ReflTransGen.single ⟨j, hne, h1.symm⟩)

/-- what lies beyond a child constraint lies on this side of the parent constraint -/
theorem beyond_to_side (h : InvC vars cons nb ia) {e : Nat} {u : Option Nat} {v j y x : Nat}
    (hp : Par cons e u v) (hae : AE cons j v y) (hje : j ≠ e) (hy : ReachAvoid cons j y x) :
    ReachAvoid cons e v x := by
  have hf := forest_of_inv h
  rcases hp with ⟨_, hbig⟩ | ⟨u', _, hpe⟩
  · -- dummy parent: nothing to avoid
    have mono : ∀ {a b}, ReachAvoid cons j a b → ReachAvoid cons e a b :=
      fun hab => rtg_mono (fun _ _ ⟨k, _, hk⟩ => ⟨k, fun hke => by have := hk.1; omega, hk⟩) hab
    exact ReflTransGen.head ⟨j, hje, hae⟩ (mono hy)
  · have hdec := reach_add_edge (R := Adj (fun k => k ≠ j ∧ k ≠ e) cons)
      (R' := Adj (fun k => k ≠ j) cons) (l := u') (r := v) (by
        intro a b ⟨k, hk, hkae⟩
        by_cases hke : k = e
        · subst hke
          rcases ae_ends hpe hkae with ⟨rfl, rfl⟩ | ⟨rfl, rfl⟩
          · exact Or.inr (Or.inl ⟨rfl, rfl⟩)
          · exact Or.inr (Or.inr ⟨rfl, rfl⟩)
        · exact Or.inl ⟨k, ⟨hk, hke⟩, hkae⟩) hy
    have toE : ∀ {a b}, ReflTransGen (Adj (fun k => k ≠ j ∧ k ≠ e) cons) a b → ReachAvoid cons e a b :=
      fun hab => rtg_mono (fun _ _ ⟨k, hk, hh⟩ => ⟨k, hk.2, hh⟩) hab
    have toJ : ∀ {a b}, ReflTransGen (Adj (fun k => k ≠ j ∧ k ≠ e) cons) a b → ReachAvoid cons j a b :=
      fun hab => rtg_mono (fun _ _ ⟨k, hk, hh⟩ => ⟨k, hk.1, hh⟩) hab
    rcases hdec with h1 | ⟨_, h2⟩ | ⟨h1, _⟩
    · exact ReflTransGen.head ⟨j, hje, hae⟩ (toE h1)
    · exact toE h2
    · exact absurd (toJ h1).symm (hf _ _ _ hae)

/-- number of child constraints beyond which `x` lies -/
theorem child_count (h : InvC vars cons nb ia) {e : Nat} {u : Option Nat} {v : Nat}
    (hp : Par cons e u v) (hv : v < vars.size) (x : Nat) (hx : x < vars.size) :
    sumTo cons.size (fun j => if j ≠ e ∧ Beyond cons v j x then (1 : Rat) else 0) =
      if ReachAvoid cons e v x ∧ x ≠ v then 1 else 0 := by
  have hf := forest_of_inv h
  by_cases hc : ReachAvoid cons e v x ∧ x ≠ v
  · rw [if_pos hc]
    have hb : blk vars x = blk vars v := (h.reach_blk hc.1).symm
    obtain ⟨j0, hj0, hb0, hu⟩ := beyond_unique h v x hv hx hb hc.2
    have hj0e : j0 ≠ e := by
      rintro rfl
      obtain ⟨y, hae, hy⟩ := hb0
      exact hf _ _ _ hae (hc.1.trans hy.symm)
    exact sumTo_indicator_unique _ _ j0 hj0 ⟨hj0e, hb0⟩ (fun j _ hj => hu j hj.2)
  · rw [if_neg hc]
    apply sumTo_indicator_none
    intro j _ ⟨hje, y, hae, hy⟩
    apply hc
    refine ⟨beyond_to_side h hp hae hje hy, ?_⟩
    rintro rfl
    exact hf _ _ _ hae hy.symm

/-- the subtree sum splits into the root and the subtrees beyond the child constraints -/
theorem side_decomp (h : InvC vars cons nb ia) (q : Nat → Rat) {e : Nat} {u : Option Nat} {v : Nat}
    (hp : Par cons e u v) (hv : v < vars.size) :
    sideSum cons vars.size q e v =
      q v + sumTo cons.size (fun j => if j ≠ e then beyondSum cons vars.size q v j else 0) := by
  have h2 : sumTo cons.size (fun j => if j ≠ e then beyondSum cons vars.size q v j else 0) =
      sumTo vars.size (fun x => if ReachAvoid cons e v x ∧ x ≠ v then q x else 0) := by
    have : sumTo cons.size (fun j => if j ≠ e then beyondSum cons vars.size q v j else 0) =
        sumTo cons.size (fun j => sumTo vars.size
          (fun x => if j ≠ e ∧ Beyond cons v j x then q x else 0)) := by
      apply sumTo_congr
      intro j _
      by_cases hje : j ≠ e
      · rw [if_pos hje]
        unfold beyondSum
        apply sumTo_congr
        intro x _
        by_cases hb : Beyond cons v j x
        · rw [if_pos hb, if_pos ⟨hje, hb⟩]
        · rw [if_neg hb, if_neg (fun hh => hb hh.2)]
      · rw [if_neg hje]
        symm
        apply sumTo_eq_zero
        intro x _
        rw [if_neg (fun hh => hje hh.1)]
    rw [this, sumTo_comm]
    apply sumTo_congr
    intro x hx
    have : sumTo cons.size (fun j => if j ≠ e ∧ Beyond cons v j x then q x else 0) =
        sumTo cons.size (fun j => q x * (if j ≠ e ∧ Beyond cons v j x then (1 : Rat) else 0)) := by
      apply sumTo_congr
      intro j _
      by_cases hb : j ≠ e ∧ Beyond cons v j x
      · rw [if_pos hb, if_pos hb]; ring
      · rw [if_neg hb, if_neg hb]; ring
    rw [this, sumTo_mul_left, child_count h hp hv x hx]
    split <;> ring
  rw [h2]
  unfold sideSum
  have : sumTo vars.size (fun x => if ReachAvoid cons e v x then q x else 0) =
      sumTo vars.size (fun x => (if v = x then q x else 0) +
        (if ReachAvoid cons e v x ∧ x ≠ v then q x else 0)) := by
    apply sumTo_congr
    intro x _
    by_cases hxv : v = x
    · subst hxv
      have : ReachAvoid cons e v v := ReflTransGen.refl
      simp [this]
    · have hne : x ≠ v := fun e => hxv e.symm
      by_cases hr : ReachAvoid cons e v x
      · simp [hr, hxv, hne]
      · simp [hr, hxv]
  rw [this, sumTo_add, sumTo_ite, if_pos hv]

end Tree

/-! ### sums over the `in` / `out` lists -/

theorem listSum_indicator (m : Nat) (F : Nat → Rat) : ∀ (L : List Nat), L.Nodup → (∀ a ∈ L, a < m) →
    listSum F L = sumTo m (fun j => if j ∈ L then F j else 0) := by
  intro L
  induction L with
  | nil =>
    intro _ _
    simp only [listSum, List.not_mem_nil, if_false]
    exact (sumTo_zero m).symm
  | cons a L ih =>
    intro hnd hlt
    rw [List.nodup_cons] at hnd
    simp only [listSum]
    rw [ih hnd.2 (fun b hb => hlt b (List.mem_cons_of_mem _ hb))]
    have : sumTo m (fun j => if j ∈ a :: L then F j else 0) =
        sumTo m (fun j => (if a = j then F j else 0) + (if j ∈ L then F j else 0)) := by
      apply sumTo_congr
      intro j _
      by_cases hja : a = j
      · subst hja
        simp [hnd.1]
      · have : j ≠ a := fun e => hja e.symm
        by_cases hjL : j ∈ L <;> simp [hja, hjL, this]
    rw [this, sumTo_add, sumTo_ite, if_pos (hlt a List.mem_cons_self)]

section Children
variable {st : St} (hinv : Inv st)
include hinv

/-- the contribution of the child constraints, read off the `out` and `in` lists of `v` exactly as
    the recursion does -/
theorem children_sum (bid : Nat) {e : Nat} {u : Option Nat} {v : Nat}
    (hp : Par st.cons e u v) (hv : v < st.vars.size) (hb : blk st.vars v = bid) (q : Nat → Rat) :
    listSum (fun ci => if canFollowRight st bid (st.cons[ci]!) u = true
        then beyondSum st.cons st.vars.size q v ci else 0) (st.vars[v]!).outs.toList +
    listSum (fun ci => if canFollowLeft st bid (st.cons[ci]!) u = true
        then beyondSum st.cons st.vars.size q v ci else 0) (st.vars[v]!).ins.toList =
    sumTo st.cons.size (fun j => if j ≠ e then beyondSum st.cons st.vars.size q v j else 0) := by
  have hf := forest_of_inv hinv
  rw [listSum_indicator st.cons.size _ _ (hinv.outs_nodup v)
        (fun a ha => (hinv.outs_sound v a (by simpa using ha)).1),
      listSum_indicator st.cons.size _ _ (hinv.ins_nodup v)
        (fun a ha => (hinv.ins_sound v a (by simpa using ha)).1),
      ← sumTo_add]
  apply sumTo_congr
  intro j hj
  simp only [Array.mem_toList_iff]
  -- membership in the lists = being an out / in constraint of v
  have hout : j ∈ (st.vars[v]!).outs ↔ (st.cons[j]!).l = v :=
    ⟨fun hm => (hinv.outs_sound v j hm).2, fun hl => hl ▸ hinv.outs_complete j hj⟩
  have hin : j ∈ (st.vars[v]!).ins ↔ (st.cons[j]!).r = v :=
    ⟨fun hm => (hinv.ins_sound v j hm).2, fun hr => hr ▸ hinv.ins_complete j hj⟩
  -- an inactive constraint, or one that does not touch v, has nothing beyond it
  have hzero : ¬ (∃ y, AE st.cons j v y) → beyondSum st.cons st.vars.size q v j = 0 := by
    intro hno
    unfold beyondSum
    apply sumTo_eq_zero
    intro x _
    rw [if_neg]
    rintro ⟨y, hae, _⟩
    exact hno ⟨y, hae⟩
  -- `u ≠ some (other end)` says exactly `j ≠ e`
  have hue : ∀ y, AE st.cons j v y → (u ≠ some y ↔ j ≠ e) := by
    intro y hae
    rcases hp with ⟨hu, hbig⟩ | ⟨u', hu, hpe⟩
    · subst hu
      exact ⟨fun _ => by have := hae.1; omega, fun _ => by simp⟩
    · subst hu
      constructor
      · intro hne hje
        subst hje
        rcases ae_ends hpe hae with ⟨_, e2⟩ | ⟨e1, e2⟩
        · -- v = u', y = v: self loop
          subst e2
          exact hf _ _ _ hae ReflTransGen.refl
        · exact hne (by rw [e2])
      · intro hje heq
        have : y = u' := by simpa using heq.symm
        subst this
        exact hje (parallel_eq hinv hae hpe)
  by_cases ha : (st.cons[j]!).active = true
  · by_cases hl : (st.cons[j]!).l = v
    · have hae : AE st.cons j v (st.cons[j]!).r := ⟨hj, ha, Or.inl ⟨hl, rfl⟩⟩
      have hr : (st.cons[j]!).r ≠ v := by
        intro hr
        rw [hr] at hae
        exact hf _ _ _ hae ReflTransGen.refl
      have hbr : blk st.vars (st.cons[j]!).r = bid := by
        rw [← (hinv.tight j hj ha).1, hl]; exact hb
      have hcf : canFollowRight st bid (st.cons[j]!) u = true ↔ j ≠ e := by
        simp only [canFollowRight, Bool.and_eq_true, beq_iff_eq, bne_iff_ne, ne_eq]
        constructor
        · intro hh; exact (hue _ hae).1 hh.2
        · intro hh; exact ⟨⟨hbr, ha⟩, (hue _ hae).2 hh⟩
      rw [if_pos (hout.2 hl), if_neg (fun hm => hr (hin.1 hm))]
      by_cases hje : j ≠ e
      · rw [if_pos (hcf.2 hje), if_pos hje]; ring
      · rw [if_neg (fun hh => hje (hcf.1 hh)), if_neg hje]; ring
    · rw [if_neg (fun hm => hl (hout.1 hm))]
      by_cases hr : (st.cons[j]!).r = v
      · have hae : AE st.cons j v (st.cons[j]!).l := ⟨hj, ha, Or.inr ⟨rfl, hr⟩⟩
        have hbl : blk st.vars (st.cons[j]!).l = bid := by
          rw [(hinv.tight j hj ha).1, hr]; exact hb
        have hcf : canFollowLeft st bid (st.cons[j]!) u = true ↔ j ≠ e := by
          simp only [canFollowLeft, Bool.and_eq_true, beq_iff_eq, bne_iff_ne, ne_eq]
          constructor
          · intro hh; exact (hue _ hae).1 hh.2
          · intro hh; exact ⟨⟨hbl, ha⟩, (hue _ hae).2 hh⟩
        rw [if_pos (hin.2 hr)]
        by_cases hje : j ≠ e
        · rw [if_pos (hcf.2 hje), if_pos hje]; ring
        · rw [if_neg (fun hh => hje (hcf.1 hh)), if_neg hje]; ring
      · rw [if_neg (fun hm => hr (hin.1 hm))]
        have := hzero (by
          rintro ⟨y, _, _, hends⟩
          rcases hends with ⟨e1, _⟩ | ⟨_, e2⟩
          · exact hl e1
          · exact hr e2)
        rw [this]; split <;> ring
  · have hz := hzero (by rintro ⟨y, _, hact, _⟩; exact ha hact)
    have hnr : ¬ canFollowRight st bid (st.cons[j]!) u = true := by
      simp only [canFollowRight, Bool.and_eq_true]; exact fun hh => ha hh.1.2
    have hnl : ¬ canFollowLeft st bid (st.cons[j]!) u = true := by
      simp only [canFollowLeft, Bool.and_eq_true]; exact fun hh => ha hh.1.2
    rw [if_neg hnr, if_neg hnl, hz]
    split <;> split <;> split <;> ring

end Children

end AdaptaVerif.Lemmas.VpscKktDfdv
