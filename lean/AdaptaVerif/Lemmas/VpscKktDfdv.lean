/-
`Block::compute_dfdv` (model: `computeDfdv`) computes the tree multipliers:
on a state satisfying the block invariant with blocks at their stationary positions, the recursion
started at any variable of a block returns the `q`-sum of the subtree and assigns to every active
constraint of the block exactly `lamOf st j` (the multiplier that satisfies stationarity).
-/
import AdaptaVerif.Lemmas.VpscKktOpt
namespace AdaptaVerif.Lemmas.VpscKktDfdv
open AdaptaVerif.Model.Vpsc
open AdaptaVerif.Lemmas.VpscGraph AdaptaVerif.Lemmas.VpscInv AdaptaVerif.Lemmas.VpscWalk
open AdaptaVerif.Lemmas.VpscKkt AdaptaVerif.Lemmas.VpscKktOpt
open AdaptaVerif.Lemmas.VpscLoop (forest_of_inv)
open AdaptaVerif.Spec.Qp (sumTo listSum)
open AdaptaVerif.Lemmas.Qp
open Relation Classical

/-- how a call of the recursion is attached to the rest of the tree: the root call (`u = none`, `e` a
    dummy index beyond all constraints) or a call that arrived from `u'` along the active constraint `e` -/
def Par (cons : Array Con) (e : Nat) (u : Option Nat) (v : Nat) : Prop :=
  (u = none ∧ cons.size ≤ e) ∨ (∃ u', u = some u' ∧ AE cons e u' v)

section Tree
variable {vars : Array Var} {cons : Array Con} {nb : Nat} {ia : Array Nat}

/-- at most one active constraint joins two given variables -/
theorem parallel_eq (h : InvC vars cons nb ia) {j e a b : Nat} (h1 : AE cons j a b) (h2 : AE cons e b a) :
    j = e := by
  by_contra hne
  exact forest_of_inv h _ _ _ h2 (ReflTransGen.single ⟨j, hne, h1.symm⟩)

/-- what lies beyond a child constraint lies on this side of the parent constraint -/
theorem beyond_to_side (h : InvC vars cons nb ia) {e : Nat} {u : Option Nat} {v j y x : Nat}
    (hp : Par cons e u v) (hae : AE cons j v y) (hje : j ≠ e) (hy : ReachAvoid cons j y x) :
    ReachAvoid cons e v x := by
  have hf := forest_of_inv h
  rcases hp with ⟨_, hbig⟩ | ⟨u', _, hpe⟩
  · -- dummy parent: nothing to avoid
    have mono : ∀ {a b}, ReachAvoid cons j a b → ReachAvoid cons e a b :=
      fun hab => rtg_mono (fun _ _ ⟨k, _, hk⟩ => ⟨k, fun hke => by have := hk.1; omega, hk⟩) hab
    exact ReflTransGen.head ⟨j, hje, hae⟩ (mono hy)
  · have hdec := reach_add_edge (R := Adj (fun k => k ≠ j ∧ k ≠ e) cons)
      (R' := Adj (fun k => k ≠ j) cons) (l := u') (r := v) (by
        intro a b ⟨k, hk, hkae⟩
        by_cases hke : k = e
        · subst hke
          rcases ae_ends hpe hkae with ⟨rfl, rfl⟩ | ⟨rfl, rfl⟩
          · exact Or.inr (Or.inl ⟨rfl, rfl⟩)
          · exact Or.inr (Or.inr ⟨rfl, rfl⟩)
        · exact Or.inl ⟨k, ⟨hk, hke⟩, hkae⟩) hy
    have toE : ∀ {a b}, ReflTransGen (Adj (fun k => k ≠ j ∧ k ≠ e) cons) a b → ReachAvoid cons e a b :=
      fun hab => rtg_mono (fun _ _ ⟨k, hk, hh⟩ => ⟨k, hk.2, hh⟩) hab
    have toJ : ∀ {a b}, ReflTransGen (Adj (fun k => k ≠ j ∧ k ≠ e) cons) a b → ReachAvoid cons j a b :=
      fun hab => rtg_mono (fun _ _ ⟨k, hk, hh⟩ => ⟨k, hk.1, hh⟩) hab
    rcases hdec with h1 | ⟨_, h2⟩ | ⟨h1, _⟩
    · exact ReflTransGen.head ⟨j, hje, hae⟩ (toE h1)
    · exact toE h2
    · exact absurd (toJ h1).symm (hf _ _ _ hae)

/-- number of child constraints beyond which `x` lies -/
theorem child_count (h : InvC vars cons nb ia) {e : Nat} {u : Option Nat} {v : Nat}
    (hp : Par cons e u v) (hv : v < vars.size) (x : Nat) (hx : x < vars.size) :
    sumTo cons.size (fun j => if j ≠ e ∧ Beyond cons v j x then (1 : Rat) else 0) =
      if ReachAvoid cons e v x ∧ x ≠ v then 1 else 0 := by
  have hf := forest_of_inv h
  by_cases hc : ReachAvoid cons e v x ∧ x ≠ v
  · rw [if_pos hc]
    have hb : blk vars x = blk vars v := (h.reach_blk hc.1).symm
    obtain ⟨j0, hj0, hb0, hu⟩ := beyond_unique h v x hv hx hb hc.2
    have hj0e : j0 ≠ e := by
      rintro rfl
      obtain ⟨y, hae, hy⟩ := hb0
      exact hf _ _ _ hae (hc.1.trans hy.symm)
    exact sumTo_indicator_unique _ _ j0 hj0 ⟨hj0e, hb0⟩ (fun j _ hj => hu j hj.2)
  · rw [if_neg hc]
    apply sumTo_indicator_none
    intro j _ ⟨hje, y, hae, hy⟩
    apply hc
    refine ⟨beyond_to_side h hp hae hje hy, ?_⟩
    rintro rfl
    exact hf _ _ _ hae hy.symm

/-- the subtree sum splits into the root and the subtrees beyond the child constraints -/
theorem side_decomp (h : InvC vars cons nb ia) (q : Nat → Rat) {e : Nat} {u : Option Nat} {v : Nat}
    (hp : Par cons e u v) (hv : v < vars.size) :
    sideSum cons vars.size q e v =
      q v + sumTo cons.size (fun j => if j ≠ e then beyondSum cons vars.size q v j else 0) := by
  have h2 : sumTo cons.size (fun j => if j ≠ e then beyondSum cons vars.size q v j else 0) =
      sumTo vars.size (fun x => if ReachAvoid cons e v x ∧ x ≠ v then q x else 0) := by
    have : sumTo cons.size (fun j => if j ≠ e then beyondSum cons vars.size q v j else 0) =
        sumTo cons.size (fun j => sumTo vars.size
          (fun x => if j ≠ e ∧ Beyond cons v j x then q x else 0)) := by
      apply sumTo_congr
      intro j _
      by_cases hje : j ≠ e
      · rw [if_pos hje]
        unfold beyondSum
        apply sumTo_congr
        intro x _
        by_cases hb : Beyond cons v j x
        · rw [if_pos hb, if_pos ⟨hje, hb⟩]
        · rw [if_neg hb, if_neg (fun hh => hb hh.2)]
      · rw [if_neg hje]
        symm
        apply sumTo_eq_zero
        intro x _
        rw [if_neg (fun hh => hje hh.1)]
    rw [this, sumTo_comm]
    apply sumTo_congr
    intro x hx
    have : sumTo cons.size (fun j => if j ≠ e ∧ Beyond cons v j x then q x else 0) =
        sumTo cons.size (fun j => q x * (if j ≠ e ∧ Beyond cons v j x then (1 : Rat) else 0)) := by
      apply sumTo_congr
      intro j _
      by_cases hb : j ≠ e ∧ Beyond cons v j x
      · rw [if_pos hb, if_pos hb]; ring
      · rw [if_neg hb, if_neg hb]; ring
    rw [this, sumTo_mul_left, child_count h hp hv x hx]
    split <;> ring
  rw [h2]
  unfold sideSum
  have : sumTo vars.size (fun x => if ReachAvoid cons e v x then q x else 0) =
      sumTo vars.size (fun x => (if v = x then q x else 0) +
        (if ReachAvoid cons e v x ∧ x ≠ v then q x else 0)) := by
    apply sumTo_congr
    intro x _
    by_cases hxv : v = x
    · subst hxv
      have : ReachAvoid cons e v v := ReflTransGen.refl
      simp [this]
    · have hne : x ≠ v := fun e => hxv e.symm
      by_cases hr : ReachAvoid cons e v x
      · simp [hr, hxv, hne]
      · simp [hr, hxv]
  rw [this, sumTo_add, sumTo_ite, if_pos hv]

end Tree

/-! ### sums over the `in` / `out` lists -/

theorem listSum_indicator (m : Nat) (F : Nat → Rat) : ∀ (L : List Nat), L.Nodup → (∀ a ∈ L, a < m) →
    listSum F L = sumTo m (fun j => if j ∈ L then F j else 0) := by
  intro L
  induction L with
  | nil =>
    intro _ _
    simp only [listSum, List.not_mem_nil, if_false]
    exact (sumTo_zero m).symm
  | cons a L ih =>
    intro hnd hlt
    rw [List.nodup_cons] at hnd
    simp only [listSum]
    rw [ih hnd.2 (fun b hb => hlt b (List.mem_cons_of_mem _ hb))]
    have : sumTo m (fun j => if j ∈ a :: L then F j else 0) =
        sumTo m (fun j => (if a = j then F j else 0) + (if j ∈ L then F j else 0)) := by
      apply sumTo_congr
      intro j _
      by_cases hja : a = j
      · subst hja
        simp [hnd.1]
      · have : j ≠ a := fun e => hja e.symm
        by_cases hjL : j ∈ L <;> simp [hja, hjL, this]
    rw [this, sumTo_add, sumTo_ite, if_pos (hlt a List.mem_cons_self)]

section Children
variable {st : St} (hinv : Inv st)
include hinv

/-- the contribution of the child constraints, read off the `out` and `in` lists of `v` exactly as
    the recursion does -/
theorem children_sum (bid : Nat) {e : Nat} {u : Option Nat} {v : Nat}
    (hp : Par st.cons e u v) (hv : v < st.vars.size) (hb : blk st.vars v = bid) (q : Nat → Rat) :
    listSum (fun ci => if canFollowRight st bid (st.cons[ci]!) u = true
        then beyondSum st.cons st.vars.size q v ci else 0) (st.vars[v]!).outs.toList +
    listSum (fun ci => if canFollowLeft st bid (st.cons[ci]!) u = true
        then beyondSum st.cons st.vars.size q v ci else 0) (st.vars[v]!).ins.toList =
    sumTo st.cons.size (fun j => if j ≠ e then beyondSum st.cons st.vars.size q v j else 0) := by
  have hf := forest_of_inv hinv
  rw [listSum_indicator st.cons.size _ _ (hinv.outs_nodup v)
        (fun a ha => (hinv.outs_sound v a (by simpa using ha)).1),
      listSum_indicator st.cons.size _ _ (hinv.ins_nodup v)
        (fun a ha => (hinv.ins_sound v a (by simpa using ha)).1),
      ← sumTo_add]
  apply sumTo_congr
  intro j hj
  simp only [Array.mem_toList_iff]
  -- membership in the lists = being an out / in constraint of v
  have hout : j ∈ (st.vars[v]!).outs ↔ (st.cons[j]!).l = v :=
    ⟨fun hm => (hinv.outs_sound v j hm).2, fun hl => hl ▸ hinv.outs_complete j hj⟩
  have hin : j ∈ (st.vars[v]!).ins ↔ (st.cons[j]!).r = v :=
    ⟨fun hm => (hinv.ins_sound v j hm).2, fun hr => hr ▸ hinv.ins_complete j hj⟩
  -- an inactive constraint, or one that does not touch v, has nothing beyond it
  have hzero : ¬ (∃ y, AE st.cons j v y) → beyondSum st.cons st.vars.size q v j = 0 := by
    intro hno
    unfold beyondSum
    apply sumTo_eq_zero
    intro x _
    rw [if_neg]
    rintro ⟨y, hae, _⟩
    exact hno ⟨y, hae⟩
  -- `u ≠ some (other end)` says exactly `j ≠ e`
  have hue : ∀ y, AE st.cons j v y → (u ≠ some y ↔ j ≠ e) := by
    intro y hae
    rcases hp with ⟨hu, hbig⟩ | ⟨u', hu, hpe⟩
    · subst hu
      exact ⟨fun _ => by have := hae.1; omega, fun _ => by simp⟩
    · subst hu
      constructor
      · intro hne hje
        subst hje
        rcases ae_ends hpe hae with ⟨_, e2⟩ | ⟨e1, e2⟩
        · -- v = u', y = v: self loop
          subst e2
          exact hf _ _ _ hae ReflTransGen.refl
        · exact hne (by rw [e2])
      · intro hje heq
        have : y = u' := by simpa using heq.symm
        subst this
        exact hje (parallel_eq hinv hae hpe)
  by_cases ha : (st.cons[j]!).active = true
  · by_cases hl : (st.cons[j]!).l = v
    · have hae : AE st.cons j v (st.cons[j]!).r := ⟨hj, ha, Or.inl ⟨hl, rfl⟩⟩
      have hr : (st.cons[j]!).r ≠ v := by
        intro hr
        rw [hr] at hae
        exact hf _ _ _ hae ReflTransGen.refl
      have hbr : blk st.vars (st.cons[j]!).r = bid := by
        rw [← (hinv.tight j hj ha).1, hl]; exact hb
      have hcf : canFollowRight st bid (st.cons[j]!) u = true ↔ j ≠ e := by
        simp only [canFollowRight, Bool.and_eq_true, beq_iff_eq, bne_iff_ne, ne_eq]
        constructor
        · intro hh; exact (hue _ hae).1 hh.2
        · intro hh; exact ⟨⟨hbr, ha⟩, (hue _ hae).2 hh⟩
      rw [if_pos (hout.2 hl), if_neg (fun hm => hr (hin.1 hm))]
      by_cases hje : j ≠ e
      · rw [if_pos (hcf.2 hje), if_pos hje]; ring
      · rw [if_neg (fun hh => hje (hcf.1 hh)), if_neg hje]; ring
    · rw [if_neg (fun hm => hl (hout.1 hm))]
      by_cases hr : (st.cons[j]!).r = v
      · have hae : AE st.cons j v (st.cons[j]!).l := ⟨hj, ha, Or.inr ⟨rfl, hr⟩⟩
        have hbl : blk st.vars (st.cons[j]!).l = bid := by
          rw [(hinv.tight j hj ha).1, hr]; exact hb
        have hcf : canFollowLeft st bid (st.cons[j]!) u = true ↔ j ≠ e := by
          simp only [canFollowLeft, Bool.and_eq_true, beq_iff_eq, bne_iff_ne, ne_eq]
          constructor
          · intro hh; exact (hue _ hae).1 hh.2
          · intro hh; exact ⟨⟨hbl, ha⟩, (hue _ hae).2 hh⟩
        rw [if_pos (hin.2 hr)]
        by_cases hje : j ≠ e
        · rw [if_pos (hcf.2 hje), if_pos hje]; ring
        · rw [if_neg (fun hh => hje (hcf.1 hh)), if_neg hje]; ring
      · rw [if_neg (fun hm => hr (hin.1 hm))]
        have := hzero (by
          rintro ⟨y, _, _, hends⟩
          rcases hends with ⟨e1, _⟩ | ⟨_, e2⟩
          · exact hl e1
          · exact hr e2)
        rw [this]; split <;> ring
  · have hz := hzero (by rintro ⟨y, _, hact, _⟩; exact ha hact)
    have hnr : ¬ canFollowRight st bid (st.cons[j]!) u = true := by
      simp only [canFollowRight, Bool.and_eq_true]; exact fun hh => ha hh.1.2
    have hnl : ¬ canFollowLeft st bid (st.cons[j]!) u = true := by
      simp only [canFollowLeft, Bool.and_eq_true]; exact fun hh => ha hh.1.2
    rw [if_neg hnr, if_neg hnl, hz]
    split <;> split <;> split <;> ring

end Children

/-! ### the recursion -/

/-- accumulator of the two loops of `compute_dfdv`: (lm, post-order, dfdv so far, ok) -/
abbrev Acc := Array Rat × Array Nat × Rat × Bool

/-- loop body over the `out` constraints -/
def dOut (st : St) (bid fuel v : Nat) (u : Option Nat) (x : Acc) (ci : Nat) : Acc :=
  if canFollowRight st bid st.cons[ci]! u = true then
    ((computeDfdv st bid fuel x.1 x.2.1 st.cons[ci]!.r (some v)).1.set! ci
        (computeDfdv st bid fuel x.1 x.2.1 st.cons[ci]!.r (some v)).2.2.1,
      (computeDfdv st bid fuel x.1 x.2.1 st.cons[ci]!.r (some v)).2.1.push ci,
      x.2.2.1 +
        (computeDfdv st bid fuel x.1 x.2.1 st.cons[ci]!.r (some v)).2.2.1 * st.vars[st.cons[ci]!.l]!.scale,
      x.2.2.2 && (computeDfdv st bid fuel x.1 x.2.1 st.cons[ci]!.r (some v)).2.2.2)
  else (x.1, x.2.1, x.2.2.1, x.2.2.2)

/-- loop body over the `in` constraints -/
def dIn (st : St) (bid fuel v : Nat) (u : Option Nat) (x : Acc) (ci : Nat) : Acc :=
  if canFollowLeft st bid st.cons[ci]! u = true then
    ((computeDfdv st bid fuel x.1 x.2.1 st.cons[ci]!.l (some v)).1.set! ci
        (-(computeDfdv st bid fuel x.1 x.2.1 st.cons[ci]!.l (some v)).2.2.1),
      (computeDfdv st bid fuel x.1 x.2.1 st.cons[ci]!.l (some v)).2.1.push ci,
      x.2.2.1 -
        -(computeDfdv st bid fuel x.1 x.2.1 st.cons[ci]!.l (some v)).2.2.1 * st.vars[st.cons[ci]!.r]!.scale,
      x.2.2.2 && (computeDfdv st bid fuel x.1 x.2.1 st.cons[ci]!.l (some v)).2.2.2)
  else (x.1, x.2.1, x.2.2.1, x.2.2.2)

theorem computeDfdv_succ (st : St) (bid fuel : Nat) (lm : Array Rat) (post : Array Nat) (v : Nat)
    (u : Option Nat) :
    computeDfdv st bid (fuel + 1) lm post v u =
      (((st.vars[v]!).ins.toList.foldl (dIn st bid fuel v u)
          ((st.vars[v]!).outs.toList.foldl (dOut st bid fuel v u) (lm, post, st.dfdv v, true))).1,
       ((st.vars[v]!).ins.toList.foldl (dIn st bid fuel v u)
          ((st.vars[v]!).outs.toList.foldl (dOut st bid fuel v u) (lm, post, st.dfdv v, true))).2.1,
       ((st.vars[v]!).ins.toList.foldl (dIn st bid fuel v u)
          ((st.vars[v]!).outs.toList.foldl (dOut st bid fuel v u) (lm, post, st.dfdv v, true))).2.2.1 /
            (st.vars[v]!).scale,
       ((st.vars[v]!).ins.toList.foldl (dIn st bid fuel v u)
          ((st.vars[v]!).outs.toList.foldl (dOut st bid fuel v u) (lm, post, st.dfdv v, true))).2.2.2) := by
  rw [computeDfdv]
  simp only [← Array.foldl_toList]
  rfl

section Rec
variable {st : St} (hinv : Inv st) (hstat : BlockStationary st)
  (hs : ∀ i : Nat, i < st.vars.size → (st.vars[i]!).scale ≠ 0)

/-- `lm'` arises from `lm` by overwriting some entries of active constraints with their multiplier -/
def Keep (st : St) (lm lm' : Array Rat) : Prop :=
  ∀ j : Nat, lm'[j]! = lm[j]! ∨ ((st.cons[j]!).active = true ∧ lm'[j]! = lamOf st j)

theorem Keep.refl (st : St) (lm : Array Rat) : Keep st lm lm := fun _ => Or.inl rfl

theorem Keep.trans {st : St} {a b c : Array Rat} (h1 : Keep st a b) (h2 : Keep st b c) : Keep st a c := by
  intro j
  rcases h2 j with e2 | e2
  · rcases h1 j with e1 | e1
    · exact Or.inl (e2.trans e1)
    · exact Or.inr ⟨e1.1, e2.trans e1.2⟩
  · exact Or.inr e2

theorem Keep.stay {st : St} {a b : Array Rat} (h : Keep st a b) {j : Nat} (hj : a[j]! = lamOf st j) :
    b[j]! = lamOf st j := by
  rcases h j with e | e
  · exact e.trans hj
  · exact e.2

/-- the subtree hanging below child constraint `ci` (whose far end is `y`) is finished -/
def ChildDone (st : St) (ci y : Nat) (lm : Array Rat) : Prop :=
  lm[ci]! = lamOf st ci ∧
  ∀ j a b : Nat, AE st.cons j a b → j ≠ ci → ReachAvoid st.cons ci y a → ReachAvoid st.cons ci y b →
    lm[j]! = lamOf st j

theorem ChildDone.stay {st : St} {ci y : Nat} {a b : Array Rat} (h : ChildDone st ci y a)
    (hk : Keep st a b) : ChildDone st ci y b :=
  ⟨hk.stay h.1, fun j a' b' hae hne h1 h2 => hk.stay (h.2 j a' b' hae hne h1 h2)⟩

/-- what a call of the recursion achieves -/
structure DSpec (st : St) (e v : Nat) (lm lm' : Array Rat) (D : Rat) : Prop where
  val : D = sideSum st.cons st.vars.size (qOf st) e v
  size : lm'.size = st.cons.size
  keep : Keep st lm lm'
  done : ∀ j a b : Nat, AE st.cons j a b → j ≠ e →
    ReachAvoid st.cons e v a → ReachAvoid st.cons e v b → lm'[j]! = lamOf st j

theorem fold_ok (f : Acc → Nat → Acc)
    (okmono : ∀ (acc : Acc) (ci : Nat), (f acc ci).2.2.2 = true → acc.2.2.2 = true) :
    ∀ (L : List Nat) (acc : Acc), (L.foldl f acc).2.2.2 = true → acc.2.2.2 = true := by
  intro L
  induction L with
  | nil => intro acc h; exact h
  | cons c L ih => intro acc h; exact okmono acc c (ih _ h)

/-- one loop over a list of constraints, given what a single step does -/
theorem fold_steps (f : Acc → Nat → Acc) (sv : Rat) (term : Nat → Rat) (follow : Nat → Prop)
    (far : Nat → Nat) (valid : Nat → Prop)
    (okmono : ∀ (acc : Acc) (ci : Nat), (f acc ci).2.2.2 = true → acc.2.2.2 = true)
    (hstep : ∀ (acc : Acc) (ci : Nat), valid ci → acc.1.size = st.cons.size → (f acc ci).2.2.2 = true →
      (f acc ci).1.size = st.cons.size ∧
      (f acc ci).2.2.1 = acc.2.2.1 + sv * term ci ∧ Keep st acc.1 (f acc ci).1 ∧
      (follow ci → ChildDone st ci (far ci) (f acc ci).1)) :
    ∀ (L : List Nat) (acc : Acc), (∀ ci ∈ L, valid ci) → acc.1.size = st.cons.size →
      (L.foldl f acc).2.2.2 = true →
      (L.foldl f acc).1.size = st.cons.size ∧
      (L.foldl f acc).2.2.1 = acc.2.2.1 + sv * listSum term L ∧ Keep st acc.1 (L.foldl f acc).1 ∧
      (∀ ci ∈ L, follow ci → ChildDone st ci (far ci) (L.foldl f acc).1) := by
  intro L
  induction L with
  | nil =>
    intro acc _ hsz _
    exact ⟨hsz, by simp [listSum], Keep.refl st _, by simp⟩
  | cons ci L ih =>
    intro acc hv hsz hok
    simp only [List.foldl_cons] at hok ⊢
    have hci := hv ci List.mem_cons_self
    have hok1 : (f acc ci).2.2.2 = true := fold_ok f okmono L _ hok
    obtain ⟨hsz1, hd1, hk1, hc1⟩ := hstep acc ci hci hsz hok1
    obtain ⟨hsz2, hd2, hk2, hc2⟩ :=
      ih (f acc ci) (fun c hc => hv c (List.mem_cons_of_mem _ hc)) hsz1 hok
    refine ⟨hsz2, ?_, hk1.trans hk2, ?_⟩
    · rw [hd2, hd1]; simp only [listSum]; ring
    · intro c hc hf
      rcases List.mem_cons.1 hc with rfl | hc
      · exact (hc1 hf).stay hk2
      · exact hc2 c hc hf

end Rec

section Main
variable {st : St} (hinv : Inv st) (hstat : BlockStationary st)
  (hs : ∀ i : Nat, i < st.vars.size → (st.vars[i]!).scale ≠ 0)
include hinv

/-- for an active constraint leaving `v`: the recursion follows it iff it is not the parent constraint -/
theorem follow_right_iff (bid : Nat) {e : Nat} {u : Option Nat} {v j : Nat} (hp : Par st.cons e u v)
    (hb : blk st.vars v = bid) (hj : j < st.cons.size) (ha : (st.cons[j]!).active = true)
    (hl : (st.cons[j]!).l = v) :
    canFollowRight st bid (st.cons[j]!) u = true ↔ j ≠ e := by
  have hf := forest_of_inv hinv
  have hae : AE st.cons j v (st.cons[j]!).r := ⟨hj, ha, Or.inl ⟨hl, rfl⟩⟩
  have hbr : blk st.vars (st.cons[j]!).r = bid := by rw [← (hinv.tight j hj ha).1, hl]; exact hb
  simp only [canFollowRight, Bool.and_eq_true, beq_iff_eq, bne_iff_ne, ne_eq]
  rcases hp with ⟨hu, hbig⟩ | ⟨u', hu, hpe⟩
  · subst hu
    exact ⟨fun _ => by omega, fun _ => ⟨⟨hbr, ha⟩, by simp⟩⟩
  · subst hu
    constructor
    · rintro ⟨_, hne⟩ hje
      subst hje
      rcases ae_ends hpe hae with ⟨_, e2⟩ | ⟨_, e2⟩
      · rw [e2] at hae
        exact hf _ _ _ hae ReflTransGen.refl
      · exact hne (by rw [e2])
    · intro hje
      refine ⟨⟨hbr, ha⟩, ?_⟩
      intro heq
      have : (st.cons[j]!).r = u' := by simpa using heq.symm
      rw [this] at hae
      exact hje (parallel_eq hinv hae hpe)

theorem follow_left_iff (bid : Nat) {e : Nat} {u : Option Nat} {v j : Nat} (hp : Par st.cons e u v)
    (hb : blk st.vars v = bid) (hj : j < st.cons.size) (ha : (st.cons[j]!).active = true)
    (hr : (st.cons[j]!).r = v) :
    canFollowLeft st bid (st.cons[j]!) u = true ↔ j ≠ e := by
  have hf := forest_of_inv hinv
  have hae : AE st.cons j v (st.cons[j]!).l := ⟨hj, ha, Or.inr ⟨rfl, hr⟩⟩
  have hbl : blk st.vars (st.cons[j]!).l = bid := by rw [(hinv.tight j hj ha).1, hr]; exact hb
  simp only [canFollowLeft, Bool.and_eq_true, beq_iff_eq, bne_iff_ne, ne_eq]
  rcases hp with ⟨hu, hbig⟩ | ⟨u', hu, hpe⟩
  · subst hu
    exact ⟨fun _ => by omega, fun _ => ⟨⟨hbl, ha⟩, by simp⟩⟩
  · subst hu
    constructor
    · rintro ⟨_, hne⟩ hje
      subst hje
      rcases ae_ends hpe hae with ⟨_, e2⟩ | ⟨_, e2⟩
      · rw [e2] at hae
        exact hf _ _ _ hae ReflTransGen.refl
      · exact hne (by rw [e2])
    · intro hje
      refine ⟨⟨hbl, ha⟩, ?_⟩
      intro heq
      have : (st.cons[j]!).l = u' := by simpa using heq.symm
      rw [this] at hae
      exact hje (parallel_eq hinv hae hpe)

include hstat hs

/-- **`compute_dfdv` computes the tree multipliers** -/
theorem dfdv_spec (bid : Nat) : ∀ (fuel : Nat) (lm : Array Rat) (post : Array Nat) (v : Nat)
    (u : Option Nat) (e : Nat), Par st.cons e u v → v < st.vars.size → blk st.vars v = bid →
    lm.size = st.cons.size → (computeDfdv st bid fuel lm post v u).2.2.2 = true →
    DSpec st e v lm (computeDfdv st bid fuel lm post v u).1 (computeDfdv st bid fuel lm post v u).2.2.1 := by
  intro fuel
  induction fuel with
  | zero => intro lm post v u e _ _ _ _ h; simp [computeDfdv] at h
  | succ fuel ih =>
    intro lm post v u e hp hv hb hsz hok
    have hf := forest_of_inv hinv
    rw [computeDfdv_succ] at hok ⊢
    simp only at hok ⊢
    have hsv := hs v hv
    -- one step over an `out` constraint
    have okOut : ∀ (acc : Acc) (ci : Nat), (dOut st bid fuel v u acc ci).2.2.2 = true → acc.2.2.2 = true := by
      intro acc ci h
      unfold dOut at h
      split at h
      · simp only [Bool.and_eq_true] at h; exact h.1
      · exact h
    have okIn : ∀ (acc : Acc) (ci : Nat), (dIn st bid fuel v u acc ci).2.2.2 = true → acc.2.2.2 = true := by
      intro acc ci h
      unfold dIn at h
      split at h
      · simp only [Bool.and_eq_true] at h; exact h.1
      · exact h
    have stepOut : ∀ (acc : Acc) (ci : Nat), (ci < st.cons.size ∧ (st.cons[ci]!).l = v) →
        acc.1.size = st.cons.size → (dOut st bid fuel v u acc ci).2.2.2 = true →
        (dOut st bid fuel v u acc ci).1.size = st.cons.size ∧
        (dOut st bid fuel v u acc ci).2.2.1 = acc.2.2.1 + (st.vars[v]!).scale *
          (if canFollowRight st bid (st.cons[ci]!) u = true
            then beyondSum st.cons st.vars.size (qOf st) v ci else 0) ∧
        Keep st acc.1 (dOut st bid fuel v u acc ci).1 ∧
        (canFollowRight st bid (st.cons[ci]!) u = true →
          ChildDone st ci (st.cons[ci]!).r (dOut st bid fuel v u acc ci).1) := by
      intro acc ci ⟨hci, hl⟩ hasz hokc
      unfold dOut at hokc ⊢
      by_cases hcf : canFollowRight st bid (st.cons[ci]!) u = true
      · rw [if_pos hcf] at hokc ⊢
        simp only [Bool.and_eq_true] at hokc
        have hact : (st.cons[ci]!).active = true := by
          simp only [canFollowRight, Bool.and_eq_true] at hcf; exact hcf.1.2
        have hbr : blk st.vars (st.cons[ci]!).r = bid := by
          simp only [canFollowRight, Bool.and_eq_true, beq_iff_eq] at hcf; exact hcf.1.1
        have hae : AE st.cons ci v (st.cons[ci]!).r := ⟨hci, hact, Or.inl ⟨hl, rfl⟩⟩
        have sp := ih acc.1 acc.2.1 (st.cons[ci]!).r (some v) ci (Or.inr ⟨v, rfl, hae⟩)
          (hinv.r_lt ci hci) hbr hasz hokc.2
        have hlam : lamOf st ci = (computeDfdv st bid fuel acc.1 acc.2.1 (st.cons[ci]!).r (some v)).2.2.1 := by
          unfold lamOf mult; rw [if_pos hact, sp.val]
        have hcisz : ci < (computeDfdv st bid fuel acc.1 acc.2.1 (st.cons[ci]!).r (some v)).1.size := by
          rw [sp.size]; exact hci
        have hget : ∀ j : Nat, ((computeDfdv st bid fuel acc.1 acc.2.1 (st.cons[ci]!).r (some v)).1.set! ci
            (computeDfdv st bid fuel acc.1 acc.2.1 (st.cons[ci]!).r (some v)).2.2.1)[j]! =
            if ci = j then (computeDfdv st bid fuel acc.1 acc.2.1 (st.cons[ci]!).r (some v)).2.2.1
            else (computeDfdv st bid fuel acc.1 acc.2.1 (st.cons[ci]!).r (some v)).1[j]! := by
          intro j
          rw [AdaptaVerif.Lemmas.VpscHistory.get!_set!]
          by_cases hcj : ci = j
          · subst hcj; simp [hcisz]
          · simp [hcj]
        refine ⟨by simp only [Array.set!_eq_setIfInBounds, Array.size_setIfInBounds]; exact sp.size, ?_, ?_, ?_⟩
        · rw [if_pos hcf]
          have : beyondSum st.cons st.vars.size (qOf st) v ci =
              sideSum st.cons st.vars.size (qOf st) ci (st.cons[ci]!).r := by
            unfold beyondSum sideSum
            apply sumTo_congr
            intro x _
            rw [if_congr (beyond_iff_of_ae hinv hae x) rfl rfl]
          rw [this, ← sp.val, hl]; ring
        · intro j
          rw [hget j]
          by_cases hcj : ci = j
          · subst hcj
            rw [if_pos rfl]
            exact Or.inr ⟨hact, hlam.symm⟩
          · rw [if_neg hcj]
            exact sp.keep j
        · intro _
          refine ⟨by rw [hget ci, if_pos rfl]; exact hlam.symm, ?_⟩
          intro j a b haej hjc h1 h2
          rw [hget j, if_neg (fun e => hjc e.symm)]
          exact sp.done j a b haej hjc h1 h2
      · rw [if_neg hcf] at hokc ⊢
        exact ⟨hasz, by rw [if_neg hcf]; ring, Keep.refl st _, fun hh => absurd hh hcf⟩
    have stepIn : ∀ (acc : Acc) (ci : Nat), (ci < st.cons.size ∧ (st.cons[ci]!).r = v) →
        acc.1.size = st.cons.size → (dIn st bid fuel v u acc ci).2.2.2 = true →
        (dIn st bid fuel v u acc ci).1.size = st.cons.size ∧
        (dIn st bid fuel v u acc ci).2.2.1 = acc.2.2.1 + (st.vars[v]!).scale *
          (if canFollowLeft st bid (st.cons[ci]!) u = true
            then beyondSum st.cons st.vars.size (qOf st) v ci else 0) ∧
        Keep st acc.1 (dIn st bid fuel v u acc ci).1 ∧
        (canFollowLeft st bid (st.cons[ci]!) u = true →
          ChildDone st ci (st.cons[ci]!).l (dIn st bid fuel v u acc ci).1) := by
      intro acc ci ⟨hci, hr⟩ hasz hokc
      unfold dIn at hokc ⊢
      by_cases hcf : canFollowLeft st bid (st.cons[ci]!) u = true
      · rw [if_pos hcf] at hokc ⊢
        simp only [Bool.and_eq_true] at hokc
        have hact : (st.cons[ci]!).active = true := by
          simp only [canFollowLeft, Bool.and_eq_true] at hcf; exact hcf.1.2
        have hbl : blk st.vars (st.cons[ci]!).l = bid := by
          simp only [canFollowLeft, Bool.and_eq_true, beq_iff_eq] at hcf; exact hcf.1.1
        have hae : AE st.cons ci v (st.cons[ci]!).l := ⟨hci, hact, Or.inr ⟨rfl, hr⟩⟩
        have sp := ih acc.1 acc.2.1 (st.cons[ci]!).l (some v) ci (Or.inr ⟨v, rfl, hae⟩)
          (hinv.l_lt ci hci) hbl hasz hokc.2
        have hadd := sideSum_add hinv (qOf st) ci hci hact
        rw [hstat] at hadd
        have hlam : lamOf st ci = -(computeDfdv st bid fuel acc.1 acc.2.1 (st.cons[ci]!).l (some v)).2.2.1 := by
          unfold lamOf mult; rw [if_pos hact, sp.val]; linarith
        have hcisz : ci < (computeDfdv st bid fuel acc.1 acc.2.1 (st.cons[ci]!).l (some v)).1.size := by
          rw [sp.size]; exact hci
        have hget : ∀ j : Nat, ((computeDfdv st bid fuel acc.1 acc.2.1 (st.cons[ci]!).l (some v)).1.set! ci
            (-(computeDfdv st bid fuel acc.1 acc.2.1 (st.cons[ci]!).l (some v)).2.2.1))[j]! =
            if ci = j then -(computeDfdv st bid fuel acc.1 acc.2.1 (st.cons[ci]!).l (some v)).2.2.1
            else (computeDfdv st bid fuel acc.1 acc.2.1 (st.cons[ci]!).l (some v)).1[j]! := by
          intro j
          rw [AdaptaVerif.Lemmas.VpscHistory.get!_set!]
          by_cases hcj : ci = j
          · subst hcj; simp [hcisz]
          · simp [hcj]
        refine ⟨by simp only [Array.set!_eq_setIfInBounds, Array.size_setIfInBounds]; exact sp.size, ?_, ?_, ?_⟩
        · rw [if_pos hcf]
          have : beyondSum st.cons st.vars.size (qOf st) v ci =
              sideSum st.cons st.vars.size (qOf st) ci (st.cons[ci]!).l := by
            unfold beyondSum sideSum
            apply sumTo_congr
            intro x _
            rw [if_congr (beyond_iff_of_ae hinv hae x) rfl rfl]
          rw [this, ← sp.val, hr]; ring
        · intro j
          rw [hget j]
          by_cases hcj : ci = j
          · subst hcj
            rw [if_pos rfl]
            exact Or.inr ⟨hact, hlam.symm⟩
          · rw [if_neg hcj]
            exact sp.keep j
        · intro _
          refine ⟨by rw [hget ci, if_pos rfl]; exact hlam.symm, ?_⟩
          intro j a b haej hjc h1 h2
          rw [hget j, if_neg (fun e => hjc e.symm)]
          exact sp.done j a b haej hjc h1 h2
      · rw [if_neg hcf] at hokc ⊢
        exact ⟨hasz, by rw [if_neg hcf]; ring, Keep.refl st _, fun hh => absurd hh hcf⟩
    -- the two loops
    have hokOut := fold_ok _ okIn (st.vars[v]!).ins.toList _ hok
    obtain ⟨o1, o2, o3, o4⟩ := fold_steps (dOut st bid fuel v u) (st.vars[v]!).scale _ _
      (fun ci => (st.cons[ci]!).r) (fun ci => ci < st.cons.size ∧ (st.cons[ci]!).l = v) okOut stepOut
      (st.vars[v]!).outs.toList (lm, post, st.dfdv v, true)
      (fun ci hci => hinv.outs_sound v ci (by simpa using hci)) hsz hokOut
    obtain ⟨i1, i2, i3, i4⟩ := fold_steps (dIn st bid fuel v u) (st.vars[v]!).scale _ _
      (fun ci => (st.cons[ci]!).l) (fun ci => ci < st.cons.size ∧ (st.cons[ci]!).r = v) okIn stepIn
      (st.vars[v]!).ins.toList _
      (fun ci hci => hinv.ins_sound v ci (by simpa using hci)) o1 hok
    generalize hA1 : (st.vars[v]!).outs.toList.foldl (dOut st bid fuel v u) (lm, post, st.dfdv v, true) = A1
      at o1 o2 o3 o4 i1 i2 i3 i4 hok hokOut ⊢
    generalize hA2 : (st.vars[v]!).ins.toList.foldl (dIn st bid fuel v u) A1 = A2 at i1 i2 i3 i4 hok ⊢
    refine ⟨?_, i1, o3.trans i3, ?_⟩
    · -- the value
      rw [i2, o2]
      simp only
      rw [side_decomp hinv (qOf st) hp hv, ← children_sum hinv bid hp hv hb (qOf st)]
      simp only [qOf]
      field_simp
      ring
    · -- every constraint inside the subtree has been assigned
      intro j a b haej hje ha hb'
      -- a constraint incident to v
      have incident : ∀ y, AE st.cons j v y → A2.1[j]! = lamOf st j := by
        intro y hvy
        obtain ⟨hj, hact, hends⟩ := hvy
        rcases hends with ⟨hl, _⟩ | ⟨_, hr⟩
        · have hfol := (follow_right_iff hinv bid hp hb hj hact hl).2 hje
          have hmem : j ∈ (st.vars[v]!).outs.toList := by
            have := hinv.outs_complete j hj; rw [hl] at this; simpa using this
          exact i3.stay (o4 j hmem hfol).1
        · have hfol := (follow_left_iff hinv bid hp hb hj hact hr).2 hje
          have hmem : j ∈ (st.vars[v]!).ins.toList := by
            have := hinv.ins_complete j hj; rw [hr] at this; simpa using this
          exact (i4 j hmem hfol).1
      by_cases hav : a = v
      · subst hav; exact incident b haej
      · by_cases hbv : b = v
        · subst hbv; exact incident a haej.symm
        · -- both ends lie beyond the same child constraint
          have ha_lt : a < st.vars.size := by
            obtain ⟨hj, _, hends⟩ := haej
            rcases hends with ⟨rfl, _⟩ | ⟨_, rfl⟩
            · exact hinv.l_lt j hj
            · exact hinv.r_lt j hj
          obtain ⟨j0, hj0, ⟨y0, hae0, hy0⟩, _⟩ :=
            beyond_unique hinv v a hv ha_lt ((hinv.reach_blk ha).symm) hav
          have hj0e : j0 ≠ e := by
            rintro rfl
            exact hf _ _ _ hae0 (ha.trans hy0.symm)
          have hjj0 : j ≠ j0 := by
            rintro rfl
            rcases ae_ends haej hae0 with ⟨e1, _⟩ | ⟨e1, _⟩
            · exact hav e1.symm
            · exact hbv e1.symm
          have hy0b : ReachAvoid st.cons j0 y0 b := hy0.tail ⟨j, hjj0, haej⟩
          obtain ⟨_, hact0, hends0⟩ := hae0
          rcases hends0 with ⟨hl, hr⟩ | ⟨hl, hr⟩
          · have hfol := (follow_right_iff hinv bid hp hb hj0 hact0 hl).2 hj0e
            have hmem : j0 ∈ (st.vars[v]!).outs.toList := by
              have := hinv.outs_complete j0 hj0; rw [hl] at this; simpa using this
            have cd := (o4 j0 hmem hfol).stay i3
            rw [hr] at cd
            exact cd.2 j a b haej hjj0 hy0 hy0b
          · have hfol := (follow_left_iff hinv bid hp hb hj0 hact0 hr).2 hj0e
            have hmem : j0 ∈ (st.vars[v]!).ins.toList := by
              have := hinv.ins_complete j0 hj0; rw [hr] at this; simpa using this
            have cd := i4 j0 hmem hfol
            rw [hl] at cd
            exact cd.2 j a b haej hjj0 hy0 hy0b

end Main

section Root
variable {st : St} (hinv : Inv st) (hstat : BlockStationary st)
  (hs : ∀ i : Nat, i < st.vars.size → (st.vars[i]!).scale ≠ 0)
include hinv hstat hs

/-- the recursion started at any variable `v0` of block `bid` (as `findMinLM` / `findMinLMBetween` do,
    with `v0 = vars->front()`): every active constraint of the block receives its tree multiplier, and
    the value returned for the root is the block's stationarity residual (0) -/
theorem dfdv_root (bid fuel : Nat) (lm : Array Rat) (post : Array Nat) (v0 : Nat)
    (hv0 : v0 < st.vars.size) (hb : blk st.vars v0 = bid) (hsz : lm.size = st.cons.size)
    (hok : (computeDfdv st bid fuel lm post v0 none).2.2.2 = true) :
    (computeDfdv st bid fuel lm post v0 none).2.2.1 = 0 ∧
    (∀ j : Nat, j < st.cons.size → (st.cons[j]!).active = true → blk st.vars (st.cons[j]!).l = bid →
      (computeDfdv st bid fuel lm post v0 none).1[j]! = lamOf st j) ∧
    (∀ j : Nat, (computeDfdv st bid fuel lm post v0 none).1[j]! = lm[j]! ∨
      ((st.cons[j]!).active = true ∧ (computeDfdv st bid fuel lm post v0 none).1[j]! = lamOf st j)) := by
  have sp := dfdv_spec hinv hstat hs bid fuel lm post v0 none st.cons.size
    (Or.inl ⟨rfl, le_refl _⟩) hv0 hb hsz hok
  -- avoiding the dummy index is no restriction
  have toDummy : ∀ {a b}, Reach st.cons a b → ReachAvoid st.cons st.cons.size a b :=
    fun hab => rtg_mono (fun _ _ ⟨k, _, hk⟩ => ⟨k, Nat.ne_of_lt hk.1, hk⟩) hab
  refine ⟨?_, ?_, sp.keep⟩
  · rw [sp.val]
    have : sideSum st.cons st.vars.size (qOf st) st.cons.size v0 = blockSum st.vars (qOf st) bid := by
      unfold sideSum blockSum
      apply sumTo_congr
      intro x hx
      by_cases hbx : blk st.vars x = bid
      · rw [if_pos hbx, if_pos (toDummy (hinv.conn v0 x hv0 hx (hb.trans hbx.symm)))]
      · rw [if_neg hbx, if_neg]
        intro hr
        exact hbx ((hinv.reach_blk hr).symm.trans hb)
    rw [this, hstat]
  · intro j hj ha hbl
    have hae : AE st.cons j (st.cons[j]!).l (st.cons[j]!).r := ⟨hj, ha, Or.inl ⟨rfl, rfl⟩⟩
    have hbr : blk st.vars (st.cons[j]!).r = bid := by rw [← (hinv.tight j hj ha).1]; exact hbl
    exact sp.done j _ _ hae (Nat.ne_of_lt hj)
      (toDummy (hinv.conn _ _ hv0 (hinv.l_lt j hj) (hb.trans hbl.symm)))
      (toDummy (hinv.conn _ _ hv0 (hinv.r_lt j hj) (hb.trans hbr.symm)))

end Root

end AdaptaVerif.Lemmas.VpscKktDfdv
