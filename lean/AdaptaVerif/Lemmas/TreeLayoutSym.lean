/-
Lemmas about the model of `Tree::symmetricLayout`, part 3: algebra of `flip` / `translate`
(involution, additivity, commutation) and enclosure of the rank bounds under both.
-/
import AdaptaVerif.Lemmas.TreeLayoutInv
namespace AdaptaVerif.Lemmas.TreeLayout
open AdaptaVerif.Model.TreeLayout

theorem flipPt_flipPt (d : Dir) (p : Pt) : flipPt d (flipPt d p) = p := by
  unfold flipPt; cases d.isVertical <;> simp

theorem PNode.flip_flip (d : Dir) (n : PNode) : (n.flip d).flip d = n := by
  cases n; simp [PNode.flip, flipPt_flipPt]

theorem Level.flip_flip (d : Dir) (l : Level) : (l.flip d).flip d = l := by
  cases l with
  | mk lo hi nodes =>
    simp only [Level.flip, neg_neg, List.map_map, Level.mk.injEq, true_and]
    have : (PNode.flip d ∘ PNode.flip d) = id := by funext n; exact PNode.flip_flip d n
    rw [this, List.map_id]

theorem Lay.flip_flip (d : Dir) (t : Lay) : (t.flip d).flip d = t := by
  cases t with
  | mk levels lb ub =>
    simp only [Lay.flip, neg_neg, List.map_map, Lay.mk.injEq, and_true]
    have : (Level.flip d ∘ Level.flip d) = id := by funext l; exact Level.flip_flip d l
    rw [this, List.map_id]

def Pt.add (u v : Pt) : Pt := ⟨u.x + v.x, u.y + v.y⟩

theorem disp_add (d : Dir) (u v : Pt) : disp d (Pt.add u v) = disp d u + disp d v := by
  unfold disp Pt.add; cases d.isVertical <;> simp

theorem PNode.translate_translate (u v : Pt) (n : PNode) :
    (n.translate u).translate v = n.translate (Pt.add u v) := by
  cases n; simp [PNode.translate, Pt.add, add_assoc]

theorem Level.translate_translate (d : Dir) (u v : Pt) (l : Level) :
    (l.translate d u).translate d v = l.translate d (Pt.add u v) := by
  cases l with
  | mk lo hi nodes =>
    simp only [Level.translate, disp_add, add_assoc, List.map_map, Level.mk.injEq, true_and]
    congr 1; funext n; exact PNode.translate_translate u v n

theorem Lay.translate_translate (d : Dir) (u v : Pt) (t : Lay) :
    (t.translate d u).translate d v = t.translate d (Pt.add u v) := by
  cases t with
  | mk levels lb ub =>
    simp only [Lay.translate, disp_add, add_assoc, List.map_map, Lay.mk.injEq, and_true]
    congr 1; funext l; exact Level.translate_translate d u v l

theorem disp_flipPt (d : Dir) (v : Pt) : disp d (flipPt d v) = - disp d v := by
  unfold disp flipPt; cases d.isVertical <;> simp

theorem PNode.flip_translate (d : Dir) (v : Pt) (n : PNode) :
    (n.translate v).flip d = (n.flip d).translate (flipPt d v) := by
  cases n; unfold PNode.translate PNode.flip flipPt; cases d.isVertical <;> simp <;> ring

theorem Level.flip_translate (d : Dir) (v : Pt) (l : Level) :
    (l.translate d v).flip d = (l.flip d).translate d (flipPt d v) := by
  cases l with
  | mk lo hi nodes =>
    simp only [Level.translate, Level.flip, disp_flipPt, List.map_map, Level.mk.injEq]
    refine ⟨by ring, by ring, ?_⟩
    congr 1; funext n; exact PNode.flip_translate d v n

/-- mirroring a translated tree = translating the mirrored tree by the mirrored vector -/
theorem Lay.flip_translate (d : Dir) (v : Pt) (t : Lay) :
    (t.translate d v).flip d = (t.flip d).translate d (flipPt d v) := by
  cases t with
  | mk levels lb ub =>
    simp only [Lay.translate, Lay.flip, disp_flipPt, List.map_map, Lay.mk.injEq]
    refine ⟨?_, by ring, by ring⟩
    congr 1; funext l; exact Level.flip_translate d v l

/-- every node's transverse interval lies within its rank's bounds -/
def Encloses (d : Dir) (t : Lay) : Prop :=
  ∀ l ∈ t.levels, ∀ n ∈ l.nodes, l.lo ≤ lft d n ∧ rgt d n ≤ l.hi

theorem Encloses.flip {d t} (h : Encloses d t) : Encloses d (t.flip d) := by
  intro l hl n hn
  obtain ⟨l0, hl0, rfl⟩ := List.mem_map.1 hl
  obtain ⟨m, hm, rfl⟩ := List.mem_map.1 hn
  have := h l0 hl0 m hm
  rw [lft_flip, rgt_flip]; show -l0.hi ≤ _ ∧ _ ≤ -l0.lo
  constructor <;> linarith [this.1, this.2]

theorem Encloses.translate {d t} (v : Pt) (h : Encloses d t) : Encloses d (t.translate d v) := by
  intro l hl n hn
  obtain ⟨l0, hl0, rfl⟩ := List.mem_map.1 hl
  obtain ⟨m, hm, rfl⟩ := List.mem_map.1 hn
  have := h l0 hl0 m hm
  rw [lft_translate, rgt_translate]; show l0.lo + disp d v ≤ _ ∧ _ ≤ l0.hi + disp d v
  constructor <;> linarith [this.1, this.2]

theorem LayOK.encloses {d gap s P t} (h : LayOK d gap s P t) : Encloses d t :=
  fun l hl n hn => (h.lv l hl).enc n hn

end AdaptaVerif.Lemmas.TreeLayout
