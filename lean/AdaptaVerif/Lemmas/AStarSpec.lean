/-
Specification vocabulary for the A* model (`Model/AStar.lean`, part 1): paths of the problem's state
graph.  A state is (vertex, previous vertex); the edges out of state (v, pv) are the `some` entries of
`P.succs pv v`.
-/
import AdaptaVerif.Model.AStar
namespace AdaptaVerif.Lemmas.AStarSpec
open AdaptaVerif.Model.AStar

/-- `Reach P v pv c path`: `path` (vertices, the last one first) is a path of the state graph of `P`
    from the start node (P.src, none) to the node at vertex `v` whose previous vertex is `pv`, and `c`
    is the sum of the step costs `Succ.c` along it (the g-value `search` accumulates). -/
inductive Reach (P : Problem) : Nat → Option Nat → Rat → List Nat → Prop
  | start : Reach P P.src none 0 [P.src]
  | step {v : Nat} {pv : Option Nat} {c : Rat} {path : List Nat} (s : Succ) :
      Reach P v pv c path → some s ∈ P.succs pv v → Reach P s.w (some v) (c + s.c) (s.w :: path)

end AdaptaVerif.Lemmas.AStarSpec
