/-
Specification vocabulary for the A* model (`Model/AStar.lean`, part 1): paths of the problem's state
graph.  A state is (vertex, previous vertex); the edges out of state (v, pv) are the `some` entries of
`P.succs pv v`.
-/
import AdaptaVerif.Model.AStar
namespace AdaptaVerif.Lemmas.AStarSpec
open AdaptaVerif.Model.AStar

/-- `Reach P v pv c path`: `path` (vertices, the last one first) is a path of the state graph of `P`
    from the start node (P.src, none) to the node at vertex `v` whose previous vertex is `pv`, and `c`
    is the sum of the step costs `Succ.c` along it (the g-value `search` accumulates). -/
inductive Reach (P : Problem) : Nat → Option Nat → Rat → List Nat → Prop
  | start : Reach P P.src none 0 [P.src]
  | step {v : Nat} {pv : Option Nat} {c : Rat} {path : List Nat} (s : Succ) :
      Reach P v pv c path → some s ∈ P.succs pv v → Reach P s.w (some v) (c + s.c) (s.w :: path)

end AdaptaVerif.Lemmas.AStarSpec

namespace AdaptaVerif.Lemmas.AStarSpec
open AdaptaVerif.Model.AStar

/-- executable companion of `Reach`: continue from state (v, pv) (cost `c`, path so far `path`, last
    vertex first) along the vertices `rest`, taking at every step the first successor entry that leads to
    the next vertex; result: final (previous vertex, vertex, cost, path), or `none` if some step is not an
    edge of the state graph -/
def walk (P : Problem) : Option Nat → Nat → Rat → List Nat → List Nat → Option (Option Nat × Nat × Rat × List Nat)
  | pv, v, c, path, [] => some (pv, v, c, path)
  | pv, v, c, path, w :: rest =>
    match (P.succs pv v).find? (fun o => match o with | some s => s.w = w | none => false) with
    | some (some s) => walk P (some v) s.w (c + s.c) (s.w :: path) rest
    | _ => none

/-- what `walk` accepts is a path of the state graph -/
theorem walk_sound (P : Problem) (rest : List Nat) :
    ∀ (pv : Option Nat) (v : Nat) (c : Rat) (path : List Nat) (pv' : Option Nat) (v' : Nat) (r : Rat) (path' : List Nat),
      Reach P v pv c path → walk P pv v c path rest = some (pv', v', r, path') → Reach P v' pv' r path' := by
  induction rest with
  | nil =>
    intro pv v c path pv' v' r path' hr hw
    simp only [walk, Option.some.injEq, Prod.mk.injEq] at hw
    obtain ⟨rfl, rfl, rfl, rfl⟩ := hw
    exact hr
  | cons w rest ih =>
    intro pv v c path pv' v' r path' hr hw
    simp only [walk] at hw
    split at hw
    · rename_i s hfind
      exact ih _ _ _ _ _ _ _ _ (Reach.step s hr (List.mem_of_find?_eq_some hfind)) hw
    · simp at hw

/-- from the start node -/
theorem walk_start_sound (P : Problem) (rest : List Nat) (pv' : Option Nat) (v' : Nat) (r : Rat) (path' : List Nat)
    (h : walk P none P.src 0 [P.src] rest = some (pv', v', r, path')) : Reach P v' pv' r path' :=
  walk_sound P rest none P.src 0 [P.src] pv' v' r path' Reach.start h

end AdaptaVerif.Lemmas.AStarSpec
