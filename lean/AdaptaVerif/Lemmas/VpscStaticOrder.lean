/-
`Blocks::totalOrder` / `Blocks::dfsVisit` (blocks.cpp) of the static VPSC solver's model
(`Model/VpscStatic.lean`): on an acyclic constraint graph the depth-first search returns a TOPOLOGICAL
order — no variable twice, every variable listed, every constraint's left variable strictly before its
right variable (`totalOrder_topological`) — and it never runs out of the model's fuel
(`totalOrder_ok`, cyclic graphs included).
Proof: the classical grey/black argument.  `DS`: the visited set is the recursion stack `G` (grey) plus
the finished list `ord` (black), and every edge out of a black vertex leads to a black vertex later in the
list; a grey successor would close a cycle.  Completeness (every variable is listed) is well-founded
induction along the finite acyclic graph from the roots `in.size()==0`.
-/
import AdaptaVerif.Model.VpscStatic
import AdaptaVerif.Lemmas.VpscInv
import Mathlib.Logic.Relation
import Mathlib.Data.Fintype.Card
import Mathlib.Data.Fintype.Basic
import Mathlib.Data.Fintype.EquivFin
namespace AdaptaVerif.Lemmas.VpscStaticOrder
open AdaptaVerif.Model.Vpsc AdaptaVerif.Model.VpscStatic
open AdaptaVerif.Lemmas.VpscInv
open Relation

/-- an edge of the constraint graph -/
def E (st : St) (a b : Nat) : Prop :=
  ∃ ci, ci < st.cons.size ∧ (st.cons[ci]!).l = a ∧ (st.cons[ci]!).r = b

def Acyclic (st : St) : Prop := ∀ x, ¬ TransGen (E st) x x

/-- `a` occurs in `l` strictly before an occurrence of `b` -/
def Before (l : List Nat) (a b : Nat) : Prop := ∃ A B, l = A ++ a :: B ∧ b ∈ B

theorem Before.cons {l : List Nat} {a b : Nat} (x : Nat) (h : Before l a b) : Before (x :: l) a b := by
  obtain ⟨A, B, rfl, hb⟩ := h
  exact ⟨x :: A, B, rfl, hb⟩

theorem Before.append_left {l : List Nat} {a b : Nat} (p : List Nat) (h : Before l a b) : Before (p ++ l) a b := by
  obtain ⟨A, B, rfl, hb⟩ := h
  exact ⟨p ++ A, B, by simp, hb⟩

theorem Before.head {l : List Nat} {a b : Nat} (hb : b ∈ l) : Before (a :: l) a b := ⟨[], l, rfl, hb⟩

theorem Before.mem_right {l : List Nat} {a b : Nat} (h : Before l a b) : b ∈ l := by
  obtain ⟨A, B, rfl, hb⟩ := h
  simp [hb]

/-- the state of the search: `vis` = grey vertices (on the recursion stack, `G`) ∪ finished vertices
    (`ord`, each with all its successors later in the list) -/
structure DS (st : St) (G : Nat → Prop) (vis : Array Bool) (ord : List Nat) : Prop where
  size : vis.size = st.vars.size
  vis_iff : ∀ x, vis[x]! = true ↔ (G x ∨ x ∈ ord)
  disj : ∀ x, G x → x ∉ ord
  nodup : ord.Nodup
  closed : ∀ a ∈ ord, ∀ b, E st a b → Before ord a b

open AdaptaVerif.Lemmas.VpscHistory (get!_set!)

theorem vis_set (vis : Array Bool) (v x : Nat) (hv : v < vis.size) :
    (vis.set! v true)[x]! = true ↔ (x = v ∨ vis[x]! = true) := by
  rw [get!_set!]
  split
  · rename_i h; simp [h.1]
  · rename_i h
    constructor
    · exact Or.inr
    · rintro (rfl | h')
      · exact absurd ⟨rfl, hv⟩ h
      · exact h'

/-- the body of the `for` loop of `dfsVisit` -/
def dfsStep (st : St) (fuel : Nat) (acc : Array Bool × List Nat × Bool) (ci : Nat) : Array Bool × List Nat × Bool :=
  if !(acc.1[(st.cons[ci]!).r]!) then
    ((dfsVisit st fuel acc.1 acc.2.1 (st.cons[ci]!).r).1, (dfsVisit st fuel acc.1 acc.2.1 (st.cons[ci]!).r).2.1,
      acc.2.2 && (dfsVisit st fuel acc.1 acc.2.1 (st.cons[ci]!).r).2.2)
  else acc

theorem dfsVisit_succ (st : St) (fuel : Nat) (vis : Array Bool) (ord : List Nat) (v : Nat) :
    dfsVisit st (fuel + 1) vis ord v =
      (((st.vars[v]!).outs.foldl (dfsStep st fuel) (vis.set! v true, ord, true)).1,
        v :: ((st.vars[v]!).outs.foldl (dfsStep st fuel) (vis.set! v true, ord, true)).2.1,
        ((st.vars[v]!).outs.foldl (dfsStep st fuel) (vis.set! v true, ord, true)).2.2) := by
  rw [dfsVisit]
  have : (fun (x : Array Bool × List Nat × Bool) (ci : Nat) =>
      match x with
      | (vis, ord, ok) =>
        if (!vis[(st.cons[ci]!).r]!) = true then
          match dfsVisit st fuel vis ord (st.cons[ci]!).r with
          | (vis, ord, ok') => (vis, ord, ok && ok')
        else (vis, ord, ok)) = dfsStep st fuel := by
    funext x ci
    obtain ⟨a, b, c⟩ := x
    simp only [dfsStep]
  simp only [this]

def IsTarget (st : St) (x : Nat) : Prop := ∃ ci, ci < st.cons.size ∧ (st.cons[ci]!).r = x

/-- what one call of `dfsVisit` (that did not run out of fuel) achieves -/
def DfsPost (st : St) (G : Nat → Prop) (vis : Array Bool) (ord : List Nat) (v : Nat)
    (r : Array Bool × List Nat × Bool) : Prop :=
  DS st G r.1 r.2.1 ∧ ∃ new, r.2.1 = new ++ ord ∧ v ∈ new ∧ ∀ x ∈ new, vis[x]! = false ∧ (x = v ∨ IsTarget st x)

theorem dfs_spec (st : St) {n' : Nat} {ia : Array Nat} (hI : InvC st.vars st.cons n' ia) (hac : Acyclic st) :
    ∀ (fuel : Nat) (vis : Array Bool) (ord : List Nat) (v : Nat) (G : Nat → Prop),
      DS st G vis ord → v < st.vars.size → vis[v]! = false → (∀ g, G g → TransGen (E st) g v) →
      (dfsVisit st fuel vis ord v).2.2 = true →
      DfsPost st G vis ord v (dfsVisit st fuel vis ord v) := by
  intro fuel
  induction fuel with
  | zero => intro vis ord v G _ _ _ _ hok; simp [dfsVisit] at hok
  | succ fuel ih =>
    intro vis ord v G hD hv hnv hG hok
    rw [dfsVisit_succ] at hok ⊢
    simp only at hok
    -- the state after marking `v`
    let G1 : Nat → Prop := fun x => G x ∨ x = v
    have hvsz : v < vis.size := by rw [hD.size]; exact hv
    have hvord : v ∉ ord := fun hm => by
      have := (hD.vis_iff v).2 (Or.inr hm); rw [hnv] at this; exact absurd this (by simp)
    have hvG : ¬ G v := fun hg => by
      have := (hD.vis_iff v).2 (Or.inl hg); rw [hnv] at this; exact absurd this (by simp)
    have hD1 : DS st G1 (vis.set! v true) ord :=
      { size := by rw [← hD.size]; simp
        vis_iff := fun x => by
          rw [vis_set vis v x hvsz, hD.vis_iff x]
          simp only [G1]; tauto
        disj := fun x hx => by
          rcases hx with hx | rfl
          · exact hD.disj x hx
          · exact hvord
        nodup := hD.nodup
        closed := hD.closed }
    -- the loop
    have key : ∀ (l : List Nat) (acc : Array Bool × List Nat × Bool),
        (∀ ci ∈ l, ci ∈ (st.vars[v]!).outs) →
        (l.foldl (dfsStep st fuel) acc).2.2 = true →
        DS st G1 acc.1 acc.2.1 → (∃ new, acc.2.1 = new ++ ord ∧ ∀ x ∈ new, (vis.set! v true)[x]! = false ∧ IsTarget st x) →
        acc.2.2 = true ∧
        DS st G1 (l.foldl (dfsStep st fuel) acc).1 (l.foldl (dfsStep st fuel) acc).2.1 ∧
        (∃ new, (l.foldl (dfsStep st fuel) acc).2.1 = new ++ ord ∧ ∀ x ∈ new, (vis.set! v true)[x]! = false ∧ IsTarget st x) ∧
        (∀ x : Nat, acc.1[x]! = true → (l.foldl (dfsStep st fuel) acc).1[x]! = true) ∧
        ∀ ci ∈ l, (l.foldl (dfsStep st fuel) acc).1[(st.cons[ci]!).r]! = true := by
      intro l
      induction l with
      | nil =>
        intro acc _ hok' hDa hnew
        exact ⟨hok', hDa, hnew, fun _ h => h, fun _ h => by cases h⟩
      | cons ci rest ihl =>
        intro acc hmem hok' hDa hnew
        rw [List.foldl_cons] at hok' ⊢
        have hci := hmem ci (by simp)
        obtain ⟨hcilt, hcil⟩ := hI.outs_sound v ci hci
        have hrlt := hI.r_lt ci hcilt
        have hEv : E st v (st.cons[ci]!).r := ⟨ci, hcilt, hcil, rfl⟩
        by_cases hvr : acc.1[(st.cons[ci]!).r]! = true
        · -- already visited
          have hstep : dfsStep st fuel acc ci = acc := by simp [dfsStep, hvr]
          rw [hstep] at hok' ⊢
          obtain ⟨h1, h2, h3, h4, h5⟩ := ihl acc (fun c hc => hmem c (by simp [hc])) hok' hDa hnew
          refine ⟨h1, h2, h3, h4, ?_⟩
          intro c hc
          rcases List.mem_cons.1 hc with rfl | hc
          · exact h4 _ hvr
          · exact h5 c hc
        · -- recursive call
          have hvr' : acc.1[(st.cons[ci]!).r]! = false := by simpa using hvr
          have hstep : dfsStep st fuel acc ci =
              ((dfsVisit st fuel acc.1 acc.2.1 (st.cons[ci]!).r).1, (dfsVisit st fuel acc.1 acc.2.1 (st.cons[ci]!).r).2.1,
                acc.2.2 && (dfsVisit st fuel acc.1 acc.2.1 (st.cons[ci]!).r).2.2) := by
            simp [dfsStep, hvr']
          rw [hstep] at hok' ⊢
          obtain ⟨newa, hnewa, hnewa2⟩ := hnew
          -- ok of the accumulated state first (needs the invariant for the recursive result only through `ihl`)
          have hG1 : ∀ g, G1 g → TransGen (E st) g (st.cons[ci]!).r := by
            intro g hg
            rcases hg with hg | rfl
            · exact TransGen.tail (hG g hg) hEv
            · exact TransGen.single hEv
          -- we need `ok` of the recursive call: it is part of the accumulated flag, which `ihl` returns
          by_cases hsub : (dfsVisit st fuel acc.1 acc.2.1 (st.cons[ci]!).r).2.2 = true
          · obtain ⟨hDr, newr, hnewr, hrin, hnewr2⟩ := ih acc.1 acc.2.1 (st.cons[ci]!).r G1 hDa hrlt hvr' hG1 hsub
            have hnew' : ∃ new, (dfsVisit st fuel acc.1 acc.2.1 (st.cons[ci]!).r).2.1 = new ++ ord ∧
                ∀ x ∈ new, (vis.set! v true)[x]! = false ∧ IsTarget st x := by
              refine ⟨newr ++ newa, by rw [hnewr, hnewa]; simp, ?_⟩
              intro x hx
              rcases List.mem_append.1 hx with hx | hx
              · -- not visited in acc.1, hence not in the smaller vis1
                refine ⟨?_, ?_⟩
                swap
                · rcases (hnewr2 x hx).2 with rfl | ht
                  · exact ⟨ci, hcilt, rfl⟩
                  · exact ht
                by_contra hc
                have hc' : (vis.set! v true)[x]! = true := by simpa using hc
                have := (hD1.vis_iff x).1 hc'
                have h2 : acc.1[x]! = true := (hDa.vis_iff x).2 (by
                  rcases this with h | h
                  · exact Or.inl h
                  · exact Or.inr (by rw [hnewa]; simp [h]))
                rw [(hnewr2 x hx).1] at h2
                exact absurd h2 (by simp)
              · exact hnewa2 x hx
            obtain ⟨h1, h2, h3, h4, h5⟩ := ihl _ (fun c hc => hmem c (by simp [hc])) hok' hDr hnew'
            have hacc_ok : acc.2.2 = true := by
              simp only [Bool.and_eq_true] at h1; exact h1.1
            have hmono : ∀ x : Nat, acc.1[x]! = true → (dfsVisit st fuel acc.1 acc.2.1 (st.cons[ci]!).r).1[x]! = true := by
              intro x hx
              rcases (hDa.vis_iff x).1 hx with h | h
              · exact (hDr.vis_iff x).2 (Or.inl h)
              · exact (hDr.vis_iff x).2 (Or.inr (by rw [hnewr]; simp [h]))
            refine ⟨hacc_ok, h2, h3, fun x hx => h4 x (hmono x hx), ?_⟩
            intro c hc
            rcases List.mem_cons.1 hc with rfl | hc
            · exact h4 _ ((hDr.vis_iff _).2 (Or.inr (by rw [hnewr]; simp [hrin])))
            · exact h5 c hc
          · -- the recursive call ran out of fuel: then the accumulated flag is false for ever
            exfalso
            have hfalse : ∀ (l : List Nat) (a : Array Bool × List Nat × Bool), a.2.2 = false →
                (l.foldl (dfsStep st fuel) a).2.2 = false := by
              intro l
              induction l with
              | nil => intro a h; exact h
              | cons c r ihr =>
                intro a h
                rw [List.foldl_cons]
                apply ihr
                unfold dfsStep
                split <;> simp [h]
            have := hfalse rest _ (show (((dfsVisit st fuel acc.1 acc.2.1 (st.cons[ci]!).r).1,
                (dfsVisit st fuel acc.1 acc.2.1 (st.cons[ci]!).r).2.1,
                acc.2.2 && (dfsVisit st fuel acc.1 acc.2.1 (st.cons[ci]!).r).2.2) :
                Array Bool × List Nat × Bool).2.2 = false by simp [hsub])
            rw [this] at hok'
            exact absurd hok' (by simp)
    rw [← Array.foldl_toList] at hok ⊢
    obtain ⟨_, hDF, ⟨newF, hnewF, hnewF2⟩, _, htargets⟩ :=
      key (st.vars[v]!).outs.toList (vis.set! v true, ord, true) (fun ci hc => by simpa using hc) hok hD1
        ⟨[], by simp, fun _ h => by cases h⟩
    generalize ((st.vars[v]!).outs.toList.foldl (dfsStep st fuel) (vis.set! v true, ord, true)) = F at *
    have hvF : v ∉ F.2.1 := hDF.disj v (Or.inr rfl)
    refine ⟨?_, v :: newF, by simp [hnewF], by simp, ?_⟩
    · exact
        { size := hDF.size
          vis_iff := fun x => by
            rw [hDF.vis_iff x]
            simp only [G1, List.mem_cons]; tauto
          disj := fun x hx => by
            intro hm
            rcases List.mem_cons.1 hm with rfl | hm
            · exact hvG hx
            · exact hDF.disj x (Or.inl hx) hm
          nodup := List.nodup_cons.2 ⟨hvF, hDF.nodup⟩
          closed := fun a ha b hab => by
            rcases List.mem_cons.1 ha with rfl | ha
            · obtain ⟨ci, hcilt, hcil, hcir⟩ := hab
              have hmem : ci ∈ (st.vars[a]!).outs := by
                have := hI.outs_complete ci hcilt; rwa [hcil] at this
              have hvis := htargets ci (by simpa using hmem)
              rw [hcir] at hvis
              rcases (hDF.vis_iff b).1 hvis with hg | hb
              · exfalso
                rcases hg with hg | rfl
                · exact hac b (TransGen.tail (hG b hg) ⟨ci, hcilt, hcil, hcir⟩)
                · exact hac b (TransGen.single ⟨ci, hcilt, hcil, hcir⟩)
              · exact Before.head hb
            · exact (hDF.closed a ha b hab).cons v }
    · intro x hx
      rcases List.mem_cons.1 hx with rfl | hx
      · exact ⟨hnv, Or.inl rfl⟩
      · have := (hnewF2 x hx).1
        refine ⟨?_, Or.inr (hnewF2 x hx).2⟩
        by_contra hc
        have hc' : vis[x]! = true := by simpa using hc
        have h2 : (vis.set! v true)[x]! = true := (vis_set vis v x hvsz).2 (Or.inr hc')
        rw [this] at h2
        exact absurd h2 (by simp)

/-! ### `Blocks::totalOrder` -/

/-- the body of the second `for` loop of `totalOrder` -/
def topStep (st : St) (acc : Array Bool × List Nat × Bool) (i : Nat) : Array Bool × List Nat × Bool :=
  if (st.vars[i]!).ins.size == 0 then
    ((dfsVisit st (st.vars.size + 1) acc.1 acc.2.1 i).1, (dfsVisit st (st.vars.size + 1) acc.1 acc.2.1 i).2.1,
      acc.2.2 && (dfsVisit st (st.vars.size + 1) acc.1 acc.2.1 i).2.2)
  else acc

theorem totalOrder_eq (st : St) :
    totalOrder st =
      (((List.range st.vars.size).foldl (topStep st) (Array.replicate st.vars.size false, [], true)).2.1,
       ((List.range st.vars.size).foldl (topStep st) (Array.replicate st.vars.size false, [], true)).2.2) := by
  unfold totalOrder
  have : (fun (x : Array Bool × List Nat × Bool) (i : Nat) =>
      match x with
      | (vis, ord, ok) =>
        if ((st.vars[i]!).ins.size == 0) = true then
          match dfsVisit st (st.vars.size + 1) vis ord i with
          | (vis, ord, ok') => (vis, ord, ok && ok')
        else (vis, ord, ok)) = topStep st := by
    funext x i
    obtain ⟨a, b, c⟩ := x
    simp only [topStep]
  simp only [this]

def NoG : Nat → Prop := fun _ => False

theorem top_key (st : St) {n' : Nat} {ia : Array Nat} (hI : InvC st.vars st.cons n' ia) (hac : Acyclic st) :
    ∀ (l : List Nat) (acc : Array Bool × List Nat × Bool), l.Nodup → (∀ i ∈ l, i < st.vars.size) →
      (l.foldl (topStep st) acc).2.2 = true → DS st NoG acc.1 acc.2.1 →
      (∀ x ∈ acc.2.1, IsTarget st x ∨ x ∉ l) →
      DS st NoG (l.foldl (topStep st) acc).1 (l.foldl (topStep st) acc).2.1 ∧
      (∀ x ∈ acc.2.1, x ∈ (l.foldl (topStep st) acc).2.1) ∧
      (∀ i ∈ l, (st.vars[i]!).ins.size = 0 → i ∈ (l.foldl (topStep st) acc).2.1) := by
  intro l
  induction l with
  | nil => intro acc _ _ _ hD _; exact ⟨hD, fun _ h => h, fun _ h => by cases h⟩
  | cons i rest ih =>
    intro acc hnd hlt hok hD hT
    rw [List.foldl_cons] at hok ⊢
    have hnd' := (List.nodup_cons.1 hnd)
    by_cases hsrc : (st.vars[i]!).ins.size = 0
    · have hstep : topStep st acc i =
          ((dfsVisit st (st.vars.size + 1) acc.1 acc.2.1 i).1, (dfsVisit st (st.vars.size + 1) acc.1 acc.2.1 i).2.1,
            acc.2.2 && (dfsVisit st (st.vars.size + 1) acc.1 acc.2.1 i).2.2) := by
        simp [topStep, hsrc]
      rw [hstep] at hok ⊢
      -- `i` has not been visited: it is no target and no earlier root
      have hnv : acc.1[i]! = false := by
        by_contra hc
        have hc' : acc.1[i]! = true := by simpa using hc
        rcases (hD.vis_iff i).1 hc' with h | h
        · exact h
        · rcases hT i h with ⟨ci, hci, hr⟩ | h2
          · have := hI.ins_complete ci hci
            rw [hr] at this
            have hpos : 0 < (st.vars[i]!).ins.size := Array.size_pos_of_mem this
            omega
          · exact h2 (by simp)
      by_cases hsub : (dfsVisit st (st.vars.size + 1) acc.1 acc.2.1 i).2.2 = true
      · obtain ⟨hDr, newr, hnewr, hin, hnewr2⟩ :=
          dfs_spec st hI hac _ acc.1 acc.2.1 i NoG hD (hlt i (by simp)) hnv (fun g hg => absurd hg id) hsub
        have hT' : ∀ x ∈ (dfsVisit st (st.vars.size + 1) acc.1 acc.2.1 i).2.1, IsTarget st x ∨ x ∉ rest := by
          intro x hx
          rw [hnewr] at hx
          rcases List.mem_append.1 hx with hx | hx
          · rcases (hnewr2 x hx).2 with rfl | ht
            · exact Or.inr hnd'.1
            · exact Or.inl ht
          · rcases hT x hx with h | h
            · exact Or.inl h
            · exact Or.inr (fun hm => h (by simp [hm]))
        obtain ⟨h1, h2, h3⟩ := ih _ hnd'.2 (fun j hj => hlt j (by simp [hj])) hok hDr hT'
        refine ⟨h1, fun x hx => h2 x (by rw [hnewr]; simp [hx]), ?_⟩
        intro j hj hjs
        rcases List.mem_cons.1 hj with rfl | hj
        · exact h2 _ (by rw [hnewr]; simp [hin])
        · exact h3 j hj hjs
      · exfalso
        have hfalse : ∀ (l : List Nat) (a : Array Bool × List Nat × Bool), a.2.2 = false →
            (l.foldl (topStep st) a).2.2 = false := by
          intro l
          induction l with
          | nil => intro a h; exact h
          | cons c r ihr =>
            intro a h
            rw [List.foldl_cons]
            apply ihr
            unfold topStep
            split <;> simp [h]
        have := hfalse rest _ (show (((dfsVisit st (st.vars.size + 1) acc.1 acc.2.1 i).1,
            (dfsVisit st (st.vars.size + 1) acc.1 acc.2.1 i).2.1,
            acc.2.2 && (dfsVisit st (st.vars.size + 1) acc.1 acc.2.1 i).2.2) :
            Array Bool × List Nat × Bool).2.2 = false by simp [hsub])
        rw [this] at hok
        exact absurd hok (by simp)
    · have hstep : topStep st acc i = acc := by simp [topStep, hsrc]
      rw [hstep] at hok ⊢
      obtain ⟨h1, h2, h3⟩ := ih acc hnd'.2 (fun j hj => hlt j (by simp [hj])) hok hD
        (fun x hx => by
          rcases hT x hx with h | h
          · exact Or.inl h
          · exact Or.inr (fun hm => h (by simp [hm])))
      refine ⟨h1, h2, ?_⟩
      intro j hj hjs
      rcases List.mem_cons.1 hj with rfl | hj
      · exact absurd hjs hsrc
      · exact h3 j hj hjs

/-- **`totalOrder` is a topological order** of an acyclic constraint graph: no variable twice, every
    variable listed, and every constraint's left variable strictly before its right variable. -/
theorem totalOrder_topological (st : St) {n' : Nat} {ia : Array Nat} (hI : InvC st.vars st.cons n' ia)
    (hac : Acyclic st) (hok : (totalOrder st).2 = true) :
    (totalOrder st).1.Nodup ∧ (∀ v, v < st.vars.size → v ∈ (totalOrder st).1) ∧
    ∀ ci, ci < st.cons.size → Before (totalOrder st).1 (st.cons[ci]!).l (st.cons[ci]!).r := by
  rw [totalOrder_eq] at hok ⊢
  simp only at hok ⊢
  have hD0 : DS st NoG (Array.replicate st.vars.size false) [] :=
    { size := by simp
      vis_iff := fun x => by
        have : (Array.replicate st.vars.size false)[x]! = false := by
          by_cases hx : x < st.vars.size
          · rw [getElem!_pos _ x (by simpa using hx)]; simp
          · rw [getElem!_neg _ x (by simpa using hx)]; rfl
        rw [this]; simp [NoG]
      disj := fun _ h => absurd h id
      nodup := List.nodup_nil
      closed := fun _ h => by cases h }
  obtain ⟨hDF, _, hroots⟩ := top_key st hI hac (List.range st.vars.size) _ List.nodup_range
    (fun i hi => List.mem_range.1 hi) hok hD0 (fun _ h => by cases h)
  generalize ((List.range st.vars.size).foldl (topStep st) (Array.replicate st.vars.size false, [], true)) = F at *
  -- every variable is listed: well-founded induction along the (finite, acyclic) constraint graph
  have hall : ∀ v, v < st.vars.size → v ∈ F.2.1 := by
    let r : Fin st.vars.size → Fin st.vars.size → Prop := fun a b => TransGen (E st) a.1 b.1
    have : Finite (Fin st.vars.size) := inferInstance
    have : IsTrans (Fin st.vars.size) r := ⟨fun a b c h1 h2 => TransGen.trans h1 h2⟩
    have : Std.Irrefl r := ⟨fun a h => hac a.1 h⟩
    have hwf : WellFounded r := Finite.wellFounded_of_trans_of_irrefl r
    intro v hv
    have : ∀ a : Fin st.vars.size, a.1 ∈ F.2.1 := by
      intro a
      induction a using hwf.induction with
      | _ a iha =>
        by_cases hsrc : (st.vars[a.1]!).ins.size = 0
        · exact hroots a.1 (List.mem_range.2 a.2) hsrc
        · -- some constraint enters `a`
          have hpos : 0 < (st.vars[a.1]!).ins.size := Nat.pos_of_ne_zero hsrc
          have hmem : (st.vars[a.1]!).ins[0] ∈ (st.vars[a.1]!).ins := Array.getElem_mem hpos
          obtain ⟨hci, hr⟩ := hI.ins_sound a.1 _ hmem
          have hl := hI.l_lt _ hci
          have hE : E st (st.cons[(st.vars[a.1]!).ins[0]]!).l a.1 := ⟨_, hci, rfl, hr⟩
          have := iha ⟨_, hl⟩ (TransGen.single hE)
          exact (hDF.closed _ this a.1 hE).mem_right
    exact this ⟨v, hv⟩
  refine ⟨hDF.nodup, hall, ?_⟩
  intro ci hci
  exact hDF.closed _ (hall _ (hI.l_lt ci hci)) _ ⟨ci, hci, rfl, rfl⟩

/-! ### fuel: `totalOrder` never runs out of it -/

/-- number of unvisited variables -/
def unv (n : Nat) (vis : Array Bool) : Nat := ((List.range n).filter fun x => !vis[x]!).length

theorem filter_len_mono (p q : Nat → Bool) (hpq : ∀ x, p x = true → q x = true) :
    ∀ l : List Nat, (l.filter p).length ≤ (l.filter q).length
  | [] => by simp
  | a :: l => by
    have ih := filter_len_mono p q hpq l
    by_cases hp : p a = true
    · simp [hp, hpq a hp, ih]
    · by_cases hq : q a = true <;> simp [hp, hq] <;> omega

theorem filter_len_lt (p q : Nat → Bool) (hpq : ∀ x, p x = true → q x = true) (v : Nat)
    (hv : q v = true) (hnv : p v = false) :
    ∀ l : List Nat, v ∈ l → (l.filter p).length < (l.filter q).length
  | [], h => by cases h
  | a :: l, h => by
    have hm := filter_len_mono p q hpq l
    by_cases hav : a = v
    · subst hav
      simp [hv, hnv]; omega
    · have ih := filter_len_lt p q hpq v hv hnv l (by
        rcases List.mem_cons.1 h with h | h
        · exact absurd h.symm hav
        · exact h)
      by_cases hp : p a = true
      · simp [hp, hpq a hp]; omega
      · by_cases hq : q a = true <;> simp [hp, hq] <;> omega

theorem unv_mono (n : Nat) (a b : Array Bool) (h : ∀ x : Nat, a[x]! = true → b[x]! = true) : unv n b ≤ unv n a := by
  apply filter_len_mono
  intro x hx
  by_contra hc
  have : a[x]! = true := by simpa using hc
  have := h x this
  simp [this] at hx

theorem unv_set (n : Nat) (vis : Array Bool) (v : Nat) (hv : v < n) (hsz : vis.size = n) (hnv : vis[v]! = false) :
    unv n (vis.set! v true) < unv n vis := by
  have hself : (vis.set! v true)[v]! = true := (vis_set vis v v (by omega)).2 (Or.inl rfl)
  apply filter_len_lt (fun x => !(vis.set! v true)[x]!) (fun x => !vis[x]!) _ v
  · show (!vis[v]!) = true
    rw [hnv]; rfl
  · show (!(vis.set! v true)[v]!) = false
    rw [hself]; rfl
  · exact List.mem_range.2 hv
  · intro x hx
    by_contra hc
    have h1 : vis[x]! = true := by simpa using hc
    have h2 := (vis_set vis v x (by omega)).2 (Or.inr h1)
    have hx' : (!(vis.set! v true)[x]!) = true := hx
    rw [h2] at hx'
    exact absurd hx' (by simp)

theorem unv_le (n : Nat) (vis : Array Bool) : unv n vis ≤ n := by
  unfold unv
  calc _ ≤ (List.range n).length := List.length_filter_le _ _
    _ = n := List.length_range

theorem dfs_fuel (st : St) {n' : Nat} {ia : Array Nat} (hI : InvC st.vars st.cons n' ia) :
    ∀ (fuel : Nat) (vis : Array Bool) (ord : List Nat) (v : Nat),
      vis.size = st.vars.size → v < st.vars.size →
      unv st.vars.size vis + (if vis[v]! = true then 1 else 0) ≤ fuel →
      (dfsVisit st fuel vis ord v).2.2 = true ∧ (dfsVisit st fuel vis ord v).1.size = st.vars.size ∧
      ∀ x : Nat, vis[x]! = true → (dfsVisit st fuel vis ord v).1[x]! = true := by
  intro fuel
  induction fuel with
  | zero =>
    intro vis ord v hsz hv hu
    exfalso
    by_cases hnv : vis[v]! = true
    · simp [hnv] at hu
    · have hnv' : vis[v]! = false := by simpa using hnv
      have h0 : unv st.vars.size (vis.set! v true) < unv st.vars.size vis := unv_set _ vis v hv hsz hnv'
      omega
  | succ fuel ih =>
    intro vis ord v hsz hv hu
    rw [dfsVisit_succ]
    simp only
    have hmono1 : ∀ x : Nat, vis[x]! = true → (vis.set! v true)[x]! = true :=
      fun x hx => (vis_set vis v x (by omega)).2 (Or.inr hx)
    have h0 : unv st.vars.size (vis.set! v true) ≤ fuel := by
      by_cases hnv : vis[v]! = true
      · have := unv_mono st.vars.size _ _ hmono1
        simp [hnv] at hu; omega
      · have hnv' : vis[v]! = false := by simpa using hnv
        have := unv_set _ vis v hv hsz hnv'; omega
    have key : ∀ (l : List Nat) (acc : Array Bool × List Nat × Bool),
        (∀ ci ∈ l, ci ∈ (st.vars[v]!).outs) → acc.2.2 = true → acc.1.size = st.vars.size →
        (∀ x : Nat, (vis.set! v true)[x]! = true → acc.1[x]! = true) →
        (l.foldl (dfsStep st fuel) acc).2.2 = true ∧ (l.foldl (dfsStep st fuel) acc).1.size = st.vars.size ∧
        ∀ x : Nat, (vis.set! v true)[x]! = true → (l.foldl (dfsStep st fuel) acc).1[x]! = true := by
      intro l
      induction l with
      | nil => intro acc _ h1 h2 h3; exact ⟨h1, h2, h3⟩
      | cons ci rest ihl =>
        intro acc hmem h1 h2 h3
        rw [List.foldl_cons]
        have hci := hmem ci (by simp)
        obtain ⟨hcilt, _⟩ := hI.outs_sound v ci hci
        have hrlt := hI.r_lt ci hcilt
        by_cases hvr : acc.1[(st.cons[ci]!).r]! = true
        · have hstep : dfsStep st fuel acc ci = acc := by simp [dfsStep, hvr]
          rw [hstep]
          exact ihl acc (fun c hc => hmem c (by simp [hc])) h1 h2 h3
        · have hvr' : acc.1[(st.cons[ci]!).r]! = false := by simpa using hvr
          have hstep : dfsStep st fuel acc ci =
              ((dfsVisit st fuel acc.1 acc.2.1 (st.cons[ci]!).r).1, (dfsVisit st fuel acc.1 acc.2.1 (st.cons[ci]!).r).2.1,
                acc.2.2 && (dfsVisit st fuel acc.1 acc.2.1 (st.cons[ci]!).r).2.2) := by
            simp [dfsStep, hvr']
          rw [hstep]
          have hu' : unv st.vars.size acc.1 + (if acc.1[(st.cons[ci]!).r]! = true then 1 else 0) ≤ fuel := by
            have := le_trans (unv_mono _ _ _ h3) h0
            simp [hvr']; exact this
          obtain ⟨r1, r2, r3⟩ := ih acc.1 acc.2.1 (st.cons[ci]!).r h2 hrlt hu'
          exact ihl _ (fun c hc => hmem c (by simp [hc])) (by simp [h1, r1]) r2 (fun x hx => r3 x (h3 x hx))
    rw [← Array.foldl_toList]
    obtain ⟨k1, k2, k3⟩ := key (st.vars[v]!).outs.toList (vis.set! v true, ord, true)
      (fun ci hc => by simpa using hc) rfl (by simp [hsz]) (fun _ h => h)
    exact ⟨k1, k2, fun x hx => k3 x (hmono1 x hx)⟩

/-- `totalOrder` does not run out of fuel (well-formed in/out lists; cyclic graphs included) -/
theorem totalOrder_ok (st : St) {n' : Nat} {ia : Array Nat} (hI : InvC st.vars st.cons n' ia) :
    (totalOrder st).2 = true := by
  rw [totalOrder_eq]
  simp only
  have key : ∀ (l : List Nat) (acc : Array Bool × List Nat × Bool), (∀ i ∈ l, i < st.vars.size) →
      acc.2.2 = true → acc.1.size = st.vars.size → (l.foldl (topStep st) acc).2.2 = true := by
    intro l
    induction l with
    | nil => intro acc _ h _; exact h
    | cons i rest ih =>
      intro acc hlt h1 h2
      rw [List.foldl_cons]
      by_cases hsrc : (st.vars[i]!).ins.size = 0
      · have hstep : topStep st acc i =
            ((dfsVisit st (st.vars.size + 1) acc.1 acc.2.1 i).1, (dfsVisit st (st.vars.size + 1) acc.1 acc.2.1 i).2.1,
              acc.2.2 && (dfsVisit st (st.vars.size + 1) acc.1 acc.2.1 i).2.2) := by
          simp [topStep, hsrc]
        rw [hstep]
        have hu : unv st.vars.size acc.1 + (if acc.1[i]! = true then 1 else 0) ≤ st.vars.size + 1 := by
          have := unv_le st.vars.size acc.1
          split <;> omega
        obtain ⟨r1, r2, _⟩ := dfs_fuel st hI (st.vars.size + 1) acc.1 acc.2.1 i h2 (hlt i (by simp)) hu
        exact ih _ (fun j hj => hlt j (by simp [hj])) (by simp [h1, r1]) r2
      · have hstep : topStep st acc i = acc := by simp [topStep, hsrc]
        rw [hstep]
        exact ih acc (fun j hj => hlt j (by simp [hj])) h1 h2
  exact key _ _ (fun i hi => List.mem_range.1 hi) rfl (by simp)

/-! ### every entry of the order is a variable -/

theorem dfs_bound (st : St) {n' : Nat} {ia : Array Nat} (hI : InvC st.vars st.cons n' ia) :
    ∀ (fuel : Nat) (vis : Array Bool) (ord : List Nat) (v : Nat),
      v < st.vars.size → (∀ x ∈ ord, x < st.vars.size) →
      ∀ x ∈ (dfsVisit st fuel vis ord v).2.1, x < st.vars.size := by
  intro fuel
  induction fuel with
  | zero => intro vis ord v _ ho; simpa [dfsVisit] using ho
  | succ fuel ih =>
    intro vis ord v hv ho
    rw [dfsVisit_succ]
    simp only
    have key : ∀ (l : List Nat) (acc : Array Bool × List Nat × Bool),
        (∀ ci ∈ l, ci ∈ (st.vars[v]!).outs) → (∀ x ∈ acc.2.1, x < st.vars.size) →
        ∀ x ∈ (l.foldl (dfsStep st fuel) acc).2.1, x < st.vars.size := by
      intro l
      induction l with
      | nil => intro acc _ h; exact h
      | cons ci rest ihl =>
        intro acc hmem h
        rw [List.foldl_cons]
        apply ihl _ (fun c hc => hmem c (by simp [hc]))
        unfold dfsStep
        split
        · obtain ⟨hcilt, _⟩ := hI.outs_sound v ci (hmem ci (by simp))
          exact ih _ _ _ (hI.r_lt ci hcilt) h
        · exact h
    rw [← Array.foldl_toList]
    intro x hx
    rcases List.mem_cons.1 hx with rfl | hx
    · exact hv
    · exact key _ (vis.set! v true, ord, true) (fun ci hc => by simpa using hc) ho x hx

theorem totalOrder_bound (st : St) {n' : Nat} {ia : Array Nat} (hI : InvC st.vars st.cons n' ia) :
    ∀ x ∈ (totalOrder st).1, x < st.vars.size := by
  rw [totalOrder_eq]
  simp only
  have key : ∀ (l : List Nat) (acc : Array Bool × List Nat × Bool), (∀ i ∈ l, i < st.vars.size) →
      (∀ x ∈ acc.2.1, x < st.vars.size) → ∀ x ∈ (l.foldl (topStep st) acc).2.1, x < st.vars.size := by
    intro l
    induction l with
    | nil => intro acc _ h; exact h
    | cons i rest ih =>
      intro acc hlt h
      rw [List.foldl_cons]
      apply ih _ (fun j hj => hlt j (by simp [hj]))
      unfold topStep
      split
      · exact dfs_bound st hI _ _ _ _ (hlt i (by simp)) h
      · exact h
  exact key _ _ (fun i hi => List.mem_range.1 hi) (fun _ h => by cases h)

end AdaptaVerif.Lemmas.VpscStaticOrder
