/-
C17 — johnsons = Dijkstra from every source; the layout's D matrix = scaled johnsons matrix of the
length-corrected graph (`computePathLengths`).
-/
import AdaptaVerif.Lemmas.ApspDijkstra
namespace AdaptaVerif.Lemmas.Apsp
open AdaptaVerif.Model.ShortestPaths AdaptaVerif.Spec.Apsp

theorem johnsons_get (sel : Selector) (g : Graph) {i : Nat} (hi : i < g.n) (j : Nat) :
    (johnsons sel g).get i j = Vec.at (dijkstra sel g i) j := by
  unfold johnsons Mat.get Vec.at
  simp [hi]

theorem layoutD_get (sel : Selector) (n : Nat) (es : List (Nat × Nat)) (lens : Option (List Rat)) (ideal : Rat) (i j : Nat) :
    (layoutD sel n es lens ideal).get i j = scaleEntry ideal i j ((johnsons sel (layoutGraph n es lens)).get i j) := by
  unfold layoutD Mat.get
  rw [Array.getElem?_mapIdx]
  cases h : (johnsons sel (layoutGraph n es lens))[i]? with
  | none => simp [scaleEntry]
  | some r =>
    simp only [Option.map_some, Option.getD_some]
    rw [Array.getElem?_mapIdx]
    cases h2 : r[j]? with
    | none => simp [scaleEntry]
    | some x => simp

theorem fixLen_pos (l : Rat) : 0 < fixLen l := by
  unfold fixLen
  split
  · norm_num
  · linarith

theorem layoutGraph_valid (n : Nat) (es : List (Nat × Nat)) (lens : Option (List Rat))
    (h : ∀ e ∈ es, e.1 < n ∧ e.2 < n) : Valid (layoutGraph n es lens) := by
  intro e he
  cases lens with
  | none =>
    simp only [layoutGraph, List.mem_map] at he
    obtain ⟨e0, he0, rfl⟩ := he
    exact ⟨(h e0 he0).1, (h e0 he0).2, by norm_num⟩
  | some ls =>
    simp only [layoutGraph] at he
    rw [List.mem_iff_getElem?] at he
    obtain ⟨k, hk⟩ := he
    rw [List.getElem?_zipWith] at hk
    cases h1 : es[k]? with
    | none => rw [h1] at hk; simp at hk
    | some e0 =>
      cases h2 : ls[k]? with
      | none => rw [h1, h2] at hk; simp at hk
      | some l =>
        rw [h1, h2] at hk
        simp at hk
        have hm : e0 ∈ es := List.mem_of_getElem? h1
        rw [← hk]
        exact ⟨(h e0 hm).1, (h e0 hm).2, le_of_lt (fixLen_pos l)⟩

end AdaptaVerif.Lemmas.Apsp
