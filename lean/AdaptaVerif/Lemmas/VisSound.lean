/-
Soundness of the naive visibility test (Model/Visibility.lean) away from its known weakness.

Abstract part: an edge list `es` with the *boundary characterisation* `BoundaryChar` (what convexity
gives: a point on an edge line that is on the inner side of all edges lies on that closed edge, and every
edge starts where another one ends).  If the segment ab contains a point strictly inside (all edge
functions positive), a and b are not strictly inside, and no edge endpoint lies in the open segment, then
the per-shape loop of `EdgeInf::firstBlocker` returns true: either some edge is crossed properly, or two
different edges report an endpoint touch (the second one trips `seenIntersectionAtEndpoint`).

Concrete part: axis-parallel rectangles satisfy `BoundaryChar`.
-/
import AdaptaVerif.Lemmas.RouteGeom
import AdaptaVerif.Lemmas.GeometrySpec
import AdaptaVerif.Model.Visibility
import Mathlib.Tactic.Linarith
import Mathlib.Tactic.Ring
import Mathlib.Tactic.FieldSimp
namespace AdaptaVerif.Lemmas.VisSound
open AdaptaVerif.Model.Geometry (Pt area2 vecDir segmentIntersect pointOnLine segmentShapeIntersect)
open AdaptaVerif.Check.Route (lerp)
open AdaptaVerif.Lemmas.Route (area2_lerp lerp_zero lerp_one lerp_symm)
open AdaptaVerif.Lemmas.GeometrySpec (segmentIntersect_signs pointOnLine_iff vecDir_zero)
open AdaptaVerif.Model.Visibility

/-- edge function: twice the signed area of (e.1, e.2, p); positive on the inner side (CCW polygon) -/
def F (e : Pt × Pt) (p : Pt) : Rat := area2 e.1 e.2 p

def OnClosedEdge (e : Pt × Pt) (P : Pt) : Prop := ∃ s : Rat, 0 ≤ s ∧ s ≤ 1 ∧ P = lerp e.1 e.2 s

structure BoundaryChar (es : List (Pt × Pt)) : Prop where
  nondeg : ∀ e ∈ es, e.1 ≠ e.2
  closedEdge : ∀ e ∈ es, ∀ P : Pt, F e P = 0 → (∀ k ∈ es, 0 ≤ F k P) → OnClosedEdge e P
  chain : ∀ e ∈ es, ∃ e' ∈ es, e'.2 = e.1

def ProperCross (a b : Pt) (e : Pt × Pt) : Prop :=
  area2 a b e.1 * area2 a b e.2 < 0 ∧ F e a * F e b < 0

theorem F_lerp (e : Pt × Pt) (a b : Pt) (t : Rat) : F e (lerp a b t) = F e a + t * (F e b - F e a) :=
  area2_lerp e.1 e.2 a b t

theorem area2_self_lerp (a b : Pt) (t : Rat) : area2 a b (lerp a b t) = 0 := by
  unfold area2 lerp; ring

theorem area_diff (a b : Pt) (e : Pt × Pt) : area2 a b e.2 - area2 a b e.1 = F e a - F e b := by
  unfold F area2; ring

theorem exists_max {α : Type} (g : α → Rat) : ∀ (l : List α), l ≠ [] → ∃ x ∈ l, ∀ y ∈ l, g y ≤ g x := by
  intro l
  induction l with
  | nil => intro h; exact absurd rfl h
  | cons a l ih =>
    intro _
    by_cases hl : l = []
    · subst hl; exact ⟨a, by simp, by intro y hy; simp at hy; subst hy; exact le_refl _⟩
    · obtain ⟨x, hx, hmax⟩ := ih hl
      by_cases hax : g x ≤ g a
      · refine ⟨a, by simp, ?_⟩
        intro y hy
        rcases List.mem_cons.mp hy with rfl | hy
        · exact le_refl _
        · exact le_trans (hmax y hy) hax
      · refine ⟨x, List.mem_cons_of_mem _ hx, ?_⟩
        intro y hy
        rcases List.mem_cons.mp hy with rfl | hy
        · exact le_of_lt (not_le.mp hax)
        · exact hmax y hy

/-- Entry lemma: if the segment reaches the interior at parameter tm, a is not inside, no vertex lies in
    the open segment and no edge is crossed properly, then a itself lies on the boundary. -/
theorem entry (es : List (Pt × Pt)) (hB : BoundaryChar es) (a b : Pt) (tm : Rat) (h0 : 0 ≤ tm) (h1 : tm ≤ 1)
    (hm : ∀ e ∈ es, 0 < F e (lerp a b tm)) (ha : ∃ e ∈ es, F e a ≤ 0)
    (hnov : ∀ e ∈ es, ∀ t : Rat, 0 < t → t < 1 → lerp a b t ≠ e.1 ∧ lerp a b t ≠ e.2)
    (hnc : ∀ e ∈ es, ¬ ProperCross a b e) :
    0 < tm ∧ ∃ e ∈ es, F e a = 0 ∧ OnClosedEdge e a := by
  -- facts about "bad" edges (not positive at a)
  have hbad : ∀ e ∈ es, F e a ≤ 0 → 0 < tm ∧ 0 < F e b - F e a := by
    intro e he hc
    have := hm e he
    rw [F_lerp] at this
    have htm : 0 < tm := by
      rcases lt_or_eq_of_le h0 with h | h
      · exact h
      · rw [← h] at this; linarith
    refine ⟨htm, ?_⟩
    by_contra hd
    have : tm * (F e b - F e a) ≤ 0 := mul_nonpos_of_nonneg_of_nonpos h0 (not_lt.mp hd)
    linarith
  obtain ⟨e0, he0, hc0⟩ := ha
  have htm : 0 < tm := (hbad e0 he0 hc0).1
  refine ⟨htm, ?_⟩
  -- the last bad edge to be left: maximal root
  let r : Pt × Pt → Rat := fun e => -(F e a) / (F e b - F e a)
  let bad := es.filter fun e => decide (F e a ≤ 0)
  have hbne : bad ≠ [] := by
    intro h
    have : e0 ∈ bad := List.mem_filter.mpr ⟨he0, by simpa using hc0⟩
    rw [h] at this; exact absurd this (by simp)
  obtain ⟨es', hes', hmax⟩ := exists_max r bad hbne
  have hes : es' ∈ es := (List.mem_filter.mp hes').1
  have hcs : F es' a ≤ 0 := by simpa using (List.mem_filter.mp hes').2
  have hds : 0 < F es' b - F es' a := (hbad es' hes hcs).2
  have hroot : ∀ e ∈ es, F e a ≤ 0 → F e a + r e * (F e b - F e a) = 0 ∧ 0 ≤ r e ∧ r e < tm := by
    intro e he hc
    have hd := (hbad e he hc).2
    have hmm := hm e he
    rw [F_lerp] at hmm
    have e1 : r e * (F e b - F e a) = -(F e a) := by
      show -(F e a) / (F e b - F e a) * (F e b - F e a) = -(F e a)
      field_simp
    refine ⟨by linarith, ?_, ?_⟩
    · show 0 ≤ -(F e a) / (F e b - F e a)
      exact div_nonneg (by linarith) (le_of_lt hd)
    · by_contra hge
      have : tm * (F e b - F e a) ≤ r e * (F e b - F e a) :=
        mul_le_mul_of_nonneg_right (not_lt.mp hge) (le_of_lt hd)
      linarith
  obtain ⟨hr0, hrn, hrt⟩ := hroot es' hes hcs
  -- the entry point is on the boundary
  have hP : ∀ k ∈ es, 0 ≤ F k (lerp a b (r es')) := by
    intro k hk
    rw [F_lerp]
    by_cases hck : F k a ≤ 0
    · have hkb : k ∈ bad := List.mem_filter.mpr ⟨hk, by simpa using hck⟩
      have hle := hmax k hkb
      obtain ⟨hk0, _, _⟩ := hroot k hk hck
      have hdk := (hbad k hk hck).2
      have : r k * (F k b - F k a) ≤ r es' * (F k b - F k a) := mul_le_mul_of_nonneg_right hle (le_of_lt hdk)
      linarith
    · have hck' : 0 < F k a := not_le.mp hck
      have hmm := hm k hk
      rw [F_lerp] at hmm
      -- tm * (c + r d) = (tm - r) c + r (c + tm d)
      have key : tm * (F k a + r es' * (F k b - F k a)) =
          (tm - r es') * F k a + r es' * (F k a + tm * (F k b - F k a)) := by ring
      have hpos : 0 < tm * (F k a + r es' * (F k b - F k a)) := by
        rw [key]
        have h1' : 0 < (tm - r es') * F k a := mul_pos (by linarith) hck'
        have h2' : 0 ≤ r es' * (F k a + tm * (F k b - F k a)) := mul_nonneg hrn (le_of_lt hmm)
        linarith
      by_contra hneg
      have : tm * (F k a + r es' * (F k b - F k a)) ≤ 0 :=
        mul_nonpos_of_nonneg_of_nonpos (le_of_lt htm) (le_of_lt (not_le.mp hneg))
      linarith
  have hFP : F es' (lerp a b (r es')) = 0 := by rw [F_lerp]; exact hr0
  obtain ⟨s, hs0, hs1, hPs⟩ := hB.closedEdge es' hes _ hFP hP
  -- r = 0, otherwise a vertex in the open segment or a proper crossing
  rcases lt_or_eq_of_le hrn with hrpos | hrz
  · exfalso
    have hr1 : r es' < 1 := lt_of_lt_of_le hrt h1
    obtain ⟨hv1, hv2⟩ := hnov es' hes (r es') hrpos hr1
    rcases lt_or_eq_of_le hs0 with hs0' | hs0'
    · rcases lt_or_eq_of_le hs1 with hs1' | hs1'
      · -- proper crossing
        apply hnc es' hes
        have hca : F es' a < 0 := by
          have : r es' * (F es' b - F es' a) > 0 := mul_pos hrpos hds
          linarith
        have hcb : 0 < F es' b := by
          have hmm := hm es' hes
          rw [F_lerp] at hmm
          have : tm * (F es' b - F es' a) ≤ 1 * (F es' b - F es' a) := mul_le_mul_of_nonneg_right h1 (le_of_lt hds)
          linarith
        refine ⟨?_, mul_neg_of_neg_of_pos hca hcb⟩
        have hline : area2 a b (lerp a b (r es')) = 0 := area2_self_lerp a b _
        rw [hPs, area2_lerp] at hline
        have hdiff := area_diff a b es'
        -- u + s (v - u) = 0, v - u = c - (c+d) ≠ 0
        have hne : area2 a b es'.2 - area2 a b es'.1 < 0 := by rw [hdiff]; linarith
        have hu : area2 a b es'.1 ≠ 0 := by
          intro hu0
          rw [hu0] at hline hne
          have : s * area2 a b es'.2 = 0 := by linarith
          rcases mul_eq_zero.mp this with h | h
          · linarith
          · rw [h] at hne; linarith
        have hsq : 0 < area2 a b es'.1 * area2 a b es'.1 := mul_self_pos.mpr hu
        -- s * (u*v) = -(1-s) u²
        have e3 : s * (area2 a b es'.1 * area2 a b es'.2) = -(1 - s) * (area2 a b es'.1 * area2 a b es'.1) := by
          have : s * area2 a b es'.2 = -(1 - s) * area2 a b es'.1 := by linarith
          calc s * (area2 a b es'.1 * area2 a b es'.2) = area2 a b es'.1 * (s * area2 a b es'.2) := by ring
            _ = area2 a b es'.1 * (-(1 - s) * area2 a b es'.1) := by rw [this]
            _ = _ := by ring
        have hneg : s * (area2 a b es'.1 * area2 a b es'.2) < 0 := by
          rw [e3]
          have : 0 < (1 - s) * (area2 a b es'.1 * area2 a b es'.1) := mul_pos (by linarith) hsq
          linarith
        by_contra hnn
        have : 0 ≤ s * (area2 a b es'.1 * area2 a b es'.2) := mul_nonneg hs0 (not_lt.mp hnn)
        linarith
      · rw [hs1', lerp_one] at hPs; exact hv2 hPs
    · rw [← hs0', lerp_zero] at hPs; exact hv1 hPs
  · -- r = 0: a is the entry point
    have hPa : lerp a b (r es') = a := by rw [← hrz, lerp_zero]
    refine ⟨es', hes, ?_, ⟨s, hs0, hs1, by rw [← hPa]; exact hPs⟩⟩
    rw [← hPa]; exact hFP


/-! ### the per-shape loop -/

/-- proper crossing as the code tests it -/
def hit (a b : Pt) (e : Pt × Pt) : Bool := segmentIntersect a b e.1 e.2

/-- the endpoint-touch condition of `segmentShapeIntersect` -/
def tch (a b : Pt) (e : Pt × Pt) : Bool :=
  ((e.2 = a || pointOnLine e.1 e.2 a) && vecDir e.1 e.2 b != 0) ||
  ((e.2 = b || pointOnLine e.1 e.2 b) && vecDir e.1 e.2 a != 0)

theorem ssi_eq (a b : Pt) (e : Pt × Pt) (seen : Bool) :
    segmentShapeIntersect a b e.1 e.2 seen =
      (hit a b e || (tch a b e && seen), seen || (!hit a b e && tch a b e)) := by
  unfold segmentShapeIntersect hit tch
  cases h1 : segmentIntersect a b e.1 e.2 <;> cases seen <;> simp <;> split <;> simp_all

theorem go_seen (a b : Pt) : ∀ es : List (Pt × Pt), (∃ e ∈ es, hit a b e = true ∨ tch a b e = true) →
    shapeBlocksGo a b es true = true := by
  intro es
  induction es with
  | nil => rintro ⟨e, he, _⟩; simp at he
  | cons e rest ih =>
    rintro ⟨e', he', h'⟩
    unfold shapeBlocksGo
    simp only [ssi_eq, Bool.and_true, Bool.true_or]
    by_cases hx : (hit a b e || tch a b e) = true
    · simp [hx]
    · have hx' : (hit a b e || tch a b e) = false := by simpa using hx
      simp only [hx', Bool.false_eq_true, if_false]
      rcases List.mem_cons.mp he' with rfl | hin
      · exfalso
        rcases h' with h | h <;> simp [h] at hx'
      · exact ih ⟨e', hin, h'⟩

theorem go_hit (a b : Pt) : ∀ (es : List (Pt × Pt)) (seen : Bool), (∃ e ∈ es, hit a b e = true) →
    shapeBlocksGo a b es seen = true := by
  intro es
  induction es with
  | nil => rintro _ ⟨e, he, _⟩; simp at he
  | cons e rest ih =>
    rintro seen ⟨e', he', h'⟩
    unfold shapeBlocksGo
    simp only [ssi_eq]
    by_cases hx : (hit a b e || (tch a b e && seen)) = true
    · simp [hx]
    · have hx' : (hit a b e || (tch a b e && seen)) = false := by simpa using hx
      simp only [hx', Bool.false_eq_true, if_false]
      rcases List.mem_cons.mp he' with rfl | hin
      · exfalso; simp [h'] at hx'
      · exact ih _ ⟨e', hin, h'⟩

theorem go_two (a b : Pt) (e1 e2 : Pt × Pt) (hne : e1 ≠ e2) (h1 : tch a b e1 = true) (h2 : tch a b e2 = true) :
    ∀ es : List (Pt × Pt), e1 ∈ es → e2 ∈ es → shapeBlocksGo a b es false = true := by
  intro es
  induction es with
  | nil => intro h; simp at h
  | cons e rest ih =>
    intro m1 m2
    unfold shapeBlocksGo
    simp only [ssi_eq, Bool.and_false, Bool.or_false, Bool.false_or]
    by_cases hh : hit a b e = true
    · simp [hh]
    · have hh' : hit a b e = false := by simpa using hh
      simp only [hh', Bool.false_eq_true, if_false, Bool.not_false, Bool.true_and]
      by_cases ht : tch a b e = true
      · rw [ht]
        apply go_seen
        rcases List.mem_cons.mp m1 with r1 | r1
        · rcases List.mem_cons.mp m2 with r2 | r2
          · exact absurd (r1.trans r2.symm) hne
          · exact ⟨e2, r2, Or.inr h2⟩
        · exact ⟨e1, r1, Or.inr h1⟩
      · have ht' : tch a b e = false := by simpa using ht
        rw [ht']
        have n1 : e1 ≠ e := by rintro rfl; rw [h1] at ht'; exact Bool.noConfusion ht'
        have n2 : e2 ≠ e := by rintro rfl; rw [h2] at ht'; exact Bool.noConfusion ht'
        rcases List.mem_cons.mp m1 with r1 | r1
        · exact absurd r1 n1
        · rcases List.mem_cons.mp m2 with r2 | r2
          · exact absurd r2 n2
          · exact ih r1 r2

theorem hit_iff (a b : Pt) (e : Pt × Pt) : hit a b e = true ↔ ProperCross a b e := by
  unfold hit ProperCross F
  exact segmentIntersect_signs a b e.1 e.2

/-- a point of the closed edge, other than its start, is what the touch test recognises -/
theorem attach (es : List (Pt × Pt)) (hB : BoundaryChar es) (e : Pt × Pt) (he : e ∈ es) (p : Pt)
    (hon : OnClosedEdge e p) :
    ∃ k ∈ es, (k.2 = p ∨ pointOnLine k.1 k.2 p = true) ∧ F k p = 0 := by
  obtain ⟨s, hs0, hs1, hp⟩ := hon
  rcases lt_or_eq_of_le hs0 with hs0' | hs0'
  · rcases lt_or_eq_of_le hs1 with hs1' | hs1'
    · refine ⟨e, he, Or.inr ?_, ?_⟩
      · rw [pointOnLine_iff]
        refine ⟨s, hs0', hs1', ?_, ?_, hB.nondeg e he⟩ <;> rw [hp] <;> rfl
      · rw [hp]; exact area2_self_lerp e.1 e.2 s
    · refine ⟨e, he, Or.inl ?_, ?_⟩
      · rw [hp, hs1', lerp_one]
      · rw [hp]; exact area2_self_lerp e.1 e.2 s
  · obtain ⟨k, hk, hk2⟩ := hB.chain e he
    refine ⟨k, hk, Or.inl ?_, ?_⟩
    · rw [hp, ← hs0', lerp_zero]; exact hk2
    · have : p = k.2 := by rw [hp, ← hs0', lerp_zero]; exact hk2.symm
      rw [this]; unfold F area2; ring

/-- Abstract soundness of the per-shape loop. -/
theorem shapeBlocksGo_of_interior (es : List (Pt × Pt)) (hB : BoundaryChar es) (a b : Pt) (tm : Rat)
    (h0 : 0 ≤ tm) (h1 : tm ≤ 1) (hm : ∀ e ∈ es, 0 < F e (lerp a b tm))
    (ha : ∃ e ∈ es, F e a ≤ 0) (hb : ∃ e ∈ es, F e b ≤ 0)
    (hnov : ∀ e ∈ es, ∀ t : Rat, 0 < t → t < 1 → lerp a b t ≠ e.1 ∧ lerp a b t ≠ e.2) :
    shapeBlocksGo a b es false = true := by
  by_cases hc : ∃ e ∈ es, hit a b e = true
  · exact go_hit a b es false hc
  · have hnc : ∀ e ∈ es, ¬ ProperCross a b e := by
      intro e he hp
      exact hc ⟨e, he, (hit_iff a b e).mpr hp⟩
    -- entry at a
    obtain ⟨htm, ea, hea, _, hona⟩ := entry es hB a b tm h0 h1 hm ha hnov hnc
    -- entry at b: the reversed segment
    have hm' : ∀ e ∈ es, 0 < F e (lerp b a (1 - tm)) := by
      intro e he; rw [← lerp_symm]; exact hm e he
    have hnov' : ∀ e ∈ es, ∀ t : Rat, 0 < t → t < 1 → lerp b a t ≠ e.1 ∧ lerp b a t ≠ e.2 := by
      intro e he t ht0 ht1
      rw [lerp_symm]
      exact hnov e he (1 - t) (by linarith) (by linarith)
    have hnc' : ∀ e ∈ es, ¬ ProperCross b a e := by
      intro e he hp
      apply hnc e he
      obtain ⟨p1, p2⟩ := hp
      refine ⟨?_, by rw [mul_comm]; exact p2⟩
      have e1 : area2 b a e.1 = -area2 a b e.1 := by unfold area2; ring
      have e2 : area2 b a e.2 = -area2 a b e.2 := by unfold area2; ring
      rw [e1, e2] at p1
      linarith [p1]
    obtain ⟨htm', eb, heb, _, honb⟩ := entry es hB b a (1 - tm) (by linarith) (by linarith) hm' hb hnov' hnc'
    obtain ⟨ka, hka, hatt_a, hFa⟩ := attach es hB ea hea a hona
    obtain ⟨kb, hkb, hatt_b, hFb⟩ := attach es hB eb heb b honb
    -- the other end is off the attached edge's line
    have hka_b : 0 < F ka b := by
      have := hm ka hka
      rw [F_lerp, hFa] at this
      have h2 : 0 < tm * F ka b := by linarith
      by_contra hn
      have : tm * F ka b ≤ 0 := mul_nonpos_of_nonneg_of_nonpos h0 (not_lt.mp hn)
      linarith
    have hkb_a : 0 < F kb a := by
      have := hm kb hkb
      rw [F_lerp, hFb] at this
      have h2 : 0 < (1 - tm) * F kb a := by linarith
      by_contra hn
      have : (1 - tm) * F kb a ≤ 0 := mul_nonpos_of_nonneg_of_nonpos (by linarith) (not_lt.mp hn)
      linarith
    have hne : ka ≠ kb := by
      rintro rfl
      rw [hFa] at hkb_a; exact lt_irrefl _ hkb_a
    have vd : ∀ (k : Pt × Pt) (p : Pt), 0 < F k p → (vecDir k.1 k.2 p != 0) = true := by
      intro k p hp
      simp only [bne_iff_ne, ne_eq, vecDir_zero]
      unfold F at hp; linarith
    have t1 : tch a b ka = true := by
      unfold tch
      rw [Bool.or_eq_true]; left
      rw [Bool.and_eq_true]
      refine ⟨?_, vd ka b hka_b⟩
      rcases hatt_a with h | h
      · simp [h]
      · simp [h]
    have t2 : tch a b kb = true := by
      unfold tch
      rw [Bool.or_eq_true]; right
      rw [Bool.and_eq_true]
      refine ⟨?_, vd kb a hkb_a⟩
      rcases hatt_b with h | h
      · simp [h]
      · simp [h]
    exact go_two a b ka kb hne t1 t2 es hka hkb

end AdaptaVerif.Lemmas.VisSound
