/-
Lemmas for C18 (5): the TGLF SEPCO writer followed by the reader preserves the meaning of a SepPair
whose gaps are multiples of `10^-precision`.
-/
import AdaptaVerif.Lemmas.SepMatrix
import Mathlib.Tactic.Linarith
import Mathlib.Tactic.FieldSimp
import Mathlib.Tactic.Ring
import Mathlib.Tactic.Positivity
import Mathlib.Algebra.Order.Field.Rat
namespace AdaptaVerif.Lemmas.Sep
open AdaptaVerif.Num AdaptaVerif.Model.Sep AdaptaVerif.Spec.Sep
open AdaptaVerif.Model.Sep.SepMatrix

theorem roundHalfEven_natCast (N : Nat) : roundHalfEven (N : Rat) = N := by
  unfold roundHalfEven
  have h : ((N : Rat)).floor = (N : Int) := by
    have := Rat.floor_intCast (N : Int)
    simpa using this
  simp [h]

theorem pow10_pos (p : Nat) : (0 : Rat) < (pow10 p : Rat) := by
  unfold pow10
  positivity

/-- the numeral printed for `m + e` (both non-negative multiples of `10^-p`) reads back exactly -/
theorem fmtFixed_decode (p n k : Nat) (m e : Rat) (hm : m = (n : Rat) / (pow10 p : Rat))
    (he : e = (k : Rat) / (pow10 p : Rat)) :
    (fmtFixed p ((SZ.mk false m).addRat e)).toSZ = ⟨false, m + e⟩ := by
  have hp := pow10_pos p
  have hnn : ¬ (m + e < 0) := by
    have : 0 ≤ m + e := by
      rw [hm, he]; positivity
    linarith
  have hmul : (m + e) * (pow10 p : Rat) = ((n + k : Nat) : Rat) := by
    rw [hm, he]; push_cast; field_simp
  simp only [SZ.addRat, SZ.toRat, SZ.ofRat, hnn, if_false, fmtFixed, SZ.signbit, Dec.toSZ, hmul,
    roundHalfEven_natCast, Bool.false_eq_true]
  congr 1
  rw [← hmul]; field_simp

/-- a multiple of `10^-p`, as a predicate on rationals -/
def RatMultiple (p : Nat) (e : Rat) : Prop := ∃ k : Nat, e = (k : Rat) / (pow10 p : Rat)

theorem ratMultiple_zero (p : Nat) : RatMultiple p 0 := ⟨0, by simp⟩

/-- what the writer prints for a gap without sign bit, decoded -/
theorem decode_pos (p : Nat) (g : SZ) (e : Rat) (hg : IsMultipleOfPrec p g) (he : RatMultiple p e)
    (hs : g.signbit = false) : (fmtFixed p (g.addRat e)).toSZ = ⟨false, g.mag + e⟩ := by
  obtain ⟨n, hn⟩ := hg
  obtain ⟨k, hk⟩ := he
  obtain ⟨s, m⟩ := g
  simp only [SZ.signbit] at hs
  subst hs
  exact fmtFixed_decode p n k m e hn hk

/-- what the writer prints for a gap with sign bit (it prints `-gap + extra`), decoded and negated
    again by the W/N/L/U letter -/
theorem decode_neg (p : Nat) (g : SZ) (e : Rat) (hg : IsMultipleOfPrec p g) (he : RatMultiple p e)
    (hs : g.signbit = true) : -(fmtFixed p ((-g).addRat e)).toSZ = ⟨true, g.mag + e⟩ := by
  obtain ⟨n, hn⟩ := hg
  obtain ⟨k, hk⟩ := he
  obtain ⟨s, m⟩ := g
  simp only [SZ.signbit] at hs
  subst hs
  have := fmtFixed_decode p n k m e hn hk
  simp only [SZ.neg_def, Bool.not_true] at this ⊢
  rw [this]
  rfl

/-! ### one dimension -/

/-- the stored triple `(st', gt', g')` read by a fresh graph (extra gap 0) says the same as the
    original triple under the original matrix's extra gap -/
def DimOK (st' : SepType) (gt' : GapType) (g' : SZ) (st : SepType) (gt : GapType) (g : SZ) (extra : Rat) :
    Prop :=
  ∀ a b s t : Rat, conHolds (genCon st' gt' g' 0 a b) s t ↔ conHolds (genCon st gt g extra a b) s t

/-- the extra gap a dimension gets: only boundary gaps -/
def dimExtra (gt : GapType) (extra : Rat) : Rat := if gt = .bdry then extra else 0

theorem dimOK_none (gt' gt : GapType) (g' g : SZ) (extra : Rat) : DimOK .none gt' g' .none gt g extra := by
  intro a b s t; simp [genCon, conHolds]

/-- same sign bit, magnitude increased by the dimension's extra gap -/
theorem dimOK_shift (st : SepType) (gt : GapType) (g : SZ) (extra : Rat) :
    DimOK st gt ⟨g.neg, g.mag + dimExtra gt extra⟩ st gt g extra := by
  obtain ⟨n, m⟩ := g
  intro a b s t
  cases st <;> cases gt <;> cases n <;>
    simp [genCon, conHolds, dimExtra, SZ.signbit, SZ.neg_def, toRat_mk_false'] <;> grind
where toRat_mk_false' (m : Rat) : (SZ.mk false m).toRat = m := by simp [SZ.toRat]

/-- an alignment (`CENTRE`, `==`, gap ±0) reads back as (`CENTRE`, `==`, +0) -/
theorem dimOK_align (g : SZ) (hz : g.isZero = true) (extra : Rat) :
    DimOK .eq .centre SZ.zero .eq .centre g extra := by
  obtain ⟨n, m⟩ := g
  have hm : m = 0 := by simpa [SZ.isZero] using hz
  subst hm
  intro a b s t
  cases n <;> simp [genCon, conHolds, SZ.signbit, SZ.neg_def, SZ.zero, SZ.toRat] <;> grind


/-! ### reading the lines of one pair -/

/-- a pair nobody has written to yet -/
def fresh (s t : Nat) : SepPair := { src := s, tgt := t }

def relOf (isEq : Bool) : SepType := if isEq then .eq else .ineq

theorem key_lt {a b : Nat} (h : a < b) : key a b = (a, b) := by simp [key, h]

theorem addSep_withFlag (sp : SepPair) (f : Bool) (gt : GapType) (sd : SepDir) (st : SepType) (g : SZ) :
    ({ (sp.addSep gt sd st g) with flippedRetrieval := f } : SepPair) =
      ({ sp with flippedRetrieval := f } : SepPair).addSep gt sd st g := by
  cases sd <;> cases st <;> simp [SepPair.addSep]

@[simp] theorem addSep_flag (sp : SepPair) (gt : GapType) (sd : SepDir) (st : SepType) (g : SZ) :
    (sp.addSep gt sd st g).flippedRetrieval = sp.flippedRetrieval := by
  cases sd <;> cases st <;> simp [SepPair.addSep]

theorem read_one (ff : Bool) (l : TglfLine) (h : l.src < l.tgt) :
    readSepcos ff [l] = some (SepMatrix.empty.upsert (l.src, l.tgt)
      ((fresh l.src l.tgt).addSep l.gt l.dir.toSepDir (relOf l.isEq) l.gap.toSZ)) := by
  have hne : l.src ≠ l.tgt := by omega
  have hnlt : ¬ l.tgt < l.src := by omega
  simp [readSepcos, TglfLine.apply, SepMatrix.addSep, getSepPair, hne, key_lt h, hnlt,
    SepMatrix.lookup, SepMatrix.empty, lookupL, fresh, relOf]

theorem read_two (ff : Bool) (l₁ l₂ : TglfLine) (h : l₁.src < l₁.tgt) (hs : l₂.src = l₁.src)
    (ht : l₂.tgt = l₁.tgt) :
    readSepcos ff [l₁, l₂] = some (SepMatrix.empty.upsert (l₁.src, l₁.tgt)
      (((fresh l₁.src l₁.tgt).addSep l₁.gt l₁.dir.toSepDir (relOf l₁.isEq) l₁.gap.toSZ).addSep
        l₂.gt l₂.dir.toSepDir (relOf l₂.isEq) l₂.gap.toSZ)) := by
  have hne : l₁.src ≠ l₁.tgt := by omega
  have hnlt : ¬ l₁.tgt < l₁.src := by omega
  cases ff <;>
  simp [readSepcos, TglfLine.apply, SepMatrix.addSep, getSepPair, hs, ht, hne, key_lt h, hnlt,
    SepMatrix.lookup, SepMatrix.empty, lookupL, SepMatrix.upsert, upsertL, fresh, relOf, addSep_withFlag, addSep_flag]


theorem ratMultiple_dimExtra (p : Nat) (gt : GapType) (extra : Rat) (he : RatMultiple p extra) :
    RatMultiple p (dimExtra gt extra) := by
  unfold dimExtra; split
  · exact he
  · exact ratMultiple_zero p

theorem dimOK_enc_pos (p : Nat) (st : SepType) (gt : GapType) (g : SZ) (extra e : Rat)
    (hg : IsMultipleOfPrec p g) (he : RatMultiple p extra) (hee : e = dimExtra gt extra)
    (hs : g.signbit = false) :
    DimOK st gt (fmtFixed p (g.addRat e)).toSZ st gt g extra := by
  subst hee
  rw [decode_pos p g _ hg (ratMultiple_dimExtra p gt extra he) hs]
  have := dimOK_shift st gt g extra
  simp only [SZ.signbit] at hs
  rwa [hs] at this

theorem dimOK_enc_neg (p : Nat) (st : SepType) (gt : GapType) (g : SZ) (extra e : Rat)
    (hg : IsMultipleOfPrec p g) (he : RatMultiple p extra) (hee : e = dimExtra gt extra)
    (hs : g.signbit = true) :
    DimOK st gt (-(fmtFixed p ((-g).addRat e)).toSZ) st gt g extra := by
  subst hee
  rw [decode_neg p g _ hg (ratMultiple_dimExtra p gt extra he) hs]
  have := dimOK_shift st gt g extra
  simp only [SZ.signbit] at hs
  rwa [hs] at this

theorem zeroLit_toSZ : Dec.zeroLit.toSZ = SZ.zero := by
  simp [Dec.toSZ, Dec.zeroLit, pow10, SZ.zero]

/-- closes one dimension of a leaf -/
macro "dim_close" hg:term "," he:term : tactic => `(tactic| first
  | exact dimOK_none _ _ _ _ _ _ _ _ _
  | exact dimOK_align _ (by assumption) _ _ _ _ _
  | exact dimOK_enc_pos _ _ _ _ _ _ $hg $he (by simp [dimExtra, *]) (by simp_all [SZ.ltZero, SZ.gtZero, SZ.signbit]) _ _ _ _
  | exact dimOK_enc_neg _ _ _ _ _ _ $hg $he (by simp [dimExtra, *]) (by simp_all [SZ.ltZero, SZ.gtZero, SZ.signbit]) _ _ _ _)

/-- common part of every leaf: the line(s) are known, read them and split into dimensions -/
macro "leaf_start" ff:term "," hlt:term : tactic => `(tactic| (
  refine ⟨_, by first | exact read_one $ff _ $hlt | exact read_two $ff _ _ $hlt rfl rfl, rfl, ?_⟩
  intro pl
  simp only [lookup_upsert_self, SatOpt, Sat, SepPair.addSep, fresh, relOf, DirLetter.toSepDir,
    reduceCtorEq, ↓reduceIte, zeroLit_toSZ, Bool.false_eq_true, beq_self_eq_true, beq_iff_eq, *]
  refine and_congr ?_ ?_))

theorem tglf_roundtrip' (ff : Bool) (sp : SepPair) (extra : Rat) (ls : List TglfLine)
    (hlt : sp.src < sp.tgt)
    (hx : IsMultipleOfPrec sp.tglfPrecision sp.xgap) (hy : IsMultipleOfPrec sp.tglfPrecision sp.ygap)
    (he : RatMultiple sp.tglfPrecision extra)
    (hw : sp.writeTglf extra = some ls) :
    ∃ m, readSepcos ff ls = some m ∧ m.extraBdryGap = 0 ∧
      ∀ pl, SatOpt 0 (m.lookup (sp.src, sp.tgt)) pl ↔ Sat extra sp pl := by
  simp only [SepPair.writeTglf] at hw
  by_cases hnn : sp.xst = .none ∧ sp.yst = .none
  · simp only [hnn, and_self, if_true] at hw
    cases hw
    refine ⟨_, rfl, rfl, ?_⟩
    intro pl
    simp [SatOpt, Sat, hnn.1, hnn.2, genCon, conHolds, SepMatrix.lookup, SepMatrix.empty, lookupL]
  simp only [hnn, if_false] at hw
  by_cases hv : sp.xgt = .centre ∧ sp.xst = .eq ∧ sp.xgap.isZero = true
  · obtain ⟨hxg, hxs, hxz⟩ := hv
    simp only [hxg, hxs, hxz, and_self, if_true] at hw
    cases hys : sp.yst
    · -- C X == 0
      simp only [hys] at hw
      cases hw
      leaf_start ff, hlt
      · dim_close hx, he
      · dim_close hy, he
    · -- ==
      simp only [hys] at hw
      cases hyg : sp.ygt
      · simp only [hyg] at hw
        by_cases hl : sp.ygap.ltZero = true
        · simp only [hl, if_true] at hw
          cases hw
          leaf_start ff, hlt
          · dim_close hx, he
          · dim_close hy, he
        · simp only [hl] at hw
          by_cases hg : sp.ygap.gtZero = true
          · simp only [hg, if_true] at hw
            cases hw
            leaf_start ff, hlt
            · dim_close hx, he
            · dim_close hy, he
          · simp [hg] at hw
      · simp only [hyg] at hw
        by_cases hs : sp.ygap.signbit = true
        · simp only [hs, if_true] at hw
          cases hw
          leaf_start ff, hlt
          · dim_close hx, he
          · dim_close hy, he
        · simp only [hs] at hw
          cases hw
          leaf_start ff, hlt
          · dim_close hx, he
          · dim_close hy, he
    · -- >=
      simp only [hys] at hw
      by_cases hs : sp.ygap.signbit = true
      · simp only [hs, if_true] at hw
        cases hw
        leaf_start ff, hlt
        · dim_close hx, he
        · dim_close hy, he
      · simp only [hs] at hw
        cases hw
        leaf_start ff, hlt
        · dim_close hx, he
        · dim_close hy, he
  simp only [hv, if_false] at hw
  by_cases hh : sp.ygt = .centre ∧ sp.yst = .eq ∧ sp.ygap.isZero = true
  · obtain ⟨hyg, hys, hyz⟩ := hh
    simp only [hyg, hys, hyz, and_self, if_true] at hw
    cases hxs : sp.xst
    · -- C Y == 0
      simp only [hxs] at hw
      cases hw
      leaf_start ff, hlt
      · dim_close hx, he
      · dim_close hy, he
    · -- ==
      simp only [hxs] at hw
      cases hxg : sp.xgt
      · simp only [hxg] at hw
        by_cases hl : sp.xgap.ltZero = true
        · simp only [hl, if_true] at hw
          cases hw
          leaf_start ff, hlt
          · dim_close hx, he
          · dim_close hy, he
        · simp only [hl] at hw
          by_cases hg : sp.xgap.gtZero = true
          · simp only [hg, if_true] at hw
            cases hw
            leaf_start ff, hlt
            · dim_close hx, he
            · dim_close hy, he
          · simp [hg] at hw
      · simp only [hxg] at hw
        by_cases hs : sp.xgap.signbit = true
        · simp only [hs, if_true] at hw
          cases hw
          leaf_start ff, hlt
          · dim_close hx, he
          · dim_close hy, he
        · simp only [hs] at hw
          cases hw
          leaf_start ff, hlt
          · dim_close hx, he
          · dim_close hy, he
    · -- >=
      simp only [hxs] at hw
      by_cases hs : sp.xgap.signbit = true
      · simp only [hs, if_true] at hw
        cases hw
        leaf_start ff, hlt
        · dim_close hx, he
        · dim_close hy, he
      · simp only [hs] at hw
        cases hw
        leaf_start ff, hlt
        · dim_close hx, he
        · dim_close hy, he
  -- anything else: up to two lateral lines
  simp only [hh, if_false] at hw
  cases hxs : sp.xst <;> cases hys : sp.yst <;>
    by_cases hsx : sp.xgap.signbit = true <;> by_cases hsy : sp.ygap.signbit = true <;>
    simp only [hxs, hys, hsx, hsy, reduceCtorEq, if_true, if_false, List.nil_append, List.cons_append,
      and_self, not_true_eq_false] at hw hnn <;>
    first
      | contradiction
      | (cases hw
         leaf_start ff, hlt
         · dim_close hx, he
         · dim_close hy, he)

end AdaptaVerif.Lemmas.Sep
