/-
The graph of active constraints of the IncSolver model: adjacency, reachability, reachability
avoiding one constraint (for the "every active constraint is a bridge" = forest invariant).
Everything is index based (`cons[j]!`), because equal constraint values may occur at several indices.
-/
import AdaptaVerif.Model.Vpsc
import Mathlib.Logic.Relation
import Mathlib.Tactic.Linarith
namespace AdaptaVerif.Lemmas.VpscGraph
open AdaptaVerif.Model.Vpsc
open Relation

/-- constraint `j` is an active edge joining `x` and `y` (in either direction) -/
def AE (cons : Array Con) (j x y : Nat) : Prop :=
  j < cons.size ∧ (cons[j]!).active = true ∧
    (((cons[j]!).l = x ∧ (cons[j]!).r = y) ∨ ((cons[j]!).l = y ∧ (cons[j]!).r = x))

theorem AE.symm {cons : Array Con} {j x y : Nat} (h : AE cons j x y) : AE cons j y x :=
  ⟨h.1, h.2.1, h.2.2.symm⟩

/-- adjacency through some active constraint whose index satisfies `P` -/
def Adj (P : Nat → Prop) (cons : Array Con) (x y : Nat) : Prop := ∃ j, P j ∧ AE cons j x y

theorem Adj.symm {P : Nat → Prop} {cons : Array Con} {x y : Nat} (h : Adj P cons x y) :
    Adj P cons y x := by
  obtain ⟨j, hp, h⟩ := h
  exact ⟨j, hp, h.symm⟩

/-- connected through active constraints -/
def Reach (cons : Array Con) : Nat → Nat → Prop := ReflTransGen (Adj (fun _ => True) cons)

/-- connected through active constraints other than `i` -/
def ReachAvoid (cons : Array Con) (i : Nat) : Nat → Nat → Prop :=
  ReflTransGen (Adj (fun j => j ≠ i) cons)

theorem reflTransGen_symm {r : Nat → Nat → Prop} (hs : ∀ a b, r a b → r b a) {a b : Nat}
    (h : ReflTransGen r a b) : ReflTransGen r b a := by
  induction h with
  | refl => exact ReflTransGen.refl
  | tail _ hbc ih => exact ReflTransGen.head (hs _ _ hbc) ih

theorem rtg_mono {r s : Nat → Nat → Prop} (h : ∀ a b, r a b → s a b) {a b : Nat}
    (hr : ReflTransGen r a b) : ReflTransGen s a b := by
  induction hr with
  | refl => exact ReflTransGen.refl
  | tail _ hbc ih => exact ih.tail (h _ _ hbc)

theorem Reach.symm {cons : Array Con} {x y : Nat} (h : Reach cons x y) : Reach cons y x :=
  reflTransGen_symm (fun _ _ h => h.symm) h

theorem ReachAvoid.symm {cons : Array Con} {i x y : Nat} (h : ReachAvoid cons i x y) :
    ReachAvoid cons i y x :=
  reflTransGen_symm (fun _ _ h => h.symm) h

theorem ReachAvoid.toReach {cons : Array Con} {i x y : Nat} (h : ReachAvoid cons i x y) :
    Reach cons x y :=
  rtg_mono (fun _ _ ⟨j, _, hj⟩ => ⟨j, trivial, hj⟩) h

/-- monotonicity in the constraint array: if every active edge of `cons` (with `P`) is one of `cons'`
    (with `Q`), reachability transfers -/
theorem reflTransGen_adj_mono {P Q : Nat → Prop} {cons cons' : Array Con}
    (h : ∀ j x y, P j → AE cons j x y → Q j ∧ AE cons' j x y) {x y : Nat}
    (hr : ReflTransGen (Adj P cons) x y) : ReflTransGen (Adj Q cons') x y :=
  rtg_mono (fun a b ⟨j, hp, hj⟩ => ⟨j, (h j a b hp hj).1, (h j a b hp hj).2⟩) hr

/-- a function that is constant along every edge is constant along reachability -/
theorem reach_const {α : Type} (f : Nat → α) {P : Nat → Prop} {cons : Array Con}
    (h : ∀ j x y, AE cons j x y → f x = f y) {x y : Nat}
    (hr : ReflTransGen (Adj P cons) x y) : f x = f y := by
  induction hr with
  | refl => rfl
  | tail _ hbc ih =>
    obtain ⟨j, _, hj⟩ := hbc
    exact ih.trans (h j _ _ hj)

/-- adding one edge `e` between `l` and `r` to a graph: reachability in the new graph (relation `R'`)
    decomposes through reachability in the old one (relation `R`) -/
theorem reach_add_edge {R R' : Nat → Nat → Prop} {l r : Nat}
    (hstep : ∀ a b, R' a b → R a b ∨ (a = l ∧ b = r) ∨ (a = r ∧ b = l)) {x y : Nat}
    (h : ReflTransGen R' x y) :
    ReflTransGen R x y ∨ (ReflTransGen R x l ∧ ReflTransGen R r y) ∨
      (ReflTransGen R x r ∧ ReflTransGen R l y) := by
  induction h with
  | refl => exact Or.inl ReflTransGen.refl
  | tail _ hbc ih =>
    rcases hstep _ _ hbc with hold | ⟨rfl, rfl⟩ | ⟨rfl, rfl⟩
    · rcases ih with h1 | ⟨h1, h2⟩ | ⟨h1, h2⟩
      · exact Or.inl (h1.tail hold)
      · exact Or.inr (Or.inl ⟨h1, h2.tail hold⟩)
      · exact Or.inr (Or.inr ⟨h1, h2.tail hold⟩)
    · -- step l → r
      rcases ih with h1 | ⟨h1, _⟩ | ⟨h1, _⟩
      · exact Or.inr (Or.inl ⟨h1, ReflTransGen.refl⟩)
      · exact Or.inr (Or.inl ⟨h1, ReflTransGen.refl⟩)
      · exact Or.inl h1
    · -- step r → l
      rcases ih with h1 | ⟨h1, _⟩ | ⟨h1, _⟩
      · exact Or.inr (Or.inr ⟨h1, ReflTransGen.refl⟩)
      · exact Or.inl h1
      · exact Or.inr (Or.inr ⟨h1, ReflTransGen.refl⟩)

end AdaptaVerif.Lemmas.VpscGraph
