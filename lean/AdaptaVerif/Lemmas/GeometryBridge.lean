/-
Bridge lemmas: every kernel generated from the C++ by cpp2lean (AdaptaVerif.Gen.Geometry) equals
the hand-written model (AdaptaVerif.Model.Geometry), and the assertions reached on its path hold.
A semantic change of the C++ breaks one of these; a harmless rewrite normally still re-proves.
-/
import AdaptaVerif.Gen.Geometry
import Mathlib.Tactic.Linarith
import Mathlib.Tactic.Ring
namespace AdaptaVerif.Lemmas.GeometryBridge
open AdaptaVerif.Model.Geometry
namespace Gen
export AdaptaVerif.Gen.Geometry (vecDir inBetween colinear pointOnLine segmentIntersect inValidRegion
  cornerSide segmentIntersectPoint rayIntersectPoint vecDir_pre inBetween_pre colinear_pre pointOnLine_pre
  segmentIntersect_pre inValidRegion_pre cornerSide_pre segmentIntersectPoint_pre rayIntersectPoint_pre)
end Gen
namespace M
export AdaptaVerif.Model.Geometry (vecDir inBetween colinear pointOnLine segmentIntersect inValidRegion
  cornerSide segmentIntersectPoint rayIntersectPoint)
end M

theorem absR_eq (r : Rat) : AdaptaVerif.Gen.absR r = absR r := rfl
theorem eps_eq : AdaptaVerif.Gen.dblEpsilon = eps := rfl

theorem vecDir_eq (a b c : Pt) (z : Rat) : Gen.vecDir a b c z = M.vecDir a b c z := by
  simp only [AdaptaVerif.Gen.Geometry.vecDir, AdaptaVerif.Model.Geometry.vecDir, area2, decide_eq_true_eq]
  rfl

theorem inBetween_eq (a b c : Pt) : Gen.inBetween a b c = M.inBetween a b c := by
  simp [AdaptaVerif.Gen.Geometry.inBetween, AdaptaVerif.Model.Geometry.inBetween, strictBetween,
    absR_eq, eps_eq]

theorem colinear_eq (a b c : Pt) (t : Rat) : Gen.colinear a b c t = M.colinear a b c t := by
  simp [AdaptaVerif.Gen.Geometry.colinear, AdaptaVerif.Model.Geometry.colinear, vecDir_eq]

theorem pointOnLine_eq (a b c : Pt) (t : Rat) : Gen.pointOnLine a b c t = M.pointOnLine a b c t := by
  simp [AdaptaVerif.Gen.Geometry.pointOnLine, AdaptaVerif.Model.Geometry.pointOnLine, vecDir_eq,
    inBetween_eq, strictBetween]

theorem segmentIntersect_eq (a b c d : Pt) : Gen.segmentIntersect a b c d = M.segmentIntersect a b c d := by
  simp only [AdaptaVerif.Gen.Geometry.segmentIntersect, AdaptaVerif.Model.Geometry.segmentIntersect, vecDir_eq]
  simp

theorem inValidRegion_eq (i : Bool) (a0 a1 a2 b : Pt) :
    Gen.inValidRegion i a0 a1 a2 b = M.inValidRegion i a0 a1 a2 b := by
  simp only [AdaptaVerif.Gen.Geometry.inValidRegion, AdaptaVerif.Model.Geometry.inValidRegion, vecDir_eq]
  cases i <;> simp

theorem cornerSide_eq (c1 c2 c3 p : Pt) : Gen.cornerSide c1 c2 c3 p = M.cornerSide c1 c2 c3 p := by
  simp only [AdaptaVerif.Gen.Geometry.cornerSide, AdaptaVerif.Model.Geometry.cornerSide, vecDir_eq]
  simp

theorem rayIntersectPoint_eq (a1 a2 b1 b2 : Pt) :
    Gen.rayIntersectPoint a1 a2 b1 b2 = M.rayIntersectPoint a1 a2 b1 b2 := by
  simp only [AdaptaVerif.Gen.Geometry.rayIntersectPoint, AdaptaVerif.Model.Geometry.rayIntersectPoint,
    PARALLEL, DO_INTERSECT, decide_eq_true_eq]
  have h0 : (default : Rat) = 0 := rfl
  split_ifs <;> simp [h0]

open AdaptaVerif.Gen in
theorem earlyExit_ite {α : Type} (A P Q : Prop) [Decidable A] [Decidable P] [Decidable Q] (r : α) (g : α) :
    earlyExit (if A then (if P then some r else none) else (if Q then some r else none)) g
      = if (if A then P else Q) then r else g := by
  by_cases hA : A <;> by_cases hP : P <;> by_cases hQ : Q <;> simp [hA, hP, hQ, earlyExit]

theorem segmentIntersectPoint_eq (a1 a2 b1 b2 : Pt) :
    Gen.segmentIntersectPoint a1 a2 b1 b2 = M.segmentIntersectPoint a1 a2 b1 b2 := by
  have h0 : (default : Rat) = 0 := rfl
  simp only [AdaptaVerif.Gen.Geometry.segmentIntersectPoint, AdaptaVerif.Model.Geometry.segmentIntersectPoint,
    boxReject, sipCore, PARALLEL, DO_INTERSECT, DONT_INTERSECT, h0, decide_eq_true_eq]
  simp
  simp only [earlyExit_ite]

/-! ### assertions reached by the kernels hold (`_pre`) -/

theorem vecDir_pre_of_nonneg (a b c : Pt) (z : Rat) (hz : 0 ≤ z) : Gen.vecDir_pre a b c z = true := by
  simp [AdaptaVerif.Gen.Geometry.vecDir_pre, hz]

theorem vecDir_pre_zero (a b c : Pt) : Gen.vecDir_pre a b c 0 = true :=
  vecDir_pre_of_nonneg a b c 0 (le_refl 0)

theorem segmentIntersect_pre_true (a b c d : Pt) : Gen.segmentIntersect_pre a b c d = true := by
  simp [AdaptaVerif.Gen.Geometry.segmentIntersect_pre, vecDir_pre_zero]

theorem inValidRegion_pre_true (i : Bool) (a0 a1 a2 b : Pt) : Gen.inValidRegion_pre i a0 a1 a2 b = true := by
  simp [AdaptaVerif.Gen.Geometry.inValidRegion_pre, vecDir_pre_zero]

theorem cornerSide_pre_true (c1 c2 c3 p : Pt) : Gen.cornerSide_pre c1 c2 c3 p = true := by
  simp [AdaptaVerif.Gen.Geometry.cornerSide_pre, vecDir_pre_zero]

theorem colinear_pre_of_nonneg (a b c : Pt) (t : Rat) (ht : 0 ≤ t) : Gen.colinear_pre a b c t = true := by
  simp [AdaptaVerif.Gen.Geometry.colinear_pre, vecDir_pre_of_nonneg _ _ _ _ ht]

theorem eps_pos : (0 : Rat) < eps := by unfold eps; norm_num

/-- with the default tolerance 0 the collinearity assertion inside `inBetween` cannot fire -/
theorem pointOnLine_pre_zero (a b c : Pt) : Gen.pointOnLine_pre a b c 0 = true := by
  have hz : ∀ p q r : Pt, M.vecDir p q r 0 = 0 → M.vecDir p q r eps = 0 := by
    intro p q r
    simp only [AdaptaVerif.Model.Geometry.vecDir]
    have := eps_pos
    split_ifs <;> intro h <;> first | rfl | (exfalso; linarith) | (exact absurd h (by decide))
  simp only [AdaptaVerif.Gen.Geometry.pointOnLine_pre, AdaptaVerif.Gen.Geometry.inBetween_pre, vecDir_eq, eps_eq,
    vecDir_pre_zero, vecDir_pre_of_nonneg _ _ _ _ (le_of_lt eps_pos)]
  have key : ¬ M.vecDir a b c 0 = 0 ∨ M.vecDir a b c eps = 0 := by
    by_cases h : M.vecDir a b c 0 = 0
    · exact Or.inr (hz a b c h)
    · exact Or.inl h
  split_ifs <;> simp <;> exact key

end AdaptaVerif.Lemmas.GeometryBridge
