/-
C17 — basic facts about walks and `IsDist` (used by the checker-soundness and the
Floyd–Warshall / Dijkstra correctness proofs).
-/
import AdaptaVerif.Spec.Apsp
import Mathlib.Tactic.Linarith
import Mathlib.Tactic.Ring
namespace AdaptaVerif.Lemmas.Apsp
open AdaptaVerif.Model.ShortestPaths AdaptaVerif.Spec.Apsp

theorem gtD_some {b c : Rat} : gtD (some b) c = true ↔ c < b := by simp [gtD]

theorem HasEdge.symm {g : Graph} {u v : Nat} {w : Rat} (h : HasEdge g u v w) : HasEdge g v u w :=
  Or.symm h

theorem HasEdge.valid {g : Graph} (hv : Valid g) {u v : Nat} {w : Rat} (h : HasEdge g u v w) :
    u < g.n ∧ v < g.n ∧ 0 ≤ w := by
  rcases h with h | h
  · have := hv _ h; exact ⟨this.1, this.2.1, this.2.2⟩
  · have := hv _ h; exact ⟨this.2.1, this.1, this.2.2⟩

/-- walks start and end at vertices of the graph -/
theorem Walk.ends {g : Graph} (hv : Valid g) {i j : Nat} {c : Rat} (h : Walk g i j c) :
    i < g.n ∧ j < g.n := by
  induction h with
  | nil hi => exact ⟨hi, hi⟩
  | snoc _ he ih => exact ⟨ih.1, (HasEdge.valid hv he).2.1⟩

/-- with non-negative weights every walk has non-negative weight -/
theorem Walk.nonneg {g : Graph} (hv : Valid g) {i j : Nat} {c : Rat} (h : Walk g i j c) : 0 ≤ c := by
  induction h with
  | nil hi => exact le_refl _
  | snoc _ he ih => have := (HasEdge.valid hv he).2.2; linarith

/-- concatenation -/
theorem Walk.append {g : Graph} {i j k : Nat} {c₁ c₂ : Rat} (h₁ : Walk g i j c₁) (h₂ : Walk g j k c₂) :
    Walk g i k (c₁ + c₂) := by
  induction h₂ with
  | nil hj => simpa using h₁
  | snoc _ he ih =>
    have := Walk.snoc ih he
    rwa [add_assoc] at this

/-- a single edge is a walk -/
theorem Walk.edge {g : Graph} (hv : Valid g) {u v : Nat} {w : Rat} (he : HasEdge g u v w) : Walk g u v w := by
  have := Walk.snoc (Walk.nil (HasEdge.valid hv he).1) he
  simpa using this

/-- reversal (the graph is undirected) -/
theorem Walk.reverse {g : Graph} (hv : Valid g) {i j : Nat} {c : Rat} (h : Walk g i j c) : Walk g j i c := by
  induction h with
  | nil hi => exact Walk.nil hi
  | snoc _ he ih =>
    have := Walk.append (Walk.edge hv (HasEdge.symm he)) ih
    rwa [add_comm] at this

/-- a distance value is unique -/
theorem IsDist.unique {g : Graph} {i j : Nat} {a b : Dist} (ha : IsDist g i j a) (hb : IsDist g i j b) : a = b := by
  cases a with
  | none =>
    cases b with
    | none => rfl
    | some y => exact absurd hb.1 (ha y)
  | some x =>
    cases b with
    | none => exact absurd ha.1 (hb x)
    | some y =>
      have h1 := ha.2 y hb.1
      have h2 := hb.2 x ha.1
      have : x = y := le_antisymm h1 h2
      rw [this]

/-- list form of walks agrees with the inductive one -/
theorem isStepList_walk {g : Graph} (hv : Valid g) : ∀ (steps : List (Nat × Rat)) (i j : Nat),
    IsStepList g i steps j → Walk g i j (stepWeight steps) := by
  intro steps
  induction steps with
  | nil => intro i j h; obtain ⟨rfl, hi⟩ := h; exact Walk.nil hi
  | cons s rest ih =>
    intro i j h
    obtain ⟨v, w⟩ := s
    obtain ⟨he, hr⟩ := h
    exact Walk.append (Walk.edge hv he) (ih v j hr)

theorem isStepList_snoc {g : Graph} {j k : Nat} {w : Rat} (he : HasEdge g j k w) (hk : k < g.n) :
    ∀ (steps : List (Nat × Rat)) (i : Nat), IsStepList g i steps j → IsStepList g i (steps ++ [(k, w)]) k := by
  intro steps
  induction steps with
  | nil => intro i hs; obtain ⟨rfl, _⟩ := hs; exact ⟨he, rfl, hk⟩
  | cons s rest ih =>
    intro i hs
    obtain ⟨v, w'⟩ := s
    exact ⟨hs.1, ih v hs.2⟩

theorem stepWeight_snoc (k : Nat) (w : Rat) : ∀ (steps : List (Nat × Rat)),
    stepWeight (steps ++ [(k, w)]) = stepWeight steps + w := by
  intro steps
  induction steps with
  | nil => simp [stepWeight]
  | cons s rest ih =>
    obtain ⟨v, w'⟩ := s
    simp only [List.cons_append, stepWeight]
    rw [ih]; ring

theorem walk_isStepList {g : Graph} (hv : Valid g) {i j : Nat} {c : Rat} (h : Walk g i j c) :
    ∃ steps, IsStepList g i steps j ∧ stepWeight steps = c := by
  induction h with
  | nil hi => exact ⟨[], ⟨rfl, hi⟩, rfl⟩
  | @snoc j k c w _ he ih =>
    obtain ⟨steps, hs, hw⟩ := ih
    exact ⟨steps ++ [(k, w)], isStepList_snoc he (HasEdge.valid hv he).2.1 steps i hs, by
      rw [stepWeight_snoc, hw]⟩

end AdaptaVerif.Lemmas.Apsp
