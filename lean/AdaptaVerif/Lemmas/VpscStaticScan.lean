/-
Glue between the scan-line constraint lists of `Model/Scanline.lean` (C09) and the static VPSC solver model
(`Model/VpscStatic.lean`): the constraint array handed to the solver, acyclicity of its constraint graph, ranks
read off `Blocks::totalOrder`, and the shift that turns an ε-feasible placement into an exactly feasible one.
-/
import AdaptaVerif.Lemmas.ScanlineCheck
import AdaptaVerif.Lemmas.VpscStaticFrame
import AdaptaVerif.Lemmas.VpscStaticOrder
import Mathlib.Tactic.Linarith
namespace AdaptaVerif.Lemmas.VpscStaticScan
open AdaptaVerif.Model.Vpsc AdaptaVerif.Model.VpscStatic
open AdaptaVerif.Lemmas.VpscInv AdaptaVerif.Lemmas.VpscStatic AdaptaVerif.Lemmas.VpscStaticMem
open AdaptaVerif.Lemmas.VpscStaticOrder AdaptaVerif.Lemmas.VpscStaticFrame AdaptaVerif.Lemmas.VpscMerge
open AdaptaVerif.Spec.Rects (Sat Chain)
open Relation

abbrev SCon := AdaptaVerif.Model.Scanline.Con

/-- the constraints handed to `vpsc::Solver` by `removeoverlaps` -/
def toVpsc (cs : List SCon) : Array Con := (cs.map fun c => mkCon c.l c.r c.gap false).toArray

/-! ### from ε-slack to exact feasibility along a topological ranking -/

/-- if every constraint of a list holds up to `ε` and `rank` increases along every constraint, then shifting
    every variable by `ε · rank` gives an exactly feasible placement -/
theorem eps_shift_feasible (cs : List SCon) (y : Nat → Rat) (ε : Rat) (hε : 0 ≤ ε) (rank : Nat → Nat)
    (hrank : ∀ c ∈ cs, rank c.l < rank c.r) (hslack : ∀ c ∈ cs, y c.l + c.gap - ε ≤ y c.r) :
    Sat (fun v => y v + ε * (rank v : Rat)) cs := by
  intro c hc
  have h1 := hslack c hc
  have h2 : (rank c.l : Rat) + 1 ≤ (rank c.r : Rat) := by exact_mod_cast hrank c hc
  have h3 : ε * ((rank c.l : Rat) + 1) ≤ ε * (rank c.r : Rat) := mul_le_mul_of_nonneg_left h2 hε
  simp only
  linarith

/-! ### ranks from `Blocks::totalOrder` -/

theorem idxOf_before : ∀ (A : List Nat) (a b : Nat) (B : List Nat), a ∉ A → b ∉ A → b ≠ a → b ∈ B →
    List.idxOf a (A ++ a :: B) < List.idxOf b (A ++ a :: B)
  | [], a, b, B, _, _, hne, _ => by
    simp only [List.nil_append, List.idxOf_cons_self]
    rw [List.idxOf_cons_ne _ (Ne.symm hne)]
    omega
  | x :: A, a, b, B, ha, hb, hne, hB => by
    have hxa : x ≠ a := fun e => ha (by simp [e])
    have hxb : x ≠ b := fun e => hb (by simp [e])
    simp only [List.cons_append]
    rw [List.idxOf_cons_ne _ hxa, List.idxOf_cons_ne _ hxb]
    have := idxOf_before A a b B (fun h => ha (by simp [h])) (fun h => hb (by simp [h])) hne hB
    omega

theorem rank_of_before {l : List Nat} (hnd : l.Nodup) {a b : Nat} (h : Before l a b) :
    List.idxOf a l < List.idxOf b l := by
  obtain ⟨A, B, rfl, hb⟩ := h
  have hnd' := List.nodup_append.1 hnd
  have haA : a ∉ A := fun hm => hnd'.2.2 a hm a (by simp) rfl
  have hbA : b ∉ A := fun hm => hnd'.2.2 b hm b (by simp [hb]) rfl
  have hba : b ≠ a := by
    have := (List.nodup_cons.1 hnd'.2.1).1
    exact fun e => this (e ▸ hb)
  exact idxOf_before A a b B haA hbA hba hb

/-! ### the static solver on a list of scan-line constraints -/

theorem toVpsc_size (cs : List SCon) : (toVpsc cs).size = cs.length := by simp [toVpsc]

theorem toVpsc_get (cs : List SCon) (ci : Nat) (h : ci < cs.length) :
    ((toVpsc cs)[ci]!).l = (cs[ci]).l ∧ ((toVpsc cs)[ci]!).r = (cs[ci]).r ∧ ((toVpsc cs)[ci]!).gap = (cs[ci]).gap := by
  have : (toVpsc cs)[ci]! = mkCon (cs[ci]).l (cs[ci]).r (cs[ci]).gap false := by
    rw [getElem!_pos _ ci (by rw [toVpsc_size]; exact h)]
    simp [toVpsc]
  rw [this]
  exact ⟨rfl, rfl, rfl⟩

theorem toVpsc_wf (cs : List SCon) (n : Nat) (h : ∀ c ∈ cs, c.l < n ∧ c.r < n) :
    ∀ c ∈ toVpsc cs, c.l < n ∧ c.r < n ∧ c.unsat = false := by
  intro c hc
  simp only [toVpsc, List.mem_toArray, List.mem_map] at hc
  obtain ⟨c0, hc0, rfl⟩ := hc
  exact ⟨(h c0 hc0).1, (h c0 hc0).2, rfl⟩

/-- the constraint data of any state reached from `Solver(vs, toVpsc cs)` by `satisfy` / `solve` -/
theorem run_cons (vs : Array (Rat × Rat × Rat)) (cs : List SCon) (st : St)
    (hcd : CD (SSt.init vs (toVpsc cs)).st st) :
    st.cons.size = cs.length ∧
    ∀ ci (h : ci < cs.length), (st.cons[ci]!).l = (cs[ci]).l ∧ (st.cons[ci]!).r = (cs[ci]).r ∧
      (st.cons[ci]!).gap = (cs[ci]).gap := by
  obtain ⟨i1, i2⟩ := init_cons vs (toVpsc cs)
  have hsz : st.cons.size = cs.length := by
    rw [hcd.1]; show (St.init vs (toVpsc cs)).cons.size = cs.length; rw [i1, toVpsc_size]
  refine ⟨hsz, fun ci h => ?_⟩
  have h' : ci < (toVpsc cs).size := by rw [toVpsc_size]; exact h
  obtain ⟨a1, a2, a3, _⟩ := hcd.2 ci
  obtain ⟨b1, b2, b3, _⟩ := i2 ci h'
  obtain ⟨c1, c2, c3⟩ := toVpsc_get cs ci h
  exact ⟨a1.trans (b1.trans c1), a2.trans (b2.trans c2), a3.trans (b3.trans c3)⟩

/-- acyclicity of the scan-line constraint list is acyclicity of the solver's constraint graph -/
theorem acyclic_init (vs : Array (Rat × Rat × Rat)) (cs : List SCon)
    (hac : AdaptaVerif.Spec.Rects.Acyclic cs) : Acyclic (SSt.init vs (toVpsc cs)).st := by
  obtain ⟨hsz, hdata⟩ := run_cons vs cs (SSt.init vs (toVpsc cs)).st (CD.refl _)
  have hedge : ∀ a b, E (SSt.init vs (toVpsc cs)).st a b → ∃ c ∈ cs, c.l = a ∧ c.r = b := by
    intro a b ⟨ci, hci, hl, hr⟩
    rw [hsz] at hci
    obtain ⟨d1, d2, _⟩ := hdata ci hci
    exact ⟨cs[ci], List.getElem_mem hci, d1.symm.trans hl, d2.symm.trans hr⟩
  have hchain : ∀ a b, TransGen (E (SSt.init vs (toVpsc cs)).st) a b → Chain cs a b := by
    intro a b h
    induction h using TransGen.head_induction_on with
    | single h1 =>
      obtain ⟨c, hc, rfl, rfl⟩ := hedge _ _ h1
      exact Chain.single hc
    | head h1 _ ih =>
      obtain ⟨c, hc, rfl, rfl⟩ := hedge _ _ h1
      exact Chain.cons hc ih
  exact fun x hx => hac x (hchain x x hx)

theorem init_vars_size (vs : Array (Rat × Rat × Rat)) (cs : Array Con) : (SSt.init vs cs).st.vars.size = vs.size := by
  show (St.init vs cs).vars.size = vs.size
  unfold St.init
  simp only
  rw [← Array.foldl_toList, (foldl_addConstraint_frame _ _).2.1]
  simp

/-- ranks read off `Blocks::totalOrder`: strictly increasing along every constraint, bounded by `n` -/
theorem order_ranks (vs : Array (Rat × Rat × Rat)) (cs : List SCon)
    (hrange : ∀ c ∈ cs, c.l < vs.size ∧ c.r < vs.size) (hac : AdaptaVerif.Spec.Rects.Acyclic cs) :
    ∃ rk : Nat → Nat, (∀ c ∈ cs, rk c.l < rk c.r) ∧ ∀ v, rk v ≤ vs.size := by
  have hwf := toVpsc_wf cs vs.size hrange
  have hI := init_inv vs (toVpsc cs) hwf
  obtain ⟨hnd, _, hbefore⟩ := totalOrder_topological (SSt.init vs (toVpsc cs)).st hI (acyclic_init vs cs hac)
    (totalOrder_ok (SSt.init vs (toVpsc cs)).st hI)
  obtain ⟨hsz, hdata⟩ := run_cons vs cs (SSt.init vs (toVpsc cs)).st (CD.refl _)
  refine ⟨fun v => List.idxOf v (totalOrder (SSt.init vs (toVpsc cs)).st).1, ?_, ?_⟩
  · intro c hc
    obtain ⟨ci, hci, rfl⟩ := List.mem_iff_getElem.1 hc
    have hb := hbefore ci (by rw [hsz]; exact hci)
    obtain ⟨d1, d2, _⟩ := hdata ci hci
    rw [d1, d2] at hb
    exact rank_of_before hnd hb
  · intro v
    have hle : (totalOrder (SSt.init vs (toVpsc cs)).st).1.length ≤ vs.size := by
      have hsub : (totalOrder (SSt.init vs (toVpsc cs)).st).1 ⊆ List.range vs.size := by
        intro x hx
        have := totalOrder_bound (SSt.init vs (toVpsc cs)).st (init_inv vs (toVpsc cs) hwf) x hx
        rw [init_vars_size] at this
        exact List.mem_range.2 this
      have := (List.subperm_of_subset hnd hsub).length_le
      simpa using this
    exact le_trans List.idxOf_le_length hle

end AdaptaVerif.Lemmas.VpscStaticScan
