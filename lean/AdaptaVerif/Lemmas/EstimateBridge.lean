/-
Bridge: `estimatedCostSpecific` (orthogonal branch) as generated from makepath.cpp = the hand model
`Model.Bends.estimatedCostSpecific` that the admissibility theorems of Props/C05 are about.
-/
import AdaptaVerif.Lemmas.BendsBridge
namespace AdaptaVerif.Lemmas.EstimateBridge
open AdaptaVerif.Model.Geometry (Pt)
open AdaptaVerif.Model.EstimateKeys (ConnK)
open AdaptaVerif.Lemmas.BendsBridge
namespace G
export AdaptaVerif.Lemmas.BendsBridge.G (dimDirection orthogonalDirectionsCount orthogonalDirection bends bends_pre orthogonalDirection_pre)
export AdaptaVerif.Gen.Makepath (manhattanDist manhattanDist_pre estimatedCostSpecific estimatedCostSpecific_pre orthogonalDirectionsCount_pre)
end G
namespace M
export AdaptaVerif.Lemmas.BendsBridge.M (orthogonalDirectionsCount orthogonalDirection bends)
export AdaptaVerif.Model.Bends (manhattanDist minStep bendCount estimatedCostSpecific)
end M

theorem manhattanDist_eq (a b : Pt) : G.manhattanDist a b = M.manhattanDist a b := rfl

theorem bends_nonneg (c : Pt) (cd : Nat) (d : Pt) (dd : Nat) : 0 ≤ G.bends c cd d dd := by
  simp only [AdaptaVerif.Gen.Makepath.bends]
  repeat' split
  all_goals omega

/-- one `if (costTarDirs & D) bendCount = std::min(bendCount, bends(curr, currDir, tar, D))` step -/
theorem minStep_eq (acc : Int) (h0 : 0 ≤ acc) (dirs D : Nat) (curr : Pt) (cd : Nat) (tar : Pt) :
    M.minStep (some acc.toNat) dirs D curr cd tar =
      if (decide (dirs &&& D ≠ 0) && !G.bends_pre curr cd tar D) then none
      else some (if decide (dirs &&& D ≠ 0) then min acc (G.bends curr cd tar D) else acc).toNat := by
  have hb := bends_nonneg curr cd tar D
  simp only [AdaptaVerif.Model.Bends.minStep, bends_eq]
  by_cases hc : dirs &&& D ≠ 0
  · by_cases hp : G.bends_pre curr cd tar D = true
    · simp only [hc, hp, if_true, decide_true, Bool.not_true, Bool.and_false, Bool.false_eq_true, if_false, ne_eq,
        not_false_eq_true, Option.some.injEq]
      omega
    · simp [hc, hp]
  · simp [hc]

theorem minStep_none (dirs D : Nat) (curr : Pt) (cd : Nat) (tar : Pt) :
    M.minStep none dirs D curr cd tar = none := rfl

theorem cast_toNat (x : Int) (h : 0 ≤ x) : ((x.toNat : Nat) : Rat) = ((x : Int) : Rat) := by
  have : ((x.toNat : Nat) : Int) = x := Int.toNat_of_nonneg h
  conv_rhs => rw [← this]
  rfl

/-- the accumulator after a step is again non-negative -/
theorem step_nonneg (acc : Int) (h0 : 0 ≤ acc) (c : Bool) (b : Int) (hb : 0 ≤ b) :
    0 ≤ (if c then min acc b else acc) := by
  cases c <;> simp <;> omega

/-- `minStep` with the bit test, the assertion outcome and the value of `bends` abstracted -/
def stepO (acc : Option Nat) (c p : Bool) (b : Int) : Option Nat :=
  match acc with
  | none => none
  | some a => if c then (if p then some (min a b.toNat) else none) else some a

theorem minStep_is_stepO (acc : Option Nat) (dirs D : Nat) (curr : Pt) (cd : Nat) (tar : Pt) :
    M.minStep acc dirs D curr cd tar =
      stepO acc (decide (dirs &&& D ≠ 0)) (G.bends_pre curr cd tar D) (G.bends curr cd tar D) := by
  cases acc with
  | none => rfl
  | some a =>
    simp only [AdaptaVerif.Model.Bends.minStep, bends_eq, stepO]
    by_cases hc : dirs &&& D ≠ 0
    · by_cases hp : G.bends_pre curr cd tar D = true
      · simp [hc, hp]
      · simp [hc, hp]
    · simp [hc]

/-- accumulator of the chain: `none` once a reached assertion failed -/
def res (ok : Bool) (a : Int) : Option Nat := if ok then some a.toNat else none

theorem step_res (ok : Bool) (a : Int) (c p : Bool) (b : Int) :
    stepO (res ok a) c p b = res (ok && (!c || p)) (if c then min a b else a) := by
  cases ok <;> cases c <;> cases p <;> simp [stepO, res] <;> omega

theorem four_abs (c1 p1 c2 p2 c4 p4 c8 p8 : Bool) (b1 b2 b4 b8 : Int) :
    stepO (stepO (stepO (stepO (some 10) c1 p1 b1) c2 p2 b2) c4 p4 b4) c8 p8 b8 =
      res ((((true && (!c1 || p1)) && (!c2 || p2)) && (!c4 || p4)) && (!c8 || p8))
        (if c8 then min (if c4 then min (if c2 then min (if c1 then min 10 b1 else 10) b2 else (if c1 then min 10 b1 else 10)) b4
                         else (if c2 then min (if c1 then min 10 b1 else 10) b2 else (if c1 then min 10 b1 else 10))) b8
         else (if c4 then min (if c2 then min (if c1 then min 10 b1 else 10) b2 else (if c1 then min 10 b1 else 10)) b4
               else (if c2 then min (if c1 then min 10 b1 else 10) b2 else (if c1 then min 10 b1 else 10)))) := by
  have e0 : (some 10 : Option Nat) = res true 10 := rfl
  rw [e0, step_res, step_res, step_res, step_res]

theorem final_abs (ok : Bool) (a : Int) (ha : 0 ≤ a) (dist pen : Rat) :
    (match res ok a with
      | none => none
      | some bc => some (dist + (bc : Rat) * pen)) = if ok then some (dist + ((a : Int) : Rat) * pen) else none := by
  cases ok
  · simp [res]
  · simp only [res, if_true, cast_toNat a ha]

theorem pre_abs (c1 p1 c2 p2 c4 p4 c8 p8 : Bool) :
    ((if c1 = true then p1 && true else true) && ((if c2 = true then p2 && true else true) &&
      ((if c4 = true then p4 && true else true) && ((if c8 = true then p8 && true else true) && true)))) =
    ((((true && (!c1 || p1)) && (!c2 || p2)) && (!c4 || p4)) && (!c8 || p8)) := by
  revert c1 p1 c2 p2 c4 p4 c8 p8; decide

theorem pre_abs2 (c1 p1 c2 p2 c4 p4 c8 p8 : Bool) :
    ((if c1 = true then p1 else true) && ((if c2 = true then p2 else true) &&
      ((if c4 = true then p4 else true) && (if c8 = true then p8 else true)))) =
      ((!c1 || p1) && (!c2 || p2) && (!c4 || p4) && (!c8 || p8)) := by
  revert c1 p1 c2 p2 c4 p4 c8 p8; decide

theorem estimatedCostSpecific_eq (k : ConnK) (hk : k.connType ≠ 1) (last : Option Pt) (curr tar : Pt) (dirs : Nat)
    (euclid : Pt → Pt → Rat) :
    AdaptaVerif.Model.Bends.estimatedCostSpecific last curr tar dirs k.segmentPenalty =
      if AdaptaVerif.Gen.Makepath.estimatedCostSpecific_pre k last curr tar dirs euclid
      then some (AdaptaVerif.Gen.Makepath.estimatedCostSpecific k last curr tar dirs euclid) else none := by
  have hk' : decide (((k.connType : Nat) : Int) = (((1 : Nat) : Nat) : Int)) = false := by
    simp only [decide_eq_false_iff_not]; omega
  have hm : ∀ a b, AdaptaVerif.Gen.Makepath.manhattanDist_pre a b = true := fun _ _ => rfl
  have hc : ∀ d, AdaptaVerif.Gen.Makepath.orthogonalDirectionsCount_pre d = true := by
    intro d; simp only [AdaptaVerif.Gen.Makepath.orthogonalDirectionsCount_pre]; repeat' split
    all_goals rfl
  simp only [AdaptaVerif.Model.Bends.estimatedCostSpecific, AdaptaVerif.Gen.Makepath.estimatedCostSpecific,
    AdaptaVerif.Gen.Makepath.estimatedCostSpecific_pre, hk', Bool.false_eq_true, if_false]
  by_cases hp : k.segmentPenalty > 0
  · simp only [hp, not_true_eq_false, if_false, decide_true, Bool.true_and, hm]
    cases last with
    | none =>
      simp only [AdaptaVerif.Model.Bends.bendCount, Option.isNone_none, if_true, manhattanDist_eq]
      by_cases hx : tar.x - curr.x ≠ 0 ∧ tar.y - curr.y ≠ 0
      · have : (decide (tar.x - curr.x ≠ 0) && decide (tar.y - curr.y ≠ 0)) = true := by simp [hx.1, hx.2]
        simp only [hx, this, if_true, and_self]
        simp [hx.1, hx.2]
      · have : (decide (tar.x - curr.x ≠ 0) && decide (tar.y - curr.y ≠ 0)) = false := by
          rw [Bool.eq_false_iff]; intro h; simp at h; exact hx ⟨h.1, h.2⟩
        simp only [hx, this, if_false, Bool.false_eq_true]
        have hx' : ¬ (¬tar.x - curr.x = 0 ∧ ¬tar.y - curr.y = 0) := hx
        simp [hx']
    | some l =>
      simp only [AdaptaVerif.Model.Bends.bendCount, Option.isNone_some, Bool.false_eq_true, if_false, Option.getD_some,
        Option.isSome_some, Bool.true_and, minStep_is_stepO, four_abs, orthogonalDirection_pre_true, hc, Bool.or_true,
        manhattanDist_eq, orthogonalDirection_eq, orthogonalDirectionsCount_eq,
        AdaptaVerif.Model.Bends.CostDirectionN, AdaptaVerif.Model.Bends.CostDirectionE,
        AdaptaVerif.Model.Bends.CostDirectionS, AdaptaVerif.Model.Bends.CostDirectionW]
      generalize AdaptaVerif.Model.Bends.orthogonalDirection l curr = cd
      have n1 := bends_nonneg curr cd tar 1; have n2 := bends_nonneg curr cd tar 2
      have n4 := bends_nonneg curr cd tar 4; have n8 := bends_nonneg curr cd tar 8
      generalize AdaptaVerif.Gen.Makepath.bends curr cd tar 1 = b1 at n1 ⊢
      generalize AdaptaVerif.Gen.Makepath.bends curr cd tar 2 = b2 at n2 ⊢
      generalize AdaptaVerif.Gen.Makepath.bends curr cd tar 4 = b4 at n4 ⊢
      generalize AdaptaVerif.Gen.Makepath.bends curr cd tar 8 = b8 at n8 ⊢
      generalize AdaptaVerif.Gen.Makepath.bends_pre curr cd tar 1 = p1
      generalize AdaptaVerif.Gen.Makepath.bends_pre curr cd tar 2 = p2
      generalize AdaptaVerif.Gen.Makepath.bends_pre curr cd tar 4 = p4
      generalize AdaptaVerif.Gen.Makepath.bends_pre curr cd tar 8 = p8
      generalize decide (dirs &&& 1 ≠ 0) = c1
      generalize decide (dirs &&& 2 ≠ 0) = c2
      generalize decide (dirs &&& 4 ≠ 0) = c4
      generalize decide (dirs &&& 8 ≠ 0) = c8
      by_cases hd : AdaptaVerif.Model.Bends.manhattanDist curr tar > 0
      · by_cases hcd : cd > 0 ∧ AdaptaVerif.Model.Bends.orthogonalDirectionsCount cd = 1
        · have hcd' : (decide (cd > 0) && decide (AdaptaVerif.Model.Bends.orthogonalDirectionsCount cd = 1)) = true := by
            simp [hcd.1, hcd.2]
          simp only [hd, hcd, hcd', if_true, decide_true, and_self, Bool.and_true]
          have a1 := step_nonneg 10 (by omega) c1 b1 n1
          have a2 := step_nonneg _ a1 c2 b2 n2
          have a3 := step_nonneg _ a2 c4 b4 n4
          have a4 := step_nonneg _ a3 c8 b8 n8
          have hb := pre_abs2 c1 p1 c2 p2 c4 p4 c8 p8
          rw [hb]
          generalize ((!c1 || p1) && (!c2 || p2) && (!c4 || p4) && (!c8 || p8)) = ok
          cases ok
          · simp [res]
          · simp only [res, if_true, cast_toNat _ a4]
        · have hcd' : (decide (cd > 0) && decide (AdaptaVerif.Model.Bends.orthogonalDirectionsCount cd = 1)) = false := by
            rw [Bool.eq_false_iff]; intro h; simp at h; exact hcd ⟨h.1, h.2⟩
          simp only [hd, hcd, hcd', if_true, if_false, decide_true, Bool.false_eq_true, Bool.and_true]
          simp
      · have hd' : decide (AdaptaVerif.Model.Bends.manhattanDist curr tar > 0) = false := by simp [hd]
        simp only [hd, hd', if_false, Bool.false_eq_true, Bool.and_true]
        simp
  · simp [hp]

end AdaptaVerif.Lemmas.EstimateBridge
