/-
Lemmas about `Model/NudgeSegs.lean` (segment construction for nudging): limits from checkpoints on
adjoining segments, limits contain the position, what the channel scan can do to the limits.
Reversal symmetry: `Lemmas/NudgeSegsRev.lean`; transposition: `Lemmas/NudgeSegsSwap.lean`.
-/
import AdaptaVerif.Model.NudgeSegs
namespace AdaptaVerif.Lemmas.NudgeSegs
open AdaptaVerif.Model AdaptaVerif.Model.NudgeSegs AdaptaVerif.Model.NudgeRegion AdaptaVerif.Model.FinalSegLimits
open AdaptaVerif.Check.RouteRect (P)

/-! ### `cpLimits` -/

theorem cpLimits_mono (dim : Nat) (p : Rat) (cps : List Pt) (acc : Rat × Rat) :
    acc.1 ≤ (cpLimits dim p cps acc).1 ∧ (cpLimits dim p cps acc).2 ≤ acc.2 := by
  unfold cpLimits
  induction cps generalizing acc with
  | nil => simp
  | cons x xs ih =>
    simp only [List.foldl_cons]
    split
    · have := ih (max acc.1 (x.c dim), acc.2); constructor <;> grind
    · split
      · have := ih (acc.1, min acc.2 (x.c dim)); constructor <;> grind
      · exact ih acc

theorem cpLimits_lower (dim : Nat) (p : Rat) (cps : List Pt) (acc : Rat × Rat) :
    ∀ cp ∈ cps, cp.c dim < p → cp.c dim ≤ (cpLimits dim p cps acc).1 := by
  induction cps generalizing acc with
  | nil => simp
  | cons x xs ih =>
    intro cp hcp hlt
    have hstep : cpLimits dim p (x :: xs) acc = cpLimits dim p xs
        (if x.c dim < p then (max acc.1 (x.c dim), acc.2) else if x.c dim > p then (acc.1, min acc.2 (x.c dim)) else acc) := by
      simp [cpLimits, List.foldl_cons]
    rw [hstep]
    rcases List.mem_cons.mp hcp with rfl | hin
    · rw [if_pos hlt]
      have := (cpLimits_mono dim p xs (max acc.1 (cp.c dim), acc.2)).1
      grind
    · exact ih _ cp hin hlt

theorem cpLimits_upper (dim : Nat) (p : Rat) (cps : List Pt) (acc : Rat × Rat) :
    ∀ cp ∈ cps, cp.c dim > p → (cpLimits dim p cps acc).2 ≤ cp.c dim := by
  induction cps generalizing acc with
  | nil => simp
  | cons x xs ih =>
    intro cp hcp hgt
    have hstep : cpLimits dim p (x :: xs) acc = cpLimits dim p xs
        (if x.c dim < p then (max acc.1 (x.c dim), acc.2) else if x.c dim > p then (acc.1, min acc.2 (x.c dim)) else acc) := by
      simp [cpLimits, List.foldl_cons]
    rw [hstep]
    rcases List.mem_cons.mp hcp with rfl | hin
    · have hnlt : ¬ cp.c dim < p := by grind
      rw [if_neg hnlt, if_pos hgt]
      have := (cpLimits_mono dim p xs (acc.1, min acc.2 (cp.c dim))).2
      grind
    · exact ih _ cp hin hgt

theorem cpLimits_contain (dim : Nat) (p : Rat) (cps : List Pt) (acc : Rat × Rat) (h1 : acc.1 ≤ p) (h2 : p ≤ acc.2) :
    (cpLimits dim p cps acc).1 ≤ p ∧ p ≤ (cpLimits dim p cps acc).2 := by
  unfold cpLimits
  induction cps generalizing acc with
  | nil => exact ⟨h1, h2⟩
  | cons x xs ih =>
    simp only [List.foldl_cons]
    split
    · apply ih <;> grind
    · split
      · apply ih <;> grind
      · exact ih acc h1 h2

/-! ### first / last segments: `finalLimits` contains the position -/

theorem insideBounds_co (dx : Bool) (p : P) (r : AdaptaVerif.Check.RouteRect.Rect) (h : insideBounds p r = true) :
    Rect.lo r dx ≤ P.co p dx ∧ P.co p dx ≤ Rect.hi r dx := by
  simp only [insideBounds, Bool.and_eq_true, decide_eq_true_eq] at h
  cases dx <;> simp [Rect.lo, Rect.hi, P.co] <;> grind

theorem stepShape_contain (dx : Bool) (a z : P) (hpos : P.co a dx = P.co z dx) (l : Lim) (r : AdaptaVerif.Check.RouteRect.Rect)
    (h : l.lo ≤ P.co a dx ∧ P.co a dx ≤ l.hi) :
    (stepShape dx a z l r).lo ≤ P.co a dx ∧ P.co a dx ≤ (stepShape dx a z l r).hi := by
  unfold stepShape
  by_cases ha : insideBounds a r = true <;> by_cases hz : insideBounds z r = true <;>
    simp only [ha, hz, if_true, if_false, Lim.clamp, rmax, rmin, Bool.false_eq_true] <;>
    (try have := insideBounds_co dx a r ha) <;> (try have := insideBounds_co dx z r hz) <;>
    (constructor <;> (repeat' split) <;> grind)

theorem finalLimits_contain (dx : Bool) (a z : P) (shapes : List AdaptaVerif.Check.RouteRect.Rect) (hpos : P.co a dx = P.co z dx)
    (h1 : -FinalSegLimits.channelMax ≤ P.co a dx) (h2 : P.co a dx ≤ FinalSegLimits.channelMax) :
    (finalLimits dx a z shapes).lo ≤ P.co a dx ∧ P.co a dx ≤ (finalLimits dx a z shapes).hi := by
  have inv : ∀ (l : Lim), (l.lo ≤ P.co a dx ∧ P.co a dx ≤ l.hi) →
      ((shapes.foldl (stepShape dx a z) l).lo ≤ P.co a dx ∧ P.co a dx ≤ (shapes.foldl (stepShape dx a z) l).hi) := by
    induction shapes with
    | nil => intro l h; exact h
    | cons r rs ih => intro l h; exact ih _ (stepShape_contain dx a z hpos l r h)
  have hs := inv Lim.init ⟨h1, h2⟩
  unfold finalLimits shapeLimits
  simp only
  split
  · exact hs
  · simp only [rmax, rmin, freeConnBuffer]
    constructor <;> (repeat' split) <;> grind

/-! ### the channel scan -/

theorem foldl_max_le (l : List Rat) (a p : Rat) (h : a ≤ p) (hl : ∀ x ∈ l, x ≤ p) : l.foldl max a ≤ p := by
  induction l generalizing a with
  | nil => simpa
  | cons x xs ih =>
    simp only [List.foldl_cons]
    apply ih
    · have := hl x (by simp); grind
    · intro y hy; exact hl y (by simp [hy])

theorem le_foldl_min (l : List Rat) (a p : Rat) (h : p ≤ a) (hl : ∀ x ∈ l, p ≤ x) : p ≤ l.foldl min a := by
  induction l generalizing a with
  | nil => simpa
  | cons x xs ih =>
    simp only [List.foldl_cons]
    apply ih
    · have := hl x (by simp); grind
    · intro y hy; exact hl y (by simp [hy])

theorem le_foldl_max (l : List Rat) (a : Rat) : a ≤ l.foldl max a := by
  induction l generalizing a with
  | nil => simp
  | cons x xs ih => simp only [List.foldl_cons]; have := ih (max a x); grind

theorem foldl_min_le (l : List Rat) (a : Rat) : l.foldl min a ≤ a := by
  induction l generalizing a with
  | nil => simp
  | cons x xs ih => simp only [List.foldl_cons]; have := ih (min a x); grind

theorem mem_le_foldl_max (l : List Rat) (a x : Rat) (hx : x ∈ l) : x ≤ l.foldl max a := by
  induction l generalizing a with
  | nil => simp at hx
  | cons y ys ih =>
    simp only [List.foldl_cons]
    rcases List.mem_cons.mp hx with rfl | h
    · have := le_foldl_max ys (max a x); grind
    · exact ih _ h

theorem foldl_min_le_mem (l : List Rat) (a x : Rat) (hx : x ∈ l) : l.foldl min a ≤ x := by
  induction l generalizing a with
  | nil => simp at hx
  | cons y ys ih =>
    simp only [List.foldl_cons]
    rcases List.mem_cons.mp hx with rfl | h
    · have := foldl_min_le ys (min a x); grind
    · exact ih _ h

/-- the far side reported by `firstAbove` belongs to an obstacle of the active set lying at or before `p` -/
theorem firstAbove_spec (tie : Bool) (act : List SO) (p v : Rat) (h : firstAbove tie act p = some v) :
    ∃ o ∈ act, o.mx ≤ p ∧ o.mid < p ∧ v = o.mx := by
  unfold firstAbove at h
  -- invariant of the fold: the running best, if any, is (mid, mx-value) with the value taken from a filtered element
  have inv : ∀ (l : List SO) (best : Option (Rat × Rat)),
      (∀ b, best = some b → ∃ o ∈ act, o.mx ≤ p ∧ o.mid < p ∧ b.2 = o.mx) →
      (∀ o ∈ l, o ∈ act ∧ o.mx ≤ p ∧ o.mid < p) →
      ∀ b, (l.foldl (fun (best : Option (Rat × Rat)) o =>
        match best with
        | none => some (o.mid, o.mx)
        | some (m, v) => if m < o.mid then some (o.mid, o.mx)
                         else if m = o.mid then some (m, if tie then max v o.mx else min v o.mx) else some (m, v)) best) = some b →
        ∃ o ∈ act, o.mx ≤ p ∧ o.mid < p ∧ b.2 = o.mx := by
    intro l
    induction l with
    | nil => intro best hb _ b hfb; exact hb b (by simpa using hfb)
    | cons x xs ih =>
      intro best hb hl b hfb
      simp only [List.foldl_cons] at hfb
      have hx := hl x (by simp)
      refine ih _ ?_ (fun o ho => hl o (by simp [ho])) b hfb
      intro b' hb'
      cases best with
      | none => simp at hb'; subst hb'; exact ⟨x, hx.1, hx.2.1, hx.2.2, rfl⟩
      | some mv =>
        obtain ⟨m, v⟩ := mv
        obtain ⟨o, ho, h1, h2, h3⟩ := hb (m, v) rfl
        simp only at hb'
        split at hb'
        · simp at hb'; subst hb'; exact ⟨x, hx.1, hx.2.1, hx.2.2, rfl⟩
        · split at hb'
          · simp at hb'; subst hb'
            cases tie
            · simp only [Bool.false_eq_true, if_false]
              by_cases hle : v ≤ x.mx
              · exact ⟨o, ho, h1, h2, by simp at h3; grind⟩
              · exact ⟨x, hx.1, hx.2.1, hx.2.2, by grind⟩
            · simp only [if_true]
              by_cases hle : v ≤ x.mx
              · exact ⟨x, hx.1, hx.2.1, hx.2.2, by grind⟩
              · exact ⟨o, ho, h1, h2, by simp at h3; grind⟩
          · simp at hb'; subst hb'; exact ⟨o, ho, h1, h2, h3⟩
  cases hf : (List.foldl _ none (act.filter (fun o => decide (o.mid < p) && decide (o.mx ≤ p)))) with
  | none => rw [hf] at h; simp at h
  | some b =>
    rw [hf] at h; simp at h
    obtain ⟨o, ho, h1, h2, h3⟩ := inv _ none (by simp) (by
      intro o ho
      simp only [List.mem_filter, Bool.and_eq_true, decide_eq_true_eq] at ho
      exact ⟨ho.1, ho.2.2, ho.2.1⟩) b hf
    exact ⟨o, ho, h1, h2, by rw [← h, h3]⟩

end AdaptaVerif.Lemmas.NudgeSegs
