/-
satisfy / solve of the IncSolver model: the invariant is preserved, and on a normal return the
state is "final": invariant + no equality left on the inactive list.
-/
import AdaptaVerif.Lemmas.VpscLoop
import Mathlib.Tactic.NormNum
namespace AdaptaVerif.Lemmas.VpscSolve
open AdaptaVerif.Model.Vpsc
open AdaptaVerif.Lemmas.VpscGraph AdaptaVerif.Lemmas.VpscModel AdaptaVerif.Lemmas.VpscHistory
open AdaptaVerif.Lemmas.VpscInv AdaptaVerif.Lemmas.VpscMerge AdaptaVerif.Lemmas.VpscSplit
open AdaptaVerif.Lemmas.VpscTraverse AdaptaVerif.Lemmas.VpscWalk AdaptaVerif.Lemmas.VpscLoop
open Relation

/-- no equality is waiting on the inactive list -/
def E (st : St) : Prop := ∀ j ∈ st.inactive, (st.cons[j]!).eq = false

theorem zub_neg : ZERO_UPPERBOUND < 0 := by unfold ZERO_UPPERBOUND; norm_num

theorem searchSplit_fuel_true (st : St) (v : Nat) (h : st.fuelOut = true) :
    (st.searchSplit v).1.fuelOut = true := by
  unfold St.searchSplit
  simp [St.okAnd, St.setLm, h]

theorem process_fuel_true (st : St) (v : Nat) (h : st.fuelOut = true) :
    (st.process v).fuelOut = true := by
  unfold St.process
  simp only
  split
  · rw [(mergeAcross_frame st v).2.2]; exact h
  · split
    · simp [St.incFlagPath, St.flag, St.okAnd, h]
    · unfold St.splitBetween
      simp only
      apply splitBetweenWith_fuel_true
      apply searchSplit_fuel_true
      simp [St.okAnd, h]

/-- the invariant with the constraint `v` just taken off the inactive list -/
theorem hole_of_inv {st : St} {r : St × Option Nat} (spec : MVSpec st r) (h : Inv st) (v : Nat)
    (hv : r.2 = some v) :
    InvC r.1.vars r.1.cons r.1.blocks.size (r.1.inactive.push v) ∧ v < r.1.cons.size := by
  obtain ⟨hvin, hkeep, _⟩ := spec.some_case v hv
  rw [spec.vars, spec.cons, spec.blocks]
  refine ⟨{ h with cover := ?_, inact_lt := ?_ }, h.inact_lt v hvin⟩
  · intro j hj
    rcases h.cover j hj with c | c | c
    · exact Or.inl c
    · exact Or.inr (Or.inl c)
    · by_cases hjv : j = v
      · exact Or.inr (Or.inr (Array.mem_push.2 (Or.inr hjv)))
      · exact Or.inr (Or.inr (Array.mem_push.2 (Or.inl (hkeep j c hjv))))
  · intro j hj
    rcases Array.mem_push.1 hj with c | rfl
    · exact h.inact_lt j (spec.sub j c)
    · exact h.inact_lt j hvin

theorem inv_same_inactive {st : St} {r : St × Option Nat} (spec : MVSpec st r) (hJ : J st)
    (hi : r.1.inactive = st.inactive) : J r.1 :=
  J.of_core spec.vars spec.cons (by rw [spec.blocks]) hi (fun hh => by rw [← spec.fuel]; exact hh) hJ

/-- the `while` loop of satisfy: invariant preserved, and at a regular exit no equality is left on
    the inactive list -/
theorem satisfyLoop_spec : ∀ (fuel : Nat) (st : St), J st →
    J (St.satisfyLoop fuel st) ∧ ((St.satisfyLoop fuel st).fuelOut = false → E (St.satisfyLoop fuel st)) := by
  intro fuel
  induction fuel with
  | zero =>
    intro st _
    unfold St.satisfyLoop
    exact ⟨Or.inl rfl, fun hh => by simp at hh⟩
  | succ fuel ih =>
    intro st hJ
    unfold St.satisfyLoop
    simp only
    have spec := mostViolated_spec st
    generalize st.mostViolated = r at spec ⊢
    obtain ⟨r1, r2⟩ := r
    cases r2 with
    | none =>
      simp only
      obtain ⟨hi, hall⟩ := spec.none_case rfl
      refine ⟨inv_same_inactive spec hJ hi, fun _ => ?_⟩
      intro j hj
      rw [spec.cons]
      exact hall j (by rw [← hi]; exact hj)
    | some v =>
      simp only
      split
      · -- the loop goes on
        rename_i hgo
        apply ih
        by_cases hfo : st.fuelOut = true
        · left
          apply process_fuel_true
          rw [spec.fuel]; exact hfo
        · have hInv : Inv st := J.inv hJ (by simpa using hfo)
          obtain ⟨hH, hv⟩ := hole_of_inv spec hInv v rfl
          apply process_J r1 v hH hv
          intro hineq
          have heq := hineq v hv
          simp only [St.goCond, heq, Bool.false_or] at hgo
          split at hgo
          · rename_i s hs
            simp only [Bool.and_eq_true, decide_eq_true_eq] at hgo
            exact ⟨s, hs, lt_trans hgo.1 zub_neg⟩
          · simp at hgo
      · rename_i hgo
        have hgo' : r1.goCond v = false := by simpa using hgo
        obtain ⟨_, _, hexit⟩ := spec.some_case v rfl
        obtain ⟨hi, hall⟩ := hexit hgo'
        refine ⟨inv_same_inactive spec hJ hi, fun _ => ?_⟩
        intro j hj
        rw [spec.cons]
        exact hall j (by rw [← hi]; exact hj)

/-- a state in which a solver call has returned normally -/
structure Final (st : St) : Prop where
  fuel : st.fuelOut = false
  inv : Inv st
  noeq : E st

theorem satisfy_J (st : St) (h : J st) : J st.satisfy.1 := by
  unfold St.satisfy
  simp only
  have h1 := splitBlocks_J st h
  have h2 := (satisfyLoop_spec st.splitBlocks.loopFuel st.splitBlocks h1).1
  generalize St.satisfyLoop st.splitBlocks.loopFuel st.splitBlocks = L at h2 ⊢
  have h3 : J L.cleanup := J.of_core (st := L) rfl rfl rfl rfl (fun hh => hh) h2
  generalize L.cleanup = st3 at h3 ⊢
  split
  · exact h3
  · split
    · exact h3
    · exact h3

theorem satisfy_final (st st' : St) (pos : Array Rat) (ret : Bool) (h : J st)
    (hs : st.satisfy = (st', .ok pos ret)) : Final st' := by
  unfold St.satisfy at hs
  simp only at hs
  have h1 := splitBlocks_J st h
  obtain ⟨h2, h2e⟩ := satisfyLoop_spec st.splitBlocks.loopFuel st.splitBlocks h1
  generalize St.satisfyLoop st.splitBlocks.loopFuel st.splitBlocks = L at h2 h2e hs
  have hF : L.cleanup.fuelOut = false → Final L.cleanup := by
    intro hfo
    have hfo' : L.fuelOut = false := hfo
    exact ⟨hfo, J.inv h2 hfo', h2e hfo'⟩
  generalize L.cleanup = st3 at hF hs
  split at hs
  · simp at hs
  · rename_i hfo
    split at hs
    · simp only [Prod.mk.injEq, Outcome.ok.injEq] at hs
      obtain ⟨rfl, _, _⟩ := hs
      exact hF (by simpa using hfo)
    · simp at hs

theorem final_note {st : St} (m : Rat) (h : Final st) : Final (st.note m) :=
  ⟨h.fuel, h.inv, h.noeq⟩

theorem solveLoop_J : ∀ (fuel : Nat) (st : St) (lc c : Rat), J st → J (St.solveLoop fuel st lc c).1 := by
  intro fuel
  induction fuel with
  | zero => intro st lc c _; unfold St.solveLoop; exact Or.inl rfl
  | succ fuel ih =>
    intro st lc c h
    unfold St.solveLoop
    simp only
    have hn : J (st.note (rabs (lc - c) - COST_EPS)) :=
      J.of_core (st := st) rfl rfl rfl rfl (fun hh => hh) h
    split
    · have hs := satisfy_J _ hn
      split
      · rename_i st3 p r hsat
        rw [hsat] at hs
        exact ih _ _ _ hs
      · rename_i st3 o _ hsat
        rw [hsat] at hs
        exact hs
    · exact hn

theorem solveLoop_final : ∀ (fuel : Nat) (st : St) (lc c : Rat) (st2 : St), Final st →
    St.solveLoop fuel st lc c = (st2, none) → Final st2 := by
  intro fuel
  induction fuel with
  | zero => intro st lc c st2 _ h; simp [St.solveLoop] at h
  | succ fuel ih =>
    intro st lc c st2 hF h
    unfold St.solveLoop at h
    simp only at h
    split at h
    · split at h
      · rename_i st3 p r hsat
        exact ih _ _ _ _ (satisfy_final _ _ _ _ (Or.inr (final_note _ hF).inv) hsat) h
      · simp at h
    · simp only [Prod.mk.injEq, and_true] at h
      subst h
      exact final_note _ hF

theorem solve_J (st : St) (h : J st) : J st.solve.1 := by
  unfold St.solve
  have h1 := satisfy_J st h
  split
  · rename_i st1 p1 r1 hs1
    rw [hs1] at h1
    have h2 := satisfy_J st1 h1
    split
    · rename_i st2 p2 r2 hs2
      rw [hs2] at h2
      have h3 := solveLoop_J 200 st2 st1.cost st2.cost h2
      split
      · rename_i st3 hl
        rw [hl] at h3; exact h3
      · rename_i st3 o hl
        rw [hl] at h3; exact h3
    · rename_i st2 o _ hs2
      rw [hs2] at h2; exact h2
  · rename_i st1 o _ hs1
    rw [hs1] at h1; exact h1

theorem solve_final (st st' : St) (pos : Array Rat) (ret : Bool) (h : J st)
    (hs : st.solve = (st', .ok pos ret)) : Final st' := by
  unfold St.solve at hs
  split at hs
  · rename_i st1 p1 r1 hs1
    have hF1 := satisfy_final _ _ _ _ h hs1
    split at hs
    · rename_i st2 p2 r2 hs2
      have hF2 := satisfy_final _ _ _ _ (Or.inr hF1.inv) hs2
      split at hs
      · rename_i st3 hl
        simp only [Prod.mk.injEq, Outcome.ok.injEq] at hs
        obtain ⟨rfl, _, _⟩ := hs
        exact solveLoop_final _ _ _ _ _ hF2 hl
      · rename_i st3 o hl
        simp only [Prod.mk.injEq] at hs
        obtain ⟨_, rfl⟩ := hs
        exact absurd hl (fun hl => AdaptaVerif.Lemmas.VpscModel.solve_ok.solveLoop_not_ok _ _ _ _ _ _ _ hl)
    · rename_i st2 o hne hs2
      simp only [Prod.mk.injEq] at hs
      obtain ⟨_, rfl⟩ := hs
      exact (hne _ _ rfl).elim
  · rename_i st1 o hne hs1
    simp only [Prod.mk.injEq] at hs
    obtain ⟨_, rfl⟩ := hs
    exact (hne _ _ rfl).elim

end AdaptaVerif.Lemmas.VpscSolve
