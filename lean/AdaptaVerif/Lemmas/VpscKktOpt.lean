/-
From the IncSolver model to the QP specification of C02 (`Spec/Qp.lean`): the problem a model
state stands for, and KKT at quiescent states.
-/
import AdaptaVerif.Lemmas.VpscKkt
import AdaptaVerif.Lemmas.QpOpt
namespace AdaptaVerif.Lemmas.VpscKktOpt
open AdaptaVerif.Model.Vpsc
open AdaptaVerif.Lemmas.VpscGraph AdaptaVerif.Lemmas.VpscInv AdaptaVerif.Lemmas.VpscKkt
open AdaptaVerif.Lemmas.VpscModel (scale_mul_pos)
open AdaptaVerif.Spec.Qp (sumTo Problem KKT KKTeps conGrad Feasible IsOptimum WF)
open AdaptaVerif.Lemmas.Qp
open Classical

/-- a model constraint as a constraint of the QP spec -/
def toQ (c : Con) : AdaptaVerif.Spec.Qp.Con := ⟨c.l, c.r, c.gap, c.eq⟩

/-- the quadratic program a model state stands for: its variables (desired, weight, scale) and all
    constraints known to the solver -/
def problemOf (st : St) : Problem :=
  { n := st.vars.size
    d := fun i => (st.vars[i]!).desired
    w := fun i => (st.vars[i]!).weight
    s := fun i => (st.vars[i]!).scale
    cons := st.cons.toList.map toQ }

/-- `q x = dfdv_x / scale_x = 2·w_x·(pos_x − d_x)/s_x` -/
def qOf (st : St) : Nat → Rat := fun x => st.dfdv x / (st.vars[x]!).scale

/-- the blocks sit at their stationary positions (`posn = (AD − AB)/A2`) -/
def BlockStationary (st : St) : Prop := ∀ b, blockSum st.vars (qOf st) b = 0

/-- the tree multipliers of the state -/
noncomputable def lamOf (st : St) (j : Nat) : Rat := mult st.cons st.vars.size (qOf st) j

noncomputable def lamList (st : St) : List Rat := (List.range st.cons.size).map (lamOf st)

/-! ### `conGrad` of an indexed list -/

theorem conGrad_append (s : Nat → Rat) (a b : List (AdaptaVerif.Spec.Qp.Con × Rat)) (i : Nat) :
    conGrad s (a ++ b) i = conGrad s a i + conGrad s b i := by
  induction a with
  | nil => simp [conGrad]
  | cons p a ih =>
    obtain ⟨c, lam⟩ := p
    simp only [List.cons_append, conGrad, ih]
    ring

theorem conGrad_range (s : Nat → Rat) (C : Nat → AdaptaVerif.Spec.Qp.Con) (lam : Nat → Rat) (i : Nat) :
    ∀ k : Nat, conGrad s ((List.range k).map fun j => (C j, lam j)) i =
      s i * (sumTo k (fun j => if (C j).r = i then lam j else 0) -
             sumTo k (fun j => if (C j).l = i then lam j else 0)) := by
  intro k
  induction k with
  | zero => simp [conGrad, sumTo]
  | succ k ih =>
    rw [List.range_succ, List.map_append, conGrad_append, ih]
    simp only [List.map_cons, List.map_nil, conGrad, sumTo]
    by_cases h1 : (C k).r = i <;> by_cases h2 : (C k).l = i <;> simp [h1, h2] <;> ring

theorem zip_eq_range (st : St) :
    (problemOf st).cons.zip (lamList st) =
      (List.range st.cons.size).map fun j => (toQ (st.cons[j]!), lamOf st j) := by
  apply List.ext_getElem
  · simp [problemOf, lamList]
  · intro k h1 h2
    have hk : k < st.cons.size := by simpa using h2
    simp only [problemOf, lamList, List.getElem_zip, List.getElem_map, Array.getElem_toList,
      List.getElem_range]
    rw [getElem!_pos st.cons k hk]

/-! ### KKT at a quiescent state -/

/-- the spec's slack of model constraint `j` at the model's positions -/
def slackQ (st : St) (j : Nat) : Rat :=
  AdaptaVerif.Spec.Qp.slack (problemOf st).s (toQ (st.cons[j]!)) st.pos

theorem slackQ_eq (st : St) (j : Nat) (hs : ∀ i : Nat, i < st.vars.size → (st.vars[i]!).scale ≠ 0)
    (hl : (st.cons[j]!).l < st.vars.size) (hr : (st.cons[j]!).r < st.vars.size) :
    slackQ st j = st.uval (st.cons[j]!).r - (st.cons[j]!).gap - st.uval (st.cons[j]!).l := by
  unfold slackQ AdaptaVerif.Spec.Qp.slack problemOf toQ
  simp only
  rw [scale_mul_pos st _ (hs _ hr), scale_mul_pos st _ (hs _ hl)]

/-- quiescence up to `eps`: nothing violated, every unflagged… every constraint holds, and no active
    inequality has a multiplier below `-eps` -/
structure Quiescent (eps : Rat) (st : St) : Prop where
  holds : ∀ j : Nat, j < st.cons.size →
    if (st.cons[j]!).eq = true then slackQ st j = 0 else 0 ≤ slackQ st j
  sign : ∀ j : Nat, j < st.cons.size → (st.cons[j]!).active = true → (st.cons[j]!).eq = false →
    -eps ≤ lamOf st j

theorem kktEps_of_quiescent (eps : Rat) (st : St) (hinv : Inv st) (heps : 0 ≤ eps)
    (hs : ∀ i : Nat, i < st.vars.size → (st.vars[i]!).scale ≠ 0)
    (hstat : BlockStationary st) (hq : Quiescent eps st) :
    KKTeps eps (problemOf st) st.pos (lamList st) := by
  have htight := AdaptaVerif.Lemmas.VpscLoop.tightActive_of_inv hinv
  refine ⟨by simp [lamList, problemOf], ?_, ?_, ?_⟩
  · -- feasibility
    intro c hc
    simp only [problemOf, List.mem_map] at hc
    obtain ⟨c0, hc0, rfl⟩ := hc
    obtain ⟨j, hj, rfl⟩ := Array.mem_iff_getElem.1 (by simpa using hc0)
    have e : st.cons[j] = st.cons[j]! := (getElem!_pos _ j hj).symm
    have := hq.holds j hj
    unfold AdaptaVerif.Spec.Qp.Con.Holds
    rw [e]
    simp only [toQ]
    exact this
  · -- stationarity
    intro i hi
    rw [zip_eq_range, conGrad_range (problemOf st).s (fun j => toQ (st.cons[j]!)) (lamOf st) i]
    have hst := mult_stationary hinv (qOf st) hstat i hi
    have h1 : sumTo st.cons.size (fun j => if (toQ (st.cons[j]!)).r = i then lamOf st j else 0) =
        sumTo st.cons.size (fun j => if (st.cons[j]!).active = true ∧ (st.cons[j]!).r = i
          then mult st.cons st.vars.size (qOf st) j else 0) := by
      apply sumTo_congr
      intro j _
      by_cases hr : (st.cons[j]!).r = i
      · by_cases ha : (st.cons[j]!).active = true
        · rw [if_pos (show (toQ (st.cons[j]!)).r = i from hr), if_pos ⟨ha, hr⟩]; rfl
        · have : lamOf st j = 0 := by unfold lamOf mult; rw [if_neg ha]
          rw [if_pos (show (toQ (st.cons[j]!)).r = i from hr), if_neg (fun hh => ha hh.1), this]
      · rw [if_neg (show ¬ (toQ (st.cons[j]!)).r = i from hr), if_neg (fun hh => hr hh.2)]
    have h2 : sumTo st.cons.size (fun j => if (toQ (st.cons[j]!)).l = i then lamOf st j else 0) =
        sumTo st.cons.size (fun j => if (st.cons[j]!).active = true ∧ (st.cons[j]!).l = i
          then mult st.cons st.vars.size (qOf st) j else 0) := by
      apply sumTo_congr
      intro j _
      by_cases hl : (st.cons[j]!).l = i
      · by_cases ha : (st.cons[j]!).active = true
        · rw [if_pos (show (toQ (st.cons[j]!)).l = i from hl), if_pos ⟨ha, hl⟩]; rfl
        · have : lamOf st j = 0 := by unfold lamOf mult; rw [if_neg ha]
          rw [if_pos (show (toQ (st.cons[j]!)).l = i from hl), if_neg (fun hh => ha hh.1), this]
      · rw [if_neg (show ¬ (toQ (st.cons[j]!)).l = i from hl), if_neg (fun hh => hl hh.2)]
    rw [h1, h2, hst]
    have hsi := hs i (by simpa [problemOf] using hi)
    simp only [problemOf, qOf, St.dfdv]
    field_simp
  · -- sign and complementary slackness
    intro p hp
    rw [zip_eq_range] at hp
    simp only [List.mem_map, List.mem_range] at hp
    obtain ⟨j, hj, rfl⟩ := hp
    simp only
    by_cases ha : (st.cons[j]!).active = true
    · refine ⟨?_, ?_⟩
      · by_cases he : (st.cons[j]!).eq = true
        · exact Or.inl he
        · exact Or.inr (hq.sign j hj ha (by simpa using he))
      · have ht := htight _ (AdaptaVerif.Lemmas.VpscLoop.getElem!_mem' _ j hj) ha
        have : AdaptaVerif.Spec.Qp.slack (problemOf st).s (toQ (st.cons[j]!)) st.pos = 0 := by
          have := slackQ_eq st j hs (hinv.l_lt j hj) (hinv.r_lt j hj)
          unfold slackQ at this
          rw [this]; linarith
        rw [this]; ring
    · have : lamOf st j = 0 := by unfold lamOf mult; rw [if_neg ha]
      rw [this]
      exact ⟨Or.inr (by linarith), by ring⟩

end AdaptaVerif.Lemmas.VpscKktOpt
