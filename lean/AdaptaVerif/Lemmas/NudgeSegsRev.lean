/-
C10/C11: reversing a connector (`Conn.rev`) mirrors the shift segments that
`buildOrthogonalNudgingSegments` (Model/NudgeSegs.lean: `segAt`, `connSegs`) creates for it.
-/
import AdaptaVerif.Model.NudgeSegs
import AdaptaVerif.Props.C14Limits

namespace AdaptaVerif.Lemmas.NudgeSegsRev
open AdaptaVerif.Model.NudgeSegs AdaptaVerif.Model.NudgeRegion

/-- cache indexes refer to vertices / segments of the route -/
def CacheOk (c : Conn) : Prop := ∀ e ∈ c.cache, e.1 ≤ 2 * (c.ps.length - 1)

/-! ### folds with a right-commutative step -/

theorem foldl_step_comm {α β : Type} (f : α → β → α)
    (hf : ∀ m x y, f (f m x) y = f (f m y) x) (l : List β) (m : α) (x : β) :
    l.foldl f (f m x) = f (l.foldl f m) x := by
  induction l generalizing m with
  | nil => rfl
  | cons y l ih => simp only [List.foldl_cons]; rw [hf, ih]

theorem foldl_reverse_comm {α β : Type} (f : α → β → α)
    (hf : ∀ m x y, f (f m x) y = f (f m y) x) (l : List β) (m : α) :
    l.reverse.foldl f m = l.foldl f m := by
  induction l generalizing m with
  | nil => rfl
  | cons x l ih =>
    rw [List.reverse_cons, List.foldl_append, ih]
    simp only [List.foldl_cons, List.foldl_nil]
    rw [foldl_step_comm f hf]

theorem foldl_foldl_comm {α β : Type} (f : α → β → α)
    (hf : ∀ m x y, f (f m x) y = f (f m y) x) (l1 l2 : List β) (m : α) :
    l1.foldl f (l2.foldl f m) = l2.foldl f (l1.foldl f m) := by
  induction l1 generalizing m with
  | nil => rfl
  | cons x l1 ih =>
    simp only [List.foldl_cons]
    rw [← foldl_step_comm f hf, ih]

/-- the step of `cpLimits` -/
def cpStep (dim : Nat) (thisPos : Rat) (acc : Rat × Rat) (cp : Pt) : Rat × Rat :=
  if cp.c dim < thisPos then (max acc.1 (cp.c dim), acc.2)
  else if cp.c dim > thisPos then (acc.1, min acc.2 (cp.c dim))
  else acc

theorem cpLimits_eq (dim : Nat) (p : Rat) (l : List Pt) (acc : Rat × Rat) :
    cpLimits dim p l acc = l.foldl (cpStep dim p) acc := rfl

theorem cpStep_comm (dim : Nat) (p : Rat) (m : Rat × Rat) (x y : Pt) :
    cpStep dim p (cpStep dim p m x) y = cpStep dim p (cpStep dim p m y) x := by
  unfold cpStep
  split_ifs <;> simp only [max_right_comm, min_right_comm]

/-- the checkpoints may be visited in the reverse order -/
theorem cpLimits_reverse (dim : Nat) (p : Rat) (l : List Pt) (acc : Rat × Rat) :
    cpLimits dim p l.reverse acc = cpLimits dim p l acc := by
  rw [cpLimits_eq, cpLimits_eq]
  exact foldl_reverse_comm _ (cpStep_comm dim p) l acc

/-- the two `for cp` loops may be exchanged -/
theorem cpLimits_comm (dim : Nat) (p : Rat) (l1 l2 : List Pt) (acc : Rat × Rat) :
    cpLimits dim p l1 (cpLimits dim p l2 acc) = cpLimits dim p l2 (cpLimits dim p l1 acc) := by
  simp only [cpLimits_eq]
  exact foldl_foldl_comm _ (cpStep_comm dim p) l1 l2 acc

/-! ### the cache of the reversed connector -/

theorem filter_mirror (cache : List (Nat × Pt)) (N lo up lo' up' : Nat)
    (hc : ∀ e ∈ cache, e.1 ≤ N)
    (hiff : ∀ k, k ≤ N → ((lo' ≤ N - k ∧ N - k ≤ up') ↔ (lo ≤ k ∧ k ≤ up))) :
    (((cache.map (fun e => (N - e.1, e.2))).reverse.filter
        (fun e => decide (lo' ≤ e.1) && decide (e.1 ≤ up'))).map (·.2))
      = ((cache.filter (fun e => decide (lo ≤ e.1) && decide (e.1 ≤ up))).map (·.2)).reverse := by
  rw [List.filter_reverse, List.map_reverse]
  congr 1
  rw [List.filter_map, List.map_map]
  have hfc : cache.filter ((fun e : Nat × Pt => decide (lo' ≤ e.1) && decide (e.1 ≤ up')) ∘
        (fun e : Nat × Pt => (N - e.1, e.2)))
      = cache.filter (fun e => decide (lo ≤ e.1) && decide (e.1 ≤ up)) := by
    apply List.filter_congr
    intro e he
    have := hiff e.1 (hc e he)
    simp only [Function.comp]
    by_cases h : lo ≤ e.1 ∧ e.1 ≤ up
    · have h' := this.2 h
      simp [h.1, h.2, h'.1, h'.2]
    · have h' : ¬ (lo' ≤ N - e.1 ∧ N - e.1 ≤ up') := fun hh => h (this.1 hh)
      have e1 : (decide (lo ≤ e.1) && decide (e.1 ≤ up)) = false := by
        simpa [Bool.and_eq_true] using h
      have e2 : (decide (lo' ≤ N - e.1) && decide (N - e.1 ≤ up')) = false := by
        simpa [Bool.and_eq_true] using h'
      rw [e1, e2]
  rw [hfc]
  rfl

theorem cpsOnSegment_rev0 (c : Conn) (hc : CacheOk c) (s : Nat) (hs : s + 2 ≤ c.ps.length) :
    cpsOnSegment c.rev.cache (c.ps.length - 2 - s) 0 = (cpsOnSegment c.cache s 0).reverse := by
  unfold cpsOnSegment Conn.rev
  simp only [Nat.zero_ne_one, if_false, (by decide : ¬ (0 = 2))]
  exact filter_mirror c.cache _ _ _ _ _ hc (fun k hk => by omega)

theorem cpsOnSegment_rev12 (c : Conn) (hc : CacheOk c) (s : Nat) (hs : s + 2 ≤ c.ps.length) :
    cpsOnSegment c.rev.cache (c.ps.length - 2 - s) 2 = (cpsOnSegment c.cache s 1).reverse := by
  unfold cpsOnSegment Conn.rev
  simp only [if_true, if_false, (by decide : ¬ (2 = 1)), (by decide : ¬ (1 = 2))]
  exact filter_mirror c.cache _ _ _ _ _ hc (fun k hk => by omega)

theorem cpsOnSegment_rev21 (c : Conn) (hc : CacheOk c) (s : Nat) (hs : s + 2 ≤ c.ps.length) :
    cpsOnSegment c.rev.cache (c.ps.length - 2 - s) 1 = (cpsOnSegment c.cache s 2).reverse := by
  unfold cpsOnSegment Conn.rev
  simp only [if_true, if_false, (by decide : ¬ (2 = 1)), (by decide : ¬ (1 = 2))]
  exact filter_mirror c.cache _ _ _ _ _ hc (fun k hk => by omega)

/-! ### first / last segments -/

open AdaptaVerif.Model.FinalSegLimits in
theorem finalLimits_first (dx : Bool) (a z : Pt) (s : List Rect) :
    (finalLimits dx a z s).first = (shapeLimits dx a z s).first := by
  unfold finalLimits; dsimp only; split <;> rfl

open AdaptaVerif.Model.FinalSegLimits in
theorem finalLimits_last (dx : Bool) (a z : Pt) (s : List Rect) :
    (finalLimits dx a z s).last = (shapeLimits dx a z s).last := by
  unfold finalLimits; dsimp only; split <;> rfl

open AdaptaVerif.Model.FinalSegLimits in
theorem finalLimits_rev (dim : Nat) (a b : Pt) (lims : List Rect) (h : a.c dim = b.c dim) :
    (finalLimits (decide (dim = 0)) b a lims).lo = (finalLimits (decide (dim = 0)) a b lims).lo ∧
    (finalLimits (decide (dim = 0)) b a lims).hi = (finalLimits (decide (dim = 0)) a b lims).hi ∧
    (finalLimits (decide (dim = 0)) b a lims).first = (finalLimits (decide (dim = 0)) a b lims).last ∧
    (finalLimits (decide (dim = 0)) b a lims).last = (finalLimits (decide (dim = 0)) a b lims).first := by
  have hpos : P.co a (decide (dim = 0)) = P.co b (decide (dim = 0)) := by
    unfold Pt.c at h; unfold P.co
    by_cases hd : dim = 0 <;> simpa [hd] using h
  obtain ⟨h1, h2⟩ := AdaptaVerif.Props.C14Limits.finalLimits_symm (decide (dim = 0)) a b lims hpos
  obtain ⟨_, _, h3, h4⟩ := AdaptaVerif.Props.C14Limits.shapeLimits_symm (decide (dim = 0)) a b lims
  refine ⟨h1.symm, h2.symm, ?_, ?_⟩
  · rw [finalLimits_first, finalLimits_last, h4]
  · rw [finalLimits_first, finalLimits_last, h3]

/-! ### one route segment -/

/-- exchanging the previous and the next position turns the z-bend branch into the s-bend branch -/
theorem bend_swap (e : Bool) (x y p : Rat) (lim : Rat × Rat) :
    (if e = true then
        if y < p ∧ x > p then (max lim.1 y, min lim.2 x, false, true)
        else if y > p ∧ x < p then (max lim.1 x, min lim.2 y, true, false)
        else (lim.1, lim.2, false, false)
      else (lim.1, lim.2, false, false))
    = ((if e = true then
          if x < p ∧ y > p then (max lim.1 x, min lim.2 y, false, true)
          else if x > p ∧ y < p then (max lim.1 y, min lim.2 x, true, false)
          else (lim.1, lim.2, false, false)
        else (lim.1, lim.2, false, false)).1,
       (if e = true then
          if x < p ∧ y > p then (max lim.1 x, min lim.2 y, false, true)
          else if x > p ∧ y < p then (max lim.1 y, min lim.2 x, true, false)
          else (lim.1, lim.2, false, false)
        else (lim.1, lim.2, false, false)).2.1,
       (if e = true then
          if x < p ∧ y > p then (max lim.1 x, min lim.2 y, false, true)
          else if x > p ∧ y < p then (max lim.1 y, min lim.2 x, true, false)
          else (lim.1, lim.2, false, false)
        else (lim.1, lim.2, false, false)).2.2.2,
       (if e = true then
          if x < p ∧ y > p then (max lim.1 x, min lim.2 y, false, true)
          else if x > p ∧ y < p then (max lim.1 y, min lim.2 x, true, false)
          else (lim.1, lim.2, false, false)
        else (lim.1, lim.2, false, false)).2.2.1) := by
  cases e
  · rfl
  · simp only [if_true]
    by_cases h1 : x < p ∧ y > p
    · have h2 : ¬ (x > p ∧ y < p) := fun h => absurd h1.1 (not_lt.2 (le_of_lt h.1))
      have h3 : ¬ (y < p ∧ x > p) := fun h => h2 ⟨h.2, h.1⟩
      have h4 : y > p ∧ x < p := ⟨h1.2, h1.1⟩
      rw [if_neg h3, if_pos h4, if_pos h1]
    · by_cases h2 : x > p ∧ y < p
      · have h3 : y < p ∧ x > p := ⟨h2.2, h2.1⟩
        rw [if_pos h3, if_neg h1, if_pos h2]
      · have h3 : ¬ (y < p ∧ x > p) := fun h => h2 ⟨h.2, h.1⟩
        have h4 : ¬ (y > p ∧ x < p) := fun h => h1 ⟨h.2, h.1⟩
        rw [if_neg h3, if_neg h4, if_neg h1, if_neg h2]

theorem segAt_rev (nf : Bool) (lims : List Rect) (dim : Nat) (c : Conn) (hc : CacheOk c) (i : Nat)
    (h1 : 1 ≤ i) (h2 : i < c.ps.length) :
    segAt nf lims dim c.rev (c.ps.length - i) = (segAt nf lims dim c i).map (MSeg.mirror c.ps.length) := by
  have hn : c.rev.ps.length = c.ps.length := by simp [Conn.rev]
  have hps : c.rev.ps = c.ps.reverse := rfl
  have hid : c.rev.id = c.id := rfl
  have hfr : c.rev.fixedRoute = c.fixedRoute := rfl
  have ha : c.ps[i - 1]? = some (c.ps[i - 1]'(by omega)) := List.getElem?_eq_getElem _
  have hb : c.ps[i]? = some (c.ps[i]'h2) := List.getElem?_eq_getElem _
  generalize c.ps[i - 1]'(by omega) = a at ha
  generalize c.ps[i]'h2 = b at hb
  have ha' : c.rev.ps[c.ps.length - i - 1]? = some b := by
    rw [hps, List.getElem?_reverse (by omega), ← hb]; congr 1; omega
  have hb' : c.rev.ps[c.ps.length - i]? = some a := by
    rw [hps, List.getElem?_reverse (by omega), ← ha]; congr 1; omega
  have hcps := cpsOnSegment_rev0 c hc (i - 1) (by omega)
  rw [show c.ps.length - 2 - (i - 1) = c.ps.length - i - 1 by omega] at hcps
  unfold segAt
  rw [if_neg (by omega), if_neg (by omega)]
  simp only [ha, hb, ha', hb', hn, hid, hfr, hcps]
  have hd1 : ∀ {α : Type} (x y : α), (if b.c dim ≠ a.c dim then x else y) = if a.c dim ≠ b.c dim then x else y := by
    intro α x y
    by_cases h : a.c dim = b.c dim
    · rw [if_neg (not_not.2 h), if_neg (not_not.2 h.symm)]
    · rw [if_pos h, if_pos (fun h' => h h'.symm)]
  have he1 : ∀ {α : Type} (x y : α), (if b.c (alt dim) = a.c (alt dim) then x else y) = if a.c (alt dim) = b.c (alt dim) then x else y := by
    intro α x y
    by_cases h : a.c (alt dim) = b.c (alt dim)
    · rw [if_pos h, if_pos h.symm]
    · rw [if_neg h, if_neg (fun h' => h h'.symm)]
  rw [hd1, he1]
  by_cases hd : a.c dim = b.c dim
  swap
  · rw [if_pos hd, if_pos hd]; rfl
  rw [if_neg (not_not.2 hd), if_neg (not_not.2 hd)]
  by_cases he : a.c (alt dim) = b.c (alt dim)
  · rw [if_pos he, if_pos he]; rfl
  rw [if_neg he, if_neg he]
  obtain ⟨fl1, fl2, fl3, fl4⟩ := finalLimits_rev dim a b lims hd
  have hfix : (Model.FinalSegLimits.finalLimits (decide (dim = 0)) b a lims).isFixed
      = (Model.FinalSegLimits.finalLimits (decide (dim = 0)) a b lims).isFixed := by
    unfold Model.FinalSegLimits.Lim.isFixed; rw [fl1, fl2]
  have hends : (c.ps.length - i = 1 ∨ c.ps.length - i + 1 = c.ps.length) ↔ (i = 1 ∨ i + 1 = c.ps.length) := by
    omega
  simp only [hends, hfix, fl1, fl2, fl3, fl4, List.isEmpty_reverse]
  generalize cpsOnSegment c.cache (i - 1) 0 = cps
  simp only [← hd]
  have hmir : ∀ (sw : Bool) (hsw : sw = decide (a.c (alt dim) > b.c (alt dim))),
      decide (b.c (alt dim) > a.c (alt dim)) = !sw := by
    intro sw hsw
    subst hsw
    by_cases h : a.c (alt dim) > b.c (alt dim)
    · rw [decide_eq_true h, decide_eq_false (not_lt.2 (le_of_lt h))]; rfl
    · rw [decide_eq_false h, decide_eq_true (lt_of_le_of_ne (not_lt.1 h) he)]; rfl
  rw [hmir _ rfl]
  generalize decide (a.c (alt dim) > b.c (alt dim)) = sw
  by_cases hfx : (!cps.isEmpty && !nf) = true
  · rw [if_pos hfx, if_pos hfx]
    cases sw <;> simp [MSeg.mirror, fixedSeg] <;> omega
  rw [if_neg hfx, if_neg hfx]
  by_cases hE : i = 1 ∨ i + 1 = c.ps.length
  · rw [if_pos hE, if_pos hE]
    generalize Model.FinalSegLimits.finalLimits (decide (dim = 0)) a b lims = l
    cases nf
    · cases sw <;> simp [MSeg.mirror, fixedSeg] <;> omega
    · by_cases hl : (l.isFixed || c.fixedRoute) = true
      · simp only [if_true, if_pos hl]
        cases sw <;> simp [MSeg.mirror, fixedSeg] <;> omega
      · simp only [if_true, if_neg hl]
        cases sw <;> simp [MSeg.mirror, freeSeg, Bool.or_comm, Bool.and_assoc, Bool.and_comm l.last] <;> omega
  · rw [if_neg hE, if_neg hE]
    have hp : c.ps[i - 2]? = some (c.ps[i - 2]'(by omega)) := List.getElem?_eq_getElem _
    have hx : c.ps[i + 1]? = some (c.ps[i + 1]'(by omega)) := List.getElem?_eq_getElem _
    generalize c.ps[i - 2]'(by omega) = pv at hp
    generalize c.ps[i + 1]'(by omega) = nx at hx
    have hp' : c.rev.ps[c.ps.length - i - 2]? = some nx := by
      rw [hps, List.getElem?_reverse (by omega), ← hx]; congr 1; omega
    have hx' : c.rev.ps[c.ps.length - i + 1]? = some pv := by
      rw [hps, List.getElem?_reverse (by omega), ← hp]; congr 1; omega
    have hc1 := cpsOnSegment_rev21 c hc (i - 2) (by omega)
    rw [show c.ps.length - 2 - (i - 2) = c.ps.length - i by omega] at hc1
    have hc2 := cpsOnSegment_rev12 c hc i (by omega)
    rw [show c.ps.length - 2 - i = c.ps.length - i - 2 by omega] at hc2
    simp only [hp, hx, hp', hx', hc1, hc2, cpLimits_reverse]
    rw [cpLimits_comm dim (a.c dim) (cpsOnSegment c.cache i 1)]
    generalize cpLimits dim (a.c dim) (cpsOnSegment c.cache (i - 2) 2)
      (cpLimits dim (a.c dim) (cpsOnSegment c.cache i 1) (-channelMax, channelMax)) = lim
    rw [bend_swap]
    generalize (if cps.isEmpty = true then
        if pv.c dim < a.c dim ∧ nx.c dim > a.c dim then
          (max lim.1 (pv.c dim), min lim.2 (nx.c dim), false, true)
        else if pv.c dim > a.c dim ∧ nx.c dim < a.c dim then
          (max lim.1 (nx.c dim), min lim.2 (pv.c dim), true, false)
        else (lim.1, lim.2, false, false)
      else (lim.1, lim.2, false, false)) = t
    obtain ⟨mn, mx, sB, zB⟩ := t
    cases sw <;> simp [MSeg.mirror, freeSeg, List.map_reverse] <;> omega

/-! ### all segments of a connector -/

theorem segAt_zero (nf : Bool) (lims : List Rect) (dim : Nat) (c : Conn) : segAt nf lims dim c 0 = none := by
  unfold segAt; rfl

theorem segAt_length (nf : Bool) (lims : List Rect) (dim : Nat) (c : Conn) :
    segAt nf lims dim c c.ps.length = none := by
  unfold segAt
  split
  · rfl
  · rw [List.getElem?_eq_none (Nat.le_refl _)]
    split
    · rename_i h; cases h
    · rfl

theorem filterMap_congr' {α β : Type} (f g : α → Option β) (l : List α) (h : ∀ x ∈ l, f x = g x) :
    l.filterMap f = l.filterMap g := by
  induction l with
  | nil => rfl
  | cons x l ih =>
    rw [List.filterMap_cons, List.filterMap_cons, h x (List.mem_cons_self ..),
      ih (fun y hy => h y (List.mem_cons_of_mem _ hy))]

/-- dropping a `none` at the front and one at the back: `g 1, …, g n` instead of `g 0, …, g (n-1)` -/
theorem filterMap_range_shift {β : Type} (g : Nat → Option β) (n : Nat) (h0 : g 0 = none) (hn : g n = none) :
    (List.range n).filterMap g = (List.range n).filterMap (fun k => g (k + 1)) := by
  have e1 : (List.range (n + 1)).filterMap g = (List.range n).filterMap g := by
    rw [List.range_succ, List.filterMap_append]
    simp [hn]
  have e2 : (List.range (n + 1)).filterMap g = (List.range n).filterMap (fun k => g (k + 1)) := by
    rw [List.range_succ_eq_map, List.filterMap_cons, h0, List.filterMap_map]
    rfl
  rw [← e1, e2]

theorem connSegs_rev (nf : Bool) (lims : List Rect) (dim : Nat) (c : Conn) (hc : CacheOk c) :
    connSegs nf lims dim c.rev = ((connSegs nf lims dim c).map (MSeg.mirror c.ps.length)).reverse := by
  have hn : c.rev.ps.length = c.ps.length := by simp [Conn.rev]
  unfold connSegs
  rw [hn, List.map_filterMap]
  rw [filterMap_range_shift (fun i => (segAt nf lims dim c i).map (MSeg.mirror c.ps.length)) c.ps.length
    (by simp only [segAt_zero]; rfl) (by simp only [segAt_length]; rfl)]
  rw [← List.filterMap_reverse, List.range_eq_range', List.reverse_range', List.filterMap_map,
    ← List.range_eq_range']
  apply filterMap_congr'
  intro j hj
  have hj' : j < c.ps.length := List.mem_range.1 hj
  simp only [Function.comp]
  by_cases h0 : j = 0
  · subst h0
    rw [segAt_zero]
    have := segAt_length nf lims dim c
    simp only [Nat.zero_add, Nat.sub_zero]
    rw [show c.ps.length - 1 + 1 = c.ps.length by omega, this]; rfl
  · have := segAt_rev nf lims dim c hc (c.ps.length - j) (by omega) (by omega)
    rw [show c.ps.length - (c.ps.length - j) = j by omega] at this
    rw [this]
    congr 2
    omega

end AdaptaVerif.Lemmas.NudgeSegsRev
