/-
Member lists and heap contents of the static VPSC solver's model (`Model/VpscStatic.lean`):
 * `MemOK`  — the member list `Block::vars` of every block that owns a variable lists only its own variables;
 * `InOK` / `OutOK` — every constraint in the in-heap (out-heap) of a block that owns a variable has its
   right (left) end in that block;
both preserved by every step of `mergeLeft`, `mergeRight`, `Blocks::split`, `satisfy`, `refine`, `solve`
(`SW`).  Consequence: the constraint a heap hands back belongs to the block the heap is attached to, so the
model's dynamic check `HS.corrupt` can never fire (`*_corrupt`).
-/
import AdaptaVerif.Lemmas.VpscStatic
namespace AdaptaVerif.Lemmas.VpscStaticMem
open AdaptaVerif.Model.Vpsc AdaptaVerif.Model.VpscStatic
open AdaptaVerif.Lemmas.VpscGraph AdaptaVerif.Lemmas.VpscModel AdaptaVerif.Lemmas.VpscHistory
open AdaptaVerif.Lemmas.VpscInv AdaptaVerif.Lemmas.VpscMerge AdaptaVerif.Lemmas.VpscSplit
open AdaptaVerif.Lemmas.VpscStatic AdaptaVerif.Lemmas.VpscLoop
open AdaptaVerif.Model.PairingHeap
open Relation

/-! ### heap operations never invent elements -/

theorem elems_link_sub {lt : Nat → Nat → Bool} (a b : PTree Nat) :
    ∀ x ∈ elems (link lt a b), x ∈ elems a ∨ x ∈ elems b := by
  intro x hx
  cases a with
  | nil => cases b <;> simp_all [link]
  | node ka ia ca sa =>
    cases b with
    | nil => left; simpa [link] using hx
    | node kb ib cb sb =>
      simp only [link] at hx
      split at hx <;> simp only [elems, List.mem_cons, List.mem_append] at hx ⊢ <;> tauto

theorem elems_insert_sub {lt : Nat → Nat → Bool} (h : PTree Nat) (k i : Nat) :
    ∀ x ∈ elems (AdaptaVerif.Model.PairingHeap.insert lt h k i), x = (k, i) ∨ x ∈ elems h := by
  intro x hx
  unfold AdaptaVerif.Model.PairingHeap.insert at hx
  split at hx
  · left; simpa [elems] using hx
  · rcases elems_link_sub _ _ x hx with h1 | h1
    · right; exact h1
    · left; simpa [elems] using h1

theorem elems_merge_sub {lt : Nat → Nat → Bool} (a b : PTree Nat) :
    ∀ x ∈ elems (AdaptaVerif.Model.PairingHeap.merge lt a b), x ∈ elems a ∨ x ∈ elems b := by
  intro x hx
  unfold AdaptaVerif.Model.PairingHeap.merge at hx
  split at hx
  · right; exact hx
  · exact elems_link_sub _ _ x hx

def elemsL' (l : List (PTree Nat)) : List (Nat × Nat) := l.flatMap elems

theorem siblings_sub : ∀ (t : PTree Nat), ∀ x ∈ elemsL' (siblings t), x ∈ elems t
  | .nil => by simp [siblings, elemsL']
  | .node k i c s => by
    intro x hx
    simp only [siblings, elemsL', List.flatMap_cons, List.mem_append, elems, List.mem_cons,
      List.append_nil] at hx ⊢
    rcases hx with (h | h) | h
    · exact Or.inl h
    · exact Or.inr (Or.inl h)
    · exact Or.inr (Or.inr (siblings_sub s x h))

theorem pass1_sub {lt : Nat → Nat → Bool} : ∀ (l : List (PTree Nat)), ∀ x ∈ elemsL' (pass1 lt l), x ∈ elemsL' l
  | [] => by simp [pass1]
  | [a] => by simp [pass1]
  | a :: b :: rest => by
    intro x hx
    simp only [pass1, elemsL', List.flatMap_cons, List.mem_append] at hx ⊢
    rcases hx with h | h
    · rcases elems_link_sub _ _ x h with h1 | h1
      · exact Or.inl h1
      · exact Or.inr (Or.inl h1)
    · exact Or.inr (Or.inr (pass1_sub rest x h))

theorem pass2_sub {lt : Nat → Nat → Bool} : ∀ (l : List (PTree Nat)), ∀ x ∈ elems (pass2 lt l), x ∈ elemsL' l
  | [] => by simp [pass2, elems]
  | [a] => by simp [pass2, elemsL']
  | a :: b :: rest => by
    intro x hx
    simp only [pass2] at hx
    simp only [elemsL', List.flatMap_cons, List.mem_append]
    rcases elems_link_sub _ _ x hx with h1 | h1
    · exact Or.inl h1
    · have := pass2_sub (b :: rest) x h1
      right
      simpa [elemsL'] using this

theorem elems_deleteMin_sub {lt : Nat → Nat → Bool} (h : PTree Nat) :
    ∀ x ∈ elems (deleteMin lt h), x ∈ elems h := by
  intro x hx
  cases h with
  | nil => simpa [deleteMin] using hx
  | node k i c s =>
    simp only [deleteMin, combineSiblings] at hx
    have := siblings_sub c x (pass1_sub _ x (pass2_sub _ x hx))
    simp only [elems, List.mem_cons, List.mem_append]
    exact Or.inr (Or.inl this)

theorem findMin_mem (h : PTree Nat) (x : Nat × Nat) (hx : findMin h = some x) : x ∈ elems h := by
  cases h with
  | nil => simp [findMin] at hx
  | node k i c s => simp only [findMin, Option.some.injEq] at hx; subst hx; simp [elems]

/-- the same on constraint indices -/
theorem he_insert {lt : Nat → Nat → Bool} (h : Heap) (k : Nat) :
    ∀ c ∈ heapElems (AdaptaVerif.Model.PairingHeap.insert lt h k k), c = k ∨ c ∈ heapElems h := by
  intro c hc
  simp only [heapElems, List.mem_map] at hc ⊢
  obtain ⟨x, hx, rfl⟩ := hc
  rcases elems_insert_sub h k k x hx with rfl | h1
  · left; rfl
  · right; exact ⟨x, h1, rfl⟩

theorem he_deleteMin {lt : Nat → Nat → Bool} (h : Heap) :
    ∀ c ∈ heapElems (deleteMin lt h), c ∈ heapElems h := by
  intro c hc
  simp only [heapElems, List.mem_map] at hc ⊢
  obtain ⟨x, hx, rfl⟩ := hc
  exact ⟨x, elems_deleteMin_sub h x hx, rfl⟩

theorem he_merge {lt : Nat → Nat → Bool} (a b : Heap) :
    ∀ c ∈ heapElems (AdaptaVerif.Model.PairingHeap.merge lt a b), c ∈ heapElems a ∨ c ∈ heapElems b := by
  intro c hc
  simp only [heapElems, List.mem_map] at hc ⊢
  obtain ⟨x, hx, rfl⟩ := hc
  rcases elems_merge_sub a b x hx with h1 | h1
  · left; exact ⟨x, h1, rfl⟩
  · right; exact ⟨x, h1, rfl⟩

theorem he_findMin (h : Heap) (x : Nat × Nat) (hx : findMin h = some x) : x.1 ∈ heapElems h := by
  simp only [heapElems, List.mem_map]
  exact ⟨x, findMin_mem h x hx, rfl⟩

/-- where `Block::split` puts every variable (the classification inside the proof of `split_core`,
    exported): variables outside the split block keep their block, those inside go to one of the two new
    blocks; the first pass does not touch the right end of the removed constraint; both passes only move
    variables out of `old` (`Mono`). -/
theorem split_classify (vars : Array Var) (cons : Array Con) (n : Nat) (ia : Array Nat)
    (h : InvC vars cons n ia) (ci : Nat) (hci : ci < cons.size) (hact : (cons[ci]!).active = true)
    (fuel : Nat) (m1 m2 : Array Nat)
    (hok1 : (populateSplit (cons.set! ci { cons[ci]! with active := false })
      (blk vars (cons[ci]!).l) n fuel vars m1 (cons[ci]!).l (some (cons[ci]!).r)).2.2 = true)
    (hok2 : (populateSplit (cons.set! ci { cons[ci]! with active := false })
      (blk vars (cons[ci]!).l) (n + 1) fuel
      (populateSplit (cons.set! ci { cons[ci]! with active := false })
        (blk vars (cons[ci]!).l) n fuel vars m1 (cons[ci]!).l (some (cons[ci]!).r)).1
      m2 (cons[ci]!).r (some (cons[ci]!).l)).2.2 = true) :
    Mono (blk vars (cons[ci]!).l) n vars
      (populateSplit (cons.set! ci { cons[ci]! with active := false })
        (blk vars (cons[ci]!).l) n fuel vars m1 (cons[ci]!).l (some (cons[ci]!).r)).1 ∧
    Mono (blk vars (cons[ci]!).l) (n + 1)
      (populateSplit (cons.set! ci { cons[ci]! with active := false })
        (blk vars (cons[ci]!).l) n fuel vars m1 (cons[ci]!).l (some (cons[ci]!).r)).1
      (populateSplit (cons.set! ci { cons[ci]! with active := false })
        (blk vars (cons[ci]!).l) (n + 1) fuel
        (populateSplit (cons.set! ci { cons[ci]! with active := false })
          (blk vars (cons[ci]!).l) n fuel vars m1 (cons[ci]!).l (some (cons[ci]!).r)).1
        m2 (cons[ci]!).r (some (cons[ci]!).l)).1 ∧
    blk vars (cons[ci]!).l < n ∧
    (∀ x, x < vars.size →
      (blk vars x ≠ blk vars (cons[ci]!).l ∧
        blk (populateSplit (cons.set! ci { cons[ci]! with active := false })
          (blk vars (cons[ci]!).l) (n + 1) fuel
          (populateSplit (cons.set! ci { cons[ci]! with active := false })
            (blk vars (cons[ci]!).l) n fuel vars m1 (cons[ci]!).l (some (cons[ci]!).r)).1
          m2 (cons[ci]!).r (some (cons[ci]!).l)).1 x = blk vars x) ∨
      (blk vars x = blk vars (cons[ci]!).l ∧
        (blk (populateSplit (cons.set! ci { cons[ci]! with active := false })
          (blk vars (cons[ci]!).l) (n + 1) fuel
          (populateSplit (cons.set! ci { cons[ci]! with active := false })
            (blk vars (cons[ci]!).l) n fuel vars m1 (cons[ci]!).l (some (cons[ci]!).r)).1
          m2 (cons[ci]!).r (some (cons[ci]!).l)).1 x = n ∨
         blk (populateSplit (cons.set! ci { cons[ci]! with active := false })
          (blk vars (cons[ci]!).l) (n + 1) fuel
          (populateSplit (cons.set! ci { cons[ci]! with active := false })
            (blk vars (cons[ci]!).l) n fuel vars m1 (cons[ci]!).l (some (cons[ci]!).r)).1
          m2 (cons[ci]!).r (some (cons[ci]!).l)).1 x = n + 1))) := by
  generalize hcons1 : cons.set! ci { cons[ci]! with active := false } = cons1 at *
  generalize hold : blk vars (cons[ci]!).l = old at *
  generalize hl0 : (cons[ci]!).l = l at *
  generalize hr0 : (cons[ci]!).r = r at *
  generalize hv1 : (populateSplit cons1 old n fuel vars m1 l (some r)).1 = vars1 at *
  generalize hv2 : (populateSplit cons1 old (n + 1) fuel vars1 m2 r (some l)).1 = vars2 at *
  have hl : l < vars.size := hl0 ▸ h.l_lt ci hci
  have hr : r < vars.size := hr0 ▸ h.r_lt ci hci
  have hbr : blk vars r = old := by
    have := (h.tight ci hci hact).1
    rw [hl0, hr0, hold] at this
    exact this.symm
  have hbridge : ¬ ReachAvoid cons ci l r := by
    have := h.bridge ci hci hact
    rwa [hl0, hr0] at this
  have holdlt : old < n := hold ▸ h.fresh l hl
  have hn1 : n ≠ old := by omega
  have hn2 : n + 1 ≠ old := by omega
  -- the constraint array after deactivating `ci`
  have hsz : cons1.size = cons.size := by rw [← hcons1]; exact set!_size _ _ _
  have hget : ∀ j : Nat, j ≠ ci → cons1[j]! = cons[j]! := by
    intro j hj
    rw [← hcons1, cons_set_get]
    split
    · rename_i hh; exact absurd hh.1.symm hj
    · rfl
  have hgetci : cons1[ci]! = { cons[ci]! with active := false } := by
    rw [← hcons1, cons_set_get]; simp [hci]
  have hdata : ∀ j : Nat, SameData (cons1[j]!) (cons[j]!) ∧ (cons1[j]!).unsat = (cons[j]!).unsat := by
    intro j
    by_cases hj : j = ci
    · subst hj; rw [hgetci]; exact ⟨⟨rfl, rfl, rfl, rfl⟩, rfl⟩
    · rw [hget j hj]; exact ⟨⟨rfl, rfl, rfl, rfl⟩, rfl⟩
  have hae : ∀ j x y, AE cons1 j x y ↔ (j ≠ ci ∧ AE cons j x y) := by
    intro j x y
    constructor
    · rintro ⟨h1, h2, h3⟩
      have hj : j ≠ ci := by
        rintro rfl
        rw [hgetci] at h2
        simp at h2
      rw [hget j hj] at h2 h3
      exact ⟨hj, by rw [hsz] at h1; exact h1, h2, h3⟩
    · rintro ⟨hj, h1, h2, h3⟩
      exact ⟨by rw [hsz]; exact h1, by rw [hget j hj]; exact h2, by rw [hget j hj]; exact h3⟩
  have hreach1 : ∀ {x y}, Reach cons1 x y → ReachAvoid cons ci x y :=
    fun hxy => reflTransGen_adj_mono (fun j a b _ hj => ⟨((hae j a b).1 hj).1, ((hae j a b).1 hj).2⟩) hxy
  have hreach1' : ∀ {x y}, Reach cons1 x y → Reach cons x y := fun hxy => (hreach1 hxy).toReach
  -- an edge of the new graph never joins l and r
  have hnolr : ∀ j, ¬ AE cons1 j l r := by
    intro j hj
    obtain ⟨hjc, hj'⟩ := (hae j l r).1 hj
    exact hbridge (ReflTransGen.single ⟨j, hjc, hj'⟩)
  have hlk : LinkOK cons1 vars :=
    ⟨fun u j hj => by
        obtain ⟨a, b⟩ := h.outs_sound u j hj
        exact ⟨by rw [hsz]; exact a, by rw [(hdata j).1.1]; exact b⟩,
     fun j hj => by rw [(hdata j).1.1]; exact h.outs_complete j (by rw [hsz] at hj; exact hj),
     fun u j hj => by
        obtain ⟨a, b⟩ := h.ins_sound u j hj
        exact ⟨by rw [hsz]; exact a, by rw [(hdata j).1.2.1]; exact b⟩,
     fun j hj => by rw [(hdata j).1.2.1]; exact h.ins_complete j (by rw [hsz] at hj; exact hj)⟩
  -- the two passes
  have s1 : PSpec cons1 old n vars vars1 l (some r) := by
    have := populateSplit_spec cons1 old n hn1 fuel vars m1 l (some r) hlk hl hold hok1
    rwa [hv1] at this
  have hr1 : blk vars1 r = old := by
    rcases s1.mono.blkc r with e | ⟨_, e⟩
    · rw [e]; exact hbr
    · exact absurd (hreach1 (s1.snd r hbr e)) hbridge
  have hlk1 : LinkOK cons1 vars1 := hlk.of_mono s1.mono
  have s2 : PSpec cons1 old (n + 1) vars1 vars2 r (some l) := by
    have := populateSplit_spec cons1 old (n + 1) hn2 fuel vars1 m2 r (some l) hlk1
      (by rw [s1.mono.size]; exact hr) hr1 hok2
    rwa [hv2] at this
  have hsize2 : vars2.size = vars.size := s2.mono.size.trans s1.mono.size
  -- in-range endpoints
  have hends : ∀ {j x y}, AE cons1 j x y → x < vars.size ∧ y < vars.size := by
    intro j x y hj
    obtain ⟨_, h1, _, h3⟩ := (hae j x y).1 hj
    rcases h3 with ⟨rfl, rfl⟩ | ⟨rfl, rfl⟩
    · exact ⟨h.l_lt j h1, h.r_lt j h1⟩
    · exact ⟨h.r_lt j h1, h.l_lt j h1⟩
  have hblk0 : ∀ {j x y}, AE cons1 j x y → blk vars x = blk vars y :=
    fun hj => h.ae_blk ((hae _ _ _).1 hj).2
  -- classification of the final block of a variable
  have hlid1 : ∀ x, x < vars.size → blk vars1 x = n → blk vars x = old := by
    intro x hx e
    rcases s1.mono.blkc x with e' | ⟨e', _⟩
    · have := h.fresh x hx
      omega
    · exact e'
  -- pass 1 is closed along edges
  have hstep1 : ∀ {j a b}, AE cons1 j a b → blk vars1 a = n → blk vars1 b = n := by
    intro j a b hj ha
    have ha0 := hlid1 a (hends hj).1 ha
    rcases s1.clos a ha0 ha j b hj with ⟨rfl, hb⟩ | hb
    · have : b = r := by simpa using hb.symm
      subst this
      exact absurd hj (hnolr j)
    · rcases s1.mono.blkc b with e | ⟨_, e⟩
      · rw [e, ← hblk0 hj, ha0] at hb
        exact absurd rfl hb
      · exact e
  have hrid2 : ∀ x, x < vars.size → blk vars2 x = n + 1 → blk vars1 x = old := by
    intro x hx e
    rcases s2.mono.blkc x with e' | ⟨e', _⟩
    · rcases s1.mono.blkc x with e'' | ⟨_, e''⟩
      · have := h.fresh x hx
        omega
      · omega
    · exact e'
  have hl1 : blk vars1 l = n := s1.root
  have hstep2 : ∀ {j a b}, AE cons1 j a b → blk vars2 a = n + 1 → blk vars2 b = n + 1 := by
    intro j a b hj ha
    have ha1 := hrid2 a (hends hj).1 ha
    have hb1 : blk vars1 b = old := by
      rcases s1.mono.blkc b with e | ⟨_, e⟩
      · rw [e, ← hblk0 hj]
        rcases s1.mono.blkc a with e2 | ⟨e2, _⟩
        · rw [← e2]; exact ha1
        · exact e2
      · have := hstep1 hj.symm e
        omega
    rcases s2.clos a ha1 ha j b hj with ⟨rfl, hb⟩ | hb
    · have : b = l := by simpa using hb.symm
      subst this
      omega
    · rcases s2.mono.blkc b with e | ⟨_, e⟩
      · rw [e] at hb
        exact absurd hb1 hb
      · exact e
  -- completeness: everything reachable from l (resp. r) is moved
  have hcomp1 : ∀ {x}, Reach cons1 l x → blk vars1 x = n := by
    intro x hx
    induction hx with
    | refl => exact hl1
    | tail _ hbc ih =>
      obtain ⟨j, _, hj⟩ := hbc
      exact hstep1 hj ih
  have hcomp2 : ∀ {x}, Reach cons1 r x → blk vars2 x = n + 1 := by
    intro x hx
    induction hx with
    | refl => exact s2.root
    | tail _ hbc ih =>
      obtain ⟨j, _, hj⟩ := hbc
      exact hstep2 hj ih
  -- old reachability splits along the removed edge
  have hdecomp : ∀ {x y}, Reach cons x y →
      Reach cons1 x y ∨ (Reach cons1 x l ∧ Reach cons1 r y) ∨ (Reach cons1 x r ∧ Reach cons1 l y) := by
    intro x y hxy
    refine reach_add_edge (R := Adj (fun _ => True) cons1) (R' := Adj (fun _ => True) cons)
      (l := l) (r := r) ?_ hxy
    intro a b ⟨j, _, hj⟩
    by_cases hjc : j = ci
    · subst hjc
      obtain ⟨_, _, h3⟩ := hj
      rw [hl0, hr0] at h3
      rcases h3 with ⟨rfl, rfl⟩ | ⟨rfl, rfl⟩
      · exact Or.inr (Or.inl ⟨rfl, rfl⟩)
      · exact Or.inr (Or.inr ⟨rfl, rfl⟩)
    · exact Or.inl ⟨j, trivial, (hae j a b).2 ⟨hjc, hj⟩⟩
  have hnoleft : ∀ x, x < vars.size → blk vars x = old → blk vars2 x = n ∨ blk vars2 x = n + 1 := by
    intro x hx hxo
    have hlx : Reach cons l x := h.conn l x hl hx (hold.trans hxo.symm)
    rcases hdecomp hlx with h1 | ⟨_, h2⟩ | ⟨h1, _⟩
    · left
      have := hcomp1 h1
      rw [s2.mono.stay_eq (by rw [this]; exact hn1), this]
    · right; exact hcomp2 h2
    · exact absurd (hreach1 h1) hbridge
  have hfinal : ∀ x, x < vars.size →
      (blk vars x ≠ old ∧ blk vars2 x = blk vars x) ∨
      (blk vars x = old ∧ (blk vars2 x = n ∨ blk vars2 x = n + 1)) := by
    intro x hx
    by_cases hxo : blk vars x = old
    · exact Or.inr ⟨hxo, hnoleft x hx hxo⟩
    · left
      have e1 := s1.mono.stay_eq hxo
      have e2 := s2.mono.stay_eq (by rw [e1]; exact hxo)
      exact ⟨hxo, e2.trans e1⟩
  exact ⟨s1.mono, s2.mono, holdlt, hfinal⟩

/-! ### the member lists built by `populateSplitBlock` -/

/-- relation between the arguments and the result of a `populateSplit` call, as far as the member list is
    concerned (no hypothesis on the graph): only block `nb` is written, and everything pushed onto the
    member list is in block `nb` afterwards -/
structure PMem (nb : Nat) (vars : Array Var) (mem : Array Nat) (vars' : Array Var) (mem' : Array Nat) : Prop where
  size : vars'.size = vars.size
  keep : ∀ x, blk vars x = nb → blk vars' x = nb
  mem : ∀ x ∈ mem', x ∈ mem ∨ blk vars' x = nb ∨ vars.size ≤ x

theorem PMem.refl (nb : Nat) (vars : Array Var) (mem : Array Nat) : PMem nb vars mem vars mem :=
  ⟨rfl, fun _ h => h, fun _ h => Or.inl h⟩

theorem PMem.trans {nb : Nat} {a b c : Array Var} {m m' m'' : Array Nat}
    (h1 : PMem nb a m b m') (h2 : PMem nb b m' c m'') : PMem nb a m c m'' := by
  refine ⟨h2.size.trans h1.size, fun x hx => h2.keep x (h1.keep x hx), ?_⟩
  intro x hx
  rcases h2.mem x hx with h | h | h
  · rcases h1.mem x h with h' | h' | h'
    · exact Or.inl h'
    · exact Or.inr (Or.inl (h2.keep x h'))
    · exact Or.inr (Or.inr h')
  · exact Or.inr (Or.inl h)
  · exact Or.inr (Or.inr (by rw [← h1.size]; exact h))

theorem populate_mem (cons : Array Con) (old nb : Nat) :
    ∀ (fuel : Nat) (vars : Array Var) (mem : Array Nat) (v : Nat) (u : Option Nat),
      PMem nb vars mem (populateSplit cons old nb fuel vars mem v u).1
        (populateSplit cons old nb fuel vars mem v u).2.1 := by
  intro fuel
  induction fuel with
  | zero => intro vars mem v u; simp only [populateSplit]; exact PMem.refl _ _ _
  | succ fuel ih =>
    intro vars mem v u
    have hfold : ∀ (far : Con → Nat) (arr : Array Nat) (x0 : Array Var × Array Nat × Bool),
        PMem nb vars mem x0.1 x0.2.1 →
        PMem nb vars mem (arr.foldl (stepF cons old nb fuel u v far) x0).1
          (arr.foldl (stepF cons old nb fuel u v far) x0).2.1 := by
      intro far arr x0 h0
      apply Array.foldl_induction
        (motive := fun _ (acc : Array Var × Array Nat × Bool) => PMem nb vars mem acc.1 acc.2.1)
      · exact h0
      · intro i acc hacc
        unfold stepF
        split
        · exact hacc.trans (ih acc.1 acc.2.1 _ _)
        · exact hacc
    have hbase : PMem nb vars mem (vars.set! v { vars[v]! with block := nb }) (mem.push v) := by
      refine ⟨by simp, ?_, ?_⟩
      · intro x hx
        unfold VpscInv.blk at hx ⊢
        rw [get!_set!]
        split
        · rfl
        · exact hx
      · intro x hx
        rcases Array.mem_push.1 hx with hx | rfl
        · exact Or.inl hx
        · by_cases hv : x < vars.size
          · right; left
            unfold VpscInv.blk
            rw [get!_set!, if_pos ⟨rfl, hv⟩]
          · right; right; omega
    have := hfold (fun c => c.r) (vars[v]!).outs _ (hfold (fun c => c.l) (vars[v]!).ins
      (vars.set! v { vars[v]! with block := nb }, mem.push v, true) hbase)
    unfold populateSplit
    exact this


/-! ### the invariants -/

def Owns (st : St) (b : Nat) : Prop := ∃ v, v < st.vars.size ∧ blkOf st v = b

def MemOK (st : St) : Prop :=
  ∀ b v, Owns st b → v ∈ (st.blocks[b]!).vars → v < st.vars.size → blkOf st v = b

def HeapIn (st : St) (h : Heap) (b : Nat) : Prop :=
  ∀ c ∈ heapElems h, c < st.cons.size ∧ blkOf st (st.cons[c]!).r = b
def HeapOut (st : St) (h : Heap) (b : Nat) : Prop :=
  ∀ c ∈ heapElems h, c < st.cons.size ∧ blkOf st (st.cons[c]!).l = b

def InOK (st : St) (hs : HS) : Prop := ∀ b h, hs.inH[b]! = some h → Owns st b → HeapIn st h b
def OutOK (st : St) (hs : HS) : Prop := ∀ b h, hs.outH[b]! = some h → Owns st b → HeapOut st h b

theorem heapElems_nil : heapElems (.nil : Heap) = [] := rfl

theorem heapIn_nil (st : St) (b : Nat) : HeapIn st .nil b := fun c hc => by simp [heapElems_nil] at hc
theorem heapOut_nil (st : St) (b : Nat) : HeapOut st .nil b := fun c hc => by simp [heapElems_nil] at hc

theorem HeapIn.sub {st : St} {h h' : Heap} {b : Nat} (hh : HeapIn st h b)
    (hs : ∀ c ∈ heapElems h', c ∈ heapElems h) : HeapIn st h' b := fun c hc => hh c (hs c hc)
theorem HeapOut.sub {st : St} {h h' : Heap} {b : Nat} (hh : HeapOut st h b)
    (hs : ∀ c ∈ heapElems h', c ∈ heapElems h) : HeapOut st h' b := fun c hc => hh c (hs c hc)

/-- the heap arrays of two `HS` agree -/
def SameH (a b : HS) : Prop := a.inH = b.inH ∧ a.outH = b.outH
theorem SameH.refl (a : HS) : SameH a a := ⟨rfl, rfl⟩
theorem SameH.trans {a b c : HS} (h1 : SameH a b) (h2 : SameH b c) : SameH a c :=
  ⟨h1.1.trans h2.1, h1.2.trans h2.2⟩

theorem noteKeys_same (st : St) (hs : HS) (cs : List Nat) : SameH (hs.noteKeys st cs) hs := ⟨rfl, rfl⟩

/-! ### `setUpConstraintHeap` -/

theorem setUp_fold (st : St) (b : Nat) (isIn : Bool) : ∀ (l : List Nat) (acc : HS × Heap),
    SameH (l.foldl (setUpStep st b isIn) acc).1 acc.1 ∧
    ∀ c ∈ heapElems (l.foldl (setUpStep st b isIn) acc).2, c ∈ heapElems acc.2 ∨ c ∈ l
  | [], acc => ⟨SameH.refl _, fun c hc => Or.inl hc⟩
  | ci :: rest, acc => by
    rw [List.foldl_cons]
    obtain ⟨h1, h2⟩ := setUp_fold st b isIn rest (setUpStep st b isIn acc ci)
    have hstep : SameH (setUpStep st b isIn acc ci).1 acc.1 ∧
        ∀ c ∈ heapElems (setUpStep st b isIn acc ci).2, c ∈ heapElems acc.2 ∨ c = ci := by
      unfold setUpStep
      cases isIn <;> simp only [Bool.false_eq_true, if_false, if_true] <;> split
      all_goals first
        | exact ⟨⟨rfl, rfl⟩, fun c hc => Or.inl hc⟩
        | (refine ⟨⟨rfl, rfl⟩, fun c hc => ?_⟩
           rcases he_insert _ _ c hc with h | h
           · exact Or.inr h
           · exact Or.inl h)
    refine ⟨h1.trans hstep.1, fun c hc => ?_⟩
    rcases h2 c hc with h | h
    · rcases hstep.2 c h with h' | h'
      · exact Or.inl h'
      · exact Or.inr (by simp [h'])
    · exact Or.inr (by simp [h])

theorem setUpHeap_spec (st : St) (hs : HS) (b : Nat) (isIn : Bool) :
    SameH (setUpHeap st hs b isIn).1 hs ∧
    ∀ c ∈ heapElems (setUpHeap st hs b isIn).2, c ∈ heapCands st b isIn := by
  unfold setUpHeap
  simp only
  obtain ⟨h1, h2⟩ := setUp_fold st b isIn (heapCands st b isIn) (hs, .nil)
  refine ⟨(noteKeys_same _ _ _).trans h1, fun c hc => ?_⟩
  rcases h2 c hc with h | h
  · simp [heapElems_nil] at h
  · exact h

theorem cands_in (st : St) {n : Nat} {ia : Array Nat} (hI : InvC st.vars st.cons n ia) (hM : MemOK st)
    (b : Nat) (hb : Owns st b) : ∀ c ∈ heapCands st b true, c < st.cons.size ∧ blkOf st (st.cons[c]!).r = b := by
  intro c hc
  simp only [heapCands, List.mem_flatten, List.mem_map, if_true] at hc
  obtain ⟨l, ⟨v, hv, rfl⟩, hcl⟩ := hc
  have hcl' : c ∈ (st.vars[v]!).ins := by simpa using hcl
  have hvlt : v < st.vars.size := by
    by_contra hge
    rw [getElem!_neg st.vars v hge, default_ins] at hcl'
    simp at hcl'
  obtain ⟨hlt, hr⟩ := hI.ins_sound v c hcl'
  rw [hr]
  exact ⟨hlt, hM b v hb (by simpa using hv) hvlt⟩

theorem cands_out (st : St) {n : Nat} {ia : Array Nat} (hI : InvC st.vars st.cons n ia) (hM : MemOK st)
    (b : Nat) (hb : Owns st b) : ∀ c ∈ heapCands st b false, c < st.cons.size ∧ blkOf st (st.cons[c]!).l = b := by
  intro c hc
  simp only [heapCands, List.mem_flatten, List.mem_map, Bool.false_eq_true, if_false] at hc
  obtain ⟨l, ⟨v, hv, rfl⟩, hcl⟩ := hc
  have hcl' : c ∈ (st.vars[v]!).outs := by simpa using hcl
  have hvlt : v < st.vars.size := by
    by_contra hge
    rw [getElem!_neg st.vars v hge, default_outs] at hcl'
    simp at hcl'
  obtain ⟨hlt, hr⟩ := hI.outs_sound v c hcl'
  rw [hr]
  exact ⟨hlt, hM b v hb (by simpa using hv) hvlt⟩

theorem get!_set!_opt (a : Array (Option Heap)) (i j : Nat) (v : Option Heap) (h : Heap)
    (hj : (a.set! i v)[j]! = some h) : (i = j ∧ v = some h) ∨ a[j]! = some h := by
  rw [get!_set!] at hj
  split at hj
  · rename_i hh; exact Or.inl ⟨hh.1, hj⟩
  · exact Or.inr hj

theorem setUpIn_ok (st : St) (hs : HS) (b : Nat) {n : Nat} {ia : Array Nat}
    (hI : InvC st.vars st.cons n ia) (hM : MemOK st) (hin : InOK st hs) (hout : OutOK st hs) :
    InOK st (setUpIn st hs b) ∧ OutOK st (setUpIn st hs b) := by
  obtain ⟨hs1, hs2⟩ := setUpHeap_spec st hs b true
  unfold setUpIn
  simp only
  constructor
  · intro b' h hb' hown
    rcases get!_set!_opt _ _ _ _ _ hb' with ⟨rfl, he⟩ | he
    · simp only [Option.some.injEq] at he
      subst he
      exact fun c hc => cands_in st hI hM _ hown c (hs2 c hc)
    · rw [hs1.1] at he; exact hin b' h he hown
  · intro b' h hb' hown
    have : (setUpHeap st hs b true).1.outH = hs.outH := hs1.2
    simp only at hb'
    rw [this] at hb'
    exact hout b' h hb' hown

theorem setUpOut_ok (st : St) (hs : HS) (b : Nat) {n : Nat} {ia : Array Nat}
    (hI : InvC st.vars st.cons n ia) (hM : MemOK st) (hin : InOK st hs) (hout : OutOK st hs) :
    InOK st (setUpOut st hs b) ∧ OutOK st (setUpOut st hs b) := by
  obtain ⟨hs1, hs2⟩ := setUpHeap_spec st hs b false
  unfold setUpOut
  simp only
  constructor
  · intro b' h hb' hown
    have : (setUpHeap st hs b false).1.inH = hs.inH := hs1.1
    simp only at hb'
    rw [this] at hb'
    exact hin b' h hb' hown
  · intro b' h hb' hown
    rcases get!_set!_opt _ _ _ _ _ hb' with ⟨rfl, he⟩ | he
    · simp only [Option.some.injEq] at he
      subst he
      exact fun c hc => cands_out st hI hM _ hown c (hs2 c hc)
    · rw [hs1.2] at he; exact hout b' h he hown

/-! ### `findMinInConstraint`, `findMinOutConstraint`, `deleteMin`, `mergeIn`, `mergeOut` -/

theorem findMinInLoop_spec (st : St) : ∀ (fuel : Nat) (hs : HS) (h : Heap) (ood : List Nat),
    SameH (findMinInLoop st fuel hs h ood).1 hs ∧
    (∀ c ∈ heapElems (findMinInLoop st fuel hs h ood).2.1, c ∈ heapElems h) ∧
    (∀ c ∈ (findMinInLoop st fuel hs h ood).2.2, c ∈ ood ∨ c ∈ heapElems h)
  | 0, hs, h, ood => ⟨⟨rfl, rfl⟩, fun c hc => by simp [findMinInLoop, heapElems_nil] at hc,
      fun c hc => by simp [findMinInLoop] at hc⟩
  | fuel + 1, hs, h, ood => by
    unfold findMinInLoop
    split
    · exact ⟨SameH.refl _, fun c hc => hc, fun c hc => Or.inl hc⟩
    · rename_i v i hv
      have hvm : v ∈ heapElems h := he_findMin h (v, i) hv
      split
      · obtain ⟨h1, h2, h3⟩ := findMinInLoop_spec st fuel { hs with nInternal := hs.nInternal + 1 }
          (deleteMin (conLt st hs) h) ood
        refine ⟨h1.trans ⟨rfl, rfl⟩, fun c hc => he_deleteMin h c (h2 c hc), fun c hc => ?_⟩
        rcases h3 c hc with h' | h'
        · exact Or.inl h'
        · exact Or.inr (he_deleteMin h c h')
      · split
        · obtain ⟨h1, h2, h3⟩ := findMinInLoop_spec st fuel { hs with nStale := hs.nStale + 1 }
            (deleteMin (conLt st hs) h) (ood ++ [v])
          refine ⟨h1.trans ⟨rfl, rfl⟩, fun c hc => he_deleteMin h c (h2 c hc), fun c hc => ?_⟩
          rcases h3 c hc with h' | h'
          · rcases List.mem_append.1 h' with h'' | h''
            · exact Or.inl h''
            · simp only [List.mem_singleton] at h''; subst h''; exact Or.inr hvm
          · exact Or.inr (he_deleteMin h c h')
        · exact ⟨SameH.refl _, fun c hc => hc, fun c hc => Or.inl hc⟩

theorem reinsert_spec (st : St) : ∀ (l : List Nat) (acc : HS × Heap),
    SameH (l.foldl (reinsertStep st) acc).1 acc.1 ∧
    ∀ c ∈ heapElems (l.foldl (reinsertStep st) acc).2, c ∈ heapElems acc.2 ∨ c ∈ l
  | [], acc => ⟨SameH.refl _, fun c hc => Or.inl hc⟩
  | v :: rest, acc => by
    rw [List.foldl_cons]
    obtain ⟨h1, h2⟩ := reinsert_spec st rest (reinsertStep st acc v)
    refine ⟨h1.trans ⟨rfl, rfl⟩, fun c hc => ?_⟩
    rcases h2 c hc with h | h
    · unfold reinsertStep at h
      rcases he_insert _ _ c h with h' | h'
      · exact Or.inr (by simp [h'])
      · exact Or.inl h'
    · exact Or.inr (by simp [h])

theorem findMinInHeap_spec (st : St) (hs : HS) (h : Heap) :
    SameH (findMinInHeap st hs h).1 hs ∧
    (∀ c ∈ heapElems (findMinInHeap st hs h).2.1, c ∈ heapElems h) ∧
    (∀ c, (findMinInHeap st hs h).2.2 = some c → c ∈ heapElems (findMinInHeap st hs h).2.1) := by
  unfold findMinInHeap
  simp only
  obtain ⟨l1, l2, l3⟩ := findMinInLoop_spec st ((heapElems h).length + 1) (hs.noteKeys st (heapElems h)) h []
  obtain ⟨r1, r2⟩ := reinsert_spec st
    (findMinInLoop st ((heapElems h).length + 1) (hs.noteKeys st (heapElems h)) h []).2.2
    ((findMinInLoop st ((heapElems h).length + 1) (hs.noteKeys st (heapElems h)) h []).1,
     (findMinInLoop st ((heapElems h).length + 1) (hs.noteKeys st (heapElems h)) h []).2.1)
  refine ⟨?_, ?_, ?_⟩
  · split
    · exact r1.trans (l1.trans (noteKeys_same _ _ _))
    · exact (noteKeys_same _ _ _).trans (r1.trans (l1.trans (noteKeys_same _ _ _)))
  · intro c hc
    rcases r2 c hc with h' | h'
    · exact l2 c h'
    · rcases l3 c h' with h'' | h''
      · cases h''
      · exact h''
  · intro c hc
    simp only [Option.map_eq_some_iff] at hc
    obtain ⟨x, hx, rfl⟩ := hc
    exact he_findMin _ x hx

theorem getIn_heapIn {st : St} {hs : HS} (hin : InOK st hs) (b : Nat) (hown : Owns st b) :
    HeapIn st (getIn hs b) b := by
  unfold getIn
  cases hb : hs.inH[b]! with
  | none => exact heapIn_nil st b
  | some h => exact hin b h hb hown

theorem getOut_heapOut {st : St} {hs : HS} (hout : OutOK st hs) (b : Nat) (hown : Owns st b) :
    HeapOut st (getOut hs b) b := by
  unfold getOut
  cases hb : hs.outH[b]! with
  | none => exact heapOut_nil st b
  | some h => exact hout b h hb hown

/-- replacing the in-heap of `b` by one whose elements end in `b` -/
theorem inOK_set {st : St} {hs hs' : HS} {b : Nat} {h' : Heap} (hin : InOK st hs)
    (he : hs'.inH = hs.inH.set! b (some h')) (hh : Owns st b → HeapIn st h' b) : InOK st hs' := by
  intro b' h hb' hown
  rw [he] at hb'
  rcases get!_set!_opt _ _ _ _ _ hb' with ⟨rfl, e⟩ | e
  · simp only [Option.some.injEq] at e; subst e; exact hh hown
  · exact hin b' h e hown

theorem outOK_set {st : St} {hs hs' : HS} {b : Nat} {h' : Heap} (hout : OutOK st hs)
    (he : hs'.outH = hs.outH.set! b (some h')) (hh : Owns st b → HeapOut st h' b) : OutOK st hs' := by
  intro b' h hb' hown
  rw [he] at hb'
  rcases get!_set!_opt _ _ _ _ _ hb' with ⟨rfl, e⟩ | e
  · simp only [Option.some.injEq] at e; subst e; exact hh hown
  · exact hout b' h e hown

theorem inOK_of_eq {st : St} {hs hs' : HS} (hin : InOK st hs) (he : hs'.inH = hs.inH) : InOK st hs' := by
  intro b h hb; rw [he] at hb; exact hin b h hb
theorem outOK_of_eq {st : St} {hs hs' : HS} (hout : OutOK st hs) (he : hs'.outH = hs.outH) : OutOK st hs' := by
  intro b h hb; rw [he] at hb; exact hout b h hb

theorem findMinIn_ok (st : St) (hs : HS) (b : Nat) (hin : InOK st hs) (hout : OutOK st hs) :
    InOK st (findMinIn st hs b).1 ∧ OutOK st (findMinIn st hs b).1 ∧
    (∀ h, (findMinIn st hs b).1.inH[b]! = some h → ∀ c ∈ heapElems h, c ∈ heapElems (getIn hs b)) ∧
    (∀ b', b' ≠ b → (findMinIn st hs b).1.inH[b']! = hs.inH[b']!) ∧
    ∀ c, (findMinIn st hs b).2 = some c → Owns st b → blkOf st (st.cons[c]!).r = b := by
  obtain ⟨s1, s2, s3⟩ := findMinInHeap_spec st hs (getIn hs b)
  unfold findMinIn
  simp only
  refine ⟨?_, ?_, ?_, ?_, ?_⟩
  · apply inOK_set hin (b := b) (h' := (findMinInHeap st hs (getIn hs b)).2.1)
    · simp only; rw [s1.1]
    · exact fun hown => (getIn_heapIn hin b hown).sub s2
  · exact outOK_of_eq hout s1.2
  · intro h hb c hc
    rw [get!_set!] at hb
    split at hb
    · simp only [Option.some.injEq] at hb; subst hb; exact s2 c hc
    · -- out of range: the heap is absent altogether
      rename_i hne
      rw [s1.1] at hb
      have : ¬ b < hs.inH.size := fun hlt => hne ⟨rfl, by rw [s1.1]; exact hlt⟩
      rw [getElem!_neg hs.inH b this] at hb
      cases hb
  · intro b' hb'
    rw [get!_set!, if_neg (fun hh => hb' hh.1.symm), s1.1]
  · intro c hc hown
    exact ((getIn_heapIn hin b hown) c (s2 c (s3 c hc))).2

theorem getIn_sub_of {hs' : HS} {b : Nat} {g : Heap}
    (h : ∀ h', hs'.inH[b]! = some h' → ∀ c ∈ heapElems h', c ∈ heapElems g) :
    ∀ c ∈ heapElems (getIn hs' b), c ∈ heapElems g := by
  unfold getIn
  cases hb : hs'.inH[b]! with
  | none => intro c hc; simp [heapElems_nil] at hc
  | some h' => exact h h' hb

theorem getOut_sub_of {hs' : HS} {b : Nat} {g : Heap}
    (h : ∀ h', hs'.outH[b]! = some h' → ∀ c ∈ heapElems h', c ∈ heapElems g) :
    ∀ c ∈ heapElems (getOut hs' b), c ∈ heapElems g := by
  unfold getOut
  cases hb : hs'.outH[b]! with
  | none => intro c hc; simp [heapElems_nil] at hc
  | some h' => exact h h' hb

theorem getIn_congr {hs hs' : HS} {b : Nat} (h : hs'.inH[b]! = hs.inH[b]!) : getIn hs' b = getIn hs b := by
  unfold getIn; rw [h]
theorem getOut_congr {hs hs' : HS} {b : Nat} (h : hs'.outH[b]! = hs.outH[b]!) : getOut hs' b = getOut hs b := by
  unfold getOut; rw [h]

theorem findMinOutLoop_spec (st : St) : ∀ (fuel : Nat) (hs : HS) (h : Heap),
    SameH (findMinOutLoop st fuel hs h).1 hs ∧
    (∀ c ∈ heapElems (findMinOutLoop st fuel hs h).2, c ∈ heapElems h)
  | 0, hs, h => ⟨⟨rfl, rfl⟩, fun c hc => by simp [findMinOutLoop, heapElems_nil] at hc⟩
  | fuel + 1, hs, h => by
    unfold findMinOutLoop
    split
    · exact ⟨SameH.refl _, fun c hc => hc⟩
    · split
      · obtain ⟨h1, h2⟩ := findMinOutLoop_spec st fuel { hs with nInternal := hs.nInternal + 1 }
          (deleteMin (conLt st hs) h)
        exact ⟨h1.trans ⟨rfl, rfl⟩, fun c hc => he_deleteMin h c (h2 c hc)⟩
      · exact ⟨SameH.refl _, fun c hc => hc⟩

theorem findMinOut_ok (st : St) (hs : HS) (b : Nat) (hin : InOK st hs) (hout : OutOK st hs) :
    InOK st (findMinOut st hs b).1 ∧ OutOK st (findMinOut st hs b).1 ∧
    (∀ h, (findMinOut st hs b).1.outH[b]! = some h → ∀ c ∈ heapElems h, c ∈ heapElems (getOut hs b)) ∧
    (∀ b', b' ≠ b → (findMinOut st hs b).1.outH[b']! = hs.outH[b']!) ∧
    ∀ c, (findMinOut st hs b).2 = some c → Owns st b → blkOf st (st.cons[c]!).l = b := by
  obtain ⟨s1, s2⟩ := findMinOutLoop_spec st ((heapElems (getOut hs b)).length + 1)
    (hs.noteKeys st (heapElems (getOut hs b))) (getOut hs b)
  have s1' : SameH (findMinOutLoop st ((heapElems (getOut hs b)).length + 1)
    (hs.noteKeys st (heapElems (getOut hs b))) (getOut hs b)).1 hs := s1.trans (noteKeys_same _ _ _)
  unfold findMinOut
  simp only
  refine ⟨?_, ?_, ?_, ?_, ?_⟩
  · exact inOK_of_eq hin s1'.1
  · apply outOK_set hout (b := b)
      (h' := (findMinOutLoop st ((heapElems (getOut hs b)).length + 1)
        (hs.noteKeys st (heapElems (getOut hs b))) (getOut hs b)).2)
    · simp only; rw [s1'.2]
    · exact fun hown => (getOut_heapOut hout b hown).sub s2
  · intro h hb c hc
    rw [get!_set!] at hb
    split at hb
    · simp only [Option.some.injEq] at hb; subst hb; exact s2 c hc
    · rename_i hne
      rw [s1'.2] at hb
      have : ¬ b < hs.outH.size := fun hlt => hne ⟨rfl, by rw [s1'.2]; exact hlt⟩
      rw [getElem!_neg hs.outH b this] at hb
      cases hb
  · intro b' hb'
    rw [get!_set!, if_neg (fun hh => hb' hh.1.symm), s1'.2]
  · intro c hc hown
    simp only [Option.map_eq_some_iff] at hc
    obtain ⟨x, hx, rfl⟩ := hc
    exact ((getOut_heapOut hout b hown) _ (s2 _ (he_findMin _ x hx))).2

theorem deleteMinIn_ok (st : St) (hs : HS) (b : Nat) (hin : InOK st hs) (hout : OutOK st hs) :
    InOK st (deleteMinIn st hs b) ∧ OutOK st (deleteMinIn st hs b) := by
  unfold deleteMinIn
  refine ⟨inOK_set hin (b := b) (h' := deleteMin (conLt st hs) (getIn hs b)) rfl
    (fun hown => (getIn_heapIn hin b hown).sub (he_deleteMin _)), outOK_of_eq hout rfl⟩

theorem deleteMinOut_ok (st : St) (hs : HS) (b : Nat) (hin : InOK st hs) (hout : OutOK st hs) :
    InOK st (deleteMinOut st hs b) ∧ OutOK st (deleteMinOut st hs b) := by
  unfold deleteMinOut
  refine ⟨inOK_of_eq hin rfl, outOK_set hout (b := b) (h' := deleteMin (conLt st hs) (getOut hs b)) rfl
    (fun hown => (getOut_heapOut hout b hown).sub (he_deleteMin _))⟩

/-- `Block::mergeIn`: the heap of `src`, whose constraints now end in `dst`, is melded into `dst`'s -/
theorem mergeIn_ok (st : St) (hs : HS) (dst src : Nat) (hne : dst ≠ src)
    (hin : InOK st hs) (hout : OutOK st hs) (hsrc : HeapIn st (getIn hs src) dst) :
    InOK st (mergeIn st hs dst src) ∧ OutOK st (mergeIn st hs dst src) := by
  obtain ⟨a1, a2, _, a4, _⟩ := findMinIn_ok st hs dst hin hout
  obtain ⟨b1, b2, b3, _, _⟩ := findMinIn_ok st (findMinIn st hs dst).1 src a1 a2
  have hsrc1 : HeapIn st (getIn (findMinIn st hs dst).1 src) dst := by
    rw [getIn_congr (a4 src (Ne.symm hne))]; exact hsrc
  have hsrc2 : HeapIn st (getIn (findMinIn st (findMinIn st hs dst).1 src).1 src) dst :=
    hsrc1.sub (getIn_sub_of b3)
  unfold mergeIn
  simp only
  generalize (findMinIn st (findMinIn st hs dst).1 src).1 = hs2 at *
  constructor
  · intro b' h hb' hown
    simp only at hb'
    rcases get!_set!_opt _ _ _ _ _ hb' with ⟨rfl, e⟩ | e
    · simp only [Option.some.injEq] at e; subst e; exact heapIn_nil st _
    · rcases get!_set!_opt _ _ _ _ _ e with ⟨rfl, e'⟩ | e'
      · simp only [Option.some.injEq] at e'
        subst e'
        intro c hc
        rcases he_merge _ _ c hc with h1 | h1
        · exact (getIn_heapIn (inOK_of_eq b1 rfl) _ hown) c h1
        · exact hsrc2 c h1
      · exact b1 b' h e' hown
  · exact outOK_of_eq b2 rfl

theorem mergeOut_ok (st : St) (hs : HS) (dst src : Nat) (hne : dst ≠ src)
    (hin : InOK st hs) (hout : OutOK st hs) (hsrc : HeapOut st (getOut hs src) dst) :
    InOK st (mergeOut st hs dst src) ∧ OutOK st (mergeOut st hs dst src) := by
  obtain ⟨a1, a2, _, a4, _⟩ := findMinOut_ok st hs dst hin hout
  obtain ⟨b1, b2, b3, _, _⟩ := findMinOut_ok st (findMinOut st hs dst).1 src a1 a2
  have hsrc1 : HeapOut st (getOut (findMinOut st hs dst).1 src) dst := by
    rw [getOut_congr (a4 src (Ne.symm hne))]; exact hsrc
  have hsrc2 : HeapOut st (getOut (findMinOut st (findMinOut st hs dst).1 src).1 src) dst :=
    hsrc1.sub (getOut_sub_of b3)
  unfold mergeOut
  simp only
  generalize (findMinOut st (findMinOut st hs dst).1 src).1 = hs2 at *
  constructor
  · exact inOK_of_eq b1 rfl
  · intro b' h hb' hown
    simp only at hb'
    rcases get!_set!_opt _ _ _ _ _ hb' with ⟨rfl, e⟩ | e
    · simp only [Option.some.injEq] at e; subst e; exact heapOut_nil st _
    · rcases get!_set!_opt _ _ _ _ _ e with ⟨rfl, e'⟩ | e'
      · simp only [Option.some.injEq] at e'
        subst e'
        intro c hc
        rcases he_merge _ _ c hc with h1 | h1
        · exact (getOut_heapOut (outOK_of_eq b2 rfl) _ hown) c h1
        · exact hsrc2 c h1
      · exact b2 b' h e' hown

/-! ### transport along `Block::merge(b, c, dist)` -/

theorem blkOf_eq_blk (st : St) (x : Nat) : blkOf st x = blk st.vars x := rfl

theorem blkOf_mergeDir (st : St) (ci dst src : Nat) (d : Rat) (x : Nat) (hx : x < st.vars.size) :
    blkOf (mergeDir st ci dst src d) x = if blkOf st x = src then dst else blkOf st x := by
  rw [blkOf_eq_blk, (mergeDir_core st ci dst src d).1, shiftVars_blk _ _ _ _ _ hx]
  rfl

theorem mergeDir_size (st : St) (ci dst src : Nat) (d : Rat) :
    (mergeDir st ci dst src d).vars.size = st.vars.size := by
  rw [(mergeDir_core st ci dst src d).1, shiftVars_size]

theorem mergeDir_cons_size (st : St) (ci dst src : Nat) (d : Rat) :
    (mergeDir st ci dst src d).cons.size = st.cons.size := by
  rw [(mergeDir_core st ci dst src d).2.1, set!_size]

theorem mergeDir_cons_lr (st : St) (ci dst src : Nat) (d : Rat) (c : Nat) :
    ((mergeDir st ci dst src d).cons[c]!).l = (st.cons[c]!).l ∧
    ((mergeDir st ci dst src d).cons[c]!).r = (st.cons[c]!).r := by
  rw [(mergeDir_core st ci dst src d).2.1, cons_set_get]
  split
  · rename_i h; rw [← h.1]; exact ⟨rfl, rfl⟩
  · exact ⟨rfl, rfl⟩

theorem owns_mergeDir {st : St} {ci dst src : Nat} {d : Rat} {b : Nat}
    (h : Owns (mergeDir st ci dst src d) b) : b = dst ∨ (Owns st b ∧ b ≠ src) := by
  obtain ⟨v, hv, hb⟩ := h
  rw [mergeDir_size] at hv
  rw [blkOf_mergeDir _ _ _ _ _ _ hv] at hb
  split at hb
  · exact Or.inl hb.symm
  · rename_i hne
    exact Or.inr ⟨⟨v, hv, hb⟩, fun hbs => hne (hb.trans hbs)⟩

theorem refresh_vars (st : St) (d b : Nat) : ((st.refreshBlock d).blocks[b]!).vars = (st.blocks[b]!).vars := by
  unfold St.refreshBlock
  simp only
  rw [get!_set!]
  split
  · rename_i h; rw [h.1]
  · rfl

theorem mergeDir_vars_ne (st : St) (ci dst src : Nat) (d : Rat) (b : Nat) (hb : b ≠ dst) :
    ((mergeDir st ci dst src d).blocks[b]!).vars = (st.blocks[b]!).vars := by
  unfold mergeDir
  rw [refresh_vars]
  simp only
  rw [get!_set!]
  split
  · rename_i h; rw [h.1]
  · rw [get!_set!, if_neg (fun hh => hb hh.1.symm)]

theorem mergeDir_vars_dst (st : St) (ci dst src : Nat) (d : Rat) (hne : dst ≠ src) :
    ∀ v ∈ ((mergeDir st ci dst src d).blocks[dst]!).vars,
      v ∈ (st.blocks[dst]!).vars ∨ v ∈ (st.blocks[src]!).vars := by
  unfold mergeDir
  rw [refresh_vars]
  simp only
  rw [get!_set!, if_neg (fun hh => hne hh.1.symm), get!_set!]
  split
  · intro v hv
    simp only [Array.mem_append] at hv
    exact hv
  · intro v hv; exact Or.inl hv

/-- hypotheses shared by the transport lemmas: `c` joins the two different owning blocks `src`, `dst` -/
structure MergeHyp (st : St) (dst src : Nat) : Prop where
  ne : dst ≠ src
  odst : Owns st dst
  osrc : Owns st src

theorem memOK_mergeDir {st : St} {ci dst src : Nat} {d : Rat} (hm : MergeHyp st dst src) (hM : MemOK st) :
    MemOK (mergeDir st ci dst src d) := by
  intro b v hown hv hvlt
  rw [mergeDir_size] at hvlt
  rw [blkOf_mergeDir _ _ _ _ _ _ hvlt]
  by_cases hb : b = dst
  · subst hb
    rcases mergeDir_vars_dst st ci b src d hm.ne v hv with h | h
    · have := hM b v hm.odst h hvlt
      rw [this, if_neg hm.ne]
    · have := hM src v hm.osrc h hvlt
      rw [this, if_pos rfl]
  · rw [mergeDir_vars_ne st ci dst src d b hb] at hv
    rcases owns_mergeDir hown with h | ⟨h1, h2⟩
    · exact absurd h hb
    · have := hM b v h1 hv hvlt
      rw [this, if_neg h2]

theorem inOK_mergeDir {st : St} {hs : HS} {ci dst src : Nat} {d : Rat} {n : Nat} {ia : Array Nat}
    (hI : InvC st.vars st.cons n ia) (hm : MergeHyp st dst src) (hin : InOK st hs) :
    InOK (mergeDir st ci dst src d) hs ∧ HeapIn (mergeDir st ci dst src d) (getIn hs src) dst := by
  have key : ∀ b h, HeapIn st h b → HeapIn (mergeDir st ci dst src d) h (if b = src then dst else b) := by
    intro b h hh c hc
    obtain ⟨hlt, hb⟩ := hh c hc
    refine ⟨by rw [mergeDir_cons_size]; exact hlt, ?_⟩
    rw [(mergeDir_cons_lr st ci dst src d c).2, blkOf_mergeDir _ _ _ _ _ _ (hI.r_lt c hlt), hb]
  constructor
  · intro b h hb hown
    rcases owns_mergeDir hown with rfl | ⟨h1, h2⟩
    · have := key b h (hin b h hb hm.odst)
      rwa [if_neg hm.ne] at this
    · have := key b h (hin b h hb h1)
      rwa [if_neg h2] at this
  · have := key src _ (getIn_heapIn hin src hm.osrc)
    rwa [if_pos rfl] at this

theorem outOK_mergeDir {st : St} {hs : HS} {ci dst src : Nat} {d : Rat} {n : Nat} {ia : Array Nat}
    (hI : InvC st.vars st.cons n ia) (hm : MergeHyp st dst src) (hout : OutOK st hs) :
    OutOK (mergeDir st ci dst src d) hs ∧ HeapOut (mergeDir st ci dst src d) (getOut hs src) dst := by
  have key : ∀ b h, HeapOut st h b → HeapOut (mergeDir st ci dst src d) h (if b = src then dst else b) := by
    intro b h hh c hc
    obtain ⟨hlt, hb⟩ := hh c hc
    refine ⟨by rw [mergeDir_cons_size]; exact hlt, ?_⟩
    rw [(mergeDir_cons_lr st ci dst src d c).1, blkOf_mergeDir _ _ _ _ _ _ (hI.l_lt c hlt), hb]
  constructor
  · intro b h hb hown
    rcases owns_mergeDir hown with rfl | ⟨h1, h2⟩
    · have := key b h (hout b h hb hm.odst)
      rwa [if_neg hm.ne] at this
    · have := key b h (hout b h hb h1)
      rwa [if_neg h2] at this
  · have := key src _ (getOut_heapOut hout src hm.osrc)
    rwa [if_pos rfl] at this

/-! ### the combined invariant and the two merge steps -/

structure WF (s : SSt) : Prop where
  ic : IC s.st
  mem : MemOK s.st
  hin : InOK s.st s.hs
  hout : OutOK s.st s.hs

/-- … unless one of the tree traversals of `Block::split` ran out of fuel -/
def SW (s : SSt) : Prop := s.st.fuelOut = true ∨ WF s

theorem SW.sj {s : SSt} (h : SW s) : SJ s.st := by
  rcases h with h | h
  · exact Or.inl h
  · exact Or.inr h.ic

theorem checkExact_same (hs : HS) (st : St) (b : Nat) : SameH (hs.checkExact st b) hs := by
  unfold HS.checkExact; split <;> exact ⟨rfl, rfl⟩

theorem mergeDir_IC (st : St) (ci dst src : Nat) (d : Rat) (h : IC st)
    (hne : blk st.vars (st.cons[ci]!).l ≠ blk st.vars (st.cons[ci]!).r)
    (hsd : (src = blk st.vars (st.cons[ci]!).l ∧ dst = blk st.vars (st.cons[ci]!).r ∧
              d = offs st.vars (st.cons[ci]!).r - offs st.vars (st.cons[ci]!).l - (st.cons[ci]!).gap) ∨
           (src = blk st.vars (st.cons[ci]!).r ∧ dst = blk st.vars (st.cons[ci]!).l ∧
              d = -(offs st.vars (st.cons[ci]!).r - offs st.vars (st.cons[ci]!).l - (st.cons[ci]!).gap))) :
    IC (mergeDir st ci dst src d) := by
  obtain ⟨hv, hc, hb, _⟩ := mergeDir_core st ci dst src d
  unfold IC
  rw [hv, hc, hb]
  have hci := ext_lt st ci hne
  have := merge_core st.vars st.cons st.blocks.size _ h ci hci hne src dst d hsd
  rw [set!_size]
  exact this

theorem mergeHyp_of (st : St) (ci dst src : Nat) (h : IC st)
    (hne : blk st.vars (st.cons[ci]!).l ≠ blk st.vars (st.cons[ci]!).r)
    (hsd : (src = blk st.vars (st.cons[ci]!).l ∧ dst = blk st.vars (st.cons[ci]!).r) ∨
           (src = blk st.vars (st.cons[ci]!).r ∧ dst = blk st.vars (st.cons[ci]!).l)) :
    MergeHyp st dst src := by
  have hci := ext_lt st ci hne
  have ol : Owns st (blk st.vars (st.cons[ci]!).l) := ⟨_, h.l_lt ci hci, rfl⟩
  have or' : Owns st (blk st.vars (st.cons[ci]!).r) := ⟨_, h.r_lt ci hci, rfl⟩
  rcases hsd with ⟨rfl, rfl⟩ | ⟨rfl, rfl⟩
  · exact ⟨fun e => hne e.symm, or', ol⟩
  · exact ⟨hne, ol, or'⟩

/-- the common tail of the bodies of `mergeLeft` / `mergeRight`: `dst->merge(src, c, d)` followed by
    `mergeIn` resp. `mergeOut` -/
theorem mergeTail (st : St) (hs : HS) (ci dst src : Nat) (d : Rat)
    (hI : IC st) (hM : MemOK st) (hin : InOK st hs) (hout : OutOK st hs)
    (hne : blk st.vars (st.cons[ci]!).l ≠ blk st.vars (st.cons[ci]!).r)
    (hsd : (src = blk st.vars (st.cons[ci]!).l ∧ dst = blk st.vars (st.cons[ci]!).r ∧
              d = offs st.vars (st.cons[ci]!).r - offs st.vars (st.cons[ci]!).l - (st.cons[ci]!).gap) ∨
           (src = blk st.vars (st.cons[ci]!).r ∧ dst = blk st.vars (st.cons[ci]!).l ∧
              d = -(offs st.vars (st.cons[ci]!).r - offs st.vars (st.cons[ci]!).l - (st.cons[ci]!).gap))) :
    IC (mergeDir st ci dst src d) ∧ MemOK (mergeDir st ci dst src d) ∧
    (∀ hs' : HS, SameH hs' hs →
      InOK (mergeDir st ci dst src d) (mergeIn (mergeDir st ci dst src d) hs' dst src) ∧
      OutOK (mergeDir st ci dst src d) (mergeIn (mergeDir st ci dst src d) hs' dst src)) ∧
    (∀ hs' : HS, SameH hs' hs →
      InOK (mergeDir st ci dst src d) (mergeOut (mergeDir st ci dst src d) hs' dst src) ∧
      OutOK (mergeDir st ci dst src d) (mergeOut (mergeDir st ci dst src d) hs' dst src)) := by
  have hm : MergeHyp st dst src := mergeHyp_of st ci dst src hI hne (by
    rcases hsd with ⟨a, b, _⟩ | ⟨a, b, _⟩
    · exact Or.inl ⟨a, b⟩
    · exact Or.inr ⟨a, b⟩)
  obtain ⟨i1, i2⟩ := inOK_mergeDir (ci := ci) (d := d) hI hm hin
  obtain ⟨o1, o2⟩ := outOK_mergeDir (ci := ci) (d := d) hI hm hout
  refine ⟨mergeDir_IC st ci dst src d hI hne hsd, memOK_mergeDir hm hM, ?_, ?_⟩
  · intro hs' hsame
    have hin' : InOK (mergeDir st ci dst src d) hs' := inOK_of_eq i1 hsame.1
    have hout' : OutOK (mergeDir st ci dst src d) hs' := outOK_of_eq o1 hsame.2
    have : getIn hs' src = getIn hs src := getIn_congr (by rw [hsame.1])
    exact mergeIn_ok _ hs' dst src hm.ne hin' hout' (by rw [this]; exact i2)
  · intro hs' hsame
    have hin' : InOK (mergeDir st ci dst src d) hs' := inOK_of_eq i1 hsame.1
    have hout' : OutOK (mergeDir st ci dst src d) hs' := outOK_of_eq o1 hsame.2
    have : getOut hs' src = getOut hs src := getOut_congr (by rw [hsame.2])
    exact mergeOut_ok _ hs' dst src hm.ne hin' hout' (by rw [this]; exact o2)

theorem mergeLeftPre_ok (s : SSt) (r c : Nat) (hw : WF s) :
    InOK s.st (mergeLeftPre s r c) ∧ OutOK s.st (mergeLeftPre s r c) := by
  obtain ⟨d1, d2⟩ := deleteMinIn_ok s.st s.hs r hw.hin hw.hout
  have hpre : InOK s.st (if ((deleteMinIn s.st s.hs r).inH[blkOf s.st (s.st.cons[c]!).l]!).isNone
        then setUpIn s.st (deleteMinIn s.st s.hs r) (blkOf s.st (s.st.cons[c]!).l) else deleteMinIn s.st s.hs r) ∧
      OutOK s.st (if ((deleteMinIn s.st s.hs r).inH[blkOf s.st (s.st.cons[c]!).l]!).isNone
        then setUpIn s.st (deleteMinIn s.st s.hs r) (blkOf s.st (s.st.cons[c]!).l) else deleteMinIn s.st s.hs r) := by
    split
    · exact setUpIn_ok s.st _ _ hw.ic hw.mem d1 d2
    · exact ⟨d1, d2⟩
  have hsame : SameH (mergeLeftPre s r c)
      (if ((deleteMinIn s.st s.hs r).inH[blkOf s.st (s.st.cons[c]!).l]!).isNone
        then setUpIn s.st (deleteMinIn s.st s.hs r) (blkOf s.st (s.st.cons[c]!).l) else deleteMinIn s.st s.hs r) :=
    ⟨by simp only [mergeLeftPre], by simp only [mergeLeftPre]⟩
  exact ⟨inOK_of_eq hpre.1 hsame.1, outOK_of_eq hpre.2 hsame.2⟩

theorem mergeRightPre_ok (s : SSt) (l c : Nat) (hw : WF s) :
    InOK s.st (mergeRightPre s l c) ∧ OutOK s.st (mergeRightPre s l c) := by
  obtain ⟨d1, d2⟩ := deleteMinOut_ok s.st s.hs l hw.hin hw.hout
  have hic : InvC s.st.vars s.st.cons s.st.blocks.size (Array.range s.st.cons.size) := hw.ic
  obtain ⟨e1, e2⟩ := setUpOut_ok s.st (deleteMinOut s.st s.hs l) (blkOf s.st (s.st.cons[c]!).r) hic hw.mem d1 d2
  have hsame : SameH (mergeRightPre s l c)
      (setUpOut s.st (deleteMinOut s.st s.hs l) (blkOf s.st (s.st.cons[c]!).r)) :=
    ⟨by simp only [mergeRightPre], by simp only [mergeRightPre]⟩
  exact ⟨inOK_of_eq e1 hsame.1, outOK_of_eq e2 hsame.2⟩

theorem mergeLeftStep_WF (s : SSt) (r c : Nat) (hw : WF s) (hint : internal s.st c = false)
    (hr : blkOf s.st (s.st.cons[c]!).r = r) : WF (mergeLeftStep s r c).1 := by
  have hne := internal_false s.st c hint
  obtain ⟨p1, p2⟩ := mergeLeftPre_ok s r c hw
  have hsd :
      ((if blockSize s.st r < blockSize s.st (blkOf s.st (s.st.cons[c]!).l) then r else blkOf s.st (s.st.cons[c]!).l)
          = blk s.st.vars (s.st.cons[c]!).l ∧
        (if blockSize s.st r < blockSize s.st (blkOf s.st (s.st.cons[c]!).l) then blkOf s.st (s.st.cons[c]!).l else r)
          = blk s.st.vars (s.st.cons[c]!).r ∧
        (if blockSize s.st r < blockSize s.st (blkOf s.st (s.st.cons[c]!).l) then
            -((s.st.vars[(s.st.cons[c]!).r]!).offset - (s.st.vars[(s.st.cons[c]!).l]!).offset - (s.st.cons[c]!).gap)
          else (s.st.vars[(s.st.cons[c]!).r]!).offset - (s.st.vars[(s.st.cons[c]!).l]!).offset - (s.st.cons[c]!).gap)
          = offs s.st.vars (s.st.cons[c]!).r - offs s.st.vars (s.st.cons[c]!).l - (s.st.cons[c]!).gap) ∨
      ((if blockSize s.st r < blockSize s.st (blkOf s.st (s.st.cons[c]!).l) then r else blkOf s.st (s.st.cons[c]!).l)
          = blk s.st.vars (s.st.cons[c]!).r ∧
        (if blockSize s.st r < blockSize s.st (blkOf s.st (s.st.cons[c]!).l) then blkOf s.st (s.st.cons[c]!).l else r)
          = blk s.st.vars (s.st.cons[c]!).l ∧
        (if blockSize s.st r < blockSize s.st (blkOf s.st (s.st.cons[c]!).l) then
            -((s.st.vars[(s.st.cons[c]!).r]!).offset - (s.st.vars[(s.st.cons[c]!).l]!).offset - (s.st.cons[c]!).gap)
          else (s.st.vars[(s.st.cons[c]!).r]!).offset - (s.st.vars[(s.st.cons[c]!).l]!).offset - (s.st.cons[c]!).gap)
          = -(offs s.st.vars (s.st.cons[c]!).r - offs s.st.vars (s.st.cons[c]!).l - (s.st.cons[c]!).gap)) := by
    split
    · exact Or.inr ⟨hr.symm, rfl, rfl⟩
    · exact Or.inl ⟨rfl, hr.symm, rfl⟩
  obtain ⟨t1, t2, t3, _⟩ := mergeTail s.st (mergeLeftPre s r c) c _ _ _ hw.ic hw.mem p1 p2 hne hsd
  obtain ⟨u1, u2⟩ := t3 ((mergeLeftPre s r c).checkExact _ _) (checkExact_same _ _ _)
  have hsame : SameH (mergeLeftStep s r c).1.hs
      (mergeIn (mergeLeftStep s r c).1.st ((mergeLeftPre s r c).checkExact (mergeLeftStep s r c).1.st
        (if blockSize s.st r < blockSize s.st (blkOf s.st (s.st.cons[c]!).l) then blkOf s.st (s.st.cons[c]!).l else r))
        (if blockSize s.st r < blockSize s.st (blkOf s.st (s.st.cons[c]!).l) then blkOf s.st (s.st.cons[c]!).l else r)
        (if blockSize s.st r < blockSize s.st (blkOf s.st (s.st.cons[c]!).l) then r else blkOf s.st (s.st.cons[c]!).l)) :=
    ⟨by simp only [mergeLeftStep], by simp only [mergeLeftStep]⟩
  rw [mergeLeftStep_st] at hsame
  refine ⟨?_, ?_, ?_, ?_⟩
  · rw [mergeLeftStep_st]; exact t1
  · rw [mergeLeftStep_st]; exact t2
  · rw [mergeLeftStep_st]; exact inOK_of_eq u1 hsame.1
  · rw [mergeLeftStep_st]; exact outOK_of_eq u2 hsame.2

theorem mergeRightStep_WF (s : SSt) (l c : Nat) (hw : WF s) (hint : internal s.st c = false)
    (hl : blkOf s.st (s.st.cons[c]!).l = l) : WF (mergeRightStep s l c).1 := by
  have hne := internal_false s.st c hint
  obtain ⟨p1, p2⟩ := mergeRightPre_ok s l c hw
  have hsd :
      ((if blockSize s.st l > blockSize s.st (blkOf s.st (s.st.cons[c]!).r) then l else blkOf s.st (s.st.cons[c]!).r)
          = blk s.st.vars (s.st.cons[c]!).l ∧
        (if blockSize s.st l > blockSize s.st (blkOf s.st (s.st.cons[c]!).r) then blkOf s.st (s.st.cons[c]!).r else l)
          = blk s.st.vars (s.st.cons[c]!).r ∧
        (if blockSize s.st l > blockSize s.st (blkOf s.st (s.st.cons[c]!).r) then
            -((s.st.vars[(s.st.cons[c]!).l]!).offset + (s.st.cons[c]!).gap - (s.st.vars[(s.st.cons[c]!).r]!).offset)
          else (s.st.vars[(s.st.cons[c]!).l]!).offset + (s.st.cons[c]!).gap - (s.st.vars[(s.st.cons[c]!).r]!).offset)
          = offs s.st.vars (s.st.cons[c]!).r - offs s.st.vars (s.st.cons[c]!).l - (s.st.cons[c]!).gap) ∨
      ((if blockSize s.st l > blockSize s.st (blkOf s.st (s.st.cons[c]!).r) then l else blkOf s.st (s.st.cons[c]!).r)
          = blk s.st.vars (s.st.cons[c]!).r ∧
        (if blockSize s.st l > blockSize s.st (blkOf s.st (s.st.cons[c]!).r) then blkOf s.st (s.st.cons[c]!).r else l)
          = blk s.st.vars (s.st.cons[c]!).l ∧
        (if blockSize s.st l > blockSize s.st (blkOf s.st (s.st.cons[c]!).r) then
            -((s.st.vars[(s.st.cons[c]!).l]!).offset + (s.st.cons[c]!).gap - (s.st.vars[(s.st.cons[c]!).r]!).offset)
          else (s.st.vars[(s.st.cons[c]!).l]!).offset + (s.st.cons[c]!).gap - (s.st.vars[(s.st.cons[c]!).r]!).offset)
          = -(offs s.st.vars (s.st.cons[c]!).r - offs s.st.vars (s.st.cons[c]!).l - (s.st.cons[c]!).gap)) := by
    split
    · refine Or.inl ⟨hl.symm, rfl, ?_⟩
      simp only [offs]; grind
    · refine Or.inr ⟨rfl, hl.symm, ?_⟩
      simp only [offs]; grind
  obtain ⟨t1, t2, _, t4⟩ := mergeTail s.st (mergeRightPre s l c) c _ _ _ hw.ic hw.mem p1 p2 hne hsd
  obtain ⟨u1, u2⟩ := t4 ((mergeRightPre s l c).checkExact _ _) (checkExact_same _ _ _)
  have hsame : SameH (mergeRightStep s l c).1.hs
      (mergeOut (mergeRightStep s l c).1.st ((mergeRightPre s l c).checkExact (mergeRightStep s l c).1.st
        (if blockSize s.st l > blockSize s.st (blkOf s.st (s.st.cons[c]!).r) then blkOf s.st (s.st.cons[c]!).r else l))
        (if blockSize s.st l > blockSize s.st (blkOf s.st (s.st.cons[c]!).r) then blkOf s.st (s.st.cons[c]!).r else l)
        (if blockSize s.st l > blockSize s.st (blkOf s.st (s.st.cons[c]!).r) then l else blkOf s.st (s.st.cons[c]!).r)) :=
    ⟨by simp only [mergeRightStep], by simp only [mergeRightStep]⟩
  rw [mergeRightStep_st] at hsame
  refine ⟨?_, ?_, ?_, ?_⟩
  · rw [mergeRightStep_st]; exact t1
  · rw [mergeRightStep_st]; exact t2
  · rw [mergeRightStep_st]; exact inOK_of_eq u1 hsame.1
  · rw [mergeRightStep_st]; exact outOK_of_eq u2 hsame.2

/-! ### `Block::split` -/

theorem inOK_congr {st st' : St} {hs : HS} (hv : st'.vars = st.vars) (hc : st'.cons = st.cons)
    (h : InOK st hs) : InOK st' hs := by
  unfold InOK Owns HeapIn blkOf at *
  rw [hv, hc]; exact h

theorem outOK_congr {st st' : St} {hs : HS} (hv : st'.vars = st.vars) (hc : st'.cons = st.cons)
    (h : OutOK st hs) : OutOK st' hs := by
  unfold OutOK Owns HeapOut blkOf at *
  rw [hv, hc]; exact h

theorem memOK_congr {st st' : St} (hv : st'.vars = st.vars)
    (hb : ∀ b : Nat, (st'.blocks[b]!).vars = (st.blocks[b]!).vars) (h : MemOK st) : MemOK st' := by
  unfold MemOK Owns blkOf at *
  rw [hv]
  intro b v ho hm
  rw [hb] at hm
  exact h b v ho hm

theorem owns_congr {st st' : St} (hv : st'.vars = st.vars) {b : Nat} (h : Owns st b) : Owns st' b := by
  unfold Owns blkOf at *
  rw [hv]; exact h

theorem get!_push {α} [Inhabited α] (xs : Array α) (x : α) (j : Nat) :
    (xs.push x)[j]! = if j < xs.size then xs[j]! else if j = xs.size then x else default := by
  by_cases hj : j < xs.size
  · rw [if_pos hj, get!_push_lt _ _ _ hj]
  · rw [if_neg hj]
    by_cases he : j = xs.size
    · rw [if_pos he, he, get!_push_eq]
    · rw [if_neg he, getElem!_neg]
      simp; omega

theorem set_none_some (X : Array (Option Heap)) (i b : Nat) (h : Heap)
    (hb : (X.set! i none)[b]! = some h) : b ≠ i ∧ X[b]! = some h := by
  rw [get!_set!] at hb
  split at hb
  · cases hb
  · rename_i hne
    refine ⟨fun e => ?_, hb⟩
    subst e
    by_cases hlt : b < X.size
    · exact hne ⟨rfl, hlt⟩
    · rw [getElem!_neg X b hlt] at hb; cases hb

theorem push2_some (a : Array (Option Heap)) (b : Nat) (h : Heap)
    (hb : ((a.push none).push none)[b]! = some h) : a[b]! = some h := by
  rw [get!_push] at hb
  split at hb
  · rw [get!_push] at hb
    split at hb
    · exact hb
    · split at hb <;> cases hb
  · split at hb <;> cases hb

theorem newBlocks_in (hs : HS) (lid rid b : Nat) (h : Heap)
    (hb : (hs.newBlocks lid rid).inH[b]! = some h) : b ≠ lid ∧ b ≠ rid ∧ hs.inH[b]! = some h := by
  unfold HS.newBlocks at hb
  simp only at hb
  obtain ⟨h1, hb1⟩ := set_none_some _ _ _ _ hb
  obtain ⟨h2, hb2⟩ := set_none_some _ _ _ _ hb1
  exact ⟨h2, h1, push2_some _ _ _ hb2⟩

theorem newBlocks_out (hs : HS) (lid rid b : Nat) (h : Heap)
    (hb : (hs.newBlocks lid rid).outH[b]! = some h) : b ≠ lid ∧ b ≠ rid ∧ hs.outH[b]! = some h := by
  unfold HS.newBlocks at hb
  simp only at hb
  obtain ⟨h1, hb1⟩ := set_none_some _ _ _ _ hb
  obtain ⟨h2, hb2⟩ := set_none_some _ _ _ _ hb1
  exact ⟨h2, h1, push2_some _ _ _ hb2⟩

theorem push2_get {α} [Inhabited α] (xs : Array α) (A B : α) (b : Nat) :
    ((xs.push A).push B)[b]! =
      if b < xs.size then xs[b]! else if b = xs.size then A else if b = xs.size + 1 then B else default := by
  rw [get!_push, get!_push]
  simp only [Array.size_push]
  by_cases h1 : b < xs.size
  · rw [if_pos (by omega), if_pos h1, if_pos h1]
  · by_cases h2 : b = xs.size
    · rw [if_pos (by omega), if_neg h1, if_pos h2, if_neg h1, if_pos h2]
    · by_cases h3 : b = xs.size + 1
      · rw [if_neg (by omega), if_pos h3, if_neg h1, if_neg h2]
      · rw [if_neg (by omega), if_neg h3, if_neg h1, if_neg h2]

/-- `St.split` in terms of the two passes -/
theorem split_vars (st : St) (old ci : Nat) :
    (st.split old ci).1.vars =
      (populateSplit (st.cons.set! ci { st.cons[ci]! with active := false }) old (st.blocks.size + 1) (st.vars.size + 1)
        (populateSplit (st.cons.set! ci { st.cons[ci]! with active := false }) old st.blocks.size (st.vars.size + 1)
          st.vars #[] (st.cons[ci]!).l (some (st.cons[ci]!).r)).1
        #[] (st.cons[ci]!).r (some (st.cons[ci]!).l)).1 := by
  unfold St.split
  simp [St.refreshBlock]

theorem split_cons (st : St) (old ci : Nat) :
    (st.split old ci).1.cons = st.cons.set! ci { st.cons[ci]! with active := false } := by
  unfold St.split
  simp [St.refreshBlock]

theorem split_ids (st : St) (old ci : Nat) :
    (st.split old ci).2.1 = st.blocks.size ∧ (st.split old ci).2.2 = st.blocks.size + 1 := ⟨rfl, rfl⟩

theorem split_block_vars (st : St) (old ci : Nat) (b : Nat) :
    ((st.split old ci).1.blocks[b]!).vars =
      if b < st.blocks.size then (st.blocks[b]!).vars
      else if b = st.blocks.size then
        (populateSplit (st.cons.set! ci { st.cons[ci]! with active := false }) old st.blocks.size (st.vars.size + 1)
          st.vars #[] (st.cons[ci]!).l (some (st.cons[ci]!).r)).2.1
      else if b = st.blocks.size + 1 then
        (populateSplit (st.cons.set! ci { st.cons[ci]! with active := false }) old (st.blocks.size + 1) (st.vars.size + 1)
          (populateSplit (st.cons.set! ci { st.cons[ci]! with active := false }) old st.blocks.size (st.vars.size + 1)
            st.vars #[] (st.cons[ci]!).l (some (st.cons[ci]!).r)).1
          #[] (st.cons[ci]!).r (some (st.cons[ci]!).l)).2.1
      else (default : Block).vars := by
  unfold St.split
  simp only
  rw [refresh_vars, refresh_vars]
  simp only
  rw [push2_get]
  by_cases h1 : b < st.blocks.size
  · rw [if_pos h1, if_pos h1]
  · by_cases h2 : b = st.blocks.size
    · rw [if_neg h1, if_pos h2, if_neg h1, if_pos h2]
    · by_cases h3 : b = st.blocks.size + 1
      · rw [if_neg h1, if_neg h2, if_pos h3, if_neg h1, if_neg h2, if_pos h3]
      · rw [if_neg h1, if_neg h2, if_neg h3, if_neg h1, if_neg h2, if_neg h3]

theorem default_block_vars : (default : Block).vars = #[] := rfl

theorem cons_deact_lr (cons : Array Con) (ci c : Nat) :
    ((cons.set! ci { cons[ci]! with active := false })[c]!).l = (cons[c]!).l ∧
    ((cons.set! ci { cons[ci]! with active := false })[c]!).r = (cons[c]!).r := by
  rw [cons_set_get]
  split
  · rename_i h; rw [← h.1]; exact ⟨rfl, rfl⟩
  · exact ⟨rfl, rfl⟩

/-- **`Block::split` keeps member lists and heap contents sound**; the two new blocks own the two ends of
    the removed constraint -/
theorem split_WF (st : St) (hs : HS) (ci : Nat) (hI : IC st) (hM : MemOK st) (hin : InOK st hs)
    (hout : OutOK st hs) (hact : (st.cons[ci]!).active = true)
    (hfo : (st.split (blk st.vars (st.cons[ci]!).l) ci).1.fuelOut = false) :
    IC (st.split (blk st.vars (st.cons[ci]!).l) ci).1 ∧
    MemOK (st.split (blk st.vars (st.cons[ci]!).l) ci).1 ∧
    InOK (st.split (blk st.vars (st.cons[ci]!).l) ci).1 (hs.newBlocks st.blocks.size (st.blocks.size + 1)) ∧
    OutOK (st.split (blk st.vars (st.cons[ci]!).l) ci).1 (hs.newBlocks st.blocks.size (st.blocks.size + 1)) ∧
    Owns (st.split (blk st.vars (st.cons[ci]!).l) ci).1 st.blocks.size ∧
    (st.split (blk st.vars (st.cons[ci]!).l) ci).1.vars.size = st.vars.size := by
  have hci := active_lt _ _ hact
  have hIC' : IC (st.split (blk st.vars (st.cons[ci]!).l) ci).1 :=
    InvC.toRange (split_ia st ci _ hI hci hact hfo)
  -- fuel flags of the two passes
  have hfo' := hfo
  unfold St.split at hfo'
  simp only [St.refreshBlock] at hfo'
  simp only [Bool.or_eq_false_iff, Bool.not_eq_false'] at hfo'
  obtain ⟨⟨_, hok1⟩, hok2⟩ := hfo'
  obtain ⟨m1, m2, holdlt, hfinal⟩ := split_classify st.vars st.cons st.blocks.size _ hI ci hci hact
    (st.vars.size + 1) #[] #[] hok1 hok2
  obtain ⟨_, hroot1, _⟩ := split_core st.vars st.cons st.blocks.size _ hI ci hci hact
    (st.vars.size + 1) #[] #[] hok1 hok2
  have pm1 := populate_mem (st.cons.set! ci { st.cons[ci]! with active := false }) (blk st.vars (st.cons[ci]!).l)
    st.blocks.size (st.vars.size + 1) st.vars #[] (st.cons[ci]!).l (some (st.cons[ci]!).r)
  have pm2 := populate_mem (st.cons.set! ci { st.cons[ci]! with active := false }) (blk st.vars (st.cons[ci]!).l)
    (st.blocks.size + 1) (st.vars.size + 1)
    (populateSplit (st.cons.set! ci { st.cons[ci]! with active := false }) (blk st.vars (st.cons[ci]!).l)
      st.blocks.size (st.vars.size + 1) st.vars #[] (st.cons[ci]!).l (some (st.cons[ci]!).r)).1
    #[] (st.cons[ci]!).r (some (st.cons[ci]!).l)
  have hvars := split_vars st (blk st.vars (st.cons[ci]!).l) ci
  have hcons := split_cons st (blk st.vars (st.cons[ci]!).l) ci
  have hsize : (st.split (blk st.vars (st.cons[ci]!).l) ci).1.vars.size = st.vars.size := by
    rw [hvars]; exact m2.size.trans m1.size
  -- an owner after the split that is not one of the new blocks owned before, and is not the split block
  have hown_back : ∀ b, Owns (st.split (blk st.vars (st.cons[ci]!).l) ci).1 b → b ≠ st.blocks.size →
      b ≠ st.blocks.size + 1 → Owns st b ∧ b ≠ blk st.vars (st.cons[ci]!).l := by
    intro b ⟨w, hw, hwb⟩ h1 h2
    rw [hsize] at hw
    rw [blkOf_eq_blk, hvars] at hwb
    rcases hfinal w hw with ⟨a1, a2⟩ | ⟨_, a2 | a2⟩
    · rw [a2] at hwb
      exact ⟨⟨w, hw, hwb⟩, fun e => a1 (hwb.trans e)⟩
    · exact absurd (a2.symm.trans hwb).symm h1
    · exact absurd (a2.symm.trans hwb).symm h2
  -- variables of a surviving block keep it
  have hstay : ∀ x, x < st.vars.size → blk st.vars x ≠ blk st.vars (st.cons[ci]!).l →
      blkOf (st.split (blk st.vars (st.cons[ci]!).l) ci).1 x = blk st.vars x := by
    intro x hx hne
    rw [blkOf_eq_blk, hvars]
    rcases hfinal x hx with ⟨_, a2⟩ | ⟨a1, _⟩
    · exact a2
    · exact absurd a1 hne
  refine ⟨hIC', ?_, ?_, ?_, ?_, hsize⟩
  · -- member lists
    intro b v hown hv hvlt
    rw [hsize] at hvlt
    rw [split_block_vars] at hv
    by_cases h1 : b < st.blocks.size
    · rw [if_pos h1] at hv
      obtain ⟨ho, hne⟩ := hown_back b hown (by omega) (by omega)
      have hb := hM b v ho hv hvlt
      rw [hstay v hvlt (by rw [← blkOf_eq_blk, hb]; exact hne)]
      exact hb
    · rw [if_neg h1] at hv
      by_cases h2 : b = st.blocks.size
      · rw [if_pos h2] at hv
        rcases pm1.mem v hv with h | h | h
        · simp at h
        · rw [blkOf_eq_blk, hvars]
          rcases m2.blkc v with e | ⟨e, _⟩
          · rw [e, h, h2]
          · rw [h] at e; omega
        · omega
      · rw [if_neg h2] at hv
        by_cases h3 : b = st.blocks.size + 1
        · rw [if_pos h3] at hv
          rcases pm2.mem v hv with h | h | h
          · simp at h
          · rw [blkOf_eq_blk, hvars, h, h3]
          · rw [m1.size] at h; omega
        · rw [if_neg h3, default_block_vars] at hv
          simp at hv
  · -- in-heaps
    intro b h hb hown
    obtain ⟨b1, b2, hb'⟩ := newBlocks_in hs _ _ b h hb
    obtain ⟨ho, hne⟩ := hown_back b hown b1 b2
    intro c hc
    obtain ⟨hlt, hr⟩ := hin b h hb' ho c hc
    refine ⟨by rw [hcons, set!_size]; exact hlt, ?_⟩
    rw [hcons, (cons_deact_lr st.cons ci c).2, hstay _ (hI.r_lt c hlt) (by rw [← blkOf_eq_blk, hr]; exact hne)]
    exact hr
  · -- out-heaps
    intro b h hb hown
    obtain ⟨b1, b2, hb'⟩ := newBlocks_out hs _ _ b h hb
    obtain ⟨ho, hne⟩ := hown_back b hown b1 b2
    intro c hc
    obtain ⟨hlt, hl⟩ := hout b h hb' ho c hc
    refine ⟨by rw [hcons, set!_size]; exact hlt, ?_⟩
    rw [hcons, (cons_deact_lr st.cons ci c).1, hstay _ (hI.l_lt c hlt) (by rw [← blkOf_eq_blk, hl]; exact hne)]
    exact hl
  · refine ⟨(st.cons[ci]!).l, by rw [hsize]; exact hI.l_lt ci hci, ?_⟩
    rw [blkOf_eq_blk, hvars]
    exact hroot1 _ Relation.ReflTransGen.refl

end AdaptaVerif.Lemmas.VpscStaticMem
