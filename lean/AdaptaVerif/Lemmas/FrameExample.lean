/-
C20: a concrete VPSC instance used by the non-vacuity examples of Props/C20.lean
(two variables wanting to sit at 0, constraint x0 + 2 ≤ x1: the optimum is (-1, 1)).
-/
import AdaptaVerif.Model.Frame
import Mathlib.Tactic.Linarith
import Mathlib.Tactic.NormNum
import Mathlib.Algebra.Order.Field.Rat
namespace AdaptaVerif.Lemmas.FrameExample
open AdaptaVerif.Model.Frame

def exP : VProblem := { n := 2, desired := fun _ => 0, weight := fun _ => 1, cons := [⟨0, 1, 2⟩] }
def exX : Nat → Rat := fun i => if i = 0 then -1 else 1

theorem exP_wf : exP.WF := by
  refine ⟨fun i _ => by simp [exP], ?_⟩
  intro c hc
  simp only [exP, List.mem_singleton] at hc
  subst hc; exact ⟨by decide, by decide⟩

theorem exX_optimum : exP.IsOptimum exX := by
  refine ⟨?_, ?_⟩
  · intro c hc
    simp only [exP, List.mem_singleton] at hc
    subst hc
    simp only [VCon.Holds, exX]; norm_num
  · intro y hy
    have h : y 0 + 2 ≤ y 1 := hy ⟨0, 1, 2⟩ (by simp [exP])
    simp only [VProblem.cost, exP, sumTo, exX]
    norm_num
    nlinarith [sq_nonneg (y 0 + y 1), sq_nonneg (y 1 - y 0 - 2)]

end AdaptaVerif.Lemmas.FrameExample
