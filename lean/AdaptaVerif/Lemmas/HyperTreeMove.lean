/-
The junction-move rewrite of the hyperedge improver (`moveJunctionAlongCommonEdge` and its loops in
`Model/HyperTree`) keeps the heap a well-formed tree (`Lemmas/HyperTree.Tree`).
-/
import AdaptaVerif.Lemmas.HyperTree
namespace AdaptaVerif.Lemmas.HyperTreeMove
open AdaptaVerif.Model.HyperTree AdaptaVerif.Check.Tree AdaptaVerif.Spec.Tree
open AdaptaVerif.Lemmas.HyperTreeGraph AdaptaVerif.Lemmas.HyperTree AdaptaVerif.Lemmas.Tree

/-! ## helpers -/

theorem _root_.AdaptaVerif.Lemmas.HyperTree.NodeKept.trans {a b c : HNode} (h1 : NodeKept a b) (h2 : NodeKept b c) : NodeKept a c :=
  ⟨h2.id.trans h1.id, h2.junction.trans h1.junction, h2.point.trans h1.point,
   h2.finalVertex.trans h1.finalVertex, h2.isConnectorSource.trans h1.isConnectorSource,
   h2.isPinDummyEndpoint.trans h1.isPinDummyEndpoint⟩

theorem _root_.AdaptaVerif.Lemmas.HyperTree.EdgeKept.trans {a b c : HEdge} (h1 : EdgeKept a b) (h2 : EdgeKept b c) : EdgeKept a c :=
  ⟨h2.id.trans h1.id, h2.conn.trans h1.conn, h2.hasFixedRoute.trans h1.hasFixedRoute⟩

/-- an edge listed at `sn`, followed from `sn`, joins `sn` and where it leads -/
theorem joins_of_followFrom {t : HTree} (h : WF t) {sn : HNode} (hsn : sn ∈ t.nodes) {ed : HEdge}
    (hed : ed ∈ t.edges) (hin : ed.id ∈ sn.edges) {o : Nat} (hf : ed.followFrom sn.id = some o) :
    Joins ed sn.id o := by
  have hor := (h.mem_edges_iff hsn hed).mp hin
  unfold HEdge.followFrom at hf
  by_cases h1 : ed.e1 = some sn.id
  · rw [if_pos h1] at hf
    exact Or.inl ⟨h1, hf⟩
  · rw [if_neg h1] at hf
    rcases hor with h' | h'
    · exact absurd h' h1
    · exact Or.inr ⟨hf, h'⟩

section split
variable {t : HTree} {ed : HEdge} {source target : Nat} {p : AdaptaVerif.Model.Geometry.Pt}

theorem splitResult_node_mem {n : HNode} (hn : n ∈ t.nodes) (hne : n.id ≠ target) :
    n ∈ (splitResult t ed source target p).nodes := by
  refine List.mem_append_left _ (List.mem_map.mpr ⟨n, hn, ?_⟩)
  have : (n.id == target) = false := by simpa using hne
  simp [this]

theorem splitResult_edge_mem {x : HEdge} (hx : x ∈ t.edges) (hne : x.id ≠ ed.id) :
    x ∈ (splitResult t ed source target p).edges := by
  refine List.mem_append_left _ (List.mem_map.mpr ⟨x, hx, ?_⟩)
  have : (x.id == ed.id) = false := by simpa using hne
  simp [this]

theorem splitResult_junctionsOf :
    (splitResult t ed source target p).junctionsOf = t.junctionsOf := by
  simp only [HTree.junctionsOf, splitResult, List.filterMap_append, List.filterMap_map,
    List.filterMap_cons, List.filterMap_nil, splitNode, List.append_nil]
  apply filterMap_congr'
  intro n _
  simp only [Function.comp]
  split <;> rfl

theorem splitResult_kept {n : HNode} (hn : n ∈ t.nodes) :
    ∃ n' ∈ (splitResult t ed source target p).nodes, NodeKept n n' := by
  refine ⟨_, List.mem_append_left _ (List.mem_map.mpr ⟨n, hn, rfl⟩), ?_⟩
  split
  · exact ⟨rfl, rfl, rfl, rfl, rfl, rfl⟩
  · exact NodeKept.refl n

end split

/-! ## junction-carrying nodes -/

/-- node `i` is live and carries junction `j` -/
def JPairs (t : HTree) (j i : Nat) : Prop := ∃ n ∈ t.nodes, n.id = i ∧ n.junction = some j

/-- same junction-carrying nodes -/
def JSame (t t' : HTree) : Prop := ∀ j i, JPairs t j i ↔ JPairs t' j i

theorem JSame.refl (t : HTree) : JSame t t := fun _ _ => Iff.rfl
theorem JSame.trans {a b c : HTree} (h1 : JSame a b) (h2 : JSame b c) : JSame a c :=
  fun j i => (h1 j i).trans (h2 j i)

/-- the far end of edge `i`, seen from `self`, is a live node without junction -/
def FarNone (t : HTree) (self i : Nat) : Prop :=
  ∃ x ∈ t.edges, x.id = i ∧ ∃ o, x.followFrom self = some o ∧ ∃ on ∈ t.nodes, on.id = o ∧ on.junction = none

/-! ## M1: the scan of the other edges -/

/-- what a later state of the scan keeps from an earlier one; `S` = ids of the edges that may have
    been split in between -/
structure HeapLe (curr : Nat) (S : List Nat) (t t' : HTree) : Prop where
  keepE : ∀ x ∈ t.edges, (x.id = curr ∨ x.id ∉ S) → x ∈ t'.edges
  graphV : ∀ v ∈ t.graphV, v ∈ t'.graphV
  next : t.next ≤ t'.next
  junctionsOf : t'.junctionsOf = t.junctionsOf
  kept : ∀ n ∈ t.nodes, ∃ n' ∈ t'.nodes, NodeKept n n'
  jsame : JSame t t'

theorem HeapLe.refl (curr : Nat) (S : List Nat) (t : HTree) : HeapLe curr S t t :=
  ⟨fun _ hx _ => hx, fun _ hv => hv, Nat.le_refl _, rfl, fun n hn => ⟨n, hn, NodeKept.refl n⟩,
   JSame.refl t⟩

theorem HeapLe.cons {curr e2 : Nat} {rest : List Nat} {a b c : HTree} (h1 : HeapLe curr [e2] a b)
    (h2 : HeapLe curr rest b c) : HeapLe curr (e2 :: rest) a c := by
  refine ⟨?_, fun v hv => h2.graphV v (h1.graphV v hv), Nat.le_trans h1.next h2.next,
    h2.junctionsOf.trans h1.junctionsOf, ?_, h1.jsame.trans h2.jsame⟩
  · intro x hx hor
    refine h2.keepE x (h1.keepE x hx ?_) ?_
    · rcases hor with hh | hh
      · exact Or.inl hh
      · exact Or.inr (fun hm => hh (by simp at hm; simp [hm]))
    · rcases hor with hh | hh
      · exact Or.inl hh
      · exact Or.inr (fun hm => hh (List.mem_cons_of_mem _ hm))
  · intro n hn
    obtain ⟨n1, hn1, k1⟩ := h1.kept n hn
    obtain ⟨n2, hn2, k2⟩ := h2.kept n1 hn1
    exact ⟨n2, hn2, k1.trans k2⟩

theorem HeapLe.farNone {curr : Nat} {S : List Nat} {t t' : HTree} (h : HeapLe curr S t t')
    {self i : Nat} (hi : i ∉ S) (hf : FarNone t self i) : FarNone t' self i := by
  obtain ⟨x, hx, hxi, o, hfol, on, hon, honid, hj⟩ := hf
  obtain ⟨on', hon', k⟩ := h.kept on hon
  exact ⟨x, h.keepE x hx (Or.inr (hxi ▸ hi)), hxi, o, hfol, on', hon', k.id.trans honid,
    k.junction.trans hj⟩

/-- result of `scanOthers` over the list `l`, started in `sc` with self's record `sn` -/
structure ScanSpec (curr : Nat) (sn : HNode) (l : List Nat) (sc sc' : Scan) : Prop where
  tree : Tree sc'.t
  /-- self's record is untouched (same edge list, same fields) -/
  self_mem : sn ∈ sc'.t.nodes
  le : HeapLe curr l sc.t sc'.t
  /-- the scanned ids other than `curr` are distributed, in order, over `common` and `other`;
      the far ends of the new common edges carry no junction -/
  parts : ∃ A B, sc'.common = sc.common ++ A ∧ sc'.other = sc.other ++ B ∧ A.Sublist l ∧ B.Sublist l ∧
    curr ∉ A ∧ curr ∉ B ∧ (∀ i ∈ l, i ≠ curr → i ∈ A ∨ i ∈ B) ∧ ∀ i ∈ A, FarNone sc'.t sn.id i

theorem ScanSpec.step {curr : Nat} {sn : HNode} {rest : List Nat} {sc sc1 sc' : Scan} (e2 : Nat)
    (hle : HeapLe curr [e2] sc.t sc1.t)
    (hc : (e2 = curr ∧ sc1.common = sc.common ∧ sc1.other = sc.other) ∨
          (e2 ≠ curr ∧ sc1.common = sc.common ++ [e2] ∧ sc1.other = sc.other ∧
            e2 ∉ rest ∧ FarNone sc1.t sn.id e2) ∨
          (e2 ≠ curr ∧ sc1.common = sc.common ∧ sc1.other = sc.other ++ [e2]))
    (h : ScanSpec curr sn rest sc1 sc') : ScanSpec curr sn (e2 :: rest) sc sc' := by
  obtain ⟨A, B, hA, hB, sA, sB, cA, cB, cov, far⟩ := h.parts
  refine ⟨h.tree, h.self_mem, hle.cons h.le, ?_⟩
  rcases hc with ⟨he, h1, h2⟩ | ⟨he, h1, h2, hnr, hfar⟩ | ⟨he, h1, h2⟩
  · refine ⟨A, B, h1 ▸ hA, h2 ▸ hB, sA.cons _, sB.cons _, cA, cB, ?_, far⟩
    intro i hi hic
    rcases List.mem_cons.mp hi with rfl | hi'
    · exact absurd he hic
    · exact cov i hi' hic
  · refine ⟨e2 :: A, B, by rw [hA, h1]; simp, h2 ▸ hB, sA.cons_cons _, sB.cons _, ?_, cB, ?_, ?_⟩
    · simp only [List.mem_cons, not_or]; exact ⟨fun hh => he hh.symm, cA⟩
    · intro i hi hic
      rcases List.mem_cons.mp hi with rfl | hi'
      · exact Or.inl List.mem_cons_self
      · rcases cov i hi' hic with hh | hh
        · exact Or.inl (List.mem_cons_of_mem _ hh)
        · exact Or.inr hh
    · intro i hi
      rcases List.mem_cons.mp hi with rfl | hi'
      · exact h.le.farNone hnr hfar
      · exact far i hi'
  · refine ⟨A, e2 :: B, h1 ▸ hA, by rw [hB, h2]; simp, sA.cons _, sB.cons_cons _, cA, ?_, ?_, far⟩
    · simp only [List.mem_cons, not_or]; exact ⟨fun hh => he hh.symm, cB⟩
    · intro i hi hic
      rcases List.mem_cons.mp hi with rfl | hi'
      · exact Or.inr List.mem_cons_self
      · rcases cov i hi' hic with hh | hh
        · exact Or.inl hh
        · exact Or.inr (List.mem_cons_of_mem _ hh)

theorem splitResult_jsame {t : HTree} {ed : HEdge} {source target : Nat}
    {p : AdaptaVerif.Model.Geometry.Pt} : JSame t (splitResult t ed source target p) := by
  intro j i
  constructor
  · rintro ⟨n, hn, hid, hj⟩
    obtain ⟨n', hn', k⟩ := splitResult_kept (ed := ed) (source := source) (target := target) (p := p) hn
    exact ⟨n', hn', k.id.trans hid, k.junction.trans hj⟩
  · rintro ⟨n', hn', hid, hj⟩
    simp only [splitResult, List.mem_append, List.mem_map, List.mem_singleton] at hn'
    rcases hn' with ⟨n, hn, rfl⟩ | rfl
    · refine ⟨n, hn, ?_, ?_⟩
      · rw [← hid]; split <;> rfl
      · rw [← hj]; split <;> rfl
    · simp [splitNode] at hj

theorem scanOthers_spec {self curr : Nat} {selfPt currPt : AdaptaVerif.Model.Geometry.Pt} {sn : HNode}
    (hid : sn.id = self) :
    ∀ (l : List Nat) (sc sc' : Scan), l.Nodup → Tree sc.t → sn ∈ sc.t.nodes →
      scanOthers self selfPt currPt curr l sc = some sc' → ScanSpec curr sn l sc sc' := by
  intro l
  induction l with
  | nil =>
    intro sc sc' _ ht hsn h
    simp only [scanOthers, Option.some.injEq] at h
    subst h
    exact ⟨ht, hsn, HeapLe.refl _ _ _, [], [], by simp, by simp, List.Sublist.refl _,
      List.Sublist.refl _, by simp, by simp, by simp, by simp⟩
  | cons e2 rest ih =>
    intro sc sc' hnd ht hsn h
    have hnd' := List.nodup_cons.mp hnd
    rw [scanOthers] at h
    split at h
    · next hc =>
      exact ScanSpec.step e2 (HeapLe.refl _ _ _) (Or.inl ⟨hc, rfl, rfl⟩) (ih sc sc' hnd'.2 ht hsn h)
    · next hc =>
      have hother : ∀ {sc'}, scanOthers self selfPt currPt curr rest { sc with other := sc.other ++ [e2] } = some sc' →
          ScanSpec curr sn (e2 :: rest) sc sc' := fun h =>
        ScanSpec.step (sc1 := { sc with other := sc.other ++ [e2] }) e2 (HeapLe.refl _ _ _)
          (Or.inr (Or.inr ⟨hc, rfl, rfl⟩)) (ih _ _ hnd'.2 ht hsn h)
      split at h
      · next oe sn1 hoe hsn1 =>
        have : sn1 = sn := by
          have := node?_of_mem ht.1.nodupN hsn
          rw [hid, hsn1] at this
          exact Option.some.inj this
        subst this
        split at h
        · cases h
        · next hguard =>
          have hin : e2 ∈ sn1.edges := by simpa using hguard
          obtain ⟨hoem, hoeid⟩ := edge?_mem hoe
          split at h
          · exact hother h
          · split at h
            · cases h
            · next onId hfol =>
              split at h
              · cases h
              · next on hon =>
                obtain ⟨honm, honid⟩ := node?_mem hon
                split at h
                · split at h
                  · exact hother h
                  · next hjn =>
                    have hjnone : on.junction = none := by
                      cases hh : on.junction with
                      | none => rfl
                      | some _ => rw [hh] at hjn; simp at hjn
                    exact ScanSpec.step (sc1 := { sc with common := sc.common ++ [e2] }) e2
                      (HeapLe.refl _ _ _)
                      (Or.inr (Or.inl ⟨hc, rfl, rfl, hnd'.1,
                        ⟨oe, hoem, hoeid, onId, hid ▸ hfol, on, honm, honid, hjnone⟩⟩))
                      (ih _ _ hnd'.2 ht hsn h)
                · split at h
                  · split at h
                    · cases h
                    · next t' a b hsplit =>
                      have hj : Joins oe self onId := by
                        rw [← hid]
                        exact joins_of_followFrom ht.1 hsn hoem (hoeid ▸ hin) (hid ▸ hfol)
                      have hne : self ≠ onId := ht.ne_of_joins hoem hj
                      obtain ⟨t'', heq, ht'', _⟩ := split_tree ht hoem hj currPt
                      obtain ⟨heq2, _⟩ := split_spec ht.1 hoem hj hne currPt
                      rw [hoeid] at heq heq2
                      rw [hsplit] at heq heq2
                      have e1 : t' = t'' := by injection heq with h'; injection h'
                      have e3 : t' = splitResult sc.t oe self onId currPt := by
                        injection heq2 with h'; injection h'
                      subst e1
                      have hsn' : sn1 ∈ t'.nodes := by
                        rw [e3]; exact splitResult_node_mem hsn (hid ▸ hne)
                      have hle : HeapLe curr [e2] sc.t t' := by
                        rw [e3]
                        refine ⟨?_, ?_, ?_, splitResult_junctionsOf, fun n hn => splitResult_kept hn,
                          splitResult_jsame⟩
                        · intro x hx hor
                          apply splitResult_edge_mem hx
                          rw [hoeid]
                          rcases hor with hh | hh
                          · rw [hh]; exact Ne.symm hc
                          · simpa using hh
                        · intro v hv
                          rw [splitResult_graphV]; exact List.mem_append_left _ hv
                        · show sc.t.next ≤ sc.t.next + 2
                          omega
                      have hfar : FarNone t' sn1.id e2 := by
                        rw [e3]
                        refine ⟨{ oe with e1 := some self, e2 := some sc.t.next }, ?_, hoeid, sc.t.next, ?_,
                          splitNode sc.t oe.id currPt, ?_, rfl, rfl⟩
                        · refine List.mem_append_left _ (List.mem_map.mpr ⟨oe, hoem, ?_⟩)
                          simp
                        · simp [HEdge.followFrom, hid]
                        · simp [splitResult]
                      exact ScanSpec.step (sc1 := { sc with t := t', common := sc.common ++ [e2] }) e2 hle
                        (Or.inr (Or.inl ⟨hc, rfl, rfl, hnd'.1, hfar⟩)) (ih _ _ hnd'.2 ht'' hsn' h)
                  · exact hother h
      · cases h

/-! ## M2: merging the far ends of the further common edges -/

theorem followFrom_ren {self src tg : Nat} (h1 : self ≠ src) (h2 : self ≠ tg) {x x1 : HEdge}
    (e1 : x1.e1 = x.e1.map (ren src tg)) (e2 : x1.e2 = x.e2.map (ren src tg)) {o : Nat}
    (hf : x.followFrom self = some o) : x1.followFrom self = some (ren src tg o) := by
  unfold HEdge.followFrom at hf ⊢
  have hiff : x1.e1 = some self ↔ x.e1 = some self := by
    rw [e1]; exact map_ren_eq_some_other h1 h2 _
  by_cases hx : x.e1 = some self
  · rw [if_pos hx] at hf
    rw [if_pos (hiff.mpr hx), e2, hf]; rfl
  · rw [if_neg hx] at hf
    rw [if_neg (fun hh => hx (hiff.mp hh)), e1, hf]; rfl

/-- result of `mergeCommon self tg es` on a tree -/
structure MergeSpec (slf tg : Nat) (es : List Nat) (sn : HNode) (e0 : HEdge) (t t' : HTree) : Prop where
  tree : Tree t'
  /-- `slf` is still live; its list lost exactly the ids in `es` -/
  self_node : ∃ sn' ∈ t'.nodes, NodeKept sn sn' ∧ sn'.edges = sn.edges.filter (fun i => !es.contains i)
  /-- the first common edge is still there, still joining `self` and `tg` -/
  edge0 : ∃ e0' ∈ t'.edges, EdgeKept e0 e0' ∧ Joins e0' slf tg
  next : t'.next = t.next
  /-- every surviving node comes from an old one, fields kept -/
  kept : ∀ n' ∈ t'.nodes, ∃ n ∈ t.nodes, NodeKept n n'
  /-- every surviving edge comes from an old one not in `es`, fields kept -/
  keptE : ∀ x' ∈ t'.edges, ∃ x ∈ t.edges, x.id ∉ es ∧ EdgeKept x x'
  /-- if the far ends that are merged away carry no junction, the junction-carrying nodes are the same -/
  jsame : (∀ i ∈ es, FarNone t slf i) → JSame t t'

theorem mergeCommon_tree {self tg : Nat} :
    ∀ (es : List Nat) (t : HTree) (sn : HNode) (e0 : HEdge), Tree t → sn ∈ t.nodes → sn.id = self →
      e0 ∈ t.edges → Joins e0 self tg → (∀ i ∈ es, i ∈ sn.edges) → es.Nodup → e0.id ∉ es →
      ∃ t', mergeCommon self tg es t = some t' ∧ MergeSpec self tg es sn e0 t t' := by
  intro es
  induction es with
  | nil =>
    intro t sn e0 ht hsn hid he0 hj0 _ _ _
    refine ⟨t, rfl, ht, ⟨sn, hsn, NodeKept.refl sn, ?_⟩, ⟨e0, he0, EdgeKept.refl e0, hj0⟩, rfl,
      fun n hn => ⟨n, hn, NodeKept.refl n⟩, fun x hx => ⟨x, hx, by simp, EdgeKept.refl x⟩,
      fun _ => JSame.refl t⟩
    exact (List.filter_eq_self.mpr (fun _ _ => rfl)).symm
  | cons i rest ih =>
    intro t sn e0 ht hsn hid he0 hj0 hin hnd hnot
    have hi : i ∈ sn.edges := hin i List.mem_cons_self
    obtain ⟨e, he, hei, hor⟩ := (ht.1.inc sn hsn i).mp hi
    subst hei
    -- the far end of `e`
    obtain ⟨a, b, ha, hb, _, _⟩ := ht.1.ends e he
    obtain ⟨src, hfol⟩ : ∃ src, e.followFrom sn.id = some src := by
      unfold HEdge.followFrom
      split
      · exact ⟨b, hb⟩
      · exact ⟨a, ha⟩
    have hj : Joins e self src := hid ▸ joins_of_followFrom ht.1 hsn he hi hfol
    have hne : e0.id ≠ e.id := fun hh => hnot (hh ▸ List.mem_cons_self)
    obtain ⟨t1, hm, ht1, hs⟩ := mergeCommon_cons_tree ht he hj he0 hne hj0 rest
    have hss : self ≠ src := ht.ne_of_joins he hj
    have hst : self ≠ tg := ht.ne_of_joins he0 hj0
    have hts : tg ≠ src := by
      intro hh
      subst hh
      exact ht.no_parallel he he0 hne hj hj0
    -- self's record in `t1`
    obtain ⟨sn1, hsn1, hsn1id⟩ := hs.nodes' sn hsn (hid ▸ hss)
    obtain ⟨n, hn, _, hk, so, _, _, hedges⟩ := hs.nodes sn1 hsn1
    have hnsn : n = sn := ht.1.node_eq hn hsn (hk.id.symm.trans hsn1id)
    subst hnsn
    rw [if_neg (hid ▸ hst), if_pos hid] at hedges
    -- `e0`'s record in `t1`
    obtain ⟨e1, he1, he1id⟩ := hs.edges' e0 he0 hne
    obtain ⟨x, hx, _, hxk, hx1, hx2⟩ := hs.edges e1 he1
    have hxe0 : x = e0 := ht.1.edge_eq hx he0 (hxk.id.symm.trans he1id)
    subst hxe0
    have hj1 : Joins e1 self tg := by
      have r1 : ren src tg self = self := ren_of_ne hss
      have r2 : ren src tg tg = tg := ren_of_ne hts
      rcases hj0 with ⟨j1, j2⟩ | ⟨j1, j2⟩
      · exact Or.inl ⟨by rw [hx1, j1]; simp [r1], by rw [hx2, j2]; simp [r2]⟩
      · exact Or.inr ⟨by rw [hx1, j1]; simp [r2], by rw [hx2, j2]; simp [r1]⟩
    have hnd' := List.nodup_cons.mp hnd
    obtain ⟨t', hm', hs'⟩ := ih t1 sn1 e1 ht1 hsn1 (hsn1id.trans hid) he1 hj1
      (by
        intro j hj'
        rw [hedges]
        simp only [List.mem_filter, bne_iff_ne, ne_eq]
        exact ⟨hin j (List.mem_cons_of_mem _ hj'), fun hh => hnd'.1 (hh ▸ hj')⟩)
      hnd'.2 (by rw [he1id]; exact fun hh => hnot (List.mem_cons_of_mem _ hh))
    refine ⟨t', hm.trans hm', hs'.tree, ?_, ?_, hs'.next.trans hs.next, ?_, ?_, ?_⟩
    · obtain ⟨sn', hsn', hk', hed'⟩ := hs'.self_node
      refine ⟨sn', hsn', hk.trans hk', ?_⟩
      rw [hed', hedges, List.filter_filter]
      apply List.filter_congr
      intro j _
      simp only [List.contains_cons, Bool.not_or, bne, Bool.and_comm]
    · obtain ⟨e0', he0', hk', hj'⟩ := hs'.edge0
      exact ⟨e0', he0', hxk.trans hk', hj'⟩
    · intro n' hn'
      obtain ⟨n1, hn1, k1⟩ := hs'.kept n' hn'
      obtain ⟨n0, hn0, _, k0, _⟩ := hs.nodes n1 hn1
      exact ⟨n0, hn0, k0.trans k1⟩
    · intro x' hx'
      obtain ⟨x1, hx1', hni, k1⟩ := hs'.keptE x' hx'
      obtain ⟨x0, hx0, hne0, k0, _⟩ := hs.edges x1 hx1'
      refine ⟨x0, hx0, ?_, k0.trans k1⟩
      simp only [List.mem_cons, not_or]
      exact ⟨hne0, k0.id ▸ hni⟩
    · intro hfar
      -- the node merged away has no junction
      obtain ⟨x, hx, hxi, o, hfo, on, hon, honid, hjn⟩ := hfar e.id List.mem_cons_self
      have hxe : x = e := ht.1.edge_eq hx he hxi
      subst hxe
      have hos : o = src := by
        rw [hid] at hfol; rw [hfol] at hfo; exact (Option.some.inj hfo).symm
      subst hos
      have hJ1 : JSame t t1 := by
        intro j k
        constructor
        · rintro ⟨n, hn, hnk, hnj⟩
          have hns : n.id ≠ o := by
            intro hh
            have : n = on := ht.1.node_eq hn hon (hh.trans honid.symm)
            rw [this, hjn] at hnj; cases hnj
          obtain ⟨n', hn', hn'id⟩ := hs.nodes' n hn hns
          obtain ⟨n0, hn0, _, k0, _⟩ := hs.nodes n' hn'
          have : n0 = n := ht.1.node_eq hn0 hn (k0.id.symm.trans hn'id)
          subst this
          exact ⟨n', hn', hn'id.trans hnk, k0.junction.trans hnj⟩
        · rintro ⟨n', hn', hnk, hnj⟩
          obtain ⟨n0, hn0, _, k0, _⟩ := hs.nodes n' hn'
          exact ⟨n0, hn0, k0.id.symm.trans hnk, k0.junction.symm.trans hnj⟩
      refine hJ1.trans (hs'.jsame ?_)
      intro i' hi'
      obtain ⟨x', hx', hxi', o', hfo', on', hon', honid', hjn'⟩ := hfar i' (List.mem_cons_of_mem _ hi')
      have hne' : x'.id ≠ x.id := by rw [hxi']; exact fun hh => hnd'.1 (hh ▸ hi')
      have hj' : Joins x' self o' := by
        rw [← hid]
        exact joins_of_followFrom ht.1 hsn hx' (hxi' ▸ hin i' (List.mem_cons_of_mem _ hi')) (hid ▸ hfo')
      have hos' : o' ≠ o := by
        intro hh
        subst hh
        exact ht.no_parallel he hx' hne' hj hj'
      obtain ⟨x1, hx1m, hx1id⟩ := hs.edges' x' hx' hne'
      obtain ⟨x0, hx0, _, k0, q1, q2⟩ := hs.edges x1 hx1m
      have hx0' : x0 = x' := ht.1.edge_eq hx0 hx' (k0.id.symm.trans hx1id)
      subst hx0'
      have hf1 := followFrom_ren hss hst q1 q2 hfo'
      rw [ren_of_ne hos'] at hf1
      have hons : on'.id ≠ o := honid' ▸ hos'
      obtain ⟨n1, hn1, hn1id⟩ := hs.nodes' on' hon' hons
      obtain ⟨n0, hn0, _, kn, _⟩ := hs.nodes n1 hn1
      have hn0' : n0 = on' := ht.1.node_eq hn0 hon' (kn.id.symm.trans hn1id)
      subst hn0'
      exact ⟨x1, hx1m, hx1id.trans hxi', o', hf1, n1, hn1, hn1id.trans honid', kn.junction.trans hjn'⟩

/-! ## M3: the outer loop -/

theorem filter_not_mem_eq_singleton {l A : List Nat} {c : Nat} (hnd : l.Nodup) (hc : c ∈ l)
    (hcA : c ∉ A) (hcov : ∀ i ∈ l, i ≠ c → i ∈ A) :
    l.filter (fun i => !A.contains i) = [c] := by
  induction l with
  | nil => cases hc
  | cons a l ih =>
    have hnd' := List.nodup_cons.mp hnd
    rcases List.mem_cons.mp hc with rfl | hc'
    · have h1 : (!A.contains c) = true := by simpa using hcA
      have h2 : l.filter (fun i => !A.contains i) = [] := by
        rw [List.filter_eq_nil_iff]
        intro i hi
        have : i ∈ A := hcov i (List.mem_cons_of_mem _ hi) (fun hh => hnd'.1 (hh ▸ hi))
        simpa using this
      rw [List.filter_cons, if_pos h1, h2]
    · have hac : a ≠ c := fun hh => hnd'.1 (hh ▸ hc')
      have h1 : (!A.contains a) = false := by
        have := hcov a List.mem_cons_self hac
        simpa using this
      rw [List.filter_cons, if_neg (by rw [h1]; simp)]
      exact ih hnd'.2 hc' (fun i hi => hcov i (List.mem_cons_of_mem _ hi))

theorem modNode_node {t : HTree} (i : Nat) (f : HNode → HNode) (hid : ∀ n, (f n).id = n.id)
    (hed : ∀ n, (f n).edges = n.edges) {n : HNode} (hn : n ∈ t.nodes) :
    ∃ n' ∈ (t.modNode i f).nodes, n'.id = n.id ∧ n'.edges = n.edges := by
  refine ⟨_, List.mem_map.mpr ⟨n, hn, rfl⟩, ?_, ?_⟩ <;> split <;> simp [hid, hed]

theorem moveLoop_tree (self sj : Nat) :
    ∀ (l : List Nat) (s : Imp) (r : MoveResult), Tree s.t → moveLoop s self sj l = some r →
      Tree r.s.t := by
  intro l
  induction l with
  | nil =>
    intro s r ht h
    simp only [moveLoop, Option.some.injEq] at h
    subst h
    exact ht
  | cons curr rest ih =>
    intro s r ht h
    rw [moveLoop] at h
    split at h
    · next sn ce hsn hce =>
      split at h
      · cases h
      · next hguard =>
        split at h
        · cases h
        · next cnId hfol =>
          split at h
          · cases h
          · next cn hcn =>
            split at h
            · exact ih s r ht h
            · split at h
              · exact ih s r ht h
              · split at h
                · cases h
                · next sc hscan =>
                  obtain ⟨hsnm, hsnid⟩ := node?_mem hsn
                  obtain ⟨hcem, hceid⟩ := edge?_mem hce
                  have hin : curr ∈ sn.edges := by simpa using hguard
                  have hjc : Joins ce self cnId := by
                    rw [← hsnid]
                    exact joins_of_followFrom ht.1 hsnm hcem (hceid ▸ hin) (hsnid ▸ hfol)
                  have hnd : sn.edges.Nodup := ht.1.nodupL sn hsnm
                  have hspec := scanOthers_spec hsnid sn.edges _ sc hnd ht hsnm hscan
                  obtain ⟨A, B, hA, hB, sA, sB, cA, cB, cov, _⟩ := hspec.parts
                  have hdrop : sc.common.drop 1 = A := by rw [hA]; rfl
                  have hce' : ce ∈ sc.t.edges := hspec.le.keepE ce hcem (Or.inl hceid)
                  obtain ⟨t1, hm, hms⟩ := mergeCommon_tree A sc.t sn ce hspec.tree hspec.self_mem hsnid
                    hce' hjc (fun i hi => sA.subset hi) (hnd.sublist sA) (hceid ▸ cA)
                  rw [hdrop, hm] at h
                  dsimp only at h
                  have hT2 : Tree ((t1.modNode cnId (fun x => { x with junction := some sj })).modNode self
                      (fun x => { x with junction := none })) :=
                    modNode_Tree _ _ _ (fun _ => rfl) (fun _ => rfl)
                      (modNode_Tree _ _ _ (fun _ => rfl) (fun _ => rfl) hms.tree)
                  split at h
                  · split at h
                    · next hoth =>
                      split at h
                      · cases h
                      · next t3 hdis =>
                        simp only [Option.some.injEq] at h
                        subst h
                        show Tree ((t3.deleteEdge curr).deleteNode self)
                        obtain ⟨sn', hsn', hk', hed'⟩ := hms.self_node
                        obtain ⟨e0', he0', hke, hj'⟩ := hms.edge0
                        have hB0 : B = [] := by rw [hoth] at hB; simpa using hB.symm
                        have hcov : ∀ i ∈ sn.edges, i ≠ curr → i ∈ A := by
                          intro i hi hic
                          rcases cov i hi hic with hh | hh
                          · exact hh
                          · rw [hB0] at hh; cases hh
                        rw [filter_not_mem_eq_singleton hnd hin cA hcov] at hed'
                        obtain ⟨n1, hn1, hn1id, hn1ed⟩ := modNode_node cnId
                          (fun x => { x with junction := some sj }) (fun _ => rfl) (fun _ => rfl) hsn'
                        obtain ⟨n2, hn2, hn2id, hn2ed⟩ := modNode_node self
                          (fun x => { x with junction := none }) (fun _ => rfl) (fun _ => rfl) hn1
                        have hid2 : n2.id = self := by rw [hn2id, hn1id, hk'.id, hsnid]
                        have hcurr : e0'.id = curr := hke.id.trans hceid
                        have hj2 : Joins e0' cnId n2.id := by
                          rw [hid2]
                          rcases hj' with hh | hh
                          · exact Or.inr hh
                          · exact Or.inl hh
                        obtain ⟨t', hr, ht', _⟩ := removeLeaf_tree hT2 (e := e0') he0' hn2 hj2
                          (by rw [hn2ed, hn1ed, hed', hcurr])
                        rw [hcurr, hid2] at hr
                        unfold removeLeaf at hr
                        rw [hdis] at hr
                        simp only [Option.map_some, Option.some.injEq] at hr
                        rw [hr]; exact ht'
                    · split at h
                      · cases h
                      · simp only [Option.some.injEq] at h
                        subst h
                        exact modEdge_Tree _ _ _ (fun _ => rfl) (fun _ => rfl) (fun _ => rfl) hT2
                  · split at h
                    · simp only [Option.some.injEq] at h
                      subst h
                      exact modEdge_Tree _ _ _ (fun _ => rfl) (fun _ => rfl) (fun _ => rfl)
                        (modNode_Tree _ _ _ (fun _ => rfl) (fun _ => rfl) hms.tree)
                    · exact ih _ r hspec.tree h
    · cases h

theorem moveJunctionAlongCommonEdge_tree {s : Imp} {self : Nat} {r : MoveResult} (ht : Tree s.t)
    (h : moveJunctionAlongCommonEdge s self = some r) : Tree r.s.t := by
  unfold moveJunctionAlongCommonEdge at h
  split at h
  · cases h
  · split at h
    · cases h
    · exact moveLoop_tree _ _ _ s r ht h

theorem moveJunctionStep_tree {s : Imp} {j : Nat} {r : MoveResult} (ht : Tree s.t)
    (h : moveJunctionStep s j = some r) : Tree r.s.t := by
  unfold moveJunctionStep at h
  split at h
  · cases h
  · split at h
    · cases h
    · next r0 hr0 =>
      have := moveJunctionAlongCommonEdge_tree ht hr0
      split at h
      · simp only [Option.some.injEq] at h; subst h; exact this
      · simp only [Option.some.injEq] at h; subst h; exact this

theorem moveJunctionFully_tree : ∀ (f : Nat) (s : Imp) (j : Nat) (s' : Imp), Tree s.t →
    moveJunctionFully f s j = some s' → Tree s'.t := by
  intro f
  induction f with
  | zero => intro s j s' _ h; cases h
  | succ f ih =>
    intro s j s' ht h
    rw [moveJunctionFully] at h
    split at h
    · cases h
    · next r hr =>
      have := moveJunctionStep_tree ht hr
      split at h
      · simp only [Option.some.injEq] at h; subst h; exact this
      · exact ih _ _ _ this h

/-! ## M4: junction bookkeeping -/

/-- the junction map and the heap agree -/
def JInv (s : Imp) : Prop :=
  (s.t.junctionsOf).Nodup ∧
  (∀ p ∈ s.junctions, ∃ n ∈ s.t.nodes, n.id = p.2 ∧ n.junction = some p.1) ∧
  (∀ n ∈ s.t.nodes, ∀ j, n.junction = some j → (j, n.id) ∈ s.junctions) ∧
  (∀ j ∈ s.delJ, j ∉ s.t.junctionsOf)

/-- `JInv`, stated through `JPairs` -/
structure JInv' (s : Imp) : Prop where
  inj : ∀ j i i', JPairs s.t j i → JPairs s.t j i' → i = i'
  live : ∀ p ∈ s.junctions, JPairs s.t p.1 p.2
  reg : ∀ j i, JPairs s.t j i → (j, i) ∈ s.junctions
  del : ∀ j ∈ s.delJ, ∀ i, ¬ JPairs s.t j i

theorem mem_junctionsOf {t : HTree} {j : Nat} : j ∈ t.junctionsOf ↔ ∃ i, JPairs t j i := by
  simp only [HTree.junctionsOf, List.mem_filterMap, JPairs]
  constructor
  · rintro ⟨n, hn, hj⟩; exact ⟨n.id, n, hn, rfl, hj⟩
  · rintro ⟨_, n, hn, _, hj⟩; exact ⟨n, hn, hj⟩

theorem nodup_filterMap_junction : ∀ (l : List HNode), (l.map (·.id)).Nodup →
    ((l.filterMap (·.junction)).Nodup ↔
      ∀ n ∈ l, ∀ m ∈ l, ∀ j, n.junction = some j → m.junction = some j → n.id = m.id) := by
  intro l
  induction l with
  | nil => intro _; simp
  | cons a l ih =>
    intro hnd
    simp only [List.map_cons, List.nodup_cons, List.mem_map, not_exists, not_and] at hnd
    have ih' := ih hnd.2
    cases ha : a.junction with
    | none =>
      rw [List.filterMap_cons_none ha, ih']
      constructor
      · intro h n hn m hm j hnj hmj
        rcases List.mem_cons.mp hn with rfl | hn'
        · rw [ha] at hnj; cases hnj
        · rcases List.mem_cons.mp hm with rfl | hm'
          · rw [ha] at hmj; cases hmj
          · exact h n hn' m hm' j hnj hmj
      · intro h n hn m hm j hnj hmj
        exact h n (List.mem_cons_of_mem _ hn) m (List.mem_cons_of_mem _ hm) j hnj hmj
    | some ja =>
      rw [List.filterMap_cons_some ha, List.nodup_cons, ih']
      constructor
      · rintro ⟨hni, h⟩ n hn m hm j hnj hmj
        rcases List.mem_cons.mp hn with rfl | hn'
        · rcases List.mem_cons.mp hm with rfl | hm'
          · rfl
          · exfalso; apply hni
            rw [ha] at hnj; cases hnj
            exact List.mem_filterMap.mpr ⟨m, hm', hmj⟩
        · rcases List.mem_cons.mp hm with rfl | hm'
          · exfalso; apply hni
            rw [ha] at hmj; cases hmj
            exact List.mem_filterMap.mpr ⟨n, hn', hnj⟩
          · exact h n hn' m hm' j hnj hmj
      · intro h
        refine ⟨?_, fun n hn m hm j hnj hmj =>
          h n (List.mem_cons_of_mem _ hn) m (List.mem_cons_of_mem _ hm) j hnj hmj⟩
        intro hmem
        obtain ⟨m, hm, hmj⟩ := List.mem_filterMap.mp hmem
        exact hnd.1 m hm (h a List.mem_cons_self m (List.mem_cons_of_mem _ hm) ja ha hmj).symm

theorem JInv_iff {s : Imp} (hN : (s.t.nodes.map (·.id)).Nodup) : JInv s ↔ JInv' s := by
  unfold JInv
  rw [show s.t.junctionsOf = s.t.nodes.filterMap (·.junction) from rfl, nodup_filterMap_junction _ hN]
  constructor
  · rintro ⟨h1, h2, h3, h4⟩
    refine ⟨?_, h2, ?_, ?_⟩
    · rintro j i i' ⟨n, hn, rfl, hnj⟩ ⟨m, hm, rfl, hmj⟩
      exact h1 n hn m hm j hnj hmj
    · rintro j i ⟨n, hn, rfl, hnj⟩
      exact h3 n hn j hnj
    · intro j hj i hp
      exact h4 j hj (mem_junctionsOf.mpr ⟨i, hp⟩)
  · intro h
    refine ⟨?_, h.live, ?_, ?_⟩
    · intro n hn m hm j hnj hmj
      exact h.inj j _ _ ⟨n, hn, rfl, hnj⟩ ⟨m, hm, rfl, hmj⟩
    · intro n hn j hnj
      exact h.reg j n.id ⟨n, hn, rfl, hnj⟩
    · intro j hj hmem
      obtain ⟨i, hp⟩ := mem_junctionsOf.mp hmem
      exact h.del j hj i hp

theorem JPairs_unique {t : HTree} (h : WF t) {j j' i : Nat} (h1 : JPairs t j i) (h2 : JPairs t j' i) :
    j = j' := by
  obtain ⟨n, hn, hni, hnj⟩ := h1
  obtain ⟨m, hm, hmi, hmj⟩ := h2
  have : n = m := h.node_eq hn hm (hni.trans hmi.symm)
  subst this
  rw [hnj] at hmj; exact Option.some.inj hmj

/-- setting the junction field of node `c` -/
theorem JPairs_modNode_junction {t : HTree} {c : Nat} {v : Option Nat} {j i : Nat} :
    JPairs (t.modNode c (fun x => { x with junction := v })) j i ↔
      (i = c ∧ v = some j ∧ c ∈ t.graphV) ∨ (i ≠ c ∧ JPairs t j i) := by
  simp only [JPairs, HTree.modNode, List.mem_map, HTree.graphV]
  constructor
  · rintro ⟨n', ⟨n, hn, rfl⟩, hid, hj⟩
    by_cases hc : n.id = c
    · have hb : (n.id == c) = true := by simpa using hc
      rw [if_pos hb] at hid hj
      exact Or.inl ⟨hid.symm.trans hc, hj, n, hn, hc⟩
    · have : (n.id == c) = false := by simpa using hc
      simp only [this, Bool.false_eq_true, if_false] at hid hj
      exact Or.inr ⟨hid ▸ hc, n, hn, hid, hj⟩
  · rintro (⟨rfl, hv, n, hn, hc⟩ | ⟨hic, n, hn, hid, hj⟩)
    · have hb : (n.id == i) = true := by simpa using hc
      exact ⟨_, ⟨n, hn, rfl⟩, by rw [if_pos hb]; exact hc, by rw [if_pos hb]; exact hv⟩
    · have hb : ¬ (n.id == c) = true := by simpa [hid] using hic
      exact ⟨_, ⟨n, hn, rfl⟩, by rw [if_neg hb]; exact hid, by rw [if_neg hb]; exact hj⟩

theorem IdentifySpec.jpairs {t t' : HTree} {e : HEdge} {x tg src : Nat} (h : WF t)
    (hs : IdentifySpec t e x tg src t') {j i : Nat} : JPairs t' j i ↔ JPairs t j i ∧ i ≠ src := by
  constructor
  · rintro ⟨n', hn', hid, hj⟩
    obtain ⟨n, hn, hns, k, _⟩ := hs.nodes n' hn'
    exact ⟨⟨n, hn, k.id.symm.trans hid, k.junction.symm.trans hj⟩, hid ▸ k.id ▸ hns⟩
  · rintro ⟨⟨n, hn, hid, hj⟩, hne⟩
    obtain ⟨n', hn', hn'id⟩ := hs.nodes' n hn (hid ▸ hne)
    obtain ⟨n0, hn0, _, k, _⟩ := hs.nodes n' hn'
    have : n0 = n := h.node_eq hn0 hn (k.id.symm.trans hn'id)
    subst this
    exact ⟨n', hn', hn'id.trans hid, k.junction.trans hj⟩

theorem JInv'.of_jsame {s s' : Imp} (h : JInv' s) (hJ : JSame s.t s'.t) (h1 : s'.junctions = s.junctions)
    (h2 : s'.delJ = s.delJ) : JInv' s' :=
  ⟨fun j i i' a b => h.inj j i i' ((hJ j i).mpr a) ((hJ j i').mpr b),
   fun p hp => (hJ _ _).mp (h.live p (h1 ▸ hp)),
   fun j i a => h1 ▸ h.reg j i ((hJ j i).mpr a),
   fun j hj i a => h.del j (h2 ▸ hj) i ((hJ j i).mpr a)⟩

/-- case A of the move: the junction `sj` goes from `self` to `cnId` -/
theorem JInv'.moveA {s s' : Imp} {self cnId sj : Nat} (h : JInv' s) (hW : WF s.t)
    (hself : JPairs s.t sj self) (hcn : ∀ j, ¬ JPairs s.t j cnId) (hne : self ≠ cnId)
    (hiff : ∀ j i, JPairs s'.t j i ↔ i ≠ self ∧ ((i = cnId ∧ j = sj) ∨ (i ≠ cnId ∧ JPairs s.t j i)))
    (h1 : s'.junctions = s.junctions.map (fun p => if p.1 == sj then (sj, cnId) else p))
    (h2 : s'.delJ = s.delJ) : JInv' s' := by
  refine ⟨?_, ?_, ?_, ?_⟩
  · intro j i i' a b
    obtain ⟨hi, a⟩ := (hiff j i).mp a
    obtain ⟨hi', b⟩ := (hiff j i').mp b
    rcases a with ⟨ha1, ha2⟩ | ⟨_, a⟩ <;> rcases b with ⟨hb1, hb2⟩ | ⟨_, b⟩
    · rw [ha1, hb1]
    · exact absurd (h.inj _ _ _ (ha2 ▸ b) hself) hi'
    · exact absurd (h.inj _ _ _ (hb2 ▸ a) hself) hi
    · exact h.inj j i i' a b
  · intro p' hp'
    rw [h1] at hp'
    obtain ⟨p, hp, rfl⟩ := List.mem_map.mp hp'
    by_cases hps : p.1 = sj
    · simp only [hps, beq_self_eq_true, if_true]
      exact (hiff _ _).mpr ⟨Ne.symm hne, Or.inl ⟨rfl, rfl⟩⟩
    · have : (p.1 == sj) = false := by simpa using hps
      simp only [this, Bool.false_eq_true, if_false]
      have hl := h.live p hp
      refine (hiff _ _).mpr ⟨?_, Or.inr ⟨fun hh => hcn p.1 (hh ▸ hl), hl⟩⟩
      intro hh
      exact hps (JPairs_unique hW (hh ▸ hl) hself)
  · intro j i a
    rw [h1]
    obtain ⟨hi, a⟩ := (hiff j i).mp a
    rcases a with ⟨rfl, rfl⟩ | ⟨_, a⟩
    · exact List.mem_map.mpr ⟨(j, self), h.reg _ _ hself, by simp⟩
    · refine List.mem_map.mpr ⟨(j, i), h.reg _ _ a, ?_⟩
      have : j ≠ sj := fun hh => hi (h.inj _ _ _ (hh ▸ a) hself)
      have : (j == sj) = false := by simpa using this
      simp [this]
  · intro j hj i a
    rw [h2] at hj
    obtain ⟨_, a⟩ := (hiff j i).mp a
    rcases a with ⟨_, rfl⟩ | ⟨_, a⟩
    · exact h.del _ hj _ hself
    · exact h.del _ hj _ a

/-- case B of the move: a new junction `nj` is put on `cnId` -/
theorem JInv'.moveB {s s' : Imp} {self cnId sj nj : Nat} (h : JInv' s)
    (hself : JPairs s.t sj self) (hcn : ∀ j, ¬ JPairs s.t j cnId) (hne : self ≠ cnId)
    (hfresh : ∀ i, ¬ JPairs s.t nj i) (hnd : nj ∉ s.delJ)
    (hiff : ∀ j i, JPairs s'.t j i ↔ (i = cnId ∧ j = nj) ∨ (i ≠ cnId ∧ JPairs s.t j i))
    (h1 : s'.junctions = (s.junctions ++ [(nj, cnId)]).map (fun p => if p.1 == sj then (sj, self) else p))
    (h2 : s'.delJ = s.delJ) : JInv' s' := by
  have hnjsj : nj ≠ sj := fun hh => hfresh self (hh ▸ hself)
  have hnjsj' : (nj == sj) = false := by simpa using hnjsj
  refine ⟨?_, ?_, ?_, ?_⟩
  · intro j i i' a b
    have a := (hiff j i).mp a
    have b := (hiff j i').mp b
    rcases a with ⟨rfl, rfl⟩ | ⟨_, a⟩ <;> rcases b with ⟨rfl, hb⟩ | ⟨_, b⟩
    · rfl
    · exact absurd b (hfresh _)
    · subst hb; exact absurd a (hfresh _)
    · exact h.inj j i i' a b
  · intro p' hp'
    rw [h1] at hp'
    obtain ⟨p, hp, rfl⟩ := List.mem_map.mp hp'
    by_cases hps : p.1 = sj
    · simp only [hps, beq_self_eq_true, if_true]
      exact (hiff _ _).mpr (Or.inr ⟨hne, hself⟩)
    · have : (p.1 == sj) = false := by simpa using hps
      simp only [this, Bool.false_eq_true, if_false]
      rcases List.mem_append.mp hp with hp | hp
      · have hl := h.live p hp
        exact (hiff _ _).mpr (Or.inr ⟨fun hh => hcn p.1 (hh ▸ hl), hl⟩)
      · simp only [List.mem_singleton] at hp
        subst hp
        exact (hiff _ _).mpr (Or.inl ⟨rfl, rfl⟩)
  · intro j i a
    rw [h1]
    rcases (hiff j i).mp a with ⟨rfl, rfl⟩ | ⟨_, a⟩
    · exact List.mem_map.mpr ⟨(j, i), by simp, by simp [hnjsj']⟩
    · refine List.mem_map.mpr ⟨(j, i), List.mem_append_left _ (h.reg _ _ a), ?_⟩
      by_cases hjs : j = sj
      · have : i = self := h.inj _ _ _ (hjs ▸ a) hself
        simp [hjs, this]
      · have : (j == sj) = false := by simpa using hjs
        simp [this]
  · intro j hj i a
    rw [h2] at hj
    rcases (hiff j i).mp a with ⟨_, rfl⟩ | ⟨_, a⟩
    · exact hnd hj
    · exact h.del _ hj _ a

/-- the caller's rewrite of the junction map after a move -/
def fixJ (sj : Nat) (r : MoveResult) : Imp :=
  match r.newSelf with
  | none => r.s
  | some n' => { r.s with junctions := r.s.junctions.map (fun p => if p.1 == sj then (sj, n') else p) }

/-- which junctions the heap can carry after a move, and the counters -/
structure MoveKeeps (s : Imp) (r : MoveResult) : Prop where
  juncs : ∀ j i, JPairs r.s.t j i → (∃ i', JPairs s.t j i') ∨ (j = s.nextJ ∧ r.s.nextJ = s.nextJ + 1)
  nextJ : s.nextJ ≤ r.s.nextJ
  delJ : r.s.delJ = s.delJ
  /-- no junction is lost -/
  lost : ∀ j i, JPairs s.t j i → ∃ i', JPairs r.s.t j i'
  /-- either no junction is made (and none appears), or exactly `s.nextJ` is made and is carried -/
  newJ : (r.s.newJ = s.newJ ∧ r.s.nextJ = s.nextJ ∧ ∀ j i, JPairs r.s.t j i → ∃ i', JPairs s.t j i') ∨
    (r.s.newJ = s.newJ ++ [s.nextJ] ∧ (∃ i, JPairs r.s.t s.nextJ i) ∧ r.s.nextJ = s.nextJ + 1)

theorem moveLoop_JInv (self sj : Nat) :
    ∀ (l : List Nat) (s : Imp) (r : MoveResult), Tree s.t → JInv' s → JPairs s.t sj self →
      (∀ i, ¬ JPairs s.t s.nextJ i) → s.nextJ ∉ s.delJ → moveLoop s self sj l = some r →
      JInv' (fixJ sj r) ∧ MoveKeeps s r := by
  intro l
  induction l with
  | nil =>
    intro s r ht hI _ _ _ h
    simp only [moveLoop, Option.some.injEq] at h
    subst h
    exact ⟨hI, fun j i h => Or.inl ⟨i, h⟩, Nat.le_refl _, rfl, fun j i h => ⟨i, h⟩,
      Or.inl ⟨rfl, rfl, fun j i h => ⟨i, h⟩⟩⟩
  | cons curr rest ih =>
    intro s r ht hI hself hfresh hnd' h
    rw [moveLoop] at h
    split at h
    · next sn ce hsn hce =>
      split at h
      · cases h
      · next hguard =>
        split at h
        · cases h
        · next cnId hfol =>
          split at h
          · cases h
          · next cn hcn =>
            split at h
            · exact ih s r ht hI hself hfresh hnd' h
            · next hcnj =>
              split at h
              · exact ih s r ht hI hself hfresh hnd' h
              · split at h
                · cases h
                · next sc hscan =>
                  obtain ⟨hsnm, hsnid⟩ := node?_mem hsn
                  obtain ⟨hcem, hceid⟩ := edge?_mem hce
                  obtain ⟨hcnm, hcnid⟩ := node?_mem hcn
                  have hin : curr ∈ sn.edges := by simpa using hguard
                  have hjc : Joins ce self cnId := by
                    rw [← hsnid]
                    exact joins_of_followFrom ht.1 hsnm hcem (hceid ▸ hin) (hsnid ▸ hfol)
                  have hne : self ≠ cnId := ht.ne_of_joins hcem hjc
                  have hcnn : ∀ j, ¬ JPairs s.t j cnId := by
                    rintro j ⟨n, hn, hni, hnj⟩
                    have : n = cn := ht.1.node_eq hn hcnm (hni.trans hcnid.symm)
                    subst this
                    rw [hnj] at hcnj; simp at hcnj
                  have hnd : sn.edges.Nodup := ht.1.nodupL sn hsnm
                  have hspec := scanOthers_spec hsnid sn.edges _ sc hnd ht hsnm hscan
                  obtain ⟨A, B, hA, hB, sA, sB, cA, cB, cov, far⟩ := hspec.parts
                  have hdrop : sc.common.drop 1 = A := by rw [hA]; rfl
                  have hce' : ce ∈ sc.t.edges := hspec.le.keepE ce hcem (Or.inl hceid)
                  obtain ⟨t1, hm, hms⟩ := mergeCommon_tree A sc.t sn ce hspec.tree hspec.self_mem hsnid
                    hce' hjc (fun i hi => sA.subset hi) (hnd.sublist sA) (hceid ▸ cA)
                  have hJ : JSame s.t t1 := (hspec.le.jsame).trans (hms.jsame (hsnid ▸ far))
                  have hcnV : cnId ∈ t1.graphV := by
                    obtain ⟨e0', he0', _, hj'⟩ := hms.edge0
                    exact (joins_mem_graphV hms.tree.1 he0' hj').2
                  rw [hdrop, hm] at h
                  dsimp only at h
                  have hT2 : Tree ((t1.modNode cnId (fun x => { x with junction := some sj })).modNode self
                      (fun x => { x with junction := none })) :=
                    modNode_Tree _ _ _ (fun _ => rfl) (fun _ => rfl)
                      (modNode_Tree _ _ _ (fun _ => rfl) (fun _ => rfl) hms.tree)
                  have hP2 : ∀ j i, JPairs ((t1.modNode cnId (fun x => { x with junction := some sj })).modNode self
                      (fun x => { x with junction := none })) j i ↔
                      i ≠ self ∧ ((i = cnId ∧ j = sj) ∨ (i ≠ cnId ∧ JPairs s.t j i)) := by
                    intro j i
                    rw [JPairs_modNode_junction, JPairs_modNode_junction, ← hJ j i]
                    constructor
                    · rintro (⟨_, hh, _⟩ | ⟨hi, hh⟩)
                      · cases hh
                      · refine ⟨hi, ?_⟩
                        rcases hh with ⟨h1, h2, _⟩ | hh
                        · exact Or.inl ⟨h1, (Option.some.inj h2).symm⟩
                        · exact Or.inr hh
                    · rintro ⟨hi, hh⟩
                      refine Or.inr ⟨hi, ?_⟩
                      rcases hh with ⟨h1, h2⟩ | hh
                      · exact Or.inl ⟨h1, by rw [h2], hcnV⟩
                      · exact Or.inr hh
                  have keepsA : ∀ tf : HTree, (∀ j i, JPairs tf j i ↔
                      i ≠ self ∧ ((i = cnId ∧ j = sj) ∨ (i ≠ cnId ∧ JPairs s.t j i))) →
                      ∀ j i, JPairs tf j i → ∃ i', JPairs s.t j i' := by
                    intro tf hiff j i hp
                    rcases ((hiff j i).mp hp).2 with ⟨_, h2⟩ | ⟨_, hh⟩
                    · exact ⟨self, h2 ▸ hself⟩
                    · exact ⟨i, hh⟩
                  have lostA : ∀ tf : HTree, (∀ j i, JPairs tf j i ↔
                      i ≠ self ∧ ((i = cnId ∧ j = sj) ∨ (i ≠ cnId ∧ JPairs s.t j i))) →
                      ∀ j i, JPairs s.t j i → ∃ i', JPairs tf j i' := by
                    intro tf hiff j i hp
                    by_cases his : i = self
                    · have : j = sj := JPairs_unique ht.1 (his ▸ hp) hself
                      exact ⟨cnId, (hiff _ _).mpr ⟨Ne.symm hne, Or.inl ⟨rfl, this⟩⟩⟩
                    · exact ⟨i, (hiff _ _).mpr ⟨his, Or.inr ⟨fun hh => hcnn j (hh ▸ hp), hp⟩⟩⟩
                  split at h
                  · split at h
                    · next hoth =>
                      split at h
                      · cases h
                      · next t3 hdis =>
                        simp only [Option.some.injEq] at h
                        subst h
                        obtain ⟨sn', hsn', hk', hed'⟩ := hms.self_node
                        obtain ⟨e0', he0', hke, hj'⟩ := hms.edge0
                        have hB0 : B = [] := by rw [hoth] at hB; simpa using hB.symm
                        have hcov : ∀ i ∈ sn.edges, i ≠ curr → i ∈ A := by
                          intro i hi hic
                          rcases cov i hi hic with hh | hh
                          · exact hh
                          · rw [hB0] at hh; cases hh
                        rw [filter_not_mem_eq_singleton hnd hin cA hcov] at hed'
                        obtain ⟨n1, hn1, hn1id, hn1ed⟩ := modNode_node cnId
                          (fun x => { x with junction := some sj }) (fun _ => rfl) (fun _ => rfl) hsn'
                        obtain ⟨n2, hn2, hn2id, hn2ed⟩ := modNode_node self
                          (fun x => { x with junction := none }) (fun _ => rfl) (fun _ => rfl) hn1
                        have hid2 : n2.id = self := by rw [hn2id, hn1id, hk'.id, hsnid]
                        have hcurr : e0'.id = curr := hke.id.trans hceid
                        have hj2 : Joins e0' cnId n2.id := by
                          rw [hid2]
                          rcases hj' with hh | hh
                          · exact Or.inr hh
                          · exact Or.inl hh
                        obtain ⟨t', hr, ht', hsp, _⟩ := removeLeaf_tree hT2 (e := e0') he0' hn2 hj2
                          (by rw [hn2ed, hn1ed, hed', hcurr])
                        rw [hcurr, hid2] at hr
                        unfold removeLeaf at hr
                        rw [hdis] at hr
                        simp only [Option.map_some, Option.some.injEq] at hr
                        have hfin : ∀ j i, JPairs ((t3.deleteEdge curr).deleteNode self) j i ↔
                            i ≠ self ∧ ((i = cnId ∧ j = sj) ∨ (i ≠ cnId ∧ JPairs s.t j i)) := by
                          intro j i
                          rw [hr, IdentifySpec.jpairs hT2.1 hsp, hP2, hid2]
                          constructor
                          · rintro ⟨hh, _⟩; exact hh
                          · intro hh; exact ⟨hh, hh.1⟩
                        exact ⟨hI.moveA ht.1 hself hcnn hne hfin rfl rfl,
                          fun j i hp => Or.inl (keepsA _ hfin j i hp), Nat.le_refl _, rfl,
                          lostA _ hfin, Or.inl ⟨rfl, rfl, keepsA _ hfin⟩⟩
                    · split at h
                      · cases h
                      · simp only [Option.some.injEq] at h
                        subst h
                        exact ⟨hI.moveA ht.1 hself hcnn hne hP2 rfl rfl,
                          fun j i hp => Or.inl (keepsA _ hP2 j i hp), Nat.le_refl _, rfl,
                          lostA _ hP2, Or.inl ⟨rfl, rfl, keepsA _ hP2⟩⟩
                  · split at h
                    · simp only [Option.some.injEq] at h
                      subst h
                      have hfin : ∀ j i, JPairs (t1.modNode cnId (fun x => { x with junction := some s.nextJ })) j i ↔
                          (i = cnId ∧ j = s.nextJ) ∨ (i ≠ cnId ∧ JPairs s.t j i) := by
                        intro j i
                        rw [JPairs_modNode_junction, ← hJ j i]
                        constructor
                        · rintro (⟨h1, h2, _⟩ | hh)
                          · exact Or.inl ⟨h1, (Option.some.inj h2).symm⟩
                          · exact Or.inr hh
                        · rintro (⟨h1, h2⟩ | hh)
                          · exact Or.inl ⟨h1, by rw [h2], hcnV⟩
                          · exact Or.inr hh
                      refine ⟨hI.moveB hself hcnn hne hfresh hnd' hfin rfl rfl, ?_, Nat.le_succ _, rfl, ?_,
                        Or.inr ⟨rfl, ⟨cnId, (hfin _ _).mpr (Or.inl ⟨rfl, rfl⟩)⟩, rfl⟩⟩
                      · intro j i hp
                        rcases (hfin j i).mp hp with ⟨_, h2⟩ | ⟨_, hh⟩
                        · exact Or.inr ⟨h2, rfl⟩
                        · exact Or.inl ⟨i, hh⟩
                      · intro j i hp
                        exact ⟨i, (hfin _ _).mpr (Or.inr ⟨fun hh => hcnn j (hh ▸ hp), hp⟩)⟩
                    · have hJ0 : JSame s.t sc.t := hspec.le.jsame
                      obtain ⟨r1, r2⟩ := ih { s with t := sc.t } r hspec.tree (hI.of_jsame hJ0 rfl rfl)
                        ((hJ0 _ _).mp hself) (fun i hh => hfresh i ((hJ0 _ _).mpr hh)) hnd' h
                      refine ⟨r1, ?_, r2.nextJ, r2.delJ, ?_, ?_⟩
                      · intro j i hp
                        rcases r2.juncs j i hp with ⟨i', hh⟩ | hh
                        · exact Or.inl ⟨i', (hJ0 _ _).mpr hh⟩
                        · exact Or.inr hh
                      · intro j i hp
                        exact r2.lost j i ((hJ0 _ _).mp hp)
                      · rcases r2.newJ with ⟨h1, h2, h3⟩ | hh
                        · refine Or.inl ⟨h1, h2, fun j i hp => ?_⟩
                          obtain ⟨i', hh⟩ := h3 j i hp
                          exact ⟨i', (hJ0 _ _).mpr hh⟩
                        · exact Or.inr hh
    · cases h

theorem moveJunctionAlongCommonEdge_JInv {s : Imp} {self : Nat} {r : MoveResult} (ht : Tree s.t)
    (hI : JInv' s) (hfresh : ∀ i, ¬ JPairs s.t s.nextJ i) (hnd : s.nextJ ∉ s.delJ)
    (h : moveJunctionAlongCommonEdge s self = some r) :
    ∃ sj, JPairs s.t sj self ∧ JInv' (fixJ sj r) ∧ MoveKeeps s r := by
  unfold moveJunctionAlongCommonEdge at h
  split at h
  · cases h
  · next sn hsn =>
    obtain ⟨hsnm, hsnid⟩ := node?_mem hsn
    split at h
    · cases h
    · next sj hsj =>
      have hself : JPairs s.t sj self := ⟨sn, hsnm, hsnid, hsj⟩
      exact ⟨sj, hself, moveLoop_JInv self sj _ s r ht hI hself hfresh hnd h⟩

theorem moveJunctionStep_core {s : Imp} {j : Nat} {r : MoveResult} (ht : Tree s.t)
    (hI : JInv' s) (hfresh : ∀ i, ¬ JPairs s.t s.nextJ i) (hnd : s.nextJ ∉ s.delJ)
    (h : moveJunctionStep s j = some r) : JInv' r.s ∧ MoveKeeps s r := by
  unfold moveJunctionStep at h
  split at h
  · cases h
  · next j' n hfind =>
    have hp := mem_of_find? hfind
    have hj' : j' = j := by simpa using hp.2
    subst hj'
    have hlive : JPairs s.t j' n := hI.live _ hp.1
    split at h
    · cases h
    · next r0 hr0 =>
      obtain ⟨sj, hself, hJ, hK⟩ := moveJunctionAlongCommonEdge_JInv ht hI hfresh hnd hr0
      have hsj : sj = j' := JPairs_unique ht.1 hself hlive
      subst hsj
      unfold fixJ at hJ
      split at h
      · next hnone =>
        simp only [Option.some.injEq] at h
        subst h
        rw [hnone] at hJ
        exact ⟨hJ, hK⟩
      · next n' hsome =>
        simp only [Option.some.injEq] at h
        subst h
        rw [hsome] at hJ
        exact ⟨hJ, hK.juncs, hK.nextJ, hK.delJ, hK.lost, hK.newJ⟩

/-- the requested form: one step of the caller's loop keeps the junction bookkeeping -/
theorem moveJunctionStep_JInv {s : Imp} {j : Nat} {r : MoveResult} (ht : Tree s.t) (hI : JInv s)
    (hf : s.nextJ ∉ s.t.junctionsOf) (hd : s.nextJ ∉ s.delJ)
    (h : moveJunctionStep s j = some r) : JInv r.s := by
  have ht' := moveJunctionStep_tree ht h
  rw [JInv_iff ht'.1.nodupN]
  exact (moveJunctionStep_core ht ((JInv_iff ht.1.nodupN).mp hI)
    (fun i hp => hf (mem_junctionsOf.mpr ⟨i, hp⟩)) hd h).1

/-- all junction numbers in use are below the allocation counter -/
def JFresh (s : Imp) : Prop :=
  (∀ j ∈ s.t.junctionsOf, j < s.nextJ) ∧ (∀ j ∈ s.delJ, j < s.nextJ)

theorem moveJunctionStep_inv {s : Imp} {j : Nat} {r : MoveResult} (ht : Tree s.t) (hI : JInv s)
    (hF : JFresh s) (h : moveJunctionStep s j = some r) : Tree r.s.t ∧ JInv r.s ∧ JFresh r.s := by
  have hf : s.nextJ ∉ s.t.junctionsOf := fun hh => Nat.lt_irrefl _ (hF.1 _ hh)
  have hd : s.nextJ ∉ s.delJ := fun hh => Nat.lt_irrefl _ (hF.2 _ hh)
  have ht' := moveJunctionStep_tree ht h
  have hK := (moveJunctionStep_core ht ((JInv_iff ht.1.nodupN).mp hI)
    (fun i hp => hf (mem_junctionsOf.mpr ⟨i, hp⟩)) hd h).2
  refine ⟨ht', moveJunctionStep_JInv ht hI hf hd h, ?_, ?_⟩
  · intro j' hj'
    obtain ⟨i, hp⟩ := mem_junctionsOf.mp hj'
    rcases hK.juncs j' i hp with ⟨i', hh⟩ | ⟨h1, h2⟩
    · exact Nat.lt_of_lt_of_le (hF.1 _ (mem_junctionsOf.mpr ⟨i', hh⟩)) hK.nextJ
    · omega
  · intro j' hj'
    rw [hK.delJ] at hj'
    exact Nat.lt_of_lt_of_le (hF.2 _ hj') hK.nextJ

theorem moveJunctionFully_inv : ∀ (f : Nat) (s : Imp) (j : Nat) (s' : Imp), Tree s.t → JInv s →
    JFresh s → moveJunctionFully f s j = some s' → Tree s'.t ∧ JInv s' ∧ JFresh s' := by
  intro f
  induction f with
  | zero => intro s j s' _ _ _ h; cases h
  | succ f ih =>
    intro s j s' ht hI hF h
    rw [moveJunctionFully] at h
    split at h
    · cases h
    · next r hr =>
      have := moveJunctionStep_inv ht hI hF hr
      split at h
      · simp only [Option.some.injEq] at h; subst h; exact this
      · exact ih _ _ _ this.1 this.2.1 this.2.2 h

/-! ## M5: conservation of junctions -/

/-- the junctions made so far are below the allocation counter -/
def NewJFresh (s : Imp) : Prop := ∀ j ∈ s.newJ, j < s.nextJ

/-- one step of the caller's loop: what it keeps (`MoveKeeps`: nothing lost, at most `s.nextJ` made) -/
theorem moveJunctionStep_keeps {s : Imp} {j : Nat} {r : MoveResult} (ht : Tree s.t) (hI : JInv s)
    (hF : JFresh s) (h : moveJunctionStep s j = some r) : MoveKeeps s r := by
  have hf : s.nextJ ∉ s.t.junctionsOf := fun hh => Nat.lt_irrefl _ (hF.1 _ hh)
  have hd : s.nextJ ∉ s.delJ := fun hh => Nat.lt_irrefl _ (hF.2 _ hh)
  exact (moveJunctionStep_core ht ((JInv_iff ht.1.nodupN).mp hI)
    (fun i hp => hf (mem_junctionsOf.mpr ⟨i, hp⟩)) hd h).2

/-- (iii): the junctions carried after a step are the old ones plus the newly made ones -/
theorem MoveKeeps.junctions {s : Imp} {r : MoveResult} (hK : MoveKeeps s r) (hN : NewJFresh s) :
    (∀ j, (∃ i, JPairs r.s.t j i) ↔ ((∃ i, JPairs s.t j i) ∨ (j ∈ r.s.newJ ∧ j ∉ s.newJ))) ∧
    NewJFresh r.s ∧ ∃ L, r.s.newJ = s.newJ ++ L := by
  have hnn : s.nextJ ∉ s.newJ := fun hh => Nat.lt_irrefl _ (hN _ hh)
  rcases hK.newJ with ⟨h1, h2, h3⟩ | ⟨h1, h2, h3⟩
  · refine ⟨?_, ?_, [], by simp [h1]⟩
    · intro j
      constructor
      · rintro ⟨i, hp⟩; exact Or.inl (h3 j i hp)
      · rintro (⟨i, hp⟩ | ⟨a, b⟩)
        · exact hK.lost j i hp
        · rw [h1] at a; exact absurd a b
    · intro j hj; rw [h1] at hj; rw [h2]; exact hN j hj
  · refine ⟨?_, ?_, [s.nextJ], h1⟩
    · intro j
      constructor
      · rintro ⟨i, hp⟩
        rcases hK.juncs j i hp with hh | ⟨hh, _⟩
        · exact Or.inl hh
        · refine Or.inr ⟨?_, hh ▸ hnn⟩
          rw [h1, hh]; simp
      · rintro (⟨i, hp⟩ | ⟨a, b⟩)
        · exact hK.lost j i hp
        · rw [h1, List.mem_append, List.mem_singleton] at a
          rcases a with a | a
          · exact absurd a b
          · rw [a]; exact h2
    · intro j hj
      rw [h1, List.mem_append, List.mem_singleton] at hj
      rw [h3]
      rcases hj with hj | hj
      · exact Nat.lt_succ_of_lt (hN j hj)
      · omega

/-- everything the junction-move loop keeps, from a state `s` to a later state `s'` -/
structure FullyKeeps (s s' : Imp) : Prop where
  tree : Tree s'.t
  jinv : JInv s'
  jfresh : JFresh s'
  newJFresh : NewJFresh s'
  /-- no junction is lost -/
  lost : ∀ j i, JPairs s.t j i → ∃ i', JPairs s'.t j i'
  /-- conservation: carried junctions = old ones ∪ newly made ones -/
  junctions : ∀ j, (∃ i, JPairs s'.t j i) ↔ ((∃ i, JPairs s.t j i) ∨ (j ∈ s'.newJ ∧ j ∉ s.newJ))
  delJ : s'.delJ = s.delJ
  /-- `s.newJ` is a prefix of `s'.newJ` -/
  newJ : ∃ L, s'.newJ = s.newJ ++ L
  nextJ : s.nextJ ≤ s'.nextJ

theorem FullyKeeps.refl {s : Imp} (ht : Tree s.t) (hI : JInv s) (hF : JFresh s) (hN : NewJFresh s) :
    FullyKeeps s s :=
  ⟨ht, hI, hF, hN, fun j i h => ⟨i, h⟩,
   fun j => ⟨fun h => Or.inl h, fun h => h.elim id (fun h => absurd h.1 h.2)⟩, rfl, ⟨[], by simp⟩,
   Nat.le_refl _⟩

theorem FullyKeeps.trans {a b c : Imp} (h1 : FullyKeeps a b) (h2 : FullyKeeps b c) : FullyKeeps a c := by
  obtain ⟨L1, hL1⟩ := h1.newJ
  obtain ⟨L2, hL2⟩ := h2.newJ
  refine ⟨h2.tree, h2.jinv, h2.jfresh, h2.newJFresh, ?_, ?_, h2.delJ.trans h1.delJ,
    ⟨L1 ++ L2, by rw [hL2, hL1, List.append_assoc]⟩, Nat.le_trans h1.nextJ h2.nextJ⟩
  · intro j i hp
    obtain ⟨i', hp'⟩ := h1.lost j i hp
    exact h2.lost j i' hp'
  · intro j
    have hsub1 : j ∈ a.newJ → j ∈ b.newJ := fun hh => by rw [hL1]; exact List.mem_append_left _ hh
    have hsub2 : j ∈ b.newJ → j ∈ c.newJ := fun hh => by rw [hL2]; exact List.mem_append_left _ hh
    rw [h2.junctions j, h1.junctions j]
    constructor
    · rintro ((hh | ⟨x, y⟩) | ⟨x, y⟩)
      · exact Or.inl hh
      · exact Or.inr ⟨hsub2 x, y⟩
      · exact Or.inr ⟨x, fun hh => y (hsub1 hh)⟩
    · rintro (hh | ⟨x, y⟩)
      · exact Or.inl (Or.inl hh)
      · by_cases hb : j ∈ b.newJ
        · exact Or.inl (Or.inr ⟨hb, y⟩)
        · exact Or.inr ⟨x, hb⟩

/-- (i)–(iii) for one step, with all invariants carried along -/
theorem moveJunctionStep_fullyKeeps {s : Imp} {j : Nat} {r : MoveResult} (ht : Tree s.t) (hI : JInv s)
    (hF : JFresh s) (hN : NewJFresh s) (h : moveJunctionStep s j = some r) : FullyKeeps s r.s := by
  obtain ⟨ht', hI', hF'⟩ := moveJunctionStep_inv ht hI hF h
  have hK := moveJunctionStep_keeps ht hI hF h
  obtain ⟨hj, hN', hL⟩ := hK.junctions hN
  exact ⟨ht', hI', hF', hN', hK.lost, hj, hK.delJ, hL, hK.nextJ⟩

/-- (iv): the same for the whole `while` loop of one junction -/
theorem moveJunctionFully_fullyKeeps : ∀ (f : Nat) (s : Imp) (j : Nat) (s' : Imp), Tree s.t → JInv s →
    JFresh s → NewJFresh s → moveJunctionFully f s j = some s' → FullyKeeps s s' := by
  intro f
  induction f with
  | zero => intro s j s' _ _ _ _ h; cases h
  | succ f ih =>
    intro s j s' ht hI hF hN h
    rw [moveJunctionFully] at h
    split at h
    · cases h
    · next r hr =>
      have hk := moveJunctionStep_fullyKeeps ht hI hF hN hr
      split at h
      · simp only [Option.some.injEq] at h; subst h; exact hk
      · exact hk.trans (ih _ _ _ hk.tree hk.jinv hk.jfresh hk.newJFresh h)

end AdaptaVerif.Lemmas.HyperTreeMove
