/-
C20 ↔ C09 bridge: the scan-line comparator of the C09 model (Model/Scanline.lean, `keyLt ax rank`,
rank = heap address of the Node) is the comparator `Model.Frame.keyLt ax.ctr rank` that
`tie_free_deterministic` is about.
-/
import AdaptaVerif.Model.Scanline
import AdaptaVerif.Lemmas.FrameScan
namespace AdaptaVerif.Lemmas.FrameScanC09
open AdaptaVerif.Model

theorem scanline_keyLt_eq (ax : Scanline.Axis) (rank : Nat → Nat) (u v : Nat) :
    Scanline.keyLt ax rank u v = Frame.keyLt ax.ctr rank u v := by
  unfold Scanline.keyLt Frame.keyLt
  by_cases h1 : ax.ctr u < ax.ctr v
  · simp [h1]
  · by_cases h2 : ax.ctr v < ax.ctr u
    · have hne : ax.ctr u ≠ ax.ctr v := fun h => by rw [h] at h2; exact lt_irrefl _ h2
      simp [h1, h2, hne]
    · have he : ax.ctr u = ax.ctr v := le_antisymm (not_lt.1 h2) (not_lt.1 h1)
      simp [he]

end AdaptaVerif.Lemmas.FrameScanC09
