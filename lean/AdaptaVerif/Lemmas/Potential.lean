/-
Soundness of the shortest-path certificate checker (Check/Potential.lean).
True edge weights live in an arbitrary ordered field K (ℝ for Euclidean lengths); the checker only
sees rational enclosures.
-/
import AdaptaVerif.Check.Potential
import Mathlib.Tactic.Linarith
import Mathlib.Data.Rat.Cast.Order
namespace AdaptaVerif.Lemmas.Potential
open AdaptaVerif.Check.Potential

variable {K : Type} [Field K] [LinearOrder K] [IsStrictOrderedRing K]

/-- a walk a → b along edges of E; c = its total cost under the true weights `tw` -/
inductive Walk (E : List WEdge) (tw : WEdge → K) : Nat → Nat → K → Prop
  | nil (v : Nat) : Walk E tw v v 0
  | cons (e : WEdge) (t : Nat) (c : K) : e ∈ E → Walk E tw e.v t c → Walk E tw e.u t (tw e + c)

/-- weak duality: a feasible potential bounds every walk from below -/
theorem potential_bound (E : List WEdge) (tw : WEdge → K) (π : Nat → K)
    (hfeas : ∀ e ∈ E, π e.v ≤ π e.u + tw e) :
    ∀ a b c, Walk E tw a b c → π b ≤ π a + c := by
  intro a b c h
  induction h with
  | nil v => simp
  | cons e t c he _ ih =>
    have := hfeas e he
    linarith

theorem findEdge_some (E : List WEdge) (u v : Nat) (e : WEdge) (h : findEdge E u v = some e) :
    e ∈ E ∧ e.u = u ∧ e.v = v := by
  unfold findEdge at h
  have hm := List.mem_of_find?_eq_some h
  have hp := List.find?_some h
  simp only [Bool.and_eq_true, beq_iff_eq] at hp
  exact ⟨hm, hp.1, hp.2⟩

/-- a vertex path accepted by `pathHi` is a walk whose true cost is at most the returned bound -/
theorem pathHi_walk (E : List WEdge) (tw : WEdge → K) (hw : ∀ e ∈ E, tw e ≤ (e.whi : K)) :
    ∀ (path : List Nat) (a b : Nat) (hi : Rat), path.head? = some a → path.getLast? = some b →
      pathHi E path = some hi → ∃ c, Walk E tw a b c ∧ c ≤ (hi : K) := by
  intro path
  induction path with
  | nil => intro a b hi h; simp at h
  | cons x rest ih =>
    intro a b hi hh hl hp
    have hxa : x = a := by simpa using hh
    subst hxa
    cases rest with
    | nil =>
      have hb : x = b := by simpa using hl
      subst hb
      simp only [pathHi, Option.some.injEq] at hp
      subst hp
      exact ⟨0, Walk.nil x, by simp⟩
    | cons y rest' =>
      simp only [pathHi] at hp
      cases hfe : findEdge E x y with
      | none => simp [hfe] at hp
      | some e =>
        cases hrec : pathHi E (y :: rest') with
        | none => simp [hfe, hrec] at hp
        | some c' =>
          simp only [hfe, hrec, Option.some.injEq] at hp
          obtain ⟨heE, heu, hev⟩ := findEdge_some E x y e hfe
          have hl' : (y :: rest').getLast? = some b := by
            simpa [List.getLast?_cons_cons] using hl
          obtain ⟨c, hwalk, hc⟩ := ih y b c' (by simp) hl' hrec
          refine ⟨tw e + c, ?_, ?_⟩
          · have := Walk.cons (tw := tw) e b c heE (by rw [hev]; exact hwalk)
            rw [heu] at this
            exact this
          · rw [← hp]
            push_cast
            linarith [hw e heE]

theorem feasible_cast (E : List WEdge) (pot : List Rat) (h : feasible E pot = true)
    (tw : WEdge → K) (hw : ∀ e ∈ E, (e.wlo : K) ≤ tw e) :
    ∀ e ∈ E, ((potAt pot e.v : Rat) : K) ≤ ((potAt pot e.u : Rat) : K) + tw e := by
  intro e he
  unfold feasible at h
  simp only [List.all_eq_true, decide_eq_true_eq] at h
  have h1 : ((potAt pot e.v : Rat) : K) ≤ ((potAt pot e.u + e.wlo : Rat) : K) := Rat.cast_le.mpr (h e he)
  push_cast at h1
  linarith [hw e he]

/-- Soundness of `checkCert`: whatever the true weights are inside their enclosures, every s–t walk
    costs at least `lo` and some s–t walk costs at most `hi`; i.e. the optimum lies in [lo, hi]. -/
theorem checkCert_sound_aux (E : List WEdge) (pot : List Rat) (s t : Nat) (path : List Nat) (lo hi : Rat)
    (h : checkCert E pot s t path = some (lo, hi))
    (tw : WEdge → K) (hw : ∀ e ∈ E, (e.wlo : K) ≤ tw e ∧ tw e ≤ (e.whi : K)) :
    (∀ c, Walk E tw s t c → (lo : K) ≤ c) ∧ (∃ c, Walk E tw s t c ∧ c ≤ (hi : K)) := by
  unfold checkCert at h
  split at h
  · rename_i hc
    obtain ⟨hs0, hfeas, hhead, hlast⟩ := hc
    cases hph : pathHi E path with
    | none => simp [hph] at h
    | some hi' =>
      simp only [hph, Option.map_some, Option.some.injEq, Prod.mk.injEq] at h
      obtain ⟨hlo, hhi⟩ := h
      subst hlo; subst hhi
      constructor
      · intro c hwalk
        have := potential_bound E tw (fun v => ((potAt pot v : Rat) : K))
          (feasible_cast E pot hfeas tw (fun e he => (hw e he).1)) s t c hwalk
        simp only [hs0, Rat.cast_zero, zero_add] at this
        exact this
      · exact pathHi_walk E tw (fun e he => (hw e he).2) path s t hi' hhead hlast hph
  · simp at h

end AdaptaVerif.Lemmas.Potential
