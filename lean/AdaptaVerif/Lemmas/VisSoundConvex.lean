/-
Strictly convex polygons (every corner a strict left turn) satisfy the boundary characterisation of
Lemmas/VisSound.lean; the two edge enumerations (`Geometry.edges`, used by the blocking loop, and
`Check.Route.polyEdges`, used by the route checker) have the same members.
-/
import AdaptaVerif.Lemmas.VisSoundRect
namespace AdaptaVerif.Lemmas.VisSound
open AdaptaVerif.Model.Geometry (Pt area2)
open AdaptaVerif.Check.Route (lerp Poly polyEdges)
open AdaptaVerif.Lemmas.Route (lerp_zero lerp_one)

/-- Local strict convexity of a closed edge cycle (counter-clockwise): every edge is non-degenerate, is
    followed by an edge that starts at its end and has its start strictly to the left (strict left turn
    at e.2), and is preceded by an edge that ends at its start and has its end strictly to the left
    (strict left turn at e.1). -/
structure ConvexCycle (es : List (Pt × Pt)) : Prop where
  nondeg : ∀ e ∈ es, e.1 ≠ e.2
  next : ∀ e ∈ es, ∃ n ∈ es, n.1 = e.2 ∧ 0 < F n e.1
  prev : ∀ e ∈ es, ∃ p ∈ es, p.2 = e.1 ∧ 0 < F p e.2

/-- a point on the line of a non-degenerate edge is an affine combination of its ends -/
theorem on_line_param (e : Pt × Pt) (hne : e.1 ≠ e.2) (P : Pt) (h : F e P = 0) :
    ∃ s : Rat, P = lerp e.1 e.2 s := by
  unfold F area2 at h
  by_cases hx : e.1.x = e.2.x
  · have hy : e.2.y - e.1.y ≠ 0 := by
      intro hy
      apply hne
      exact pt_ext _ _ hx (by linarith)
    refine ⟨(P.y - e.1.y) / (e.2.y - e.1.y), ?_⟩
    apply pt_ext <;> simp only [lerp]
    · have h0 : e.2.x - e.1.x = 0 := by linarith
      rw [h0] at h
      have : (P.x - e.1.x) * (e.2.y - e.1.y) = 0 := by linarith
      rcases mul_eq_zero.mp this with h1 | h1
      · rw [h0]; linarith
      · exact absurd h1 hy
    · field_simp; ring
  · have hx' : e.2.x - e.1.x ≠ 0 := fun h0 => hx (by linarith)
    refine ⟨(P.x - e.1.x) / (e.2.x - e.1.x), ?_⟩
    apply pt_ext <;> simp only [lerp]
    · field_simp; ring
    · field_simp
      linarith

theorem F_start (e : Pt × Pt) : F e e.1 = 0 := by unfold F area2; ring
theorem F_end (e : Pt × Pt) : F e e.2 = 0 := by unfold F area2; ring

theorem boundaryChar_of_convexCycle (es : List (Pt × Pt)) (hC : ConvexCycle es) : BoundaryChar es := by
  refine ⟨hC.nondeg, ?_, ?_⟩
  · intro e he P hF hall
    obtain ⟨s, hs⟩ := on_line_param e (hC.nondeg e he) P hF
    obtain ⟨n, hn, hn1, hnpos⟩ := hC.next e he
    obtain ⟨p, hp, hp2, hppos⟩ := hC.prev e he
    have h1 := hall n hn
    have h2 := hall p hp
    rw [hs, F_lerp] at h1 h2
    have hn0 : F n e.2 = 0 := by rw [← hn1]; exact F_start n
    have hp0 : F p e.1 = 0 := by rw [← hp2]; exact F_end p
    rw [hn0] at h1; rw [hp0] at h2
    refine ⟨s, ?_, ?_, hs⟩
    · by_contra hneg
      have : s * (F p e.2 - 0) < 0 := by
        have := mul_neg_of_neg_of_pos (not_le.mp hneg) hppos
        simpa using this
      linarith
    · by_contra hgt
      have : (1 - s) * F n e.1 < 0 := mul_neg_of_neg_of_pos (by linarith [not_le.mp hgt]) hnpos
      nlinarith
  · intro e he
    obtain ⟨p, hp, hp2, _⟩ := hC.prev e he
    exact ⟨p, hp, hp2⟩

theorem boundaryChar_congr (es es' : List (Pt × Pt)) (h : ∀ e, e ∈ es ↔ e ∈ es') (hB : BoundaryChar es) :
    BoundaryChar es' := by
  refine ⟨fun e he => hB.nondeg e ((h e).mpr he), ?_, ?_⟩
  · intro e he P hF hall
    exact hB.closedEdge e ((h e).mpr he) P hF (fun k hk => hall k ((h k).mp hk))
  · intro e he
    obtain ⟨e', he', h'⟩ := hB.chain e ((h e).mpr he)
    exact ⟨e', (h e').mp he', h'⟩

/-- the two edge enumerations are rotations of each other -/
theorem edges_rotation (v : Pt) (vs : List Pt) :
    ∃ (X : List (Pt × Pt)) (y : Pt × Pt),
      AdaptaVerif.Model.Geometry.edges (v :: vs) = y :: X ∧ polyEdges (v :: vs) = X ++ [y] := by
  have hne : (v :: vs) ≠ [] := by simp
  refine ⟨(v :: vs).dropLast.zip vs, ((v :: vs).getLast hne, v), ?_, ?_⟩
  · unfold AdaptaVerif.Model.Geometry.edges AdaptaVerif.Model.Geometry.prevs
    rw [List.getLast?_eq_getLast hne]
    simp
  · show (v :: vs).zip (vs ++ [v]) = _
    have hlen : (v :: vs).dropLast.length = vs.length := by simp
    have hL : v :: vs = (v :: vs).dropLast ++ [(v :: vs).getLast hne] := (List.dropLast_append_getLast hne).symm
    have e1 : (v :: vs).zip (vs ++ [v]) = ((v :: vs).dropLast ++ [(v :: vs).getLast hne]).zip (vs ++ [v]) :=
      congrArg (fun l => l.zip (vs ++ [v])) hL
    rw [e1, List.zip_append hlen]
    simp

theorem edges_mem_iff (poly : Poly) (e : Pt × Pt) :
    e ∈ AdaptaVerif.Model.Geometry.edges poly ↔ e ∈ polyEdges poly := by
  cases poly with
  | nil => simp [AdaptaVerif.Model.Geometry.edges, AdaptaVerif.Model.Geometry.prevs, polyEdges]
  | cons v vs =>
    obtain ⟨X, y, h1, h2⟩ := edges_rotation v vs
    rw [h1, h2]
    simp [or_comm]

theorem polyEdges_mem_vertices (poly : Poly) (e : Pt × Pt) (he : e ∈ polyEdges poly) : e.1 ∈ poly ∧ e.2 ∈ poly := by
  cases poly with
  | nil => simp [polyEdges] at he
  | cons v vs =>
    unfold polyEdges at he
    have := List.of_mem_zip (a := e.1) (b := e.2) he
    refine ⟨this.1, ?_⟩
    rcases List.mem_append.mp this.2 with h | h
    · exact List.mem_cons_of_mem _ h
    · simp at h; rw [h]; exact List.mem_cons_self

end AdaptaVerif.Lemmas.VisSound
