/-
C07 — the generated `generateSeparationConstraints` methods against the model's DISPATCHER `genSepsOne`
(the function the correspondence harness compares with the real libcola): whenever the dispatcher reports
no error for compound constraint `cc`, the method generated from the C++ source — applied to the members
`cc` stands for — returns exactly the dispatcher's constraints, and all its obligations hold.
-/
import AdaptaVerif.Lemmas.CompoundBridge
import AdaptaVerif.Props.C07
namespace AdaptaVerif.Lemmas.CompoundBridge
open AdaptaVerif.Gen AdaptaVerif.Gen.CompoundK AdaptaVerif.Gen.KeysCompound AdaptaVerif.Model.Compound
open AdaptaVerif.Lemmas.GenLoopBridge

/-- key record of `PageBoundaryShapeOffsets(id, halfW, halfH)` -/
def pageShapeOf (s : Nat × Rat × Rat) : PageShapeK := ⟨s.1, fun d => match d with | .x => s.2.1 | .y => s.2.2⟩

/-- the generated method applied to the members the model's compound constraint `cc` (number `idx`) stands for,
    after `generateVariables` left the auxiliary variable ids `aux` -/
def genOf (dim : Dim) (nvars : Nat) (aux : List Aux) (idx : Nat) : CC → List Sep
  | .boundary d _ offs => boundaryGen dim nvars [] () ⟨d, guideOf aux idx, offs⟩
  | .alignment d _ _ offs => alignmentGen dim nvars [] () ⟨d, guideOf aux idx, offs⟩
  | .separation d l r gap eq => separationGen dim nvars [] () ⟨d, [shapePair l r], gap, eq⟩
  | .sepAlign d l r gap eq => separationGen dim nvars [] () ⟨d, [alignPair (guideOf aux l) (guideOf aux r) l r], gap, eq⟩
  | .multiSep d sep eq pairs => multiSepGen dim nvars [] () ⟨d, pairs.map (fun p => (⟨guideOf aux p.1⟩, ⟨guideOf aux p.2⟩)), sep, eq⟩
  | .distribution d sep pairs => distributionGen dim nvars [] () ⟨d, pairs.map (fun p => (⟨guideOf aux p.1⟩, ⟨guideOf aux p.2⟩)), sep, true⟩
  | .fixedRel _ _ rel => fixedRelGen dim nvars [] () ⟨rel⟩
  | .pageBounds _ _ _ _ _ shapes =>
    pageBoundaryGen dim nvars [] () ⟨fun _ => (aux.getD idx {}).pageL, fun _ => (aux.getD idx {}).pageR, shapes.map pageShapeOf⟩

def genOfPre (dim : Dim) (nvars : Nat) (aux : List Aux) (idx : Nat) : CC → Bool
  | .boundary d _ offs => boundaryGen_pre dim nvars [] () ⟨d, guideOf aux idx, offs⟩
  | .alignment d _ _ offs => alignmentGen_pre dim nvars [] () ⟨d, guideOf aux idx, offs⟩
  | .separation d l r gap eq => separationGen_pre dim nvars [] () ⟨d, [shapePair l r], gap, eq⟩
  | .sepAlign d l r gap eq => separationGen_pre dim nvars [] () ⟨d, [alignPair (guideOf aux l) (guideOf aux r) l r], gap, eq⟩
  | .multiSep d sep eq pairs => multiSepGen_pre dim nvars [] () ⟨d, pairs.map (fun p => (⟨guideOf aux p.1⟩, ⟨guideOf aux p.2⟩)), sep, eq⟩
  | .distribution d sep pairs => distributionGen_pre dim nvars [] () ⟨d, pairs.map (fun p => (⟨guideOf aux p.1⟩, ⟨guideOf aux p.2⟩)), sep, true⟩
  | .fixedRel _ _ rel => fixedRelGen_pre dim nvars [] () ⟨rel⟩
  | .pageBounds _ _ _ _ _ shapes =>
    pageBoundaryGen_pre dim nvars [] () ⟨fun _ => (aux.getD idx {}).pageL, fun _ => (aux.getD idx {}).pageR, shapes.map pageShapeOf⟩

/-- a run of the model's sub-constraint loop without error: no item was `bad`, every validated index was valid -/
theorem runItems_none_inv (nvars cc : Nat) (items : List Item) (acc res : List Sep)
    (h : runItems nvars cc items acc = (res, none)) :
    ∀ it ∈ items, ∃ ids seps, it = .ok ids seps ∧ ∀ i ∈ ids, i < nvars := by
  induction items generalizing acc with
  | nil => intro it hit; cases hit
  | cons it rest ih =>
    cases it with
    | bad => simp [runItems] at h
    | ok ids seps =>
      simp only [runItems] at h
      cases hf : firstInvalid nvars ids with
      | some i => rw [hf] at h; simp at h
      | none =>
        rw [hf] at h
        intro it hit
        rcases List.mem_cons.mp hit with rfl | hit
        · refine ⟨ids, seps, rfl, ?_⟩
          intro i hi
          unfold firstInvalid at hf
          rw [List.find?_eq_none] at hf
          have := hf i hi
          simpa using this
        · exact ih _ h it hit

theorem flatMap_congr' {α β : Type} (f g : α → List β) (l : List α) (h : ∀ a ∈ l, f a = g a) : l.flatMap f = l.flatMap g := by
  induction l with
  | nil => rfl
  | cons a t ih =>
    rw [List.flatMap_cons, List.flatMap_cons, h a (by simp), ih (fun b hb => h b (by simp [hb]))]

theorem shapeTriple_pageShapeOf (s : Nat × Rat × Rat) : shapeTriple (pageShapeOf s) = s := rfl

theorem gen_dispatch (dim : Dim) (nvars : Nat) (aux : List Aux) (idx : Nat) (cc : CC) (seps : List Sep)
    (h : genSepsOne dim nvars aux idx cc = (seps, none)) :
    genOf dim nvars aux idx cc = seps ∧ genOfPre dim nvars aux idx cc = true := by
  unfold genSepsOne at h
  cases hit : itemsOf dim aux idx cc with
  | none => rw [hit] at h; simp at h
  | some items =>
    rw [hit] at h
    simp only at h
    have hinv := runItems_none_inv _ _ _ _ _ h
    have hres := AdaptaVerif.Props.C07.runItems_ok _ _ _ _ _ h
    simp only [List.nil_append] at hres
    subst hres
    cases cc with
    | boundary d pos offs =>
      simp only [genOf, genOfPre, boundary_eq, List.nil_append]
      simp only [itemsOf] at hit
      by_cases hd : dim = d
      · simp only [hd, if_true] at hit ⊢
        cases hg : guideOf aux idx with
        | none => rw [hg] at hit; simp at hit
        | some v =>
          rw [hg] at hit
          simp only [Option.map_some, Option.some.injEq] at hit
          subst hit
          refine ⟨?_, ?_⟩
          · simp [List.flatMap_map, Item.seps, boundarySeps, AdaptaVerif.Lemmas.Compound.flatMap_single]
          · apply boundary_pre_true
            · intro _; rfl
            · intro _ p hp
              obtain ⟨ids, sp, he, hids⟩ := hinv (.ok [p.1] (boundarySeps v [p])) (List.mem_map.mpr ⟨p, hp, rfl⟩)
              cases he
              exact hids p.1 (by simp)
      · simp only [hd, if_false, Option.some.injEq] at hit
        subst hit
        refine ⟨by simp [hd], ?_⟩
        apply boundary_pre_true <;> intro h' <;> exact absurd h' hd
    | alignment d pos f offs =>
      simp only [genOf, genOfPre, alignment_eq, List.nil_append]
      simp only [itemsOf] at hit
      by_cases hd : dim = d
      · simp only [hd, if_true] at hit ⊢
        cases hg : guideOf aux idx with
        | none => rw [hg] at hit; simp at hit
        | some v =>
          rw [hg] at hit
          simp only [Option.map_some, Option.some.injEq] at hit
          subst hit
          refine ⟨?_, ?_⟩
          · simp [List.flatMap_map, Item.seps, alignmentSeps, AdaptaVerif.Lemmas.Compound.flatMap_single]
          · apply alignment_pre_true
            · intro _; rfl
            · intro _ p hp
              obtain ⟨ids, sp, he, hids⟩ := hinv (.ok [p.1] (alignmentSeps v [p])) (List.mem_map.mpr ⟨p, hp, rfl⟩)
              cases he
              exact hids p.1 (by simp)
      · simp only [hd, if_false, Option.some.injEq] at hit
        subst hit
        refine ⟨by simp [hd], ?_⟩
        apply alignment_pre_true <;> intro h' <;> exact absurd h' hd
    | separation d l r gap eq =>
      simp only [genOf, genOfPre, separation_eq, List.nil_append, List.headD_cons, (index_shapePair l r).1, (index_shapePair l r).2]
      simp only [itemsOf] at hit
      by_cases hd : dim = d
      · simp only [hd, if_true, Option.some.injEq] at hit ⊢
        subst hit
        refine ⟨by simp [Item.seps], ?_⟩
        obtain ⟨ids, sp, he, hids⟩ := hinv (.ok [l, r] (separationSeps l r gap eq)) (by simp)
        cases he
        apply separation_pre_true _ _ _ _ (shapePair l r) rfl ⟨rfl, rfl⟩
        intro _
        rw [(index_shapePair l r).1, (index_shapePair l r).2]
        exact ⟨hids l (by simp), hids r (by simp)⟩
      · simp only [hd, if_false, Option.some.injEq] at hit
        subst hit
        refine ⟨by simp [hd], ?_⟩
        apply separation_pre_true _ _ _ _ (shapePair l r) rfl ⟨rfl, rfl⟩
        intro h'; exact absurd h' hd
    | sepAlign d l r gap eq =>
      simp only [genOf, genOfPre, separation_eq, List.nil_append, List.headD_cons]
      simp only [itemsOf] at hit
      by_cases hd : dim = d
      · simp only [hd, if_true] at hit ⊢
        cases hl : guideOf aux l with
        | none => rw [hl] at hit; simp at hit
        | some vl =>
          cases hr : guideOf aux r with
          | none => rw [hl, hr] at hit; simp at hit
          | some vr =>
            rw [hl, hr] at hit
            simp only [Option.some.injEq] at hit
            subst hit
            rw [(index_alignPair vl vr l r).1, (index_alignPair vl vr l r).2]
            refine ⟨by simp [Item.seps], ?_⟩
            obtain ⟨ids, sp, he, hids⟩ := hinv (.ok [vl, vr] (separationSeps vl vr gap eq)) (by simp)
            cases he
            apply separation_pre_true _ _ _ _ (alignPair (some vl) (some vr) l r) rfl ⟨rfl, rfl⟩
            intro _
            rw [(index_alignPair vl vr l r).1, (index_alignPair vl vr l r).2]
            exact ⟨hids vl (by simp), hids vr (by simp)⟩
      · simp only [hd, if_false, Option.some.injEq] at hit
        subst hit
        refine ⟨by simp [hd], ?_⟩
        unfold separationGen_pre
        simp [hd]
    | multiSep d sep eq pairs =>
      simp only [genOf, genOfPre, multiSep_eq, List.nil_append]
      simp only [itemsOf] at hit
      by_cases hd : dim = d
      · simp only [hd, if_true, Option.some.injEq] at hit ⊢
        subst hit
        have hall : ∀ p ∈ pairs, (guideOf aux p.1).isSome = true ∧ (guideOf aux p.2).isSome = true := by
          intro p hp
          obtain ⟨ids, sp, he, _⟩ := hinv _ (List.mem_map.mpr ⟨p, hp, rfl⟩)
          cases h1 : guideOf aux p.1 <;> cases h2 : guideOf aux p.2 <;> simp [h1, h2] at he ⊢
        refine ⟨?_, ?_⟩
        · unfold pairItems multiSeps
          rw [List.flatMap_map, List.map_map, List.map_map]
          rw [← AdaptaVerif.Lemmas.Compound.flatMap_single]
          apply flatMap_congr'
          intro p hp
          have := hall p hp
          cases h1 : guideOf aux p.1 <;> cases h2 : guideOf aux p.2 <;> simp [h1, h2, Item.seps, pairIds] at this ⊢
        · apply multiSep_pre_true
          intro _ p hp
          obtain ⟨q, hq, rfl⟩ := List.mem_map.mp hp
          exact hall q hq
      · simp only [hd, if_false, Option.some.injEq] at hit
        subst hit
        refine ⟨by simp [hd], ?_⟩
        apply multiSep_pre_true; intro h'; exact absurd h' hd
    | distribution d sep pairs =>
      simp only [genOf, genOfPre, distribution_eq, List.nil_append]
      simp only [itemsOf] at hit
      by_cases hd : dim = d
      · simp only [hd, if_true, Option.some.injEq] at hit ⊢
        subst hit
        have hall : ∀ p ∈ pairs, (guideOf aux p.1).isSome = true ∧ (guideOf aux p.2).isSome = true := by
          intro p hp
          obtain ⟨ids, sp, he, _⟩ := hinv _ (List.mem_map.mpr ⟨p, hp, rfl⟩)
          cases h1 : guideOf aux p.1 <;> cases h2 : guideOf aux p.2 <;> simp [h1, h2] at he ⊢
        refine ⟨?_, ?_⟩
        · unfold pairItems multiSeps
          rw [List.flatMap_map, List.map_map, List.map_map]
          rw [← AdaptaVerif.Lemmas.Compound.flatMap_single]
          apply flatMap_congr'
          intro p hp
          have := hall p hp
          cases h1 : guideOf aux p.1 <;> cases h2 : guideOf aux p.2 <;> simp [h1, h2, Item.seps, pairIds] at this ⊢
        · apply distribution_pre_true
          intro _ p hp
          obtain ⟨q, hq, rfl⟩ := List.mem_map.mp hp
          exact hall q hq
      · simp only [hd, if_false, Option.some.injEq] at hit
        subst hit
        refine ⟨by simp [hd], ?_⟩
        apply distribution_pre_true; intro h'; exact absurd h' hd
    | fixedRel fp sv rel =>
      simp only [genOf, genOfPre, fixedRel_eq, List.nil_append]
      have hv := AdaptaVerif.Props.C07.itemsOf_fixedRel dim aux idx fp sv rel
      rw [hit] at hv
      simp only [Option.map_some, Option.some.injEq] at hv
      refine ⟨hv.symm, ?_⟩
      simp only [itemsOf, Option.some.injEq] at hit
      subst hit
      apply fixedRel_pre_true
      intro o ho hod
      obtain ⟨ids, sp, he, hids⟩ := hinv (.ok [o.first, o.second] (fixedRelSeps dim [o]))
        (List.mem_map.mpr ⟨o, List.mem_filter.mpr ⟨ho, by simp [hod]⟩, rfl⟩)
      cases he
      exact ⟨hids _ (by simp), hids _ (by simp)⟩
    | pageBounds a b c e w shapes =>
      simp only [genOf, genOfPre, pageBoundary_eq, List.nil_append, List.map_map]
      have hv := AdaptaVerif.Props.C07.itemsOf_pageBounds dim aux idx a b c e w shapes
      rw [hit] at hv
      simp only [Option.map_some, Option.some.injEq] at hv
      refine ⟨?_, ?_⟩
      · rw [hv]
        have : (shapeTriple ∘ pageShapeOf) = id := by funext s; rfl
        rw [this, List.map_id]
      · simp only [itemsOf, Option.some.injEq] at hit
        subst hit
        apply pageBoundary_pre_true
        intro s hs
        obtain ⟨q, hq, rfl⟩ := List.mem_map.mp hs
        obtain ⟨ids, sp, he, hids⟩ := hinv _ (List.mem_map.mpr ⟨q, hq, rfl⟩)
        cases he
        show q.1 < nvars
        exact hids q.1 (by simp)

end AdaptaVerif.Lemmas.CompoundBridge
