/-
C19 — assembling the output of `AdaptaVerif.Model.Peel.peel` into `Spec.GraphParts.PeelSpec`
(everything except the two fields about tree roots, which are hypotheses of the bundling
theorem). Core Lean only.
-/
import AdaptaVerif.Lemmas.PeelModel

namespace AdaptaVerif.Lemmas.PeelModel
open AdaptaVerif.Spec.UGraph AdaptaVerif.Model.Peel AdaptaVerif.Lemmas.PeelDefs
open AdaptaVerif.Lemmas.PeelComps
open AdaptaVerif.Spec.GraphParts (SameEdge HasEdge ExactlyOne PeelSpec)

/-! ### generic facts about `ExactlyOne` and `SameEdge` -/

theorem exactlyOne_of_pairwise {α : Type} {l : List α} {P : α → Prop}
    (hpw : l.Pairwise (fun a b => ¬ (P a ∧ P b))) {a : α} (ha : a ∈ l) (hp : P a) :
    ExactlyOne l P := by
  obtain ⟨l1, l2, hl⟩ := List.append_of_mem ha
  rw [hl] at hpw
  obtain ⟨_, h2, h3⟩ := List.pairwise_append.1 hpw
  refine ⟨l1, a, l2, hl, hp, ?_, ?_⟩
  · intro b hb hpb
    exact h3 b hb a List.mem_cons_self ⟨hpb, hp⟩
  · intro b hb hpb
    exact (List.pairwise_cons.1 h2).1 b hb ⟨hp, hpb⟩

theorem exactlyOne_map {α β : Type} {l : List α} {g : α → β} {P : β → Prop}
    (h : ExactlyOne l (fun x => P (g x))) : ExactlyOne (l.map g) P := by
  obtain ⟨l1, a, l2, hl, hp, h1, h2⟩ := h
  refine ⟨l1.map g, g a, l2.map g, by rw [hl, List.map_append, List.map_cons], hp, ?_, ?_⟩
  · intro b hb
    obtain ⟨x, hx, rfl⟩ := List.mem_map.1 hb
    exact h1 x hx
  · intro b hb
    obtain ⟨x, hx, rfl⟩ := List.mem_map.1 hb
    exact h2 x hx

theorem exactlyOne_cons_head {α : Type} {l : List α} {P : α → Prop} {a : α} (hp : P a)
    (hn : ∀ b, b ∈ l → ¬ P b) : ExactlyOne (a :: l) P :=
  ⟨[], a, l, rfl, hp, (fun _ hb => by cases hb), hn⟩

theorem exactlyOne_cons_tail {α : Type} {l : List α} {P : α → Prop} {a : α} (hp : ¬ P a)
    (h : ExactlyOne l P) : ExactlyOne (a :: l) P := by
  obtain ⟨l1, x, l2, hl, hx, h1, h2⟩ := h
  refine ⟨a :: l1, x, l2, by rw [hl]; rfl, hx, ?_, h2⟩
  intro b hb
  cases List.mem_cons.1 hb with
  | inl h => exact h ▸ hp
  | inr h => exact h1 b h

theorem sameEdge_iff {e f : Nat × Nat} :
    SameEdge e f ↔ (e.1 = f.1 ∧ e.2 = f.2) ∨ (e.1 = f.2 ∧ e.2 = f.1) := by
  obtain ⟨a, b⟩ := e
  obtain ⟨c, d⟩ := f
  simp only [SameEdge, Prod.mk.injEq]

theorem sameEdge_trans' {e f g : Nat × Nat} (h1 : SameEdge e f) (h2 : SameEdge e g) :
    SameEdge f g := by
  rw [sameEdge_iff] at *
  rcases h1 with ⟨a, b⟩ | ⟨a, b⟩ <;> rcases h2 with ⟨c, d⟩ | ⟨c, d⟩
  · exact Or.inl ⟨a.symm.trans c, b.symm.trans d⟩
  · exact Or.inr ⟨a.symm.trans c, b.symm.trans d⟩
  · exact Or.inr ⟨b.symm.trans d, a.symm.trans c⟩
  · exact Or.inl ⟨b.symm.trans d, a.symm.trans c⟩

/-! ### D. the output of `peel` -/

/-- unfolding of `peel` -/
theorem peel_eq {ns : List Nat} {es : List (Nat × Nat)} {out : PeelOut}
    (h : peel ns es = some out) :
    ∃ s cs, rounds (ns.length + 1) ⟨ns, es, []⟩ = some s ∧
      getConnComps (sortNat (hNodes s.stems)) (hEdges s.stems) = some cs ∧
      out.trees = cs.map (fun c => (⟨c.nodes, c.edges,
        identifyRoot (assignSerials s.stems) (sortNat c.nodes)⟩ : TreeOut)) ∧
      out.coreNodes = s.nodes ∧ out.coreEdges = s.edges ∧ out.stems = s.stems := by
  unfold peel at h
  split at h
  · cases h
  · rename_i s hs
    unfold finish at h
    split at h
    · cases h
    · rename_i cs hcs
      injection h with h
      subst h
      exact ⟨s, cs, hs, hcs, rfl, rfl, rfl, rfl⟩

theorem mem_sortNat {l : List Nat} {v : Nat} : v ∈ sortNat l ↔ v ∈ l := by
  unfold sortNat; exact List.mem_mergeSort

/-- endpoint hypothesis of the `comps_*` theorems for H -/
theorem hEdges_endpoints (stems : List (Nat × Nat)) :
    ∀ e, e ∈ hEdges stems → e.1 ∈ sortNat (hNodes stems) ∧ e.2 ∈ sortNat (hNodes stems) := by
  intro e he
  have : (e.2, e.1) ∈ stems := mem_hEdges.1 he
  exact ⟨mem_sortNat.2 (mem_hNodes.2 ⟨_, this, Or.inr rfl⟩),
    mem_sortNat.2 (mem_hNodes.2 ⟨_, this, Or.inl rfl⟩)⟩

/-- D1 -/
theorem peel_core {ns : List Nat} {es : List (Nat × Nat)} {out : PeelOut} (hs : Simple ns es)
    (h : peel ns es = some out) :
    out.coreNodes.Sublist ns ∧ out.coreNodes.Nodup ∧
    out.coreEdges = es.filter (fun e => out.coreNodes.contains e.1 && out.coreNodes.contains e.2) ∧
    NoDegreeOne out.coreNodes out.coreEdges := by
  obtain ⟨s, cs, hr, _, _, hn, he, _⟩ := peel_eq h
  obtain ⟨hinv, hl⟩ := rounds_final hs hr
  rw [hn, he]
  exact ⟨hinv.nodes_sub, hinv.nodes_nodup hs, hinv.edges_eq, noDegreeOne_of_leaves_nil hl⟩

section
variable {ns : List Nat} {es : List (Nat × Nat)} {s : PState} {cs : List Comp}

/-- D2 on components: a node of H is in exactly one component -/
theorem comps_exactlyOne (hcs : getConnComps (sortNat (hNodes s.stems)) (hEdges s.stems) = some cs)
    {v : Nat} {c : Comp} (hc : c ∈ cs) (hv : v ∈ c.nodes) :
    ExactlyOne cs (fun c => v ∈ c.nodes) := by
  refine exactlyOne_of_pairwise ?_ hc hv
  refine List.Pairwise.imp ?_ (comps_disjoint hcs (hEdges_endpoints _))
  intro a b hab hp
  exact hab v hp.1 hp.2

/-- D4 on components: a stem edge is in exactly one component -/
theorem comps_edge_exactlyOne (hr : Ranked s.stems)
    (hcs : getConnComps (sortNat (hNodes s.stems)) (hEdges s.stems) = some cs)
    {e f : Nat × Nat} (hf : f ∈ hEdges s.stems) (hef : SameEdge e f) :
    ExactlyOne cs (fun c => HasEdge c.edges e) := by
  have hE := hEdges_endpoints s.stems
  obtain ⟨c, hc, hfc⟩ := comps_edge_cover hcs hE f hf
  refine exactlyOne_of_pairwise ?_ hc ⟨f, hfc, hef⟩
  refine List.Pairwise.imp_of_mem ?_ (comps_edge_disjoint hcs hE)
  intro a b ha hb hab hp
  obtain ⟨⟨g, hg, heg⟩, ⟨g', hg', heg'⟩⟩ := hp
  have hgH := ((comps_edges_iff hcs hE a ha g).1 hg).1
  have hgH' := ((comps_edges_iff hcs hE b hb g').1 hg').1
  have : g = g' := hEdges_same_eq hr hgH hgH' (sameEdge_trans' heg heg')
  exact hab g hg (this ▸ hg')

end

/-- everything of `PeelSpec` except the two fields about roots -/
theorem peel_spec {ns : List Nat} {es : List (Nat × Nat)} {out : PeelOut} (hs : Simple ns es)
    (hc : Connected ns es) (h : peel ns es = some out)
    (root_mem : ∀ t, t ∈ out.trees → t.root ∈ t.nodes)
    (shared : out.coreNodes ≠ [] → ∀ t, t ∈ out.trees → ∀ v, v ∈ t.nodes →
      (v ∈ out.coreNodes ↔ v = t.root)) :
    PeelSpec ns es out.trees out.coreNodes out.coreEdges := by
  obtain ⟨s, cs, hr, hcs, htrees, hn, he, _⟩ := peel_eq h
  obtain ⟨hinv, hl⟩ := rounds_final hs hr
  have hrk : Ranked s.stems := rounds_ranked hs hc hr
  have hE := hEdges_endpoints s.stems
  -- trees are the components
  have htmem : ∀ t, t ∈ out.trees → ∃ c, c ∈ cs ∧ t.nodes = c.nodes ∧ t.edges = c.edges := by
    intro t ht
    rw [htrees] at ht
    obtain ⟨c, hc, rfl⟩ := List.mem_map.1 ht
    exact ⟨c, hc, rfl, rfl⟩
  have hnodes_one : ∀ v, ExactlyOne cs (fun c => v ∈ c.nodes) →
      ExactlyOne out.trees (fun t => v ∈ t.nodes) := by
    intro v hx
    rw [htrees]
    exact exactlyOne_map (P := fun t : TreeOut => v ∈ t.nodes) hx
  have hedges_map : out.trees.map (·.edges) = cs.map (·.edges) := by
    rw [htrees, List.map_map]; rfl
  have stem_in_ns : ∀ v, v ∈ hNodes s.stems → v ∈ ns := by
    intro v hv
    obtain ⟨⟨l, r⟩, hst, hor⟩ := mem_hNodes.1 hv
    obtain ⟨_, _, h1, h2, _⟩ := hinv.stem_mem hs hst
    cases hor with
    | inl e => exact e ▸ h1
    | inr e => exact e ▸ h2
  refine
    { node_cover := ?_, node_atmost := ?_, core_sub := ?_, tree_sub := ?_, root_mem := root_mem,
      shared := shared, edge_once := ?_, core_edges_sub := ?_, tree_edges_sub := ?_,
      trees_ok := ?_, core_deg := ?_ }
  · intro v hv
    cases hinv.node_cover' v hv with
    | inl h1 => exact Or.inl (hn ▸ h1)
    | inr h1 =>
      obtain ⟨c, hc, hvc⟩ := comps_cover hcs hE v (mem_sortNat.2 h1)
      exact Or.inr (hnodes_one v (comps_exactlyOne hcs hc hvc))
  · intro v _
    by_cases hex : ∃ c, c ∈ cs ∧ v ∈ c.nodes
    · obtain ⟨c, hc, hvc⟩ := hex
      exact Or.inr (hnodes_one v (comps_exactlyOne hcs hc hvc))
    · left
      intro t ht hvt
      obtain ⟨c, hc, e1, _⟩ := htmem t ht
      exact hex ⟨c, hc, e1 ▸ hvt⟩
  · intro v hv
    exact hinv.nodes_subset v (hn ▸ hv)
  · intro t ht v hv
    obtain ⟨c, hc, e1, _⟩ := htmem t ht
    exact stem_in_ns v (mem_sortNat.1 (comps_subset hcs hE c hc v (e1 ▸ hv)))
  · intro e hee
    rw [hedges_map, he]
    cases hinv.edge_cover e hee with
    | inl h1 =>
      refine exactlyOne_cons_head ⟨e, h1, Or.inl rfl⟩ ?_
      intro p hp hhas
      obtain ⟨c, hc, rfl⟩ := List.mem_map.1 hp
      obtain ⟨g, hg, heg⟩ := hhas
      have hgH := ((comps_edges_iff hcs hE c hc g).1 hg).1
      have hst : (g.2, g.1) ∈ s.stems := mem_hEdges.1 hgH
      have hleaf := (hinv.stem_ok _ _ hst).2
      obtain ⟨_, m1, m2⟩ := hinv.mem_edges.1 h1
      rcases sameEdge_iff.1 heg with ⟨_, b⟩ | ⟨a, _⟩
      · exact hleaf (b ▸ m2)
      · exact hleaf (a ▸ m1)
    | inr h1 =>
      -- the stem edge `f ∈ hEdges` with the same ends as `e`, and its leaf end `l ∉ s.nodes`
      have hf : ∃ f, f ∈ hEdges s.stems ∧ SameEdge e f ∧ (f.2, f.1) ∈ s.stems := by
        cases h1 with
        | inl h2 => exact ⟨(e.2, e.1), mem_hEdges.2 h2, Or.inr rfl, h2⟩
        | inr h2 => exact ⟨(e.1, e.2), mem_hEdges.2 h2, Or.inl rfl, h2⟩
      obtain ⟨f, hfH, hef, hfst⟩ := hf
      refine exactlyOne_cons_tail ?_
        (exactlyOne_map (P := fun p : List (Nat × Nat) => HasEdge p e)
          (comps_edge_exactlyOne hrk hcs hfH hef))
      rintro ⟨g, hg, heg⟩
      have hfg := sameEdge_trans' heg hef
      have hleaf := (hinv.stem_ok _ _ hfst).2
      obtain ⟨_, m1, m2⟩ := hinv.mem_edges.1 hg
      rcases sameEdge_iff.1 hfg with ⟨_, b⟩ | ⟨a, _⟩
      · exact hleaf (b ▸ m2)
      · exact hleaf (a ▸ m1)
  · intro f hf
    rw [he] at hf
    obtain ⟨m0, m1, m2⟩ := hinv.mem_edges.1 hf
    exact ⟨⟨f, m0, Or.inl rfl⟩, hn ▸ m1, hn ▸ m2⟩
  · intro t ht f hf
    obtain ⟨c, hc, e1, e2⟩ := htmem t ht
    rw [e2] at hf
    rw [e1]
    obtain ⟨hfH, hf1⟩ := (comps_edges_iff hcs hE c hc f).1 hf
    obtain ⟨_, hf2⟩ := (comps_edges_iff' hcs hE c hc f).1 hf
    refine ⟨?_, hf1, hf2⟩
    have hst : (f.2, f.1) ∈ s.stems := mem_hEdges.1 hfH
    cases (hinv.stem_ok _ _ hst).1 with
    | inl hm => exact ⟨(f.2, f.1), hm, Or.inr rfl⟩
    | inr hm => exact ⟨f, hm, Or.inl rfl⟩
  · intro t ht
    obtain ⟨c, hc, e1, e2⟩ := htmem t ht
    rw [e1, e2]
    refine ⟨comps_nonempty hcs hE c hc, comps_connected hcs hE c hc, ?_⟩
    exact Acyclic.mono (fun e hec => ((comps_edges_iff hcs hE c hc e).1 hec).1)
      (ranked_acyclic hrk)
  · rw [hn, he]
    exact noDegreeOne_of_leaves_nil hl

end AdaptaVerif.Lemmas.PeelModel
