/-
Optimality of the A* model (`Model/AStar.lean`, part 1) under a consistent heuristic, with libavoid's
under-charged last hop ("cost target" → target costs 0 although the heuristic counts its length):
the node `search` returns minimises g + bonus over all source→target paths of the state graph that
meet the target vertex only at their end.  Closed list, no re-opening; step costs may be negative —
only consistency is used.
-/
import AdaptaVerif.Lemmas.AStarSound
namespace AdaptaVerif.Lemmas.AStarOpt
open AdaptaVerif.Model.AStar AdaptaVerif.Lemmas.AStarSpec AdaptaVerif.Lemmas.AStarSound

/-- bonus of the vertex a goal node was entered from -/
def bonusOf (bonus : Nat → Rat) : Option Nat → Rat
  | some p => bonus p
  | none => 0

/-! ### `extractBest` returns an f-minimal node when eps = 0 -/

theorem worse_true {x b : Node} (h : worse 0 x b = true) : b.f ≤ x.f := by
  unfold worse absR at h
  split at h
  · simp only [gt_iff_lt] at h; grind
  · grind

theorem worse_false {x b : Node} (h : worse 0 x b = false) : x.f ≤ b.f := by
  unfold worse absR at h
  split at h
  · simp only [gt_iff_lt] at h; grind
  · grind

theorem extractBest_none (eps : Rat) : ∀ l, extractBest eps l = none → l = [] := by
  intro l h
  cases l with
  | nil => rfl
  | cons y ys =>
    exfalso
    unfold extractBest at h
    cases hy : extractBest eps ys with
    | none => rw [hy] at h; simp at h
    | some p =>
      obtain ⟨b', r'⟩ := p
      rw [hy] at h
      simp only at h
      split at h <;> simp at h

theorem extractBest_min : ∀ (l : List Node) (b : Node) (rest : List Node),
    extractBest 0 l = some (b, rest) → ∀ n ∈ l, b.f ≤ n.f := by
  intro l
  induction l with
  | nil => intro b rest h; simp [extractBest] at h
  | cons x xs ih =>
    intro b rest h n hn
    unfold extractBest at h
    cases hx : extractBest 0 xs with
    | none =>
      rw [hx] at h
      simp only [Option.some.injEq, Prod.mk.injEq] at h
      obtain ⟨rfl, rfl⟩ := h
      have := extractBest_none 0 xs hx
      subst this
      simp only [List.mem_singleton] at hn
      subst hn
      exact Rat.le_refl
    | some p =>
      obtain ⟨b', r'⟩ := p
      rw [hx] at h
      simp only at h
      have ih' := ih b' r' hx
      simp only [List.mem_cons] at hn
      split at h
      · rename_i hw
        simp only [Option.some.injEq, Prod.mk.injEq] at h
        obtain ⟨rfl, rfl⟩ := h
        rcases hn with rfl | hn
        · exact worse_true hw
        · exact ih' n hn
      · rename_i hw
        simp only [Option.some.injEq, Prod.mk.injEq] at h
        obtain ⟨rfl, rfl⟩ := h
        have hw' : worse 0 x b' = false := by simpa using hw
        have h1 := worse_false hw'
        rcases hn with rfl | hn
        · exact Rat.le_refl
        · have h2 := ih' n hn
          grind

/-! ### what `updPending` / `relax` do to the (v, pv)-keyed g-values -/

/-- each old element is kept, or replaced by `node` which has the same key and a smaller g -/
theorem updPending_old (node : Node) : ∀ (l p : List Node), updPending node l = some p →
    ∀ m ∈ l, m ∈ p ∨ (node ∈ p ∧ node.v = m.v ∧ node.pv = m.pv ∧ node.g < m.g) := by
  intro l
  induction l with
  | nil => intro p h; simp [updPending] at h
  | cons a rest ih =>
    intro p h m hm
    unfold updPending at h
    simp only [List.mem_cons] at hm
    split at h
    · rename_i hk
      have hk' := (sameKey_iff _ _).1 hk
      simp only [Option.some.injEq] at h
      subst h
      split
      · rename_i hg
        rcases hm with rfl | hm
        · exact Or.inr ⟨List.mem_cons_self, hk'.1, hk'.2, hg⟩
        · exact Or.inl (List.mem_cons_of_mem _ hm)
      · rcases hm with rfl | hm
        · exact Or.inl List.mem_cons_self
        · exact Or.inl (List.mem_cons_of_mem _ hm)
    · cases hu : updPending node rest with
      | none => rw [hu] at h; simp at h
      | some q =>
        rw [hu] at h
        simp only [Option.map_some, Option.some.injEq] at h
        subst h
        rcases hm with rfl | hm
        · exact Or.inl List.mem_cons_self
        · rcases ih q hu m hm with h1 | ⟨h1, h2⟩
          · exact Or.inl (List.mem_cons_of_mem _ h1)
          · exact Or.inr ⟨List.mem_cons_of_mem _ h1, h2⟩

/-- when `updPending` finds the key, afterwards an entry with that key has g ≤ node.g -/
theorem updPending_new (node : Node) : ∀ (l p : List Node), updPending node l = some p →
    ∃ m ∈ p, m.v = node.v ∧ m.pv = node.pv ∧ m.g ≤ node.g := by
  intro l
  induction l with
  | nil => intro p h; simp [updPending] at h
  | cons a rest ih =>
    intro p h
    unfold updPending at h
    split at h
    · rename_i hk
      have hk' := (sameKey_iff _ _).1 hk
      simp only [Option.some.injEq] at h
      subst h
      split
      · exact ⟨node, List.mem_cons_self, rfl, rfl, Rat.le_refl⟩
      · rename_i hg
        exact ⟨a, List.mem_cons_self, hk'.1.symm, hk'.2.symm, Rat.not_lt.mp hg⟩
    · cases hu : updPending node rest with
      | none => rw [hu] at h; simp at h
      | some q =>
        rw [hu] at h
        simp only [Option.map_some, Option.some.injEq] at h
        subst h
        obtain ⟨m, hm, h2⟩ := ih q hu
        exact ⟨m, List.mem_cons_of_mem _ hm, h2⟩

/-- the node `relax` builds for the edge `s` of `best` -/
def mkNode (best : Node) (bi : Nat) (st : St) (s : Succ) : Node :=
  { v := s.w, pv := some best.v, prev := some bi, g := best.g + s.c, h := s.h, ts := st.time }

theorem relax_new_mem (best : Node) (bi : Nat) (st : St) (s : Succ) :
    ∀ n ∈ (relax best bi st (some s)).pending, n ∈ st.pending ∨ n = mkNode best bi st s := by
  intro n hn
  rcases relax_pending_mem best bi st (some s) n hn with h | ⟨s', hs', h⟩
  · exact Or.inl h
  · simp only [Option.some.injEq] at hs'
    subst hs'
    exact Or.inr h

theorem relax_old (best : Node) (bi : Nat) (st : St) (s : Succ) :
    ∀ m ∈ st.pending, m ∈ (relax best bi st (some s)).pending ∨
      (mkNode best bi st s ∈ (relax best bi st (some s)).pending ∧
        (mkNode best bi st s).v = m.v ∧ (mkNode best bi st s).pv = m.pv ∧
        (mkNode best bi st s).g < m.g) := by
  intro m hm
  unfold relax
  simp only
  split
  · rename_i p hp
    exact updPending_old _ _ _ hp m hm
  · split
    · exact Or.inl hm
    · exact Or.inl (List.mem_append_left _ hm)

theorem relax_new (best : Node) (bi : Nat) (st : St) (s : Succ) :
    (∃ m ∈ (relax best bi st (some s)).pending, m.v = (mkNode best bi st s).v ∧
        m.pv = (mkNode best bi st s).pv ∧ m.g ≤ (mkNode best bi st s).g) ∨
    (∃ a ∈ st.done, a.v = (mkNode best bi st s).v ∧ a.pv = (mkNode best bi st s).pv) := by
  unfold relax
  simp only
  split
  · rename_i p hp
    exact Or.inl (updPending_new _ _ _ hp)
  · split
    · rename_i hany
      simp only [List.any_eq_true, Bool.and_eq_true] at hany
      obtain ⟨a, ha, hk, _⟩ := hany
      have hk' := (sameKey_iff _ _).1 hk
      exact Or.inr ⟨a, ha, hk'.1.symm, hk'.2.symm⟩
    · exact Or.inl ⟨mkNode best bi st s, by simp [mkNode], rfl, rfl, Rat.le_refl⟩

/-! ### the "true" priority -/

/-- g + heuristic of a non-target state, g + bonus of a target state -/
def phi (P : Problem) (H : Nat → Option Nat → Rat) (bonus : Nat → Rat)
    (v : Nat) (pv : Option Nat) (g : Rat) : Rat :=
  if v = P.tar then g + bonusOf bonus pv else g + H v pv

def ft (P : Problem) (H : Nat → Option Nat → Rat) (bonus : Nat → Rat) (n : Node) : Rat :=
  phi P H bonus n.v n.pv n.g

/-- the hypotheses of `search_optimal` -/
structure Hyp (P : Problem) (H : Nat → Option Nat → Rat) (bonus : Nat → Rat)
    (Legit : Option Nat → Nat → Prop) : Prop where
  heps : P.eps = 0
  hst : P.src ≠ P.tar
  hL0 : Legit none P.src
  hLs : ∀ pv v s, Legit pv v → some s ∈ P.succs pv v → Legit (some v) s.w
  hH0 : P.h0 = H P.src none
  hH : ∀ pv v s, Legit pv v → some s ∈ P.succs pv v → s.h = H s.w (some v)
  hgoal : ∀ pv, H P.tar pv = 0
  hbonus : ∀ v, 0 ≤ bonus v
  hcons : ∀ pv v s, Legit pv v → some s ∈ P.succs pv v → s.w ≠ P.tar →
      H v pv ≤ s.c + H s.w (some v)
  hcg : ∀ pv v s, Legit pv v → some s ∈ P.succs pv v → s.w = P.tar →
      H v pv ≤ s.c + bonus v ∧ (bonus v = 0 ∨ H v pv = s.c + bonus v)

section
variable {P : Problem} {H : Nat → Option Nat → Rat} {bonus : Nat → Rat}
  {Legit : Option Nat → Nat → Prop}

theorem phi_mono (v : Nat) (pv : Option Nat) {g g' : Rat} (h : g ≤ g') :
    phi P H bonus v pv g ≤ phi P H bonus v pv g' := by
  unfold phi; split <;> grind

theorem phi_nontar {v : Nat} (pv : Option Nat) (g : Rat) (h : v ≠ P.tar) :
    phi P H bonus v pv g = g + H v pv := by
  simp [phi, h]

theorem phi_tar {v : Nat} (pv : Option Nat) (g : Rat) (h : v = P.tar) :
    phi P H bonus v pv g = g + bonusOf bonus pv := by
  simp [phi, h]

theorem bonusOf_nonneg (hyp : Hyp P H bonus Legit) (pv : Option Nat) : 0 ≤ bonusOf bonus pv := by
  cases pv with
  | none => exact Rat.le_refl
  | some p => exact hyp.hbonus p

theorem f_eq_ft {n : Node} (h0 : n.h = H n.v n.pv) (hnt : n.v ≠ P.tar) :
    n.f = ft P H bonus n := by
  simp [Node.f, ft, phi, hnt, h0]

theorem f_le_ft (hyp : Hyp P H bonus Legit) {n : Node} (h0 : n.h = H n.v n.pv) :
    n.f ≤ ft P H bonus n := by
  by_cases hnt : n.v = P.tar
  · have h1 := bonusOf_nonneg hyp n.pv
    have h2 := hyp.hgoal n.pv
    rw [← hnt] at h2
    simp only [Node.f, ft, phi, hnt, if_true, h0]
    rw [hnt] at h2
    grind
  · rw [f_eq_ft h0 hnt]; exact Rat.le_refl

/-- consistency: the priority does not decrease along an examined edge out of a non-target state -/
theorem phi_step (hyp : Hyp P H bonus Legit) {pv : Option Nat} {v : Nat} {s : Succ} (g : Rat)
    (hl : Legit pv v) (hs : some s ∈ P.succs pv v) (hv : v ≠ P.tar) :
    phi P H bonus v pv g ≤ phi P H bonus s.w (some v) (g + s.c) := by
  rw [phi_nontar pv g hv]
  by_cases hw : s.w = P.tar
  · rw [phi_tar _ _ hw]
    have := (hyp.hcg pv v s hl hs hw).1
    simp only [bonusOf]
    grind
  · rw [phi_nontar _ _ hw]
    have := hyp.hcons pv v s hl hs hw
    grind

theorem ft_mkNode (b : Node) (bi : Nat) (st : St) (s : Succ) :
    ft P H bonus (mkNode b bi st s) = phi P H bonus s.w (some b.v) (b.g + s.c) := rfl

/-! ### invariants -/

/-- state invariant between iterations of `search` -/
structure Inv (P : Problem) (H : Nat → Option Nat → Rat) (bonus : Nat → Rat)
    (Legit : Option Nat → Nat → Prop) (st : St) : Prop where
  il : ∀ n, n ∈ st.pending ∨ n ∈ st.done → Legit n.pv n.v
  i0 : ∀ n, n ∈ st.pending ∨ n ∈ st.done → n.h = H n.v n.pv
  ib : ∃ n, (n ∈ st.pending ∨ n ∈ st.done) ∧ n.v = P.src ∧ n.pv = none ∧ n.g ≤ 0
  ia : ∀ s ∈ st.done, ∀ e, some e ∈ P.succs s.pv s.v →
    ∃ m, (m ∈ st.pending ∨ m ∈ st.done) ∧ m.v = e.w ∧ m.pv = some s.v ∧ m.g ≤ s.g + e.c
  ic : ∀ s ∈ st.done, ∀ n ∈ st.pending, ft P H bonus s ≤ ft P H bonus n
  id : ∀ s ∈ st.done, s.v ≠ P.tar
  ig : ∀ t ∈ st.pending, t.v = P.tar →
    bonusOf bonus t.pv = 0 ∨ ∃ s ∈ st.done, ft P H bonus t ≤ ft P H bonus s

/-- invariant inside the edge loop of the closed node `b`; `todo` = edges still to examine -/
structure InvE (P : Problem) (H : Nat → Option Nat → Rat) (bonus : Nat → Rat)
    (Legit : Option Nat → Nat → Prop) (b : Node)
    (todo : List (Option Succ)) (st : St) : Prop where
  il : ∀ n, n ∈ st.pending ∨ n ∈ st.done → Legit n.pv n.v
  i0 : ∀ n, n ∈ st.pending ∨ n ∈ st.done → n.h = H n.v n.pv
  ib : ∃ n, (n ∈ st.pending ∨ n ∈ st.done) ∧ n.v = P.src ∧ n.pv = none ∧ n.g ≤ 0
  ie : ∀ s ∈ st.done, ∀ e, some e ∈ P.succs s.pv s.v → (s = b ∧ some e ∈ todo) ∨
    ∃ m, (m ∈ st.pending ∨ m ∈ st.done) ∧ m.v = e.w ∧ m.pv = some s.v ∧ m.g ≤ s.g + e.c
  ic : ∀ s ∈ st.done, ∀ n ∈ st.pending, ft P H bonus s ≤ ft P H bonus n
  id : ∀ s ∈ st.done, s.v ≠ P.tar
  ig : ∀ t ∈ st.pending, t.v = P.tar →
    bonusOf bonus t.pv = 0 ∨ ∃ s ∈ st.done, ft P H bonus t ≤ ft P H bonus s
  ifb : ∀ s ∈ st.done, ft P H bonus s ≤ ft P H bonus b
  bd : b ∈ st.done
  bt : b.v ≠ P.tar
  sub : ∀ x ∈ todo, x ∈ P.succs b.pv b.v

theorem Inv_init (hyp : Hyp P H bonus Legit) : Inv P H bonus Legit (init P) := by
  constructor
  · intro n hn
    simp only [init, List.mem_singleton, List.not_mem_nil, or_false] at hn
    subst hn
    exact hyp.hL0
  · intro n hn
    simp only [init, List.mem_singleton, List.not_mem_nil, or_false] at hn
    subst hn
    exact hyp.hH0
  · exact ⟨{ v := P.src, pv := none, prev := none, g := 0, h := P.h0, ts := 1 },
      Or.inl (by simp [init]), rfl, rfl, Rat.le_refl⟩
  · intro s hs; simp [init] at hs
  · intro s hs; simp [init] at hs
  · intro s hs; simp [init] at hs
  · intro t ht htt
    simp only [init, List.mem_singleton] at ht
    subst ht
    exact absurd htt hyp.hst

theorem InvE_nil {b : Node} {st : St} (h : InvE P H bonus Legit b [] st) : Inv P H bonus Legit st := by
  refine ⟨h.il, h.i0, h.ib, ?_, h.ic, h.id, h.ig⟩
  intro s hs e he
  rcases h.ie s hs e he with ⟨_, h2⟩ | h2
  · simp at h2
  · exact h2

theorem InvE_relax (hyp : Hyp P H bonus Legit) {b : Node} (bi : Nat) {x : Option Succ}
    {todo : List (Option Succ)} {st : St} (h : InvE P H bonus Legit b (x :: todo) st) :
    InvE P H bonus Legit b todo (relax b bi st x) := by
  have hsub : ∀ y ∈ todo, y ∈ P.succs b.pv b.v := fun y hy => h.sub y (List.mem_cons_of_mem _ hy)
  cases x with
  | none =>
    refine ⟨h.il, h.i0, h.ib, ?_, h.ic, h.id, h.ig, h.ifb, h.bd, h.bt, hsub⟩
    intro s hs e he
    rcases h.ie s hs e he with ⟨h1, h2⟩ | h2
    · simp only [List.mem_cons, reduceCtorEq, false_or] at h2
      exact Or.inl ⟨h1, h2⟩
    · exact Or.inr h2
  | some s =>
    have hs : some s ∈ P.succs b.pv b.v := h.sub _ List.mem_cons_self
    have hdone : (relax b bi st (some s)).done = st.done := relax_done _ _ _ _
    have hnew := relax_new_mem b bi st s
    have hold := relax_old b bi st s
    have hbl : Legit b.pv b.v := h.il b (Or.inr h.bd)
    have hnode_h : (mkNode b bi st s).h = H (mkNode b bi st s).v (mkNode b bi st s).pv :=
      hyp.hH _ _ _ hbl hs
    have hftb : ft P H bonus b ≤ ft P H bonus (mkNode b bi st s) := by
      rw [ft_mkNode]; exact phi_step hyp b.g hbl hs h.bt
    -- every old node still has a representative with the same key and a g not larger
    have hrep : ∀ m, (m ∈ st.pending ∨ m ∈ st.done) →
        ∃ m', (m' ∈ (relax b bi st (some s)).pending ∨ m' ∈ (relax b bi st (some s)).done) ∧
          m'.v = m.v ∧ m'.pv = m.pv ∧ m'.g ≤ m.g := by
      intro m hm
      rcases hm with hm | hm
      · rcases hold m hm with h1 | ⟨h1, h2, h3, h4⟩
        · exact ⟨m, Or.inl h1, rfl, rfl, Rat.le_refl⟩
        · exact ⟨_, Or.inl h1, h2, h3, Rat.le_of_lt h4⟩
      · exact ⟨m, Or.inr (by rw [hdone]; exact hm), rfl, rfl, Rat.le_refl⟩
    constructor
    · -- il
      intro n hn
      rw [hdone] at hn
      rcases hn with hn | hn
      · rcases hnew n hn with h1 | rfl
        · exact h.il n (Or.inl h1)
        · exact hyp.hLs _ _ _ hbl hs
      · exact h.il n (Or.inr hn)
    · -- i0
      intro n hn
      rw [hdone] at hn
      rcases hn with hn | hn
      · rcases hnew n hn with h1 | rfl
        · exact h.i0 n (Or.inl h1)
        · exact hnode_h
      · exact h.i0 n (Or.inr hn)
    · -- ib
      obtain ⟨n, hn, h1, h2, h3⟩ := h.ib
      obtain ⟨m', hm', k1, k2, k3⟩ := hrep n hn
      exact ⟨m', hm', k1.trans h1, k2.trans h2, Rat.le_trans k3 h3⟩
    · -- ie
      intro s' hs' e he
      rw [hdone] at hs'
      have finish : (∃ m, (m ∈ st.pending ∨ m ∈ st.done) ∧ m.v = e.w ∧ m.pv = some s'.v ∧
          m.g ≤ s'.g + e.c) → (s' = b ∧ some e ∈ todo) ∨
          ∃ m, (m ∈ (relax b bi st (some s)).pending ∨ m ∈ (relax b bi st (some s)).done) ∧
            m.v = e.w ∧ m.pv = some s'.v ∧ m.g ≤ s'.g + e.c := by
        rintro ⟨m, hm, h1, h2, h3⟩
        obtain ⟨m', hm', k1, k2, k3⟩ := hrep m hm
        exact Or.inr ⟨m', hm', k1.trans h1, k2.trans h2, Rat.le_trans k3 h3⟩
      rcases h.ie s' hs' e he with ⟨h1, h2⟩ | h2
      · simp only [List.mem_cons, Option.some.injEq] at h2
        rcases h2 with h2 | h2
        · subst h1
          subst h2
          rcases relax_new s' bi st e with ⟨m, hm, k1, k2, k3⟩ | ⟨a, ha, k1, k2⟩
          · exact Or.inr ⟨m, Or.inl hm, k1, k2, k3⟩
          · refine Or.inr ⟨a, Or.inr (by rw [hdone]; exact ha), k1, k2, ?_⟩
            have hat : a.v ≠ P.tar := h.id a ha
            have k1' : a.v = e.w := k1
            have k2' : a.pv = some s'.v := k2
            have hew : e.w ≠ P.tar := by rw [← k1']; exact hat
            have hle := h.ifb a ha
            have hc := hyp.hcons _ _ _ hbl hs hew
            simp only [ft] at hle
            rw [phi_nontar _ _ hat, phi_nontar _ _ h.bt, k1', k2'] at hle
            grind
        · exact Or.inl ⟨h1, h2⟩
      · exact finish h2
    · -- ic
      intro s' hs' n hn
      rw [hdone] at hs'
      rcases hnew n hn with h1 | rfl
      · exact h.ic s' hs' n h1
      · exact Rat.le_trans (h.ifb s' hs') hftb
    · -- id
      intro s' hs'; rw [hdone] at hs'; exact h.id s' hs'
    · -- ig
      intro t ht htt
      rw [hdone]
      rcases hnew t ht with h1 | rfl
      · exact h.ig t h1 htt
      · have hw : s.w = P.tar := htt
        rcases (hyp.hcg _ _ _ hbl hs hw).2 with h0 | h1
        · exact Or.inl h0
        · refine Or.inr ⟨b, h.bd, ?_⟩
          rw [ft_mkNode, phi_tar _ _ hw]
          simp only [ft]
          rw [phi_nontar _ _ h.bt, h1]
          simp only [bonusOf]
          grind
    · -- ifb
      intro s' hs'; rw [hdone] at hs'; exact h.ifb s' hs'
    · rw [hdone]; exact h.bd
    · exact h.bt
    · exact hsub

theorem InvE_foldl (hyp : Hyp P H bonus Legit) (b : Node) (bi : Nat) :
    ∀ (todo : List (Option Succ)) (st : St), InvE P H bonus Legit b todo st →
      Inv P H bonus Legit (todo.foldl (relax b bi) st) := by
  intro todo
  induction todo with
  | nil => intro st h; exact InvE_nil h
  | cons x todo ih =>
    intro st h
    simp only [List.foldl_cons]
    exact ih _ (InvE_relax hyp bi h)

/-- closing a non-target f-minimal node establishes the edge-loop invariant -/
theorem InvE_close (hyp : Hyp P H bonus Legit) {st : St} {b : Node} {rest : List Node}
    (inv : Inv P H bonus Legit st) (hx : extractBest P.eps st.pending = some (b, rest))
    (hbt : b.v ≠ P.tar) :
    InvE P H bonus Legit b (P.succs b.pv b.v)
      { pending := rest, done := st.done ++ [b], time := st.time } := by
  have hmem := extractBest_mem _ _ _ _ hx
  rw [hyp.heps] at hx
  have hmin := extractBest_min _ _ _ hx
  have hbp : b ∈ st.pending := (hmem b).2 (Or.inl rfl)
  have hin : ∀ n, (n ∈ rest ∨ n ∈ st.done ++ [b]) → (n ∈ st.pending ∨ n ∈ st.done) := by
    intro n hn
    simp only [List.mem_append, List.mem_singleton] at hn
    rcases hn with hn | hn | rfl
    · exact Or.inl ((hmem n).2 (Or.inr hn))
    · exact Or.inr hn
    · exact Or.inl hbp
  have hout : ∀ n, (n ∈ st.pending ∨ n ∈ st.done) → (n ∈ rest ∨ n ∈ st.done ++ [b]) := by
    intro n hn
    simp only [List.mem_append, List.mem_singleton]
    rcases hn with hn | hn
    · rcases (hmem n).1 hn with h1 | h1
      · exact Or.inr (Or.inr h1)
      · exact Or.inl h1
    · exact Or.inr (Or.inl hn)
  constructor
  · intro n hn; exact inv.il n (hin n hn)
  · intro n hn; exact inv.i0 n (hin n hn)
  · obtain ⟨n, hn, h1⟩ := inv.ib
    exact ⟨n, hout n hn, h1⟩
  · intro s hs e he
    simp only [List.mem_append, List.mem_singleton] at hs
    rcases hs with hs | rfl
    · obtain ⟨m, hm, h1⟩ := inv.ia s hs e he
      exact Or.inr ⟨m, hout m hm, h1⟩
    · exact Or.inl ⟨rfl, he⟩
  · intro s hs n hn
    have hnp : n ∈ st.pending := (hmem n).2 (Or.inr hn)
    simp only [List.mem_append, List.mem_singleton] at hs
    rcases hs with hs | rfl
    · exact inv.ic s hs n hnp
    · rw [← f_eq_ft (inv.i0 s (Or.inl hbp)) hbt]
      exact Rat.le_trans (hmin n hnp) (f_le_ft hyp (inv.i0 n (Or.inl hnp)))
  · intro s hs
    simp only [List.mem_append, List.mem_singleton] at hs
    rcases hs with hs | rfl
    · exact inv.id s hs
    · exact hbt
  · intro t ht htt
    rcases inv.ig t ((hmem t).2 (Or.inr ht)) htt with h1 | ⟨s, hs, h1⟩
    · exact Or.inl h1
    · exact Or.inr ⟨s, List.mem_append_left _ hs, h1⟩
  · intro s hs
    simp only [List.mem_append, List.mem_singleton] at hs
    rcases hs with hs | rfl
    · exact inv.ic s hs b hbp
    · exact Rat.le_refl
  · simp
  · exact hbt
  · intro x hx; exact hx

/-! ### every path is witnessed by an open node that is at least as good, or by a closed node -/

theorem reach_head {v : Nat} {pv : Option Nat} {c : Rat} {path : List Nat}
    (h : Reach P v pv c path) : path.head? = some v := by
  cases h <;> rfl

theorem reach_legit (hyp : Hyp P H bonus Legit) {v : Nat} {pv : Option Nat} {c : Rat}
    {path : List Nat} (h : Reach P v pv c path) : Legit pv v := by
  induction h with
  | start => exact hyp.hL0
  | step s _ hs ih => exact hyp.hLs _ _ _ ih hs

theorem path_claim (hyp : Hyp P H bonus Legit) {st : St} (inv : Inv P H bonus Legit st)
    {v : Nat} {pv : Option Nat} {c : Rat} {path : List Nat} (hr : Reach P v pv c path) :
    P.tar ∉ path.tail →
    (∃ n ∈ st.pending, ft P H bonus n ≤ phi P H bonus v pv c) ∨
    (∃ n ∈ st.done, n.v = v ∧ n.pv = pv ∧ n.g ≤ c) := by
  induction hr with
  | start =>
    intro _
    obtain ⟨n, hn, h1, h2, h3⟩ := inv.ib
    rcases hn with hn | hn
    · refine Or.inl ⟨n, hn, ?_⟩
      simp only [ft]
      rw [h1, h2]
      exact phi_mono _ _ h3
    · exact Or.inr ⟨n, hn, h1, h2, h3⟩
  | @step v pv c path s hr hs ih =>
    intro htl
    simp only [List.tail_cons] at htl
    have hhd := reach_head hr
    have hvt : v ≠ P.tar ∧ P.tar ∉ path.tail := by
      cases path with
      | nil => simp at hhd
      | cons a path' =>
        simp only [List.head?_cons, Option.some.injEq] at hhd
        subst hhd
        simp only [List.mem_cons, not_or] at htl
        exact ⟨fun h => htl.1 h.symm, htl.2⟩
    rcases ih hvt.2 with ⟨n, hn, h1⟩ | ⟨n, hn, h1, h2, h3⟩
    · exact Or.inl ⟨n, hn, Rat.le_trans h1 (phi_step hyp c (reach_legit hyp hr) hs hvt.1)⟩
    · subst h1
      subst h2
      obtain ⟨m, hm, k1, k2, k3⟩ := inv.ia n hn s hs
      have k4 : m.g ≤ c + s.c := by grind
      rcases hm with hm | hm
      · refine Or.inl ⟨m, hm, ?_⟩
        simp only [ft]
        rw [k1, k2]
        exact phi_mono _ _ k4
      · exact Or.inr ⟨m, hm, k1, k2, k4⟩

theorem final_step (hyp : Hyp P H bonus Legit) {st : St} (inv : Inv P H bonus Legit st) {b : Node}
    {rest : List Node} (hx : extractBest P.eps st.pending = some (b, rest)) (hbt : b.v = P.tar) :
    ∀ u c path, Reach P P.tar (some u) c path → P.tar ∉ path.tail →
      b.g + bonusOf bonus b.pv ≤ c + bonus u := by
  intro u c path hr htl
  have hmem := extractBest_mem _ _ _ _ hx
  rw [hyp.heps] at hx
  have hmin := extractBest_min _ _ _ hx
  have hbp : b ∈ st.pending := (hmem b).2 (Or.inl rfl)
  have hftb : ft P H bonus b = b.g + bonusOf bonus b.pv := phi_tar _ _ hbt
  rcases path_claim hyp inv hr htl with ⟨n, hn, h1⟩ | ⟨n, hn, h1, _⟩
  · rw [phi_tar _ _ rfl] at h1
    simp only [bonusOf] at h1
    have hbn : ft P H bonus b ≤ ft P H bonus n := by
      rcases inv.ig b hbp hbt with h0 | ⟨s, hs, h2⟩
      · have h3 := hmin n hn
        have h4 := f_le_ft hyp (inv.i0 n (Or.inl hn))
        have h5 : b.f = b.g := by
          have := inv.i0 b (Or.inl hbp)
          have hg := hyp.hgoal b.pv
          rw [← hbt] at hg
          simp only [Node.f, this, hg]
          grind
        rw [hftb, h0]
        grind
      · exact Rat.le_trans h2 (inv.ic s hs n hn)
    grind
  · exact absurd h1 (inv.id n hn)

theorem search_optimal_gen (hyp : Hyp P H bonus Legit) : ∀ (fuel : Nat) (st : St) (b : Node)
    (done : List Node), Inv P H bonus Legit st → search P fuel st = .found b done →
    ∀ u c path, Reach P P.tar (some u) c path → P.tar ∉ path.tail →
      b.g + bonusOf bonus b.pv ≤ c + bonus u := by
  intro fuel
  induction fuel with
  | zero => intro st b done _ h; simp [search] at h
  | succ fuel ih =>
    intro st b done inv h
    unfold search at h
    split at h
    · simp at h
    · rename_i b' rest hx
      simp only at h
      split at h
      · rename_i hbt
        simp only [Outcome.found.injEq] at h
        obtain ⟨rfl, _⟩ := h
        exact final_step hyp inv hx hbt
      · rename_i hbt
        exact ih _ b done (InvE_foldl hyp b' _ _ _ (InvE_close hyp inv hx hbt)) h

end

theorem search_optimal (P : Problem) (H : Nat → Option Nat → Rat) (bonus : Nat → Rat)
    (Legit : Option Nat → Nat → Prop)
    (heps : P.eps = 0) (hst : P.src ≠ P.tar)
    (hL0 : Legit none P.src)
    (hLs : ∀ pv v s, Legit pv v → some s ∈ P.succs pv v → Legit (some v) s.w)
    (hH0 : P.h0 = H P.src none)
    (hH : ∀ pv v s, Legit pv v → some s ∈ P.succs pv v → s.h = H s.w (some v))
    (hgoal : ∀ pv, H P.tar pv = 0)
    (hbonus : ∀ v, 0 ≤ bonus v)
    (hcons : ∀ pv v s, Legit pv v → some s ∈ P.succs pv v → s.w ≠ P.tar → H v pv ≤ s.c + H s.w (some v))
    (hcg : ∀ pv v s, Legit pv v → some s ∈ P.succs pv v → s.w = P.tar →
        H v pv ≤ s.c + bonus v ∧ (bonus v = 0 ∨ H v pv = s.c + bonus v))
    (fuel : Nat) (b : Node) (done : List Node)
    (h : search P fuel (init P) = .found b done) :
    ∀ u c path, Reach P P.tar (some u) c path → P.tar ∉ path.tail →
      b.g + bonusOf bonus b.pv ≤ c + bonus u :=
  have hyp : Hyp P H bonus Legit :=
    ⟨heps, hst, hL0, hLs, hH0, hH, hgoal, hbonus, hcons, hcg⟩
  search_optimal_gen hyp fuel (init P) b done (Inv_init hyp) h

/-- textbook form: consistent heuristic, no bonus, hypotheses on all states — the returned node has
    minimal g among all source→target paths that meet the target vertex only at their end -/
theorem search_optimal_textbook (P : Problem) (H : Nat → Option Nat → Rat)
    (heps : P.eps = 0) (hst : P.src ≠ P.tar)
    (hH0 : P.h0 = H P.src none)
    (hH : ∀ pv v s, some s ∈ P.succs pv v → s.h = H s.w (some v))
    (hgoal : ∀ pv, H P.tar pv = 0)
    (hcons : ∀ pv v s, some s ∈ P.succs pv v → H v pv ≤ s.c + H s.w (some v))
    (fuel : Nat) (b : Node) (done : List Node)
    (h : search P fuel (init P) = .found b done) :
    ∀ u c path, Reach P P.tar (some u) c path → P.tar ∉ path.tail → b.g ≤ c := by
  intro u c path hr htl
  have := search_optimal P H (fun _ => 0) (fun _ _ => True) heps hst trivial
    (fun _ _ _ _ _ => trivial) hH0 (fun pv v s _ hs => hH pv v s hs) hgoal
    (fun _ => Rat.le_refl) (fun pv v s _ hs _ => hcons pv v s hs)
    (fun pv v s _ hs hw => by
      have h1 := hcons pv v s hs
      rw [hw, hgoal] at h1
      exact ⟨h1, Or.inl rfl⟩)
    fuel b done h u c path hr htl
  have hb : bonusOf (fun _ => (0 : Rat)) b.pv = 0 := by cases b.pv <;> rfl
  rw [hb] at this
  grind

end AdaptaVerif.Lemmas.AStarOpt
