/-
Helper lemmas for Props/C13Prune (model: Model/TopoPrune — `PruneDegenerate::operator()` and
`validTurn` of libtopology's TopologyConstraints constructor): sign lemmas over Rat, the
index-filter `keepBy` behind `prune`, the five-slot form `markOf` of `markAt`, the picture
symmetries of a bend point.
-/
import AdaptaVerif.Model.TopoPrune
import Mathlib.Tactic.Linarith
import Mathlib.Tactic.Ring
import Mathlib.Algebra.Order.Field.Rat
namespace AdaptaVerif.Lemmas.TopoPrune
open AdaptaVerif.Model.TopoPrune

/-! ### signs -/

theorem pos_of_mul_sq_pos {a b : Rat} (h : 0 < a * (b * b)) : 0 < a := by
  by_contra hn
  have := mul_nonpos_of_nonpos_of_nonneg (not_lt.mp hn) (mul_self_nonneg b)
  linarith

theorem nonneg_of_mul_sq_nonneg {a b : Rat} (hb : b ≠ 0) (h : 0 ≤ a * (b * b)) : 0 ≤ a := by
  by_contra hn
  have := mul_neg_of_neg_of_pos (not_le.mp hn) (mul_self_pos.mpr hb)
  linarith

/-- two numbers that have the strict sign of the same `c` have a positive product -/
theorem mul_pos_of_same_sign {c s t : Rat} (hs : 0 < c * s) (ht : 0 < c * t) : 0 < s * t := by
  apply pos_of_mul_sq_pos (b := c)
  have e : s * t * (c * c) = (c * s) * (c * t) := by ring
  rw [e]; exact mul_pos hs ht

/-- `m` lies in neither of the two opposite open quadrants of `a` and `b` ⇒ `m × a` and `m × b` have
    opposite weak signs -/
theorem cross_opposite_quadrants (mx my ax ay bx bY : Rat)
    (h1 : ax * bx < 0) (h2 : ay * bY < 0)
    (h3 : ¬ (0 < mx * ax ∧ 0 < my * ay)) (h4 : ¬ (0 < mx * bx ∧ 0 < my * bY)) :
    (mx * ay - ax * my) * (mx * bY - bx * my) ≤ 0 := by
  have hax : ax ≠ 0 := by rintro rfl; simp at h1
  have hay : ay ≠ 0 := by rintro rfl; simp at h2
  have haxy : ax * ay ≠ 0 := mul_ne_zero hax hay
  -- `m` in neither quadrant: the products `mx*ax`, `my*ay` do not have the same strict sign
  have hUV : (mx * ax) * (my * ay) ≤ 0 := by
    by_contra hn
    rcases pos_and_pos_or_neg_and_neg_of_mul_pos (not_le.mp hn) with ⟨hU, hV⟩ | ⟨hU, hV⟩
    · exact h3 ⟨hU, hV⟩
    · apply h4
      constructor
      · apply pos_of_mul_sq_pos (b := ax)
        have := mul_pos_of_neg_of_neg hU h1
        have e : mx * bx * (ax * ax) = mx * ax * (ax * bx) := by ring
        rw [e]; exact this
      · apply pos_of_mul_sq_pos (b := ay)
        have := mul_pos_of_neg_of_neg hV h2
        have e : my * bY * (ay * ay) = my * ay * (ay * bY) := by ring
        rw [e]; exact this
  -- the mixed term
  have hT : (ay * bx + ax * bY) * (ax * ay) < 0 := by
    have e : (ay * bx + ax * bY) * (ax * ay) = ay * ay * (ax * bx) + ax * ax * (ay * bY) := by ring
    rw [e]
    have t1 := mul_neg_of_pos_of_neg (mul_self_pos.mpr hay) h1
    have t2 := mul_neg_of_pos_of_neg (mul_self_pos.mpr hax) h2
    linarith
  have hW : 0 ≤ mx * my * (ay * bx + ax * bY) := by
    apply nonneg_of_mul_sq_nonneg haxy
    have e : mx * my * (ay * bx + ax * bY) * (ax * ay * (ax * ay))
        = (mx * ax * (my * ay)) * ((ay * bx + ax * bY) * (ax * ay)) := by ring
    rw [e]; exact mul_nonneg_of_nonpos_of_nonpos hUV hT.le
  have e : (mx * ay - ax * my) * (mx * bY - bx * my)
      = mx * mx * (ay * bY) - mx * my * (ay * bx + ax * bY) + my * my * (ax * bx) := by ring
  rw [e]
  have t1 := mul_nonpos_of_nonneg_of_nonpos (mul_self_nonneg mx) h2.le
  have t2 := mul_nonpos_of_nonneg_of_nonpos (mul_self_nonneg my) h1.le
  linarith

/-! ### cross product as `d × e` around the bend position -/

/-- first leg: `cross(n, X, c) = −((n − X) × (c − X))` -/
theorem cross_in_leg (nx ny x y cx cy : Rat) :
    cross nx ny x y cx cy = -((nx - x) * (cy - y) - (cx - x) * (ny - y)) := by
  unfold cross; ring

/-- second leg: `cross(X, q, c) = (q − X) × (c − X)` -/
theorem cross_out_leg (x y qx qy cx cy : Rat) :
    cross x y qx qy cx cy = (qx - x) * (cy - y) - (cx - x) * (qy - y) := by
  unfold cross; ring

/-! ### `samePos` -/

theorem samePos_comm (a b : BPt) : samePos a b = samePos b a := by
  unfold samePos
  rw [show decide (a.x = b.x) = decide (b.x = a.x) from decide_eq_decide.mpr eq_comm,
    show decide (a.y = b.y) = decide (b.y = a.y) from decide_eq_decide.mpr eq_comm]

theorem samePos_iff (a b : BPt) : samePos a b = true ↔ a.x = b.x ∧ a.y = b.y := by
  simp [samePos]

/-! ### picture symmetries of a bend point -/

/-- swap the axes -/
def transpose (p : BPt) : BPt := ⟨p.y, p.x, p.cy, p.cx⟩
/-- mirror in the y axis -/
def mirror (p : BPt) : BPt := ⟨-p.x, p.y, -p.cx, p.cy⟩

/-! ### `prune` as an index filter -/

/-- keep the elements whose index (counted from `k`) satisfies `f` -/
def keepBy {α : Type} (f : Nat → Bool) (l : List α) (k : Nat) : List α :=
  ((l.zipIdx k).filter fun pi => f pi.2).map (·.1)

theorem prune_eq_keepBy (dim : Nat) (path : List BPt) :
    prune dim path = keepBy (fun i => !markAt dim path i) path 0 := rfl

theorem keepBy_nil {α : Type} (f : Nat → Bool) (k : Nat) : keepBy f ([] : List α) k = [] := rfl

theorem keepBy_cons {α : Type} (f : Nat → Bool) (a : α) (l : List α) (k : Nat) :
    keepBy f (a :: l) k = (if f k then [a] else []) ++ keepBy f l (k + 1) := by
  unfold keepBy
  rw [List.zipIdx_cons, List.filter_cons]
  by_cases h : f k <;> simp [h]

theorem keepBy_append {α : Type} (f : Nat → Bool) (xs ys : List α) (k : Nat) :
    keepBy f (xs ++ ys) k = keepBy f xs k ++ keepBy f ys (k + xs.length) := by
  unfold keepBy
  rw [List.zipIdx_append, List.filter_append, List.map_append]

theorem keepBy_reverse {α : Type} (f g : Nat → Bool) (l : List α) (k k' : Nat)
    (h : ∀ i, i < l.length → f (k + i) = g (k' + (l.length - 1 - i))) :
    keepBy f l.reverse k = (keepBy g l k').reverse := by
  induction l generalizing k' with
  | nil => rfl
  | cons a l ih =>
    rw [List.reverse_cons, keepBy_append, keepBy_cons g, List.reverse_append, keepBy_cons, keepBy_nil,
      List.length_reverse]
    have h0 : f (k + l.length) = g k' := by
      have := h l.length (by simp)
      simpa using this
    have ih' := ih (k' + 1) (by
      intro i hi
      have := h i (by simp; omega)
      rw [this]; congr 1; simp; omega)
    rw [ih', h0]
    by_cases hg : g k' <;> simp [hg]

theorem keepBy_map {α β : Type} (f : Nat → Bool) (g : α → β) (l : List α) (k : Nat) :
    keepBy f (l.map g) k = (keepBy f l k).map g := by
  induction l generalizing k with
  | nil => rfl
  | cons a l ih =>
    rw [List.map_cons, keepBy_cons, keepBy_cons, ih, List.map_append]
    by_cases hf : f k <;> simp [hf]

/-! ### `markAt` on five explicit slots -/

/-- `markAt` as a function of the five path slots `i-2 … i+2` -/
def markOf (dim : Nat) (a b c d e : Option BPt) : Bool :=
  match b, c, d with
  | some o, some p, some q => pruned dim a o p q e
  | _, _, _ => false

theorem markAt_eq_markOf (dim : Nat) (path : List BPt) (i : Nat) :
    markAt dim path i = markOf dim (if i < 2 then none else path[i - 2]?)
      (if i = 0 then none else path[i - 1]?) path[i]? path[i + 1]? path[i + 2]? := rfl

/-- the two marks of a coincident pair `o`,`p` (indices `i`, `i+1`) in terms of the rules -/
theorem markAt_pair (dim : Nat) (path : List BPt) (i : Nat) (n o p q : BPt) (hi : 1 ≤ i)
    (hn : path[i - 1]? = some n) (ho : path[i]? = some o) (hp : path[i + 1]? = some p)
    (hq : path[i + 2]? = some q) :
    markAt dim path i
        = pruned dim (if i < 2 then none else path[i - 2]?) n o p (some q) ∧
    markAt dim path (i + 1) = pruned dim (some n) o p q path[i + 3]? := by
  constructor
  · unfold markAt
    have h0 : ¬ i = 0 := by omega
    simp only [h0, if_false, hn, ho, hp, hq]
  · unfold markAt
    have h1 : ¬ i + 1 < 2 := by omega
    have e1 : i + 1 - 2 = i - 1 := by omega
    simp only [Nat.add_one_ne_zero, if_false, h1, Nat.add_sub_cancel, ho, hp, e1, hn,
      show i + 1 + 1 = i + 2 from rfl, hq, show i + 1 + 2 = i + 3 from rfl]

/-! ### reversal of the path -/

theorem validTurn_rev (u v w : BPt) : validTurn u v w = validTurn w v u := by
  have h1 : cross w.x w.y v.x v.y u.x u.y = - cross u.x u.y v.x v.y w.x w.y := by
    unfold cross; ring
  have h2 : cross w.x w.y v.x v.y v.cx v.cy = - cross v.x v.y w.x w.y v.cx v.cy := by
    unfold cross; ring
  have h3 : cross v.x v.y u.x u.y v.cx v.cy = - cross u.x u.y v.x v.y v.cx v.cy := by
    unfold cross; ring
  unfold validTurn
  simp only [h1, h2, h3, neg_mul_neg, neg_eq_zero, Bool.and_comm]

theorem collinearRule_rev (dim : Nat) (o p q : BPt) :
    collinearRule dim o p q = collinearRule dim q p o := by
  unfold collinearRule
  rw [samePos_comm o p, samePos_comm p q,
    show decide (conjPos dim o = conjPos dim p) = decide (conjPos dim p = conjPos dim o) from
      decide_eq_decide.mpr eq_comm,
    show decide (conjPos dim p = conjPos dim q) = decide (conjPos dim q = conjPos dim p) from
      decide_eq_decide.mpr eq_comm]
  cases samePos p o <;> cases samePos q p <;> cases decide (conjPos dim p = conjPos dim o) <;>
    cases decide (conjPos dim q = conjPos dim p) <;> rfl

/-- the zero-length `if` branch read backwards is the `else if` branch -/
theorem inRule_rev (n? : Option BPt) (o p q : BPt) : inRule n? o p q = outRule q p o n? := by
  unfold inRule outRule
  rw [samePos_comm o p]
  cases n? with
  | none => rfl
  | some n => simp only [validTurn_rev n p q]

theorem pruned_rev (dim : Nat) (n? : Option BPt) (o p q : BPt) (r? : Option BPt) :
    pruned dim n? o p q r? = pruned dim r? q p o n? := by
  unfold pruned
  rw [collinearRule_rev, inRule_rev n? o p q, inRule_rev r? q p o, Bool.or_assoc,
    Bool.or_assoc, Bool.or_comm (outRule q p o n?)]

theorem markOf_rev (dim : Nat) (a b c d e : Option BPt) :
    markOf dim a b c d e = markOf dim e d c b a := by
  unfold markOf
  cases b <;> cases c <;> cases d <;> simp [pruned_rev]

theorem markAt_rev (dim : Nat) (path : List BPt) (i : Nat) (hi : i < path.length) :
    markAt dim path.reverse i = markAt dim path (path.length - 1 - i) := by
  rw [markAt_eq_markOf, markAt_eq_markOf, markOf_rev]
  have hL : ∀ j, j < path.length → path.reverse[j]? = path[path.length - 1 - j]? :=
    fun j hj => List.getElem?_reverse hj
  have hN : ∀ j, path.length ≤ j → path[j]? = none := fun j hj => List.getElem?_eq_none hj
  have hNr : ∀ j, path.length ≤ j → path.reverse[j]? = none :=
    fun j hj => List.getElem?_eq_none (by simpa using hj)
  have hC : ∀ a b : Nat, a = b → path[a]? = path[b]? := fun a b e => by rw [e]
  congr 1
  · by_cases h : i + 2 < path.length
    · rw [hL _ h, if_neg (by omega)]; exact hC _ _ (by omega)
    · rw [hNr _ (by omega), if_pos (by omega)]
  · by_cases h : i + 1 < path.length
    · rw [hL _ h, if_neg (by omega)]; exact hC _ _ (by omega)
    · rw [hNr _ (by omega), if_pos (by omega)]
  · rw [hL _ hi]
  · by_cases h : i = 0
    · rw [if_pos h, hN _ (by omega)]
    · rw [if_neg h, hL _ (by omega)]; exact hC _ _ (by omega)
  · by_cases h : i < 2
    · rw [if_pos h, hN _ (by omega)]
    · rw [if_neg h, hL _ (by omega)]; exact hC _ _ (by omega)

/-! ### maps of the picture that leave the rule invariant -/

/-- a map of the picture under which the pruning rule (scan dimension `dim` ↦ `dim'`) is invariant -/
structure PruneSymm (dim dim' : Nat) (g : BPt → BPt) : Prop where
  same : ∀ a b, samePos (g a) (g b) = samePos a b
  turn : ∀ u v w, validTurn (g u) (g v) (g w) = validTurn u v w
  conj : ∀ a b, decide (conjPos dim' (g a) = conjPos dim' (g b))
    = decide (conjPos dim a = conjPos dim b)

theorem PruneSymm.pruned_eq {dim dim' : Nat} {g : BPt → BPt} (h : PruneSymm dim dim' g)
    (n? : Option BPt) (o p q : BPt) (r? : Option BPt) :
    pruned dim' (n?.map g) (g o) (g p) (g q) (r?.map g) = pruned dim n? o p q r? := by
  unfold pruned collinearRule inRule outRule
  simp only [h.same, h.conj]
  cases n? <;> cases r? <;> simp only [Option.map_none, Option.map_some, h.turn]

theorem PruneSymm.markOf_eq {dim dim' : Nat} {g : BPt → BPt} (h : PruneSymm dim dim' g)
    (a b c d e : Option BPt) :
    markOf dim' (a.map g) (b.map g) (c.map g) (d.map g) (e.map g) = markOf dim a b c d e := by
  unfold markOf
  cases b <;> cases c <;> cases d <;> simp only [Option.map_none, Option.map_some, h.pruned_eq]

theorem PruneSymm.markAt_eq {dim dim' : Nat} {g : BPt → BPt} (h : PruneSymm dim dim' g)
    (path : List BPt) (i : Nat) : markAt dim' (path.map g) i = markAt dim path i := by
  rw [markAt_eq_markOf, markAt_eq_markOf, ← h.markOf_eq]
  simp only [List.getElem?_map]
  congr 1
  · split <;> rfl
  · split <;> rfl

theorem PruneSymm.prune_eq {dim dim' : Nat} {g : BPt → BPt} (h : PruneSymm dim dim' g)
    (path : List BPt) : prune dim' (path.map g) = (prune dim path).map g := by
  rw [prune_eq_keepBy, prune_eq_keepBy, keepBy_map]
  simp only [h.markAt_eq]

theorem cross_transpose (x0 y0 x1 y1 x2 y2 : Rat) :
    cross y0 x0 y1 x1 y2 x2 = - cross x0 y0 x1 y1 x2 y2 := by unfold cross; ring

theorem cross_mirror (x0 y0 x1 y1 x2 y2 : Rat) :
    cross (-x0) y0 (-x1) y1 (-x2) y2 = - cross x0 y0 x1 y1 x2 y2 := by unfold cross; ring

theorem validTurn_tr (u v w : BPt) :
    validTurn (transpose u) (transpose v) (transpose w) = validTurn u v w := by
  unfold validTurn transpose
  simp only [cross_transpose u.x u.y v.x v.y w.x w.y, cross_transpose u.x u.y v.x v.y v.cx v.cy,
    cross_transpose v.x v.y w.x w.y v.cx v.cy, neg_mul_neg, neg_eq_zero]

theorem validTurn_mir (u v w : BPt) :
    validTurn (mirror u) (mirror v) (mirror w) = validTurn u v w := by
  unfold validTurn mirror
  simp only [cross_mirror u.x u.y v.x v.y w.x w.y, cross_mirror u.x u.y v.x v.y v.cx v.cy,
    cross_mirror v.x v.y w.x w.y v.cx v.cy, neg_mul_neg, neg_eq_zero]

/-- transposing the picture swaps XDIM and YDIM -/
theorem pruneSymm_transpose (dim : Nat) (hd : dim < 2) : PruneSymm dim (1 - dim) transpose where
  same a b := by unfold samePos transpose; exact Bool.and_comm _ _
  turn := validTurn_tr
  conj a b := by
    have : dim = 0 ∨ dim = 1 := by omega
    rcases this with rfl | rfl <;> simp [conjPos, transpose]

/-- mirroring the picture in the y axis keeps the scan dimension -/
theorem pruneSymm_mirror (dim : Nat) : PruneSymm dim dim mirror where
  same a b := by
    unfold samePos mirror
    rw [show decide (-a.x = -b.x) = decide (a.x = b.x) from decide_eq_decide.mpr neg_inj]
  turn := validTurn_mir
  conj a b := by
    unfold conjPos mirror
    by_cases h : dim = 0
    · simp [h]
    · simp [h]

end AdaptaVerif.Lemmas.TopoPrune
