import AdaptaVerif.Check.Tree
import AdaptaVerif.Spec.Tree
import AdaptaVerif.Lemmas.Tree
namespace AdaptaVerif.Lemmas.HyperTreeGraph
open AdaptaVerif.Check.Tree AdaptaVerif.Spec.Tree AdaptaVerif.Lemmas.Tree

/-- rename vertex `b` to `c` -/
def ren (b c : Nat) (v : Nat) : Nat := if v = b then c else v
def renE (b c : Nat) (e : Edge) : Edge := (ren b c e.1, ren b c e.2)

/-! ### reachability helpers -/

theorem reach_congr {E E' : List Edge} (h : ∀ e, e ∈ E ↔ e ∈ E') {a b : Nat} :
    Reach E a b ↔ Reach E' a b :=
  ⟨Reach.mono (fun e he => (h e).mp he), Reach.mono (fun e he => (h e).mpr he)⟩

theorem reach_perm {E E' : List Edge} (h : E.Perm E') {a b : Nat} :
    Reach E a b ↔ Reach E' a b :=
  reach_congr (fun _ => h.mem_iff)

/-- a walk in `E` plus one extra edge (at the head) either avoids it or can be cut at it -/
theorem reach_cons {E : List Edge} {c d a b : Nat} (h : Reach ((c, d) :: E) a b) :
    Reach E a b ∨ (Reach E a c ∧ Reach E d b) ∨ (Reach E a d ∧ Reach E c b) := by
  apply reach_snoc (c := c) (d := d)
  refine Reach.mono ?_ h
  intro e he
  simp only [List.mem_cons, List.mem_append, List.not_mem_nil, or_false] at he ⊢
  exact he.symm

theorem reach_tail {E : List Edge} {e : Edge} {a b : Nat} (h : Reach E a b) :
    Reach (e :: E) a b :=
  Reach.mono (fun _ he => List.mem_cons_of_mem _ he) h

theorem reach_head (E : List Edge) (a b : Nat) : Reach ((a, b) :: E) a b :=
  Reach.single (Or.inl List.mem_cons_self)

theorem reach_head' (E : List Edge) (a b : Nat) : Reach ((a, b) :: E) b a :=
  Reach.single (Or.inr List.mem_cons_self)

/-- an extra edge `c–d` can be simulated by any walk `c ~ d` -/
theorem reach_sim {G G' : List Edge} {c d x y : Nat} (hsub : ∀ e, e ∈ G → e ∈ G')
    (hcd : Reach G' c d) (h : Reach ((c, d) :: G) x y) : Reach G' x y := by
  rcases reach_cons h with h | ⟨h1, h2⟩ | ⟨h1, h2⟩
  · exact Reach.mono hsub h
  · exact Reach.trans (Reach.mono hsub h1) (Reach.trans hcd (Reach.mono hsub h2))
  · exact Reach.trans (Reach.mono hsub h1) (Reach.trans (Reach.symm hcd) (Reach.mono hsub h2))

theorem reach_swap_head {a b : Nat} {E : List Edge} {x y : Nat} :
    Reach ((a, b) :: E) x y ↔ Reach ((b, a) :: E) x y :=
  ⟨reach_sim (fun _ he => List.mem_cons_of_mem _ he) (reach_head' E b a),
   reach_sim (fun _ he => List.mem_cons_of_mem _ he) (reach_head' E a b)⟩

theorem reach_mem {V : List Nat} {G : List Edge} (hwf : WellFormed V G) {a c : Nat}
    (h : Reach G a c) (ha : a ∈ V) : c ∈ V := by
  induction h with
  | refl => exact ha
  | step _ hadj _ =>
    cases hadj with
    | inl h => exact (hwf _ h).2
    | inr h => exact (hwf _ h).1

/-! ### permutations -/

theorem perm_getElem_eraseIdx {α : Type} : ∀ (l : List α) (i : Nat) (h : i < l.length),
    l.Perm (l[i] :: l.eraseIdx i)
  | [], _, h => by cases h
  | x :: l, 0, _ => by simp
  | x :: l, i + 1, h => by
    have h' : i < l.length := by simpa using h
    have ih := perm_getElem_eraseIdx l i h'
    simp only [List.getElem_cons_succ, List.eraseIdx_cons_succ]
    exact (List.Perm.cons x ih).trans (List.Perm.swap _ _ _)

/-- 1. every edge occurrence is a bridge, phrased with permutations -/
theorem acyclic_iff_perm (E : List Edge) :
    Acyclic E ↔ ∀ (e : Edge) (E' : List Edge), E.Perm (e :: E') → ¬ Reach E' e.1 e.2 := by
  constructor
  · intro h e E' hp hr
    have he : e ∈ E := hp.mem_iff.mpr List.mem_cons_self
    obtain ⟨i, hi, hget⟩ := List.getElem_of_mem he
    have hp2 := perm_getElem_eraseIdx E i hi
    rw [hget] at hp2
    have hp3 : E'.Perm (E.eraseIdx i) := (hp.symm.trans hp2).cons_inv
    have := h i hi
    rw [hget] at this
    exact this ((reach_perm hp3).mp hr)
  · intro h i hi
    exact h _ _ (perm_getElem_eraseIdx E i hi)

/-- 3. -/
theorem isTree_bridge {V : List Nat} {E : List Edge} {a b : Nat} {E0 : List Edge}
    (h : IsTree V E) (hp : E.Perm ((a, b) :: E0)) : ¬ Reach E0 a b :=
  (acyclic_iff_perm E).mp h.2.2 (a, b) E0 hp

theorem isTree_bridge_ne {V : List Nat} {E : List Edge} {a b : Nat} {E0 : List Edge}
    (h : IsTree V E) (hp : E.Perm ((a, b) :: E0)) : a ≠ b := by
  intro hab
  subst hab
  exact isTree_bridge h hp (Reach.refl _)

/-! ### 2. invariance -/

theorem isTree_congr {V V' : List Nat} {E E' : List Edge} (hV : ∀ v, v ∈ V' ↔ v ∈ V)
    (hE : E.Perm E') (h : IsTree V E) : IsTree V' E' := by
  obtain ⟨hwf, ⟨hne, hconn⟩, hac⟩ := h
  refine ⟨?_, ⟨?_, ?_⟩, ?_⟩
  · intro e he
    have := hwf e (hE.mem_iff.mpr he)
    exact ⟨(hV _).mpr this.1, (hV _).mpr this.2⟩
  · intro hnil
    cases V with
    | nil => exact hne rfl
    | cons v _ =>
      have : v ∈ V' := (hV v).mpr List.mem_cons_self
      rw [hnil] at this
      cases this
  · intro a ha b hb
    exact (reach_perm hE).mp (hconn a ((hV a).mp ha) b ((hV b).mp hb))
  · rw [acyclic_iff_perm] at hac ⊢
    intro e R hp
    exact hac e R (hE.trans hp)

theorem isTree_swap_head {V : List Nat} {a b : Nat} {E : List Edge}
    (h : IsTree V ((a, b) :: E)) : IsTree V ((b, a) :: E) := by
  obtain ⟨hwf, ⟨hne, hconn⟩, hac⟩ := h
  refine ⟨?_, ⟨hne, ?_⟩, ?_⟩
  · intro e he
    rcases List.mem_cons.mp he with he | he
    · subst he
      have := hwf (a, b) List.mem_cons_self
      exact ⟨this.2, this.1⟩
    · exact hwf e (List.mem_cons_of_mem _ he)
  · intro x hx y hy
    exact reach_swap_head.mp (hconn x hx y hy)
  · intro i hi
    cases i with
    | zero =>
      have := hac 0 (by simp)
      simp only [List.getElem_cons_zero, List.eraseIdx_cons_zero] at this ⊢
      exact fun hr => this (Reach.symm hr)
    | succ i =>
      have hi' : i + 1 < ((a, b) :: E).length := by simpa using hi
      have := hac (i + 1) hi'
      simp only [List.getElem_cons_succ, List.eraseIdx_cons_succ] at this ⊢
      exact fun hr => this (reach_swap_head.mp hr)

/-! ### 4. vertex identification -/

theorem perm_map_cons {α β : Type} [DecidableEq α] {f : α → β} {L : List α} {e' : β} {R : List β}
    (h : (L.map f).Perm (e' :: R)) :
    ∃ x L1, L.Perm (x :: L1) ∧ e' = f x ∧ R.Perm (L1.map f) := by
  have he : e' ∈ L.map f := h.mem_iff.mpr List.mem_cons_self
  obtain ⟨x, hx, hfx⟩ := List.mem_map.mp he
  refine ⟨x, L.erase x, List.perm_cons_erase hx, hfx.symm, ?_⟩
  have h2 : (L.map f).Perm (f x :: (L.erase x).map f) := by
    simpa using (List.perm_cons_erase hx).map f
  rw [hfx] at h2
  exact (h.symm.trans h2).cons_inv

theorem ren_of_ne {b c v : Nat} (h : v ≠ b) : ren b c v = v := by simp [ren, h]
theorem ren_self (b c : Nat) : ren b c b = c := by simp [ren]

theorem adj_map_ren {b c : Nat} {G : List Edge} {x y : Nat} (h : Adj G x y) :
    Adj (G.map (renE b c)) (ren b c x) (ren b c y) := by
  cases h with
  | inl h => exact Or.inl (List.mem_map.mpr ⟨(x, y), h, rfl⟩)
  | inr h => exact Or.inr (List.mem_map.mpr ⟨(y, x), h, rfl⟩)

/-- (i) walks survive the renaming -/
theorem reach_map_ren {b c : Nat} {G : List Edge} {x y : Nat} (h : Reach G x y) :
    Reach (G.map (renE b c)) (ren b c x) (ren b c y) := by
  induction h with
  | refl => exact Reach.refl _
  | step _ hadj ih => exact Reach.step ih (adj_map_ren hadj)

theorem reach_of_ren_eq {b c : Nat} (G : List Edge) {p q : Nat} (h : ren b c p = ren b c q) :
    Reach ((b, c) :: G) p q := by
  unfold ren at h
  by_cases hp : p = b <;> by_cases hq : q = b
  · subst hp; subst hq; exact Reach.refl _
  · simp only [hp, hq, if_true, if_false] at h
    subst hp; subst h; exact reach_head _ _ _
  · simp only [hp, hq, if_true, if_false] at h
    subst hq; subst h; exact reach_head' _ _ _
  · simp only [hp, hq, if_false] at h
    subst h; exact Reach.refl _

theorem adj_map_ren_inv {b c : Nat} {G : List Edge} {u v : Nat}
    (h : Adj (G.map (renE b c)) u v) : ∃ x y, Adj G x y ∧ ren b c x = u ∧ ren b c y = v := by
  cases h with
  | inl h =>
    obtain ⟨⟨x, y⟩, hm, he⟩ := List.mem_map.mp h
    simp only [renE, Prod.mk.injEq] at he
    exact ⟨x, y, Or.inl hm, he.1, he.2⟩
  | inr h =>
    obtain ⟨⟨x, y⟩, hm, he⟩ := List.mem_map.mp h
    simp only [renE, Prod.mk.injEq] at he
    exact ⟨y, x, Or.inr hm, he.2, he.1⟩

/-- (ii) lifting walks of the renamed graph: they are walks of the old graph plus a virtual
    edge `b–c` -/
theorem reach_lift_ren {b c : Nat} {G : List Edge} {u v : Nat}
    (h : Reach (G.map (renE b c)) u v) :
    ∀ p q, ren b c p = u → ren b c q = v → Reach ((b, c) :: G) p q := by
  induction h with
  | refl =>
    intro p q hp hq
    exact reach_of_ren_eq G (hp.trans hq.symm)
  | step _ hadj ih =>
    intro p q hp hq
    obtain ⟨x, y, hxy, hx, hy⟩ := adj_map_ren_inv hadj
    have h1 := ih p x hp hx
    have h2 : Reach ((b, c) :: G) x y := reach_tail (Reach.single hxy)
    have h3 := reach_of_ren_eq (b := b) (c := c) G (hy.trans hq.symm)
    exact Reach.trans h1 (Reach.trans h2 h3)

theorem mem_filter_ne {V : List Nat} {b v : Nat} :
    v ∈ V.filter (fun v => v != b) ↔ v ∈ V ∧ v ≠ b := by
  simp

/-- THE MAIN LEMMA: remove the edge `a–b` from a tree and glue `b` onto a vertex `c` of the
    component of `a`. -/
theorem isTree_identify {V : List Nat} {E E0 : List Edge} {a b c : Nat} (h : IsTree V E)
    (hp : E.Perm ((a, b) :: E0)) (hac : Reach E0 a c) :
    IsTree (V.filter (fun v => v != b)) (E0.map (renE b c)) := by
  have hbr : ¬ Reach E0 a b := isTree_bridge h hp
  have hab : a ≠ b := isTree_bridge_ne h hp
  have hcb : c ≠ b := fun hcb => hbr (hcb ▸ hac)
  obtain ⟨hwf, ⟨hne, hconn⟩, hacyc⟩ := h
  have habE : (a, b) ∈ E := hp.mem_iff.mpr List.mem_cons_self
  have hE0 : ∀ e, e ∈ E0 → e ∈ E := fun e he => hp.mem_iff.mpr (List.mem_cons_of_mem _ he)
  have haV : a ∈ V := (hwf _ habE).1
  have hwf0 : WellFormed V E0 := fun e he => hwf e (hE0 e he)
  have hcV : c ∈ V := reach_mem hwf0 hac haV
  have hfV : ∀ x, x ∈ V → ren b c x ∈ V.filter (fun v => v != b) := by
    intro x hx
    by_cases hxb : x = b
    · subst hxb
      rw [ren_self]
      exact mem_filter_ne.mpr ⟨hcV, hcb⟩
    · rw [ren_of_ne hxb]
      exact mem_filter_ne.mpr ⟨hx, hxb⟩
  refine ⟨?_, ⟨?_, ?_⟩, ?_⟩
  · -- well-formed
    intro e he
    obtain ⟨⟨x, y⟩, hm, rfl⟩ := List.mem_map.mp he
    have := hwf0 _ hm
    exact ⟨hfV x this.1, hfV y this.2⟩
  · intro hnil
    have : a ∈ V.filter (fun v => v != b) := mem_filter_ne.mpr ⟨haV, hab⟩
    rw [hnil] at this
    cases this
  · -- connected: everything is joined to `a`
    have key : ∀ v, v ∈ V → v ≠ b → Reach (E0.map (renE b c)) a v := by
      intro v hv hvb
      have h1 : Reach ((a, b) :: E0) a v := (reach_perm hp).mp (hconn a haV v hv)
      have hmap : ∀ {x y}, Reach E0 x y → Reach (E0.map (renE b c)) (ren b c x) (ren b c y) :=
        fun h => reach_map_ren h
      have hA : Reach (E0.map (renE b c)) a c := by
        have := hmap hac
        rwa [ren_of_ne hab, ren_of_ne hcb] at this
      rcases reach_cons h1 with h | ⟨_, h⟩ | ⟨h, _⟩
      · have := hmap h
        rwa [ren_of_ne hab, ren_of_ne hvb] at this
      · have := hmap h
        rw [ren_self, ren_of_ne hvb] at this
        exact Reach.trans hA this
      · exact absurd h hbr
    intro u hu v hv
    obtain ⟨hu1, hu2⟩ := mem_filter_ne.mp hu
    obtain ⟨hv1, hv2⟩ := mem_filter_ne.mp hv
    exact Reach.trans (Reach.symm (key u hu1 hu2)) (key v hv1 hv2)
  · -- acyclic
    rw [acyclic_iff_perm] at hacyc ⊢
    intro e' R hpR hr
    obtain ⟨⟨x, y⟩, E1, hp1, rfl, hpR1⟩ := perm_map_cons hpR
    have hr1 : Reach (E1.map (renE b c)) (ren b c x) (ren b c y) := (reach_perm hpR1).mp hr
    have hl : Reach ((b, c) :: E1) x y := reach_lift_ren hr1 x y rfl rfl
    -- bridges of the tree
    have hpE : E.Perm ((x, y) :: (a, b) :: E1) :=
      (hp.trans (List.Perm.cons _ hp1)).trans (List.Perm.swap _ _ _)
    have B1 : ¬ Reach ((a, b) :: E1) x y := hacyc (x, y) _ hpE
    have B1' : ¬ Reach E1 x y := fun h => B1 (reach_tail h)
    have B2 : ¬ Reach E1 a b := fun h => hbr ((reach_perm hp1).mpr (reach_tail h))
    have hac1 : Reach ((x, y) :: E1) a c := (reach_perm hp1).mp hac
    rcases reach_cons hac1 with A | ⟨A1, A2⟩ | ⟨A1, A2⟩
    · -- the virtual edge b–c is simulated by b–a~c
      apply B1
      refine reach_sim (fun _ he => List.mem_cons_of_mem _ he) ?_ hl
      exact Reach.trans (reach_head' E1 a b) (reach_tail A)
    · rcases reach_cons hl with L | ⟨L1, L2⟩ | ⟨L1, L2⟩
      · exact B1' L
      · exact B2 (Reach.trans A1 L1)
      · exact B1' (Reach.trans L1 (Reach.symm A2))
    · rcases reach_cons hl with L | ⟨L1, L2⟩ | ⟨L1, L2⟩
      · exact B1' L
      · exact B1' (Reach.trans A2 L2)
      · exact B2 (Reach.trans A1 (Reach.symm L2))

theorem isTree_contract {V : List Nat} {E E0 : List Edge} {a b : Nat} (h : IsTree V E)
    (hp : E.Perm ((a, b) :: E0)) :
    IsTree (V.filter (fun v => v != b)) (E0.map (renE b a)) :=
  isTree_identify h hp (Reach.refl a)

/-! ### 6. degrees -/

theorem deg_perm {E E' : List Edge} (h : E.Perm E') (v : Nat) : deg E v = deg E' v := by
  unfold deg
  rw [h.countP_eq, h.countP_eq]

theorem deg_nil (v : Nat) : deg [] v = 0 := rfl

theorem deg_cons (a b : Nat) (E : List Edge) (v : Nat) :
    deg ((a, b) :: E) v = deg E v + (if a = v then 1 else 0) + (if b = v then 1 else 0) := by
  simp only [deg, List.countP_cons, beq_iff_eq]
  omega

theorem deg_map_ren {b c : Nat} (hbc : b ≠ c) (E : List Edge) (v : Nat) :
    deg (E.map (renE b c)) v =
      if v = b then 0 else if v = c then deg E c + deg E b else deg E v := by
  induction E with
  | nil => simp [deg_nil]
  | cons e E ih =>
    obtain ⟨x, y⟩ := e
    simp only [List.map_cons, renE, deg_cons, ih, ren]
    grind

/-! ### 5. subdivision -/

/-- un-subdividing: a walk through the subdivided edge `a–n–b` between old vertices is a walk
    through `a–b`; a walk ending at `n` yields a walk ending at `a` -/
theorem reach_unsubdivide {G : List Edge} {a b n : Nat} (han : a ≠ n) (hbn : b ≠ n)
    (hG : ∀ e ∈ G, e.1 ≠ n ∧ e.2 ≠ n) {x y : Nat} (hx : x ≠ n)
    (h : Reach ((a, n) :: (n, b) :: G) x y) :
    (y ≠ n → Reach ((a, b) :: G) x y) ∧ (y = n → Reach ((a, b) :: G) x a) := by
  induction h with
  | refl => exact ⟨fun _ => Reach.refl _, fun h => absurd h hx⟩
  | @step w y _ hadj ih =>
    have hadj' : (w = a ∧ y = n) ∨ (w = n ∧ y = a) ∨ (w = n ∧ y = b) ∨ (w = b ∧ y = n) ∨
        (Adj G w y) := by
      rcases hadj with h | h
      · simp only [List.mem_cons, Prod.mk.injEq] at h
        rcases h with h | h | h
        · exact Or.inl h
        · exact Or.inr (Or.inr (Or.inl h))
        · exact Or.inr (Or.inr (Or.inr (Or.inr (Or.inl h))))
      · simp only [List.mem_cons, Prod.mk.injEq] at h
        rcases h with h | h | h
        · exact Or.inr (Or.inl ⟨h.2, h.1⟩)
        · exact Or.inr (Or.inr (Or.inr (Or.inl ⟨h.2, h.1⟩)))
        · exact Or.inr (Or.inr (Or.inr (Or.inr (Or.inr h))))
    rcases hadj' with ⟨hw, hy⟩ | ⟨hw, hy⟩ | ⟨hw, hy⟩ | ⟨hw, hy⟩ | hA
    · subst hw; subst hy
      exact ⟨fun h => absurd rfl h, fun _ => ih.1 han⟩
    · subst hw; subst hy
      exact ⟨fun _ => ih.2 rfl, fun h => absurd h han⟩
    · subst hw; subst hy
      exact ⟨fun _ => Reach.trans (ih.2 rfl) (reach_head _ _ _), fun h => absurd h hbn⟩
    · subst hw; subst hy
      exact ⟨fun h => absurd rfl h, fun _ => Reach.trans (ih.1 hbn) (reach_head' _ _ _)⟩
    · have hwy : w ≠ n ∧ y ≠ n := by
        rcases hA with h | h
        · exact hG _ h
        · exact ⟨(hG _ h).2, (hG _ h).1⟩
      exact ⟨fun _ => Reach.step (ih.1 hwy.1) (by
          rcases hA with h | h
          · exact Or.inl (List.mem_cons_of_mem _ h)
          · exact Or.inr (List.mem_cons_of_mem _ h)), fun h => absurd h hwy.2⟩

theorem isTree_subdivide {V : List Nat} {E E0 : List Edge} {a b n : Nat} (h : IsTree V E)
    (hp : E.Perm ((a, b) :: E0)) (hn : n ∉ V) :
    IsTree (n :: V) ((a, n) :: (n, b) :: E0) := by
  have hbr : ¬ Reach E0 a b := isTree_bridge h hp
  obtain ⟨hwf, ⟨hne, hconn⟩, hacyc⟩ := h
  have habE : (a, b) ∈ E := hp.mem_iff.mpr List.mem_cons_self
  have hE0 : ∀ e, e ∈ E0 → e ∈ E := fun e he => hp.mem_iff.mpr (List.mem_cons_of_mem _ he)
  have haV : a ∈ V := (hwf _ habE).1
  have hbV : b ∈ V := (hwf _ habE).2
  have hwf0 : WellFormed V E0 := fun e he => hwf e (hE0 e he)
  have han : a ≠ n := fun h => hn (h ▸ haV)
  have hbn : b ≠ n := fun h => hn (h ▸ hbV)
  have hnot : ∀ v, v ∈ V → ¬ Reach E0 v n := fun v hv hr => hn (reach_mem hwf0 hr hv)
  refine ⟨?_, ⟨List.cons_ne_nil _ _, ?_⟩, ?_⟩
  · intro e he
    simp only [List.mem_cons] at he
    rcases he with rfl | rfl | he
    · exact ⟨List.mem_cons_of_mem _ haV, List.mem_cons_self⟩
    · exact ⟨List.mem_cons_self, List.mem_cons_of_mem _ hbV⟩
    · exact ⟨List.mem_cons_of_mem _ (hwf0 e he).1, List.mem_cons_of_mem _ (hwf0 e he).2⟩
  · have key : ∀ v, v ∈ n :: V → Reach ((a, n) :: (n, b) :: E0) a v := by
      intro v hv
      rcases List.mem_cons.mp hv with rfl | hv
      · exact reach_head _ _ _
      · have h1 : Reach ((a, b) :: E0) a v := (reach_perm hp).mp (hconn a haV v hv)
        refine reach_sim (fun _ he => List.mem_cons_of_mem _ (List.mem_cons_of_mem _ he)) ?_ h1
        exact Reach.trans (reach_head _ _ _) (reach_tail (reach_head _ _ _))
    intro u hu v hv
    exact Reach.trans (Reach.symm (key u hu)) (key v hv)
  · intro i hi
    match i, hi with
    | 0, _ =>
      simp only [List.getElem_cons_zero, List.eraseIdx_cons_zero]
      intro hr
      rcases reach_cons hr with h | ⟨h, _⟩ | ⟨h, _⟩
      · exact hnot a haV h
      · exact hnot a haV h
      · exact hbr h
    | 1, _ =>
      simp only [List.getElem_cons_succ, List.getElem_cons_zero, List.eraseIdx_cons_succ,
        List.eraseIdx_cons_zero]
      intro hr
      rcases reach_cons hr with h | ⟨_, h⟩ | ⟨_, h⟩
      · exact hnot b hbV (Reach.symm h)
      · exact hnot b hbV (Reach.symm h)
      · exact hbr h
    | i + 2, hi =>
      have hi' : i < E0.length := by simpa using hi
      simp only [List.getElem_cons_succ, List.eraseIdx_cons_succ]
      intro hr
      have hmem : E0[i] ∈ E0 := List.getElem_mem hi'
      have hxn : (E0[i]).1 ≠ n := fun h => hn (h ▸ (hwf0 _ hmem).1)
      have hyn : (E0[i]).2 ≠ n := fun h => hn (h ▸ (hwf0 _ hmem).2)
      have hG : ∀ e ∈ E0.eraseIdx i, e.1 ≠ n ∧ e.2 ≠ n := by
        intro e he
        have := hwf0 e (List.mem_of_mem_eraseIdx he)
        exact ⟨fun h => hn (h ▸ this.1), fun h => hn (h ▸ this.2)⟩
      have h1 := (reach_unsubdivide han hbn hG hxn hr).1 hyn
      have hpE : E.Perm (E0[i] :: (a, b) :: E0.eraseIdx i) :=
        (hp.trans (List.Perm.cons _ (perm_getElem_eraseIdx E0 i hi'))).trans
          (List.Perm.swap _ _ _)
      exact (acyclic_iff_perm E).mp hacyc _ _ hpE h1

/-! ### 7. no isolated vertex -/

theorem deg_pos_of_adj {E : List Edge} {v u : Nat} (h : Adj E v u) : 1 ≤ deg E v := by
  unfold deg
  rcases h with h | h
  · have : 0 < E.countP (fun e => e.1 == v) :=
      List.countP_pos_iff.mpr ⟨_, h, by simp⟩
    omega
  · have : 0 < E.countP (fun e => e.2 == v) :=
      List.countP_pos_iff.mpr ⟨_, h, by simp⟩
    omega

theorem isTree_deg_pos {V : List Nat} {E : List Edge} {v w : Nat} (h : IsTree V E)
    (hv : v ∈ V) (hw : w ∈ V) (hne : v ≠ w) : 1 ≤ deg E v := by
  have hr : Reach E w v := h.2.1.2 w hw v hv
  cases hr with
  | refl => exact absurd rfl hne
  | step _ hadj => exact deg_pos_of_adj (Adj.symm hadj)

end AdaptaVerif.Lemmas.HyperTreeGraph
