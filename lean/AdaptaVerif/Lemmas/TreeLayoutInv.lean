/-
Lemmas about the model of `Tree::symmetricLayout`, part 2: the placement loop keeps the per-rank invariant,
the recursion over the tree establishes it for every (sub)tree, and the invariant implies that no two node
boxes overlap (given extents along the growth direction ≤ rankSep).
-/
import AdaptaVerif.Lemmas.TreeLayout
namespace AdaptaVerif.Lemmas.TreeLayout
open AdaptaVerif.Model.TreeLayout

/-- growth-axis step between consecutive ranks: the growth component of `baseTrans` -/
def gstep (cfg : Cfg) : Rat := gr cfg.dir (baseTrans cfg.dir cfg.rankSep)

theorem disp_baseTrans (d : Dir) (rs : Rat) : disp d (baseTrans d rs) = 0 := by
  cases d <;> simp [disp, baseTrans, Dir.isVertical]

theorem gstep_abs (cfg : Cfg) : gstep cfg = cfg.rankSep ∨ gstep cfg = -cfg.rankSep := by
  unfold gstep; cases h : cfg.dir <;> simp [gr, baseTrans, Dir.isVertical]

/-- the vector a side-placed subtree is moved by -/
def sideTrans (cfg : Cfg) (R : Rat) : Pt :=
  if cfg.dir.isVertical then ⟨R, (baseTrans cfg.dir cfg.rankSep).y⟩ else ⟨(baseTrans cfg.dir cfg.rankSep).x, R⟩

theorem disp_sideTrans (cfg : Cfg) (R : Rat) : disp cfg.dir (sideTrans cfg R) = R := by
  unfold disp sideTrans; cases cfg.dir.isVertical <;> simp

theorem gr_sideTrans (cfg : Cfg) (R : Rat) : gr cfg.dir (sideTrans cfg R) = gstep cfg := by
  unfold gr sideTrans gstep gr; cases cfg.dir.isVertical <;> simp

/-! ### loop state -/

structure StOK (cfg : Cfg) (P : Rat → Rat → Prop) (st : St) : Prop where
  root : LevelOK cfg.dir (2 * cfg.nodeSep) P st.root
  rest : ∀ l ∈ st.rest, LevelOK cfg.dir (2 * cfg.nodeSep) P l
  grow : GrowAt cfg.dir (gstep cfg) 0 (st.root :: st.rest)
  fresh : st.mustCentral = true → ∀ p ∈ st.rest, p.nodes = []

theorem growAt_replicate (d : Dir) (s : Rat) : ∀ (k : Nat) (g : Rat),
    GrowAt d s g (List.replicate k (⟨0, 0, []⟩ : Level))
  | 0, _ => trivial
  | k + 1, g => by
    rw [List.replicate_succ]
    exact ⟨(by intro n hn; cases hn), growAt_replicate d s k (g + s)⟩

theorem initSt_ok (cfg : Cfg) (P : Rat → Rat → Prop) (id : Nat) (w h : Rat) (k : Nat) (c : Bool)
    (hP : P w h) (hw : 0 ≤ w) (hh : 0 ≤ h) : StOK cfg P (initSt cfg id w h k c) := by
  have hhalf : (0 : Rat) ≤ (if cfg.dir.isVertical then w / 2 else h / 2) := by
    split <;> linarith
  refine ⟨⟨?_, ?_, ?_, ?_⟩, ?_, ⟨?_, ?_⟩, ?_⟩
  · show -(if cfg.dir.isVertical then w / 2 else h / 2) ≤ (if cfg.dir.isVertical then w / 2 else h / 2)
    linarith
  · intro n hn
    have : n = ⟨id, ⟨0, 0⟩, w, h⟩ := by simpa [initSt] using hn
    subst this
    show -(if cfg.dir.isVertical then w / 2 else h / 2) ≤ _ ∧ _ ≤ (if cfg.dir.isVertical then w / 2 else h / 2)
    unfold lft rgt tr ht
    cases cfg.dir.isVertical <;> simp
  · show ([⟨id, ⟨0, 0⟩, w, h⟩] : List PNode).Pairwise _
    simp
  · intro n hn
    have : n = ⟨id, ⟨0, 0⟩, w, h⟩ := by simpa [initSt] using hn
    subst this; exact hP
  · intro l hl
    have : l = ⟨0, 0, []⟩ := by
      have := List.eq_of_mem_replicate (show l ∈ List.replicate k _ from hl); exact this
    subst this
    exact ⟨le_refl _, (by intro n hn; cases hn), List.Pairwise.nil, (by intro n hn; cases hn)⟩
  · intro n hn
    have : n = ⟨id, ⟨0, 0⟩, w, h⟩ := by simpa [initSt] using hn
    subst this
    unfold gr; cases cfg.dir.isVertical <;> simp
  · exact growAt_replicate _ _ _ _
  · intro _ p hp
    have := List.eq_of_mem_replicate (show p ∈ List.replicate k _ from hp)
    rw [this]

theorem placeCentral_ok {cfg P st t} (hst : StOK cfg P st) (hc : st.mustCentral = true)
    (ht : LayOK cfg.dir (2 * cfg.nodeSep) (gstep cfg) P t) : StOK cfg P (placeCentral cfg st t) := by
  have hlv := ht.translate_lv (baseTrans cfg.dir cfg.rankSep)
  refine ⟨hst.root, ?_, ⟨hst.grow.1, ?_⟩, ?_⟩
  · refine overlay_ok (fun _ p => p.nodes = []) (fun t p a b c => fCentral_ok t p a b c) _ _ hlv hst.rest ?_
    intro x hx
    exact hst.fresh hc x.2 (List.of_mem_zip hx).2
  · refine overlay_grow (fun _ _ => rfl) _ _ _ ?_ hst.grow.2
    exact ht.grow.translate (baseTrans cfg.dir cfg.rankSep)
  · intro h; exact absurd h (by simp [placeCentral])

theorem placeSide_ok {cfg P st t} (hns : 0 ≤ cfg.nodeSep) (hst : StOK cfg P st) (hmc : st.mustCentral = false)
    (ht : LayOK cfg.dir (2 * cfg.nodeSep) (gstep cfg) P t) : StOK cfg P (placeSide cfg st t) := by
  have hgap : (0 : Rat) ≤ 2 * cfg.nodeSep := by linarith
  cases hpos : st.positiveNext
  · -- negative side: flipped subtree
    have ht1 := ht.flip
    let R := rootPosOf false (candidates false cfg.nodeSep st.rest (t.flip cfg.dir).levels)
    have hlv := ht1.translate_lv (sideTrans cfg R)
    refine ⟨hst.root, ?_, ⟨hst.grow.1, ?_⟩, ?_⟩
    · simp only [placeSide, sideMoved, hpos, Bool.false_eq_true, if_false]
      refine overlay_ok (fun t p => t.hi + 2 * cfg.nodeSep ≤ p.lo) (fun t p a b c => fNeg_ok hgap t p a b c)
        _ _ hlv hst.rest ?_
      exact zip_sep_neg cfg.dir cfg.nodeSep R _ (disp_sideTrans cfg R) _ _ (rootPos_neg _)
    · simp only [placeSide, sideMoved, hpos, Bool.false_eq_true, if_false]
      refine overlay_grow (fun _ _ => rfl) _ _ _ ?_ hst.grow.2
      have := ht1.grow.translate (sideTrans cfg R)
      rw [gr_sideTrans] at this
      exact this
    · intro h
      rw [show (placeSide cfg st t).mustCentral = st.mustCentral from rfl, hmc] at h
      cases h
  · have ht1 := ht
    let R := rootPosOf true (candidates true cfg.nodeSep st.rest t.levels)
    have hlv := ht1.translate_lv (sideTrans cfg R)
    refine ⟨hst.root, ?_, ⟨hst.grow.1, ?_⟩, ?_⟩
    · simp only [placeSide, sideMoved, hpos, if_true]
      refine overlay_ok (fun t p => p.hi + 2 * cfg.nodeSep ≤ t.lo) (fun t p a b c => fPos_ok hgap t p a b c)
        _ _ hlv hst.rest ?_
      exact zip_sep_pos cfg.dir cfg.nodeSep R _ (disp_sideTrans cfg R) _ _ (rootPos_pos _)
    · simp only [placeSide, sideMoved, hpos, if_true]
      refine overlay_grow (fun _ _ => rfl) _ _ _ ?_ hst.grow.2
      have := ht1.grow.translate (sideTrans cfg R)
      rw [gr_sideTrans] at this
      exact this
    · intro h
      rw [show (placeSide cfg st t).mustCentral = st.mustCentral from rfl, hmc] at h
      cases h

theorem place_ok {cfg P st t} (hns : 0 ≤ cfg.nodeSep) (hst : StOK cfg P st)
    (ht : LayOK cfg.dir (2 * cfg.nodeSep) (gstep cfg) P t) : StOK cfg P (place cfg st t) := by
  unfold place
  cases hmc : st.mustCentral
  · simpa using placeSide_ok hns hst hmc ht
  · simpa using placeCentral_ok hst hmc ht

theorem foldl_place_ok {cfg P} (hns : 0 ≤ cfg.nodeSep) : ∀ (ts : List Lay) (st : St), StOK cfg P st →
    (∀ t ∈ ts, LayOK cfg.dir (2 * cfg.nodeSep) (gstep cfg) P t) → StOK cfg P (ts.foldl (place cfg) st)
  | [], _, hst, _ => hst
  | t :: ts, _, hst, ht =>
    foldl_place_ok hns ts _ (place_ok hns hst (ht t (List.mem_cons_self ..)))
      (fun x hx => ht x (List.mem_cons_of_mem _ hx))

theorem toLay_ok {cfg P st} (hst : StOK cfg P st) :
    LayOK cfg.dir (2 * cfg.nodeSep) (gstep cfg) P st.toLay := by
  refine ⟨?_, hst.grow⟩
  intro l hl
  rcases List.mem_cons.1 hl with rfl | hl
  · exact hst.root
  · exact hst.rest l hl

/-- one `symmetricLayout` call: if the c-trees satisfy the invariant, so does the tree -/
theorem placeAll_ok {cfg : Cfg} {P : Rat → Rat → Prop} (hns : 0 ≤ cfg.nodeSep) (id : Nat) (w h : Rat)
    (ordered : List Lay) (c : Bool) (hP : P w h) (hw : 0 ≤ w) (hh : 0 ≤ h)
    (ht : ∀ t ∈ ordered, LayOK cfg.dir (2 * cfg.nodeSep) (gstep cfg) P t) :
    LayOK cfg.dir (2 * cfg.nodeSep) (gstep cfg) P (placeAll cfg id w h ordered c) :=
  toLay_ok (foldl_place_ok hns ordered _ (initSt_ok cfg P id w h _ c hP hw hh) ht)

theorem mem_pick {perm : List Nat} {ls : List Lay} {t : Lay} (h : t ∈ pick perm ls) : t ∈ ls := by
  unfold pick at h
  obtain ⟨i, _, hi⟩ := List.mem_filterMap.1 h
  exact List.mem_of_getElem? hi

/-- every node size of the forest satisfies `P` -/
def ForestAll (P : Rat → Rat → Prop) : Forest → Prop
  | .nil => True
  | .cons _ w h kids rest => P w h ∧ ForestAll P kids ∧ ForestAll P rest

/-- the recursion: every c-tree layout satisfies the invariant, for any ordering function -/
theorem layoutAll_ok (ord : Order) {cfg : Cfg} {P : Rat → Rat → Prop} (hns : 0 ≤ cfg.nodeSep)
    (hnn : ∀ w h, P w h → 0 ≤ w ∧ 0 ≤ h) :
    ∀ (f : Forest), ForestAll P f →
      ∀ t ∈ layoutAll ord cfg f, LayOK cfg.dir (2 * cfg.nodeSep) (gstep cfg) P t := by
  intro f
  induction f with
  | nil => intro _ t ht; simp [layoutAll] at ht
  | cons id w h kids rest ihk ihr =>
    intro hf t ht
    simp only [layoutAll, List.mem_cons] at ht
    rcases ht with rfl | ht
    · exact placeAll_ok hns id w h _ _ hf.1 (hnn w h hf.1).1 (hnn w h hf.1).2
        (fun x hx => ihk hf.2.1 x (mem_pick hx))
    · exact ihr hf.2.2 t ht

theorem layoutWith_ok (ord : Order) {cfg : Cfg} {P : Rat → Rat → Prop} (hns : 0 ≤ cfg.nodeSep)
    (hnn : ∀ w h, P w h → 0 ≤ w ∧ 0 ≤ h) (convex : Bool) (id : Nat) (w h : Rat) (kids : Forest)
    (hP : P w h) (hk : ForestAll P kids) :
    LayOK cfg.dir (2 * cfg.nodeSep) (gstep cfg) P (layoutWith ord cfg convex id w h kids) :=
  placeAll_ok hns id w h _ _ hP (hnn w h hP).1 (hnn w h hP).2
    (fun x hx => layoutAll_ok ord hns hnn kids hk x (mem_pick hx))

/-! ### from the invariant to "no two boxes overlap" -/

theorem growAt_exists {d s} : ∀ {g : Rat} {ls : List Level}, GrowAt d s g ls →
    ∀ n ∈ ls.flatMap (·.nodes), ∃ k : Nat, gr d n.c = g + k * s
  | _, [], _ => by simp
  | g, l :: ls, h => by
    intro n hn
    simp only [List.flatMap_cons, List.mem_append] at hn
    rcases hn with hn | hn
    · exact ⟨0, by simp [h.1 n hn]⟩
    · obtain ⟨k, hk⟩ := growAt_exists h.2 n hn
      exact ⟨k + 1, by rw [hk]; push_cast; ring⟩

theorem levelOK_sz_flat {d gap P} : ∀ {ls : List Level}, (∀ l ∈ ls, LevelOK d gap P l) →
    ∀ n ∈ ls.flatMap (·.nodes), P n.w n.h := by
  intro ls h n hn
  obtain ⟨l, hl, hn⟩ := List.mem_flatMap.1 hn
  exact (h l hl).sz n hn

/-- the nodes of a list of levels: same level → transverse gap; different levels → growth-axis intervals
    do not overlap when both half extents along the growth axis are ≤ rs/2 and the level step is ±rs -/
theorem nodes_pairwise {d : Dir} {gap s rs : Rat} {P : Rat → Rat → Prop}
    (hs : s = rs ∨ s = -rs) (hrs : 0 ≤ rs) (hP : ∀ n : PNode, P n.w n.h → hg d n ≤ rs / 2) :
    ∀ (ls : List Level) (g : Rat), (∀ l ∈ ls, LevelOK d gap P l) → GrowAt d s g ls →
      (ls.flatMap (·.nodes)).Pairwise (fun m n => sepT d gap m n ∨ sepG d m n)
  | [], _, _, _ => by simp
  | l :: ls, g, hl, hg' => by
    simp only [List.flatMap_cons]
    rw [List.pairwise_append]
    refine ⟨?_, ?_, ?_⟩
    · exact (hl l (List.mem_cons_self ..)).sep.imp (fun h => Or.inl h)
    · exact nodes_pairwise hs hrs hP ls (g + s) (fun x hx => hl x (List.mem_cons_of_mem _ hx)) hg'.2
    · intro m hm n hn
      right
      have gm := hg'.1 m hm
      obtain ⟨k, gn⟩ := growAt_exists hg'.2 n hn
      have pm := hP m ((hl l (List.mem_cons_self ..)).sz m hm)
      have pn := hP n (levelOK_sz_flat (fun x hx => hl x (List.mem_cons_of_mem _ hx)) n hn)
      have hk : (0 : Rat) ≤ (k : Rat) * rs := mul_nonneg (Nat.cast_nonneg k) hrs
      unfold sepG
      rcases hs with rfl | rfl
      · left; rw [gm, gn]; linarith
      · right; rw [gm, gn]; linarith

theorem noOverlap_of {d : Dir} {m n : PNode} (h : sepT d 0 m n ∨ sepG d m n) : noOverlap m n := by
  unfold noOverlap
  unfold sepT sepG lft rgt tr gr ht hg at h
  cases hd : d.isVertical <;> simp only [hd, Bool.false_eq_true, if_false, if_true, add_zero] at h
  · rcases h with (h | h) | (h | h)
    · right; right; left; exact h
    · right; right; right; exact h
    · left; exact h
    · right; left; exact h
  · rcases h with (h | h) | (h | h)
    · left; exact h
    · right; left; exact h
    · right; right; left; exact h
    · right; right; right; exact h

/-! ### strict variant: positive gaps, extents strictly below rankSep -/

/-- strictly separated on the transverse axis / along the growth axis -/
def sepTs (d : Dir) (m n : PNode) : Prop := rgt d m < lft d n ∨ rgt d n < lft d m
def sepGs (d : Dir) (m n : PNode) : Prop :=
  gr d m.c + hg d m < gr d n.c - hg d n ∨ gr d n.c + hg d n < gr d m.c - hg d m

theorem nodes_pairwise_strict {d : Dir} {gap s rs : Rat} {P : Rat → Rat → Prop} (hgap : 0 < gap)
    (hs : s = rs ∨ s = -rs) (hrs : 0 ≤ rs) (hP : ∀ n : PNode, P n.w n.h → hg d n < rs / 2) :
    ∀ (ls : List Level) (g : Rat), (∀ l ∈ ls, LevelOK d gap P l) → GrowAt d s g ls →
      (ls.flatMap (·.nodes)).Pairwise (fun m n => sepTs d m n ∨ sepGs d m n)
  | [], _, _, _ => by simp
  | l :: ls, g, hl, hg' => by
    simp only [List.flatMap_cons]
    rw [List.pairwise_append]
    refine ⟨?_, ?_, ?_⟩
    · refine (hl l (List.mem_cons_self ..)).sep.imp (fun h => Or.inl ?_)
      unfold sepT at h; unfold sepTs
      rcases h with h | h
      · left; linarith
      · right; linarith
    · exact nodes_pairwise_strict hgap hs hrs hP ls (g + s) (fun x hx => hl x (List.mem_cons_of_mem _ hx)) hg'.2
    · intro m hm n hn
      right
      have gm := hg'.1 m hm
      obtain ⟨k, gn⟩ := growAt_exists hg'.2 n hn
      have pm := hP m ((hl l (List.mem_cons_self ..)).sz m hm)
      have pn := hP n (levelOK_sz_flat (fun x hx => hl x (List.mem_cons_of_mem _ hx)) n hn)
      have hk : (0 : Rat) ≤ (k : Rat) * rs := mul_nonneg (Nat.cast_nonneg k) hrs
      unfold sepGs
      rcases hs with rfl | rfl
      · left; rw [gm, gn]; linarith
      · right; rw [gm, gn]; linarith

/-- the closed boxes are disjoint -/
def disjointBoxes (m n : PNode) : Prop :=
  m.c.x + m.w / 2 < n.c.x - n.w / 2 ∨ n.c.x + n.w / 2 < m.c.x - m.w / 2 ∨
  m.c.y + m.h / 2 < n.c.y - n.h / 2 ∨ n.c.y + n.h / 2 < m.c.y - m.h / 2

theorem disjointBoxes_of {d : Dir} {m n : PNode} (h : sepTs d m n ∨ sepGs d m n) : disjointBoxes m n := by
  unfold disjointBoxes
  unfold sepTs sepGs lft rgt tr gr ht hg at h
  cases hd : d.isVertical <;> simp only [hd, Bool.false_eq_true, if_false, if_true] at h
  · rcases h with (h | h) | (h | h)
    · right; right; left; exact h
    · right; right; right; exact h
    · left; exact h
    · right; left; exact h
  · rcases h with (h | h) | (h | h)
    · left; exact h
    · right; left; exact h
    · right; right; left; exact h
    · right; right; right; exact h

/-! ### `siblings_separated`, at the level of rank bounds (no hypothesis at all) and of nodes -/

/-- the side branch puts the subtree's bound of every common rank `2·nodeSep` beyond the parent's bound -/
theorem sideMoved_sep (cfg : Cfg) (st : St) (t : Lay) :
    ∀ x ∈ (sideMoved cfg st t).levels.zip st.rest,
      (st.positiveNext = true → x.2.hi + 2 * cfg.nodeSep ≤ x.1.lo) ∧
      (st.positiveNext = false → x.1.hi + 2 * cfg.nodeSep ≤ x.2.lo) := by
  intro x hx
  cases hpos : st.positiveNext
  · refine ⟨fun h => (by cases h), fun _ => ?_⟩
    simp only [sideMoved, hpos, Bool.false_eq_true, if_false] at hx
    let R := rootPosOf false (candidates false cfg.nodeSep st.rest (t.flip cfg.dir).levels)
    exact zip_sep_neg cfg.dir cfg.nodeSep R (sideTrans cfg R) (disp_sideTrans cfg R) _ _ (rootPos_neg _) x hx
  · refine ⟨fun _ => ?_, fun h => (by cases h)⟩
    simp only [sideMoved, hpos, if_true] at hx
    let R := rootPosOf true (candidates true cfg.nodeSep st.rest t.levels)
    exact zip_sep_pos cfg.dir cfg.nodeSep R (sideTrans cfg R) (disp_sideTrans cfg R) _ _ (rootPos_pos _) x hx

theorem sideMoved_ok {cfg P st t} (ht : LayOK cfg.dir (2 * cfg.nodeSep) (gstep cfg) P t) :
    ∀ l ∈ (sideMoved cfg st t).levels, LevelOK cfg.dir (2 * cfg.nodeSep) P l := by
  cases hpos : st.positiveNext
  · simp only [sideMoved, hpos, Bool.false_eq_true, if_false]
    exact ht.flip.translate_lv _
  · simp only [sideMoved, hpos, if_true]
    exact ht.translate_lv _

end AdaptaVerif.Lemmas.TreeLayout
