/-
Helper lemmas for the region model of C10 (Model/NudgeRegion.lean): which constraints the generic
generator `genG` contains, `genCons` as an instance, the gap rewriting of the retry loop.
-/
import AdaptaVerif.Model.NudgeRegion
import AdaptaVerif.Lemmas.Nudge
namespace AdaptaVerif.Lemmas.NudgeRegion
open AdaptaVerif.Model.Nudge AdaptaVerif.Model.NudgeRegion

variable {α : Type}

/-- `prev` lists every earlier segment with its index -/
def CoversG (prev : List (Nat × α)) (pre : List α) : Prop :=
  ∀ j a, pre[j]? = some a → (j, a) ∈ prev

theorem coversG_snoc {prev : List (Nat × α)} {pre : List α} (h : CoversG prev pre) (s : α) :
    CoversG (prev ++ [(pre.length, s)]) (pre ++ [s]) := by
  intro j a hj
  by_cases hlt : j < pre.length
  · rw [List.getElem?_append_left hlt] at hj
    exact List.mem_append_left _ (h j a hj)
  · have hge : pre.length ≤ j := Nat.le_of_not_lt hlt
    rw [List.getElem?_append_right hge] at hj
    have hj0 : j - pre.length = 0 := by
      by_contra hne
      have : ([s] : List α)[j - pre.length]? = none := by
        apply List.getElem?_eq_none
        simp only [List.length_singleton]
        omega
      rw [this] at hj; cases hj
    rw [hj0] at hj
    simp only [List.getElem?_cons_zero, Option.some.injEq] at hj
    have hjeq : j = pre.length := by omega
    subst hj; subst hjeq
    exact List.mem_append_right _ (List.mem_singleton.mpr rfl)

theorem sep_mem_consForG (g : GenP α) (prev : List (Nat × α)) (i j : Nat) (a b : α)
    (hmem : (j, a) ∈ prev) (hov : g.ov b a = true) (hfix : g.fixed b = false ∨ g.fixed a = false) :
    Cons.sep j i (g.gap a b).1 (g.gap a b).2 ∈ consForG g prev i b := by
  unfold consForG
  apply List.mem_append_left
  apply List.mem_append_right
  rw [List.mem_filterMap]
  refine ⟨(j, a), hmem, ?_⟩
  have hc : (g.ov b a && (!g.fixed b || !g.fixed a)) = true := by
    rw [hov]
    rcases hfix with h | h <;> simp [h]
  simp only [hc, if_true]

theorem sep_mem_genFromG (g : GenP α) : ∀ (segs pre : List α) (prev : List (Nat × α)),
    CoversG prev pre → ∀ (j i : Nat) (a b : α), (pre ++ segs)[j]? = some a → (pre ++ segs)[i]? = some b →
    j < i → pre.length ≤ i → g.ov b a = true → (g.fixed b = false ∨ g.fixed a = false) →
    Cons.sep j i (g.gap a b).1 (g.gap a b).2 ∈ genFromG g prev pre.length segs := by
  intro segs
  induction segs with
  | nil =>
    intro pre prev _ j i a b _ hi _ hle _ _
    rw [List.append_nil] at hi
    have : pre[i]? = none := List.getElem?_eq_none hle
    rw [this] at hi; cases hi
  | cons s rest ih =>
    intro pre prev hcov j i a b hj hi hji hle hov hfix
    unfold genFromG
    by_cases heq : i = pre.length
    · apply List.mem_append_left
      have hb : b = s := by
        rw [heq, List.getElem?_append_right (Nat.le_refl _), Nat.sub_self] at hi
        simpa using hi.symm
      have hjlt : j < pre.length := by omega
      rw [List.getElem?_append_left hjlt] at hj
      rw [hb, heq]
      exact sep_mem_consForG g prev pre.length j a s (hcov j a hj) (hb ▸ hov) (hb ▸ hfix)
    · apply List.mem_append_right
      have hlen : (pre ++ [s]).length = pre.length + 1 := by simp
      have hassoc : pre ++ s :: rest = (pre ++ [s]) ++ rest := by simp
      rw [hassoc] at hj hi
      have := ih (pre ++ [s]) (prev ++ [(pre.length, s)]) (coversG_snoc hcov s) j i a b hj hi hji
        (by rw [hlen]; omega) hov hfix
      rw [hlen] at this
      exact this

theorem sep_mem_genG (g : GenP α) (segs : List α) (j i : Nat) (a b : α)
    (hj : segs[j]? = some a) (hi : segs[i]? = some b) (hji : j < i)
    (hov : g.ov b a = true) (hfix : g.fixed b = false ∨ g.fixed a = false) :
    Cons.sep j i (g.gap a b).1 (g.gap a b).2 ∈ genG g segs := by
  have := sep_mem_genFromG g segs [] [] (by intro j a h; simp at h) j i a b (by simpa using hj)
    (by simpa using hi) hji (Nat.zero_le _) hov hfix
  simpa [genG] using this

theorem lower_mem_genFromG (g : GenP α) : ∀ (segs pre : List α) (prev : List (Nat × α)) (i : Nat) (s : α) (l : Rat),
    (pre ++ segs)[i]? = some s → pre.length ≤ i → g.fixed s = false → g.lower s = some l →
    Cons.lower i l ∈ genFromG g prev pre.length segs := by
  intro segs
  induction segs with
  | nil =>
    intro pre prev i s l hi hle _ _
    rw [List.append_nil] at hi
    have : pre[i]? = none := List.getElem?_eq_none hle
    rw [this] at hi; cases hi
  | cons t rest ih =>
    intro pre prev i s l hi hle hf hm
    unfold genFromG
    by_cases heq : i = pre.length
    · apply List.mem_append_left
      have hb : s = t := by
        rw [heq, List.getElem?_append_right (Nat.le_refl _), Nat.sub_self] at hi
        simpa using hi.symm
      subst hb
      unfold consForG
      apply List.mem_append_left
      apply List.mem_append_left
      rw [hf, hm, heq]
      exact List.mem_singleton.mpr rfl
    · apply List.mem_append_right
      have hlen : (pre ++ [t]).length = pre.length + 1 := by simp
      have hassoc : pre ++ t :: rest = (pre ++ [t]) ++ rest := by simp
      rw [hassoc] at hi
      have := ih (pre ++ [t]) (prev ++ [(pre.length, t)]) i s l hi (by rw [hlen]; omega) hf hm
      rw [hlen] at this
      exact this

theorem upper_mem_genFromG (g : GenP α) : ∀ (segs pre : List α) (prev : List (Nat × α)) (i : Nat) (s : α) (u : Rat),
    (pre ++ segs)[i]? = some s → pre.length ≤ i → g.fixed s = false → g.upper s = some u →
    Cons.upper i u ∈ genFromG g prev pre.length segs := by
  intro segs
  induction segs with
  | nil =>
    intro pre prev i s u hi hle _ _
    rw [List.append_nil] at hi
    have : pre[i]? = none := List.getElem?_eq_none hle
    rw [this] at hi; cases hi
  | cons t rest ih =>
    intro pre prev i s u hi hle hf hm
    unfold genFromG
    by_cases heq : i = pre.length
    · apply List.mem_append_left
      have hb : s = t := by
        rw [heq, List.getElem?_append_right (Nat.le_refl _), Nat.sub_self] at hi
        simpa using hi.symm
      subst hb
      unfold consForG
      apply List.mem_append_right
      rw [hf, hm, heq]
      exact List.mem_singleton.mpr rfl
    · apply List.mem_append_right
      have hlen : (pre ++ [t]).length = pre.length + 1 := by simp
      have hassoc : pre ++ t :: rest = (pre ++ [t]) ++ rest := by simp
      rw [hassoc] at hi
      have := ih (pre ++ [t]) (prev ++ [(pre.length, t)]) i s u hi (by rw [hlen]; omega) hf hm
      rw [hlen] at this
      exact this

theorem lower_mem_genG (g : GenP α) (segs : List α) (i : Nat) (s : α) (l : Rat)
    (hi : segs[i]? = some s) (hf : g.fixed s = false) (hm : g.lower s = some l) :
    Cons.lower i l ∈ genG g segs := by
  have := lower_mem_genFromG g segs [] [] i s l (by simpa using hi) (Nat.zero_le _) hf hm
  simpa [genG] using this

theorem upper_mem_genG (g : GenP α) (segs : List α) (i : Nat) (s : α) (u : Rat)
    (hi : segs[i]? = some s) (hf : g.fixed s = false) (hm : g.upper s = some u) :
    Cons.upper i u ∈ genG g segs := by
  have := upper_mem_genFromG g segs [] [] i s u (by simpa using hi) (Nat.zero_le _) hf hm
  simpa [genG] using this

/-- the abstract generator of Model/Nudge.lean is the instance `absP` of the generic one -/
theorem genFrom_eq_genFromG (p : Params) : ∀ (segs : List Seg) (prev : List (Nat × Seg)) (i : Nat),
    genFrom p prev i segs = genFromG (absP p) prev i segs := by
  intro segs
  induction segs with
  | nil => intro prev i; rfl
  | cons s rest ih =>
    intro prev i
    unfold genFrom genFromG
    rw [ih]
    rfl

/-! ### the gap rewriting of the retry loop -/

/-- `c'` is `c` with possibly a new gap `d`, and only if the old gap was positive -/
def GapRel (d : Rat) (c c' : FCon) : Prop :=
  c'.left = c.left ∧ c'.right = c.right ∧ c'.eq = c.eq ∧ (c'.gap = c.gap ∨ (0 < c.gap ∧ c'.gap = d))

theorem gapRel_refl (d : Rat) (c : FCon) : GapRel d c c := ⟨rfl, rfl, rfl, Or.inl rfl⟩

theorem forall2_gapRel_refl (d : Rat) : ∀ cs : List FCon, List.Forall₂ (GapRel d) cs cs
  | [] => List.Forall₂.nil
  | c :: cs => List.Forall₂.cons (gapRel_refl d c) (forall2_gapRel_refl d cs)

theorem rewriteGaps_rel (d : Rat) : ∀ (cs : List FCon) (within : Bool) (rs : List Range),
    List.Forall₂ (GapRel d) cs (rewriteGaps d within rs cs).1 := by
  intro cs
  induction cs with
  | nil => intro within rs; cases rs <;> simp [rewriteGaps]
  | cons c cs ih =>
    intro within rs
    cases rs with
    | nil => simp only [rewriteGaps]; exact forall2_gapRel_refl d _
    | cons r rs =>
      simp only [rewriteGaps]
      have hc : GapRel d c (if (within || c.left == r.1) && decide (0 < c.gap) then { c with gap := d } else c) := by
        by_cases h : ((within || c.left == r.1) && decide (0 < c.gap)) = true
        · simp only [h, if_true]
          refine ⟨rfl, rfl, rfl, Or.inr ⟨?_, rfl⟩⟩
          simp only [Bool.and_eq_true, decide_eq_true_eq] at h
          exact h.2
        · simp only [h]; exact gapRel_refl d c
      by_cases hr : (c.right == r.2) = true
      · simp only [hr, if_true]
        exact List.Forall₂.cons hc (ih false rs)
      · simp only [hr]
        exact List.Forall₂.cons hc (ih (within || c.left == r.1) (r :: rs))

theorem forall2_mem_left {β γ : Type} {R : β → γ → Prop} : ∀ {l : List β} {l' : List γ},
    List.Forall₂ R l l' → ∀ a ∈ l, ∃ b ∈ l', R a b := by
  intro l l' h
  induction h with
  | nil => intro a ha; cases ha
  | cons hab _ ih =>
    intro a ha
    rcases List.mem_cons.mp ha with rfl | ha
    · exact ⟨_, List.mem_cons_self, hab⟩
    · obtain ⟨b, hb, hr⟩ := ih a ha
      exact ⟨b, List.mem_cons_of_mem _ hb, hr⟩

theorem forall2_trans_rel {β : Type} {R S T : β → β → Prop} (hRS : ∀ a b c, R a b → S b c → T a c) :
    ∀ {l1 l2 l3 : List β}, List.Forall₂ R l1 l2 → List.Forall₂ S l2 l3 → List.Forall₂ T l1 l3 := by
  intro l1 l2 l3 h12
  induction h12 generalizing l3 with
  | nil => intro h; cases h; exact List.Forall₂.nil
  | cons hab _ ih =>
    intro h
    cases h with
    | cons hbc htl => exact List.Forall₂.cons (hRS _ _ _ hab hbc) (ih htl)

/-! ### shape of the generated constraints -/

/-- every constraint of `genG` is a channel constraint or a separation with the gap / equality that
    `g.gap` gives for some pair of segments -/
def ConsShape (g : GenP α) (c : Cons) : Prop :=
  (∃ j i a b, c = Cons.sep j i (g.gap a b).1 (g.gap a b).2) ∨ (∃ i l, c = Cons.lower i l) ∨ (∃ i u, c = Cons.upper i u)

theorem consForG_shape (g : GenP α) (prev : List (Nat × α)) (i : Nat) (s : α) :
    ∀ c ∈ consForG g prev i s, ConsShape g c := by
  intro c hc
  unfold consForG at hc
  rcases List.mem_append.mp hc with hc | hc
  · rcases List.mem_append.mp hc with hc | hc
    · right; left
      split at hc
      · exact ⟨i, _, List.mem_singleton.mp hc⟩
      · cases hc
    · left
      rw [List.mem_filterMap] at hc
      obtain ⟨js, _, hjs⟩ := hc
      split at hjs
      · exact ⟨js.1, i, js.2, s, (Option.some.inj hjs).symm⟩
      · cases hjs
  · right; right
    split at hc
    · exact ⟨i, _, List.mem_singleton.mp hc⟩
    · cases hc

theorem genFromG_shape (g : GenP α) : ∀ (segs : List α) (prev : List (Nat × α)) (i : Nat),
    ∀ c ∈ genFromG g prev i segs, ConsShape g c := by
  intro segs
  induction segs with
  | nil => intro prev i c hc; cases hc
  | cons s rest ih =>
    intro prev i c hc
    unfold genFromG at hc
    rcases List.mem_append.mp hc with hc | hc
    · exact consForG_shape g prev i s c hc
    · exact ih _ _ c hc

/-! ### the region instance -/

/-- the pair (earlier `a`, later `b`) gets the full separation distance: different connectors, and
    not a shared path with a common end point while nudgeSharedPathsWithCommonEndPoint is off -/
def FullGapR (o : ROpts) (a b : RSeg) : Prop :=
  a.conn ≠ b.conn ∧ ¬ (o.nudgeCommonEnd = false ∧ o.commonEnd b.conn a.conn = true)

theorem gapOf_full (o : ROpts) (d : Rat) (a b : RSeg) (h : FullGapR o a b) : gapOf o d a b = (d, false) := by
  obtain ⟨hne, hce⟩ := h
  have hne' : ¬ b.conn = a.conn := fun e => hne e.symm
  have h1 : shouldAlignWith o b a = false := by
    unfold shouldAlignWith
    simp [hne']
  have h2 : canAlignWith b a = false := by
    unfold canAlignWith
    simp [hne']
  unfold gapOf
  simp only [h1, h2, Bool.false_eq_true, if_false]
  split
  · rename_i h3
    exfalso; apply hce
    simp only [Bool.and_eq_true, Bool.not_eq_true'] at h3
    exact ⟨h3.1.1, h3.2⟩
  · rfl

theorem gapOf_values (o : ROpts) (d : Rat) (a b : RSeg) : (gapOf o d a b).1 = 0 ∨ (gapOf o d a b).1 = d := by
  unfold gapOf
  split
  · left; rfl
  · split
    · left; rfl
    · split
      · left; rfl
      · right; rfl

/-- every flat constraint of a region set up with distance `d` has gap 0 or `d` -/
theorem regionCons_gap (o : ROpts) (d : Rat) (segs : List RSeg) :
    ∀ c ∈ (regionCons o d segs).map (flat segs), c.gap = 0 ∨ c.gap = d := by
  intro c hc
  rw [List.mem_map] at hc
  obtain ⟨sc, hsc, rfl⟩ := hc
  rcases genFromG_shape (regionP o d) segs [] 0 sc hsc with ⟨j, i, a, b, rfl⟩ | ⟨i, l, rfl⟩ | ⟨i, u, rfl⟩
  · exact gapOf_values o d a b
  · left; rfl
  · left; rfl

/-- all flat constraints hold for the solver's positions -/
def AllHoldF (cs : List FCon) (pos : Nat → Rat) : Prop := ∀ c ∈ cs, c.holds pos

/-- relation between a constraint as first generated (`c0`) and its current form (`c`) when the
    current separation distance is `s` -/
def ConRel (s : Rat) (c0 c : FCon) : Prop :=
  c.left = c0.left ∧ c.right = c0.right ∧ c.eq = c0.eq ∧ (c0.gap ≤ 0 → c.gap = c0.gap) ∧ (0 < c0.gap → s ≤ c.gap)

/-- invariant of the retry loop -/
def StateInv (cons0 : List FCon) (st : NState) : Prop := List.Forall₂ (ConRel st.sepDist) cons0 st.cons

theorem forall2_self {β : Type} {R : β → β → Prop} : ∀ (l : List β), (∀ a ∈ l, R a a) → List.Forall₂ R l l
  | [], _ => List.Forall₂.nil
  | a :: l, h => List.Forall₂.cons (h a List.mem_cons_self) (forall2_self l (fun b hb => h b (List.mem_cons_of_mem _ hb)))

theorem stateInv_init (o : ROpts) (segs : List RSeg) :
    StateInv (initState o segs).cons (initState o segs) := by
  unfold StateInv
  apply forall2_self
  intro c hc
  refine ⟨rfl, rfl, rfl, fun _ => rfl, ?_⟩
  intro hpos
  rcases regionCons_gap o o.base segs c hc with h | h
  · rw [h] at hpos; exact absurd hpos (by decide)
  · exact le_of_eq h.symm

/-- one round of the loop keeps the invariant (the reduction must not increase the distance) -/
theorem nudgeStep_inv (o : ROpts) (vars : List Var) (cons0 : List FCon) (st : NState) (fps : List Rat)
    (out : StepOut NState) (hstep : nudgeStep o vars st fps = some out)
    (hmono : nextSep o st.sepDist ≤ st.sepDist) (hinv : StateInv cons0 st) : StateInv cons0 out.next := by
  unfold nudgeStep at hstep
  split at hstep
  · cases hstep
  · rename_i sat rs _
    split at hstep
    · cases hstep; exact hinv
    · split at hstep
      · cases hstep
      · split at hstep
        · cases hstep
        · cases hstep
          unfold StateInv
          simp only
          have hrel := rewriteGaps_rel (nextSep o st.sepDist) st.cons false rs
          refine forall2_trans_rel ?_ hinv hrel
          intro c0 c c' ⟨hl, hr, he, hz, hp⟩ ⟨hl', hr', he', hg⟩
          refine ⟨hl'.trans hl, hr'.trans hr, he'.trans he, ?_, ?_⟩
          · intro h0
            rcases hg with hg | ⟨hpos, _⟩
            · rw [hg]; exact hz h0
            · rw [hz h0] at hpos
              exact absurd (lt_of_lt_of_le hpos h0) (lt_irrefl _)
          · intro h0
            rcases hg with hg | ⟨_, hg⟩
            · rw [hg]; exact le_trans hmono (hp h0)
            · exact le_of_eq hg.symm

/-- the loop goes round again only with a distance above the threshold 0.0001 -/
theorem nudgeStep_retry (o : ROpts) (vars : List Var) (st : NState) (fps : List Rat)
    (out : StepOut NState) (hstep : nudgeStep o vars st fps = some out) (hr : out.retry = true) :
    tolD < out.next.sepDist ∧ out.next.sepDist = nextSep o st.sepDist ∧ out.satisfied = false := by
  unfold nudgeStep at hstep
  split at hstep
  · cases hstep
  · split at hstep
    · cases hstep; cases hr
    · split at hstep
      · cases hstep
      · split at hstep
        · cases hstep
        · cases hstep
          simp only [decide_eq_true_eq] at hr
          exact ⟨hr, rfl, rfl⟩

/-- a satisfied round does not touch distance and constraints -/
theorem nudgeStep_satisfied (o : ROpts) (vars : List Var) (st : NState) (fps : List Rat)
    (out : StepOut NState) (hstep : nudgeStep o vars st fps = some out) (hs : out.satisfied = true) :
    out.retry = false ∧ out.next.sepDist = st.sepDist ∧ out.next.cons = st.cons := by
  unfold nudgeStep at hstep
  split at hstep
  · cases hstep
  · split at hstep
    · cases hstep; exact ⟨rfl, rfl, rfl⟩
    · split at hstep
      · cases hstep
      · split at hstep
        · cases hstep
        · cases hstep; cases hs

/-- states the nudging loop can be in when the solver is called: the start state, and the state
    after every round that asked for a retry (whatever the solver returned) -/
inductive Reach (o : ROpts) (vars : List Var) (st0 : NState) : NState → Prop
  | start : Reach o vars st0 st0
  | step {st : NState} {out : StepOut NState} (fps : List Rat) : Reach o vars st0 st →
      nudgeStep o vars st fps = some out → out.retry = true → Reach o vars st0 out.next

theorem absQ_le {r t : Rat} (h : absQ r ≤ t) : -t ≤ r ∧ r ≤ t := by
  unfold absQ at h
  split_ifs at h with hneg
  · constructor <;> linarith
  · constructor <;> linarith

/-- the fold of `scanVars`: a result `true` means no scanned variable was unsatisfied -/
theorem scan_fold_true (vars : List Var) :
    ∀ (l : List ((Var × Rat) × Nat)) (acc : Option (Bool × List Range)) (rs : List Range),
    l.foldl (fun acc (x : (Var × Rat) × Nat) =>
      match acc with
      | none => none
      | some (sat, rs) =>
        if varUnsat x.1.1 x.1.2 then (updRanges vars rs x.2 x.1.1.id).map (fun rs' => (false, rs'))
        else some (sat, rs)) acc = some (true, rs) →
    (∃ rs0, acc = some (true, rs0)) ∧ ∀ x ∈ l, varUnsat x.1.1 x.1.2 = false := by
  intro l
  induction l with
  | nil => intro acc rs h; exact ⟨⟨rs, h⟩, fun x hx => by cases hx⟩
  | cons x l ih =>
    intro acc rs h
    rw [List.foldl_cons] at h
    obtain ⟨⟨rs0, hacc⟩, hall⟩ := ih _ rs h
    cases acc with
    | none => simp at hacc
    | some p =>
      obtain ⟨sat, rs1⟩ := p
      by_cases hu : varUnsat x.1.1 x.1.2 = true
      · simp only [hu, if_true] at hacc
        cases hup : updRanges vars rs1 x.2 x.1.1.id with
        | none => rw [hup] at hacc; simp at hacc
        | some r => rw [hup] at hacc; simp at hacc
      · simp only [hu] at hacc
        simp only [Bool.false_eq_true, if_false, Option.some.injEq, Prod.mk.injEq] at hacc
        refine ⟨⟨rs1, by rw [hacc.1]⟩, ?_⟩
        intro y hy
        rcases List.mem_cons.mp hy with rfl | hy
        · simpa using hu
        · exact hall y hy

/-- a satisfied round: every variable that is not a free segment ended within 0.0001 of its
    desired position -/
theorem nudgeStep_satisfied_close (o : ROpts) (vars : List Var) (st : NState) (fps : List Rat)
    (out : StepOut NState) (hstep : nudgeStep o vars st fps = some out) (hs : out.satisfied = true) :
    ∀ vf ∈ vars.zip fps, vf.1.id ≠ freeSegmentID → absQ (vf.2 - vf.1.desired) ≤ tolD := by
  unfold nudgeStep at hstep
  split at hstep
  · cases hstep
  · rename_i sat rs hscan
    split at hstep
    · rename_i hsat
      unfold scanVars at hscan
      rw [hsat] at hscan
      have := (scan_fold_true vars _ _ rs hscan).2
      intro vf hvf hid
      obtain ⟨i, hi⟩ : ∃ i, (vf, i) ∈ (vars.zip fps).zipIdx := by
        obtain ⟨i, hlt, hget⟩ := List.mem_iff_getElem.mp hvf
        exact ⟨i, by rw [List.mem_zipIdx_iff_getElem?, List.getElem?_eq_getElem hlt, hget]⟩
      have hu := this (vf, i) hi
      unfold varUnsat at hu
      simp only [Bool.and_eq_false_iff, bne_eq_false_iff_eq, decide_eq_false_iff_not, not_lt] at hu
      rcases hu with hu | hu
      · exact absurd hu hid
      · exact hu
    · split at hstep
      · cases hstep
      · split at hstep
        · cases hstep
        · cases hstep; cases hs

/-- in exact arithmetic the reduction does not increase the distance -/
theorem nextSep_le_exact (o : ROpts) (hr : ∀ r, o.rnd r = r) (hb : 0 ≤ o.base) (s : Rat) : nextSep o s ≤ s := by
  unfold nextSep
  rw [hr, hr]
  have : 0 ≤ o.base / 10 := by positivity
  linarith

/-! ### linesort -/

/-- `P` holds for every pair of neighbours -/
def Adj {β : Type} (P : β → β → Prop) : List β → Prop
  | [] => True
  | [_] => True
  | a :: b :: rest => P a b ∧ Adj P (b :: rest)

/-- what insertion guarantees for neighbours x (before) and y (after): x was put directly before y
    because it compared less, or y did not compare less than x when it passed it -/
def InsOk {β : Type} (cmp : β → β → Bool × Bool) (x y : β) : Prop :=
  cmp x y = (true, true) ∨ cmp y x ≠ (true, true)

theorem adj_cons {β : Type} {P : β → β → Prop} {a : β} {l : List β} (h : Adj P l)
    (hh : ∀ b, l.head? = some b → P a b) : Adj P (a :: l) := by
  cases l with
  | nil => trivial
  | cons b rest => exact ⟨hh b rfl, h⟩

theorem adj_tail {β : Type} {P : β → β → Prop} {a : β} {l : List β} (h : Adj P (a :: l)) : Adj P l := by
  cases l with
  | nil => trivial
  | cons b rest => exact h.2

theorem head_insertBefore {β : Type} (cmp : β → β → Bool × Bool) (s : β) (l : List β) :
    (insertBefore cmp s l).head? = some s ∨ ((insertBefore cmp s l).head? = l.head? ∧
      ∃ c, l.head? = some c ∧ cmp s c ≠ (true, true)) := by
  cases l with
  | nil => left; rfl
  | cons c rest =>
    unfold insertBefore
    by_cases h : cmp s c = (true, true)
    · left; simp [h]
    · right; simp [h]

theorem adj_insertBefore {β : Type} (cmp : β → β → Bool × Bool) (s : β) :
    ∀ l : List β, Adj (InsOk cmp) l → Adj (InsOk cmp) (insertBefore cmp s l) := by
  intro l
  induction l with
  | nil => intro _; trivial
  | cons c rest ih =>
    intro h
    unfold insertBefore
    by_cases hc : cmp s c = (true, true)
    · simp only [hc, if_true]
      exact ⟨Or.inl hc, h⟩
    · simp only [hc, if_false]
      apply adj_cons (ih (adj_tail h))
      intro b hb
      rcases head_insertBefore cmp s rest with hs | ⟨hsame, _⟩
      · rw [hs] at hb
        cases hb
        exact Or.inr hc
      · rw [hsame] at hb
        cases rest with
        | nil => cases hb
        | cons r rest' =>
          simp only [List.head?_cons, Option.some.injEq] at hb
          subst hb
          exact h.1

theorem adj_linesortLoop {β : Type} (cmp : β → β → Bool × Bool) : ∀ (fuel : Nat) (orig res : List β) (sz d : Nat),
    Adj (InsOk cmp) res → Adj (InsOk cmp) (linesortLoop cmp fuel orig res sz d) := by
  intro fuel
  induction fuel with
  | zero => intro orig res sz d h; exact h
  | succ n ih =>
    intro orig res sz d h
    cases orig with
    | nil => exact h
    | cons s rest =>
      unfold linesortLoop
      split
      · exact ih _ _ _ _ (adj_insertBefore cmp s res h)
      · exact ih _ _ _ _ h

/-- a rule-decided comparison is antisymmetric -/
theorem ruleCmp_antisymm (nd : Rat) (x y : RSeg) (h : ruleCmp nd x y = some true) : ruleCmp nd y x = some false := by
  unfold ruleCmp at h ⊢
  by_cases hp : x.pos = y.pos
  · have n1 : ¬ (x.pos ≠ y.pos) := fun hne => hne hp
    have n2 : ¬ (y.pos ≠ x.pos) := fun hne => hne hp.symm
    rw [if_neg n1] at h; rw [if_neg n2]
    dsimp only at h ⊢
    by_cases hf : (((fixedOrder nd x).2 || (fixedOrder nd y).2) && decide ((fixedOrder nd x).1 ≠ (fixedOrder nd y).1)) = true
    · have hf' : (((fixedOrder nd y).2 || (fixedOrder nd x).2) && decide ((fixedOrder nd y).1 ≠ (fixedOrder nd x).1)) = true := by
        simp only [Bool.and_eq_true, Bool.or_eq_true, decide_eq_true_eq, ne_eq] at hf ⊢
        exact ⟨hf.1.symm, fun e => hf.2 e.symm⟩
      rw [if_pos hf] at h; rw [if_pos hf']
      simp only [Option.some.injEq, decide_eq_true_eq, decide_eq_false_iff_not] at h ⊢
      omega
    · have hf' : ¬ ((((fixedOrder nd y).2 || (fixedOrder nd x).2) && decide ((fixedOrder nd y).1 ≠ (fixedOrder nd x).1)) = true) := by
        intro hh; apply hf
        simp only [Bool.and_eq_true, Bool.or_eq_true, decide_eq_true_eq, ne_eq] at hh ⊢
        exact ⟨hh.1.symm, fun e => hh.2 e.symm⟩
      rw [if_neg hf] at h; rw [if_neg hf']
      by_cases ho : order x = order y
      · have n3 : ¬ (order x ≠ order y) := fun hne => hne ho
        rw [if_neg n3] at h; cases h
      · have p3 : order x ≠ order y := ho
        have p4 : order y ≠ order x := fun e => ho e.symm
        rw [if_pos p3] at h; rw [if_pos p4]
        simp only [Option.some.injEq, decide_eq_true_eq, decide_eq_false_iff_not] at h ⊢
        omega
  · have p1 : x.pos ≠ y.pos := hp
    have p2 : y.pos ≠ x.pos := fun e => hp e.symm
    rw [if_pos p1] at h; rw [if_pos p2]
    simp only [Option.some.injEq, decide_eq_true_eq, decide_eq_false_iff_not] at h ⊢
    linarith

theorem orderViolation_none_of_adj (nd : Rat) : ∀ l : List RSeg,
    Adj (fun x y => ruleCmp nd y x ≠ some true) l → orderViolation nd l = none := by
  intro l
  induction l with
  | nil => intro _; rfl
  | cons a rest ih =>
    intro h
    cases rest with
    | nil => rfl
    | cons b rest' =>
      unfold orderViolation
      simp only [h.1, if_false]
      exact ih h.2

theorem adj_mono {β : Type} {P Q : β → β → Prop} (hPQ : ∀ x y, P x y → Q x y) : ∀ l : List β, Adj P l → Adj Q l := by
  intro l
  induction l with
  | nil => intro _; trivial
  | cons a rest ih =>
    intro h
    cases rest with
    | nil => trivial
    | cons b rest' => exact ⟨hPQ _ _ h.1, ih h.2⟩

/-! ### the unifying loop -/

theorem mem_insertStable (k : Pot → Rat) (a : Pot) : ∀ (l : List Pot) (x : Pot), x ∈ insertStable k a l → x = a ∨ x ∈ l := by
  intro l
  induction l with
  | nil => intro x hx; simp [insertStable] at hx; exact Or.inl hx
  | cons b rest ih =>
    intro x hx
    unfold insertStable at hx
    split at hx
    · rcases List.mem_cons.mp hx with h | h
      · exact Or.inl h
      · exact Or.inr h
    · rcases List.mem_cons.mp hx with h | h
      · exact Or.inr (h ▸ List.mem_cons_self)
      · rcases ih x h with h' | h'
        · exact Or.inl h'
        · exact Or.inr (List.mem_cons_of_mem _ h')

theorem mem_sortStable_aux (k : Pot → Rat) : ∀ (l acc : List Pot) (x : Pot),
    x ∈ l.foldl (fun acc a => insertStable k a acc) acc → x ∈ acc ∨ x ∈ l := by
  intro l
  induction l with
  | nil => intro acc x hx; exact Or.inl hx
  | cons a rest ih =>
    intro acc x hx
    rw [List.foldl_cons] at hx
    rcases ih _ x hx with h | h
    · rcases mem_insertStable k a acc x h with h' | h'
      · exact Or.inr (h' ▸ List.mem_cons_self)
      · exact Or.inl h'
    · exact Or.inr (List.mem_cons_of_mem _ h)

theorem mem_sortStable (k : Pot → Rat) (l : List Pot) (x : Pot) (h : x ∈ sortStable k l) : x ∈ l := by
  rcases mem_sortStable_aux k l [] x h with h' | h'
  · cases h'
  · exact h'

/-- what one round of the unifying loop can do to the problem: the potential constraints only shrink; the
    constraint list loses at most its last element and gains at most one equality with gap 0 between the two
    variables of a remaining potential constraint with two different indexes -/
theorem unifyStep_shape (o : ROpts) (vars : List Var) (st : UState) (fps : List Rat) (out : StepOut UState)
    (h : unifyStep o vars st fps = some out) :
    (∀ p ∈ out.next.pots, p ∈ st.pots) ∧
    (∀ c ∈ out.next.cons, c ∈ st.cons ∨ (c.eq = true ∧ c.gap = 0 ∧ c.left ≠ c.right ∧ (c.left, c.right) ∈ st.pots)) := by
  unfold unifyStep at h
  split at h
  · cases h
  · split at h
    · cases h
    · -- the roll-back / pop step
      generalize hcp : (if st.justAdded = true then
          if (!_) = true then (st.cons.dropLast, List.drop 1 st.pots) else (st.cons, List.drop 1 st.pots)
        else (st.cons, st.pots)) = cp at h
      obtain ⟨cons1, pots1⟩ := cp
      have hc1 : ∀ c ∈ cons1, c ∈ st.cons := by
        intro c hc
        split at hcp
        · split at hcp
          · cases hcp; exact (List.dropLast_sublist _).subset hc
          · cases hcp; exact hc
        · cases hcp; exact hc
      have hp1 : ∀ p ∈ pots1, p ∈ st.pots := by
        intro p hp
        split at hcp
        · split at hcp
          · cases hcp; exact List.mem_of_mem_drop hp
          · cases hcp; exact List.mem_of_mem_drop hp
        · cases hcp; exact hp
      simp only at h
      have hp2 : ∀ p ∈ (sortStable (potDist o fps) pots1).dropWhile (fun p => p.1 == p.2), p ∈ st.pots := by
        intro p hp
        exact hp1 p (mem_sortStable _ _ p ((List.dropWhile_sublist _).subset hp))
      split at h
      · rename_i pc rest heq
        cases h
        have hpc : pc ∈ (sortStable (potDist o fps) pots1).dropWhile (fun p => p.1 == p.2) := by rw [heq]; exact List.mem_cons_self
        have hne : pc.1 ≠ pc.2 := by
          have := List.head?_dropWhile_not (fun p : Pot => p.1 == p.2) (sortStable (potDist o fps) pots1)
          intro e
          have hh : ((sortStable (potDist o fps) pots1).dropWhile (fun p => p.1 == p.2)).head? = some pc := by rw [heq]; rfl
          rw [hh] at this
          simp [e] at this
        constructor
        · intro p hp; exact hp2 p hp
        · intro c hc
          simp only at hc
          rcases List.mem_append.mp hc with hc | hc
          · exact Or.inl (hc1 c hc)
          · rw [List.mem_singleton] at hc
            subst hc
            exact Or.inr ⟨rfl, rfl, hne, hp2 pc hpc⟩
      · cases h
        constructor
        · intro p hp; cases hp
        · intro c hc; exact Or.inl (hc1 c hc)

/-- states of the unifying loop (after any number of rounds, whatever the solver answered) -/
inductive UReach (o : ROpts) (vars : List Var) (st0 : UState) : UState → Prop
  | start : UReach o vars st0 st0
  | step {st : UState} {out : StepOut UState} (fps : List Rat) : UReach o vars st0 st →
      unifyStep o vars st fps = some out → UReach o vars st0 out.next

theorem mem_pairsOf : ∀ (l : List Nat) (a b : Nat), (a, b) ∈ pairsOf l → a ∈ l ∧ b ∈ l := by
  intro l
  induction l with
  | nil => intro a b h; cases h
  | cons x rest ih =>
    intro a b h
    unfold pairsOf at h
    rcases List.mem_append.mp h with h | h
    · rw [List.mem_map] at h
      obtain ⟨y, hy, he⟩ := h
      cases he
      exact ⟨List.mem_cons_self, List.mem_cons_of_mem _ hy⟩
    · obtain ⟨h1, h2⟩ := ih a b h
      exact ⟨List.mem_cons_of_mem _ h1, List.mem_cons_of_mem _ h2⟩

/-- the potential constraints the unifying pass starts with join two variables of weight `freeWeight` -/
theorem unifyInit_pots (o : ROpts) (segs : List RSeg) (a b : Nat) (h : (a, b) ∈ (unifyInit o segs).pots) :
    (∃ v, (unifyVars o segs)[a]? = some v ∧ v.weight = freeWeight) ∧
    (∃ v, (unifyVars o segs)[b]? = some v ∧ v.weight = freeWeight) := by
  unfold unifyInit at h
  simp only at h
  obtain ⟨ha, hb⟩ := mem_pairsOf _ a b h
  have key : ∀ i, i ∈ (((unifyVars o segs).zipIdx.filter (fun vi => vi.1.weight == freeWeight)).map (·.2)) →
      ∃ v, (unifyVars o segs)[i]? = some v ∧ v.weight = freeWeight := by
    intro i hi
    rw [List.mem_map] at hi
    obtain ⟨vi, hvi, rfl⟩ := hi
    rw [List.mem_filter] at hvi
    obtain ⟨hm, hw⟩ := hvi
    have : (vi.1, vi.2) ∈ (unifyVars o segs).zipIdx := hm
    rw [List.mem_zipIdx_iff_getElem?] at this
    exact ⟨vi.1, this, by simpa using hw⟩
  exact ⟨key a ha, key b hb⟩

/-! ### region formation -/

theorem scanOverlap_none {β : Type} (ov : β → β → Bool) (region : List β) : ∀ rest : List β,
    scanOverlap ov region rest = none → ∀ x ∈ rest, ∀ t ∈ region, ov x t = false := by
  intro rest
  induction rest with
  | nil => intro _ x hx; cases hx
  | cons y rest ih =>
    intro h x hx t ht
    unfold scanOverlap at h
    split at h
    · cases h
    · rename_i hany
      rcases List.mem_cons.mp hx with rfl | hx
      · simp only [List.any_eq_true, not_exists, not_and, Bool.not_eq_true] at hany
        exact hany t ht
      · cases hs : scanOverlap ov region rest with
        | none => exact ih hs x hx t ht
        | some p => rw [hs] at h; cases h

theorem scanOverlap_some_length {β : Type} (ov : β → β → Bool) (region : List β) : ∀ (rest : List β) (x : β) (rest' : List β),
    scanOverlap ov region rest = some (x, rest') → rest'.length + 1 = rest.length := by
  intro rest
  induction rest with
  | nil => intro x rest' h; cases h
  | cons y rest ih =>
    intro x rest' h
    unfold scanOverlap at h
    split at h
    · cases h; rfl
    · cases hs : scanOverlap ov region rest with
      | none => rw [hs] at h; cases h
      | some p =>
        rw [hs] at h
        simp only [Option.map_some, Option.some.injEq, Prod.mk.injEq] at h
        obtain ⟨_, h2⟩ := h
        have := ih p.1 p.2 hs
        rw [← h2]
        simp only [List.length_cons]
        omega

/-- with enough fuel the loop ends with a region that nothing left over overlaps -/
theorem formLoop_closed {β : Type} (ov : β → β → Bool) : ∀ (fuel : Nat) (region rest : List β),
    rest.length ≤ fuel → ∀ x ∈ (formLoop ov fuel region rest).2, ∀ t ∈ (formLoop ov fuel region rest).1, ov x t = false := by
  intro fuel
  induction fuel with
  | zero =>
    intro region rest hlen x hx
    have : rest = [] := List.length_eq_zero_iff.mp (Nat.le_zero.mp hlen)
    subst this
    cases hx
  | succ n ih =>
    intro region rest hlen
    unfold formLoop
    cases hs : scanOverlap ov region rest with
    | none => exact scanOverlap_none ov region rest hs
    | some p =>
      obtain ⟨y, rest'⟩ := p
      have := scanOverlap_some_length ov region rest y rest' hs
      exact ih (region ++ [y]) rest' (by omega)

theorem scanOverlap_some_mem {β : Type} (ov : β → β → Bool) (region : List β) : ∀ (rest : List β) (x : β) (rest' : List β),
    scanOverlap ov region rest = some (x, rest') → x ∈ rest ∧ ∀ y ∈ rest', y ∈ rest := by
  intro rest
  induction rest with
  | nil => intro x rest' h; cases h
  | cons z rest ih =>
    intro x rest' h
    unfold scanOverlap at h
    split at h
    · cases h
      exact ⟨List.mem_cons_self, fun y hy => List.mem_cons_of_mem _ hy⟩
    · cases hs : scanOverlap ov region rest with
      | none => rw [hs] at h; cases h
      | some p =>
        rw [hs] at h
        simp only [Option.map_some, Option.some.injEq, Prod.mk.injEq] at h
        obtain ⟨h1, h2⟩ := h
        obtain ⟨hm, hsub⟩ := ih p.1 p.2 hs
        refine ⟨List.mem_cons_of_mem _ (h1 ▸ hm), ?_⟩
        intro y hy
        rw [← h2] at hy
        rcases List.mem_cons.mp hy with rfl | hy
        · exact List.mem_cons_self
        · exact List.mem_cons_of_mem _ (hsub y hy)

/-- the loop only moves elements: everything in the result comes from the region or the list -/
theorem formLoop_mem {β : Type} (ov : β → β → Bool) : ∀ (fuel : Nat) (region rest : List β),
    (∀ x ∈ (formLoop ov fuel region rest).1, x ∈ region ∨ x ∈ rest) ∧
    (∀ x ∈ (formLoop ov fuel region rest).2, x ∈ rest) := by
  intro fuel
  induction fuel with
  | zero => intro region rest; exact ⟨fun x hx => Or.inl hx, fun x hx => hx⟩
  | succ n ih =>
    intro region rest
    unfold formLoop
    cases hs : scanOverlap ov region rest with
    | none => exact ⟨fun x hx => Or.inl hx, fun x hx => hx⟩
    | some p =>
      obtain ⟨y, rest'⟩ := p
      obtain ⟨hy, hsub⟩ := scanOverlap_some_mem ov region rest y rest' hs
      obtain ⟨h1, h2⟩ := ih (region ++ [y]) rest'
      constructor
      · intro x hx
        rcases h1 x hx with h | h
        · rcases List.mem_append.mp h with h | h
          · exact Or.inl h
          · rw [List.mem_singleton] at h; exact Or.inr (h ▸ hy)
        · exact Or.inr (hsub x h)
      · intro x hx; exact hsub x (h2 x hx)

theorem formAll_mem {β : Type} (ov : β → β → Bool) : ∀ (fuel : Nat) (l : List β), ∀ r ∈ formAll ov fuel l, ∀ x ∈ r, x ∈ l := by
  intro fuel
  induction fuel with
  | zero => intro l r hr; cases hr
  | succ n ih =>
    intro l r hr x hx
    cases l with
    | nil => cases hr
    | cons y rest =>
      unfold formAll at hr
      have hm := formLoop_mem ov rest.length [y] rest
      rcases List.mem_cons.mp hr with rfl | hr
      · rcases hm.1 x hx with h | h
        · rw [List.mem_singleton] at h; exact h ▸ List.mem_cons_self
        · exact List.mem_cons_of_mem _ h
      · exact List.mem_cons_of_mem _ (hm.2 x (ih _ r hr x hx))

/-! ### the pass: regions are processed one after the other, each from its own start state -/

/-- every state in the trace of a region is reachable (so the retry theorems apply to it) -/
theorem regionTrace_reach (o : ROpts) (vars : List Var) (st0 : NState) : ∀ (answers : List (List Rat)) (st : NState),
    Reach o vars st0 st → ∀ s ∈ regionTrace o vars st answers, Reach o vars st0 s := by
  intro answers
  induction answers with
  | nil =>
    intro st hr s hs
    simp only [regionTrace, List.mem_singleton] at hs
    exact hs ▸ hr
  | cons fps rest ih =>
    intro st hr s hs
    unfold regionTrace at hs
    rcases List.mem_cons.mp hs with rfl | hs
    · exact hr
    · split at hs
      · rename_i out hstep
        split at hs
        · rename_i hret
          exact ih out.next (Reach.step fps hr hstep hret) s hs
        · cases hs
      · cases hs

end AdaptaVerif.Lemmas.NudgeRegion
