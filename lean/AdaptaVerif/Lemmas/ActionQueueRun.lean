/-
C06: from one queued call (`enqueue_spec`) and the flush theorem (`view_processActions`) to whole
histories: `step_spec`, `run_spec`, and the immediate-mode (transactions off) lemma.
-/
import AdaptaVerif.Lemmas.ActionQueueStep
namespace AdaptaVerif.Lemmas.ActionQueue
open AdaptaVerif.Model.ActionQueue AdaptaVerif.Spec.Scene

theorem pending_of_empty (st : State) (hq : st.queue = []) : pending st = view st.scene := by
  apply AScene.ext'
  · intro id
    simp only [pending, view, hq, hasAct, findAct, List.find?_nil, Option.isSome_none, Bool.or_false]
    cases findObst st.scene id <;> simp
  · intro c
    simp only [pending, view, hq, findAct, List.find?_nil]

theorem inv_init : Inv init := by
  refine ⟨by simp [init], by simp [init], by simp [init], ?_, by simp [init]⟩
  intro id o h
  simp [init, findObst] at h

theorem pending_init : pending init = AScene.empty := by
  rw [pending_of_empty init rfl]
  apply AScene.ext' <;> intro i <;> simp [view, init, findObst, findConn, AScene.empty]

/-- `processTransaction`: empties the queue, shows what was pending, keeps the invariant -/
theorem processTransaction_spec (st : State) (h : Inv st) :
    Inv (processTransaction st) ∧ (processTransaction st).queue = [] ∧
      view (processTransaction st).scene = pending st ∧ pending (processTransaction st) = pending st := by
  unfold processTransaction
  by_cases hq : st.queue.isEmpty = true
  · have hq' : st.queue = [] := List.isEmpty_iff.1 hq
    simp only [hq, if_true]
    exact ⟨h, hq', (pending_of_empty st hq').symm, trivial⟩
  · simp only [hq, Bool.false_eq_true, if_false]
    have hv := view_processActions st h
    refine ⟨inv_processActions st h, rfl, hv, ?_⟩
    rw [pending_of_empty (processActions st) rfl, hv]

theorem step_eq (st : State) (op : Op) (hne : op ≠ .processTransaction) :
    step st op = if (!(enqueue st op).1.useTxn && (enqueue st op).2) = true
      then processTransaction (enqueue st op).1 else (enqueue st op).1 := by
  cases op <;> first | rfl | exact absurd rfl hne

/-- one API call: invariant kept; what the queue promises changes as the immediate semantics says -/
theorem step_spec (st : State) (op : Op) (h : Inv st) (hl : legal st op = true) :
    Inv (step st op) ∧ pending (step st op) = applyOp (pending st) op := by
  by_cases hp : op = .processTransaction
  · subst hp
    have := processTransaction_spec st h
    exact ⟨this.1, this.2.2.2⟩
  · rw [step_eq st op hp]
    obtain ⟨hi, he⟩ := enqueue_spec st op h hl
    split
    · have := processTransaction_spec _ hi
      exact ⟨this.1, this.2.2.2.trans he⟩
    · exact ⟨hi, he⟩

theorem run_spec (st : State) (ops : List Op) (h : Inv st) (hl : legalRun st ops = true) :
    Inv (run st ops) ∧ pending (run st ops) = applyOps (pending st) ops := by
  induction ops generalizing st with
  | nil => exact ⟨h, rfl⟩
  | cons op ops ih =>
    simp only [legalRun, Bool.and_eq_true] at hl
    obtain ⟨hi, he⟩ := step_spec st op h hl.1
    have := ih (step st op) hi hl.2
    simp only [run, applyOps, List.foldl_cons] at this ⊢
    rw [he] at this
    exact this

/-- with an empty queue no call takes the early-return path with something left queued -/
theorem enqueue_tail_or_empty (st : State) (op : Op) (hq : st.queue = []) :
    (enqueue st op).2 = true ∨ (enqueue st op).1.queue = [] := by
  cases op <;> simp [enqueue, enqMoveAbs, hq, hasAct, findAct]

theorem enqueue_useTxn (st : State) (op : Op) (hne : ∀ b, op ≠ .setTransactionUse b) :
    (enqueue st op).1.useTxn = st.useTxn := by
  cases op <;> simp [enqueue, enqMoveAbs] <;> first | (split <;> (try split) <;> rfl) | exact absurd rfl (hne _)

theorem processTransaction_queue (st : State) : (processTransaction st).queue = [] := by
  unfold processTransaction
  by_cases hq : st.queue.isEmpty = true
  · simp only [hq, if_true]; exact List.isEmpty_iff.1 hq
  · simp only [hq, Bool.false_eq_true, if_false]; rfl

/-- transactions off and nothing queued: after any call nothing is queued -/
theorem step_queue_immediate (st : State) (op : Op) (hq : st.queue = []) (hoff : st.useTxn = false) :
    (step st op).queue = [] := by
  by_cases hp : op = .processTransaction
  · subst hp; exact processTransaction_queue st
  · rw [step_eq st op hp]
    by_cases hs : ∃ b, op = .setTransactionUse b
    · obtain ⟨b, rfl⟩ := hs
      simp [enqueue, hq]
    · have hu := enqueue_useTxn st op (fun b e => hs ⟨b, e⟩)
      rw [hu, hoff]
      rcases enqueue_tail_or_empty st op hq with h2 | h2
      · simp only [h2, Bool.not_false, Bool.and_self, if_true]; exact processTransaction_queue _
      · split
        · exact processTransaction_queue _
        · exact h2

end AdaptaVerif.Lemmas.ActionQueue
