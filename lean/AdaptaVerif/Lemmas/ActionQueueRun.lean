/-
C06: from one queued call (`enqueue_spec`) and the flush theorem (`view_processActions`) to whole
histories: `step_spec`, `run_spec`, and the immediate-mode (transactions off) lemma.
-/
import AdaptaVerif.Lemmas.ActionQueueStep
namespace AdaptaVerif.Lemmas.ActionQueue
open AdaptaVerif.Model.ActionQueue AdaptaVerif.Spec.Scene

theorem pending_of_empty (st : State) (hq : st.queue = []) : pending st = view st.scene := by
  apply AScene.ext'
  · intro id
    simp only [pending, view, hq, hasAct, findAct, List.find?_nil, Option.isSome_none, Bool.or_false]
    cases findObst st.scene id <;> simp
  · intro c
    simp only [pending, view, hq, findAct, List.find?_nil]

theorem inv_init : Inv init := by
  refine ⟨by simp [init], by simp [init], by simp [init], ?_, by simp [init], by simp [init, ConnUniq]⟩
  intro id o h
  simp [init, findObst] at h

theorem pending_init : pending init = AScene.empty := by
  rw [pending_of_empty init rfl]
  apply AScene.ext' <;> intro i <;> simp [view, init, findObst, findConn, AScene.empty]

/-- `processTransaction`: empties the queue, shows what was pending, keeps the invariant -/
theorem processTransaction_spec (st : State) (h : Inv st) :
    Inv (processTransaction st) ∧ (processTransaction st).queue = [] ∧
      view (processTransaction st).scene = pending st ∧ pending (processTransaction st) = pending st := by
  unfold processTransaction
  by_cases hq : st.queue.isEmpty = true
  · have hq' : st.queue = [] := List.isEmpty_iff.1 hq
    simp only [hq, if_true]
    exact ⟨h, hq', (pending_of_empty st hq').symm, trivial⟩
  · simp only [hq, Bool.false_eq_true, if_false]
    have hv := view_processActions st h
    refine ⟨inv_processActions st h, rfl, hv, ?_⟩
    rw [pending_of_empty (processActions st) rfl, hv]

theorem step_eq (st : State) (op : Op) (hne : op ≠ .processTransaction) :
    step st op = if (!(enqueue st op).1.useTxn && (enqueue st op).2) = true
      then processTransaction (enqueue st op).1 else (enqueue st op).1 := by
  cases op <;> first | rfl | exact absurd rfl hne

/-- one API call: invariant kept; what the queue promises changes as the immediate semantics says -/
theorem step_spec (st : State) (op : Op) (h : Inv st) (hl : legal st op = true) :
    Inv (step st op) ∧ pending (step st op) = applyOp (pending st) op := by
  by_cases hp : op = .processTransaction
  · subst hp
    have := processTransaction_spec st h
    exact ⟨this.1, this.2.2.2⟩
  · rw [step_eq st op hp]
    obtain ⟨hi, he⟩ := enqueue_spec st op h hl
    split
    · have := processTransaction_spec _ hi
      exact ⟨this.1, this.2.2.2.trans he⟩
    · exact ⟨hi, he⟩

theorem run_spec (st : State) (ops : List Op) (h : Inv st) (hl : legalRun st ops = true) :
    Inv (run st ops) ∧ pending (run st ops) = applyOps (pending st) ops := by
  induction ops generalizing st with
  | nil => exact ⟨h, rfl⟩
  | cons op ops ih =>
    simp only [legalRun, Bool.and_eq_true] at hl
    obtain ⟨hi, he⟩ := step_spec st op h hl.1
    have := ih (step st op) hi hl.2
    simp only [run, applyOps, List.foldl_cons] at this ⊢
    rw [he] at this
    exact this

/-- with an empty queue no call takes the early-return path with something left queued -/
theorem enqueue_tail_or_empty (st : State) (op : Op) (hq : st.queue = []) :
    (enqueue st op).2 = true ∨ (enqueue st op).1.queue = [] := by
  cases op <;> simp [enqueue, enqMoveAbs, hq, hasAct, findAct]

theorem enqueue_useTxn (st : State) (op : Op) (hne : ∀ b, op ≠ .setTransactionUse b) :
    (enqueue st op).1.useTxn = st.useTxn := by
  cases op <;> simp [enqueue, enqMoveAbs] <;> first | (split <;> (try split) <;> rfl) | exact absurd rfl (hne _)

theorem processTransaction_queue (st : State) : (processTransaction st).queue = [] := by
  unfold processTransaction
  by_cases hq : st.queue.isEmpty = true
  · simp only [hq, if_true]; exact List.isEmpty_iff.1 hq
  · simp only [hq, Bool.false_eq_true, if_false]; rfl

/-- transactions off and nothing queued: after any call nothing is queued -/
theorem step_queue_immediate (st : State) (op : Op) (hq : st.queue = []) (hoff : st.useTxn = false) :
    (step st op).queue = [] := by
  by_cases hp : op = .processTransaction
  · subst hp; exact processTransaction_queue st
  · rw [step_eq st op hp]
    by_cases hs : ∃ b, op = .setTransactionUse b
    · obtain ⟨b, rfl⟩ := hs
      simp [enqueue, hq]
    · have hu := enqueue_useTxn st op (fun b e => hs ⟨b, e⟩)
      rw [hu, hoff]
      rcases enqueue_tail_or_empty st op hq with h2 | h2
      · simp only [h2, Bool.not_false, Bool.and_self, if_true]; exact processTransaction_queue _
      · split
        · exact processTransaction_queue _
        · exact h2

/-! ### a user re-target survives everything else the history does -/

theorem legalRun_append (st : State) (l1 l2 : List Op) :
    legalRun st (l1 ++ l2) = (legalRun st l1 && legalRun (run st l1) l2) := by
  induction l1 generalizing st with
  | nil => simp [legalRun, run]
  | cons op l1 ih =>
    simp only [List.cons_append, legalRun, ih, run, List.foldl_cons, Bool.and_assoc]

theorem run_append (st : State) (l1 l2 : List Op) : run st (l1 ++ l2) = run (run st l1) l2 := by
  unfold run; rw [List.foldl_append]

theorem endOf_setEnds (ends : Option CEnd × Option CEnd) (e : End) (p : CEnd) : endOf (setEnds ends e p) e = some p := by
  cases e <;> rfl

/-- end `e` of connector `c`, as the queue promises it -/
def promisedEnd (st : State) (c : Nat) (e : End) : Option (Option CEnd) :=
  ((pending st).conn c).map fun x => endOf x e

theorem retarget_set (st : State) (c : Nat) (e : End) (p : CEnd) (h : Inv st)
    (hl : legal st (.setEndpoint c e p) = true) :
    promisedEnd (step st (.setEndpoint c e p)) c e = some (some p) := by
  have hs := (step_spec st _ h hl).2
  have hc := legalCall_of_legal hl
  simp only [legalCall, Bool.and_eq_true] at hc
  obtain ⟨k, hk⟩ := Option.isSome_iff_exists.1 hc.1
  unfold promisedEnd
  rw [hs]
  simp only [applyOp, upd, if_true]
  have hsome : ((pending st).conn c).isSome = true := by simp [pending, hk]
  obtain ⟨ends, hends⟩ := Option.isSome_iff_exists.1 hsome
  rw [hends]
  simp [endOf_setEnds]

theorem retarget_kept_step (st : State) (op : Op) (c : Nat) (e : End) (p : CEnd) (h : Inv st)
    (hl : legal st op = true) (hne : ∀ q, op ≠ .setEndpoint c e q)
    (hP : promisedEnd st c e = some (some p)) : promisedEnd (step st op) c e = some (some p) := by
  have hs := (step_spec st op h hl).2
  unfold promisedEnd at hP ⊢
  rw [hs]
  cases op with
  | addObst j id g => exact hP
  | moveAbs j id g fm => exact hP
  | moveRel j id dx dy => exact hP
  | delete j id => exact hP
  | newPin o cl xo yo => exact hP
  | setTransactionUse b => exact hP
  | processTransaction => exact hP
  | newConn id =>
    by_cases hi : c = id
    · subst hi
      exfalso
      have hc := legalCall_of_legal hl
      simp only [legalCall, Bool.and_eq_true, Bool.not_eq_true'] at hc
      have hfc := (fresh_of_not_idUsed hc.2).2
      simp [pending, hfc] at hP
    · simpa [applyOp, upd, hi] using hP
  | setEndpoint c' e' q =>
    by_cases hi : c = c'
    · subst hi
      have hee : e' ≠ e := fun he => hne q (by rw [he])
      simp only [applyOp, upd, if_true]
      cases hcc : (pending st).conn c with
      | none => simp [hcc] at hP
      | some ends =>
        simp only [hcc, Option.map_some, Option.some.injEq] at hP ⊢
        rw [← hP]
        cases e <;> cases e' <;> first | rfl | exact absurd rfl hee
    · simpa [applyOp, upd, hi] using hP

theorem retarget_kept_run (ops : List Op) (st : State) (c : Nat) (e : End) (p : CEnd) (h : Inv st)
    (hl : legalRun st ops = true) (hne : ∀ op ∈ ops, ∀ q, op ≠ .setEndpoint c e q)
    (hP : promisedEnd st c e = some (some p)) : promisedEnd (run st ops) c e = some (some p) := by
  induction ops generalizing st with
  | nil => exact hP
  | cons op ops ih =>
    simp only [legalRun, Bool.and_eq_true] at hl
    simp only [run, List.foldl_cons]
    exact ih (step st op) (step_spec st op h hl.1).1 hl.2 (fun o ho => hne o (List.mem_cons_of_mem _ ho))
      (retarget_kept_step st op c e p h hl.1 (hne op (List.mem_cons_self ..)) hP)

end AdaptaVerif.Lemmas.ActionQueue
