/-
Helper lemmas for C10: which constraints `genCons` contains, clamping, tolerances.
-/
import AdaptaVerif.Model.Nudge
import AdaptaVerif.Spec.Nudge
import AdaptaVerif.Lemmas.PinsAttach
import Mathlib.Tactic.FieldSimp
import Mathlib.Tactic.Linarith
import Mathlib.Tactic.Ring
import Mathlib.Algebra.Order.Field.Rat
namespace AdaptaVerif.Lemmas.Nudge
open AdaptaVerif.Model.Nudge AdaptaVerif.Spec.Nudge

/-- `prev` lists every earlier segment with its index -/
def Covers (prev : List (Nat × Seg)) (pre : List Seg) : Prop :=
  ∀ j a, pre[j]? = some a → (j, a) ∈ prev

theorem covers_snoc {prev : List (Nat × Seg)} {pre : List Seg} (h : Covers prev pre) (s : Seg) :
    Covers (prev ++ [(pre.length, s)]) (pre ++ [s]) := by
  intro j a hj
  by_cases hlt : j < pre.length
  · rw [List.getElem?_append_left hlt] at hj
    exact List.mem_append_left _ (h j a hj)
  · have hge : pre.length ≤ j := Nat.le_of_not_lt hlt
    rw [List.getElem?_append_right hge] at hj
    have hj0 : j - pre.length = 0 := by
      by_contra hne
      have : ([s] : List Seg)[j - pre.length]? = none := by
        apply List.getElem?_eq_none
        simp only [List.length_singleton]
        omega
      rw [this] at hj; cases hj
    rw [hj0] at hj
    simp only [List.getElem?_cons_zero, Option.some.injEq] at hj
    have hjeq : j = pre.length := by omega
    subst hj; subst hjeq
    exact List.mem_append_right _ (List.mem_singleton.mpr rfl)

theorem sep_mem_consFor (p : Params) (prev : List (Nat × Seg)) (i j : Nat) (a b : Seg)
    (hmem : (j, a) ∈ prev) (hov : overlaps b a = true) (hfix : b.fixed = false ∨ a.fixed = false) :
    Cons.sep j i (gapFor p a b).1 (gapFor p a b).2 ∈ consFor p prev i b := by
  unfold consFor
  apply List.mem_append_left
  apply List.mem_append_right
  rw [List.mem_filterMap]
  refine ⟨(j, a), hmem, ?_⟩
  have hc : (overlaps b a && (!b.fixed || !a.fixed)) = true := by
    rw [hov]
    rcases hfix with h | h <;> simp [h]
  simp only [hc, if_true]

theorem sep_mem_genFrom (p : Params) : ∀ (segs pre : List Seg) (prev : List (Nat × Seg)),
    Covers prev pre → ∀ (j i : Nat) (a b : Seg), (pre ++ segs)[j]? = some a → (pre ++ segs)[i]? = some b →
    j < i → pre.length ≤ i → overlaps b a = true → (b.fixed = false ∨ a.fixed = false) →
    Cons.sep j i (gapFor p a b).1 (gapFor p a b).2 ∈ genFrom p prev pre.length segs := by
  intro segs
  induction segs with
  | nil =>
    intro pre prev _ j i a b _ hi _ hle _ _
    rw [List.append_nil] at hi
    have : pre[i]? = none := List.getElem?_eq_none hle
    rw [this] at hi; cases hi
  | cons s rest ih =>
    intro pre prev hcov j i a b hj hi hji hle hov hfix
    unfold genFrom
    by_cases heq : i = pre.length
    · -- the constraint is created when `s` is reached
      apply List.mem_append_left
      have hb : b = s := by
        rw [heq, List.getElem?_append_right (Nat.le_refl _), Nat.sub_self] at hi
        simpa using hi.symm
      have hjlt : j < pre.length := by omega
      rw [List.getElem?_append_left hjlt] at hj
      rw [hb, heq]
      exact sep_mem_consFor p prev pre.length j a s (hcov j a hj) (hb ▸ hov) (hb ▸ hfix)
    · apply List.mem_append_right
      have hlen : (pre ++ [s]).length = pre.length + 1 := by simp
      have hassoc : pre ++ s :: rest = (pre ++ [s]) ++ rest := by simp
      rw [hassoc] at hj hi
      have := ih (pre ++ [s]) (prev ++ [(pre.length, s)]) (covers_snoc hcov s) j i a b hj hi hji
        (by rw [hlen]; omega) hov hfix
      rw [hlen] at this
      exact this

theorem sep_mem_genCons (p : Params) (segs : List Seg) (j i : Nat) (a b : Seg)
    (hj : segs[j]? = some a) (hi : segs[i]? = some b) (hji : j < i)
    (hov : overlaps b a = true) (hfix : b.fixed = false ∨ a.fixed = false) :
    Cons.sep j i (gapFor p a b).1 (gapFor p a b).2 ∈ genCons p segs := by
  have := sep_mem_genFrom p segs [] [] (by intro j a h; simp at h) j i a b (by simpa using hj)
    (by simpa using hi) hji (Nat.zero_le _) hov hfix
  simpa [genCons] using this

theorem lower_mem_genFrom (p : Params) : ∀ (segs pre : List Seg) (prev : List (Nat × Seg)) (i : Nat) (s : Seg) (l : Rat),
    (pre ++ segs)[i]? = some s → pre.length ≤ i → s.fixed = false → s.minLim = some l →
    Cons.lower i l ∈ genFrom p prev pre.length segs := by
  intro segs
  induction segs with
  | nil =>
    intro pre prev i s l hi hle _ _
    rw [List.append_nil] at hi
    have : pre[i]? = none := List.getElem?_eq_none hle
    rw [this] at hi; cases hi
  | cons t rest ih =>
    intro pre prev i s l hi hle hf hm
    unfold genFrom
    by_cases heq : i = pre.length
    · apply List.mem_append_left
      have hb : s = t := by
        rw [heq, List.getElem?_append_right (Nat.le_refl _), Nat.sub_self] at hi
        simpa using hi.symm
      subst hb
      unfold consFor
      apply List.mem_append_left
      apply List.mem_append_left
      rw [hf, hm, heq]
      exact List.mem_singleton.mpr rfl
    · apply List.mem_append_right
      have hlen : (pre ++ [t]).length = pre.length + 1 := by simp
      have hassoc : pre ++ t :: rest = (pre ++ [t]) ++ rest := by simp
      rw [hassoc] at hi
      have := ih (pre ++ [t]) (prev ++ [(pre.length, t)]) i s l hi (by rw [hlen]; omega) hf hm
      rw [hlen] at this
      exact this

theorem upper_mem_genFrom (p : Params) : ∀ (segs pre : List Seg) (prev : List (Nat × Seg)) (i : Nat) (s : Seg) (u : Rat),
    (pre ++ segs)[i]? = some s → pre.length ≤ i → s.fixed = false → s.maxLim = some u →
    Cons.upper i u ∈ genFrom p prev pre.length segs := by
  intro segs
  induction segs with
  | nil =>
    intro pre prev i s u hi hle _ _
    rw [List.append_nil] at hi
    have : pre[i]? = none := List.getElem?_eq_none hle
    rw [this] at hi; cases hi
  | cons t rest ih =>
    intro pre prev i s u hi hle hf hm
    unfold genFrom
    by_cases heq : i = pre.length
    · apply List.mem_append_left
      have hb : s = t := by
        rw [heq, List.getElem?_append_right (Nat.le_refl _), Nat.sub_self] at hi
        simpa using hi.symm
      subst hb
      unfold consFor
      apply List.mem_append_right
      rw [hf, hm, heq]
      exact List.mem_singleton.mpr rfl
    · apply List.mem_append_right
      have hlen : (pre ++ [t]).length = pre.length + 1 := by simp
      have hassoc : pre ++ t :: rest = (pre ++ [t]) ++ rest := by simp
      rw [hassoc] at hi
      have := ih (pre ++ [t]) (prev ++ [(pre.length, t)]) i s u hi (by rw [hlen]; omega) hf hm
      rw [hlen] at this
      exact this

theorem lower_mem_genCons (p : Params) (segs : List Seg) (i : Nat) (s : Seg) (l : Rat)
    (hi : segs[i]? = some s) (hf : s.fixed = false) (hm : s.minLim = some l) :
    Cons.lower i l ∈ genCons p segs := by
  have := lower_mem_genFrom p segs [] [] i s l (by simpa using hi) (Nat.zero_le _) hf hm
  simpa [genCons] using this

theorem upper_mem_genCons (p : Params) (segs : List Seg) (i : Nat) (s : Seg) (u : Rat)
    (hi : segs[i]? = some s) (hf : s.fixed = false) (hm : s.maxLim = some u) :
    Cons.upper i u ∈ genCons p segs := by
  have := upper_mem_genFrom p segs [] [] i s u (by simpa using hi) (Nat.zero_le _) hf hm
  simpa [genCons] using this

theorem absR_le {r t : Rat} (h : absR r ≤ t) : -t ≤ r ∧ r ≤ t := by
  unfold absR at h
  split_ifs at h with hneg
  · constructor <;> linarith
  · constructor <;> linarith

/-- clamping moves a value that is within `t` of the limit range by at most `t` and puts it
    into the range -/
theorem clamp_close (s : Seg) (v t : Rat) (ht : 0 ≤ t)
    (hlu : ∀ l u, s.minLim = some l → s.maxLim = some u → l ≤ u)
    (hl : ∀ l, s.minLim = some l → l - t ≤ v) (hu : ∀ u, s.maxLim = some u → v ≤ u + t) :
    -t ≤ clamp s v - v ∧ clamp s v - v ≤ t ∧
    (∀ l, s.minLim = some l → l ≤ clamp s v) ∧ (∀ u, s.maxLim = some u → clamp s v ≤ u) := by
  unfold clamp
  cases hmin : s.minLim with
  | none =>
    cases hmax : s.maxLim with
    | none =>
      dsimp only
      refine ⟨by linarith, by linarith, ?_, ?_⟩
      · intro l h; cases h
      · intro u h; cases h
    | some u =>
      dsimp only
      have h2 := hu u hmax
      refine ⟨?_, ?_, ?_, ?_⟩
      · rcases min_cases v u with ⟨h, _⟩ | ⟨h, _⟩ <;> rw [h] <;> linarith
      · rcases min_cases v u with ⟨h, _⟩ | ⟨h, _⟩ <;> rw [h] <;> linarith
      · intro l h; cases h
      · intro u' hu'; cases hu'; exact min_le_right _ _
  | some l =>
    have h1 := hl l hmin
    cases hmax : s.maxLim with
    | none =>
      dsimp only
      refine ⟨?_, ?_, ?_, ?_⟩
      · rcases max_cases v l with ⟨h, _⟩ | ⟨h, _⟩ <;> rw [h] <;> linarith
      · rcases max_cases v l with ⟨h, _⟩ | ⟨h, _⟩ <;> rw [h] <;> linarith
      · intro l' hl'; cases hl'; exact le_max_right _ _
      · intro u h; cases h
    | some u =>
      dsimp only
      have h2 := hu u hmax
      have h3 := hlu l u hmin hmax
      refine ⟨?_, ?_, ?_, ?_⟩
      · rcases max_cases v l with ⟨h, _⟩ | ⟨h, _⟩ <;> rcases min_cases (max v l) u with ⟨h', _⟩ | ⟨h', _⟩ <;>
          rw [h'] <;> (try rw [h]) <;> linarith
      · rcases max_cases v l with ⟨h, _⟩ | ⟨h, _⟩ <;> rcases min_cases (max v l) u with ⟨h', _⟩ | ⟨h', _⟩ <;>
          rw [h'] <;> (try rw [h]) <;> linarith
      · intro l' hl'; cases hl'
        exact le_min (le_max_right _ _) h3
      · intro u' hu'; cases hu'; exact min_le_right _ _

theorem gapFor_full (p : Params) (a b : Seg) (h : FullGap p a b) : gapFor p a b = (p.sepDist, false) := by
  obtain ⟨hne, hce⟩ := h
  unfold gapFor
  simp only [hne, if_false]
  split_ifs with h1
  · exfalso; apply hce
    simp only [Bool.and_eq_true, Bool.not_eq_true'] at h1
    exact h1
  · rfl

/-- a point of the 1-D interval between `a` and `b`, written as a convex combination -/
theorem between_param (a b v : Rat) (h1 : min a b ≤ v) (h2 : v ≤ max a b) :
    ∃ t : Rat, 0 ≤ t ∧ t ≤ 1 ∧ v = a + t * (b - a) := by
  by_cases hab : a = b
  · subst hab
    rw [min_self] at h1; rw [max_self] at h2
    exact ⟨0, le_refl 0, by norm_num, by linarith⟩
  · obtain ⟨t0, t1⟩ := AdaptaVerif.Lemmas.PinsAttach.param_of_between a b v hab h1 h2
    refine ⟨(v - a) / (b - a), t0, t1, ?_⟩
    have hne : b - a ≠ 0 := sub_ne_zero.mpr (Ne.symm hab)
    field_simp
    ring

end AdaptaVerif.Lemmas.Nudge
