/-
When the A* search of Model/AStarPins.lean cannot return a route (used by the C11 driver for searches that the
harness reports as `sisolated`: no graph is dumped for them):
* generic: if no examined edge leads to the target vertex and no PENDING node sits there, `search` never returns
  `.found`, whatever the fuel;
* `PGraph`: no enabled edge into the target ⇒ no route; no enabled edge out of the source ⇒ no route.
-/
import AdaptaVerif.Model.AStarPins
import AdaptaVerif.Lemmas.AStarSound
namespace AdaptaVerif.Lemmas.AStarPinsNoPath
open AdaptaVerif.Model.AStar AdaptaVerif.Model.AStarPins AdaptaVerif.Lemmas.AStarSound

theorem foldl_relax_pending (P : Problem) (b : Node) (bi : Nat) :
    ∀ (todo : List (Option Succ)) (st : St),
      (∀ s, some s ∈ todo → s.w ≠ P.tar) → (∀ n ∈ st.pending, n.v ≠ P.tar) →
      ∀ n ∈ (todo.foldl (relax b bi) st).pending, n.v ≠ P.tar := by
  intro todo
  induction todo with
  | nil => intro st _ h; simpa using h
  | cons e rest ih =>
    intro st hs h
    simp only [List.foldl_cons]
    apply ih
    · intro s hs'; exact hs s (List.mem_cons_of_mem _ hs')
    · intro n hn
      rcases relax_pending_mem b bi st e n hn with h1 | ⟨s, he, hn'⟩
      · exact h n h1
      · subst he
        rw [hn']
        exact hs s (List.mem_cons_self ..)

theorem search_never_finds (P : Problem)
    (hs : ∀ pv v s, some s ∈ P.succs pv v → s.w ≠ P.tar) :
    ∀ (fuel : Nat) (st : St), (∀ n ∈ st.pending, n.v ≠ P.tar) → ∀ b d, search P fuel st ≠ .found b d := by
  intro fuel
  induction fuel with
  | zero => intro st _ b d; simp [search]
  | succ k ih =>
    intro st hp b d
    unfold search
    cases hx : extractBest P.eps st.pending with
    | none => simp
    | some p =>
      obtain ⟨b0, rest⟩ := p
      have hmem := extractBest_mem P.eps st.pending b0 rest hx
      have hb0 : b0.v ≠ P.tar := hp b0 ((hmem b0).2 (Or.inl rfl))
      simp only [hb0, if_false]
      apply ih
      apply foldl_relax_pending P b0 st.done.length
      · intro s hs'; exact hs b0.pv b0.v s hs'
      · intro n hn; exact hp n ((hmem n).2 (Or.inr hn))

theorem insertBy_mem (less : PEdge → PEdge → Bool) (e : PEdge) : ∀ (l : List PEdge) (x : PEdge),
    x ∈ PGraph.insertBy less e l → x = e ∨ x ∈ l := by
  intro l
  induction l with
  | nil => intro x hx; simp [PGraph.insertBy] at hx; exact Or.inl hx
  | cons a rest ih =>
    intro x hx
    unfold PGraph.insertBy at hx
    split at hx
    · simp only [List.mem_cons] at hx ⊢
      rcases hx with h | h | h
      · exact Or.inl h
      · exact Or.inr (Or.inl h)
      · exact Or.inr (Or.inr h)
    · simp only [List.mem_cons] at hx ⊢
      rcases hx with h | h
      · exact Or.inr (Or.inl h)
      · rcases ih x h with h1 | h1
        · exact Or.inl h1
        · exact Or.inr (Or.inr h1)

theorem sortBy_mem (less : PEdge → PEdge → Bool) (es : List PEdge) (x : PEdge) :
    x ∈ PGraph.sortBy less es → x ∈ es := by
  unfold PGraph.sortBy
  suffices h : ∀ (l acc : List PEdge), x ∈ l.foldl (fun acc e => PGraph.insertBy less e acc) acc → x ∈ acc ∨ x ∈ l by
    intro hx
    rcases h es [] hx with h1 | h1
    · simp at h1
    · exact h1
  intro l
  induction l with
  | nil => intro acc hx; exact Or.inl (by simpa using hx)
  | cons e rest ih =>
    intro acc hx
    simp only [List.foldl_cons] at hx
    rcases ih _ hx with h1 | h1
    · rcases insertBy_mem less e acc x h1 with h2 | h2
      · exact Or.inr (by simp [h2])
      · exact Or.inl h2
    · exact Or.inr (List.mem_cons_of_mem _ h1)

theorem edgeSucc_w (g : PGraph) (b : Graph) (cts : List (Nat × Nat × Rat)) (prev : Option Nat) (best : Nat)
    (e : PEdge) (s : Succ) (h : g.edgeSucc b cts prev best e = some s) : s.w = e.to := by
  unfold PGraph.edgeSucc at h
  simp only at h
  repeat' split at h
  all_goals first
    | (simp only [Option.some.injEq] at h; rw [← h])
    | simp at h

/-- every examined edge that survives the skip rules is an enabled entry of `best`'s edge list -/
theorem succs_edge (g : PGraph) (b : Graph) (cts : List (Nat × Nat × Rat)) (prev : Option Nat) (best : Nat)
    (s : Succ) (h : some s ∈ g.succs b cts prev best) :
    ∃ e ∈ g.edges best, e.disabled = false ∧ e.to = s.w := by
  unfold PGraph.succs at h
  rw [List.mem_map] at h
  obtain ⟨e, he, hes⟩ := h
  have he' := sortBy_mem _ _ e he
  rw [List.mem_filter] at he'
  refine ⟨e, he'.1, by simpa using he'.2, (edgeSucc_w g b cts prev best e s hes).symm⟩

end AdaptaVerif.Lemmas.AStarPinsNoPath
