/-
C05: the bound of `bends_admissible` is attained.  An explicit minimal approach path is written
down in coordinates relative to the arrival direction `dd` (`f` = how far `dest` lies ahead along
`dd`, `s` = how far to the right of it), following the nine pictures in the comment of `bends()`.
-/
import AdaptaVerif.Lemmas.Bends
namespace AdaptaVerif.Lemmas.BendsTight
open AdaptaVerif.Model.Bends AdaptaVerif.Spec.OrthPath AdaptaVerif.Lemmas.Bends
open AdaptaVerif.Model.Geometry (Pt)

def fwd (dd : Dir) (dx dy : Rat) : Rat := dx * dd.ux + dy * dd.uy
def lat (dd : Dir) (dx dy : Rat) : Rat := dx * dd.right.ux + dy * dd.right.uy

/-- a minimal approach path for heading `cd`, arrival heading `dd`, displacement (f ahead, s to the right) -/
def witness (cd dd : Dir) (f s : Rat) : List Leg :=
  if cd = dd then
    if 0 ≤ f then
      if 0 < s then [⟨dd, f⟩, ⟨dd.right, s⟩, ⟨dd, 0⟩]
      else if s < 0 then [⟨dd, f⟩, ⟨dd.left, -s⟩, ⟨dd, 0⟩]
      else [⟨dd, f⟩]
    else if 0 ≤ s then [⟨dd, 0⟩, ⟨dd.left, 1⟩, ⟨dd.rev, -f⟩, ⟨dd.right, 1 + s⟩, ⟨dd, 0⟩]
    else [⟨dd, 0⟩, ⟨dd.right, 1⟩, ⟨dd.rev, -f⟩, ⟨dd.left, 1 - s⟩, ⟨dd, 0⟩]
  else if cd = dd.rev then
    if 0 < s then
      if 0 ≤ f then [⟨cd, 0⟩, ⟨dd.right, s⟩, ⟨dd, f⟩] else [⟨cd, -f⟩, ⟨dd.right, s⟩, ⟨dd, 0⟩]
    else if s < 0 then
      if 0 ≤ f then [⟨cd, 0⟩, ⟨dd.left, -s⟩, ⟨dd, f⟩] else [⟨cd, -f⟩, ⟨dd.left, -s⟩, ⟨dd, 0⟩]
    else
      if 0 < f then [⟨cd, 0⟩, ⟨dd.left, 1⟩, ⟨dd, f⟩, ⟨dd.right, 1⟩, ⟨dd, 0⟩]
      else [⟨cd, 1 - f⟩, ⟨dd.left, 1⟩, ⟨dd, 1⟩, ⟨dd.right, 1⟩, ⟨dd, 0⟩]
  else
    let t := if cd = dd.right then s else -s
    if t < 0 then
      if 0 < f then [⟨cd, 0⟩, ⟨dd, f⟩, ⟨cd.rev, -t⟩, ⟨dd, 0⟩]
      else [⟨cd, 0⟩, ⟨dd.rev, 1 - f⟩, ⟨cd.rev, -t⟩, ⟨dd, 1⟩]
    else if f < 0 then
      if 0 < t then [⟨cd, 0⟩, ⟨dd.rev, -f⟩, ⟨cd, t⟩, ⟨dd, 0⟩]
      else [⟨cd, 1⟩, ⟨dd.rev, -f⟩, ⟨cd.rev, 1⟩, ⟨dd, 0⟩]
    else [⟨cd, t⟩, ⟨dd, f⟩]

variable {curr dest : Pt}

theorem mk1 (d1 : Dir) (l1 : Rat) (h1 : 0 ≤ l1)
    (hx : l1 * d1.ux = dest.x - curr.x) (hy : l1 * d1.uy = dest.y - curr.y) :
    IsApproach curr d1 dest d1 [⟨d1, l1⟩] := by
  refine ⟨rfl, rfl, trivial, ?_, ?_, ?_, ?_⟩
  · intro l hl; simp only [List.mem_cons, List.mem_nil_iff, or_false] at hl; subst hl; exact h1
  · intro l hl; simp [inner] at hl
  · simp only [dispX, add_zero]; exact hx
  · simp only [dispY, add_zero]; exact hy

theorem mk2 (d1 d2 : Dir) (l1 l2 : Rat) (p12 : Perp d1 d2) (h1 : 0 ≤ l1) (h2 : 0 ≤ l2)
    (hx : l1 * d1.ux + l2 * d2.ux = dest.x - curr.x)
    (hy : l1 * d1.uy + l2 * d2.uy = dest.y - curr.y) :
    IsApproach curr d1 dest d2 [⟨d1, l1⟩, ⟨d2, l2⟩] := by
  refine ⟨rfl, rfl, ⟨p12, trivial⟩, ?_, ?_, ?_, ?_⟩
  · intro l hl; simp only [List.mem_cons, List.mem_nil_iff, or_false] at hl
    rcases hl with rfl | rfl <;> assumption
  · intro l hl; simp [inner] at hl
  · simp only [dispX, add_zero]; exact hx
  · simp only [dispY, add_zero]; exact hy

theorem mk3 (d1 d2 d3 : Dir) (l1 l2 l3 : Rat) (p12 : Perp d1 d2) (p23 : Perp d2 d3)
    (h1 : 0 ≤ l1) (h2 : 0 < l2) (h3 : 0 ≤ l3)
    (hx : l1 * d1.ux + (l2 * d2.ux + l3 * d3.ux) = dest.x - curr.x)
    (hy : l1 * d1.uy + (l2 * d2.uy + l3 * d3.uy) = dest.y - curr.y) :
    IsApproach curr d1 dest d3 [⟨d1, l1⟩, ⟨d2, l2⟩, ⟨d3, l3⟩] := by
  refine ⟨rfl, rfl, ⟨p12, p23, trivial⟩, ?_, ?_, ?_, ?_⟩
  · intro l hl; simp only [List.mem_cons, List.mem_nil_iff, or_false] at hl
    rcases hl with rfl | rfl | rfl <;> first | assumption | exact le_of_lt h2
  · intro l hl
    simp only [inner, List.tail_cons, List.dropLast_cons_cons, List.dropLast_singleton,
      List.mem_cons, List.mem_nil_iff, or_false] at hl
    subst hl; exact h2
  · simp only [dispX, add_zero]; exact hx
  · simp only [dispY, add_zero]; exact hy

theorem mk4 (d1 d2 d3 d4 : Dir) (l1 l2 l3 l4 : Rat) (p12 : Perp d1 d2) (p23 : Perp d2 d3)
    (p34 : Perp d3 d4) (h1 : 0 ≤ l1) (h2 : 0 < l2) (h3 : 0 < l3) (h4 : 0 ≤ l4)
    (hx : l1 * d1.ux + (l2 * d2.ux + (l3 * d3.ux + l4 * d4.ux)) = dest.x - curr.x)
    (hy : l1 * d1.uy + (l2 * d2.uy + (l3 * d3.uy + l4 * d4.uy)) = dest.y - curr.y) :
    IsApproach curr d1 dest d4 [⟨d1, l1⟩, ⟨d2, l2⟩, ⟨d3, l3⟩, ⟨d4, l4⟩] := by
  refine ⟨rfl, rfl, ⟨p12, p23, p34, trivial⟩, ?_, ?_, ?_, ?_⟩
  · intro l hl; simp only [List.mem_cons, List.mem_nil_iff, or_false] at hl
    rcases hl with rfl | rfl | rfl | rfl <;>
      first | assumption | exact le_of_lt h2 | exact le_of_lt h3
  · intro l hl
    simp only [inner, List.tail_cons, List.dropLast_cons_cons, List.dropLast_singleton,
      List.mem_cons, List.mem_nil_iff, or_false] at hl
    rcases hl with rfl | rfl <;> assumption
  · simp only [dispX, add_zero]; exact hx
  · simp only [dispY, add_zero]; exact hy

theorem mk5 (d1 d2 d3 d4 d5 : Dir) (l1 l2 l3 l4 l5 : Rat) (p12 : Perp d1 d2) (p23 : Perp d2 d3)
    (p34 : Perp d3 d4) (p45 : Perp d4 d5)
    (h1 : 0 ≤ l1) (h2 : 0 < l2) (h3 : 0 < l3) (h4 : 0 < l4) (h5 : 0 ≤ l5)
    (hx : l1 * d1.ux + (l2 * d2.ux + (l3 * d3.ux + (l4 * d4.ux + l5 * d5.ux))) = dest.x - curr.x)
    (hy : l1 * d1.uy + (l2 * d2.uy + (l3 * d3.uy + (l4 * d4.uy + l5 * d5.uy))) = dest.y - curr.y) :
    IsApproach curr d1 dest d5 [⟨d1, l1⟩, ⟨d2, l2⟩, ⟨d3, l3⟩, ⟨d4, l4⟩, ⟨d5, l5⟩] := by
  refine ⟨rfl, rfl, ⟨p12, p23, p34, p45, trivial⟩, ?_, ?_, ?_, ?_⟩
  · intro l hl; simp only [List.mem_cons, List.mem_nil_iff, or_false] at hl
    rcases hl with rfl | rfl | rfl | rfl | rfl <;>
      first | assumption | exact le_of_lt h2 | exact le_of_lt h3 | exact le_of_lt h4
  · intro l hl
    simp only [inner, List.tail_cons, List.dropLast_cons_cons, List.dropLast_singleton,
      List.mem_cons, List.mem_nil_iff, or_false] at hl
    rcases hl with rfl | rfl | rfl <;> assumption
  · simp only [dispX, add_zero]; exact hx
  · simp only [dispY, add_zero]; exact hy


set_option linter.unusedSimpArgs false

theorem tightN (curr dest : Pt) (hne : ¬ (dest.x - curr.x = 0 ∧ dest.y - curr.y = 0)) (dd : Dir) :
    IsApproach curr .N dest dd
      (witness .N dd (fwd dd (dest.x - curr.x) (dest.y - curr.y))
        (lat dd (dest.x - curr.x) (dest.y - curr.y))) ∧
    bends curr Dir.N.mask dest dd.mask =
      some (bendsOf (witness .N dd (fwd dd (dest.x - curr.x) (dest.y - curr.y))
        (lat dd (dest.x - curr.x) (dest.y - curr.y)))) := by
  rw [bends_tbl]
  cases dd <;>
  simp only [witness, fwd, lat, Dir.ux, Dir.uy, Dir.right, Dir.left, Dir.rev, mul_zero, mul_one,
    mul_neg, add_zero, zero_add, neg_zero, neg_neg, reduceCtorEq, if_false, if_true] <;>
  split_ifs <;>
  refine ⟨?_, ?_⟩ <;>
  first
    | (simp only [bendsOf, List.length_cons, List.length_nil]
       rcases dimDirection_cases (dest.x - curr.x) with ⟨hx', ex⟩ | ⟨hx', ex⟩ | ⟨hx', ex⟩ <;>
       rcases dimDirection_cases (dest.y - curr.y) with ⟨hy', ey⟩ | ⟨hy', ey⟩ | ⟨hy', ey⟩ <;>
       rw [ex, ey] <;>
       first
         | decide
         | (exfalso; linarith)
         | (exfalso; exact hne ⟨by linarith, by linarith⟩))
    | (apply mk1 <;> (try simp only [Dir.ux, Dir.uy]) <;> linarith)
    | (apply mk2 <;> first | decide | ((try simp only [Dir.ux, Dir.uy]); linarith))
    | (apply mk3 <;> first | decide | ((try simp only [Dir.ux, Dir.uy]); linarith))
    | (apply mk4 <;> first | decide | ((try simp only [Dir.ux, Dir.uy]); linarith))
    | (apply mk5 <;> first | decide | ((try simp only [Dir.ux, Dir.uy]); linarith))

theorem tightE (curr dest : Pt) (hne : ¬ (dest.x - curr.x = 0 ∧ dest.y - curr.y = 0)) (dd : Dir) :
    IsApproach curr .E dest dd
      (witness .E dd (fwd dd (dest.x - curr.x) (dest.y - curr.y))
        (lat dd (dest.x - curr.x) (dest.y - curr.y))) ∧
    bends curr Dir.E.mask dest dd.mask =
      some (bendsOf (witness .E dd (fwd dd (dest.x - curr.x) (dest.y - curr.y))
        (lat dd (dest.x - curr.x) (dest.y - curr.y)))) := by
  rw [bends_tbl]
  cases dd <;>
  simp only [witness, fwd, lat, Dir.ux, Dir.uy, Dir.right, Dir.left, Dir.rev, mul_zero, mul_one,
    mul_neg, add_zero, zero_add, neg_zero, neg_neg, reduceCtorEq, if_false, if_true] <;>
  split_ifs <;>
  refine ⟨?_, ?_⟩ <;>
  first
    | (simp only [bendsOf, List.length_cons, List.length_nil]
       rcases dimDirection_cases (dest.x - curr.x) with ⟨hx', ex⟩ | ⟨hx', ex⟩ | ⟨hx', ex⟩ <;>
       rcases dimDirection_cases (dest.y - curr.y) with ⟨hy', ey⟩ | ⟨hy', ey⟩ | ⟨hy', ey⟩ <;>
       rw [ex, ey] <;>
       first
         | decide
         | (exfalso; linarith)
         | (exfalso; exact hne ⟨by linarith, by linarith⟩))
    | (apply mk1 <;> (try simp only [Dir.ux, Dir.uy]) <;> linarith)
    | (apply mk2 <;> first | decide | ((try simp only [Dir.ux, Dir.uy]); linarith))
    | (apply mk3 <;> first | decide | ((try simp only [Dir.ux, Dir.uy]); linarith))
    | (apply mk4 <;> first | decide | ((try simp only [Dir.ux, Dir.uy]); linarith))
    | (apply mk5 <;> first | decide | ((try simp only [Dir.ux, Dir.uy]); linarith))

theorem tightS (curr dest : Pt) (hne : ¬ (dest.x - curr.x = 0 ∧ dest.y - curr.y = 0)) (dd : Dir) :
    IsApproach curr .S dest dd
      (witness .S dd (fwd dd (dest.x - curr.x) (dest.y - curr.y))
        (lat dd (dest.x - curr.x) (dest.y - curr.y))) ∧
    bends curr Dir.S.mask dest dd.mask =
      some (bendsOf (witness .S dd (fwd dd (dest.x - curr.x) (dest.y - curr.y))
        (lat dd (dest.x - curr.x) (dest.y - curr.y)))) := by
  rw [bends_tbl]
  cases dd <;>
  simp only [witness, fwd, lat, Dir.ux, Dir.uy, Dir.right, Dir.left, Dir.rev, mul_zero, mul_one,
    mul_neg, add_zero, zero_add, neg_zero, neg_neg, reduceCtorEq, if_false, if_true] <;>
  split_ifs <;>
  refine ⟨?_, ?_⟩ <;>
  first
    | (simp only [bendsOf, List.length_cons, List.length_nil]
       rcases dimDirection_cases (dest.x - curr.x) with ⟨hx', ex⟩ | ⟨hx', ex⟩ | ⟨hx', ex⟩ <;>
       rcases dimDirection_cases (dest.y - curr.y) with ⟨hy', ey⟩ | ⟨hy', ey⟩ | ⟨hy', ey⟩ <;>
       rw [ex, ey] <;>
       first
         | decide
         | (exfalso; linarith)
         | (exfalso; exact hne ⟨by linarith, by linarith⟩))
    | (apply mk1 <;> (try simp only [Dir.ux, Dir.uy]) <;> linarith)
    | (apply mk2 <;> first | decide | ((try simp only [Dir.ux, Dir.uy]); linarith))
    | (apply mk3 <;> first | decide | ((try simp only [Dir.ux, Dir.uy]); linarith))
    | (apply mk4 <;> first | decide | ((try simp only [Dir.ux, Dir.uy]); linarith))
    | (apply mk5 <;> first | decide | ((try simp only [Dir.ux, Dir.uy]); linarith))

theorem tightW (curr dest : Pt) (hne : ¬ (dest.x - curr.x = 0 ∧ dest.y - curr.y = 0)) (dd : Dir) :
    IsApproach curr .W dest dd
      (witness .W dd (fwd dd (dest.x - curr.x) (dest.y - curr.y))
        (lat dd (dest.x - curr.x) (dest.y - curr.y))) ∧
    bends curr Dir.W.mask dest dd.mask =
      some (bendsOf (witness .W dd (fwd dd (dest.x - curr.x) (dest.y - curr.y))
        (lat dd (dest.x - curr.x) (dest.y - curr.y)))) := by
  rw [bends_tbl]
  cases dd <;>
  simp only [witness, fwd, lat, Dir.ux, Dir.uy, Dir.right, Dir.left, Dir.rev, mul_zero, mul_one,
    mul_neg, add_zero, zero_add, neg_zero, neg_neg, reduceCtorEq, if_false, if_true] <;>
  split_ifs <;>
  refine ⟨?_, ?_⟩ <;>
  first
    | (simp only [bendsOf, List.length_cons, List.length_nil]
       rcases dimDirection_cases (dest.x - curr.x) with ⟨hx', ex⟩ | ⟨hx', ex⟩ | ⟨hx', ex⟩ <;>
       rcases dimDirection_cases (dest.y - curr.y) with ⟨hy', ey⟩ | ⟨hy', ey⟩ | ⟨hy', ey⟩ <;>
       rw [ex, ey] <;>
       first
         | decide
         | (exfalso; linarith)
         | (exfalso; exact hne ⟨by linarith, by linarith⟩))
    | (apply mk1 <;> (try simp only [Dir.ux, Dir.uy]) <;> linarith)
    | (apply mk2 <;> first | decide | ((try simp only [Dir.ux, Dir.uy]); linarith))
    | (apply mk3 <;> first | decide | ((try simp only [Dir.ux, Dir.uy]); linarith))
    | (apply mk4 <;> first | decide | ((try simp only [Dir.ux, Dir.uy]); linarith))
    | (apply mk5 <;> first | decide | ((try simp only [Dir.ux, Dir.uy]); linarith))

/-- some approach path has exactly `bends …` bends -/
theorem tight (curr dest : Pt) (hne : curr ≠ dest) (cd dd : Dir) :
    ∃ ls, IsApproach curr cd dest dd ls ∧ bends curr cd.mask dest dd.mask = some (bendsOf ls) := by
  have hne' := ne_disp hne
  cases cd
  · exact ⟨_, tightN curr dest hne' dd⟩
  · exact ⟨_, tightE curr dest hne' dd⟩
  · exact ⟨_, tightS curr dest hne' dd⟩
  · exact ⟨_, tightW curr dest hne' dd⟩

end AdaptaVerif.Lemmas.BendsTight
