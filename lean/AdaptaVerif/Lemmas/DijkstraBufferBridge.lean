/-
C17 — the generated `dijkstra(s, vs, d)` for an ARBITRARY content of the caller's buffer `d` (the real callers pass
uninitialised rows): the loop never reads `d`, writes `d[u] = u->d` when `u` leaves the heap, and every node leaves the heap,
so the buffer ends as the model's `dijkstraHeap g s` whatever it held. Simulation relation `Rel`: same distances and heap, the
two output buffers agree on every node that is no longer queued.
-/
import AdaptaVerif.Lemmas.DijkstraBridge
namespace AdaptaVerif.Lemmas.DijkstraBridge
open AdaptaVerif.Gen AdaptaVerif.Gen.DijkstraK AdaptaVerif.Gen.KeysShortest
open AdaptaVerif.Model.ShortestPaths AdaptaVerif.Model.PairingHeap AdaptaVerif.Lemmas.GenLoopBridge
open AdaptaVerif.Lemmas.DijkstraRelaxBridge AdaptaVerif.Lemmas.Apsp AdaptaVerif.Spec.Apsp

/-! ### the caller's buffer may hold anything: the loop never reads it, and every entry is overwritten -/

/-- generated state vs model state: same distances and heap; the output buffers agree on every node that has left the queue -/
structure Rel (n : Nat) (gs : PTree Dist × Array Dist × Array NodeK) (hs : HState) (st : DState) : Prop where
  deq : dOf gs.2.2 = hs.d
  heq : gs.1 = hs.heap
  gsz : gs.2.1.size = n
  hsz : hs.out.size = n
  agree : ∀ t, t ∉ st.q → Vec.at gs.2.1 t = Vec.at hs.out t

theorem at_setIfInBounds (a : Vec) (u t : Nat) (x : Dist) (hu : u < a.size) :
    Vec.at (a.setIfInBounds u x) t = if t = u then x else Vec.at a t := by
  unfold Vec.at
  rw [Array.getElem?_setIfInBounds]
  by_cases h : u = t
  · subst h; simp [hu]
  · have h' : ¬ t = u := fun e => h e.symm
    simp [h, h']

theorem loop_sim2 {g : Graph} (hv : Valid g) {s : Nat} (vsRef : Array NodeK) (hadj : AdjOf g.edges vsRef)
    (hsz : vsRef.size = g.n) (hid : ∀ k, k < g.n → (aget vsRef k).id = k) :
    ∀ (fuel : Nat) (gs : PTree Dist × Array Dist × Array NodeK) (hs : HState) (st : DState),
      HRel g s hs st → Rel g.n gs hs st → SameAdj vsRef gs.2.2 → st.q.length ≤ fuel →
      ∃ st', HRel g s (dijkstraHeapLoop g.edges fuel hs) st' ∧ st'.q = [] ∧
        Rel g.n (whileLoop (dijkstra_while4_cond modelOps) (dijkstra_while4_body modelOps) fuel gs)
          (dijkstraHeapLoop g.edges fuel hs) st' ∧
        SameAdj vsRef (whileLoop (dijkstra_while4_cond modelOps) (dijkstra_while4_body modelOps) fuel gs).2.2 := by
  intro fuel
  induction fuel with
  | zero =>
    intro gs hs st h r hsame hl
    exact ⟨st, h, List.length_eq_zero_iff.mp (Nat.le_zero.mp hl), r, hsame⟩
  | succ f ih =>
    intro gs hs st h r hsame hl
    obtain ⟨Q, dOut, vs⟩ := gs
    have hQ : Q = hs.heap := r.heq
    have hD : dOf vs = hs.d := r.deq
    unfold whileLoop dijkstraHeapLoop
    have hcond : dijkstra_while4_cond modelOps (Q, dOut, vs) = !(findMin Q).isNone := rfl
    rw [hcond]
    cases hf : findMin Q with
    | none =>
      have hf' : findMin hs.heap = none := by rw [← hQ]; exact hf
      simp only [hf', Option.isNone_none, Bool.not_true, Bool.false_eq_true, if_false]
      refine ⟨st, h, ?_, r, hsame⟩
      have he : elems hs.heap = [] := AdaptaVerif.Lemmas.PairingHeap.findMin_none.mp hf'
      have := h.perm.length_eq
      rw [he] at this
      unfold keyed at this
      simp only [List.length_nil, List.length_map] at this
      exact List.length_eq_zero_iff.mp this.symm
    | some p =>
      obtain ⟨k, u⟩ := p
      have hf' : findMin hs.heap = some (k, u) := by rw [← hQ]; exact hf
      obtain ⟨huq, hrel⟩ := hrel_step hv h hf'
      have hun : u < g.n := h.inv.qlt u huq
      have hvsz : vs.size = g.n := hsame.1.trans hsz
      have hnb : (aget vs u).neighbours = (adj g.edges u).map (·.1) := by rw [(hsame.2 u).1]; exact (hadj u).1
      have hnw : (aget vs u).nweights = (adj g.edges u).map (fun p => some p.2) := by rw [(hsame.2 u).2.1]; exact (hadj u).2
      have hval : ∀ p ∈ adj g.edges u, p.1 < vs.size := by
        intro p hp
        obtain ⟨v, w⟩ := p
        rw [hvsz]
        rcases (adj_mem g.edges u v w).mp hp with he | he
        · exact (hv _ he).2.1
        · exact (hv _ he).1
      obtain ⟨hr1, hr2⟩ := relax_generic (dijkstra_body3 u modelOps) g.edges u (body3_eq u) vs (deleteMin ltDist Q) hnb hnw hval
      have hidu : (aget vs u).id = u := by rw [(hsame.2 u).2.2]; exact hid u hun
      have hbody : dijkstra_while4_body modelOps (Q, dOut, vs) =
          ((forRange (dijkstra_body3 u modelOps) ((aget vs u).neighbours.length - 0) 0 (deleteMin ltDist Q, vs)).1,
           dOut.setIfInBounds u ((dOf vs).at u),
           (forRange (dijkstra_body3 u modelOps) ((aget vs u).neighbours.length - 0) 0 (deleteMin ltDist Q, vs)).2) := by
        unfold dijkstra_while4_body
        simp only [modelOps, hf, Option.map_some, Option.getD_some, hidu, dOf_at]
        rfl
      simp only [hf', Option.isNone_some, Bool.not_false, if_true]
      rw [hbody]
      have hfold : (adj g.edges u).foldl (relaxEdgeH u) (hs.d, deleteMin ltDist hs.heap) =
          proj (forRange (dijkstra_body3 u modelOps) ((aget vs u).neighbours.length - 0) 0 (deleteMin ltDist Q, vs)) := by
        rw [← hD, ← hQ]; exact hr1.symm
      apply ih _ _ _ hrel ?_ (hsame.trans hr2) ?_
      · -- Rel for the next states
        refine ⟨?_, ?_, ?_, ?_, ?_⟩
        · show dOf _ = ((adj g.edges u).foldl (relaxEdgeH u) (hs.d, deleteMin ltDist hs.heap)).1
          rw [hfold]; rfl
        · show _ = ((adj g.edges u).foldl (relaxEdgeH u) (hs.d, deleteMin ltDist hs.heap)).2
          rw [hfold]; rfl
        · show (dOut.setIfInBounds u _).size = g.n
          simp [r.gsz]
        · show (hs.out.setIfInBounds u _).size = g.n
          simp [r.hsz]
        · intro t ht
          show Vec.at (dOut.setIfInBounds u ((dOf vs).at u)) t = Vec.at (hs.out.setIfInBounds u (Vec.at hs.d u)) t
          rw [at_setIfInBounds _ _ _ _ (by rw [r.gsz]; exact hun), at_setIfInBounds _ _ _ _ (by rw [r.hsz]; exact hun), hD]
          by_cases htu : t = u
          · simp [htu]
          · simp only [htu, if_false]
            apply r.agree t
            intro hq
            apply ht
            show t ∈ st.q.erase u
            exact (List.mem_erase_of_ne htu).mpr hq
      · show (st.q.erase u).length ≤ f
        rw [List.length_erase_of_mem huq]
        have : 0 < st.q.length := List.length_pos_of_mem huq
        omega

theorem vec_ext {a b : Vec} (hs : a.size = b.size) (h : ∀ t, Vec.at a t = Vec.at b t) : a = b := by
  apply Array.ext hs
  intro i h1 h2
  have := h i
  unfold Vec.at at this
  rw [Array.getElem?_eq_getElem h1, Array.getElem?_eq_getElem h2] at this
  simpa using this

/-- the whole generated function for an ARBITRARY content of the caller's buffer `d` (only its size matters) -/
theorem dijkstra_eq_any {g : Graph} (hv : Valid g) {s : Nat} (hs : s < g.n) (vs : Array NodeK) (hadj : AdjOf g.edges vs)
    (hsz : vs.size = g.n) (dOut : Array Dist) (hd : dOut.size = g.n) :
    (AdaptaVerif.Gen.DijkstraK.dijkstra s vs dOut modelOps g.n).2 = dijkstraHeap g s := by
  unfold AdaptaVerif.Gen.DijkstraK.dijkstra
  simp only []
  obtain ⟨a1, a2, a3⟩ := init_loop_spec vs
  generalize hA : forRange (dijkstra_body1 modelOps) (vs.size - 0) 0 vs = vsA at a1 a2 a3
  have hAsz : vsA.size = g.n := a1.trans hsz
  have hsA : s < vsA.size := by rw [hAsz]; exact hs
  generalize h5 : aset vsA s { (aget vsA s) with d := (some (0 : Rat) : Dist) } = vs5
  have h5sz : vs5.size = g.n := by rw [← h5, aset_size]; exact hAsz
  have h5get : ∀ k, (aget vs5 k).neighbours = (aget vsA k).neighbours ∧ (aget vs5 k).nweights = (aget vsA k).nweights ∧
      (aget vs5 k).id = (aget vsA k).id := by
    intro k
    rw [← h5]
    by_cases hk : s = k
    · subst hk; rw [aget_aset_eq _ _ _ hsA]; exact ⟨rfl, rfl, rfl⟩
    · rw [aget_aset_ne _ _ _ _ hk]; exact ⟨rfl, rfl, rfl⟩
  have hd5 : dOf vs5 = (Array.replicate g.n (none : Dist)).setIfInBounds s (some 0) := by
    rw [← h5, dOf_aset, dOf_eq_replicate vsA (fun k hk => (a3 k (by rw [← a1]; exact hk)).2), hAsz]
  rw [insert_loop]
  simp only []
  have hadj5 : AdjOf g.edges vs5 := fun u =>
    ⟨by rw [(h5get u).1, (a2 u).1]; exact (hadj u).1, by rw [(h5get u).2.1, (a2 u).2]; exact (hadj u).2⟩
  have hid5 : ∀ k, k < g.n → (aget vs5 k).id = k := fun k hk => by
    rw [(h5get k).2.2]; exact (a3 k (by rw [hsz]; exact hk)).1
  have hrel0 : Rel g.n ((List.range vs.size).foldl (fun h i => insert ltDist h ((dOf vs5).at i) i) modelOps.empty, dOut, vs5)
      (dijkstraHeapInit g.n s) (dijkstraInit g.n s) := by
    refine ⟨?_, ?_, hd, ?_, ?_⟩
    · show dOf vs5 = _
      rw [hd5]; rfl
    · show _ = heapInit _ g.n
      unfold heapInit
      simp only [hd5, hsz]
      rfl
    · show (Array.replicate g.n (none : Dist)).size = g.n
      simp
    · intro t ht
      have htn : ¬ t < g.n := fun h => ht (by simp [dijkstraInit, h])
      show Vec.at dOut t = Vec.at (Array.replicate g.n (none : Dist)) t
      unfold Vec.at
      rw [Array.getElem?_eq_none (by rw [hd]; omega), Array.getElem?_eq_none (by simp; omega)]
  obtain ⟨st', hrel', hq', r', _⟩ := loop_sim2 hv vs5 hadj5 h5sz hid5 g.n _ _ _ (hrel_init hs) hrel0 (SameAdj.refl vs5)
    (by simp [dijkstraInit])
  have hfin := vec_ext (r'.gsz.trans r'.hsz.symm) (fun t => r'.agree t (by rw [hq']; exact List.not_mem_nil))
  simpa [dijkstraHeap, dijkstraHeapRun] using hfin

/-- the node array the generated `dijkstra` leaves behind still carries the adjacency lists (only `id` and `d` were written),
    so the next call of `johnsons` finds what it needs -/
theorem dijkstra_vs_any {g : Graph} (hv : Valid g) {s : Nat} (hs : s < g.n) (vs : Array NodeK) (hadj : AdjOf g.edges vs)
    (hsz : vs.size = g.n) (dOut : Array Dist) (hd : dOut.size = g.n) :
    AdjOf g.edges (AdaptaVerif.Gen.DijkstraK.dijkstra s vs dOut modelOps g.n).1 ∧
    (AdaptaVerif.Gen.DijkstraK.dijkstra s vs dOut modelOps g.n).1.size = g.n := by
  unfold AdaptaVerif.Gen.DijkstraK.dijkstra
  simp only []
  obtain ⟨a1, a2, a3⟩ := init_loop_spec vs
  generalize hA : forRange (dijkstra_body1 modelOps) (vs.size - 0) 0 vs = vsA at a1 a2 a3
  have hAsz : vsA.size = g.n := a1.trans hsz
  have hsA : s < vsA.size := by rw [hAsz]; exact hs
  generalize h5 : aset vsA s { (aget vsA s) with d := (some (0 : Rat) : Dist) } = vs5
  have h5sz : vs5.size = g.n := by rw [← h5, aset_size]; exact hAsz
  have h5get : ∀ k, (aget vs5 k).neighbours = (aget vsA k).neighbours ∧ (aget vs5 k).nweights = (aget vsA k).nweights ∧
      (aget vs5 k).id = (aget vsA k).id := by
    intro k
    rw [← h5]
    by_cases hk : s = k
    · subst hk; rw [aget_aset_eq _ _ _ hsA]; exact ⟨rfl, rfl, rfl⟩
    · rw [aget_aset_ne _ _ _ _ hk]; exact ⟨rfl, rfl, rfl⟩
  have hd5 : dOf vs5 = (Array.replicate g.n (none : Dist)).setIfInBounds s (some 0) := by
    rw [← h5, dOf_aset, dOf_eq_replicate vsA (fun k hk => (a3 k (by rw [← a1]; exact hk)).2), hAsz]
  rw [insert_loop]
  simp only []
  have hadj5 : AdjOf g.edges vs5 := fun u =>
    ⟨by rw [(h5get u).1, (a2 u).1]; exact (hadj u).1, by rw [(h5get u).2.1, (a2 u).2]; exact (hadj u).2⟩
  have hid5 : ∀ k, k < g.n → (aget vs5 k).id = k := fun k hk => by
    rw [(h5get k).2.2]; exact (a3 k (by rw [hsz]; exact hk)).1
  have hrel0 : Rel g.n ((List.range vs.size).foldl (fun h i => insert ltDist h ((dOf vs5).at i) i) modelOps.empty, dOut, vs5)
      (dijkstraHeapInit g.n s) (dijkstraInit g.n s) := by
    refine ⟨?_, ?_, hd, ?_, ?_⟩
    · show dOf vs5 = _
      rw [hd5]; rfl
    · show _ = heapInit _ g.n
      unfold heapInit
      simp only [hd5, hsz]
      rfl
    · show (Array.replicate g.n (none : Dist)).size = g.n
      simp
    · intro t ht
      have htn : ¬ t < g.n := fun h => ht (by simp [dijkstraInit, h])
      show Vec.at dOut t = Vec.at (Array.replicate g.n (none : Dist)) t
      unfold Vec.at
      rw [Array.getElem?_eq_none (by rw [hd]; omega), Array.getElem?_eq_none (by simp; omega)]
  obtain ⟨st', _, _, _, hsame⟩ := loop_sim2 hv vs5 hadj5 h5sz hid5 g.n _ _ _ (hrel_init hs) hrel0 (SameAdj.refl vs5)
    (by simp [dijkstraInit])
  exact ⟨fun u => ⟨by rw [(hsame.2 u).1]; exact (hadj5 u).1, by rw [(hsame.2 u).2.1]; exact (hadj5 u).2⟩, hsame.1.trans h5sz⟩

theorem loop_pre2 {g : Graph} (hv : Valid g) {s : Nat} (vsRef : Array NodeK) (hadj : AdjOf g.edges vsRef)
    (hsz : vsRef.size = g.n) (hid : ∀ k, k < g.n → (aget vsRef k).id = k) :
    ∀ (fuel : Nat) (gs : PTree Dist × Array Dist × Array NodeK) (hs : HState) (st : DState),
      HRel g s hs st → Rel g.n gs hs st → SameAdj vsRef gs.2.2 → st.q.length ≤ fuel →
      whileLoopPre (dijkstra_while4_cond_pre modelOps) (dijkstra_while4_cond modelOps) (dijkstra_while4_body_pre modelOps)
        (dijkstra_while4_body modelOps) fuel gs = true := by
  intro fuel
  induction fuel with
  | zero =>
    intro gs hs st h r _ hl
    obtain ⟨Q, dOut, vs⟩ := gs
    have hQ : Q = hs.heap := r.heq
    have hq : st.q = [] := List.length_eq_zero_iff.mp (Nat.le_zero.mp hl)
    have he : elems Q = [] := by
      have := h.perm.length_eq
      rw [hq, ← hQ] at this
      simpa [keyed] using this
    have hf : findMin Q = none := AdaptaVerif.Lemmas.PairingHeap.findMin_none.mpr he
    simp [whileLoopPre, dijkstra_while4_cond_pre, dijkstra_while4_cond, modelOps, hf]
  | succ f ih =>
    intro gs hs st h r hsame hl
    obtain ⟨Q, dOut, vs⟩ := gs
    have hQ : Q = hs.heap := r.heq
    have hD : dOf vs = hs.d := r.deq
    have hdsz : dOut.size = g.n := r.gsz
    unfold whileLoopPre
    have hcond : dijkstra_while4_cond modelOps (Q, dOut, vs) = !(findMin Q).isNone := rfl
    have hcp : dijkstra_while4_cond_pre modelOps (Q, dOut, vs) = true := rfl
    rw [hcond, hcp]
    cases hf : findMin Q with
    | none => simp
    | some p =>
      obtain ⟨k, u⟩ := p
      have hf' : findMin hs.heap = some (k, u) := by rw [← hQ]; exact hf
      obtain ⟨huq, hrel⟩ := hrel_step hv h hf'
      have hun : u < g.n := h.inv.qlt u huq
      have hvsz : vs.size = g.n := hsame.1.trans hsz
      have hnb : (aget vs u).neighbours = (adj g.edges u).map (·.1) := by rw [(hsame.2 u).1]; exact (hadj u).1
      have hnw : (aget vs u).nweights = (adj g.edges u).map (fun p => some p.2) := by rw [(hsame.2 u).2.1]; exact (hadj u).2
      have hval : ∀ p ∈ adj g.edges u, p.1 < vs.size := by
        intro p hp
        obtain ⟨v, w⟩ := p
        rw [hvsz]
        rcases (adj_mem g.edges u v w).mp hp with he | he
        · exact (hv _ he).2.1
        · exact (hv _ he).1
      obtain ⟨hr1, hr2⟩ := relax_generic (dijkstra_body3 u modelOps) g.edges u (body3_eq u) vs (deleteMin ltDist Q) hnb hnw hval
      have hidu : (aget vs u).id = u := by rw [(hsame.2 u).2.2]; exact hid u hun
      have huv : u < vs.size := by rw [hvsz]; exact hun
      have hrp := relax_pre_generic u vs (deleteMin ltDist Q) huv (by rw [hnb, hnw]; simp)
        (by intro v hv'; rw [hnb] at hv'; obtain ⟨p, hp, rfl⟩ := List.mem_map.mp hv'; exact hval p hp)
      have hbp : dijkstra_while4_body_pre modelOps (Q, dOut, vs) = true := by
        unfold dijkstra_while4_body_pre
        simp only [modelOps, hf, Option.map_some, Option.getD_some, hidu, huv, hdsz, hun, decide_true, Bool.true_and, Bool.and_true]
        exact hrp
      have hbody : dijkstra_while4_body modelOps (Q, dOut, vs) =
          ((forRange (dijkstra_body3 u modelOps) ((aget vs u).neighbours.length - 0) 0 (deleteMin ltDist Q, vs)).1,
           dOut.setIfInBounds u ((dOf vs).at u),
           (forRange (dijkstra_body3 u modelOps) ((aget vs u).neighbours.length - 0) 0 (deleteMin ltDist Q, vs)).2) := by
        unfold dijkstra_while4_body
        simp only [modelOps, hf, Option.map_some, Option.getD_some, hidu, dOf_at]
        rfl
      simp only [Option.isNone_some, Bool.not_false, if_true, hbp, Bool.true_and]
      rw [hbody]
      have hfold : (adj g.edges u).foldl (relaxEdgeH u) (hs.d, deleteMin ltDist hs.heap) =
          proj (forRange (dijkstra_body3 u modelOps) ((aget vs u).neighbours.length - 0) 0 (deleteMin ltDist Q, vs)) := by
        rw [← hD, ← hQ]; exact hr1.symm
      apply ih _ _ _ hrel ?_ (hsame.trans hr2) ?_
      · refine ⟨?_, ?_, ?_, ?_, ?_⟩
        · show dOf _ = ((adj g.edges u).foldl (relaxEdgeH u) (hs.d, deleteMin ltDist hs.heap)).1
          rw [hfold]; rfl
        · show _ = ((adj g.edges u).foldl (relaxEdgeH u) (hs.d, deleteMin ltDist hs.heap)).2
          rw [hfold]; rfl
        · show (dOut.setIfInBounds u _).size = g.n
          simp [r.gsz]
        · show (hs.out.setIfInBounds u _).size = g.n
          simp [r.hsz]
        · intro t ht
          show Vec.at (dOut.setIfInBounds u ((dOf vs).at u)) t = Vec.at (hs.out.setIfInBounds u (Vec.at hs.d u)) t
          rw [at_setIfInBounds _ _ _ _ (by rw [r.gsz]; exact hun), at_setIfInBounds _ _ _ _ (by rw [r.hsz]; exact hun), hD]
          by_cases htu : t = u
          · simp [htu]
          · simp only [htu, if_false]
            apply r.agree t
            intro hq
            apply ht
            show t ∈ st.q.erase u
            exact (List.mem_erase_of_ne htu).mpr hq
      · show (st.q.erase u).length ≤ f
        rw [List.length_erase_of_mem huq]
        have : 0 < st.q.length := List.length_pos_of_mem huq
        omega

theorem dijkstra_pre_any {g : Graph} (hv : Valid g) {s : Nat} (hs : s < g.n) (vs : Array NodeK) (hadj : AdjOf g.edges vs)
    (hsz : vs.size = g.n) (dOut : Array Dist) (hd : dOut.size = g.n) :
    AdaptaVerif.Gen.DijkstraK.dijkstra_pre s vs dOut modelOps g.n = true := by
  unfold AdaptaVerif.Gen.DijkstraK.dijkstra_pre
  simp only []
  have p1 : forRangePre (dijkstra_body1_pre modelOps) (dijkstra_body1 modelOps) (vs.size - 0) 0 vs = true :=
    forRangePre_of_inv (fun _ (w : Array NodeK) => w.size = vs.size) _ _ _ _ _ rfl
      (fun i w _ hi hw => ⟨by unfold dijkstra_body1_pre; simp [aset_size, hw]; omega, (body1_spec i w (by omega)).1.trans hw⟩)
  obtain ⟨a1, a2, a3⟩ := init_loop_spec vs
  generalize hA : forRange (dijkstra_body1 modelOps) (vs.size - 0) 0 vs = vsA at a1 a2 a3
  have hAsz : vsA.size = g.n := a1.trans hsz
  have hsA : s < vsA.size := by rw [hAsz]; exact hs
  generalize h5 : aset vsA s { (aget vsA s) with d := (some (0 : Rat) : Dist) } = vs5
  have h5sz : vs5.size = g.n := by rw [← h5, aset_size]; exact hAsz
  have h5get : ∀ k, (aget vs5 k).neighbours = (aget vsA k).neighbours ∧ (aget vs5 k).nweights = (aget vsA k).nweights ∧
      (aget vs5 k).id = (aget vsA k).id := by
    intro k
    rw [← h5]
    by_cases hk : s = k
    · subst hk; rw [aget_aset_eq _ _ _ hsA]; exact ⟨rfl, rfl, rfl⟩
    · rw [aget_aset_ne _ _ _ _ hk]; exact ⟨rfl, rfl, rfl⟩
  have hd5 : dOf vs5 = (Array.replicate g.n (none : Dist)).setIfInBounds s (some 0) := by
    rw [← h5, dOf_aset, dOf_eq_replicate vsA (fun k hk => (a3 k (by rw [← a1]; exact hk)).2), hAsz]
  have p2 : forRangePre (dijkstra_body2_pre modelOps) (dijkstra_body2 modelOps) (vs.size - 0) 0 (modelOps.empty, vs5) = true :=
    forRangePre_of_inv (fun _ (w : PTree Dist × Array NodeK) => w.2 = vs5) _ _ _ _ _ rfl
      (fun i w _ hi hw => ⟨by unfold dijkstra_body2_pre; simp [hw, h5sz]; omega, hw⟩)
  rw [insert_loop]
  have hadj5 : AdjOf g.edges vs5 := fun u =>
    ⟨by rw [(h5get u).1, (a2 u).1]; exact (hadj u).1, by rw [(h5get u).2.1, (a2 u).2]; exact (hadj u).2⟩
  have hid5 : ∀ k, k < g.n → (aget vs5 k).id = k := fun k hk => by
    rw [(h5get k).2.2]; exact (a3 k (by rw [hsz]; exact hk)).1
  have hrel0 : Rel g.n ((List.range vs.size).foldl (fun h i => insert ltDist h ((dOf vs5).at i) i) modelOps.empty, dOut, vs5)
      (dijkstraHeapInit g.n s) (dijkstraInit g.n s) := by
    refine ⟨?_, ?_, hd, ?_, ?_⟩
    · show dOf vs5 = _
      rw [hd5]; rfl
    · show _ = heapInit _ g.n
      unfold heapInit
      simp only [hd5, hsz]
      rfl
    · show (Array.replicate g.n (none : Dist)).size = g.n
      simp
    · intro t ht
      have htn : ¬ t < g.n := fun h => ht (by simp [dijkstraInit, h])
      show Vec.at dOut t = Vec.at (Array.replicate g.n (none : Dist)) t
      unfold Vec.at
      rw [Array.getElem?_eq_none (by rw [hd]; omega), Array.getElem?_eq_none (by simp; omega)]
  have p3 := loop_pre2 hv vs5 hadj5 h5sz hid5 g.n _ _ _ (hrel_init hs) hrel0 (SameAdj.refl vs5) (by simp [dijkstraInit])
  have hsn : s < vs.size := by rw [hsz]; exact hs
  simp only [p1, p2, p3, hsn, hsA, decide_true, Bool.and_self]

end AdaptaVerif.Lemmas.DijkstraBridge
