/-
Geometric meaning of the model predicates (helper lemmas for Props/C16.lean).
-/
import AdaptaVerif.Model.Geometry
import Mathlib.Tactic.Linarith
import Mathlib.Tactic.Ring
import Mathlib.Tactic.LinearCombination
import Mathlib.Tactic.FieldSimp
import Mathlib.Tactic.Positivity
import Mathlib.Algebra.Order.Field.Rat
namespace AdaptaVerif.Lemmas.GeometrySpec
open AdaptaVerif.Model.Geometry

def addPt (a t : Pt) : Pt := ⟨a.x + t.x, a.y + t.y⟩

theorem vecDir_sign (a b c : Pt) :
    (vecDir a b c = 1 ↔ 0 < area2 a b c) ∧ (vecDir a b c = -1 ↔ area2 a b c < 0) ∧
    (vecDir a b c = 0 ↔ area2 a b c = 0) := by
  simp only [vecDir, neg_zero]
  refine ⟨?_, ?_, ?_⟩ <;> split_ifs <;> constructor <;> intro h <;>
    first | rfl | linarith | (exact absurd h (by decide)) | (exfalso; linarith) | (apply le_antisymm <;> linarith)

theorem vecDir_pos (a b c : Pt) : vecDir a b c = 1 ↔ 0 < area2 a b c := (vecDir_sign a b c).1
theorem vecDir_neg (a b c : Pt) : vecDir a b c = -1 ↔ area2 a b c < 0 := (vecDir_sign a b c).2.1
theorem vecDir_zero (a b c : Pt) : vecDir a b c = 0 ↔ area2 a b c = 0 := (vecDir_sign a b c).2.2

/-- vecDir as the sign function of area2 -/
theorem vecDir_cases (a b c : Pt) :
    (area2 a b c < 0 ∧ vecDir a b c = -1) ∨ (area2 a b c = 0 ∧ vecDir a b c = 0) ∨ (0 < area2 a b c ∧ vecDir a b c = 1) := by
  rcases lt_trichotomy (area2 a b c) 0 with h | h | h
  · exact Or.inl ⟨h, (vecDir_neg a b c).2 h⟩
  · exact Or.inr (Or.inl ⟨h, (vecDir_zero a b c).2 h⟩)
  · exact Or.inr (Or.inr ⟨h, (vecDir_pos a b c).2 h⟩)

theorem vecDir_congr_sign (a b c a' b' c' : Pt) (h : area2 a b c = area2 a' b' c') :
    vecDir a b c = vecDir a' b' c' := by
  simp only [vecDir, h]

theorem vecDir_swap (a b c : Pt) : vecDir a b c = - vecDir b a c := by
  have h : area2 a b c = - area2 b a c := by unfold area2; ring
  simp only [vecDir, h, neg_zero]
  split_ifs <;> first | rfl | (exfalso; linarith)

theorem vecDir_cyclic (a b c : Pt) : vecDir a b c = vecDir b c a :=
  vecDir_congr_sign _ _ _ _ _ _ (by unfold area2; ring)

theorem vecDir_translate (a b c t : Pt) : vecDir (addPt a t) (addPt b t) (addPt c t) = vecDir a b c :=
  vecDir_congr_sign _ _ _ _ _ _ (by unfold area2 addPt; ring)


theorem int_mul_neg_of_dirs (a b c a' b' c' : Pt) :
    (vecDir a b c * vecDir a' b' c' < 0) ↔ area2 a b c * area2 a' b' c' < 0 := by
  rcases vecDir_cases a b c with ⟨h1, e1⟩ | ⟨h1, e1⟩ | ⟨h1, e1⟩ <;>
  rcases vecDir_cases a' b' c' with ⟨h2, e2⟩ | ⟨h2, e2⟩ | ⟨h2, e2⟩ <;>
  simp only [e1, e2] <;> constructor <;> intro h <;>
  first | (exact absurd h (by decide)) | nlinarith | decide

theorem segmentIntersect_signs (a b c d : Pt) :
    segmentIntersect a b c d = true ↔
      area2 a b c * area2 a b d < 0 ∧ area2 c d a * area2 c d b < 0 := by
  simp only [segmentIntersect]
  rcases vecDir_cases a b c with ⟨h1, e1⟩ | ⟨h1, e1⟩ | ⟨h1, e1⟩ <;>
  rcases vecDir_cases a b d with ⟨h2, e2⟩ | ⟨h2, e2⟩ | ⟨h2, e2⟩ <;>
  simp [e1, e2, h1, h2, int_mul_neg_of_dirs] <;> intro h <;> nlinarith

/-- the common denominator D = (b−a)×(d−c) -/
def crossD (a b c d : Pt) : Rat := (b.x - a.x) * (d.y - c.y) - (b.y - a.y) * (d.x - c.x)

theorem area_diff1 (a b c d : Pt) : area2 a b d - area2 a b c = crossD a b c d := by
  unfold area2 crossD; ring
theorem area_diff2 (a b c d : Pt) : area2 c d a - area2 c d b = crossD a b c d := by
  unfold area2 crossD; ring

theorem segmentIntersect_iff (a b c d : Pt) :
    segmentIntersect a b c d = true ↔
      ∃ s t : Rat, 0 < s ∧ s < 1 ∧ 0 < t ∧ t < 1 ∧
        a.x + s * (b.x - a.x) = c.x + t * (d.x - c.x) ∧ a.y + s * (b.y - a.y) = c.y + t * (d.y - c.y) ∧
        (b.x - a.x) * (d.y - c.y) - (b.y - a.y) * (d.x - c.x) ≠ 0 := by
  rw [segmentIntersect_signs]
  have d1 := area_diff1 a b c d
  have d2 := area_diff2 a b c d
  constructor
  · rintro ⟨hPQ, hRS⟩
    set P := area2 a b c with hP
    set Q := area2 a b d with hQ
    set R := area2 c d a with hR
    set S := area2 c d b with hS
    have hD : crossD a b c d ≠ 0 := by
      intro h0
      have : Q = P := by linarith
      rw [this] at hPQ
      nlinarith [mul_self_nonneg P]
    refine ⟨R / crossD a b c d, -P / crossD a b c d, ?_, ?_, ?_, ?_, ?_, ?_, hD⟩
    · rcases mul_neg_iff.1 hRS with ⟨h1, h2⟩ | ⟨h1, h2⟩
      · exact div_pos h1 (by linarith)
      · exact div_pos_of_neg_of_neg h1 (by linarith)
    · rcases mul_neg_iff.1 hRS with ⟨h1, h2⟩ | ⟨h1, h2⟩
      · rw [div_lt_one (by linarith)]; linarith
      · rw [div_lt_one_of_neg (by linarith)]; linarith
    · rcases mul_neg_iff.1 hPQ with ⟨h1, h2⟩ | ⟨h1, h2⟩
      · exact div_pos_of_neg_of_neg (by linarith) (by linarith)
      · exact div_pos (by linarith) (by linarith)
    · rcases mul_neg_iff.1 hPQ with ⟨h1, h2⟩ | ⟨h1, h2⟩
      · rw [div_lt_one_of_neg (by linarith)]; linarith
      · rw [div_lt_one (by linarith)]; linarith
    · field_simp
      simp only [hP, hR, area2, crossD]; ring
    · field_simp
      simp only [hP, hR, area2, crossD]; ring
  · rintro ⟨s, t, hs0, hs1, ht0, ht1, ex, ey, hD⟩
    have hD' : crossD a b c d ≠ 0 := hD
    have hR : area2 c d a = s * crossD a b c d := by
      unfold area2 crossD; linear_combination (d.x - c.x) * ey - (d.y - c.y) * ex
    have hP : area2 a b c = - t * crossD a b c d := by
      unfold area2 crossD; linear_combination (b.y - a.y) * ex - (b.x - a.x) * ey
    have hQ : area2 a b d = (1 - t) * crossD a b c d := by linarith
    have hS : area2 c d b = (s - 1) * crossD a b c d := by linarith
    have hDD : 0 < crossD a b c d * crossD a b c d := mul_self_pos.2 hD'
    constructor
    · rw [hP, hQ]; nlinarith [mul_pos ht0 (sub_pos.2 ht1), mul_pos (mul_pos ht0 (sub_pos.2 ht1)) hDD]
    · rw [hR, hS]; nlinarith [mul_pos hs0 (sub_pos.2 hs1), mul_pos (mul_pos hs0 (sub_pos.2 hs1)) hDD]

theorem bool_eq_of_iff {p q : Bool} (h : p = true ↔ q = true) : p = q := by
  cases p <;> cases q <;> simp_all

theorem segmentIntersect_symm (a b c d : Pt) :
    segmentIntersect a b c d = segmentIntersect b a c d ∧
    segmentIntersect a b c d = segmentIntersect a b d c ∧
    segmentIntersect a b c d = segmentIntersect c d a b := by
  have e1 : ∀ p q r : Pt, area2 p q r = - area2 q p r := by intro p q r; unfold area2; ring
  refine ⟨bool_eq_of_iff ?_, bool_eq_of_iff ?_, bool_eq_of_iff ?_⟩ <;> simp only [segmentIntersect_signs]
  · rw [e1 a b c, e1 a b d]
    constructor <;> rintro ⟨h1, h2⟩ <;> exact ⟨by nlinarith, by rw [mul_comm]; exact h2⟩
  · constructor <;> rintro ⟨h1, h2⟩ <;> refine ⟨by rw [mul_comm]; exact h1, ?_⟩ <;> rw [e1 c d a, e1 c d b] at * <;> nlinarith
  · exact And.comm

theorem colinear_iff (a b c : Pt) : colinear a b c = true ↔ area2 a b c = 0 := by
  simp only [colinear]
  split_ifs with h1 h2 h3
  · subst h1; simp [area2]
  · simp only [decide_eq_true_eq]
    have hy : a.y ≠ b.y := by
      intro hy; apply h1; cases a; cases b; simp_all
    unfold area2; rw [h2]
    constructor
    · intro h; rw [← h]; ring
    · intro h
      have : (c.x - b.x) * (b.y - a.y) = 0 := by linarith
      rcases mul_eq_zero.1 this with h | h
      · linarith
      · exact absurd (by linarith) hy
  · simp only [decide_eq_true_eq]
    unfold area2; rw [h3]
    constructor
    · intro h; rw [← h]; ring
    · intro h
      have : (b.x - a.x) * (c.y - b.y) = 0 := by linarith
      rcases mul_eq_zero.1 this with h | h
      · exact absurd (by linarith) h2
      · linarith
  · simp only [decide_eq_true_eq]; exact vecDir_zero a b c

theorem strictBetween_iff (a b c : Rat) : strictBetween a b c = true ↔ (a < c ∧ c < b) ∨ (b < c ∧ c < a) := by
  simp [strictBetween]

/-- c strictly between a and b (a ≠ b) iff c = a + t (b - a) for some t ∈ (0,1) -/
theorem strictBetween_param (a b c : Rat) (hab : a ≠ b) :
    ((a < c ∧ c < b) ∨ (b < c ∧ c < a)) ↔ 0 < (c - a) / (b - a) ∧ (c - a) / (b - a) < 1 := by
  have hne : b - a ≠ 0 := sub_ne_zero.2 (Ne.symm hab)
  rcases lt_or_gt_of_ne hab with h | h
  · have hp : 0 < b - a := by linarith
    rw [div_pos_iff_of_pos_right hp, div_lt_one hp]
    constructor
    · rintro (⟨h1, h2⟩ | ⟨h1, h2⟩) <;> constructor <;> linarith
    · rintro ⟨h1, h2⟩; left; constructor <;> linarith
  · have hp : 0 < a - b := by linarith
    have e : (c - a) / (b - a) = (a - c) / (a - b) := by
      rw [← neg_div_neg_eq]; congr 1 <;> ring
    rw [e, div_pos_iff_of_pos_right hp, div_lt_one hp]
    constructor
    · rintro (⟨h1, h2⟩ | ⟨h1, h2⟩) <;> constructor <;> linarith
    · rintro ⟨h1, h2⟩; right; constructor <;> linarith

theorem pointOnLine_iff (a b c : Pt) :
    pointOnLine a b c = true ↔ ∃ t : Rat, 0 < t ∧ t < 1 ∧ c.x = a.x + t * (b.x - a.x) ∧ c.y = a.y + t * (b.y - a.y) ∧ a ≠ b := by
  simp only [pointOnLine]
  split_ifs with h1 h2
  · -- vertical (or degenerate) segment
    simp only [Bool.and_eq_true, decide_eq_true_eq, strictBetween_iff]
    constructor
    · rintro ⟨hx, hb⟩
      have hy : a.y ≠ b.y := by rintro h; rw [h] at hb; rcases hb with ⟨h1, h2⟩ | ⟨h1, h2⟩ <;> linarith
      have hne : b.y - a.y ≠ 0 := sub_ne_zero.2 (Ne.symm hy)
      refine ⟨(c.y - a.y) / (b.y - a.y), ((strictBetween_param _ _ _ hy).1 hb).1, ((strictBetween_param _ _ _ hy).1 hb).2, ?_, ?_, ?_⟩
      · rw [h1]; linarith [hx]
      · field_simp; ring
      · intro h; apply hy; rw [h]
    · rintro ⟨t, ht0, ht1, ex, ey, hne⟩
      have hy : a.y ≠ b.y := by
        intro hy; apply hne; cases a; cases b; simp_all
      refine ⟨by rw [ex, h1]; ring, ?_⟩
      rw [strictBetween_param _ _ _ hy]
      have hne' : b.y - a.y ≠ 0 := sub_ne_zero.2 (Ne.symm hy)
      have : (c.y - a.y) / (b.y - a.y) = t := by rw [ey]; field_simp; ring
      rw [this]; exact ⟨ht0, ht1⟩
  · simp only [Bool.and_eq_true, decide_eq_true_eq, strictBetween_iff]
    have hx : a.x ≠ b.x := h1
    have hne : b.x - a.x ≠ 0 := sub_ne_zero.2 (Ne.symm hx)
    constructor
    · rintro ⟨hy, hb⟩
      refine ⟨(c.x - a.x) / (b.x - a.x), ((strictBetween_param _ _ _ hx).1 hb).1, ((strictBetween_param _ _ _ hx).1 hb).2, ?_, ?_, ?_⟩
      · field_simp; ring
      · rw [h2]; linarith [hy]
      · intro h; apply hx; rw [h]
    · rintro ⟨t, ht0, ht1, ex, ey, _⟩
      refine ⟨by rw [ey, h2]; ring, ?_⟩
      rw [strictBetween_param _ _ _ hx]
      have : (c.x - a.x) / (b.x - a.x) = t := by rw [ex]; field_simp; ring
      rw [this]; exact ⟨ht0, ht1⟩
  · -- general position: collinear and between in x (|a.x - b.x| > eps or not)
    have hx : a.x ≠ b.x := h1
    have hy : a.y ≠ b.y := h2
    have hnx : b.x - a.x ≠ 0 := sub_ne_zero.2 (Ne.symm hx)
    have hny : b.y - a.y ≠ 0 := sub_ne_zero.2 (Ne.symm hy)
    simp only [Bool.and_eq_true, decide_eq_true_eq, vecDir_zero, inBetween]
    constructor
    · rintro ⟨hcol, hb⟩
      -- whichever coordinate was used, the parameter is the same by collinearity
      have key : (c.x - a.x) * (b.y - a.y) = (c.y - a.y) * (b.x - a.x) := by unfold area2 at hcol; linarith
      have eq : (c.x - a.x) / (b.x - a.x) = (c.y - a.y) / (b.y - a.y) := by
        rw [div_eq_div_iff hnx hny]; linarith
      have ht : 0 < (c.x - a.x) / (b.x - a.x) ∧ (c.x - a.x) / (b.x - a.x) < 1 := by
        split_ifs at hb
        · exact (strictBetween_param _ _ _ hx).1 ((strictBetween_iff _ _ _).1 hb)
        · rw [eq]; exact (strictBetween_param _ _ _ hy).1 ((strictBetween_iff _ _ _).1 hb)
      refine ⟨(c.x - a.x) / (b.x - a.x), ht.1, ht.2, ?_, ?_, ?_⟩
      · field_simp; ring
      · rw [eq]; field_simp; ring
      · intro h; apply hx; rw [h]
    · rintro ⟨t, ht0, ht1, ex, ey, _⟩
      have tx : (c.x - a.x) / (b.x - a.x) = t := by rw [ex]; field_simp; ring
      have ty : (c.y - a.y) / (b.y - a.y) = t := by rw [ey]; field_simp; ring
      refine ⟨by unfold area2; rw [ex, ey]; ring, ?_⟩
      split_ifs
      · rw [strictBetween_iff, strictBetween_param _ _ _ hx, tx]; exact ⟨ht0, ht1⟩
      · rw [strictBetween_iff, strictBetween_param _ _ _ hy, ty]; exact ⟨ht0, ht1⟩

theorem pointOnLine_symm (a b c : Pt) : pointOnLine a b c = pointOnLine b a c := by
  apply bool_eq_of_iff
  rw [pointOnLine_iff, pointOnLine_iff]
  constructor <;> rintro ⟨t, ht0, ht1, ex, ey, hne⟩ <;>
    exact ⟨1 - t, by linarith, by linarith, by rw [ex]; ring, by rw [ey]; ring, fun h => hne h.symm⟩

theorem inPoly_iff (poly : List Pt) (q : Pt) :
    (inPoly poly q true = true ↔ ∀ e ∈ edges poly, 0 ≤ area2 e.1 e.2 q) ∧
    (inPoly poly q false = true ↔ ∀ e ∈ edges poly, 0 < area2 e.1 e.2 q) := by
  have hneg : ∀ e : Pt × Pt, (vecDir e.1 e.2 q == -1) = true ↔ area2 e.1 e.2 q < 0 := by
    intro e; simp only [beq_iff_eq]; exact vecDir_neg _ _ _
  have hz : ∀ e : Pt × Pt, (vecDir e.1 e.2 q == 0) = true ↔ area2 e.1 e.2 q = 0 := by
    intro e; simp only [beq_iff_eq]; exact vecDir_zero _ _ _
  constructor
  · simp only [inPoly, List.any_map, Function.comp_def]
    constructor
    · intro h e he
      by_contra hlt
      have : (edges poly).any (fun e => vecDir e.1 e.2 q == -1) = true :=
        List.any_eq_true.2 ⟨e, he, (hneg e).2 (not_le.1 hlt)⟩
      simp [this] at h
    · intro h
      have : (edges poly).any (fun e => vecDir e.1 e.2 q == -1) = false := by
        rw [Bool.eq_false_iff]; intro hc
        obtain ⟨e, he, hv⟩ := List.any_eq_true.1 hc
        exact absurd ((hneg e).1 hv) (not_lt.2 (h e he))
      simp [this]
  · simp only [inPoly, List.any_map, Function.comp_def]
    constructor
    · intro h e he
      by_contra hle
      rcases lt_or_eq_of_le (not_lt.1 hle) with hlt | heq
      · have : (edges poly).any (fun e => vecDir e.1 e.2 q == -1) = true :=
          List.any_eq_true.2 ⟨e, he, (hneg e).2 hlt⟩
        simp [this] at h
      · have : (edges poly).any (fun e => vecDir e.1 e.2 q == 0) = true :=
          List.any_eq_true.2 ⟨e, he, (hz e).2 heq⟩
        simp [this] at h
    · intro h
      have h1 : (edges poly).any (fun e => vecDir e.1 e.2 q == -1) = false := by
        rw [Bool.eq_false_iff]; intro hc
        obtain ⟨e, he, hv⟩ := List.any_eq_true.1 hc
        exact absurd ((hneg e).1 hv) (not_lt.2 (le_of_lt (h e he)))
      have h2 : (edges poly).any (fun e => vecDir e.1 e.2 q == 0) = false := by
        rw [Bool.eq_false_iff]; intro hc
        obtain ⟨e, he, hv⟩ := List.any_eq_true.1 hc
        exact absurd ((hz e).1 hv) (ne_of_gt (h e he))
      simp [h1, h2]

theorem area2_integer_bounded (B : Int) (ax ay bx by' cx cy : Int)
    (h : |ax| ≤ B ∧ |ay| ≤ B ∧ |bx| ≤ B ∧ |by'| ≤ B ∧ |cx| ≤ B ∧ |cy| ≤ B) :
    ∃ n : Int, area2 ⟨ax, ay⟩ ⟨bx, by'⟩ ⟨cx, cy⟩ = (n : Rat) ∧ |n| ≤ 8 * B * B ∧
      |(bx - ax) * (cy - ay)| ≤ 4 * B * B ∧ |(cx - ax) * (by' - ay)| ≤ 4 * B * B := by
  obtain ⟨h1, h2, h3, h4, h5, h6⟩ := h
  have hB : 0 ≤ B := le_trans (abs_nonneg _) h1
  have d : ∀ u v : Int, |u| ≤ B → |v| ≤ B → |u - v| ≤ 2 * B := by
    intro u v hu hv
    calc |u - v| ≤ |u| + |v| := abs_sub u v
      _ ≤ 2 * B := by linarith
  have m : ∀ u v : Int, |u| ≤ 2 * B → |v| ≤ 2 * B → |u * v| ≤ 4 * B * B := by
    intro u v hu hv
    rw [abs_mul]
    calc |u| * |v| ≤ (2 * B) * (2 * B) := mul_le_mul hu hv (abs_nonneg _) (by linarith)
      _ = 4 * B * B := by ring
  have p1 := m _ _ (d bx ax h3 h1) (d cy ay h6 h2)
  have p2 := m _ _ (d cx ax h5 h1) (d by' ay h4 h2)
  refine ⟨(bx - ax) * (cy - ay) - (cx - ax) * (by' - ay), ?_, ?_, p1, p2⟩
  · simp only [area2]; push_cast; ring
  · calc |(bx - ax) * (cy - ay) - (cx - ax) * (by' - ay)|
        ≤ |(bx - ax) * (cy - ay)| + |(cx - ax) * (by' - ay)| := abs_sub _ _
      _ ≤ 8 * B * B := by linarith

theorem unit_interval_of_tests (f d : Rat) (hf : f ≠ 0)
    (h : ¬ (if f > 0 then (d < 0 ∨ d > f) else (d > 0 ∨ d < f))) : 0 ≤ d / f ∧ d / f ≤ 1 := by
  split_ifs at h with hp
  · push Not at h
    exact ⟨div_nonneg h.1 (le_of_lt hp), (div_le_one hp).2 h.2⟩
  · push Not at h
    have hn : f < 0 := lt_of_le_of_ne (not_lt.1 hp) hf
    exact ⟨div_nonneg_of_nonpos h.1 (le_of_lt hn), (div_le_one_of_neg hn).2 h.2⟩

theorem sip_eq_core_or_dont (a1 a2 b1 b2 : Pt) :
    segmentIntersectPoint a1 a2 b1 b2 = (DONT_INTERSECT, 0, 0) ∨
    segmentIntersectPoint a1 a2 b1 b2 = sipCore a1 a2 b1 b2 := by
  unfold segmentIntersectPoint
  split_ifs
  · exact Or.inl rfl
  · exact Or.inl rfl
  · exact Or.inr rfl

theorem unit_interval_of_testsB (f d : Rat) (hf : f ≠ 0)
    (h : ¬ (if f > 0 then (decide (d < 0) || decide (d > f)) else (decide (d > 0) || decide (d < f))) = true) :
    0 ≤ d / f ∧ d / f ≤ 1 := by
  apply unit_interval_of_tests f d hf
  intro hc; apply h
  split_ifs at hc ⊢ <;> simpa using hc

theorem sipCore_sound (a1 a2 b1 b2 : Pt) :
    (∀ x y, sipCore a1 a2 b1 b2 = (DO_INTERSECT, x, y) →
      ∃ s t : Rat, 0 ≤ s ∧ s ≤ 1 ∧ 0 ≤ t ∧ t ≤ 1 ∧
        x = a1.x + s * (a2.x - a1.x) ∧ y = a1.y + s * (a2.y - a1.y) ∧
        x = b1.x + t * (b2.x - b1.x) ∧ y = b1.y + t * (b2.y - b1.y)) ∧
    (∀ x y, sipCore a1 a2 b1 b2 = (PARALLEL, x, y) →
      (a2.y - a1.y) * (b1.x - b2.x) - (a2.x - a1.x) * (b1.y - b2.y) = 0) := by
  unfold sipCore
  dsimp only
  generalize hF : (a2.y - a1.y) * (b1.x - b2.x) - (a2.x - a1.x) * (b1.y - b2.y) = F
  generalize hD : (b1.y - b2.y) * (a1.x - b1.x) - (b1.x - b2.x) * (a1.y - b1.y) = D
  generalize hE : (a2.x - a1.x) * (a1.y - b1.y) - (a2.y - a1.y) * (a1.x - b1.x) = E
  by_cases h3 : (if F > 0 then (decide (D < 0) || decide (D > F)) else (decide (D > 0) || decide (D < F))) = true
  · rw [if_pos h3]
    constructor <;> intro x y h <;> simp only [Prod.mk.injEq, DONT_INTERSECT, DO_INTERSECT, PARALLEL] at h <;>
      exact absurd h.1 (by decide)
  rw [if_neg h3]
  by_cases h4 : (if F > 0 then (decide (E < 0) || decide (E > F)) else (decide (E > 0) || decide (E < F))) = true
  · rw [if_pos h4]
    constructor <;> intro x y h <;> simp only [Prod.mk.injEq, DONT_INTERSECT, DO_INTERSECT, PARALLEL] at h <;>
      exact absurd h.1 (by decide)
  rw [if_neg h4]
  by_cases h5 : F = 0
  · rw [if_pos h5]
    constructor <;> intro x y h <;> simp only [Prod.mk.injEq, DONT_INTERSECT, DO_INTERSECT, PARALLEL] at h
    · exact absurd h.1 (by decide)
    · exact h5
  rw [if_neg h5]
  constructor
  · intro x y h
    simp only [Prod.mk.injEq] at h
    obtain ⟨_, hx, hy⟩ := h
    have r1 := unit_interval_of_testsB _ _ h5 h3
    have r2 := unit_interval_of_testsB _ _ h5 h4
    refine ⟨D / F, E / F, r1.1, r1.2, r2.1, r2.2, ?_, ?_, ?_, ?_⟩
    · rw [← hx]; ring
    · rw [← hy]; ring
    · rw [← hx]; field_simp; rw [← hD, ← hE, ← hF]; ring
    · rw [← hy]; field_simp; rw [← hD, ← hE, ← hF]; ring
  · intro x y h
    simp only [Prod.mk.injEq, DONT_INTERSECT, DO_INTERSECT, PARALLEL] at h
    exact absurd h.1 (by decide)

theorem segmentIntersectPoint_sound (a1 a2 b1 b2 : Pt) :
    (∀ x y, segmentIntersectPoint a1 a2 b1 b2 = (DO_INTERSECT, x, y) →
      ∃ s t : Rat, 0 ≤ s ∧ s ≤ 1 ∧ 0 ≤ t ∧ t ≤ 1 ∧
        x = a1.x + s * (a2.x - a1.x) ∧ y = a1.y + s * (a2.y - a1.y) ∧
        x = b1.x + t * (b2.x - b1.x) ∧ y = b1.y + t * (b2.y - b1.y)) ∧
    (∀ x y, segmentIntersectPoint a1 a2 b1 b2 = (PARALLEL, x, y) →
      (a2.y - a1.y) * (b1.x - b2.x) - (a2.x - a1.x) * (b1.y - b2.y) = 0) := by
  rcases sip_eq_core_or_dont a1 a2 b1 b2 with h | h <;> rw [h]
  · constructor <;> intro x y h <;> simp only [Prod.mk.injEq, DONT_INTERSECT, DO_INTERSECT, PARALLEL] at h <;>
      exact absurd h.1 (by decide)
  · exact sipCore_sound a1 a2 b1 b2

end AdaptaVerif.Lemmas.GeometrySpec
