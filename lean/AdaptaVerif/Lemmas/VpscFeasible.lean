/-
"No positive closed walk ⇒ potentials exist" for finite systems of difference constraints
`u_a + w ≤ u_b`, by eliminating one vertex at a time (Fourier–Motzkin on the constraint graph).
Together with `cycle_sum` this gives `Feasible ↔ ¬ PosCycle` (Props/C01).
-/
import AdaptaVerif.Lemmas.Vpsc
namespace AdaptaVerif.Lemmas.VpscFeasible
open AdaptaVerif.Check.Vpsc AdaptaVerif.Spec.Vpsc

def Sat (u : Nat → Rat) (es : List Edge) : Prop := ∀ e ∈ es, EdgeHolds u e

/-- no closed walk of edges of `es` has positive total weight -/
def NoPos (es : List Edge) : Prop :=
  ∀ cyc : List Edge, (∀ e ∈ cyc, e ∈ es) → ClosedWalk cyc → sumW cyc ≤ 0

/-! ### walks -/

theorem walkEnd_append : ∀ (p q : List Edge) (a : Nat),
    walkEnd a (p ++ q) = (walkEnd a p).bind (fun m => walkEnd m q) := by
  intro p
  induction p with
  | nil => intro q a; simp [walkEnd]
  | cons e p ih =>
    intro q a
    simp only [List.cons_append, walkEnd]
    split
    · exact ih q e.b
    · simp

theorem sumW_append : ∀ (p q : List Edge), sumW (p ++ q) = sumW p + sumW q := by
  intro p
  induction p with
  | nil => intro q; simp [sumW]
  | cons e p ih => intro q; simp only [List.cons_append, sumW, ih]; ring

theorem walkEnd_head (a b : Nat) (e : Edge) (p : List Edge) (h : walkEnd a (e :: p) = some b) :
    e.a = a := by
  simp only [walkEnd] at h
  split at h
  · assumption
  · simp at h

/-! ### eliminating a vertex -/

def insOf (v : Nat) (es : List Edge) : List Edge := es.filter fun e => e.b == v && e.a != v
def outsOf (v : Nat) (es : List Edge) : List Edge := es.filter fun e => e.a == v && e.b != v
def restOf (v : Nat) (es : List Edge) : List Edge := es.filter fun e => e.a != v && e.b != v

def elim (v : Nat) (es : List Edge) : List Edge :=
  restOf v es ++ (insOf v es).flatMap fun i => (outsOf v es).map fun o => ⟨i.a, o.b, i.w + o.w⟩

theorem mem_insOf {v : Nat} {es : List Edge} {e : Edge} :
    e ∈ insOf v es ↔ e ∈ es ∧ e.b = v ∧ e.a ≠ v := by
  simp [insOf, List.mem_filter]

theorem mem_outsOf {v : Nat} {es : List Edge} {e : Edge} :
    e ∈ outsOf v es ↔ e ∈ es ∧ e.a = v ∧ e.b ≠ v := by
  simp [outsOf, List.mem_filter]

theorem mem_restOf {v : Nat} {es : List Edge} {e : Edge} :
    e ∈ restOf v es ↔ e ∈ es ∧ e.a ≠ v ∧ e.b ≠ v := by
  simp [restOf, List.mem_filter]

theorem mem_elim {v : Nat} {es : List Edge} {e : Edge} :
    e ∈ elim v es ↔ e ∈ restOf v es ∨
      ∃ i ∈ insOf v es, ∃ o ∈ outsOf v es, e = ⟨i.a, o.b, i.w + o.w⟩ := by
  simp only [elim, List.mem_append, List.mem_flatMap, List.mem_map]
  constructor
  · rintro (h | ⟨i, hi, o, ho, rfl⟩)
    · exact Or.inl h
    · exact Or.inr ⟨i, hi, o, ho, rfl⟩
  · rintro (h | ⟨i, hi, o, ho, rfl⟩)
    · exact Or.inl h
    · exact Or.inr ⟨i, hi, o, ho, rfl⟩

/-- every edge of the eliminated system is realised by a non-empty walk of the original one -/
theorem elim_realize (v : Nat) (es : List Edge) (e : Edge) (he : e ∈ elim v es) :
    ∃ p : List Edge, p ≠ [] ∧ (∀ x ∈ p, x ∈ es) ∧ walkEnd e.a p = some e.b ∧ sumW p = e.w := by
  rcases mem_elim.1 he with h | ⟨i, hi, o, ho, rfl⟩
  · refine ⟨[e], by simp, ?_, by simp [walkEnd], by simp [sumW]⟩
    intro x hx
    simp only [List.mem_singleton] at hx
    subst hx
    exact (mem_restOf.1 h).1
  · have hi' := mem_insOf.1 hi
    have ho' := mem_outsOf.1 ho
    refine ⟨[i, o], by simp, ?_, ?_, by simp [sumW]⟩
    · intro x hx
      simp only [List.mem_cons, List.not_mem_nil, or_false] at hx
      rcases hx with rfl | rfl
      · exact hi'.1
      · exact ho'.1
    · simp [walkEnd, hi'.2.1, ho'.2.1]

theorem walk_lift (v : Nat) (es : List Edge) : ∀ (ws : List Edge) (a b : Nat),
    (∀ e ∈ ws, e ∈ elim v es) → walkEnd a ws = some b →
    ∃ ps : List Edge, (∀ x ∈ ps, x ∈ es) ∧ walkEnd a ps = some b ∧ sumW ps = sumW ws ∧
      (ws ≠ [] → ps ≠ []) := by
  intro ws
  induction ws with
  | nil =>
    intro a b _ h
    exact ⟨[], by simp, h, rfl, by simp⟩
  | cons e ws ih =>
    intro a b hmem h
    have hea := walkEnd_head a b e ws h
    simp only [walkEnd, hea, if_true] at h
    obtain ⟨ps, hps, hw, hs, _⟩ := ih e.b b (fun x hx => hmem x (List.mem_cons_of_mem _ hx)) h
    obtain ⟨p, hpne, hp, hpw, hpsum⟩ := elim_realize v es e (hmem e List.mem_cons_self)
    refine ⟨p ++ ps, ?_, ?_, ?_, ?_⟩
    · intro x hx
      rcases List.mem_append.1 hx with h1 | h1
      · exact hp x h1
      · exact hps x h1
    · rw [walkEnd_append, ← hea, hpw]
      simpa using hw
    · rw [sumW_append, hpsum, hs]
      simp [sumW]
    · intro _ hnil
      exact hpne (List.append_eq_nil_iff.1 hnil).1

theorem nopos_elim (v : Nat) (es : List Edge) (h : NoPos es) : NoPos (elim v es) := by
  intro cyc hmem hc
  obtain ⟨e, rest, hcy, hw⟩ := hc
  obtain ⟨ps, hps, hpw, hsum, hne⟩ := walk_lift v es cyc e.a e.a hmem hw
  have hpne : ps ≠ [] := hne (by rw [hcy]; simp)
  cases ps with
  | nil => exact absurd rfl hpne
  | cons e2 r2 =>
    have h2 := walkEnd_head _ _ _ _ hpw
    have hcl : ClosedWalk (e2 :: r2) := ⟨e2, r2, rfl, by rw [h2]; exact hpw⟩
    have := h (e2 :: r2) hps hcl
    rw [← hsum]
    exact this

/-! ### choosing the value of the eliminated vertex -/

theorem exists_le_all : ∀ (hi : List Rat), ∃ x : Rat, ∀ h ∈ hi, x ≤ h := by
  intro hi
  induction hi with
  | nil => exact ⟨0, by simp⟩
  | cons h hs ih =>
    obtain ⟨x, hx⟩ := ih
    refine ⟨min x h, ?_⟩
    intro y hy
    rcases List.mem_cons.1 hy with rfl | hy
    · exact min_le_right _ _
    · exact le_trans (min_le_left _ _) (hx y hy)

theorem exists_between : ∀ (lo hi : List Rat), (∀ l ∈ lo, ∀ h ∈ hi, l ≤ h) →
    ∃ x : Rat, (∀ l ∈ lo, l ≤ x) ∧ (∀ h ∈ hi, x ≤ h) := by
  intro lo
  induction lo with
  | nil =>
    intro hi _
    obtain ⟨x, hx⟩ := exists_le_all hi
    exact ⟨x, by simp, hx⟩
  | cons l ls ih =>
    intro hi hlh
    obtain ⟨x, hx1, hx2⟩ := ih hi (fun l' hl' h hh => hlh l' (List.mem_cons_of_mem _ hl') h hh)
    refine ⟨max x l, ?_, ?_⟩
    · intro y hy
      rcases List.mem_cons.1 hy with rfl | hy
      · exact le_max_right _ _
      · exact le_trans (hx1 y hy) (le_max_left _ _)
    · intro h hh
      exact max_le (hx2 h hh) (hlh l List.mem_cons_self h hh)

/-- a solution of the eliminated system extends to a solution of the original one -/
theorem extend (v : Nat) (es : List Edge) (hnp : NoPos es) (u' : Nat → Rat)
    (hs : Sat u' (elim v es)) : ∃ u, Sat u es := by
  have hbetween : ∀ l ∈ (insOf v es).map (fun i => u' i.a + i.w),
      ∀ h ∈ (outsOf v es).map (fun o => u' o.b - o.w), l ≤ h := by
    intro l hl h hh
    simp only [List.mem_map] at hl hh
    obtain ⟨i, hi, rfl⟩ := hl
    obtain ⟨o, ho, rfl⟩ := hh
    have := hs ⟨i.a, o.b, i.w + o.w⟩ (mem_elim.2 (Or.inr ⟨i, hi, o, ho, rfl⟩))
    simp only [EdgeHolds] at this
    linarith
  obtain ⟨x, hx1, hx2⟩ := exists_between _ _ hbetween
  refine ⟨fun i => if i = v then x else u' i, ?_⟩
  intro e he
  simp only [EdgeHolds]
  by_cases ha : e.a = v <;> by_cases hb : e.b = v
  · -- self loop on v: weight ≤ 0 because there is no positive closed walk
    have hloop : sumW [e] ≤ 0 := hnp [e] (by simpa using he) ⟨e, [], rfl, by simp [walkEnd, ha, hb]⟩
    simp only [sumW] at hloop
    simp only [ha, hb, if_true]
    linarith
  · have ho : e ∈ outsOf v es := mem_outsOf.2 ⟨he, ha, hb⟩
    have := hx2 (u' e.b - e.w) (List.mem_map.2 ⟨e, ho, rfl⟩)
    simp only [ha, hb, if_true, if_false]
    linarith
  · have hi : e ∈ insOf v es := mem_insOf.2 ⟨he, hb, ha⟩
    have := hx1 (u' e.a + e.w) (List.mem_map.2 ⟨e, hi, rfl⟩)
    simp only [ha, hb, if_true, if_false]
    linarith
  · have hr : e ∈ elim v es := mem_elim.2 (Or.inl (mem_restOf.2 ⟨he, ha, hb⟩))
    have := hs e hr
    simp only [EdgeHolds] at this
    simp only [ha, hb, if_false]
    exact this

theorem exists_potential_aux : ∀ (vs : List Nat) (es : List Edge),
    (∀ e ∈ es, e.a ∈ vs ∧ e.b ∈ vs) → NoPos es → ∃ u, Sat u es := by
  intro vs
  induction vs with
  | nil =>
    intro es hv _
    refine ⟨fun _ => 0, ?_⟩
    intro e he
    exact absurd (hv e he).1 (by simp)
  | cons v vs ih =>
    intro es hv hnp
    have hv' : ∀ e ∈ elim v es, e.a ∈ vs ∧ e.b ∈ vs := by
      intro e he
      rcases mem_elim.1 he with h | ⟨i, hi, o, ho, rfl⟩
      · obtain ⟨h1, h2, h3⟩ := mem_restOf.1 h
        have := hv e h1
        constructor
        · rcases List.mem_cons.1 this.1 with h' | h'
          · exact absurd h' h2
          · exact h'
        · rcases List.mem_cons.1 this.2 with h' | h'
          · exact absurd h' h3
          · exact h'
      · obtain ⟨h1, _, h3⟩ := mem_insOf.1 hi
        obtain ⟨g1, _, g3⟩ := mem_outsOf.1 ho
        constructor
        · rcases List.mem_cons.1 (hv i h1).1 with h' | h'
          · exact absurd h' h3
          · exact h'
        · rcases List.mem_cons.1 (hv o g1).2 with h' | h'
          · exact absurd h' g3
          · exact h'
    obtain ⟨u', hu'⟩ := ih (elim v es) hv' (nopos_elim v es hnp)
    exact extend v es hnp u' hu'

/-- **no positive closed walk ⇒ the difference system has a solution** -/
theorem exists_potential (es : List Edge) (h : NoPos es) : ∃ u, Sat u es :=
  exists_potential_aux (es.flatMap fun e => [e.a, e.b]) es (by
    intro e he
    constructor
    · exact List.mem_flatMap.2 ⟨e, he, by simp⟩
    · exact List.mem_flatMap.2 ⟨e, he, by simp⟩) h

end AdaptaVerif.Lemmas.VpscFeasible
