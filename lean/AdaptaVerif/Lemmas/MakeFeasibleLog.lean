/-
Structural bookkeeping of the `makeFeasible` model (`Model/MakeFeasible.lean`): what the trial log,
the marks and `valid` say about each other.  Core Lean only.
-/
import AdaptaVerif.Model.MakeFeasible
namespace AdaptaVerif.Lemmas.MakeFeasibleLog
open AdaptaVerif.Model.MakeFeasible AdaptaVerif.Model.Vpsc
open AdaptaVerif.Model.Compound (Dim)

/-! ### one trial in one dimension -/

theorem tryCon_accept_iff (n : Nat) (ds : DimSt) (c : Con) (own : Nat × Nat) :
    (ds.tryCon n c own).accepted = true ↔
      (∃ pos ret, ((ds.solverFor c).satisfy).2 = .ok pos ret) ∧
        ((ds.solverFor c).satisfy).1.cons.any (·.unsat) = false := by
  unfold DimSt.tryCon
  simp only []
  split
  · rename_i pos ret h
    split
    · rename_i hf
      simp [hf]
    · rename_i hf
      simp [hf, h]
  · rename_i h
    simp [h]
  · rename_i h
    simp [h]

theorem tryCon_fields (n : Nat) (ds : DimSt) (c : Con) (own : Nat × Nat) :
    ((ds.tryCon n c own).accepted = true →
        (ds.tryCon n c own).flagged = false ∧ (ds.tryCon n c own).returned = true) ∧
    ((ds.tryCon n c own).accepted = false →
        (ds.tryCon n c own).flagged = true ∨ (ds.tryCon n c own).returned = false) ∧
    ((ds.tryCon n c own).flagged = true →
        ((ds.solverFor c).satisfy).1.cons.any (·.unsat) = true) := by
  unfold DimSt.tryCon
  simp only []
  split
  · split
    · rename_i hf
      simp [hf]
    · rename_i hf
      simp [hf]
  · simp
  · simp

theorem tryCon_valid_cases (n : Nat) (ds : DimSt) (c : Con) (own : Nat × Nat) :
    ((ds.tryCon n c own).accepted = true → (ds.tryCon n c own).ds.valid = ds.valid.push c) ∧
    ((ds.tryCon n c own).accepted = false → (ds.tryCon n c own).ds.valid = ds.valid) := by
  unfold DimSt.tryCon
  simp only []
  split
  · split <;> simp
  · simp
  · simp

theorem tryCon_valid (n : Nat) (ds : DimSt) (c : Con) (own : Nat × Nat) :
    (ds.tryCon n c own).ds.valid =
      if (ds.tryCon n c own).accepted then ds.valid.push c else ds.valid := by
  cases h : (ds.tryCon n c own).accepted with
  | true => simpa using (tryCon_valid_cases n ds c own).1 h
  | false => simpa using (tryCon_valid_cases n ds c own).2 h

/-! ### `dim` / `setDim` -/

theorem setDim_log (mf : MF) (d : Dim) (ds : DimSt) : (mf.setDim d ds).log = mf.log := by
  cases d <;> rfl
theorem setDim_marks (mf : MF) (d : Dim) (ds : DimSt) : (mf.setDim d ds).marks = mf.marks := by
  cases d <;> rfl
theorem setDim_dim_same (mf : MF) (d : Dim) (ds : DimSt) : (mf.setDim d ds).dim d = ds := by
  cases d <;> rfl
theorem setDim_dim_ne (mf : MF) {d d' : Dim} (ds : DimSt) (h : d' ≠ d) :
    (mf.setDim d ds).dim d' = mf.dim d' := by
  cases d <;> cases d' <;> first | rfl | exact absurd rfl h

theorem dim_congr {a b : MF} (hx : b.x = a.x) (hy : b.y = a.y) (d : Dim) : b.dim d = a.dim d := by
  cases d
  · exact hx
  · exact hy

/-! ### the log and `valid` only grow -/

structure Ext (a b : MF) : Prop where
  log : ∀ t ∈ a.log, t ∈ b.log
  valid : ∀ (d : Dim) (c : Con), c ∈ (a.dim d).valid → c ∈ (b.dim d).valid

theorem Ext.refl (a : MF) : Ext a a := ⟨fun _ h => h, fun _ _ h => h⟩
theorem Ext.trans {a b c : MF} (h1 : Ext a b) (h2 : Ext b c) : Ext a c :=
  ⟨fun t h => h2.log t (h1.log t h), fun d k h => h2.valid d k (h1.valid d k h)⟩

theorem Ext.of_eq {a b : MF} (hl : b.log = a.log) (hx : b.x = a.x) (hy : b.y = a.y) : Ext a b :=
  ⟨fun t h => by rw [hl]; exact h, fun d c h => by rw [dim_congr hx hy d]; exact h⟩

theorem ext_setDim (mf : MF) (d : Dim) (ds : DimSt)
    (h : ∀ c ∈ (mf.dim d).valid, c ∈ ds.valid) : Ext mf (mf.setDim d ds) := by
  refine ⟨fun t ht => by rw [setDim_log]; exact ht, fun d' c hc => ?_⟩
  by_cases hd : d' = d
  · subst hd
    rw [setDim_dim_same]
    exact h c hc
  · rw [setDim_dim_ne _ _ hd]
    exact hc

/-! ### the invariant -/

structure LogOk (mf : MF) : Prop where
  /-- every logged trial: accepted ⇒ no flag, returned; rejected ⇒ a flag was seen or satisfy() did not return -/
  fields : ∀ t ∈ mf.log, (t.accepted = true → t.flagged = false ∧ t.returned = true) ∧
                         (t.accepted = false → t.flagged = true ∨ t.returned = false)
  /-- the constraint of every accepted trial is (still) in valid of its dimension -/
  kept : ∀ t ∈ mf.log, t.accepted = true → t.con ∈ (mf.dim t.dim).valid
  /-- a mark `false` is backed by a rejected logged trial of that (cc, sub) -/
  dropped : ∀ m ∈ mf.marks, m.2.2 = false →
    ∃ t ∈ mf.log, t.cc = m.1 ∧ t.sub = m.2.1 ∧ t.accepted = false

/-- a mark `true` is backed by an accepted logged trial of that (cc, sub), or its compound constraint
    is one of `L` (the combined ones) -/
def MarksTrue (L : List Nat) (mf : MF) : Prop :=
  ∀ m ∈ mf.marks, m.2.2 = true →
    (∃ t ∈ mf.log, t.cc = m.1 ∧ t.sub = m.2.1 ∧ t.accepted = true) ∨ m.1 ∈ L

structure Inv (L : List Nat) (mf : MF) : Prop where
  ok : LogOk mf
  marksTrue : MarksTrue L mf

theorem MarksTrue.mono {L L' : List Nat} {mf : MF} (h : MarksTrue L mf) (hL : ∀ c ∈ L, c ∈ L') :
    MarksTrue L' mf := fun m hm ht =>
  match h m hm ht with
  | .inl e => .inl e
  | .inr e => .inr (hL _ e)

theorem Inv.mono {L L' : List Nat} {mf : MF} (h : Inv L mf) (hL : ∀ c ∈ L, c ∈ L') : Inv L' mf :=
  ⟨h.ok, h.marksTrue.mono hL⟩

/-- nothing but `log`-irrelevant fields changed, marks unchanged, `valid` grew -/
theorem Inv.of_ext {L : List Nat} {a b : MF} (h : Inv L a) (he : Ext a b) (hl : b.log = a.log)
    (hm : b.marks = a.marks) : Inv L b := by
  refine ⟨⟨fun t ht => ?_, fun t ht hacc => ?_, fun m hm' hf => ?_⟩, fun m hm' htr => ?_⟩
  · rw [hl] at ht
    exact h.ok.fields t ht
  · rw [hl] at ht
    exact he.valid _ _ (h.ok.kept t ht hacc)
  · rw [hm] at hm'
    rw [hl]
    exact h.ok.dropped m hm' hf
  · rw [hm] at hm'
    rw [hl]
    exact h.marksTrue m hm' htr

theorem Inv.of_eq {L : List Nat} {a b : MF} (h : Inv L a) (hl : b.log = a.log)
    (hm : b.marks = a.marks) (hx : b.x = a.x) (hy : b.y = a.y) : Inv L b :=
  h.of_ext (Ext.of_eq hl hx hy) hl hm

/-- one more mark, backed as required -/
theorem Inv.push_mark {L : List Nat} {a b : MF} (h : Inv L a) (m0 : Nat × Nat × Bool)
    (hl : b.log = a.log) (hm : b.marks = a.marks.push m0) (hx : b.x = a.x) (hy : b.y = a.y)
    (hf : m0.2.2 = false → ∃ t ∈ a.log, t.cc = m0.1 ∧ t.sub = m0.2.1 ∧ t.accepted = false)
    (ht : m0.2.2 = true →
      (∃ t ∈ a.log, t.cc = m0.1 ∧ t.sub = m0.2.1 ∧ t.accepted = true) ∨ m0.1 ∈ L) : Inv L b := by
  refine ⟨⟨fun t ht => ?_, fun t ht hacc => ?_, fun m hm' hf' => ?_⟩, fun m hm' htr => ?_⟩
  · rw [hl] at ht
    exact h.ok.fields t ht
  · rw [hl] at ht
    rw [dim_congr hx hy]
    exact h.ok.kept t ht hacc
  · rw [hm, Array.mem_push] at hm'
    rw [hl]
    cases hm' with
    | inl hm' => exact h.ok.dropped m hm' hf'
    | inr hm' => subst hm'; exact hf hf'
  · rw [hm, Array.mem_push] at hm'
    rw [hl]
    cases hm' with
    | inl hm' => exact h.marksTrue m hm' htr
    | inr hm' => subst hm'; exact ht htr

/-! ### `MF.trial` -/

/-- the record `MF.trial` appends to the log -/
def newTrial (mf : MF) (cc sub k : Nat) (a : Alt) : Trial :=
  let o := (mf.dim a.dim).tryCon mf.n a.con (cc, sub)
  { cc := cc, sub := sub, alt := k, dim := a.dim, con := a.con, returned := o.returned,
    flagged := o.flagged, accepted := o.accepted, flaggedOwners := o.flaggedOwners }

theorem newTrial_accepted (mf : MF) (cc sub k : Nat) (a : Alt) :
    (newTrial mf cc sub k a).accepted = ((mf.dim a.dim).tryCon mf.n a.con (cc, sub)).accepted := by
  simp only [newTrial]
theorem newTrial_flagged (mf : MF) (cc sub k : Nat) (a : Alt) :
    (newTrial mf cc sub k a).flagged = ((mf.dim a.dim).tryCon mf.n a.con (cc, sub)).flagged := by
  simp only [newTrial]
theorem newTrial_returned (mf : MF) (cc sub k : Nat) (a : Alt) :
    (newTrial mf cc sub k a).returned = ((mf.dim a.dim).tryCon mf.n a.con (cc, sub)).returned := by
  simp only [newTrial]

theorem trial_log (mf : MF) (cc sub k : Nat) (a : Alt) :
    (mf.trial cc sub k a).1.log = mf.log.push (newTrial mf cc sub k a) := by
  unfold MF.trial newTrial
  simp only [setDim_log]

theorem trial_marks (mf : MF) (cc sub k : Nat) (a : Alt) :
    (mf.trial cc sub k a).1.marks = mf.marks := by
  unfold MF.trial
  simp only [setDim_marks]

theorem trial_dim (mf : MF) (cc sub k : Nat) (a : Alt) (d : Dim) :
    (mf.trial cc sub k a).1.dim d =
      (mf.setDim a.dim ((mf.dim a.dim).tryCon mf.n a.con (cc, sub)).ds).dim d := by
  cases d <;> rfl

theorem trial_snd (mf : MF) (cc sub k : Nat) (a : Alt) :
    (mf.trial cc sub k a).2 = (newTrial mf cc sub k a).accepted := rfl

theorem trial_ext (mf : MF) (cc sub k : Nat) (a : Alt) : Ext mf (mf.trial cc sub k a).1 := by
  refine ⟨fun t ht => ?_, fun d c hc => ?_⟩
  · rw [trial_log, Array.mem_push]
    exact .inl ht
  · rw [trial_dim]
    refine (ext_setDim mf a.dim _ fun c hc => ?_).valid d c hc
    rw [tryCon_valid]
    split
    · rw [Array.mem_push]; exact .inl hc
    · exact hc

theorem newTrial_mem (mf : MF) (cc sub k : Nat) (a : Alt) :
    newTrial mf cc sub k a ∈ (mf.trial cc sub k a).1.log := by
  rw [trial_log, Array.mem_push]
  exact .inr rfl

theorem trial_inv {L : List Nat} {mf : MF} (h : Inv L mf) (cc sub k : Nat) (a : Alt) :
    Inv L (mf.trial cc sub k a).1 := by
  have he := trial_ext mf cc sub k a
  refine ⟨⟨fun t ht => ?_, fun t ht hacc => ?_, fun m hm hf => ?_⟩, fun m hm htr => ?_⟩
  · rw [trial_log, Array.mem_push] at ht
    cases ht with
    | inl ht => exact h.ok.fields t ht
    | inr ht =>
      subst ht
      have hf := tryCon_fields mf.n (mf.dim a.dim) a.con (cc, sub)
      rw [newTrial_accepted, newTrial_flagged, newTrial_returned]
      exact ⟨hf.1, hf.2.1⟩
  · rw [trial_log, Array.mem_push] at ht
    cases ht with
    | inl ht => exact he.valid _ _ (h.ok.kept t ht hacc)
    | inr ht =>
      subst ht
      show a.con ∈ ((mf.trial cc sub k a).1.dim a.dim).valid
      rw [trial_dim, setDim_dim_same, tryCon_valid]
      have hacc' : ((mf.dim a.dim).tryCon mf.n a.con (cc, sub)).accepted = true := by
        rw [← newTrial_accepted mf cc sub k a]; exact hacc
      rw [hacc', if_pos rfl, Array.mem_push]
      exact .inr rfl
  · rw [trial_marks] at hm
    obtain ⟨t, ht, h1⟩ := h.ok.dropped m hm hf
    exact ⟨t, he.log t ht, h1⟩
  · rw [trial_marks] at hm
    cases h.marksTrue m hm htr with
    | inl e =>
      obtain ⟨t, ht, h1⟩ := e
      exact .inl ⟨t, he.log t ht, h1⟩
    | inr e => exact .inr e

/-! ### `MF.tryAlts` -/

theorem tryAlts_ext (cc sub : Nat) (alts : List Alt) :
    ∀ (mf : MF) (k : Nat), Ext mf (mf.tryAlts cc sub k alts).1 := by
  induction alts with
  | nil => intro mf k; exact Ext.refl _
  | cons a rest ih =>
    intro mf k
    unfold MF.tryAlts
    simp only []
    split
    · exact trial_ext mf cc sub k a
    · exact (trial_ext mf cc sub k a).trans (ih _ _)

theorem tryAlts_marks (cc sub : Nat) (alts : List Alt) :
    ∀ (mf : MF) (k : Nat), (mf.tryAlts cc sub k alts).1.marks = mf.marks := by
  induction alts with
  | nil => intro mf k; rfl
  | cons a rest ih =>
    intro mf k
    unfold MF.tryAlts
    simp only []
    split
    · exact trial_marks mf cc sub k a
    · rw [ih, trial_marks]

theorem tryAlts_inv {L : List Nat} (cc sub : Nat) (alts : List Alt) :
    ∀ (mf : MF) (k : Nat), Inv L mf → Inv L (mf.tryAlts cc sub k alts).1 := by
  induction alts with
  | nil => intro mf k h; exact h
  | cons a rest ih =>
    intro mf k h
    unfold MF.tryAlts
    simp only []
    split
    · exact trial_inv h cc sub k a
    · exact ih _ _ (trial_inv h cc sub k a)

/-- the loop was left with `subConstraintSatisfiable = true`: the LAST logged trial is an accepted one
    of this (cc, sub) -/
theorem tryAlts_true (cc sub : Nat) (alts : List Alt) :
    ∀ (mf : MF) (k : Nat), (mf.tryAlts cc sub k alts).2 = true →
      ∃ t, (mf.tryAlts cc sub k alts).1.log.back? = some t ∧ t ∈ (mf.tryAlts cc sub k alts).1.log ∧
        t.cc = cc ∧ t.sub = sub ∧ t.accepted = true ∧
        ∃ j, ∃ hj : j < alts.length, t.alt = k + j ∧ t.con = alts[j].con ∧ t.dim = alts[j].dim := by
  induction alts with
  | nil => intro mf k h; exact absurd h (by simp [MF.tryAlts])
  | cons a rest ih =>
    intro mf k
    unfold MF.tryAlts
    simp only []
    split
    · rename_i hacc
      intro _
      refine ⟨newTrial mf cc sub k a, ?_, newTrial_mem mf cc sub k a, rfl, rfl, hacc,
        0, Nat.zero_lt_succ _, rfl, rfl, rfl⟩
      rw [trial_log, Array.back?_push]
    · intro h
      obtain ⟨t, hb, ht, h1, h2, h3, j, hj, h4, h5, h6⟩ := ih _ _ h
      refine ⟨t, hb, ht, h1, h2, h3, j + 1, Nat.succ_lt_succ hj, ?_, ?_, ?_⟩
      · rw [h4]; omega
      · rw [h5]; rfl
      · rw [h6]; rfl

/-- the loop was left with `subConstraintSatisfiable = false`: EVERY alternative was tried and rejected -/
theorem tryAlts_false (cc sub : Nat) (alts : List Alt) :
    ∀ (mf : MF) (k : Nat), (mf.tryAlts cc sub k alts).2 = false →
      ∀ (j : Nat) (hj : j < alts.length), ∃ t ∈ (mf.tryAlts cc sub k alts).1.log,
        t.cc = cc ∧ t.sub = sub ∧ t.alt = k + j ∧ t.con = alts[j].con ∧ t.dim = alts[j].dim ∧
        t.accepted = false := by
  induction alts with
  | nil => intro mf k _ j hj; exact absurd hj (Nat.not_lt_zero _)
  | cons a rest ih =>
    intro mf k
    unfold MF.tryAlts
    simp only []
    split
    · intro h; exact absurd h (by simp)
    · rename_i hacc
      intro h j hj
      cases j with
      | zero =>
        refine ⟨newTrial mf cc sub k a, ?_, rfl, rfl, rfl, rfl, rfl, ?_⟩
        · exact (tryAlts_ext cc sub rest _ _).log _ (newTrial_mem mf cc sub k a)
        · rw [trial_snd] at hacc
          simpa using hacc
      | succ j =>
        obtain ⟨t, ht, h1, h2, h3, h4, h5, h6⟩ := ih _ _ h j (Nat.lt_of_succ_lt_succ hj)
        refine ⟨t, ht, h1, h2, ?_, ?_, ?_, h6⟩
        · rw [h3]; omega
        · rw [h4]; rfl
        · rw [h5]; rfl

/-! ### `MF.runSub`, `MF.runSubs` -/

theorem runSub_nil (mf : MF) (cc sub : Nat) : mf.runSub cc sub [] = { mf with stuck := true } := rfl

theorem runSub_cons (mf : MF) (cc sub : Nat) (a : Alt) (rest : List Alt) :
    mf.runSub cc sub (a :: rest) =
      { (mf.tryAlts cc sub 0 (a :: rest)).1 with
        marks := (mf.tryAlts cc sub 0 (a :: rest)).1.marks.push
          (cc, sub, (mf.tryAlts cc sub 0 (a :: rest)).2) } := rfl

theorem runSub_ext (mf : MF) (cc sub : Nat) (alts : List Alt) : Ext mf (mf.runSub cc sub alts) := by
  cases alts with
  | nil => exact Ext.of_eq rfl rfl rfl
  | cons a rest =>
    rw [runSub_cons]
    refine (tryAlts_ext cc sub (a :: rest) mf 0).trans ?_
    generalize mf.tryAlts cc sub 0 (a :: rest) = r
    exact Ext.of_eq rfl rfl rfl

theorem runSub_inv {L : List Nat} {mf : MF} (h : Inv L mf) (cc sub : Nat) (alts : List Alt) :
    Inv L (mf.runSub cc sub alts) := by
  cases alts with
  | nil => exact h.of_eq rfl rfl rfl rfl
  | cons a rest =>
    rw [runSub_cons]
    have hi := tryAlts_inv cc sub (a :: rest) mf 0 h
    have hf := tryAlts_false cc sub (a :: rest) mf 0
    have ht := tryAlts_true cc sub (a :: rest) mf 0
    generalize mf.tryAlts cc sub 0 (a :: rest) = r at hi hf ht ⊢
    refine hi.push_mark (cc, sub, r.2) rfl rfl rfl rfl (fun hf' => ?_) (fun ht' => ?_)
    · obtain ⟨t, ht, h1, h2, _, _, _, h6⟩ := hf hf' 0 (Nat.zero_lt_succ _)
      exact ⟨t, ht, h1, h2, h6⟩
    · obtain ⟨t, _, ht, h1, h2, h3, _⟩ := ht ht'
      exact .inl ⟨t, ht, h1, h2, h3⟩

theorem runSubs_ext (cc : Nat) (subs : List (List Alt)) :
    ∀ (mf : MF) (i : Nat), Ext mf (mf.runSubs cc i subs) := by
  induction subs with
  | nil => intro mf i; exact Ext.refl _
  | cons alts rest ih => intro mf i; exact (runSub_ext mf cc i alts).trans (ih _ _)

theorem runSubs_inv {L : List Nat} (cc : Nat) (subs : List (List Alt)) :
    ∀ (mf : MF) (i : Nat), Inv L mf → Inv L (mf.runSubs cc i subs) := by
  induction subs with
  | nil => intro mf i h; exact h
  | cons alts rest ih => intro mf i h; exact ih _ _ (runSub_inv h cc i alts)

/-! ### the combined branch -/

theorem combinePush_nil (mf : MF) (cc i : Nat) : mf.combinePush cc i [] = mf := rfl

theorem combinePush_single (mf : MF) (cc i : Nat) (a : Alt) (rest : List (List Alt)) :
    mf.combinePush cc i ([a] :: rest) =
      ({ mf.setDim a.dim ((mf.dim a.dim).pushCon a.con (cc, i)) with
         marks := (mf.setDim a.dim ((mf.dim a.dim).pushCon a.con (cc, i))).marks.push (cc, i, true) }
        ).combinePush cc (i + 1) rest := rfl

theorem combinePush_empty (mf : MF) (cc i : Nat) (rest : List (List Alt)) :
    mf.combinePush cc i ([] :: rest) = { mf with stuck := true } := rfl

theorem combinePush_many (mf : MF) (cc i : Nat) (a b : Alt) (as : List Alt) (rest : List (List Alt)) :
    mf.combinePush cc i ((a :: b :: as) :: rest) = { mf with stuck := true } := rfl

theorem pushCon_ext (mf : MF) (d : Dim) (c : Con) (own : Nat × Nat) :
    Ext mf (mf.setDim d ((mf.dim d).pushCon c own)) := by
  refine ext_setDim mf d _ fun c' hc => ?_
  show c' ∈ ((mf.dim d).valid.push c)
  rw [Array.mem_push]
  exact .inl hc

theorem combinePush_ext (cc : Nat) (subs : List (List Alt)) :
    ∀ (mf : MF) (i : Nat), Ext mf (mf.combinePush cc i subs) := by
  induction subs with
  | nil => intro mf i; exact Ext.refl _
  | cons alts rest ih =>
    intro mf i
    cases alts with
    | nil => exact Ext.of_eq rfl rfl rfl
    | cons a as =>
      cases as with
      | nil =>
        rw [combinePush_single]
        refine Ext.trans ((pushCon_ext mf a.dim a.con (cc, i)).trans ?_) (ih _ _)
        exact Ext.of_eq rfl rfl rfl
      | cons b as => exact Ext.of_eq rfl rfl rfl

/-- the marks of the combined branch are `true` without a trial: they are covered by `cc ∈ L` -/
theorem combinePush_inv {L : List Nat} (cc : Nat) (hcc : cc ∈ L) (subs : List (List Alt)) :
    ∀ (mf : MF) (i : Nat), Inv L mf → Inv L (mf.combinePush cc i subs) := by
  induction subs with
  | nil => intro mf i h; exact h
  | cons alts rest ih =>
    intro mf i h
    cases alts with
    | nil => exact h.of_eq rfl rfl rfl rfl
    | cons a as =>
      cases as with
      | nil =>
        rw [combinePush_single]
        refine ih _ _ ?_
        have h1 : Inv L (mf.setDim a.dim ((mf.dim a.dim).pushCon a.con (cc, i))) :=
          h.of_ext (pushCon_ext mf a.dim a.con (cc, i)) (setDim_log _ _ _) (setDim_marks _ _ _)
        exact h1.push_mark (cc, i, true) rfl rfl rfl rfl (fun hf => absurd hf (by simp))
          (fun _ => .inr hcc)
      | cons b as => exact h.of_eq rfl rfl rfl rfl

theorem combineSolve_spec (mf : MF) (cc : Nat) (d : Dim) :
    Ext mf (mf.combineSolve cc d) ∧ (mf.combineSolve cc d).log = mf.log ∧
      (mf.combineSolve cc d).marks = mf.marks := by
  unfold MF.combineSolve
  simp only []
  split
  · exact ⟨Ext.refl _, rfl, rfl⟩
  · split
    · refine ⟨?_, ?_, ?_⟩
      · have hd : ∀ (m : Rat) (f : Array (Nat × Dim × List (Nat × Nat))),
            ({ mf with margin := m, combineFlags := f } : MF).dim d = mf.dim d := by
          intro m f; cases d <;> rfl
        refine Ext.trans ?_ (ext_setDim _ d _ fun c hc => ?_)
        · exact Ext.of_eq rfl rfl rfl
        · rw [hd] at hc
          exact hc
      · rw [setDim_log]
      · rw [setDim_marks]
    · exact ⟨Ext.of_eq rfl rfl rfl, rfl, rfl⟩
    · exact ⟨Ext.of_eq rfl rfl rfl, rfl, rfl⟩

theorem combineSolve_ext (mf : MF) (cc : Nat) (d : Dim) : Ext mf (mf.combineSolve cc d) :=
  (combineSolve_spec mf cc d).1

theorem combineSolve_inv {L : List Nat} {mf : MF} (h : Inv L mf) (cc : Nat) (d : Dim) :
    Inv L (mf.combineSolve cc d) :=
  h.of_ext (combineSolve_spec mf cc d).1 (combineSolve_spec mf cc d).2.1 (combineSolve_spec mf cc d).2.2

/-! ### `MF.runItem`, `MF.run`, `makeFeasible` -/

theorem runItem_ext (mf : MF) (it : Item) : Ext mf (mf.runItem it) := by
  unfold MF.runItem
  split
  · exact Ext.refl _
  · split
    · exact ((combinePush_ext it.cc it.subs mf 0).trans (combineSolve_ext _ _ _)).trans
        (combineSolve_ext _ _ _)
    · exact runSubs_ext it.cc it.subs mf 0

theorem runItem_inv {L : List Nat} {mf : MF} (h : Inv L mf) (it : Item)
    (hit : it.combine = true → it.cc ∈ L) : Inv L (mf.runItem it) := by
  unfold MF.runItem
  split
  · exact h
  · split
    · rename_i hc
      exact combineSolve_inv (combineSolve_inv (combinePush_inv it.cc (hit hc) it.subs mf 0 h) _ _) _ _
    · exact runSubs_inv it.cc it.subs mf 0 h

theorem run_ext (items : List Item) : ∀ mf : MF, Ext mf (mf.run items) := by
  induction items with
  | nil => intro mf; exact Ext.refl _
  | cons it rest ih =>
    intro mf
    exact (runItem_ext mf it).trans (ih (mf.runItem it))

theorem run_inv {L : List Nat} (items : List Item) :
    ∀ mf : MF, Inv L mf → (∀ it ∈ items, it.combine = true → it.cc ∈ L) → Inv L (mf.run items) := by
  induction items with
  | nil => intro mf h _; exact h
  | cons it rest ih =>
    intro mf h hL
    exact ih (mf.runItem it) (runItem_inv h it (hL it (List.mem_cons_self ..)))
      (fun it' h' => hL it' (List.mem_cons_of_mem _ h'))

theorem init_inv (L : List Nat) (n : Nat) (vx vy : Array (Rat × Rat × Rat)) :
    Inv L (MF.init n vx vy) := by
  refine ⟨⟨fun t ht => ?_, fun t ht => ?_, fun m hm => ?_⟩, fun m hm => ?_⟩
  · exact absurd ht (Array.not_mem_empty t)
  · exact absurd ht (Array.not_mem_empty t)
  · exact absurd hm (Array.not_mem_empty m)
  · exact absurd hm (Array.not_mem_empty m)

/-- the compound constraints that go through the combined (trial-less) branch -/
def combinedCCs (items : List Item) : List Nat := (items.filter (·.combine)).map (·.cc)

theorem mem_combinedCCs (items : List Item) (it : Item) (h : it ∈ items) (hc : it.combine = true) :
    it.cc ∈ combinedCCs items :=
  List.mem_map.2 ⟨it, List.mem_filter.2 ⟨h, hc⟩, rfl⟩

theorem makeFeasible_inv (n : Nat) (vx vy : Array (Rat × Rat × Rat)) (items : List Item) :
    Inv (combinedCCs items) (makeFeasible n vx vy items) :=
  run_inv items _ (init_inv _ n vx vy) (mem_combinedCCs items)

theorem makeFeasible_logOk (n : Nat) (vx vy : Array (Rat × Rat × Rat)) (items : List Item) :
    LogOk (makeFeasible n vx vy items) := (makeFeasible_inv n vx vy items).ok

theorem makeFeasible_marks_true (n : Nat) (vx vy : Array (Rat × Rat × Rat)) (items : List Item) :
    ∀ m ∈ (makeFeasible n vx vy items).marks, m.2.2 = true →
      (∃ t ∈ (makeFeasible n vx vy items).log, t.cc = m.1 ∧ t.sub = m.2.1 ∧ t.accepted = true) ∨
        m.1 ∈ combinedCCs items := (makeFeasible_inv n vx vy items).marksTrue

/-- the observable `MF.dropped`: every dropped (cc, sub) has a rejected logged trial -/
theorem makeFeasible_dropped (n : Nat) (vx vy : Array (Rat × Rat × Rat)) (items : List Item) :
    ∀ p ∈ (makeFeasible n vx vy items).dropped,
      ∃ t ∈ (makeFeasible n vx vy items).log, t.cc = p.1 ∧ t.sub = p.2 ∧ t.accepted = false := by
  intro p hp
  unfold MF.dropped at hp
  obtain ⟨m, hm, rfl⟩ := List.mem_map.1 hp
  obtain ⟨hm1, hm2⟩ := List.mem_filter.1 hm
  exact (makeFeasible_logOk n vx vy items).dropped m (Array.mem_toList_iff.1 hm1) (by simpa using hm2)

end AdaptaVerif.Lemmas.MakeFeasibleLog
