/-
Helper lemmas for property C02 (`Spec/Qp.lean`): finite sums, the exchange of the
variable-sum and the constraint-sum (the heart of KKT sufficiency), convexity identities.
-/
import AdaptaVerif.Spec.Qp
import Mathlib.Tactic.Linarith
import Mathlib.Tactic.Ring
import Mathlib.Tactic.FieldSimp
import Mathlib.Tactic.Positivity
import Mathlib.Algebra.Order.Field.Rat
import Mathlib.Algebra.BigOperators.Group.Finset.Basic

namespace AdaptaVerif.Lemmas.Qp
open AdaptaVerif.Spec.Qp

/-! ### `sumTo` -/

theorem sumTo_congr {n : Nat} {f g : Nat → Rat} (h : ∀ i, i < n → f i = g i) :
    sumTo n f = sumTo n g := by
  induction n with
  | zero => rfl
  | succ n ih =>
    simp only [sumTo]
    rw [ih (fun i hi => h i (Nat.lt_succ_of_lt hi)), h n (Nat.lt_succ_self n)]

theorem sumTo_add (n : Nat) (f g : Nat → Rat) :
    sumTo n (fun i => f i + g i) = sumTo n f + sumTo n g := by
  induction n with
  | zero => simp [sumTo]
  | succ n ih => simp only [sumTo, ih]; ring

theorem sumTo_sub (n : Nat) (f g : Nat → Rat) :
    sumTo n (fun i => f i - g i) = sumTo n f - sumTo n g := by
  induction n with
  | zero => simp [sumTo]
  | succ n ih => simp only [sumTo, ih]; ring

theorem sumTo_mul_left (n : Nat) (c : Rat) (f : Nat → Rat) :
    sumTo n (fun i => c * f i) = c * sumTo n f := by
  induction n with
  | zero => simp [sumTo]
  | succ n ih => simp only [sumTo, ih]; ring

theorem sumTo_zero (n : Nat) : sumTo n (fun _ => 0) = 0 := by
  induction n with
  | zero => rfl
  | succ n ih => simp only [sumTo, ih]; ring

theorem sumTo_nonneg {n : Nat} {f : Nat → Rat} (h : ∀ i, i < n → 0 ≤ f i) : 0 ≤ sumTo n f := by
  induction n with
  | zero => simp [sumTo]
  | succ n ih =>
    simp only [sumTo]
    have := ih (fun i hi => h i (Nat.lt_succ_of_lt hi))
    have := h n (Nat.lt_succ_self n)
    linarith

theorem sumTo_le {n : Nat} {f g : Nat → Rat} (h : ∀ i, i < n → f i ≤ g i) :
    sumTo n f ≤ sumTo n g := by
  induction n with
  | zero => simp [sumTo]
  | succ n ih =>
    simp only [sumTo]
    have := ih (fun i hi => h i (Nat.lt_succ_of_lt hi))
    have := h n (Nat.lt_succ_self n)
    linarith

/-- a sum of non-negative terms that is `≤ 0` has all terms zero -/
theorem sumTo_terms_zero {n : Nat} {f : Nat → Rat} (h : ∀ i, i < n → 0 ≤ f i)
    (hs : sumTo n f ≤ 0) : ∀ i, i < n → f i = 0 := by
  induction n with
  | zero => intro i hi; exact absurd hi (Nat.not_lt_zero i)
  | succ n ih =>
    simp only [sumTo] at hs
    have h1 := sumTo_nonneg (fun i hi => h i (Nat.lt_succ_of_lt hi))
    have h2 := h n (Nat.lt_succ_self n)
    intro i hi
    rcases Nat.lt_succ_iff_lt_or_eq.mp hi with hlt | heq
    · exact ih (fun i hi => h i (Nat.lt_succ_of_lt hi)) (by linarith) i hlt
    · subst heq; linarith

/-- picking out one index -/
theorem sumTo_ite (n k : Nat) (g : Nat → Rat) :
    sumTo n (fun i => if k = i then g i else 0) = if k < n then g k else 0 := by
  induction n with
  | zero => simp [sumTo]
  | succ n ih =>
    simp only [sumTo, ih]
    by_cases h1 : k < n
    · have h2 : k ≠ n := Nat.ne_of_lt h1
      have h3 : k < n + 1 := Nat.lt_succ_of_lt h1
      simp [h1, h2, h3]
    · by_cases h2 : k = n
      · subst h2; simp
      · have h3 : ¬ k < n + 1 := fun h => by omega
        simp [h1, h2, h3]

theorem sumTo_eq_finset (n : Nat) (f : Nat → Rat) : sumTo n f = ∑ i ∈ Finset.range n, f i := by
  induction n with
  | zero => simp [sumTo]
  | succ n ih => rw [Finset.sum_range_succ, ← ih]; rfl

/-- reindexing a sum along a permutation of `{0,…,n-1}` -/
theorem sumTo_perm {n : Nat} {σ τ : Nat → Nat} (hp : IsPerm n σ τ) (f : Nat → Rat) :
    sumTo n (fun i => f (σ i)) = sumTo n f := by
  rw [sumTo_eq_finset, sumTo_eq_finset]
  refine Finset.sum_nbij' σ τ ?_ ?_ ?_ ?_ ?_
  · intro i hi; exact Finset.mem_range.mpr (hp.1 i (Finset.mem_range.mp hi)).1
  · intro j hj; exact Finset.mem_range.mpr (hp.2 j (Finset.mem_range.mp hj)).1
  · intro i hi; exact (hp.1 i (Finset.mem_range.mp hi)).2
  · intro j hj; exact (hp.2 j (Finset.mem_range.mp hj)).2
  · intro i _; rfl

theorem IsPerm.symm {n : Nat} {σ τ : Nat → Nat} (hp : IsPerm n σ τ) : IsPerm n τ σ :=
  ⟨hp.2, hp.1⟩

/-! ### `listSum` -/

theorem listSum_le {α : Type} {f g : α → Rat} {l : List α} (h : ∀ a ∈ l, f a ≤ g a) :
    listSum f l ≤ listSum g l := by
  induction l with
  | nil => simp [listSum]
  | cons a as ih =>
    simp only [listSum]
    have := h a (List.mem_cons_self ..)
    have := ih (fun b hb => h b (List.mem_cons_of_mem _ hb))
    linarith

theorem listSum_mul_left {α : Type} (c : Rat) (f : α → Rat) (l : List α) :
    listSum (fun a => c * f a) l = c * listSum f l := by
  induction l with
  | nil => simp [listSum]
  | cons a as ih => simp only [listSum, ih]; ring

theorem listSum_zip_fst {α β : Type} (g : α → Rat) :
    ∀ (l1 : List α) (l2 : List β), l2.length = l1.length →
      listSum (fun p : α × β => g p.1) (l1.zip l2) = listSum g l1 := by
  intro l1
  induction l1 with
  | nil => intro l2 _; simp [listSum]
  | cons a as ih =>
    intro l2 hl
    cases l2 with
    | nil => simp at hl
    | cons b bs =>
      simp only [List.zip_cons_cons, listSum]
      rw [ih bs (by simpa using hl)]

/-! ### exchange of summation: `Σ_i (Σ_c λ_c ∂slack_c/∂x_i) v_i = Σ_c λ_c (s_r v_r - s_l v_l)` -/

theorem sum_conGrad (s : Nat → Rat) (n : Nat) (v : Nat → Rat) :
    ∀ (cl : List (Con × Rat)), (∀ p ∈ cl, p.1.l < n ∧ p.1.r < n) →
      sumTo n (fun i => conGrad s cl i * v i) =
        listSum (fun p => p.2 * (s p.1.r * v p.1.r - s p.1.l * v p.1.l)) cl := by
  intro cl
  induction cl with
  | nil => intro _; simp [conGrad, listSum, sumTo_zero]
  | cons p rest ih =>
    intro hb
    obtain ⟨c, lam⟩ := p
    have hc := hb (c, lam) (List.mem_cons_self ..)
    have hrest := ih (fun q hq => hb q (List.mem_cons_of_mem _ hq))
    have e : ∀ i, i < n → conGrad s ((c, lam) :: rest) i * v i =
        ((if c.r = i then lam * s i * v i else 0) - (if c.l = i then lam * s i * v i else 0))
          + conGrad s rest i * v i := by
      intro i _
      simp only [conGrad]
      split_ifs <;> ring
    rw [sumTo_congr e, sumTo_add, sumTo_sub, sumTo_ite, sumTo_ite, hrest]
    simp only [listSum, hc.1, hc.2, if_true]
    ring

/-! ### the objective -/

/-- second-order expansion of the (quadratic) cost around `x` -/
theorem cost_expand (P : Problem) (x y : Nat → Rat) :
    cost P y = cost P x
      + sumTo P.n (fun i => (2 * P.w i * (x i - P.d i)) * (y i - x i))
      + sumTo P.n (fun i => P.w i * ((y i - x i) * (y i - x i))) := by
  unfold cost
  rw [← sumTo_add, ← sumTo_add]
  apply sumTo_congr
  intro i _
  ring

theorem slack_diff (s : Nat → Rat) (c : Con) (x y : Nat → Rat) :
    slack s c y - slack s c x = s c.r * (y c.r - x c.r) - s c.l * (y c.l - x c.l) := by
  unfold slack; ring

/-- If stationarity holds at `x` for the multiplier list `cl`, the cost increase to any `y`
    is at least `Σ_c λ_c (slack_c y - slack_c x)`. -/
theorem cost_lower (P : Problem) (cl : List (Con × Rat)) (x y : Nat → Rat)
    (hw : ∀ i, i < P.n → 0 ≤ P.w i)
    (hb : ∀ p ∈ cl, p.1.l < P.n ∧ p.1.r < P.n)
    (hstat : ∀ i, i < P.n → 2 * P.w i * (x i - P.d i) = conGrad P.s cl i) :
    cost P x + listSum (fun p => p.2 * (slack P.s p.1 y - slack P.s p.1 x)) cl ≤ cost P y := by
  rw [cost_expand P x y]
  have h1 : sumTo P.n (fun i => (2 * P.w i * (x i - P.d i)) * (y i - x i)) =
      listSum (fun p => p.2 * (slack P.s p.1 y - slack P.s p.1 x)) cl := by
    rw [sumTo_congr (g := fun i => conGrad P.s cl i * (y i - x i))
      (fun i hi => by rw [hstat i hi])]
    rw [sum_conGrad P.s P.n (fun i => y i - x i) cl hb]
    congr 1
    funext p
    rw [slack_diff]
  have h2 : 0 ≤ sumTo P.n (fun i => P.w i * ((y i - x i) * (y i - x i))) :=
    sumTo_nonneg (fun i hi => mul_nonneg (hw i hi) (mul_self_nonneg _))
  linarith

/-- exact form of `cost_lower`: under stationarity at `x`,
    `cost y = cost x + Σ_c λ_c (slack_c y - slack_c x) + Σ_i w_i (y_i - x_i)^2`. -/
theorem cost_exact (P : Problem) (cl : List (Con × Rat)) (x y : Nat → Rat)
    (hb : ∀ p ∈ cl, p.1.l < P.n ∧ p.1.r < P.n)
    (hstat : ∀ i, i < P.n → 2 * P.w i * (x i - P.d i) = conGrad P.s cl i) :
    cost P y = cost P x + listSum (fun p => p.2 * (slack P.s p.1 y - slack P.s p.1 x)) cl
      + sumTo P.n (fun i => P.w i * ((y i - x i) * (y i - x i))) := by
  rw [cost_expand P x y]
  have h1 : sumTo P.n (fun i => (2 * P.w i * (x i - P.d i)) * (y i - x i)) =
      listSum (fun p => p.2 * (slack P.s p.1 y - slack P.s p.1 x)) cl := by
    rw [sumTo_congr (g := fun i => conGrad P.s cl i * (y i - x i))
      (fun i hi => by rw [hstat i hi])]
    rw [sum_conGrad P.s P.n (fun i => y i - x i) cl hb]
    congr 1
    funext p
    rw [slack_diff]
  rw [h1]

/-- cost at the midpoint: strict convexity identity -/
theorem cost_midpoint (P : Problem) (x y : Nat → Rat) :
    cost P (fun i => (x i + y i) / 2) =
      (cost P x + cost P y) / 2
        - sumTo P.n (fun i => P.w i * ((x i - y i) * (x i - y i))) / 4 := by
  unfold cost
  have e : ∀ i, i < P.n →
      P.w i * (((x i + y i) / 2 - P.d i) * ((x i + y i) / 2 - P.d i)) =
        (1/2 : Rat) * (P.w i * ((x i - P.d i) * (x i - P.d i)))
          + (1/2 : Rat) * (P.w i * ((y i - P.d i) * (y i - P.d i)))
          - (1/4 : Rat) * (P.w i * ((x i - y i) * (x i - y i))) := by
    intro i _; ring
  rw [sumTo_congr e, sumTo_sub, sumTo_add, sumTo_mul_left, sumTo_mul_left, sumTo_mul_left]
  ring

theorem slack_midpoint (s : Nat → Rat) (c : Con) (x y : Nat → Rat) :
    slack s c (fun i => (x i + y i) / 2) = (slack s c x + slack s c y) / 2 := by
  unfold slack; ring

theorem feasible_midpoint (P : Problem) (x y : Nat → Rat)
    (hx : Feasible P x) (hy : Feasible P y) : Feasible P (fun i => (x i + y i) / 2) := by
  intro c hc
  have h1 := hx c hc
  have h2 := hy c hc
  unfold Con.Holds at *
  rw [slack_midpoint]
  split
  · next h => simp only [h, if_true] at h1 h2; rw [h1, h2]; norm_num
  · next h => simp only [h] at h1 h2; simp only [Bool.false_eq_true, if_false] at h1 h2; linarith

/-! ### bookkeeping for `zip` -/

theorem zip_bounds (P : Problem) (lam : List Rat)
    (hb : ∀ c ∈ P.cons, c.l < P.n ∧ c.r < P.n) :
    ∀ p ∈ P.cons.zip lam, p.1.l < P.n ∧ p.1.r < P.n := by
  intro p hp
  obtain ⟨c, l⟩ := p
  exact hb c (List.of_mem_zip hp).1

end AdaptaVerif.Lemmas.Qp
