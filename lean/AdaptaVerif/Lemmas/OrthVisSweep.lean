/-
Lemmas about `Model/OrthVis.lean`, part 7 (core Lean only): the event-by-event scan line (`sweepLines`: pass 1
inserts, pass 2 looks, pass 3 removes) holds in pass 2 exactly the rectangles `activeAt` names.
-/
import AdaptaVerif.Model.OrthVis

namespace AdaptaVerif.Lemmas.OrthVis
open AdaptaVerif.Model.OrthVis

theorem mem_opensAt {rects : List Rect} {p : Rat} {i : Nat} :
    i ∈ opensAt rects p ↔ ∃ r, rects[i]? = some r ∧ r.y0 = p := by
  unfold opensAt
  simp only [List.mem_map, List.mem_filter, beq_iff_eq]
  constructor
  · rintro ⟨⟨r, j⟩, ⟨hm, hy⟩, rfl⟩
    exact ⟨r, List.mem_zipIdx_iff_getElem?.mp hm, hy⟩
  · rintro ⟨r, hr, hy⟩
    exact ⟨(r, i), ⟨List.mem_zipIdx_iff_getElem?.mpr hr, hy⟩, rfl⟩

theorem mem_closesAt {rects : List Rect} {p : Rat} {i : Nat} :
    i ∈ closesAt rects p ↔ ∃ r, rects[i]? = some r ∧ r.y1 = p := by
  unfold closesAt
  simp only [List.mem_map, List.mem_filter, beq_iff_eq]
  constructor
  · rintro ⟨⟨r, j⟩, ⟨hm, hy⟩, rfl⟩
    exact ⟨r, List.mem_zipIdx_iff_getElem?.mp hm, hy⟩
  · rintro ⟨r, hr, hy⟩
    exact ⟨(r, i), ⟨List.mem_zipIdx_iff_getElem?.mpr hr, hy⟩, rfl⟩

/-- invariant before the positions `ps` are processed: the scan line holds exactly the rectangles whose Open
    position is already processed (below all of `ps`) and whose Close position is still to come (in `ps`) -/
def SweepInv (rects : List Rect) (ps : List Rat) (line : List Nat) : Prop :=
  ∀ i, i ∈ line ↔ ∃ r, rects[i]? = some r ∧ (∀ q ∈ ps, r.y0 < q) ∧ r.y1 ∈ ps

theorem sweepLines_spec (rects : List Rect) (hwf : ∀ r ∈ rects, r.y0 ≤ r.y1) :
    ∀ (ps : List Rat) (line : List Nat), ps.Pairwise (· < ·) →
      (∀ r ∈ rects, (r.y0 ∈ ps ∨ ∀ q ∈ ps, r.y0 < q) ∧ (r.y1 ∈ ps ∨ ∀ q ∈ ps, r.y1 < q)) →
      SweepInv rects ps line →
      ∀ x ∈ sweepLines rects ps line, ∀ i, i ∈ x.2 ↔ ∃ r, rects[i]? = some r ∧ r.y0 ≤ x.1 ∧ x.1 ≤ r.y1 := by
  intro ps
  induction ps with
  | nil => intro line _ _ _ x hx; simp [sweepLines] at hx
  | cons p rest ih =>
    intro line hsort hall hinv x hx
    obtain ⟨hp, hrest⟩ := List.pairwise_cons.mp hsort
    simp only [sweepLines, List.mem_cons] at hx
    have seen_iff : ∀ i, i ∈ line ++ opensAt rects p ↔ ∃ r, rects[i]? = some r ∧ r.y0 ≤ p ∧ p ≤ r.y1 := by
      intro i
      rw [List.mem_append, hinv i, mem_opensAt]
      constructor
      · rintro (⟨r, hr, h0, h1⟩ | ⟨r, hr, h0⟩)
        · refine ⟨r, hr, by have := h0 p (by simp); grind, ?_⟩
          rcases List.mem_cons.mp h1 with h | h
          · rw [h]; exact Rat.le_refl
          · have := hp _ h; grind
        · exact ⟨r, hr, by rw [h0]; exact Rat.le_refl, by have := hwf r (List.mem_of_getElem? hr); grind⟩
      · rintro ⟨r, hr, h0, h1⟩
        have hmem := List.mem_of_getElem? hr
        obtain ⟨a0, a1⟩ := hall r hmem
        by_cases he : r.y0 = p
        · exact Or.inr ⟨r, hr, he⟩
        · left
          refine ⟨r, hr, ?_, ?_⟩
          · rcases a0 with a | a
            · rcases List.mem_cons.mp a with a | a
              · exact absurd a he
              · have := hp _ a; grind
            · exact a
          · rcases a1 with a | a
            · exact a
            · have := a p (by simp); grind
    rcases hx with rfl | hx
    · exact seen_iff
    · apply ih _ hrest ?_ ?_ x hx
      · intro r hr
        obtain ⟨a0, a1⟩ := hall r hr
        constructor
        · rcases a0 with a | a
          · rcases List.mem_cons.mp a with a | a
            · right; intro q hq; rw [a]; exact hp q hq
            · exact Or.inl a
          · right; intro q hq; exact a q (by simp [hq])
        · rcases a1 with a | a
          · rcases List.mem_cons.mp a with a | a
            · right; intro q hq; rw [a]; exact hp q hq
            · exact Or.inl a
          · right; intro q hq; exact a q (by simp [hq])
      · intro i
        simp only [List.mem_filter, Bool.not_eq_true', List.contains_eq_mem, decide_eq_false_iff_not]
        rw [seen_iff i, mem_closesAt]
        constructor
        · rintro ⟨⟨r, hr, h0, h1⟩, hnc⟩
          have hmem := List.mem_of_getElem? hr
          obtain ⟨a0, a1⟩ := hall r hmem
          have hne : r.y1 ≠ p := fun e => hnc ⟨r, hr, e⟩
          refine ⟨r, hr, ?_, ?_⟩
          · intro q hq; have := hp q hq; grind
          · rcases a1 with a | a
            · rcases List.mem_cons.mp a with a | a
              · exact absurd a hne
              · exact a
            · have := a p (by simp); grind
        · rintro ⟨r, hr, h0, h1⟩
          have hlt : p < r.y1 := hp _ h1
          refine ⟨⟨r, hr, ?_, by grind⟩, ?_⟩
          · have hmem := List.mem_of_getElem? hr
            obtain ⟨a0, _⟩ := hall r hmem
            rcases a0 with a | a
            · rcases List.mem_cons.mp a with a | a
              · rw [a]; exact Rat.le_refl
              · have := h0 _ a; grind
            · have := a p (by simp); grind
          · rintro ⟨r', hr', e⟩
            rw [hr] at hr'
            injection hr' with hr'
            subst hr'
            grind

end AdaptaVerif.Lemmas.OrthVis
