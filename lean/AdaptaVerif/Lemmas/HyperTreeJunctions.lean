/-
C12, junction bookkeeping of the improver model (`m_hyperedge_tree_junctions`, `m_deleted_junctions`,
`m_new_junctions` vs. the junction pointers carried by tree nodes) under `removeZeroLengthEdges`.
-/
import AdaptaVerif.Lemmas.HyperTreeRzle
namespace AdaptaVerif.Lemmas.HyperTreeJunctions
open AdaptaVerif.Model.HyperTree AdaptaVerif.Check.Tree AdaptaVerif.Spec.Tree AdaptaVerif.Lemmas.HyperTree
open AdaptaVerif.Lemmas.HyperTreeRzle

/-- junction `j` is attached to a live node of the tree -/
def Carried (t : HTree) (j : Nat) : Prop := ∃ n ∈ t.nodes, n.junction = some j

/-- consistency of the improver's junction bookkeeping with the tree -/
structure JInv (s : Imp) : Prop where
  /-- no junction is attached to two nodes -/
  uniq : ∀ n ∈ s.t.nodes, ∀ m ∈ s.t.nodes, ∀ j, n.junction = some j → m.junction = some j → n.id = m.id
  /-- every entry of the junction map points to the live node that carries the junction -/
  mapSound : ∀ p ∈ s.junctions, ∃ n ∈ s.t.nodes, n.id = p.2 ∧ n.junction = some p.1
  /-- every carried junction has its entry -/
  mapComplete : ∀ n ∈ s.t.nodes, ∀ j, n.junction = some j → (j, n.id) ∈ s.junctions
  /-- a junction reported deleted is attached to nothing that survives -/
  deleted : ∀ j ∈ s.delJ, ¬ Carried s.t j

theorem jinvb_sound {s : Imp} (h : jinvb s = true) : JInv s := by
  simp only [jinvb, Bool.and_eq_true, List.all_eq_true] at h
  obtain ⟨⟨⟨h1, h2⟩, h3⟩, h4⟩ := h
  refine ⟨?_, ?_, ?_, ?_⟩
  · intro n hn m hm j hj1 hj2
    have := h1 n hn m hm
    simp [hj1, hj2] at this
    exact this
  · intro p hp
    have := h2 p hp
    split at this
    · rename_i n hn
      obtain ⟨hn1, hn2⟩ := node?_mem hn
      exact ⟨n, hn1, hn2, by simpa using this⟩
    · simp at this
  · intro n hn j hj
    have := h3 n hn
    rw [hj] at this
    simpa using this
  · rintro j hj ⟨n, hn, hc⟩
    have := h4 j hj n hn
    simp [hc] at this

/-- heap `t'` keeps the junction attachments of `t`, except that the junction-less node `src` is gone -/
structure SameJunctions (t t' : HTree) (src : Nat) : Prop where
  back : ∀ n' ∈ t'.nodes, ∃ n ∈ t.nodes, n.id = n'.id ∧ n.junction = n'.junction
  fwd : ∀ n ∈ t.nodes, n.id ≠ src → ∃ n' ∈ t'.nodes, n'.id = n.id ∧ n'.junction = n.junction
  srcFree : ∀ n ∈ t.nodes, n.id = src → n.junction = none

theorem SameJunctions.carried {t t' : HTree} {src : Nat} (h : SameJunctions t t' src) (j : Nat) :
    Carried t' j ↔ Carried t j := by
  constructor
  · rintro ⟨n', hn', hj⟩
    obtain ⟨n, hn, _, hjn⟩ := h.back n' hn'
    exact ⟨n, hn, hjn.trans hj⟩
  · rintro ⟨n, hn, hj⟩
    have hne : n.id ≠ src := by
      intro hh
      have := h.srcFree n hn hh
      rw [this] at hj
      cases hj
    obtain ⟨n', hn', _, hjn⟩ := h.fwd n hn hne
    exact ⟨n', hn', hjn.trans hj⟩

/-- the bookkeeping stays consistent when the heap is replaced by one with the same attachments -/
theorem JInv.transfer {s : Imp} {t' : HTree} {src : Nat} (h : JInv s) (hs : SameJunctions s.t t' src) :
    JInv { s with t := t' } := by
  refine ⟨?_, ?_, ?_, ?_⟩
  · intro n' hn' m' hm' j hj1 hj2
    obtain ⟨n, hn, hid1, hjn⟩ := hs.back n' hn'
    obtain ⟨m, hm, hid2, hjm⟩ := hs.back m' hm'
    have := h.uniq n hn m hm j (hjn.trans hj1) (hjm.trans hj2)
    omega
  · intro p hp
    obtain ⟨n, hn, hid, hj⟩ := h.mapSound p hp
    have hne : n.id ≠ src := by
      intro hh
      have := hs.srcFree n hn hh
      rw [this] at hj
      cases hj
    obtain ⟨n', hn', hid', hj'⟩ := hs.fwd n hn hne
    exact ⟨n', hn', hid'.trans hid, hj'.trans hj⟩
  · intro n' hn' j hj
    obtain ⟨n, hn, hid, hjn⟩ := hs.back n' hn'
    have := h.mapComplete n hn j (hjn.trans hj)
    rw [hid] at this
    exact this
  · intro j hj hc
    exact h.deleted j hj ((hs.carried j).mp hc)

/-- contraction onto `tg` of a source node that carries no junction keeps all attachments -/
theorem contract_sameJunctions {t t' : HTree} (h : Tree t) {i tg src : Nat} (hj : JoinsId t i tg src)
    (hfree : ∀ n ∈ t.nodes, n.id = src → n.junction = none) (hc : contract t i tg src = some t') :
    SameJunctions t t' src := by
  obtain ⟨e, he, rfl, hj⟩ := hj
  obtain ⟨t'', hc', _, hs⟩ := contract_tree h he hj
  rw [hc] at hc'
  cases hc'
  refine ⟨?_, ?_, hfree⟩
  · intro n' hn'
    obtain ⟨n, hn, _, hk, _⟩ := hs.nodes n' hn'
    exact ⟨n, hn, hk.id.symm, hk.junction.symm⟩
  · intro n hn hne
    obtain ⟨n', hn', hid⟩ := hs.nodes' n hn hne
    obtain ⟨n0, hn0, _, hk, _⟩ := hs.nodes n' hn'
    have : n0 = n := h.1.node_eq hn0 hn (by rw [← hk.id, hid])
    subst this
    exact ⟨n', hn', hid, hk.junction⟩

/-- the same through the attribute copy of fix 6964517 -/
theorem prep_sameJunctions {t t1 t2 : HTree} (hp : PrepSpec t t1) (ht : Tree t) {i tg src : Nat}
    (hj : JoinsId t i tg src) (hfree : ∀ n ∈ t.nodes, n.id = src → n.junction = none)
    (hc : contract t1 i tg src = some t2) : SameJunctions t t2 src := by
  have hs1 : SameJunctions t1 t2 src := contract_sameJunctions (hp.tree ht) (hp.joinsId hj)
    (fun n1 hn1 hid => by
      obtain ⟨n, hn, hid', _, hjn, _⟩ := hp.back n1 hn1
      rw [← hjn]
      exact hfree n hn (hid'.trans hid)) hc
  refine ⟨?_, ?_, hfree⟩
  · intro n' hn'
    obtain ⟨n1, hn1, hid1, hj1⟩ := hs1.back n' hn'
    obtain ⟨n, hn, hid, _, hjn, _⟩ := hp.back n1 hn1
    exact ⟨n, hn, hid.trans hid1, hjn.trans hj1⟩
  · intro n hn hne
    obtain ⟨n1, hn1, hid1, _, hj1, _⟩ := hp.fwd n hn
    obtain ⟨n', hn', hid', hj'⟩ := hs1.fwd n1 hn1 (by rw [hid1]; exact hne)
    exact ⟨n', hn', hid'.trans hid1, hj'.trans hj1⟩

/-- what one step does to the bookkeeping: consistent again; a junction is carried or reported deleted
    after the step iff it was before; the list of new junctions is untouched -/
theorem rzleStep_jinv {s s2 : Imp} (ht : Tree s.t) (hi : JInv s) (h : RzleStep s s2) :
    JInv s2 ∧ (∀ j, (Carried s2.t j ∨ j ∈ s2.delJ) ↔ (Carried s.t j ∨ j ∈ s.delJ)) ∧ s2.newJ = s.newJ := by
  obtain ⟨e, sn, tg, src, s1, t2, he, hsn, hl, hdec, hc, rfl⟩ := h.step
  obtain ⟨ht1, hj1⟩ := rzleDec_spec hdec ht he hsn hl rfl
  unfold rzleDec at hdec
  split at hdec
  · split at hdec
    · simp at hdec
    · rename_i o ho
      split at hdec
      · simp at hdec
      · rename_i on hon
        obtain ⟨honm, honid⟩ := node?_mem hon
        unfold rzleDecide at hdec
        -- common end of the three branches in which nothing is recorded
        have plain : ∀ (srcN : HNode), srcN ∈ s.t.nodes → srcN.junction = none → srcN.id = src → s1 = s →
            JInv { s1 with t := t2 } ∧
              (∀ j, (Carried t2 j ∨ j ∈ s1.delJ) ↔ (Carried s.t j ∨ j ∈ s.delJ)) ∧ s1.newJ = s.newJ := by
          intro srcN hsrcN hnone hid hs1
          subst hs1
          have hsj : SameJunctions s1.t t2 src := prep_sameJunctions (rzlePrep_spec _ _ _ _) ht1 hj1
            (fun n hn hnid => by
              have : n = srcN := ht.1.node_eq hn hsrcN (hnid.trans hid.symm)
              rw [this]; exact hnone) hc
          exact ⟨hi.transfer hsj, fun j => by rw [hsj.carried j], rfl⟩
        split at hdec
        · rename_i oj hoj hsjn
          simp only [Option.some.injEq, Prod.mk.injEq] at hdec
          obtain ⟨rfl, rfl, rfl⟩ := hdec
          exact plain sn hsn hsjn rfl rfl
        · rename_i sj hojn hsj
          simp only [Option.some.injEq, Prod.mk.injEq] at hdec
          obtain ⟨rfl, rfl, rfl⟩ := hdec
          exact plain on honm hojn rfl rfl
        · rename_i hojn hsjn
          simp only [Option.some.injEq, Prod.mk.injEq] at hdec
          obtain ⟨rfl, rfl, rfl⟩ := hdec
          exact plain on honm hojn rfl rfl
        · rename_i oj sj hoj hsj
          split at hdec
          · simp only [Option.some.injEq, Prod.mk.injEq] at hdec
            obtain ⟨rfl, rfl, rfl⟩ := hdec
            -- the heap after the two field updates: `on` no longer carries `oj`, everything else as before
            have hnodes : ∀ n1, n1 ∈ ((s.t.modNode on.id (fun x => { x with junction := none })).modEdge e.id
                (fun x => { x with conn := none })).nodes ↔
                ∃ n ∈ s.t.nodes, n1 = if n.id == on.id then { n with junction := none } else n := by
              intro n1
              show n1 ∈ s.t.nodes.map _ ↔ _
              simp only [List.mem_map]
              constructor
              · rintro ⟨n, hn, rfl⟩; exact ⟨n, hn, rfl⟩
              · rintro ⟨n, hn, rfl⟩; exact ⟨n, hn, rfl⟩
            -- carried in the updated heap ⇔ carried before and ≠ oj
            have hcar : ∀ j, Carried ((s.t.modNode on.id (fun x => { x with junction := none })).modEdge e.id
                (fun x => { x with conn := none })) j ↔ (Carried s.t j ∧ j ≠ oj) := by
              intro j
              constructor
              · rintro ⟨n1, hn1, hj⟩
                obtain ⟨n, hn, rfl⟩ := (hnodes n1).mp hn1
                by_cases hid : n.id = on.id
                · simp [hid] at hj
                · simp only [beq_iff_eq, hid, if_false] at hj
                  refine ⟨⟨n, hn, hj⟩, ?_⟩
                  rintro rfl
                  exact hid (hi.uniq n hn on honm _ hj hoj)
              · rintro ⟨⟨n, hn, hj⟩, hne⟩
                have hid : n.id ≠ on.id := by
                  intro hid
                  have : n = on := ht.1.node_eq hn honm hid
                  subst this
                  rw [hoj] at hj
                  cases hj
                  exact hne rfl
                refine ⟨n, (hnodes n).mpr ⟨n, hn, ?_⟩, hj⟩
                simp [hid]
            -- JInv of the intermediate state
            have hi1 : JInv { s with
                delJ := s.delJ ++ [oj], junctions := s.junctions.filter (fun p => p.1 != oj),
                roots := (if s.roots.contains oj then
                            (if (s.roots.filter (· != oj)).contains sj then s.roots.filter (· != oj)
                             else s.roots.filter (· != oj) ++ [sj])
                          else s.roots),
                delC := (match e.conn with
                  | some c => s.delC ++ [c]
                  | none => s.delC),
                t := (s.t.modNode on.id (fun x => { x with junction := none })).modEdge e.id
                  (fun x => { x with conn := none }) } := by
              refine ⟨?_, ?_, ?_, ?_⟩
              · intro n1 hn1 m1 hm1 j hj1' hj2'
                obtain ⟨n, hn, rfl⟩ := (hnodes n1).mp hn1
                obtain ⟨m, hm, rfl⟩ := (hnodes m1).mp hm1
                by_cases hidn : n.id = on.id
                · simp [hidn] at hj1'
                · by_cases hidm : m.id = on.id
                  · simp [hidm] at hj2'
                  · simp only [beq_iff_eq, hidn, hidm, if_false] at hj1' hj2' ⊢
                    exact hi.uniq n hn m hm j hj1' hj2'
              · intro p hp
                simp only [List.mem_filter, bne_iff_ne, ne_eq] at hp
                obtain ⟨n, hn, hid, hj⟩ := hi.mapSound p hp.1
                have hidn : n.id ≠ on.id := by
                  intro hh
                  have : n = on := ht.1.node_eq hn honm hh
                  subst this
                  rw [hoj] at hj
                  cases hj
                  exact hp.2 rfl
                refine ⟨n, (hnodes n).mpr ⟨n, hn, ?_⟩, hid, hj⟩
                simp [hidn]
              · intro n1 hn1 j hj
                obtain ⟨n, hn, rfl⟩ := (hnodes n1).mp hn1
                by_cases hidn : n.id = on.id
                · simp [hidn] at hj
                · simp only [beq_iff_eq, hidn, if_false] at hj ⊢
                  simp only [List.mem_filter, bne_iff_ne, ne_eq]
                  refine ⟨hi.mapComplete n hn j hj, ?_⟩
                  rintro rfl
                  exact hidn (hi.uniq n hn on honm _ hj hoj)
              · intro j hj hc'
                have := (hcar j).mp hc'
                simp only [List.mem_append, List.mem_singleton] at hj
                rcases hj with hj | hj
                · exact hi.deleted j hj this.1
                · exact this.2 hj
            have hsj : SameJunctions ((s.t.modNode on.id (fun x => { x with junction := none })).modEdge e.id
                (fun x => { x with conn := none })) t2 on.id := prep_sameJunctions (rzlePrep_spec _ _ _ _) ht1 hj1
              (fun n1 hn1 hnid => by
                obtain ⟨n, hn, rfl⟩ := (hnodes n1).mp hn1
                by_cases hidn : n.id = on.id
                · simp [hidn]
                · simp [hidn] at hnid) hc
            refine ⟨hi1.transfer hsj, ?_, rfl⟩
            intro j
            show (Carried t2 j ∨ j ∈ s.delJ ++ [oj]) ↔ _
            rw [hsj.carried j, hcar j]
            simp only [List.mem_append, List.mem_singleton]
            constructor
            · rintro (⟨h1, _⟩ | h1 | rfl)
              · exact Or.inl h1
              · exact Or.inr h1
              · exact Or.inl ⟨on, honm, hoj⟩
            · rintro (h1 | h1)
              · by_cases hjo : j = oj
                · exact Or.inr (Or.inr hjo)
                · exact Or.inl ⟨h1, hjo⟩
              · exact Or.inr (Or.inl h1)
          · simp at hdec
  · simp at hdec

/-- the whole traversal: bookkeeping consistent again, junctions conserved relative to the start -/
theorem rzleNode_jinv {f : Nat} {s0 : Imp} {self : Nat} {ign : Option Nat} {s' : Imp}
    (ht : Tree s0.t) (hi : JInv s0) (h : rzleNode f s0 self ign = some s') :
    Tree s'.t ∧ JInv s' ∧
      (∀ j, (Carried s'.t j ∨ j ∈ s'.delJ) ↔ (Carried s0.t j ∨ j ∈ s0.delJ)) ∧ s'.newJ = s0.newJ := by
  have := (rzle_inv_all
    (fun s => Tree s.t ∧ JInv s ∧
      (∀ j, (Carried s.t j ∨ j ∈ s.delJ) ↔ (Carried s0.t j ∨ j ∈ s0.delJ)) ∧ s.newJ = s0.newJ)
    (fun s s2 hP hstep => by
      obtain ⟨hT, hJ, hC, hN⟩ := hP
      obtain ⟨hJ2, hC2, hN2⟩ := rzleStep_jinv hT hJ hstep
      exact ⟨rzleStep_tree hT hstep, hJ2, fun j => (hC2 j).trans (hC j), hN2.trans hN⟩) f).1
      s0 self ign s' ⟨ht, hi, fun _ => Iff.rfl, rfl⟩ h
  exact this

end AdaptaVerif.Lemmas.HyperTreeJunctions
