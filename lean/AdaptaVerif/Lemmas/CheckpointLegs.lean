/-
Lemmas about the visibility-direction protocol of `ConnRef::generateCheckpointsPath`
(Model/CheckpointLegs.lean). Property theorems: Props/C11Legs.lean.
-/
import AdaptaVerif.Model.CheckpointLegs
namespace AdaptaVerif.Lemmas.CheckpointLegs
open AdaptaVerif.Model.CheckpointLegs

set_option linter.unusedSectionVars false
variable {V : Type} [DecidableEq V]

/-- every disabled edge has an end satisfying `P` -/
def DisabledOnly (P : V → Prop) (g : Graph V) : Prop :=
  ∀ e ∈ g, e.disabled = true → P e.a ∨ P e.b

theorem DisabledOnly.mono {P Q : V → Prop} {g : Graph V} (h : DisabledOnly P g) (hpq : ∀ x, P x → Q x) :
    DisabledOnly Q g := fun e he hd => (h e he hd).imp (hpq _) (hpq _)

theorem allEnabled_iff (g : Graph V) : allEnabled g = true ↔ DisabledOnly (fun _ => False) g := by
  unfold allEnabled DisabledOnly
  rw [List.all_eq_true]
  constructor
  · intro h e he hd
    have := h e he
    simp [hd] at this
  · intro h e he
    cases hd : e.disabled with
    | false => rfl
    | true => exact ((h e he hd).elim id id).elim

theorem disabledFor_all (dir : Nat) : disabledFor connDirAll dir = false := by
  simp [disabledFor]

/-- `setVisibleDirections(v, ·)` touches only edges of `v` -/
theorem setVisible_frame (v : V) (dirs : Nat) (e : Edge V) (ha : e.a ≠ v) (hb : e.b ≠ v) :
    Edge.setVisible v dirs e = e := by
  simp [Edge.setVisible, ha, hb]

theorem setVisible_a (v : V) (dirs : Nat) (e : Edge V) : (Edge.setVisible v dirs e).a = e.a := by
  unfold Edge.setVisible; repeat (first | rfl | split)

theorem setVisible_b (v : V) (dirs : Nat) (e : Edge V) : (Edge.setVisible v dirs e).b = e.b := by
  unfold Edge.setVisible; repeat (first | rfl | split)

/-- restricting `v` can disable edges of `v` only -/
theorem restrict_disabledOnly {P : V → Prop} {g : Graph V} (v : V) (dirs : Nat) (h : DisabledOnly P g) :
    DisabledOnly (fun x => x = v ∨ P x) (setVisibleDirections v dirs g) := by
  intro e he hd
  simp only [setVisibleDirections, List.mem_map] at he
  obtain ⟨e0, he0, rfl⟩ := he
  rw [setVisible_a, setVisible_b]
  by_cases ha : e0.a = v
  · exact Or.inl (Or.inl ha)
  · by_cases hb : e0.b = v
    · exact Or.inr (Or.inl hb)
    · rw [setVisible_frame v dirs e0 ha hb] at hd
      exact (h e0 he0 hd).imp Or.inr Or.inr

/-- `setVisibleDirections(v, ConnDirAll)` enables every edge of `v` -/
theorem restore_disabledOnly {P : V → Prop} {g : Graph V} (v : V)
    (h : DisabledOnly (fun x => x = v ∨ P x) g) :
    DisabledOnly P (setVisibleDirections v connDirAll g) := by
  intro e he hd
  simp only [setVisibleDirections, List.mem_map] at he
  obtain ⟨e0, he0, rfl⟩ := he
  rw [setVisible_a, setVisible_b]
  by_cases ha : e0.a = v
  · simp [Edge.setVisible, ha, disabledFor_all] at hd
  · by_cases hb : e0.b = v
    · simp [Edge.setVisible, ha, hb, disabledFor_all] at hd
    · rw [setVisible_frame v _ e0 ha hb] at hd
      rcases h e0 he0 hd with (h1 | h1) | (h1 | h1)
      · exact (ha h1).elim
      · exact Or.inl h1
      · exact (hb h1).elim
      · exact Or.inr h1

/-- the skeleton of a graph: everything but the `disabled` flags -/
def clear (e : Edge V) : Edge V := { e with disabled := false }

theorem clear_setVisible (v : V) (dirs : Nat) (e : Edge V) : clear (Edge.setVisible v dirs e) = clear e := by
  unfold Edge.setVisible clear; repeat (first | rfl | split)

theorem skeleton_setVisible (v : V) (dirs : Nat) (g : Graph V) :
    (setVisibleDirections v dirs g).map clear = g.map clear := by
  simp [setVisibleDirections, List.map_map, Function.comp_def, clear_setVisible]

theorem clear_of_allEnabled {g : Graph V} (h : allEnabled g = true) : g.map clear = g := by
  unfold allEnabled at h
  rw [List.all_eq_true] at h
  conv => rhs; rw [← List.map_id g]
  apply List.map_congr_left
  intro e he
  have := h e he
  cases e with
  | mk a b d1 d2 dis => simp at this; simp [clear, this]

theorem restrictBy_disabledOnly {P : V → Prop} {g : Graph V} (v : V) (mask : Option Nat) (h : DisabledOnly P g) :
    DisabledOnly (fun x => x = v ∨ P x) (restrictBy v mask g) := by
  unfold restrictBy
  split
  · split
    · exact restrict_disabledOnly v _ h
    · exact h.mono (fun x hx => Or.inr hx)
  · exact h.mono (fun x hx => Or.inr hx)

theorem skeleton_restrictBy (v : V) (mask : Option Nat) (g : Graph V) :
    (restrictBy v mask g).map clear = g.map clear := by
  unfold restrictBy
  repeat (first | rfl | exact skeleton_setVisible _ _ _ | split)

/-- one loop iteration: skeleton kept, and a graph without disabled edges stays so -/
theorem iteration_skeleton (search : Graph V → V → V → Bool) (verts : List V) (cps : List (Cp V))
    (s : LoopState V) (i : Nat) : (iteration search verts cps s i).g.map clear = s.g.map clear := by
  unfold iteration
  split
  · simp only []
    by_cases hl : s.last > 0 <;> by_cases hi : i + 1 < verts.length <;>
      simp only [hl, hi, if_true, if_false, skeleton_setVisible, skeleton_restrictBy]
  · rfl

theorem iteration_enabled (search : Graph V → V → V → Bool) (verts : List V) (cps : List (Cp V))
    (s : LoopState V) (i : Nat) (h : allEnabled s.g = true) :
    allEnabled (iteration search verts cps s i).g = true := by
  rw [allEnabled_iff] at h ⊢
  unfold iteration
  split
  next start stop _ _ =>
    simp only []
    by_cases hl : s.last > 0 <;> by_cases hi : i + 1 < verts.length <;> simp only [hl, hi, if_true, if_false]
    · apply restore_disabledOnly stop
      apply restore_disabledOnly start
      refine (restrictBy_disabledOnly stop _ (restrictBy_disabledOnly start _ h)).mono ?_
      intro x hx; rcases hx with h1 | h1 | h1
      · exact Or.inr (Or.inl h1)
      · exact Or.inl h1
      · exact h1.elim
    · apply restore_disabledOnly start
      exact restrictBy_disabledOnly start _ h
    · apply restore_disabledOnly stop
      exact restrictBy_disabledOnly stop _ h
    · exact h
  · exact h


theorem eq_of_enabled_skeleton {g g' : Graph V} (h : allEnabled g = true) (h' : allEnabled g' = true)
    (hs : g'.map clear = g.map clear) : g' = g := by
  rw [← clear_of_allEnabled h, ← clear_of_allEnabled h', hs]

theorem iteration_graph_eq (search : Graph V → V → V → Bool) (verts : List V) (cps : List (Cp V))
    (s : LoopState V) (i : Nat) (h : allEnabled s.g = true) : (iteration search verts cps s i).g = s.g :=
  eq_of_enabled_skeleton h (iteration_enabled search verts cps s i h) (iteration_skeleton search verts cps s i)

/-- the graph a leg's search sees, in terms of the graph `g` at the entry of the function -/
def legGraph (verts : List V) (cps : List (Cp V)) (g : Graph V) (last i : Nat) (start stop : V) : Graph V :=
  let g1 := if last > 0 then restrictBy start ((cps[last - 1]?).map (·.dep)) g else g
  if i + 1 < verts.length then restrictBy stop ((cps[i - 1]?).map (·.arr)) g1 else g1

/-- a search record is consistent with the C++ loop variables -/
def LegOk (verts : List V) (cps : List (Cp V)) (g : Graph V) (r : LegRecord V) : Prop :=
  r.lastOk < r.index ∧ r.index < verts.length ∧ verts[r.lastOk]? = some r.start ∧ verts[r.index]? = some r.stop ∧
  r.seen = legGraph verts cps g r.lastOk r.index r.start r.stop

theorem iteration_eq (search : Graph V → V → V → Bool) (verts : List V) (cps : List (Cp V))
    (s : LoopState V) (i : Nat) (start stop : V) (h1 : verts[s.last]? = some start) (h2 : verts[i]? = some stop) :
    iteration search verts cps s i =
      { g := (iteration search verts cps s i).g,
        last := if search (legGraph verts cps s.g s.last i start stop) start stop then i else s.last,
        legs := s.legs ++ [⟨i, s.last, start, stop, legGraph verts cps s.g s.last i start stop,
                            search (legGraph verts cps s.g s.last i start stop) start stop⟩] } := by
  unfold iteration legGraph
  simp only [h1, h2]

/-- loop invariant of `generateCheckpointsPath` over the iterations `i0, i0+1, …` -/
structure Inv (verts : List V) (cps : List (Cp V)) (g : Graph V) (s : LoopState V) (i0 : Nat) : Prop where
  graph : s.g = g
  last_lt : s.last < i0
  count : s.legs.length + 1 = i0
  legs : ∀ r ∈ s.legs, LegOk verts cps g r

theorem fold_inv (search : Graph V → V → V → Bool) (verts : List V) (cps : List (Cp V)) (g : Graph V)
    (hg : allEnabled g = true) (k : Nat) :
    ∀ (s : LoopState V) (i0 : Nat), i0 + k = verts.length → Inv verts cps g s i0 →
      Inv verts cps g ((List.range' i0 k).foldl (iteration search verts cps) s) (i0 + k) := by
  induction k with
  | zero => intro s i0 _ h; simpa using h
  | succ k ih =>
    intro s i0 hlen h
    rw [List.range'_succ, List.foldl_cons]
    have hi : i0 < verts.length := by omega
    have hl : s.last < verts.length := by have := h.last_lt; omega
    have h1 : verts[s.last]? = some verts[s.last] := List.getElem?_eq_getElem hl
    have h2 : verts[i0]? = some verts[i0] := List.getElem?_eq_getElem hi
    have hsg : allEnabled s.g = true := by rw [h.graph]; exact hg
    have step : Inv verts cps g (iteration search verts cps s i0) (i0 + 1) := by
      refine ⟨?_, ?_, ?_, ?_⟩
      · rw [iteration_graph_eq search verts cps s i0 hsg, h.graph]
      · rw [iteration_eq search verts cps s i0 _ _ h1 h2]
        simp only []
        split
        · omega
        · have := h.last_lt; omega
      · rw [iteration_eq search verts cps s i0 _ _ h1 h2]
        simp only [List.length_append, List.length_singleton]
        have := h.count; omega
      · rw [iteration_eq search verts cps s i0 _ _ h1 h2]
        simp only [List.mem_append, List.mem_singleton]
        intro r hr
        rcases hr with hr | hr
        · exact h.legs r hr
        · subst hr
          exact ⟨h.last_lt, hi, h1, h2, by rw [h.graph]⟩
    have := ih (iteration search verts cps s i0) (i0 + 1) (by omega) step
    rw [show i0 + (k + 1) = i0 + 1 + k by omega]
    exact this

theorem legVertices_length (src dst : V) (cps : List (Cp V)) : (legVertices src dst cps).length = cps.length + 2 := by
  simp [legVertices]

/-- the invariant at the exit of `generateCheckpointsPath` -/
theorem generate_inv (search : Graph V → V → V → Bool) (src dst : V) (cps : List (Cp V)) (g : Graph V)
    (hg : allEnabled g = true) :
    Inv (legVertices src dst cps) cps g (generateCheckpointsPath search src dst cps g) (cps.length + 2) := by
  unfold generateCheckpointsPath
  have hlen := legVertices_length src dst cps
  have := fold_inv search (legVertices src dst cps) cps g hg ((legVertices src dst cps).length - 1) ⟨g, 0, []⟩ 1
    (by omega) ⟨rfl, by simp, by simp, by simp⟩
  simp only [] at this ⊢
  rw [show 1 + ((legVertices src dst cps).length - 1) = cps.length + 2 by omega] at this
  exact this


/-! ### what a leg's search sees, edge by edge -/

theorem setVisible_dirAB (v : V) (dirs : Nat) (e : Edge V) : (Edge.setVisible v dirs e).dirAB = e.dirAB := by
  unfold Edge.setVisible; repeat (first | rfl | split)

theorem setVisible_dirBA (v : V) (dirs : Nat) (e : Edge V) : (Edge.setVisible v dirs e).dirBA = e.dirBA := by
  unfold Edge.setVisible; repeat (first | rfl | split)

/-- `restrictBy` on one edge -/
def edgeRestrictBy (v : V) (mask : Option Nat) (e : Edge V) : Edge V :=
  match mask with
  | some d => if d ≠ connDirAll then Edge.setVisible v d e else e
  | none => e

theorem restrictBy_eq_map (v : V) (mask : Option Nat) (g : Graph V) :
    restrictBy v mask g = g.map (edgeRestrictBy v mask) := by
  unfold restrictBy edgeRestrictBy setVisibleDirections
  cases mask with
  | none => simp
  | some d => by_cases h : d ≠ connDirAll <;> simp [h]

theorem edgeRestrictBy_frame (v : V) (mask : Option Nat) (e : Edge V) (ha : e.a ≠ v) (hb : e.b ≠ v) :
    edgeRestrictBy v mask e = e := by
  unfold edgeRestrictBy
  repeat (first | rfl | exact setVisible_frame v _ e ha hb | split)

theorem edgeRestrictBy_a (v : V) (mask : Option Nat) (e : Edge V) : (edgeRestrictBy v mask e).a = e.a := by
  unfold edgeRestrictBy; repeat (first | rfl | exact setVisible_a _ _ _ | split)
theorem edgeRestrictBy_b (v : V) (mask : Option Nat) (e : Edge V) : (edgeRestrictBy v mask e).b = e.b := by
  unfold edgeRestrictBy; repeat (first | rfl | exact setVisible_b _ _ _ | split)
theorem edgeRestrictBy_dirAB (v : V) (mask : Option Nat) (e : Edge V) : (edgeRestrictBy v mask e).dirAB = e.dirAB := by
  unfold edgeRestrictBy; repeat (first | rfl | exact setVisible_dirAB _ _ _ | split)
theorem edgeRestrictBy_dirBA (v : V) (mask : Option Nat) (e : Edge V) : (edgeRestrictBy v mask e).dirBA = e.dirBA := by
  unfold edgeRestrictBy; repeat (first | rfl | exact setVisible_dirBA _ _ _ | split)

/-- an edge of `v` after `if (d != ConnDirAll) v->setVisibleDirections(d)` with `d ≠ ConnDirAll` -/
theorem edgeRestrictBy_at_a (v : V) (d : Nat) (hd : d ≠ connDirAll) (e : Edge V) (ha : e.a = v) :
    (edgeRestrictBy v (some d) e).disabled = disabledFor d e.dirAB := by
  simp [edgeRestrictBy, hd, Edge.setVisible, ha]

theorem edgeRestrictBy_at_b (v : V) (d : Nat) (hd : d ≠ connDirAll) (e : Edge V) (ha : e.a ≠ v) (hb : e.b = v) :
    (edgeRestrictBy v (some d) e).disabled = disabledFor d e.dirBA := by
  simp [edgeRestrictBy, hd, Edge.setVisible, ha, hb]

/-- the edge-wise form of `legGraph` -/
def legEdge (verts : List V) (cps : List (Cp V)) (last i : Nat) (start stop : V) (e : Edge V) : Edge V :=
  let e1 := if last > 0 then edgeRestrictBy start ((cps[last - 1]?).map (·.dep)) e else e
  if i + 1 < verts.length then edgeRestrictBy stop ((cps[i - 1]?).map (·.arr)) e1 else e1

theorem legGraph_eq_map (verts : List V) (cps : List (Cp V)) (g : Graph V) (last i : Nat) (start stop : V) :
    legGraph verts cps g last i start stop = g.map (legEdge verts cps last i start stop) := by
  unfold legGraph legEdge
  by_cases hl : last > 0 <;> by_cases hi : i + 1 < verts.length <;>
    simp [hl, hi, restrictBy_eq_map, List.map_map, Function.comp_def]


theorem legEdge_a (verts : List V) (cps : List (Cp V)) (last i : Nat) (start stop : V) (e : Edge V) :
    (legEdge verts cps last i start stop e).a = e.a := by
  unfold legEdge
  by_cases hl : last > 0 <;> by_cases hi : i + 1 < verts.length <;> simp [hl, hi, edgeRestrictBy_a]

theorem legEdge_b (verts : List V) (cps : List (Cp V)) (last i : Nat) (start stop : V) (e : Edge V) :
    (legEdge verts cps last i start stop e).b = e.b := by
  unfold legEdge
  by_cases hl : last > 0 <;> by_cases hi : i + 1 < verts.length <;> simp [hl, hi, edgeRestrictBy_b]

theorem legEdge_frame (verts : List V) (cps : List (Cp V)) (last i : Nat) (start stop : V) (e : Edge V)
    (h1 : e.a ≠ start) (h2 : e.b ≠ start) (h3 : e.a ≠ stop) (h4 : e.b ≠ stop) :
    legEdge verts cps last i start stop e = e := by
  unfold legEdge
  by_cases hl : last > 0 <;> by_cases hi : i + 1 < verts.length <;>
    simp [hl, hi, edgeRestrictBy_frame _ _ e h1 h2, edgeRestrictBy_frame _ _ e h3 h4]

theorem isSome_getElem?_of_lt {α} (l : List α) (k : Nat) (h : k < l.length) : (l[k]?).isSome = true := by
  rw [List.getElem?_eq_getElem h]; rfl

end AdaptaVerif.Lemmas.CheckpointLegs
