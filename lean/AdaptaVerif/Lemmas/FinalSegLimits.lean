/-
Helper lemmas for `Model/FinalSegLimits.lean` (C14, limits of the first / last segment of an orthogonal
connector).  The central facts are the two "supremum / infimum" characterisations `foldl_lo_le_iff` and
`foldl_le_hi_iff`: the lower limit after the loop is the least upper bound of the start value and the
lower extents of all shapes that contain an end of the segment, and dually for the upper limit.
-/
import Mathlib.Tactic.Linarith
import Mathlib.Algebra.Order.Field.Rat
import AdaptaVerif.Model.FinalSegLimits

namespace AdaptaVerif.Lemmas.FinalSegLimits
open AdaptaVerif.Check.RouteRect AdaptaVerif.Model.FinalSegLimits

theorem rmax_le_iff (a b c : Rat) : rmax a b ≤ c ↔ a ≤ c ∧ b ≤ c := by
  unfold rmax
  split
  · constructor
    · intro h; exact ⟨by linarith, h⟩
    · intro h; exact h.2
  · constructor
    · intro h; exact ⟨h, by linarith⟩
    · intro h; exact h.1

theorem le_rmin_iff (a b c : Rat) : c ≤ rmin a b ↔ c ≤ a ∧ c ≤ b := by
  unfold rmin
  split
  · constructor
    · intro h; exact ⟨h, by linarith⟩
    · intro h; exact h.1
  · constructor
    · intro h; exact ⟨by linarith, h⟩
    · intro h; exact h.2

theorem le_rmax_right (a b : Rat) : b ≤ rmax a b := by
  unfold rmax; split <;> linarith

theorem rmin_le_right (a b : Rat) : rmin a b ≤ b := by
  unfold rmin; split <;> linarith

/-- the "either end of the segment lies in the shape" test -/
def hit (a z : P) (r : Rect) : Prop := insideBounds a r = true ∨ insideBounds z r = true

theorem hit_comm (a z : P) (r : Rect) : hit a z r ↔ hit z a r := by
  unfold hit; exact Or.comm

theorem step_lo_le_iff (dimX : Bool) (a z : P) (l : Lim) (r : Rect) (B : Rat) :
    (stepShape dimX a z l r).lo ≤ B ↔ l.lo ≤ B ∧ (hit a z r → Rect.lo r dimX ≤ B) := by
  unfold stepShape hit
  cases ha : insideBounds a r <;> cases hz : insideBounds z r <;>
    simp [Lim.clamp, rmax_le_iff]

theorem step_le_hi_iff (dimX : Bool) (a z : P) (l : Lim) (r : Rect) (B : Rat) :
    B ≤ (stepShape dimX a z l r).hi ↔ B ≤ l.hi ∧ (hit a z r → B ≤ Rect.hi r dimX) := by
  unfold stepShape hit
  cases ha : insideBounds a r <;> cases hz : insideBounds z r <;>
    simp [Lim.clamp, le_rmin_iff]

theorem step_first (dimX : Bool) (a z : P) (l : Lim) (r : Rect) :
    (stepShape dimX a z l r).first = (l.first || insideBounds a r) := by
  unfold stepShape
  cases ha : insideBounds a r <;> cases hz : insideBounds z r <;> simp [Lim.clamp]

theorem step_last (dimX : Bool) (a z : P) (l : Lim) (r : Rect) :
    (stepShape dimX a z l r).last = (l.last || insideBounds z r) := by
  unfold stepShape
  cases ha : insideBounds a r <;> cases hz : insideBounds z r <;> simp [Lim.clamp]

/-- the lower limit after the loop is the least upper bound of the start value and the lower extents
    of the shapes containing an end of the segment -/
theorem foldl_lo_le_iff (dimX : Bool) (a z : P) (shapes : List Rect) (l : Lim) (B : Rat) :
    (shapes.foldl (stepShape dimX a z) l).lo ≤ B ↔
      l.lo ≤ B ∧ ∀ r ∈ shapes, hit a z r → Rect.lo r dimX ≤ B := by
  induction shapes generalizing l with
  | nil => simp
  | cons s rest ih =>
    rw [List.foldl_cons, ih, step_lo_le_iff]
    constructor
    · rintro ⟨⟨h1, h2⟩, h3⟩
      refine ⟨h1, ?_⟩
      intro r hr
      rcases List.mem_cons.1 hr with rfl | hr
      · exact h2
      · exact h3 r hr
    · rintro ⟨h1, h2⟩
      exact ⟨⟨h1, h2 s (List.mem_cons_self ..)⟩, fun r hr => h2 r (List.mem_cons_of_mem _ hr)⟩

/-- the upper limit after the loop is the greatest lower bound of the start value and the upper
    extents of the shapes containing an end of the segment -/
theorem foldl_le_hi_iff (dimX : Bool) (a z : P) (shapes : List Rect) (l : Lim) (B : Rat) :
    B ≤ (shapes.foldl (stepShape dimX a z) l).hi ↔
      B ≤ l.hi ∧ ∀ r ∈ shapes, hit a z r → B ≤ Rect.hi r dimX := by
  induction shapes generalizing l with
  | nil => simp
  | cons s rest ih =>
    rw [List.foldl_cons, ih, step_le_hi_iff]
    constructor
    · rintro ⟨⟨h1, h2⟩, h3⟩
      refine ⟨h1, ?_⟩
      intro r hr
      rcases List.mem_cons.1 hr with rfl | hr
      · exact h2
      · exact h3 r hr
    · rintro ⟨h1, h2⟩
      exact ⟨⟨h1, h2 s (List.mem_cons_self ..)⟩, fun r hr => h2 r (List.mem_cons_of_mem _ hr)⟩

theorem foldl_first (dimX : Bool) (a z : P) (shapes : List Rect) (l : Lim) :
    (shapes.foldl (stepShape dimX a z) l).first = (l.first || shapes.any (insideBounds a)) := by
  induction shapes generalizing l with
  | nil => simp
  | cons s rest ih => rw [List.foldl_cons, ih, step_first, List.any_cons, Bool.or_assoc]

theorem foldl_last (dimX : Bool) (a z : P) (shapes : List Rect) (l : Lim) :
    (shapes.foldl (stepShape dimX a z) l).last = (l.last || shapes.any (insideBounds z)) := by
  induction shapes generalizing l with
  | nil => simp
  | cons s rest ih => rw [List.foldl_cons, ih, step_last, List.any_cons, Bool.or_assoc]

/-! ### the loop from `Lim.init` -/

theorem lo_le_iff (dimX : Bool) (a z : P) (shapes : List Rect) (B : Rat) :
    (shapeLimits dimX a z shapes).lo ≤ B ↔
      -channelMax ≤ B ∧ ∀ r ∈ shapes, hit a z r → Rect.lo r dimX ≤ B :=
  foldl_lo_le_iff dimX a z shapes Lim.init B

theorem le_hi_iff (dimX : Bool) (a z : P) (shapes : List Rect) (B : Rat) :
    B ≤ (shapeLimits dimX a z shapes).hi ↔
      B ≤ channelMax ∧ ∀ r ∈ shapes, hit a z r → B ≤ Rect.hi r dimX :=
  foldl_le_hi_iff dimX a z shapes Lim.init B

theorem first_eq (dimX : Bool) (a z : P) (shapes : List Rect) :
    (shapeLimits dimX a z shapes).first = shapes.any (insideBounds a) := by
  unfold shapeLimits; rw [foldl_first]; simp [Lim.init]

theorem last_eq (dimX : Bool) (a z : P) (shapes : List Rect) :
    (shapeLimits dimX a z shapes).last = shapes.any (insideBounds z) := by
  unfold shapeLimits; rw [foldl_last]; simp [Lim.init]

/-- monotonicity in the obstacle set and in the pair of end points (as far as `hit` is concerned) -/
theorem lo_mono (dimX : Bool) (a z a' z' : P) (l₁ l₂ : List Rect)
    (h : ∀ r ∈ l₁, hit a z r → r ∈ l₂ ∧ hit a' z' r) :
    (shapeLimits dimX a z l₁).lo ≤ (shapeLimits dimX a' z' l₂).lo := by
  have h2 := (lo_le_iff dimX a' z' l₂ (shapeLimits dimX a' z' l₂).lo).1 (le_refl _)
  rw [lo_le_iff]
  exact ⟨h2.1, fun r hr hh => h2.2 r (h r hr hh).1 (h r hr hh).2⟩

theorem hi_mono (dimX : Bool) (a z a' z' : P) (l₁ l₂ : List Rect)
    (h : ∀ r ∈ l₁, hit a z r → r ∈ l₂ ∧ hit a' z' r) :
    (shapeLimits dimX a' z' l₂).hi ≤ (shapeLimits dimX a z l₁).hi := by
  have h2 := (le_hi_iff dimX a' z' l₂ (shapeLimits dimX a' z' l₂).hi).1 (le_refl _)
  rw [le_hi_iff]
  exact ⟨h2.1, fun r hr hh => h2.2 r (h r hr hh).1 (h r hr hh).2⟩

/-- a point of a shape, moved in the shift dimension within the extent of the shape, stays in the shape -/
theorem insideBounds_setCo (dimX : Bool) (p : P) (s : Rect) (x : Rat)
    (hp : insideBounds p s = true) (hlo : Rect.lo s dimX ≤ x) (hhi : x ≤ Rect.hi s dimX) :
    insideBounds (P.setCo p dimX x) s = true := by
  unfold insideBounds at hp ⊢
  cases dimX <;> simp [P.setCo, Rect.lo, Rect.hi] at hp hlo hhi ⊢ <;> simp_all

end AdaptaVerif.Lemmas.FinalSegLimits
