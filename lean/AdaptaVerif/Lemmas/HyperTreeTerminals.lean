/-
C12: `removeZeroLengthEdges` keeps the SET OF TERMINALS (leaves) of the hyperedge tree, for all trees in
which no zero-length non-fixed edge ends at a leaf (`NoLeafZero`) — the side condition is itself
preserved by every contraction step, so it only has to hold at the start of the traversal.
-/
import AdaptaVerif.Lemmas.HyperTreeRzle
namespace AdaptaVerif.Lemmas.HyperTreeTerminals
open AdaptaVerif.Model.HyperTree AdaptaVerif.Check.Tree AdaptaVerif.Spec.Tree AdaptaVerif.Lemmas.HyperTree
open AdaptaVerif.Lemmas.HyperTreeGraph AdaptaVerif.Lemmas.HyperTreeRzle

theorem pt_eq_of_beq {p q : AdaptaVerif.Model.Geometry.Pt} (h : (p == q) = true) : p = q := by
  cases p; cases q
  simp only [BEq.beq] at h
  unfold AdaptaVerif.Model.Geometry.instBEqPt.beq at h
  simp_all

/-- the two end nodes of `e` are live and have the same position -/
def ZeroLen (t : HTree) (e : HEdge) : Prop :=
  ∃ na ∈ t.nodes, ∃ nb ∈ t.nodes, e.e1 = some na.id ∧ e.e2 = some nb.id ∧ na.point = nb.point

theorem zeroLen_of_zeroLength {t : HTree} {e : HEdge} (h : zeroLength t e = true) : ZeroLen t e := by
  unfold zeroLength pointOf at h
  split at h
  · rename_i p q hp hq
    split at hp
    · simp at hp
    · rename_i a ha
      split at hq
      · simp at hq
      · rename_i b hb
        simp only [Option.map_eq_some_iff] at hp hq
        obtain ⟨na, hna, rfl⟩ := hp
        obtain ⟨nb, hnb, rfl⟩ := hq
        obtain ⟨h1, h2⟩ := node?_mem hna
        obtain ⟨h3, h4⟩ := node?_mem hnb
        refine ⟨na, h1, nb, h3, by rw [h2]; exact ha, by rw [h4]; exact hb, ?_⟩
        exact pt_eq_of_beq h
  · simp at h

/-- no zero-length edge with a non-fixed route ends at a leaf -/
def NoLeafZero (t : HTree) : Prop :=
  ∀ e ∈ t.edges, e.hasFixedRoute = false → ZeroLen t e →
    ∀ a b, Joins e a b → 2 ≤ deg t.graphE a ∧ 2 ≤ deg t.graphE b

/-- degrees after a contraction (`x = tg`) -/
theorem contract_deg {t t' : HTree} {e : HEdge} {tg src : Nat} (hs : IdentifySpec t e tg tg src t')
    (hts : tg ≠ src) (v : Nat) :
    deg t'.graphE v =
      if v = src then 0 else if v = tg then deg t.graphE tg + deg t.graphE src - 2 else deg t.graphE v := by
  have key : ∀ w, deg t.graphE w =
      deg (restE t e.id) w + (if tg = w then 1 else 0) + (if src = w then 1 else 0) := by
    intro w
    rcases hs.perm with hp | hp
    · rw [deg_perm hp w, deg_cons]
    · rw [deg_perm hp w, deg_cons]; omega
  rw [hs.graphE, deg_map_ren (Ne.symm hts)]
  have k1 := key tg
  have k2 := key src
  have k3 := key v
  have hst : ¬ src = tg := fun h => hts h.symm
  simp only [if_true, hst, hts, if_false] at k1 k2
  by_cases h1 : v = src
  · simp [h1]
  · by_cases h2 : v = tg
    · subst h2
      simp only [h1, if_false, if_true]
      omega
    · have a1 : ¬ tg = v := fun h => h2 h.symm
      have a2 : ¬ src = v := fun h => h1 h.symm
      simp only [a1, a2, if_false] at k3
      simp only [h1, h2, if_false]
      omega

/-- the data of a contraction of a zero-length edge -/
structure ZContract (t t' : HTree) (e : HEdge) (tg src : Nat) : Prop where
  tree : Tree t
  mem : e ∈ t.edges
  joins : Joins e tg src
  zero : ZeroLen t e
  free : e.hasFixedRoute = false
  spec : IdentifySpec t e tg tg src t'

theorem ZContract.same_point {t t' : HTree} {e : HEdge} {tg src : Nat} (h : ZContract t t' e tg src)
    {n m : HNode} (hn : n ∈ t.nodes) (hm : m ∈ t.nodes) (hnid : n.id = tg) (hmid : m.id = src) :
    n.point = m.point := by
  obtain ⟨na, hna, nb, hnb, h1, h2, hp⟩ := h.zero
  rcases h.joins with ⟨j1, j2⟩ | ⟨j1, j2⟩
  · rw [h1] at j1; rw [h2] at j2
    cases j1; cases j2
    have e1 : n = na := h.tree.1.node_eq hn hna hnid
    have e2 : m = nb := h.tree.1.node_eq hm hnb hmid
    rw [e1, e2]; exact hp
  · rw [h1] at j1; rw [h2] at j2
    cases j1; cases j2
    have e1 : n = nb := h.tree.1.node_eq hn hnb hnid
    have e2 : m = na := h.tree.1.node_eq hm hna hmid
    rw [e1, e2]; exact hp.symm

/-- a live node of the result with number `ren src tg a0` has the position node `a0` had before -/
theorem ZContract.point_back {t t' : HTree} {e : HEdge} {tg src : Nat} (h : ZContract t t' e tg src)
    {n' : HNode} (hn' : n' ∈ t'.nodes) {a0 : Nat} (ha0 : a0 ∈ t.graphV) (hid : n'.id = ren src tg a0) :
    ∃ n0 ∈ t.nodes, n0.id = a0 ∧ n0.point = n'.point := by
  obtain ⟨n, hn, _, hk, _⟩ := h.spec.nodes n' hn'
  obtain ⟨n0, hn0, hn0id⟩ := WF.node_of_mem_graphV ha0
  by_cases hsrc : a0 = src
  · subst hsrc
    rw [ren_self] at hid
    refine ⟨n0, hn0, hn0id, ?_⟩
    have : n.point = n0.point := h.same_point hn hn0 (by rw [← hk.id, hid]) hn0id
    rw [← this, hk.point]
  · rw [ren_of_ne hsrc] at hid
    have : n = n0 := h.tree.1.node_eq hn hn0 (by rw [← hk.id, hid, hn0id])
    subst this
    exact ⟨n, hn, hn0id, hk.point.symm⟩

/-- the side condition survives a contraction of a zero-length non-fixed edge -/
theorem ZContract.noLeafZero {t t' : HTree} {e : HEdge} {tg src : Nat} (h : ZContract t t' e tg src)
    (hz : NoLeafZero t) : NoLeafZero t' := by
  have hts : tg ≠ src := h.tree.ne_of_joins h.mem h.joins
  obtain ⟨hdt, hds⟩ := hz e h.mem h.free h.zero tg src h.joins
  intro e' he' hfree' hzero' a' b' hj'
  obtain ⟨x0, hx0, _, hk, he1, he2⟩ := h.spec.edges e' he'
  obtain ⟨a0, b0, hx1, hx2, ha0, hb0⟩ := h.tree.1.ends x0 hx0
  rw [hx1] at he1; rw [hx2] at he2
  simp only [Option.map_some] at he1 he2
  -- `x0` is zero-length in the old heap
  have hzero0 : ZeroLen t x0 := by
    obtain ⟨na', hna', nb', hnb', h1, h2, hp⟩ := hzero'
    rw [he1] at h1; rw [he2] at h2
    have hida : na'.id = ren src tg a0 := (Option.some.inj h1).symm
    have hidb : nb'.id = ren src tg b0 := (Option.some.inj h2).symm
    obtain ⟨n1, hn1, hid1, hp1⟩ := h.point_back hna' ha0 hida
    obtain ⟨n2, hn2, hid2, hp2⟩ := h.point_back hnb' hb0 hidb
    exact ⟨n1, hn1, n2, hn2, by rw [hid1]; exact hx1, by rw [hid2]; exact hx2, by rw [hp1, hp2, hp]⟩
  have hfree0 : x0.hasFixedRoute = false := by rw [← hk.hasFixedRoute]; exact hfree'
  obtain ⟨hda, hdb⟩ := hz x0 hx0 hfree0 hzero0 a0 b0 (Or.inl ⟨hx1, hx2⟩)
  -- degrees of the renamed ends
  have hdeg : ∀ v0, 2 ≤ deg t.graphE v0 → 2 ≤ deg t'.graphE (ren src tg v0) := by
    intro v0 hv0
    rw [contract_deg h.spec hts]
    by_cases hv : v0 = src
    · subst hv
      rw [ren_self]
      simp only [hts, if_false, if_true]
      omega
    · rw [ren_of_ne hv]
      simp only [hv, if_false]
      by_cases hvt : v0 = tg
      · subst hvt
        simp only [if_true]
        omega
      · simp only [hvt, if_false]
        exact hv0
  rcases hj' with ⟨j1, j2⟩ | ⟨j1, j2⟩
  · rw [he1] at j1; rw [he2] at j2
    cases j1; cases j2
    exact ⟨hdeg a0 hda, hdeg b0 hdb⟩
  · rw [he1] at j1; rw [he2] at j2
    cases j1; cases j2
    exact ⟨hdeg b0 hdb, hdeg a0 hda⟩

/-- … and the leaves are exactly the leaves before -/
theorem ZContract.leaves {t t' : HTree} {e : HEdge} {tg src : Nat} (h : ZContract t t' e tg src)
    (hz : NoLeafZero t) (T : List Nat) (hT : LeavesAre t.graphV t.graphE T) :
    LeavesAre t'.graphV t'.graphE T := by
  have hts : tg ≠ src := h.tree.ne_of_joins h.mem h.joins
  obtain ⟨hdt, hds⟩ := hz e h.mem h.free h.zero tg src h.joins
  refine ⟨?_, ?_⟩
  · intro x hx
    rw [h.spec.graphV, mem_filter_ne]
    refine ⟨hT.1 x hx, ?_⟩
    rintro rfl
    have := (hT.2 x (hT.1 x hx)).mpr hx
    omega
  · intro v hv
    rw [h.spec.graphV, mem_filter_ne] at hv
    rw [contract_deg h.spec hts v, ← hT.2 v hv.1]
    simp only [hv.2, if_false]
    by_cases hvt : v = tg
    · subst hvt
      simp only [if_true]
      omega
    · simp only [hvt, if_false]

/-- every contraction step of the traversal is a `ZContract` (after the field updates of `rzleDecide`,
    which change neither graph, nor positions, nor `hasFixedRoute`) -/
theorem rzleStep_terminals {s s2 : Imp} (ht : Tree s.t) (hz : NoLeafZero s.t) (h : RzleStep s s2)
    (T : List Nat) (hT : LeavesAre s.t.graphV s.t.graphE T) :
    Tree s2.t ∧ NoLeafZero s2.t ∧ LeavesAre s2.t.graphV s2.t.graphE T := by
  obtain ⟨e, sn, tg, src, s1, t2, he, hsn, hl, hdec, hc, rfl⟩ := h.step
  obtain ⟨ht1, hj1⟩ := rzleDec_spec hdec ht he hsn hl rfl
  -- facts about the intermediate heap `s1.t`
  have hmid : s1.t.graphE = s.t.graphE ∧ s1.t.graphV = s.t.graphV ∧
      (∀ n1 ∈ s1.t.nodes, ∃ n ∈ s.t.nodes, n.id = n1.id ∧ n.point = n1.point) ∧
      (∀ n ∈ s.t.nodes, ∃ n1 ∈ s1.t.nodes, n1.id = n.id ∧ n1.point = n.point) ∧
      (∀ x1 ∈ s1.t.edges, ∃ x ∈ s.t.edges, x.id = x1.id ∧ x.e1 = x1.e1 ∧ x.e2 = x1.e2 ∧
        x.hasFixedRoute = x1.hasFixedRoute) ∧
      (e.hasFixedRoute = false ∧ ZeroLen s.t e) := by
    unfold rzleDec at hdec
    split at hdec
    · rename_i hcond
      simp only [Bool.and_eq_true, Bool.not_eq_true'] at hcond
      have hze := zeroLen_of_zeroLength hcond.2
      split at hdec
      · simp at hdec
      · split at hdec
        · simp at hdec
        · unfold rzleDecide at hdec
          have same : s = s1 → s1.t.graphE = s.t.graphE ∧ s1.t.graphV = s.t.graphV ∧
              (∀ n1 ∈ s1.t.nodes, ∃ n ∈ s.t.nodes, n.id = n1.id ∧ n.point = n1.point) ∧
              (∀ n ∈ s.t.nodes, ∃ n1 ∈ s1.t.nodes, n1.id = n.id ∧ n1.point = n.point) ∧
              (∀ x1 ∈ s1.t.edges, ∃ x ∈ s.t.edges, x.id = x1.id ∧ x.e1 = x1.e1 ∧ x.e2 = x1.e2 ∧
                x.hasFixedRoute = x1.hasFixedRoute) ∧
              (e.hasFixedRoute = false ∧ ZeroLen s.t e) := fun hh => by
            subst hh
            exact ⟨rfl, rfl, fun n1 hn1 => ⟨n1, hn1, rfl, rfl⟩, fun n hn => ⟨n, hn, rfl, rfl⟩,
              fun x1 hx1 => ⟨x1, hx1, rfl, rfl, rfl, rfl⟩, hcond.1, hze⟩
          split at hdec
          · simp only [Option.some.injEq, Prod.mk.injEq] at hdec
            exact same hdec.2.2
          · simp only [Option.some.injEq, Prod.mk.injEq] at hdec
            exact same hdec.2.2
          · simp only [Option.some.injEq, Prod.mk.injEq] at hdec
            exact same hdec.2.2
          · split at hdec
            · simp only [Option.some.injEq, Prod.mk.injEq] at hdec
              obtain ⟨_, _, rfl⟩ := hdec
              refine ⟨?_, ?_, ?_, ?_, ?_, hcond.1, hze⟩
              · exact modEdge_graphE _ _ _ (fun _ => rfl) (fun _ => rfl)
              · exact modNode_graphV _ _ _ (fun _ => rfl)
              · intro n1 hn1
                have hn1' : n1 ∈ s.t.nodes.map _ := hn1
                obtain ⟨n, hn, rfl⟩ := List.mem_map.mp hn1'
                refine ⟨n, hn, ?_, ?_⟩ <;> split <;> rfl
              · intro n hn
                refine ⟨_, (List.mem_map.mpr ⟨n, hn, rfl⟩ : _ ∈ s.t.nodes.map _), ?_, ?_⟩ <;> split <;> rfl
              · intro x1 hx1
                have hx1' : x1 ∈ s.t.edges.map _ := hx1
                obtain ⟨x, hx, rfl⟩ := List.mem_map.mp hx1'
                refine ⟨x, hx, ?_, ?_, ?_, ?_⟩ <;> split <;> rfl
            · simp at hdec
    · simp at hdec
  obtain ⟨hE0, hV0, hN0, hN0', hEd0, hfree, hzero⟩ := hmid
  -- the same facts for the heap the contraction runs on (fix 6964517 may have copied attributes)
  have hp := rzlePrep_spec s1 e.id tg src
  have hE : (rzlePrep s1 e.id tg src).graphE = s.t.graphE := hp.graphE.trans hE0
  have hV : (rzlePrep s1 e.id tg src).graphV = s.t.graphV := hp.graphV.trans hV0
  have hN : ∀ n1 ∈ (rzlePrep s1 e.id tg src).nodes, ∃ n ∈ s.t.nodes, n.id = n1.id ∧ n.point = n1.point := by
    intro n1 hn1
    obtain ⟨m, hm, hid, _, _, hpt⟩ := hp.back n1 hn1
    obtain ⟨n, hn, hid', hpt'⟩ := hN0 m hm
    exact ⟨n, hn, hid'.trans hid, hpt'.trans hpt⟩
  have hN' : ∀ n ∈ s.t.nodes, ∃ n1 ∈ (rzlePrep s1 e.id tg src).nodes, n1.id = n.id ∧ n1.point = n.point := by
    intro n hn
    obtain ⟨m, hm, hid, hpt⟩ := hN0' n hn
    obtain ⟨n1, hn1, hid', _, _, hpt'⟩ := hp.fwd m hm
    exact ⟨n1, hn1, hid'.trans hid, hpt'.trans hpt⟩
  have hEd : ∀ x1 ∈ (rzlePrep s1 e.id tg src).edges, ∃ x ∈ s.t.edges, x.id = x1.id ∧ x.e1 = x1.e1 ∧
      x.e2 = x1.e2 ∧ x.hasFixedRoute = x1.hasFixedRoute := by
    intro x1 hx1
    rw [hp.edges] at hx1
    exact hEd0 x1 hx1
  have ht1 := hp.tree ht1
  have hj1 := hp.joinsId hj1
  -- transport the hypotheses to `s1.t`
  have hz1 : NoLeafZero (rzlePrep s1 e.id tg src) := by
    intro x1 hx1 hf1 hzl a b hj
    obtain ⟨x, hx, _, h1, h2, h3⟩ := hEd x1 hx1
    rw [hE]
    refine hz x hx (by rw [h3]; exact hf1) ?_ a b ?_
    · obtain ⟨na, hna, nb, hnb, g1, g2, hp⟩ := hzl
      obtain ⟨n, hn, hid, hpt⟩ := hN na hna
      obtain ⟨m, hm, hid', hpt'⟩ := hN nb hnb
      exact ⟨n, hn, m, hm, by rw [h1, g1, hid], by rw [h2, g2, hid'], by rw [hpt, hpt', hp]⟩
    · rcases hj with ⟨j1, j2⟩ | ⟨j1, j2⟩
      · exact Or.inl ⟨by rw [h1]; exact j1, by rw [h2]; exact j2⟩
      · exact Or.inr ⟨by rw [h1]; exact j1, by rw [h2]; exact j2⟩
  have hT1 : LeavesAre (rzlePrep s1 e.id tg src).graphV (rzlePrep s1 e.id tg src).graphE T := by rw [hE, hV]; exact hT
  obtain ⟨e1, he1, heid, hj⟩ := hj1
  obtain ⟨t2', hc', ht2, hspec⟩ := contract_tree ht1 he1 hj
  rw [heid, hc] at hc'
  cases hc'
  -- `e1` is `e` up to the cleared connector pointer: zero-length and not fixed in `s1.t` too
  obtain ⟨x, hx, hxid, h1, h2, h3⟩ := hEd e1 he1
  have hxe : x = e := ht.1.edge_eq hx he (hxid.trans heid)
  rw [hxe] at h1 h2 h3
  have hzero1 : ZeroLen (rzlePrep s1 e.id tg src) e1 := by
    obtain ⟨na, hna, nb, hnb, g1, g2, hp⟩ := hzero
    obtain ⟨n, hn, hid, hpt⟩ := hN' na hna
    obtain ⟨m, hm, hid', hpt'⟩ := hN' nb hnb
    exact ⟨n, hn, m, hm, by rw [← h1, g1, hid], by rw [← h2, g2, hid'], by rw [hpt, hpt', hp]⟩
  have hzc : ZContract (rzlePrep s1 e.id tg src) t2 e1 tg src := ⟨ht1, he1, hj, hzero1, by rw [← h3]; exact hfree, hspec⟩
  exact ⟨ht2, hzc.noLeafZero hz1, hzc.leaves hz1 T hT1⟩

/-- `removeZeroLengthEdges(node, ignored)`: if no zero-length non-fixed edge ends at a leaf, the traversal
    keeps the tree, the side condition, and the set of leaves -/
theorem rzleNode_terminals {f : Nat} {s : Imp} {self : Nat} {ign : Option Nat} {s' : Imp} (ht : Tree s.t)
    (hz : NoLeafZero s.t) (T : List Nat) (hT : LeavesAre s.t.graphV s.t.graphE T)
    (h : rzleNode f s self ign = some s') :
    Tree s'.t ∧ NoLeafZero s'.t ∧ LeavesAre s'.t.graphV s'.t.graphE T :=
  (rzle_inv_all (fun x => Tree x.t ∧ NoLeafZero x.t ∧ LeavesAre x.t.graphV x.t.graphE T)
    (fun _ _ hP hstep => rzleStep_terminals hP.1 hP.2.1 hstep T hP.2.2) f).1 s self ign s' ⟨ht, hz, hT⟩ h

end AdaptaVerif.Lemmas.HyperTreeTerminals
