/-
Lemmas about `Model/OrthVis.lean`, part 8 (core Lean only): paths in the model graph — along a row (`HPath`),
along a column (`VPath`), routes walking edges in either direction (`UPath`); reachability along a line gives
such paths; provenance of connector end point vertices on vertical lines.
-/
import AdaptaVerif.Lemmas.OrthVisProv

namespace AdaptaVerif.Lemmas.OrthVis
open AdaptaVerif.Model.OrthVis

/-- a path of graph edges from `u` to `v` all of whose vertices lie on the horizontal line `y` -/
inductive HPath (G : List (GV × GV)) (y : Rat) : GV → GV → Prop
  | refl (u : GV) : u.y = y → HPath G y u u
  | step {u w v : GV} : (u, w) ∈ G → u.y = y → HPath G y w v → HPath G y u v

theorem HPath_of_reach (s : Scene) (h : Seg) (vs : List LV) (hl : (h, vs) ∈ s.lines.hs) {a b : BP}
    (hr : Reach (lineEdges (toBPs (dirsX s.fixDirs) vs)) a b) :
    HPath s.graph h.p ⟨a.t, h.p, a.k⟩ ⟨b.t, h.p, b.k⟩ := by
  induction hr with
  | refl a => exact HPath.refl _ rfl
  | @step a c b he _ ih =>
    refine HPath.step ?_ rfl ih
    unfold Scene.graph Lines.edges
    rw [lines_conns]
    apply List.mem_append_left
    exact List.mem_flatMap.mpr ⟨(h, vs), hl, List.mem_map.mpr ⟨(a, c), he, rfl⟩⟩

/-- a connector end point vertex on a vertical line of the model is the vertex of a live end point lying
    on that line -/
theorem conn_vertex_provenance_v (s : Scene) (p : Seg × List LV) (hp : p ∈ s.lines.vs) (t : Rat) (k : Nat)
    (hq : (⟨t, .conn k⟩ : LV) ∈ p.2) : ∃ c, s.fixDirs[k]? = some c ∧ c.x = p.1.p ∧ c.y = t := by
  obtain ⟨_, e⟩ := lines_vs_form s p hp
  rw [e] at hq
  unfold vVerts at hq
  rcases mem_ensureFin' hq with hq | hq
  · rcases mem_ensureFin' hq with hq | hq
    · obtain ⟨ph, hph, hq⟩ := List.mem_flatMap.mp hq
      unfold vFrom at hq
      split at hq
      · obtain ⟨q, hqf, hqe⟩ := List.mem_map.mp hq
        obtain ⟨hq1, hq2⟩ := List.mem_filter.mp hqf
        have hqt : q.t = p.1.p := by simpa using hq2
        injection hqe with e1 e2
        have : q = ⟨p.1.p, .conn k⟩ := by
          rcases q with ⟨qt, qk⟩
          simp only at hqt e2
          rw [hqt, e2]
        rw [this] at hq1
        obtain ⟨c, hc, ex, ey⟩ := conn_vertex_provenance s ph hph p.1.p k hq1
        exact ⟨c, hc, ex, by rw [ey, e1]⟩
      · simp at hq
    · cases hq
  · cases hq

/-- a path of graph edges from `u` to `v` all of whose vertices lie on the vertical line `x` -/
inductive VPath (G : List (GV × GV)) (x : Rat) : GV → GV → Prop
  | refl (u : GV) : u.x = x → VPath G x u u
  | step {u w v : GV} : (u, w) ∈ G → u.x = x → VPath G x w v → VPath G x u v

theorem VPath_of_reach (s : Scene) (v : Seg) (vs : List LV) (hl : (v, vs) ∈ s.lines.vs) {a b : BP}
    (hr : Reach (lineEdges (toBPs (dirsY s.fixDirs) vs)) a b) :
    VPath s.graph v.p ⟨v.p, a.t, a.k⟩ ⟨v.p, b.t, b.k⟩ := by
  induction hr with
  | refl a => exact VPath.refl _ rfl
  | @step a c b he _ ih =>
    refine VPath.step ?_ rfl ih
    unfold Scene.graph Lines.edges
    rw [lines_conns]
    apply List.mem_append_right
    exact List.mem_flatMap.mpr ⟨(v, vs), hl, List.mem_map.mpr ⟨(a, c), he, rfl⟩⟩

/-- a route in the graph: edges may be walked in either direction -/
inductive UPath (G : List (GV × GV)) : GV → GV → Prop
  | refl (u : GV) : UPath G u u
  | step {u w v : GV} : ((u, w) ∈ G ∨ (w, u) ∈ G) → UPath G w v → UPath G u v

theorem UPath.trans {G : List (GV × GV)} {u v w : GV} (h1 : UPath G u v) (h2 : UPath G v w) : UPath G u w := by
  induction h1 with
  | refl _ => exact h2
  | step he _ ih => exact UPath.step he (ih h2)

theorem UPath.symm {G : List (GV × GV)} {u v : GV} (h : UPath G u v) : UPath G v u := by
  induction h with
  | refl _ => exact UPath.refl _
  | @step u w v he _ ih =>
    exact ih.trans (UPath.step (by rcases he with h | h; exact Or.inr h; exact Or.inl h) (UPath.refl _))

theorem UPath.of_HPath {G : List (GV × GV)} {y : Rat} {u v : GV} (h : HPath G y u v) : UPath G u v := by
  induction h with
  | refl u _ => exact UPath.refl u
  | step he _ _ ih => exact UPath.step (Or.inl he) ih

theorem UPath.of_VPath {G : List (GV × GV)} {x : Rat} {u v : GV} (h : VPath G x u v) : UPath G u v := by
  induction h with
  | refl u _ => exact UPath.refl u
  | step he _ _ ih => exact UPath.step (Or.inl he) ih

end AdaptaVerif.Lemmas.OrthVis
