/-
C17 — the two initialisations of Floyd–Warshall:
  * as originally coded (`fwEdgesOrig`: plain assignment `D[u][v] = D[v][u] = w`) — meets the
    hypotheses of `fwLoop_correct` on graphs without self-loops and parallel edges;
  * as coded now, after the fix in /repo (`fwEdges`: `if (u != v && w < D[u][v]) …`, i.e. minimum
    over parallel edges, self-loops skipped) — meets them on every valid multigraph.
-/
import AdaptaVerif.Lemmas.ApspFW
namespace AdaptaVerif.Lemmas.Apsp
open AdaptaVerif.Model.ShortestPaths AdaptaVerif.Spec.Apsp

/-! ### diagonal initialisation -/

def DiagInv (n m : Nat) (D : Mat) : Prop :=
  Mat.WF n D ∧ (∀ i, i < m → D.get i i = some 0) ∧
    (∀ a b d, D.get a b = some d → a = b ∧ d = 0 ∧ a < n)

theorem fwDiag_partial (n : Nat) : ∀ m, m ≤ n →
    DiagInv n m ((List.range m).foldl (fun D i => D.set i i (some 0)) (Mat.const n none)) := by
  intro m
  induction m with
  | zero =>
    intro _
    refine ⟨Mat.WF_const n none, fun i hi => absurd hi (Nat.not_lt_zero _), ?_⟩
    intro a b d hd
    rw [List.range_zero, List.foldl_nil, Mat.get_const] at hd
    split at hd <;> cases hd
  | succ m ih =>
    intro hm
    obtain ⟨hwf, hd0, honly⟩ := ih (by omega)
    rw [List.range_succ, List.foldl_append]
    simp only [List.foldl_cons, List.foldl_nil]
    have hmn : m < n := by omega
    refine ⟨Mat.WF_set hwf _ _ _, ?_, ?_⟩
    · intro i hi
      by_cases him : i = m
      · subst him; exact Mat.get_set_eq _ hwf i i _ hmn hmn
      · rw [Mat.get_set_ne _ m m i i _ (Or.inl him)]
        exact hd0 i (by omega)
    · intro a b d hd
      by_cases hab : a = m ∧ b = m
      · rw [hab.1, hab.2, Mat.get_set_eq _ hwf m m _ hmn hmn] at hd
        simp only [Option.some.injEq] at hd
        exact ⟨by rw [hab.1, hab.2], hd.symm, by rw [hab.1]; exact hmn⟩
      · have : a ≠ m ∨ b ≠ m := by
          by_cases ha : a = m
          · right; exact fun hb => hab ⟨ha, hb⟩
          · left; exact ha
        rw [Mat.get_set_ne _ m m a b _ this] at hd
        exact honly a b d hd

theorem fwDiag_inv (n : Nat) : DiagInv n n (fwDiag n) := fwDiag_partial n n (le_refl _)

theorem fwDiag_real (g : Graph) : Real g (fwDiag g.n) := by
  intro a b d hd
  obtain ⟨rfl, rfl, ha⟩ := (fwDiag_inv g.n).2.2 a b d hd
  exact Walk.nil ha

/-! ### writing an edge weight -/

theorem set_real {g : Graph} {D : Mat} (h : Real g D) {a b : Nat} {x : Rat} (hw : Walk g a b x) :
    Real g (D.set a b (some x)) := by
  intro a' b' d hd
  by_cases hab : a' = a ∧ b' = b
  · obtain ⟨rfl, rfl⟩ := hab
    rcases Mat.get_set_self D a' b' (some x) with e | e
    · rw [e] at hd; simp only [Option.some.injEq] at hd; rw [← hd]; exact hw
    · rw [e] at hd; exact h _ _ _ hd
  · have : a' ≠ a ∨ b' ≠ b := by
      by_cases ha : a' = a
      · right; exact fun hb => hab ⟨ha, hb⟩
      · left; exact ha
    rw [Mat.get_set_ne D a b a' b' _ this] at hd
    exact h _ _ _ hd

/-! ### initialisation as originally coded (before the fix) -/

theorem fwEdgesOrig_cons (e : Nat × Nat × Rat) (rest : List (Nat × Nat × Rat)) (D : Mat) :
    fwEdgesOrig (e :: rest) D = fwEdgesOrig rest ((D.set e.2.1 e.1 (some e.2.2)).set e.1 e.2.1 (some e.2.2)) := rfl

theorem fwEdgesOrig_WF {n : Nat} : ∀ (es : List (Nat × Nat × Rat)) (D : Mat), Mat.WF n D → Mat.WF n (fwEdgesOrig es D) := by
  intro es
  induction es with
  | nil => intro D h; exact h
  | cons e rest ih => intro D h; rw [fwEdgesOrig_cons]; exact ih _ (Mat.WF_set (Mat.WF_set h _ _ _) _ _ _)

theorem fwEdgesOrig_real {g : Graph} (hv : Valid g) : ∀ (es : List (Nat × Nat × Rat)), (∀ e ∈ es, e ∈ g.edges) →
    ∀ (D : Mat), Real g D → Real g (fwEdgesOrig es D) := by
  intro es
  induction es with
  | nil => intro _ D h; exact h
  | cons e rest ih =>
    intro hsub D h
    rw [fwEdgesOrig_cons]
    have hmem : e ∈ g.edges := hsub e (List.mem_cons_self)
    have he : HasEdge g e.1 e.2.1 e.2.2 := Or.inl hmem
    exact ih (fun e' he' => hsub e' (List.mem_cons_of_mem _ he')) _
      (set_real (set_real h (Walk.edge hv (HasEdge.symm he))) (Walk.edge hv he))

/-- cells whose (unordered) index pair is not an edge of `es` keep their value -/
theorem fwEdgesOrig_untouched (a b : Nat) : ∀ (es : List (Nat × Nat × Rat)) (D : Mat),
    (∀ f ∈ es, ¬((f.1 = a ∧ f.2.1 = b) ∨ (f.1 = b ∧ f.2.1 = a))) → (fwEdgesOrig es D).get a b = D.get a b := by
  intro es
  induction es with
  | nil => intro D _; rfl
  | cons f rest ih =>
    intro D h
    rw [fwEdgesOrig_cons, ih _ (fun f' hf' => h f' (List.mem_cons_of_mem _ hf'))]
    have hf := h f (List.mem_cons_self)
    have h1 : a ≠ f.1 ∨ b ≠ f.2.1 := by
      by_cases ha : a = f.1
      · right; intro hb; exact hf (Or.inl ⟨ha.symm, hb.symm⟩)
      · left; exact ha
    have h2 : a ≠ f.2.1 ∨ b ≠ f.1 := by
      by_cases ha : a = f.2.1
      · right; intro hb; exact hf (Or.inr ⟨hb.symm, ha.symm⟩)
      · left; exact ha
    rw [Mat.get_set_ne _ _ _ _ _ _ h1, Mat.get_set_ne _ _ _ _ _ _ h2]

/-- without parallel edges every edge's weight survives in both cells -/
theorem fwEdgesOrig_edges {n : Nat} : ∀ (es : List (Nat × Nat × Rat)) (D : Mat), Mat.WF n D →
    (∀ e ∈ es, e.1 < n ∧ e.2.1 < n) → es.Pairwise (fun e f => ¬ SameEnds e f) →
    ∀ e ∈ es, (fwEdgesOrig es D).get e.1 e.2.1 = some e.2.2 ∧ (fwEdgesOrig es D).get e.2.1 e.1 = some e.2.2 := by
  intro es
  induction es with
  | nil => intro D _ _ _ e he; cases he
  | cons f rest ih =>
    intro D hwf hlt hpw e he
    rw [fwEdgesOrig_cons]
    have hwf1 : Mat.WF n (D.set f.2.1 f.1 (some f.2.2)) := Mat.WF_set hwf _ _ _
    have hwf2 : Mat.WF n ((D.set f.2.1 f.1 (some f.2.2)).set f.1 f.2.1 (some f.2.2)) := Mat.WF_set hwf1 _ _ _
    rw [List.pairwise_cons] at hpw
    rcases List.mem_cons.mp he with rfl | he'
    · have hb := hlt e (List.mem_cons_self)
      constructor
      · rw [fwEdgesOrig_untouched e.1 e.2.1 rest _ (by
          intro f' hf' hc
          apply hpw.1 f' hf'
          rcases hc with ⟨h1, h2⟩ | ⟨h1, h2⟩
          · exact Or.inl ⟨h1.symm, h2.symm⟩
          · exact Or.inr ⟨h2.symm, h1.symm⟩)]
        exact Mat.get_set_eq _ hwf1 _ _ _ hb.1 hb.2
      · rw [fwEdgesOrig_untouched e.2.1 e.1 rest _ (by
          intro f' hf' hc
          apply hpw.1 f' hf'
          rcases hc with ⟨h1, h2⟩ | ⟨h1, h2⟩
          · exact Or.inr ⟨h2.symm, h1.symm⟩
          · exact Or.inl ⟨h1.symm, h2.symm⟩)]
        by_cases huv : e.1 = e.2.1
        · rw [← huv]
          have := Mat.get_set_eq _ hwf1 e.1 e.2.1 (some e.2.2) hb.1 hb.2
          rw [← huv] at this
          exact this
        · rw [Mat.get_set_ne _ _ _ _ _ _ (Or.inr huv)]
          exact Mat.get_set_eq _ hwf _ _ _ hb.2 hb.1
    · exact ih _ hwf2 (fun e' he'' => hlt e' (List.mem_cons_of_mem _ he'')) hpw.2 e he'

/-- the originally coded initial matrix meets the hypotheses of `fwLoop_correct` on simple graphs -/
theorem fwInitOrig_simple {g : Graph} (hv : Valid g) (hs : Simple g) :
    Mat.WF g.n (fwEdgesOrig g.edges (fwDiag g.n)) ∧ Real g (fwEdgesOrig g.edges (fwDiag g.n)) ∧ (∀ i, i < g.n → leC (fwEdgesOrig g.edges (fwDiag g.n)) i i 0) ∧
    (∀ i j w, HasEdge g i j w → leC (fwEdgesOrig g.edges (fwDiag g.n)) i j w) := by
  have hd := fwDiag_inv g.n
  refine ⟨fwEdgesOrig_WF _ _ hd.1, fwEdgesOrig_real hv _ (fun _ h => h) _ (fwDiag_real g), ?_, ?_⟩
  · intro i hi
    refine ⟨0, ?_, le_refl _⟩
    rw [fwEdgesOrig_untouched i i g.edges _ (by
      intro f hf hc
      apply hs.1 f hf
      rcases hc with ⟨h1, h2⟩ | ⟨h1, h2⟩ <;> rw [h1, h2])]
    exact hd.2.1 i hi
  · intro i j w he
    have hlt : ∀ e ∈ g.edges, e.1 < g.n ∧ e.2.1 < g.n := fun e he => ⟨(hv e he).1, (hv e he).2.1⟩
    rcases he with he | he
    · exact ⟨w, (fwEdgesOrig_edges g.edges _ hd.1 hlt hs.2 _ he).1, le_refl _⟩
    · exact ⟨w, (fwEdgesOrig_edges g.edges _ hd.1 hlt hs.2 _ he).2, le_refl _⟩

/-! ### initialisation as coded now (minimum over parallel edges, self-loops skipped) -/

def Sym (D : Mat) : Prop := ∀ a b, D.get a b = D.get b a

theorem fwEdges_cons (e : Nat × Nat × Rat) (rest : List (Nat × Nat × Rat)) (D : Mat) :
    fwEdges (e :: rest) D = fwEdges rest
      (if e.1 ≠ e.2.1 ∧ gtD (D.get e.1 e.2.1) e.2.2 = true then
        (D.set e.2.1 e.1 (some e.2.2)).set e.1 e.2.1 (some e.2.2)
       else D) := rfl

/-- everything the edge pass has to keep -/
structure FixInv (g : Graph) (D : Mat) : Prop where
  wf : Mat.WF g.n D
  real : Real g D
  sym : Sym D

theorem fixStep_inv {g : Graph} (hv : Valid g) {D : Mat} (h : FixInv g D) {u v : Nat} {w : Rat}
    (he : HasEdge g u v w) (huv : u ≠ v) (hg : gtD (D.get u v) w = true) :
    let D' := (D.set v u (some w)).set u v (some w)
    FixInv g D' ∧ Mat.Le D' D ∧ leC D' u v w ∧ leC D' v u w := by
  intro D'
  have hb := HasEdge.valid hv he
  have hwf1 : Mat.WF g.n (D.set v u (some w)) := Mat.WF_set h.wf _ _ _
  have hwf2 : Mat.WF g.n D' := Mat.WF_set hwf1 _ _ _
  have huvget : D'.get u v = some w := Mat.get_set_eq _ hwf1 u v _ hb.1 hb.2.1
  have hvuget : D'.get v u = some w := by
    show ((D.set v u (some w)).set u v (some w)).get v u = some w
    rw [Mat.get_set_ne _ u v v u _ (Or.inl (Ne.symm huv))]
    exact Mat.get_set_eq _ h.wf v u _ hb.2.1 hb.1
  have hother : ∀ a b, ¬(a = u ∧ b = v) → ¬(a = v ∧ b = u) → D'.get a b = D.get a b := by
    intro a b h1 h2
    have n1 : a ≠ u ∨ b ≠ v := by
      by_cases ha : a = u
      · right; exact fun hb' => h1 ⟨ha, hb'⟩
      · left; exact ha
    have n2 : a ≠ v ∨ b ≠ u := by
      by_cases ha : a = v
      · right; exact fun hb' => h2 ⟨ha, hb'⟩
      · left; exact ha
    show ((D.set v u (some w)).set u v (some w)).get a b = D.get a b
    rw [Mat.get_set_ne _ u v a b _ n1, Mat.get_set_ne _ v u a b _ n2]
  -- the overwritten value was larger than `w`
  have hold : ∀ d c, D.get u v = some d → d ≤ c → w ≤ c := by
    intro d c hd hdc
    rw [hd, gtD_some] at hg
    linarith
  refine ⟨⟨hwf2, ?_, ?_⟩, ?_, ?_, ?_⟩
  · intro a b d hd
    by_cases h1 : a = u ∧ b = v
    · rw [h1.1, h1.2, huvget] at hd
      injection hd with hd
      rw [h1.1, h1.2, ← hd]; exact Walk.edge hv he
    · by_cases h2 : a = v ∧ b = u
      · rw [h2.1, h2.2, hvuget] at hd
        injection hd with hd
        rw [h2.1, h2.2, ← hd]; exact Walk.edge hv (HasEdge.symm he)
      · rw [hother a b h1 h2] at hd; exact h.real a b d hd
  · intro a b
    by_cases h1 : a = u ∧ b = v
    · rw [h1.1, h1.2, huvget, hvuget]
    · by_cases h2 : a = v ∧ b = u
      · rw [h2.1, h2.2, huvget, hvuget]
      · rw [hother a b h1 h2, hother b a (fun h => h2 ⟨h.2, h.1⟩) (fun h => h1 ⟨h.2, h.1⟩)]
        exact h.sym a b
  · intro a b c hc
    obtain ⟨d, hd, hdc⟩ := hc
    by_cases h1 : a = u ∧ b = v
    · rw [h1.1, h1.2] at hd ⊢
      exact ⟨w, huvget, hold d c hd hdc⟩
    · by_cases h2 : a = v ∧ b = u
      · rw [h2.1, h2.2] at hd ⊢
        rw [h.sym] at hd
        exact ⟨w, hvuget, hold d c hd hdc⟩
      · exact ⟨d, by rw [hother a b h1 h2]; exact hd, hdc⟩
  · exact ⟨w, huvget, le_refl _⟩
  · exact ⟨w, hvuget, le_refl _⟩

theorem fwEdges_inv {g : Graph} (hv : Valid g) : ∀ (es : List (Nat × Nat × Rat)), (∀ e ∈ es, e ∈ g.edges) →
    ∀ (D : Mat), FixInv g D →
      FixInv g (fwEdges es D) ∧ Mat.Le (fwEdges es D) D ∧
      (∀ e ∈ es, e.1 ≠ e.2.1 → leC (fwEdges es D) e.1 e.2.1 e.2.2 ∧ leC (fwEdges es D) e.2.1 e.1 e.2.2) := by
  intro es
  induction es with
  | nil => intro _ D h; exact ⟨h, Mat.Le.refl _, fun e he => by cases he⟩
  | cons f rest ih =>
    intro hsub D h
    rw [fwEdges_cons]
    have hsub' : ∀ e ∈ rest, e ∈ g.edges := fun e' he' => hsub e' (List.mem_cons_of_mem _ he')
    by_cases hc : f.1 ≠ f.2.1 ∧ gtD (D.get f.1 f.2.1) f.2.2 = true
    · rw [if_pos hc]
      have hef : HasEdge g f.1 f.2.1 f.2.2 := Or.inl (hsub f (List.mem_cons_self))
      obtain ⟨s1, s2, s3, s4⟩ := fixStep_inv hv h hef hc.1 hc.2
      obtain ⟨i1, i2, i3⟩ := ih hsub' _ s1
      refine ⟨i1, Mat.Le.trans i2 s2, ?_⟩
      intro e he hne
      rcases List.mem_cons.mp he with rfl | he'
      · exact ⟨i2 _ _ _ s3, i2 _ _ _ s4⟩
      · exact i3 e he' hne
    · rw [if_neg hc]
      obtain ⟨i1, i2, i3⟩ := ih hsub' D h
      refine ⟨i1, i2, ?_⟩
      intro e he hne
      rcases List.mem_cons.mp he with rfl | he'
      · -- not overwritten: the stored value is already `≤ w`
        have hng : ¬ gtD (D.get e.1 e.2.1) e.2.2 = true := fun hg => hc ⟨hne, hg⟩
        cases hd : D.get e.1 e.2.1 with
        | none => rw [hd] at hng; exact absurd rfl hng
        | some b =>
          rw [hd, gtD_some] at hng
          have hle : b ≤ e.2.2 := not_lt.mp hng
          exact ⟨i2 _ _ _ ⟨b, hd, hle⟩, i2 _ _ _ ⟨b, by rw [h.sym]; exact hd, hle⟩⟩
      · exact i3 e he' hne

/-- the initial matrix of the current code meets the hypotheses of `fwLoop_correct` on every
    valid multigraph -/
theorem fwInit_ok {g : Graph} (hv : Valid g) :
    Mat.WF g.n (fwInit g) ∧ Real g (fwInit g) ∧ (∀ i, i < g.n → leC (fwInit g) i i 0) ∧
      (∀ i j w, HasEdge g i j w → leC (fwInit g) i j w) := by
  have hd := fwDiag_inv g.n
  have hsym : Sym (fwDiag g.n) := by
    intro a b
    cases h1 : (fwDiag g.n).get a b with
    | some d =>
      have := (hd.2.2 a b d h1).1
      rw [← this] at h1 ⊢
      exact h1.symm
    | none =>
      cases h2 : (fwDiag g.n).get b a with
      | none => rfl
      | some d =>
        have := (hd.2.2 b a d h2).1
        rw [this] at h2
        rw [this, h2] at h1; cases h1
  have h0 : FixInv g (fwDiag g.n) := ⟨hd.1, fwDiag_real g, hsym⟩
  obtain ⟨i1, i2, i3⟩ := fwEdges_inv hv g.edges (fun _ h => h) _ h0
  have hdiag : ∀ i, i < g.n → leC (fwInit g) i i 0 := fun i hi => i2 _ _ _ ⟨0, hd.2.1 i hi, le_refl _⟩
  refine ⟨i1.wf, i1.real, hdiag, ?_⟩
  intro i j w he
  have hb := HasEdge.valid hv he
  by_cases hij : i = j
  · rw [← hij]
    exact (hdiag i hb.1).mono hb.2.2
  · rcases he with he | he
    · exact (i3 _ he hij).1
    · exact (i3 _ he (Ne.symm hij)).2

end AdaptaVerif.Lemmas.Apsp
