/-
C15 (A) — helper lemmas, part 4: ownership of checkpoint vertices (`ConnRef::m_checkpoint_vertices`).

`cpv s` is the part of the state the checkpoint bookkeeping looks at: (connector id, owned vertices)
in list order, and the two vertex logs.  Every primitive of the model except `addConn`, `freeConn`
and `setCheckpoints` leaves `cpv` unchanged (all connector rewrites — `detachAnchor`, `unpin`,
`setEnd`, `reroute` — keep `id` and `cps`).  `CpOk s` = `Spec.CheckpointsOwned s` plus
"freed ⊆ created"; it is preserved by `step` under `LegalDoc` (the connector ids are pairwise
different by `Core []`, so `setCheckpoints c` rewrites exactly one connector).
-/
import AdaptaVerif.Lemmas.LifecycleFault
namespace AdaptaVerif.Lemmas.Lifecycle
open AdaptaVerif.Model.Lifecycle AdaptaVerif.Spec.Lifecycle

/-! ### the bookkeeping on plain lists -/

/-- `A` = vertices owned by some connector, `Cr` / `F` = the created / freed vertex logs -/
structure VIds (A Cr F : List Id) : Prop where
  nodupOwned : A.Nodup
  nodupCreated : Cr.Nodup
  nodupFreed : F.Nodup
  freedSub : ∀ x ∈ F, x ∈ Cr
  refine : ∀ x, x ∈ A ↔ (x ∈ Cr ∧ x ∉ F)

theorem VIds.perm {A B Cr F : List Id} (h : VIds A Cr F) (hp : A.Perm B) : VIds B Cr F := by
  obtain ⟨h1, h2, h3, h4, h5⟩ := h
  refine ⟨hp.nodup_iff.1 h1, h2, h3, h4, ?_⟩
  intro x; rw [← hp.mem_iff]; exact h5 x

/-- the vertices `D` leave the owned set and are logged as freed -/
theorem VIds.free {A A' D Cr F : List Id} (h : VIds A Cr F) (hp : (D ++ A').Perm A) :
    VIds A' Cr (F ++ D) := by
  obtain ⟨h1, h2, h3, h4, h5⟩ := h.perm hp.symm
  simp only [List.nodup_append, List.mem_append] at h1 h5
  constructor
  · exact h1.2.1
  · exact h2
  · simp only [List.nodup_append]
    refine ⟨h3, h1.1, ?_⟩
    intro a ha b hb hab
    subst hab
    exact ((h5 a).1 (Or.inl hb)).2 ha
  · intro x hx
    rcases List.mem_append.1 hx with hx | hx
    · exact h4 x hx
    · exact ((h5 x).1 (Or.inl hx)).1
  · intro x
    simp only [List.mem_append, not_or]
    constructor
    · intro hx
      have := (h5 x).1 (Or.inr hx)
      exact ⟨this.1, this.2, fun hd => h1.2.2 x hd x hx rfl⟩
    · intro ⟨hc, hf, hd⟩
      rcases (h5 x).2 ⟨hc, hf⟩ with hx | hx
      · exact absurd hx hd
      · exact hx

/-- fresh, pairwise different vertices `vs` are created and owned -/
theorem VIds.add {A Cr F vs : List Id} (h : VIds A Cr F) (hnd : vs.Nodup) (hfresh : ∀ v ∈ vs, v ∉ Cr) :
    VIds (vs ++ A) (Cr ++ vs) F := by
  obtain ⟨h1, h2, h3, h4, h5⟩ := h
  constructor
  · simp only [List.nodup_append]
    refine ⟨hnd, h1, ?_⟩
    intro a ha b hb hab
    subst hab
    exact hfresh a ha ((h5 a).1 hb).1
  · simp only [List.nodup_append]
    refine ⟨h2, hnd, ?_⟩
    intro a ha b hb hab
    subst hab
    exact hfresh a hb ha
  · exact h3
  · intro x hx; exact List.mem_append_left _ (h4 x hx)
  · intro x
    simp only [List.mem_append]
    constructor
    · rintro (hx | hx)
      · exact ⟨Or.inr hx, fun hf => hfresh x hx (h4 x hf)⟩
      · have := (h5 x).1 hx
        exact ⟨Or.inl this.1, this.2⟩
    · rintro ⟨hc | hc, hf⟩
      · exact Or.inr ((h5 x).2 ⟨hc, hf⟩)
      · exact Or.inl hc

/-! ### the checkpoint view of a state -/

def cpv (s : St) : List (Id × List Id) × List Id × List Id :=
  (s.conns.map (fun c => (c.id, c.cps)), s.vcreated, s.vfreed)

def CpOk (s : St) : Prop := VIds s.allCps s.vcreated s.vfreed

theorem cpOk_init : CpOk init := by
  constructor <;> simp [init, St.allCps]

theorem cpOk_owned {s : St} (h : CpOk s) : CheckpointsOwned s :=
  ⟨h.nodupOwned, h.nodupCreated, h.nodupFreed, h.refine⟩

theorem cpv_eq {s t : St} (h : cpv t = cpv s) :
    t.allCps = s.allCps ∧ t.vcreated = s.vcreated ∧ t.vfreed = s.vfreed := by
  simp only [cpv, Prod.mk.injEq] at h
  refine ⟨?_, h.2.1, h.2.2⟩
  have := congrArg (fun l : List (Id × List Id) => l.flatMap (·.2)) h.1
  simpa [St.allCps, List.flatMap_map] using this

theorem cpOk_congr {s t : St} (h : CpOk s) (hv : cpv t = cpv s) : CpOk t := by
  obtain ⟨h1, h2, h3⟩ := cpv_eq hv
  unfold CpOk; rw [h1, h2, h3]; exact h

/-- connectors are mapped by a function that keeps `id` and `cps`; the vertex logs stay -/
theorem cpv_mapConns {s t : St} (f : Conn → Conn) (hf : ∀ c, (f c).id = c.id ∧ (f c).cps = c.cps)
    (hc : t.conns = s.conns.map f) (h1 : t.vcreated = s.vcreated) (h2 : t.vfreed = s.vfreed) :
    cpv t = cpv s := by
  simp only [cpv, hc, h1, h2, List.map_map]
  congr 1
  apply List.map_congr_left
  intro c _
  simp only [Function.comp, (hf c).1, (hf c).2]

@[simp] theorem cpv_addFault (s : St) (f : Fault) : cpv (s.addFault f) = cpv s := rfl
@[simp] theorem cpv_enqueue (s : St) (t : AType) (o : Id) : cpv (s.enqueue t o) = cpv s := by
  unfold St.enqueue; split <;> rfl
@[simp] theorem cpv_dropAction (s : St) (t : AType) (o : Id) : cpv (s.dropAction t o) = cpv s := rfl
@[simp] theorem cpv_removeFromQueue (s : St) (o : Id) : cpv (s.removeFromQueue o) = cpv s := rfl
@[simp] theorem cpv_addCluster (s : St) (k : Id) (r : List Id) : cpv (s.addCluster k r) = cpv s := rfl
@[simp] theorem cpv_setClusterRefs (s : St) (k : Id) (r : List Id) : cpv (s.setClusterRefs k r) = cpv s := rfl
@[simp] theorem cpv_routeClusters (s : St) : cpv s.routeClusters = cpv s := rfl
@[simp] theorem cpv_freeCluster (s : St) (k : Id) : cpv (s.freeCluster k) = cpv s := rfl
@[simp] theorem cpv_modify (s : St) (c : Id) (d : Bool) (e : EndSpec) : cpv (s.modify c d e) = cpv s := rfl
@[simp] theorem cpv_addObst (s : St) (i : Id) (j a : Bool) : cpv (s.addObst i j a) = cpv s := rfl
@[simp] theorem cpv_addPin (s : St) (p o : Id) (c : Nat) : cpv (s.addPin p o c) = cpv s := rfl
@[simp] theorem cpv_unlinkPin (s : St) (p : Id) : cpv (s.unlinkPin p) = cpv s := rfl
@[simp] theorem cpv_closeRouter (s : St) : cpv s.closeRouter = cpv s := rfl
@[simp] theorem cpv_setActions (s : St) (acts : List Action) : cpv { s with actions := acts } = cpv s := rfl
@[simp] theorem cpv_setConsolidate (s : St) (b : Bool) : cpv { s with consolidate := b } = cpv s := rfl

@[simp] theorem cpv_releasePin (s : St) (p : Id) : cpv (s.releasePin p) = cpv s :=
  cpv_mapConns (fun c => { c with src := unpinEnd c.src p, dst := unpinEnd c.dst p })
    (fun _ => ⟨rfl, rfl⟩) rfl rfl rfl

@[simp] theorem cpv_freeObstacle (s : St) (o : Id) : cpv (s.freeObstacle o) = cpv s :=
  cpv_mapConns (fun c => { c with src := detachEnd c.src o, dst := detachEnd c.dst o })
    (fun _ => ⟨rfl, rfl⟩) rfl rfl rfl

@[simp] theorem cpv_reroute (s : St) : cpv (reroute s) = cpv s :=
  cpv_mapConns (fun c => if c.active then
      { c with src := assignPinEnd s.pins c.src, dst := assignPinEnd s.pins c.dst } else c)
    (fun c => by split <;> exact ⟨rfl, rfl⟩) rfl rfl rfl

@[simp] theorem cpv_procRemoveMove (s : St) (a : Action) : cpv (procRemoveMove s a) = cpv s := by
  unfold procRemoveMove
  split
  · split
    · rfl
    · exact cpv_freeObstacle s a.obj
  · split
    · split
      · rfl
      · exact cpv_mapConns (fun c => { c with src := detachEnd c.src a.obj, dst := detachEnd c.dst a.obj })
          (fun _ => ⟨rfl, rfl⟩) rfl rfl rfl
    · rfl

@[simp] theorem cpv_procAddMove (s : St) (a : Action) : cpv (procAddMove s a) = cpv s := by
  unfold procAddMove
  split
  · split <;> rfl
  · rfl

theorem setEnd_cps (c : Conn) (isDst : Bool) (e : End) : (setEnd c isDst e).cps = c.cps := by
  unfold setEnd; split <;> rfl

@[simp] theorem cpv_applyEnd (s : St) (c : Id) (u : Bool × EndSpec) : cpv (applyEnd s c u) = cpv s := by
  unfold applyEnd
  split
  · exact cpv_mapConns (fun x => if x.id == c then setEnd x u.1 none else x)
      (fun x => by split <;> first | exact ⟨setEnd_id .., setEnd_cps ..⟩ | exact ⟨rfl, rfl⟩) rfl rfl rfl
  · rename_i an _
    split
    · rfl
    · exact cpv_mapConns
        (fun x => if x.id == c then setEnd x u.1 (some { anchor := an.obj, cls := an.cls, pin := none }) else x)
        (fun x => by split <;> first | exact ⟨setEnd_id .., setEnd_cps ..⟩ | exact ⟨rfl, rfl⟩) rfl rfl rfl

theorem cpv_foldl {α : Type} (f : St → α → St) (hf : ∀ s a, cpv (f s a) = cpv s)
    (l : List α) (s : St) : cpv (l.foldl f s) = cpv s :=
  foldl_inv (fun t => cpv t = cpv s) f (fun t a ht => (hf t a).trans ht) l s rfl

@[simp] theorem cpv_procConnChange (s : St) (a : Action) : cpv (procConnChange s a) = cpv s := by
  unfold procConnChange
  split
  · split
    · rfl
    · exact cpv_foldl _ (fun s u => cpv_applyEnd s a.obj u) _ _
  · rfl

@[simp] theorem cpv_processActions (s : St) : cpv s.processActions = cpv s := by
  unfold St.processActions
  show cpv (List.foldl procConnChange _ _) = _
  rw [cpv_foldl _ cpv_procConnChange, cpv_foldl _ cpv_procAddMove, cpv_foldl _ cpv_procRemoveMove]

@[simp] theorem cpv_processTransaction (s : St) : cpv s.processTransaction = cpv s := by
  unfold St.processTransaction
  split
  · rfl
  · simp

@[simp] theorem cpv_maybeProcess (s : St) : cpv s.maybeProcess = cpv s := by
  unfold St.maybeProcess
  split
  · rfl
  · simp

theorem cpv_deleteObstacleOp (s : St) (o : Id) (j : Bool) : cpv (deleteObstacleOp s o j) = cpv s := by
  unfold deleteObstacleOp
  cases j <;> simp only [Bool.false_eq_true, ↓reduceIte] <;>
  · split
    · rfl
    · split
      · rfl
      · simp

theorem cpv_moveObstacleOp (s : St) (o : Id) (j : Bool) : cpv (moveObstacleOp s o j) = cpv s := by
  unfold moveObstacleOp
  cases j <;> simp only [Bool.false_eq_true, ↓reduceIte] <;>
  · split
    · rfl
    · split
      · rfl
      · simp

/-! ### the three primitives that change the checkpoint view -/

theorem cpOk_addConn {s : St} (h : CpOk s) (id : Id) (a : Bool) : CpOk (s.addConn id a) := by
  have : (s.addConn id a).allCps = s.allCps := by
    simp [St.allCps, St.addConn, List.flatMap_append]
  unfold CpOk; rw [this]; exact h

/-- the owned vertices split into those of connector `c` and those of the others -/
theorem allCps_split (s : St) (c : Id) :
    (s.cpsOf c ++ (s.conns.filter (fun x => x.id != c)).flatMap (·.cps)).Perm s.allCps := by
  have := (List.filter_append_perm (fun x : Conn => x.id == c) s.conns).flatMap_right (·.cps)
  simpa [St.cpsOf, St.allCps, List.flatMap_append, bne] using this

theorem cpOk_freeConn {s : St} (h : CpOk s) (c : Id) : CpOk (s.freeConn c) := by
  show VIds ((s.conns.filter (fun x => x.id != c)).flatMap (·.cps)) s.vcreated (s.vfreed ++ s.cpsOf c)
  exact VIds.free h (allCps_split s c)

/-- with pairwise different connector ids, rewriting the `cps` of connector `c` replaces exactly
    the vertices of `c` -/
theorem flatMap_setCps (l : List Conn) (c : Id) (vs : List Id) (hnd : (l.map (·.id)).Nodup)
    (hc : c ∈ l.map (·.id)) :
    ((l.map (fun x => if x.id == c then { x with cps := vs } else x)).flatMap (·.cps)).Perm
      (vs ++ (l.filter (fun x => x.id != c)).flatMap (·.cps)) := by
  induction l with
  | nil => cases hc
  | cons a l ih =>
    simp only [List.map_cons, List.nodup_cons] at hnd
    by_cases hac : a.id = c
    · -- `a` is the connector; no other has this id
      have hnot : ∀ x ∈ l, x.id ≠ c := by
        intro x hx hxc
        exact hnd.1 (List.mem_map.2 ⟨x, hx, hxc.trans hac.symm⟩)
      have hmap : l.map (fun x => if x.id == c then { x with cps := vs } else x) = l := by
        conv => rhs; rw [← List.map_id l]
        apply List.map_congr_left
        intro x hx
        rw [if_neg (by simpa using hnot x hx)]; rfl
      have hfil : l.filter (fun x => x.id != c) = l := by
        rw [List.filter_eq_self]; intro x hx; simpa using hnot x hx
      simp only [List.map_cons, List.flatMap_cons, List.filter_cons, hmap, hfil, hac, beq_self_eq_true,
        ↓reduceIte, bne_self_eq_false, Bool.false_eq_true]
      exact List.Perm.refl _
    · have hc' : c ∈ l.map (·.id) := by
        simp only [List.map_cons, List.mem_cons] at hc
        rcases hc with hc | hc
        · exact absurd hc.symm hac
        · exact hc
      have := ih hnd.2 hc'
      have hb : (a.id == c) = false := by simpa using hac
      have hb' : (a.id != c) = true := by simpa using hac
      simp only [List.map_cons, List.flatMap_cons, List.filter_cons, hb, hb', Bool.false_eq_true,
        ↓reduceIte]
      exact (this.append_left a.cps).trans (List.perm_append_comm_assoc _ _ _)

theorem cpOk_setCheckpoints {s : St} (hcore : Core [] s) (h : CpOk s) {c : Id} {vs : List Id}
    (hc : s.hasConn c = true) (hfresh : ∀ v ∈ vs, v ∉ s.vcreated) (hnd : vs.Nodup) :
    CpOk (s.setCheckpoints c vs) := by
  have hn := hcore.ids.nodupAlloc
  simp only [List.nodup_append] at hn
  have hcn : (cids s).Nodup := hn.1.1.2.1
  have h1 := VIds.free (A' := (s.conns.filter (fun x => x.id != c)).flatMap (·.cps)) h (allCps_split s c)
  have h2 := h1.add hnd hfresh
  exact h2.perm (flatMap_setCps s.conns c vs hcn (hasConn_iff.1 hc)).symm

theorem cpOk_freeConns {s : St} (h : CpOk s) (l : List Conn) :
    CpOk (l.foldl (fun s c => s.freeConn c.id) s) :=
  foldl_inv CpOk _ (fun _ c hs => cpOk_freeConn hs c.id) l s h

theorem cpOk_freeObsts {s : St} (h : CpOk s) (l : List Obst) :
    CpOk (l.foldl (fun s o => s.freeObstacle o.id) s) :=
  cpOk_congr h (cpv_foldl _ (fun s o => cpv_freeObstacle s o.id) l s)

theorem cpOk_freeClusters {s : St} (h : CpOk s) (l : List Cluster) :
    CpOk (l.foldl (fun s k => s.freeCluster k.id) s) :=
  cpOk_congr h (cpv_foldl _ (fun s k => cpv_freeCluster s k.id) l s)

/-! ### the operations -/

theorem cpOk_step {s : St} (hcore : Core [] s) (h : CpOk s) (op : Op) (hl : LegalDoc s op = true) :
    CpOk (step s op) := by
  unfold LegalDoc at hl
  simp only [Bool.and_eq_true] at hl
  obtain ⟨hal, hl⟩ := hl
  unfold step
  rw [if_neg (by simp [hal])]
  cases op with
  | newShape id => exact cpOk_congr h (by simp)
  | newJunction id pin => exact cpOk_congr h (by simp)
  | newConn id src dst ctor3 => exact cpOk_congr (cpOk_addConn h id false) (by simp)
  | newPin pin shape cls =>
    dsimp only; split
    · exact cpOk_congr h rfl
    · exact cpOk_congr h (by simp)
  | deleteShape id => exact cpOk_congr h (cpv_deleteObstacleOp s _ _)
  | deleteJunction id => exact cpOk_congr h (cpv_deleteObstacleOp s _ _)
  | deleteConn id =>
    dsimp only; split
    · exact cpOk_congr h rfl
    · exact cpOk_freeConn h _
  | deletePin pin =>
    dsimp only; split
    · exact cpOk_congr h rfl
    · exact cpOk_congr h (by simp)
  | moveShape id => exact cpOk_congr h (cpv_moveObstacleOp s _ _)
  | moveJunction id => exact cpOk_congr h (cpv_moveObstacleOp s _ _)
  | setEndpoint c isDst e =>
    dsimp only; split
    · exact cpOk_congr h rfl
    · exact cpOk_congr h (by simp)
  | setRoutingCheckpoints c vs =>
    simp only [Bool.and_eq_true, List.all_eq_true, decide_eq_true_eq] at hl
    dsimp only
    rw [if_neg (by simp [hl.1.1])]
    exact cpOk_setCheckpoints hcore h hl.1.1 (fun v hv => by simpa using hl.1.2 v hv) hl.2
  | processTransaction => exact cpOk_congr h (by simp)
  | setTransactionUse b => exact cpOk_congr h rfl
  | deleteRouter =>
    exact cpOk_congr (cpOk_freeClusters (cpOk_freeObsts (cpOk_freeConns h _) _) _) (cpv_closeRouter _)
  | rDelConn id =>
    dsimp only; split
    · exact cpOk_congr h rfl
    · exact cpOk_freeConn h _
  | rDelJunction id =>
    dsimp only; split
    · exact cpOk_congr h rfl
    · exact cpOk_congr h (by simp)
  | rNewJunction id pin => exact cpOk_congr h (by simp)
  | rNewConn id => exact cpOk_addConn h id true
  | newCluster id refs => exact cpOk_congr h rfl
  | deleteCluster id =>
    dsimp only; split
    · exact cpOk_congr h rfl
    · exact cpOk_congr h rfl
  | setClusterPoly id refs =>
    dsimp only; split
    · exact cpOk_congr h rfl
    · exact cpOk_congr h rfl
  | touchConn c =>
    dsimp only; split
    · exact cpOk_congr h rfl
    · exact cpOk_congr h (by simp)
  | touchPin pin =>
    dsimp only; split
    · exact cpOk_congr h rfl
    · exact cpOk_congr h (by simp)
  | apiRouter => exact h
  | apiConn c =>
    dsimp only; split
    · exact cpOk_congr h rfl
    · exact h
  | apiObst o =>
    dsimp only; split
    · exact cpOk_congr h rfl
    · exact h

theorem cpOk_run_from {s : St} (hcore : Core [] s) (h : CpOk s) (ops : List Op)
    (hl : legalFrom LegalDoc s ops = true) : CpOk (ops.foldl step s) := by
  induction ops generalizing s with
  | nil => exact h
  | cons op rest ih =>
    simp only [legalFrom, Bool.and_eq_true] at hl
    exact ih (core_step hcore op hl.1) (cpOk_step hcore h op hl.1) hl.2

theorem cpOk_run (ops : List Op) (hl : LegalDocHist ops = true) : CpOk (run ops) :=
  cpOk_run_from core_init cpOk_init ops hl

/-- nothing allocated ⇒ no connector ⇒ nothing owned ⇒ every created vertex has been freed -/
theorem checkpointsReleased_of {s : St} (h : CpOk s) (hal : s.alive = false) (ha : s.allocated = []) :
    CheckpointsReleased s := by
  refine ⟨hal, ?_⟩
  have hconns : s.conns = [] := by
    simp only [St.allocated, List.append_eq_nil_iff, List.map_eq_nil_iff] at ha
    exact ha.1.1.2
  intro v hv
  by_cases hf : v ∈ s.vfreed
  · exact hf
  · have := (h.refine v).2 ⟨hv, hf⟩
    simp [St.allCps, hconns] at this

end AdaptaVerif.Lemmas.Lifecycle
