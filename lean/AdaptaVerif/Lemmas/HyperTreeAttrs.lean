/-
C12, fix 6964517: the repaired `removeZeroLengthEdges` keeps the terminal attributes
(`isConnectorSource`, `isPinDummyEndpoint`, `finalVertex`): every leaf of the result carries the
attributes (and the position) of a leaf of the start — for ALL trees.
-/
import AdaptaVerif.Lemmas.HyperTreeRzle
import AdaptaVerif.Lemmas.HyperTreeTerminals
namespace AdaptaVerif.Lemmas.HyperTreeAttrs
open AdaptaVerif.Model.HyperTree AdaptaVerif.Check.Tree AdaptaVerif.Spec.Tree
open AdaptaVerif.Lemmas.HyperTree AdaptaVerif.Lemmas.HyperTreeRzle AdaptaVerif.Lemmas.HyperTreeTerminals

/-- the attributes of a terminal -/
def TermAttrs (n : HNode) : Bool × Bool × Option Nat :=
  (n.isConnectorSource, n.isPinDummyEndpoint, n.finalVertex)

theorem TermAttrs_of_kept {n n' : HNode} (k : NodeKept n n') : TermAttrs n' = TermAttrs n := by
  simp only [TermAttrs, k.isConnectorSource, k.isPinDummyEndpoint, k.finalVertex]

theorem length_filter_ne_of_nodup {l : List Nat} {a : Nat} (hnd : l.Nodup) (ha : a ∈ l) :
    (l.filter (fun j => j != a)).length + 1 = l.length := by
  induction l with
  | nil => cases ha
  | cons b l ih =>
    have hnd' := List.nodup_cons.mp hnd
    rcases List.mem_cons.mp ha with rfl | ha'
    · have : l.filter (fun j => j != a) = l :=
        List.filter_eq_self.mpr (fun x hx => by simpa using fun (hh : x = a) => hnd'.1 (hh ▸ hx))
      simp [this]
    · have hba : b ≠ a := fun hh => hnd'.1 (hh ▸ ha')
      have : (b != a) = true := by simpa using hba
      simp only [List.filter_cons, this, if_true, List.length_cons]
      have := ih hnd'.2 ha'
      omega

/-- what `keepTerminalAttrs` does to the node records -/
theorem keepTerminalAttrs_spec (t : HTree) (hN : (t.nodes.map (·.id)).Nodup) (e tg src : Nat) :
    (∀ m ∈ (keepTerminalAttrs t e tg src).nodes, m.id ≠ tg → m ∈ t.nodes) ∧
    (∀ m ∈ (keepTerminalAttrs t e tg src).nodes, m.id = tg →
      (m ∈ t.nodes ∧ ¬ ∃ so0 ∈ t.nodes, so0.id = src ∧ so0.edges.filter (fun i => i != e) = []) ∨
      (∃ so0 ∈ t.nodes, so0.id = src ∧ so0.edges.filter (fun i => i != e) = [] ∧
        TermAttrs m = TermAttrs so0)) := by
  unfold keepTerminalAttrs
  split
  · next so hso =>
    obtain ⟨hsom, hsoid⟩ := node?_mem hso
    split
    · next hemp =>
      have hnil : so.edges.filter (fun i => i != e) = [] := by simpa using hemp
      refine ⟨?_, ?_⟩
      · intro m hm hmt
        have hm' : m ∈ t.nodes.map _ := hm
        obtain ⟨n, hn, rfl⟩ := List.mem_map.mp hm'
        by_cases hnt : n.id = tg
        · exfalso
          have hb : (n.id == tg) = true := by simpa using hnt
          rw [if_pos hb] at hmt
          exact hmt hnt
        · have hb : ¬ (n.id == tg) = true := by simpa using hnt
          rw [if_neg hb]; exact hn
      · intro m hm hmt
        have hm' : m ∈ t.nodes.map _ := hm
        obtain ⟨n, hn, rfl⟩ := List.mem_map.mp hm'
        refine Or.inr ⟨so, hsom, hsoid, hnil, ?_⟩
        by_cases hnt : n.id = tg
        · have hb : (n.id == tg) = true := by simpa using hnt
          rw [if_pos hb]; rfl
        · exfalso
          have hb : ¬ (n.id == tg) = true := by simpa using hnt
          rw [if_neg hb] at hmt
          exact hnt hmt
    · next hemp =>
      refine ⟨fun m hm _ => hm, fun m hm _ => Or.inl ⟨hm, ?_⟩⟩
      rintro ⟨so0, hso0, hid0, hnil⟩
      have : so0 = so := eq_of_nodup_key (fun n : HNode => n.id) hN hso0 hsom (hid0.trans hsoid.symm)
      subst this
      apply hemp
      simp [hnil]
  · next hnone =>
    refine ⟨fun m hm _ => hm, fun m hm _ => Or.inl ⟨hm, ?_⟩⟩
    rintro ⟨so0, hso0, hid0, _⟩
    have := node?_of_mem hN hso0
    rw [hid0, hnone] at this
    cases this

/-- what the decision does: `keepAttrs`, the node records up to `junction`, the edge ends; and the
    chosen edge has zero length -/
theorem rzleDec_attrs {s : Imp} {e : HEdge} {sn : HNode} {self tg src : Nat} {s1 : Imp}
    (hdec : rzleDec s e sn self = some (tg, src, s1)) :
    s1.keepAttrs = s.keepAttrs ∧
    (∀ n1 ∈ s1.t.nodes, ∃ n ∈ s.t.nodes, n.id = n1.id ∧ n.edges = n1.edges ∧ n.point = n1.point ∧
      TermAttrs n = TermAttrs n1) ∧
    (∀ x1 ∈ s1.t.edges, ∃ x ∈ s.t.edges, x.id = x1.id ∧ x.e1 = x1.e1 ∧ x.e2 = x1.e2) ∧
    ZeroLen s.t e := by
  unfold rzleDec at hdec
  split at hdec
  · rename_i hcond
    simp only [Bool.and_eq_true, Bool.not_eq_true'] at hcond
    have hze := zeroLen_of_zeroLength hcond.2
    split at hdec
    · simp at hdec
    · split at hdec
      · simp at hdec
      · unfold rzleDecide at hdec
        have same : s = s1 → s1.keepAttrs = s.keepAttrs ∧
            (∀ n1 ∈ s1.t.nodes, ∃ n ∈ s.t.nodes, n.id = n1.id ∧ n.edges = n1.edges ∧ n.point = n1.point ∧
              TermAttrs n = TermAttrs n1) ∧
            (∀ x1 ∈ s1.t.edges, ∃ x ∈ s.t.edges, x.id = x1.id ∧ x.e1 = x1.e1 ∧ x.e2 = x1.e2) ∧
            ZeroLen s.t e := fun hh => by
          subst hh
          exact ⟨rfl, fun n1 hn1 => ⟨n1, hn1, rfl, rfl, rfl, rfl⟩, fun x1 hx1 => ⟨x1, hx1, rfl, rfl, rfl⟩, hze⟩
        split at hdec
        · simp only [Option.some.injEq, Prod.mk.injEq] at hdec
          exact same hdec.2.2
        · simp only [Option.some.injEq, Prod.mk.injEq] at hdec
          exact same hdec.2.2
        · simp only [Option.some.injEq, Prod.mk.injEq] at hdec
          exact same hdec.2.2
        · split at hdec
          · simp only [Option.some.injEq, Prod.mk.injEq] at hdec
            obtain ⟨_, _, rfl⟩ := hdec
            refine ⟨rfl, ?_, ?_, hze⟩
            · intro n1 hn1
              have hn1' : n1 ∈ s.t.nodes.map _ := hn1
              obtain ⟨n, hn, rfl⟩ := List.mem_map.mp hn1'
              refine ⟨n, hn, ?_, ?_, ?_, ?_⟩ <;> split <;> rfl
            · intro x1 hx1
              have hx1' : x1 ∈ s.t.edges.map _ := hx1
              obtain ⟨x, hx, rfl⟩ := List.mem_map.mp hx1'
              refine ⟨x, hx, ?_, ?_, ?_⟩ <;> split <;> rfl
          · simp at hdec
  · simp at hdec

/-- the invariant of the traversal: a tree, attributes are kept, and every leaf carries the attributes
    and the position of a leaf of the start heap `t0` -/
def AttrInv (t0 : HTree) (x : Imp) : Prop :=
  Tree x.t ∧ x.keepAttrs = true ∧
  ∀ n' ∈ x.t.nodes, n'.edges.length = 1 →
    ∃ n ∈ t0.nodes, n.edges.length = 1 ∧ TermAttrs n = TermAttrs n' ∧ n.point = n'.point

theorem joins_end_left {e : HEdge} {a b : Nat} (h : Joins e a b) : e.e1 = some a ∨ e.e2 = some a := by
  rcases h with ⟨h1, _⟩ | ⟨_, h2⟩
  · exact Or.inl h1
  · exact Or.inr h2

theorem joins_end_right {e : HEdge} {a b : Nat} (h : Joins e a b) : e.e1 = some b ∨ e.e2 = some b := by
  rcases h with ⟨_, h2⟩ | ⟨h1, _⟩
  · exact Or.inr h2
  · exact Or.inl h1

/-- one contraction step of the repaired traversal keeps the invariant -/
theorem AttrInv.step {t0 : HTree} {x x2 : Imp} (hI : AttrInv t0 x) (h : RzleStep x x2) :
    AttrInv t0 x2 := by
  obtain ⟨ht, hk, hP⟩ := hI
  have ht2 := rzleStep_tree ht h
  obtain ⟨e, sn, tg, src, s1, t2, he, hsn, hl, hdec, hc, rfl⟩ := h.step
  obtain ⟨ht1, hj1⟩ := rzleDec_spec hdec ht he hsn hl rfl
  obtain ⟨hk1, hNb, hEb, hz⟩ := rzleDec_attrs hdec
  have hk1' : s1.keepAttrs = true := hk1.trans hk
  refine ⟨ht2, hk1', ?_⟩
  have hprep : rzlePrep s1 e.id tg src = keepTerminalAttrs s1.t e.id tg src := by
    unfold rzlePrep; rw [if_pos hk1']
  have hp := rzlePrep_spec s1 e.id tg src
  obtain ⟨e1, he1, hid1, hj⟩ := hj1
  have htp := hp.tree ht1
  have he1' : e1 ∈ (rzlePrep s1 e.id tg src).edges := by rw [hp.edges]; exact he1
  obtain ⟨t2', hc', _, hs⟩ := contract_tree htp he1' hj
  rw [hid1, hc] at hc'
  cases hc'
  obtain ⟨hF1, hF3⟩ := keepTerminalAttrs_spec s1.t ht1.1.nodupN e.id tg src
  rw [← hprep] at hF1 hF3
  have hts : tg ≠ src := htp.ne_of_joins he1' hj
  -- the two ends of the contracted edge have the same position in `x.t`
  have hpts : ∀ a ∈ x.t.nodes, ∀ b ∈ x.t.nodes, a.id = tg → b.id = src → a.point = b.point := by
    obtain ⟨x0, hx0, hx0id, q1, q2⟩ := hEb e1 he1
    have hx0e : x0 = e := ht.1.edge_eq hx0 he (hx0id.trans hid1)
    subst hx0e
    obtain ⟨na, hna, nb, hnb, g1, g2, hpp⟩ := hz
    intro a ha b hb hat hbs
    rw [q1] at g1; rw [q2] at g2
    rcases hj with ⟨j1, j2⟩ | ⟨j1, j2⟩
    · rw [j1] at g1; rw [j2] at g2
      have e1' : a = na := ht.1.node_eq ha hna (hat.trans (Option.some.inj g1))
      have e2' : b = nb := ht.1.node_eq hb hnb (hbs.trans (Option.some.inj g2))
      rw [e1', e2']; exact hpp
    · rw [j1] at g1; rw [j2] at g2
      have e1' : a = nb := ht.1.node_eq ha hnb (hat.trans (Option.some.inj g2))
      have e2' : b = na := ht.1.node_eq hb hna (hbs.trans (Option.some.inj g1))
      rw [e1', e2']; exact hpp.symm
  -- a leaf of `s1.t` goes back to a leaf of the start
  have back : ∀ m ∈ s1.t.nodes, m.edges.length = 1 →
      ∃ n ∈ t0.nodes, n.edges.length = 1 ∧ TermAttrs n = TermAttrs m ∧ n.point = m.point := by
    intro m hm hlen
    obtain ⟨b, hb, _, hbed, hbpt, hbat⟩ := hNb m hm
    obtain ⟨n, hn, hnl, hna, hnp⟩ := hP b hb (by rw [hbed]; exact hlen)
    exact ⟨n, hn, hnl, hna.trans hbat, hnp.trans hbpt⟩
  intro n' hn' hlen
  obtain ⟨n1, hn1, hn1s, k, so, hso, hsoid, hed⟩ := hs.nodes n' hn'
  have hat' : TermAttrs n' = TermAttrs n1 := TermAttrs_of_kept k
  by_cases hnt : n1.id = tg
  · rw [if_pos hnt] at hed
    rcases hF3 n1 hn1 hnt with ⟨hn1m, hno⟩ | ⟨so0, hso0, hso0id, hnil, hattr⟩
    · -- no attributes copied: `src` keeps another edge, so `tg` was the leaf
      have hsom : so ∈ s1.t.nodes := hF1 so hso (by rw [hsoid]; exact Ne.symm hts)
      have hso_ne : so.edges.filter (fun j => j != e1.id) ≠ [] := by
        intro hh
        exact hno ⟨so, hsom, hsoid, by rw [← hid1]; exact hh⟩
      have hin1 : e1.id ∈ n1.edges :=
        (htp.1.mem_edges_iff hn1 he1').mpr (by rw [hnt]; exact joins_end_left hj)
      have l1 := length_filter_ne_of_nodup (htp.1.nodupL n1 hn1) hin1
      have hlen' := hlen
      rw [hed, List.length_append] at hlen'
      have : 0 < (so.edges.filter (fun j => j != e1.id)).length := List.length_pos_iff.mpr hso_ne
      obtain ⟨n, hn, hnl, hna, hnp⟩ := back n1 hn1m (by omega)
      exact ⟨n, hn, hnl, hna.trans hat'.symm, hnp.trans k.point.symm⟩
    · -- the attributes of the leaf `src` were copied to `tg`
      have hin : e1.id ∈ so0.edges :=
        (ht1.1.mem_edges_iff hso0 he1).mpr (by rw [hso0id]; exact joins_end_right hj)
      have l0 := length_filter_ne_of_nodup (ht1.1.nodupL so0 hso0) hin
      rw [hid1, hnil] at l0
      obtain ⟨b, hb, hbid, hbed, hbpt, hbat⟩ := hNb so0 hso0
      obtain ⟨n, hn, hnl, hna, hnp⟩ := hP b hb (by rw [hbed, ← l0]; rfl)
      refine ⟨n, hn, hnl, hna.trans (hbat.trans (hattr.symm.trans hat'.symm)), ?_⟩
      obtain ⟨m0, hm0, hm0id, _, _, hm0pt⟩ := hp.back n1 hn1
      obtain ⟨a, ha, haid, _, hapt, _⟩ := hNb m0 hm0
      have := hpts a ha b hb (haid.trans (hm0id.trans hnt)) (hbid.trans hso0id)
      rw [hnp, k.point, ← hm0pt, ← hapt, this]
  · rw [if_neg hnt, if_neg hnt] at hed
    obtain ⟨n, hn, hnl, hna, hnp⟩ := back n1 (hF1 n1 hn1 hnt) (by rw [← hed]; exact hlen)
    exact ⟨n, hn, hnl, hna.trans hat'.symm, hnp.trans k.point.symm⟩

/-- The repaired `removeZeroLengthEdges` keeps the terminal attributes, for all trees: every leaf of the
    result carries the attributes and the position of a leaf of the start. -/
theorem rzleNode_keeps_terminal_attrs {f : Nat} {s : Imp} {self : Nat} {ign : Option Nat} {s' : Imp}
    (ht : Tree s.t) (hk : s.keepAttrs = true) (h : rzleNode f s self ign = some s') :
    ∀ n' ∈ s'.t.nodes, n'.edges.length = 1 →
      ∃ n ∈ s.t.nodes, n.edges.length = 1 ∧ TermAttrs n = TermAttrs n' ∧ n.point = n'.point := by
  have h0 : AttrInv s.t s := ⟨ht, hk, fun n' hn' hl => ⟨n', hn', hl, rfl, rfl⟩⟩
  exact ((rzle_inv_all (AttrInv s.t) (fun _ _ hI hs => hI.step hs) f).1 s self ign s' h0 h).2.2

/-- the same for the loop and the edge entry points of the traversal, with the invariants carried along -/
theorem rzle_attrInv_all (t0 : HTree) (f : Nat) :
    (∀ s self ign s', AttrInv t0 s → rzleNode f s self ign = some s' → AttrInv t0 s') ∧
    (∀ s self ign l s', AttrInv t0 s → rzleLoop f s self ign l = some s' → AttrInv t0 s') ∧
    (∀ s eid ign s', AttrInv t0 s → rzleEdge f s eid ign = some s' → AttrInv t0 s') :=
  rzle_inv_all (AttrInv t0) (fun _ _ hI hs => hI.step hs) f

end AdaptaVerif.Lemmas.HyperTreeAttrs
