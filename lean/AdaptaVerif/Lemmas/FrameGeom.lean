/-
C20 helper lemmas: how the geometry predicates of Model.Geometry transform under a frame change
`p ↦ S p + t` (S one of the 8 symmetries of the square).
-/
import AdaptaVerif.Model.Frame
import AdaptaVerif.Lemmas.GeometrySpec
namespace AdaptaVerif.Lemmas.FrameGeom
open AdaptaVerif.Model.Geometry AdaptaVerif.Model.Frame
open AdaptaVerif.Lemmas.GeometrySpec

/-- the determinant as a rational -/
def detR (F : Frame) : Rat := (F.det : Int)

theorem det_cases (F : Frame) : F.det = 1 ∨ F.det = -1 := by
  rcases F with ⟨S, t⟩; cases S <;> simp [Frame.det, Sym.det]

theorem detR_cases (F : Frame) : detR F = 1 ∨ detR F = -1 := by
  rcases det_cases F with h | h <;> simp [detR, h]

theorem detR_sq (F : Frame) : detR F * detR F = 1 := by
  rcases detR_cases F with h | h <;> rw [h] <;> norm_num

/-- the signed area scales by the determinant -/
theorem area2_act (F : Frame) (a b c : Pt) :
    area2 (F.act a) (F.act b) (F.act c) = detR F * area2 a b c := by
  rcases F with ⟨S, t⟩
  cases S <;> simp [Frame.act, Sym.apply, area2, detR, Frame.det, Sym.det] <;> ring

theorem act_x_y (F : Frame) (p : Pt) :
    (F.act p).x = (F.sym.apply p).x + F.t.x ∧ (F.act p).y = (F.sym.apply p).y + F.t.y := ⟨rfl, rfl⟩

/-- frames are injective -/
theorem act_injective (F : Frame) (p q : Pt) (h : F.act p = F.act q) : p = q := by
  rcases F with ⟨S, t⟩; rcases p with ⟨px, py⟩; rcases q with ⟨qx, qy⟩
  cases S <;> simp [Frame.act, Sym.apply] at h ⊢ <;> constructor <;> linarith [h.1, h.2]

theorem act_eq_iff (F : Frame) (p q : Pt) : F.act p = F.act q ↔ p = q :=
  ⟨act_injective F p q, fun h => by rw [h]⟩

theorem inv_act (F : Frame) (p : Pt) : F.inv.act (F.act p) = p := by
  rcases F with ⟨S, t⟩; rcases p with ⟨px, py⟩
  cases S <;> simp [Frame.act, Frame.inv, Sym.apply, Sym.inv]

theorem act_inv (F : Frame) (p : Pt) : F.act (F.inv.act p) = p := by
  rcases F with ⟨S, t⟩; rcases p with ⟨px, py⟩
  cases S <;> simp [Frame.act, Frame.inv, Sym.apply, Sym.inv]

/-- orientation: `vecDir (F a) (F b) (F c) = det F · vecDir a b c` -/
theorem vecDir_act (F : Frame) (a b c : Pt) :
    vecDir (F.act a) (F.act b) (F.act c) = F.det * vecDir a b c := by
  have hA := area2_act F a b c
  rcases det_cases F with h | h
  · have : detR F = 1 := by simp [detR, h]
    rw [h, one_mul]
    exact vecDir_congr_sign _ _ _ _ _ _ (by rw [hA, this, one_mul])
  · have hd : detR F = -1 := by simp [detR, h]
    rw [h]
    have hA' : area2 (F.act a) (F.act b) (F.act c) = - area2 a b c := by rw [hA, hd]; ring
    rcases vecDir_cases a b c with ⟨h1, e1⟩ | ⟨h1, e1⟩ | ⟨h1, e1⟩
    · rw [e1, (vecDir_pos _ _ _).2 (by rw [hA']; linarith)]; rfl
    · rw [e1, (vecDir_zero _ _ _).2 (by rw [hA', h1]; ring)]; rfl
    · rw [e1, (vecDir_neg _ _ _).2 (by rw [hA']; linarith)]; rfl

theorem vecDir_act_eq_zero (F : Frame) (a b c : Pt) :
    vecDir (F.act a) (F.act b) (F.act c) = 0 ↔ vecDir a b c = 0 := by
  rw [vecDir_act]
  rcases det_cases F with h | h <;> rw [h] <;> omega

theorem colinear_act (F : Frame) (a b c : Pt) :
    colinear (F.act a) (F.act b) (F.act c) = colinear a b c := by
  apply bool_eq_of_iff
  rw [colinear_iff, colinear_iff, area2_act]
  rcases detR_cases F with h | h <;> rw [h] <;> constructor <;> intro h' <;> linarith

theorem segmentIntersect_act (F : Frame) (a b c d : Pt) :
    segmentIntersect (F.act a) (F.act b) (F.act c) (F.act d) = segmentIntersect a b c d := by
  apply bool_eq_of_iff
  rw [segmentIntersect_signs, segmentIntersect_signs]
  simp only [area2_act]
  have e : ∀ u v : Rat, detR F * u * (detR F * v) = u * v := by
    intro u v
    calc detR F * u * (detR F * v) = (detR F * detR F) * (u * v) := by ring
      _ = u * v := by rw [detR_sq, one_mul]
  rw [e, e]

/-- coordinates of an affine image of a point on a segment -/
theorem act_param (F : Frame) (a b c : Pt) (t : Rat)
    (hx : c.x = a.x + t * (b.x - a.x)) (hy : c.y = a.y + t * (b.y - a.y)) :
    (F.act c).x = (F.act a).x + t * ((F.act b).x - (F.act a).x) ∧
    (F.act c).y = (F.act a).y + t * ((F.act b).y - (F.act a).y) := by
  rcases F with ⟨S, u⟩
  cases S <;> simp only [Frame.act, Sym.apply] <;> constructor <;> (first | (rw [hx]; ring) | (rw [hy]; ring))

theorem pointOnLine_act_imp (F : Frame) (a b c : Pt) (h : pointOnLine a b c = true) :
    pointOnLine (F.act a) (F.act b) (F.act c) = true := by
  rw [pointOnLine_iff] at h ⊢
  obtain ⟨t, h0, h1, ex, ey, hne⟩ := h
  obtain ⟨e1, e2⟩ := act_param F a b c t ex ey
  exact ⟨t, h0, h1, e1, e2, fun hh => hne (act_injective F a b hh)⟩

theorem pointOnLine_act (F : Frame) (a b c : Pt) :
    pointOnLine (F.act a) (F.act b) (F.act c) = pointOnLine a b c := by
  apply bool_eq_of_iff
  constructor
  · intro h
    have := pointOnLine_act_imp F.inv _ _ _ h
    simpa only [inv_act] using this
  · exact pointOnLine_act_imp F a b c

/-- `segmentShapeIntersect` (result and the updated in/out flag) is frame-independent -/
theorem segmentShapeIntersect_act (F : Frame) (e1 e2 s1 s2 : Pt) (seen : Bool) :
    segmentShapeIntersect (F.act e1) (F.act e2) (F.act s1) (F.act s2) seen =
      segmentShapeIntersect e1 e2 s1 s2 seen := by
  have hb : ∀ m n : Int, (m = 0 ↔ n = 0) → (m != 0) = (n != 0) := by
    intro m n h
    by_cases hn : n = 0
    · have hm := h.2 hn
      subst hn; subst hm; rfl
    · have hm : ¬ m = 0 := fun hh => hn (h.1 hh)
      rw [bne_iff_ne.2 hm, bne_iff_ne.2 hn]
  have hz : ∀ a b c : Pt, (vecDir (F.act a) (F.act b) (F.act c) != 0) = (vecDir a b c != 0) :=
    fun a b c => hb _ _ (vecDir_act_eq_zero F a b c)
  have he : ∀ p q : Pt, (F.act p = F.act q) = (p = q) := fun p q => propext (act_eq_iff F p q)
  simp only [segmentShapeIntersect, segmentIntersect_act, pointOnLine_act, hz, he]

/-- `cornerSide` changes sign with the orientation -/
theorem cornerSide_act (F : Frame) (c1 c2 c3 p : Pt) :
    cornerSide (F.act c1) (F.act c2) (F.act c3) (F.act p) = F.det * cornerSide c1 c2 c3 p := by
  rcases det_cases F with h | h
  · simp only [cornerSide, vecDir_act, h, one_mul]
  · simp only [cornerSide, vecDir_act, h]
    rcases vecDir_cases c1 c2 c3 with ⟨_, e1⟩ | ⟨_, e1⟩ | ⟨_, e1⟩ <;>
    rcases vecDir_cases c1 c2 p with ⟨_, e2⟩ | ⟨_, e2⟩ | ⟨_, e2⟩ <;>
    rcases vecDir_cases c2 c3 p with ⟨_, e3⟩ | ⟨_, e3⟩ | ⟨_, e3⟩ <;>
    simp [e1, e2, e3]

/-- under orientation-preserving frames (translations, rotations) `inValidRegion` is invariant -/
theorem inValidRegion_act (F : Frame) (hdet : F.det = 1) (ig : Bool) (a0 a1 a2 b : Pt) :
    inValidRegion ig (F.act a0) (F.act a1) (F.act a2) (F.act b) = inValidRegion ig a0 a1 a2 b := by
  simp only [inValidRegion, vecDir_act, hdet, one_mul]

theorem absR_neg (r : Rat) : absR (-r) = absR r := by
  unfold absR
  split_ifs <;> first | rfl | linarith

theorem manhattanDist_act (F : Frame) (a b : Pt) :
    manhattanDist (F.act a) (F.act b) = manhattanDist a b := by
  rcases F with ⟨S, t⟩
  have n1 : ∀ u v w : Rat, absR (-u + w - (-v + w)) = absR (u - v) := by
    intro u v w; rw [← absR_neg (u - v)]; congr 1; ring
  have n2 : ∀ u v w : Rat, absR (u + w - (v + w)) = absR (u - v) := by
    intro u v w; congr 1; ring
  cases S <;> simp only [Frame.act, Sym.apply, manhattanDist, n1, n2] <;> first | rfl | exact add_comm _ _

theorem sqDist_act (F : Frame) (a b : Pt) : sqDist (F.act a) (F.act b) = sqDist a b := by
  rcases F with ⟨S, t⟩
  cases S <;> simp only [Frame.act, Sym.apply, sqDist] <;> ring

theorem crossAt_act (F : Frame) (a b c : Pt) :
    crossAt (F.act a) (F.act b) (F.act c) = detR F * crossAt a b c := by
  rcases F with ⟨S, t⟩
  cases S <;> simp [Frame.act, Sym.apply, crossAt, detR, Frame.det, Sym.det] <;> ring

theorem dotAt_act (F : Frame) (a b c : Pt) : dotAt (F.act a) (F.act b) (F.act c) = dotAt a b c := by
  rcases F with ⟨S, t⟩
  cases S <;> simp only [Frame.act, Sym.apply, dotAt] <;> ring

theorem bendWeight_act (F : Frame) (a b c : Pt) :
    bendWeight (F.act a) (F.act b) (F.act c) = bendWeight a b c := by
  have hc : crossAt (F.act a) (F.act b) (F.act c) ≠ 0 ↔ crossAt a b c ≠ 0 := by
    rw [crossAt_act]
    rcases detR_cases F with h | h <;> rw [h] <;> constructor <;> intro h1 h2 <;> apply h1 <;> linarith
  simp only [bendWeight, act_eq_iff, dotAt_act]
  by_cases h0 : a = b ∨ b = c
  · simp [h0]
  · simp only [h0, if_false]
    by_cases h1 : crossAt a b c ≠ 0
    · rw [if_pos h1, if_pos (hc.2 h1)]
    · rw [if_neg h1, if_neg (fun hh => h1 (hc.1 hh))]

end AdaptaVerif.Lemmas.FrameGeom
