/-
Bridge between the executable estimate of Model/Reroute.lean (`sideX`, `sidePoint`, `sideFlags`, over ℚ)
and the abstract detour lemmas of Lemmas/RerouteEstimate.lean (over an ordered field K ⊇ ℚ).
-/
import AdaptaVerif.Model.Reroute
import AdaptaVerif.Lemmas.RerouteEstimate
import Mathlib.Data.Rat.Cast.Order
import AdaptaVerif.Lemmas.Sqrt
set_option linter.unusedSectionVars false
namespace AdaptaVerif.Lemmas.RerouteEstimate
open AdaptaVerif.Model.Geometry (Pt)
open AdaptaVerif.Model.Reroute

variable {K : Type} [Field K] [LinearOrder K] [IsStrictOrderedRing K]

/-- length of the segment pq as measured by `N` -/
def D (N : K → K → K) (p q : Pt) : K := N ((q.x : K) - (p.x : K)) ((q.y : K) - (p.y : K))

theorem cast_clamp (mn mx x : Rat) : ((clamp mn mx x : Rat) : K) = clampK (mn : K) (mx : K) (x : K) := by
  unfold clamp clampK
  simp only
  by_cases h1 : mn < x
  · have h1' : (mn : K) < (x : K) := Rat.cast_lt.mpr h1
    simp only [h1, h1', if_true]
    by_cases h2 : x < mx
    · have h2' : (x : K) < (mx : K) := Rat.cast_lt.mpr h2
      simp only [h2, h2', if_true]
    · have h2' : ¬ (x : K) < (mx : K) := fun h => h2 (Rat.cast_lt.mp h)
      simp only [h2, h2', if_false]
  · have h1' : ¬ (mn : K) < (x : K) := fun h => h1 (Rat.cast_lt.mp h)
    simp only [h1, h1', if_false]
    by_cases h2 : mn < mx
    · have h2' : (mn : K) < (mx : K) := Rat.cast_lt.mpr h2
      simp only [h2, h2', if_true]
    · have h2' : ¬ (mn : K) < (mx : K) := fun h => h2 (Rat.cast_lt.mp h)
      simp only [h2, h2', if_false]

theorem rmin_le_rmax (a b : Rat) : rmin a b ≤ rmax a b := by
  unfold rmin rmax; split_ifs <;> linarith

theorem absR_eq_abs (r : Rat) : AdaptaVerif.Model.Geometry.absR r = |r| := by
  unfold AdaptaVerif.Model.Geometry.absR
  split_ifs with h
  · exact (abs_of_neg h).symm
  · exact (abs_of_nonneg (not_lt.mp h)).symm

/-- unless start and end both lie on the side's line, the code takes the reflection / crossing point, clamped -/
theorem sideX_off_line (a b c d mn mx : Rat) (h : |b| + |d| ≠ 0) :
    sideX a b c d mn mx = some (clamp mn mx ((|b| * c + a * |d|) / (|b| + |d|))) := by
  unfold sideX
  simp only [absR_eq_abs]
  have : ¬ (|b| = 0 ∧ |d| = 0) := by rintro ⟨h1, h2⟩; exact h (by rw [h1, h2]; norm_num)
  simp only [this, if_false]

/-- |s − (X, offy)| + |(X, offy) − t| as a `detour` -/
theorem D_detour_h (N : K → K → K) (hN : IsNorm N) (s t : Pt) (X offy : Rat) :
    D N s ⟨X, offy⟩ + D N ⟨X, offy⟩ t =
      detour N (s.x : K) ((s.y : K) - (offy : K)) (t.x : K) ((t.y : K) - (offy : K)) (X : K) := by
  unfold D detour
  have e1 : N ((X : K) - (s.x : K)) ((offy : K) - (s.y : K)) = N ((X : K) - (s.x : K)) ((s.y : K) - (offy : K)) := by
    rw [← hN.reflY]; congr 1; ring
  have e2 : N ((t.x : K) - (X : K)) ((t.y : K) - (offy : K)) = N ((X : K) - (t.x : K)) ((t.y : K) - (offy : K)) := by
    rw [← hN.reflX]; congr 1; ring
  simp only [e1, e2]

theorem D_detour_v (N : K → K → K) (hN : IsNorm N) (s t : Pt) (X offx : Rat) :
    D N s ⟨offx, X⟩ + D N ⟨offx, X⟩ t =
      detour N (s.y : K) ((s.x : K) - (offx : K)) (t.y : K) ((t.x : K) - (offx : K)) (X : K) := by
  unfold D detour
  have e1 : N ((offx : K) - (s.x : K)) ((X : K) - (s.y : K)) = N ((X : K) - (s.y : K)) ((s.x : K) - (offx : K)) := by
    rw [hN.swap, ← hN.reflY]; congr 1; ring
  have e2 : N ((t.x : K) - (offx : K)) ((t.y : K) - (X : K)) = N ((X : K) - (t.y : K)) ((t.x : K) - (offx : K)) := by
    rw [hN.swap, ← hN.reflX]; congr 1; ring
  simp only [e1, e2]

/-- the two "same side" configurations -/
def SameSide (b d : Rat) : Prop := (0 ≤ b ∧ 0 ≤ d ∧ 0 < b + d) ∨ (b ≤ 0 ∧ d ≤ 0 ∧ b + d < 0)

theorem SameSide.ne {b d : Rat} (h : SameSide b d) : b + d ≠ 0 := by
  rcases h with ⟨_, _, h⟩ | ⟨_, _, h⟩
  · exact ne_of_gt h
  · exact ne_of_lt h

/-- core: the clamped reflection point minimises the detour over [mn, mx] (casts to K) -/
theorem detour_model_min (N : K → K → K) (hN : IsNorm N) (a b c d mn mx : Rat) (hs : SameSide b d) (hmm : mn ≤ mx)
    (x : Rat) (hx0 : mn ≤ x) (hx1 : x ≤ mx) :
    detour N (a : K) (b : K) (c : K) (d : K) ((clamp mn mx ((b * c + a * d) / (b + d)) : Rat) : K) ≤
      detour N (a : K) (b : K) (c : K) (d : K) (x : K) := by
  rw [cast_clamp]
  have e : (((b * c + a * d) / (b + d) : Rat) : K) = ((b : K) * (c : K) + (a : K) * (d : K)) / ((b : K) + (d : K)) := by
    push_cast; rfl
  rw [e]
  have hmm' : (mn : K) ≤ (mx : K) := Rat.cast_le.mpr hmm
  have h0' : (mn : K) ≤ (x : K) := Rat.cast_le.mpr hx0
  have h1' : (x : K) ≤ (mx : K) := Rat.cast_le.mpr hx1
  rcases hs with ⟨hb, hd, hS⟩ | ⟨hb, hd, hS⟩
  · exact detour_clamp_min N hN _ _ _ _ _ _ (by exact_mod_cast hb) (by exact_mod_cast hd) (by exact_mod_cast hS)
      hmm' _ h0' h1'
  · exact detour_clamp_min_neg N hN _ _ _ _ _ _ (by exact_mod_cast hb) (by exact_mod_cast hd) (by exact_mod_cast hS)
      hmm' _ h0' h1'

theorem detour_abs (N : K → K → K) (hN : IsNorm N) (a b c d x : K) :
    detour N a |b| c |d| x = detour N a b c d x := by
  unfold detour
  have h1 : N (x - a) |b| = N (x - a) b := by
    rcases abs_choice b with h | h <;> rw [h]; exact hN.reflY _ _
  have h2 : N (x - c) |d| = N (x - c) d := by
    rcases abs_choice d with h | h <;> rw [h]; exact hN.reflY _ _
  rw [h1, h2]

/-- core of the repaired estimate: with the offsets in absolute value the clamped point minimises the detour over
    [mn, mx] for all positions of start and end (not both on the line) -/
theorem detour_model_min_abs (N : K → K → K) (hN : IsNorm N) (a b c d mn mx : Rat) (hbd : 0 < |b| + |d|)
    (hmm : mn ≤ mx) (x : Rat) (hx0 : mn ≤ x) (hx1 : x ≤ mx) :
    detour N (a : K) (b : K) (c : K) (d : K) ((clamp mn mx ((|b| * c + a * |d|) / (|b| + |d|)) : Rat) : K) ≤
      detour N (a : K) (b : K) (c : K) (d : K) (x : K) := by
  have key := detour_model_min N hN a |b| c |d| mn mx (Or.inl ⟨abs_nonneg b, abs_nonneg d, hbd⟩) hmm x hx0 hx1
  have e1 : ((|b| : Rat) : K) = |(b : K)| := by push_cast; rfl
  have e2 : ((|d| : Rat) : K) = |(d : K)| := by push_cast; rfl
  rw [e1, e2, detour_abs N hN, detour_abs N hN] at key
  exact key

/-! ### any path through a point is at least as long as the two straight legs -/

/-- length of a polyline as measured by `N` -/
def polyLen (N : K → K → K) : List Pt → K
  | a :: b :: rest => D N a b + polyLen N (b :: rest)
  | _ => 0

theorem D_self (N : K → K → K) (hN : IsNorm N) (a : Pt) : D N a a = 0 := by
  unfold D
  have := hN.homog 0 0 0 (le_refl 0)
  simp only [sub_self]
  simpa using this

theorem D_tri (N : K → K → K) (hN : IsNorm N) (a b c : Pt) : D N a c ≤ D N a b + D N b c := by
  unfold D
  have := hN.tri ((b.x : K) - (a.x : K)) ((b.y : K) - (a.y : K)) ((c.x : K) - (b.x : K)) ((c.y : K) - (b.y : K))
  have e1 : (b.x : K) - (a.x : K) + ((c.x : K) - (b.x : K)) = (c.x : K) - (a.x : K) := by ring
  have e2 : (b.y : K) - (a.y : K) + ((c.y : K) - (b.y : K)) = (c.y : K) - (a.y : K) := by ring
  rw [e1, e2] at this
  exact this

/-- a polyline is at least as long as the straight segment between its ends -/
theorem D_le_polyLen (N : K → K → K) (hN : IsNorm N) : ∀ (p : List Pt) (a b : Pt), p.head? = some a →
    p.getLast? = some b → D N a b ≤ polyLen N p
  | [], a, b, h, _ => by simp at h
  | [x], a, b, h1, h2 => by
    simp only [List.head?_cons, Option.some.injEq] at h1
    simp only [List.getLast?_singleton, Option.some.injEq] at h2
    subst h1; subst h2
    rw [D_self N hN]; exact le_refl _
  | x :: y :: rest, a, b, h1, h2 => by
    simp only [List.head?_cons, Option.some.injEq] at h1
    subst h1
    have h2' : (y :: rest).getLast? = some b := by
      rw [List.getLast?_cons_cons] at h2; exact h2
    have ih := D_le_polyLen N hN (y :: rest) y b rfl h2'
    unfold polyLen
    exact le_trans (D_tri N hN x y b) (add_le_add (le_refl _) ih)

theorem polyLen_append (N : K → K → K) (q : Pt) : ∀ (p1 p2 : List Pt),
    polyLen N (p1 ++ q :: p2) = polyLen N (p1 ++ [q]) + polyLen N (q :: p2)
  | [], p2 => by simp [polyLen]
  | [x], p2 => by simp [polyLen]
  | x :: y :: rest, p2 => by
    have ih := polyLen_append N q (y :: rest) p2
    simp only [List.cons_append] at ih ⊢
    have e1 : polyLen N (x :: y :: (rest ++ q :: p2)) = D N x y + polyLen N (y :: (rest ++ q :: p2)) := rfl
    have e2 : polyLen N (x :: y :: (rest ++ [q])) = D N x y + polyLen N (y :: (rest ++ [q])) := rfl
    rw [e1, e2, ih]; ring

/-- **every path from `s` to `t` through `q` is at least |s − q| + |q − t| long** -/
theorem through_point_lower_bound (N : K → K → K) (hN : IsNorm N) (s t q : Pt) (p1 p2 : List Pt)
    (hs : (p1 ++ [q]).head? = some s) (ht : (q :: p2).getLast? = some t) :
    D N s q + D N q t ≤ polyLen N (p1 ++ q :: p2) := by
  rw [polyLen_append]
  exact add_le_add (D_le_polyLen N hN _ s q hs (by simp)) (D_le_polyLen N hN _ q t rfl ht)

/-! ### the loop over the sides -/

/-- all sides axis-parallel (no `rotated` branch) -/
def Rectilinear (es : List (Pt × Pt)) : Prop := ∀ e ∈ es, e.1.y = e.2.y ∨ e.1.x = e.2.x

theorem sidePoint_ne_rotated (s t p1 p2 : Pt) (h : p1.y = p2.y ∨ p1.x = p2.x) : sidePoint s t p1 p2 ≠ .rotated := by
  unfold sidePoint
  by_cases hy : p1.y = p2.y
  · simp only [hy, if_true]; split <;> simp
  · have hx : p1.x = p2.x := h.resolve_left hy
    simp only [hy, hx, if_false, if_true]; split <;> simp

/-- if some side yields a point for which the oracle says "shorter", the loop flags -/
theorem sideFlags_complete (lt3 : Lt3) (route : List Pt) (s t : Pt) :
    ∀ (es : List (Pt × Pt)), Rectilinear es → ∀ e ∈ es, ∀ xp, sidePoint s t e.1 e.2 = .at xp →
      lt3 s t xp route = some true → sideFlags lt3 route s t es = some true := by
  intro es
  induction es with
  | nil => intro _ e he; simp at he
  | cons f fs ih =>
    intro hR e he xp hsp hlt
    have hRf : Rectilinear fs := fun g hg => hR g (List.mem_cons_of_mem _ hg)
    unfold sideFlags
    rcases List.mem_cons.mp he with rfl | he'
    · rw [hsp]; simp only [hlt]
    · have ihv := ih hRf e he' xp hsp hlt
      cases hf : sidePoint s t f.1 f.2 with
      | rotated => exact absurd hf (sidePoint_ne_rotated s t f.1 f.2 (hR f (List.mem_cons_self ..)))
      | skip => simp only; exact ihv
      | «at» yp =>
        simp only
        cases hl : lt3 s t yp route with
        | none => simp only [ihv]
        | some b => cases b <;> simp only [ihv]

/-! ### the driver's three-valued comparison -/

/-- a length function with the defining property of the Euclidean distance (exists for K = ℝ) -/
def IsEuclid (len : Pt → Pt → K) : Prop :=
  ∀ p q : Pt, 0 ≤ len p q ∧ len p q * len p q = ((AdaptaVerif.Num.dist2 p.x p.y q.x q.y : Rat) : K)

def routeLen (len : Pt → Pt → K) (r : List Pt) : K :=
  ((AdaptaVerif.Check.Route.legs r).map fun l => len l.1 l.2).foldl (· + ·) 0

theorem dist2_nonneg (p q : Pt) : 0 ≤ AdaptaVerif.Num.dist2 p.x p.y q.x q.y := by
  unfold AdaptaVerif.Num.dist2; nlinarith [sq_nonneg (q.x - p.x), sq_nonneg (q.y - p.y)]

theorem seg_encl (len : Pt → Pt → K) (hE : IsEuclid len) (k : Nat) (p q : Pt) :
    ((segLo k p q : Rat) : K) ≤ len p q ∧ len p q ≤ ((segHi k p q : Rat) : K) :=
  AdaptaVerif.Lemmas.Sqrt.sqrt_between_field _ (dist2_nonneg p q) (len p q) (hE p q).1 (hE p q).2 k

theorem foldl_add_le {α : Type} (f : α → Rat) (g : α → K) :
    ∀ (l : List α) (acc : Rat) (acc' : K), (∀ a ∈ l, (f a : K) ≤ g a) → (acc : K) ≤ acc' →
      (((l.map f).foldl (· + ·) acc : Rat) : K) ≤ (l.map g).foldl (· + ·) acc' := by
  intro l
  induction l with
  | nil => intro acc acc' _ h; simpa using h
  | cons a l ih =>
    intro acc acc' h hacc
    simp only [List.map_cons, List.foldl_cons]
    apply ih
    · intro b hb; exact h b (List.mem_cons_of_mem _ hb)
    · push_cast; exact add_le_add hacc (h a (List.mem_cons_self ..))

theorem foldl_add_ge {α : Type} (f : α → Rat) (g : α → K) :
    ∀ (l : List α) (acc : Rat) (acc' : K), (∀ a ∈ l, g a ≤ (f a : K)) → acc' ≤ (acc : K) →
      (l.map g).foldl (· + ·) acc' ≤ (((l.map f).foldl (· + ·) acc : Rat) : K) := by
  intro l
  induction l with
  | nil => intro acc acc' _ h; simpa using h
  | cons a l ih =>
    intro acc acc' h hacc
    simp only [List.map_cons, List.foldl_cons]
    apply ih
    · intro b hb; exact h b (List.mem_cons_of_mem _ hb)
    · push_cast; exact add_le_add hacc (h a (List.mem_cons_self ..))

theorem route_encl (len : Pt → Pt → K) (hE : IsEuclid len) (k : Nat) (r : List Pt) :
    ((routeLo k r : Rat) : K) ≤ routeLen len r ∧ routeLen len r ≤ ((routeHi k r : Rat) : K) := by
  unfold routeLo routeHi routeLen
  constructor
  · exact foldl_add_le _ _ _ 0 0 (fun l _ => (seg_encl len hE k l.1 l.2).1) (by simp)
  · exact foldl_add_ge _ _ _ 0 0 (fun l _ => (seg_encl len hE k l.1 l.2).2) (by simp)

end AdaptaVerif.Lemmas.RerouteEstimate
