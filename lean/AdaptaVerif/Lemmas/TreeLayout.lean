/-
Lemmas about the model of `Tree::symmetricLayout` (Model/TreeLayout.lean), part 1:
coordinates relative to the growth direction, the per-rank invariant `LevelOK`, its preservation by
`flip`, `translate` and by one placement step (`placeCentral`, `placeSide`).
-/
import AdaptaVerif.Model.TreeLayout
import Mathlib.Tactic.Linarith
import Mathlib.Tactic.Ring
import Mathlib.Algebra.Order.Field.Rat
namespace AdaptaVerif.Lemmas.TreeLayout
open AdaptaVerif.Model.TreeLayout

/-! ### coordinates relative to the growth direction -/

/-- transverse coordinate (x for NORTH/SOUTH growth, y for EAST/WEST) -/
def tr (d : Dir) (p : Pt) : Rat := if d.isVertical then p.x else p.y
/-- coordinate along the growth axis -/
def gr (d : Dir) (p : Pt) : Rat := if d.isVertical then p.y else p.x
/-- half extent transverse to the growth direction (the `half` of the C++) -/
def ht (d : Dir) (n : PNode) : Rat := if d.isVertical then n.w / 2 else n.h / 2
/-- half extent along the growth direction -/
def hg (d : Dir) (n : PNode) : Rat := if d.isVertical then n.h / 2 else n.w / 2
/-- lower / upper end of the node's box on the transverse axis -/
def lft (d : Dir) (n : PNode) : Rat := tr d n.c - ht d n
def rgt (d : Dir) (n : PNode) : Rat := tr d n.c + ht d n

/-- the transverse intervals of two nodes are at least `gap` apart -/
def sepT (d : Dir) (gap : Rat) (m n : PNode) : Prop :=
  rgt d m + gap ≤ lft d n ∨ rgt d n + gap ≤ lft d m

/-- the intervals along the growth axis do not overlap -/
def sepG (d : Dir) (m n : PNode) : Prop :=
  gr d m.c + hg d m ≤ gr d n.c - hg d n ∨ gr d n.c + hg d n ≤ gr d m.c - hg d m

theorem sepT_symm {d gap m n} (h : sepT d gap m n) : sepT d gap n m := Or.symm h

theorem tr_flipPt (d : Dir) (p : Pt) : tr d (flipPt d p) = - tr d p := by
  unfold tr flipPt; cases d.isVertical <;> simp
theorem gr_flipPt (d : Dir) (p : Pt) : gr d (flipPt d p) = gr d p := by
  unfold gr flipPt; cases d.isVertical <;> simp

theorem lft_flip (d : Dir) (n : PNode) : lft d (n.flip d) = - rgt d n := by
  unfold lft rgt; show tr d (flipPt d n.c) - ht d n = _; rw [tr_flipPt]; ring
theorem rgt_flip (d : Dir) (n : PNode) : rgt d (n.flip d) = - lft d n := by
  unfold lft rgt; show tr d (flipPt d n.c) + ht d n = _; rw [tr_flipPt]; ring

theorem tr_translate (d : Dir) (v : Pt) (n : PNode) : tr d (n.translate v).c = tr d n.c + disp d v := by
  unfold tr disp PNode.translate; cases d.isVertical <;> simp
theorem gr_translate (d : Dir) (v : Pt) (n : PNode) : gr d (n.translate v).c = gr d n.c + gr d v := by
  unfold gr PNode.translate; cases d.isVertical <;> simp
theorem lft_translate (d : Dir) (v : Pt) (n : PNode) : lft d (n.translate v) = lft d n + disp d v := by
  unfold lft; rw [tr_translate]; show _ - ht d n = _; ring
theorem rgt_translate (d : Dir) (v : Pt) (n : PNode) : rgt d (n.translate v) = rgt d n + disp d v := by
  unfold rgt; rw [tr_translate]; show _ + ht d n = _; ring

/-! ### the per-rank invariant -/

/-- rank data are consistent: `lo ≤ hi`, every node's transverse interval lies in `[lo, hi]`
    (`rank_bounds_enclose`), the nodes are pairwise `gap` apart, every node's size satisfies `P` -/
structure LevelOK (d : Dir) (gap : Rat) (P : Rat → Rat → Prop) (l : Level) : Prop where
  le : l.lo ≤ l.hi
  enc : ∀ n ∈ l.nodes, l.lo ≤ lft d n ∧ rgt d n ≤ l.hi
  sep : l.nodes.Pairwise (sepT d gap)
  sz : ∀ n ∈ l.nodes, P n.w n.h

/-- the nodes of level `i` have growth coordinate `g + i·s` -/
def GrowAt (d : Dir) (s : Rat) : Rat → List Level → Prop
  | _, [] => True
  | g, l :: ls => (∀ n ∈ l.nodes, gr d n.c = g) ∧ GrowAt d s (g + s) ls

structure LayOK (d : Dir) (gap s : Rat) (P : Rat → Rat → Prop) (t : Lay) : Prop where
  lv : ∀ l ∈ t.levels, LevelOK d gap P l
  grow : GrowAt d s 0 t.levels

theorem LevelOK.flip {d gap P l} (h : LevelOK d gap P l) : LevelOK d gap P (l.flip d) := by
  refine ⟨?_, ?_, ?_, ?_⟩
  · show -l.hi ≤ -l.lo; have := h.le; linarith
  · intro n hn
    obtain ⟨m, hm, rfl⟩ := List.mem_map.1 hn
    have := h.enc m hm
    rw [lft_flip, rgt_flip]; show -l.hi ≤ _ ∧ _ ≤ -l.lo
    constructor <;> linarith [this.1, this.2]
  · show (l.nodes.map (PNode.flip d)).Pairwise _
    rw [List.pairwise_map]
    refine h.sep.imp ?_
    intro a b hab
    unfold sepT at *
    rw [lft_flip, rgt_flip, lft_flip, rgt_flip]
    rcases hab with hab | hab
    · right; linarith
    · left; linarith
  · intro n hn
    obtain ⟨m, hm, rfl⟩ := List.mem_map.1 hn
    exact h.sz m hm

theorem LevelOK.translate {d gap P l} (v : Pt) (h : LevelOK d gap P l) :
    LevelOK d gap P (l.translate d v) := by
  refine ⟨?_, ?_, ?_, ?_⟩
  · show l.lo + disp d v ≤ l.hi + disp d v; have := h.le; linarith
  · intro n hn
    obtain ⟨m, hm, rfl⟩ := List.mem_map.1 hn
    have := h.enc m hm
    rw [lft_translate, rgt_translate]; show l.lo + disp d v ≤ _ ∧ _ ≤ l.hi + disp d v
    constructor <;> linarith [this.1, this.2]
  · show (l.nodes.map (PNode.translate v)).Pairwise _
    rw [List.pairwise_map]
    refine h.sep.imp ?_
    intro a b hab
    unfold sepT at *
    rw [lft_translate, rgt_translate, lft_translate, rgt_translate]
    rcases hab with hab | hab
    · left; linarith
    · right; linarith
  · intro n hn
    obtain ⟨m, hm, rfl⟩ := List.mem_map.1 hn
    exact h.sz m hm

theorem GrowAt.flip {d s} : ∀ {g ls}, GrowAt d s g ls → GrowAt d s g (ls.map (Level.flip d))
  | _, [], _ => trivial
  | g, l :: ls, h => by
    refine ⟨?_, GrowAt.flip h.2⟩
    intro n hn
    obtain ⟨m, hm, rfl⟩ := List.mem_map.1 hn
    show gr d (flipPt d m.c) = g
    rw [gr_flipPt]; exact h.1 m hm

theorem GrowAt.translate {d s} (v : Pt) :
    ∀ {g ls}, GrowAt d s g ls → GrowAt d s (g + gr d v) (ls.map (Level.translate d v))
  | _, [], _ => trivial
  | g, l :: ls, h => by
    refine ⟨?_, ?_⟩
    · intro n hn
      obtain ⟨m, hm, rfl⟩ := List.mem_map.1 hn
      rw [gr_translate, h.1 m hm]
    · have := GrowAt.translate v h.2
      have e : g + s + gr d v = g + gr d v + s := by ring
      rw [e] at this; exact this

theorem LayOK.flip {d gap s P t} (h : LayOK d gap s P t) : LayOK d gap s P (t.flip d) := by
  refine ⟨?_, h.grow.flip⟩
  intro l hl
  obtain ⟨m, hm, rfl⟩ := List.mem_map.1 hl
  exact (h.lv m hm).flip

theorem LayOK.translate_lv {d gap s P t} (v : Pt) (h : LayOK d gap s P t) :
    ∀ l ∈ (t.translate d v).levels, LevelOK d gap P l := by
  intro l hl
  obtain ⟨m, hm, rfl⟩ := List.mem_map.1 hl
  exact (h.lv m hm).translate v

/-! ### `overlay` -/

/-- generic step: if the combination of compatible levels is OK, so is the overlay -/
theorem overlay_ok {d gap P} {f : Level → Level → Level} (C : Level → Level → Prop)
    (hf : ∀ t p, LevelOK d gap P t → LevelOK d gap P p → C t p → LevelOK d gap P (f t p)) :
    ∀ (ts ps : List Level), (∀ t ∈ ts, LevelOK d gap P t) → (∀ p ∈ ps, LevelOK d gap P p) →
      (∀ x ∈ ts.zip ps, C x.1 x.2) → ∀ l ∈ overlay f ts ps, LevelOK d gap P l
  | [], ps, _, hp, _ => by simpa [overlay] using hp
  | t :: ts, [], ht, _, _ => by simpa [overlay] using ht
  | t :: ts, p :: ps, ht, hp, hc => by
    intro l hl
    simp only [overlay, List.mem_cons] at hl
    rcases hl with rfl | hl
    · exact hf t p (ht t (List.mem_cons_self ..)) (hp p (List.mem_cons_self ..))
        (hc (t, p) (by simp))
    · exact overlay_ok C hf ts ps (fun x hx => ht x (List.mem_cons_of_mem _ hx))
        (fun x hx => hp x (List.mem_cons_of_mem _ hx))
        (fun x hx => hc x (by rw [List.zip_cons_cons]; exact List.mem_cons_of_mem _ hx)) l hl

theorem overlay_grow {d s} {f : Level → Level → Level} (hf : ∀ t p, (f t p).nodes = p.nodes ++ t.nodes) :
    ∀ (g : Rat) (ts ps : List Level), GrowAt d s g ts → GrowAt d s g ps → GrowAt d s g (overlay f ts ps)
  | _, [], ps, _, hp => by simpa [overlay] using hp
  | _, t :: ts, [], ht, _ => by simpa [overlay] using ht
  | g, t :: ts, p :: ps, ht, hp => by
    simp only [overlay]
    refine ⟨?_, overlay_grow hf (g + s) ts ps ht.2 hp.2⟩
    intro n hn
    rw [hf, List.mem_append] at hn
    rcases hn with hn | hn
    · exact hp.1 n hn
    · exact ht.1 n hn

theorem fPos_ok {d gap P} (hgap : 0 ≤ gap) (t p : Level) (ht : LevelOK d gap P t) (hp : LevelOK d gap P p)
    (hc : p.hi + gap ≤ t.lo) : LevelOK d gap P (fPos t p) := by
  have h1 := ht.le; have h2 := hp.le
  refine ⟨?_, ?_, ?_, ?_⟩
  · show p.lo ≤ t.hi; linarith
  · intro n hn
    show p.lo ≤ _ ∧ _ ≤ t.hi
    rcases List.mem_append.1 hn with hn | hn
    · have := hp.enc n hn; exact ⟨this.1, by linarith [this.2]⟩
    · have := ht.enc n hn; exact ⟨by linarith [this.1], this.2⟩
  · show (p.nodes ++ t.nodes).Pairwise _
    rw [List.pairwise_append]
    refine ⟨hp.sep, ht.sep, ?_⟩
    intro a ha b hb
    left
    have := (hp.enc a ha).2; have := (ht.enc b hb).1; linarith
  · intro n hn
    rcases List.mem_append.1 hn with hn | hn
    · exact hp.sz n hn
    · exact ht.sz n hn

theorem fNeg_ok {d gap P} (hgap : 0 ≤ gap) (t p : Level) (ht : LevelOK d gap P t) (hp : LevelOK d gap P p)
    (hc : t.hi + gap ≤ p.lo) : LevelOK d gap P (fNeg t p) := by
  have h1 := ht.le; have h2 := hp.le
  refine ⟨?_, ?_, ?_, ?_⟩
  · show t.lo ≤ p.hi; linarith
  · intro n hn
    show t.lo ≤ _ ∧ _ ≤ p.hi
    rcases List.mem_append.1 hn with hn | hn
    · have := hp.enc n hn; exact ⟨by linarith [this.1], this.2⟩
    · have := ht.enc n hn; exact ⟨this.1, by linarith [this.2]⟩
  · show (p.nodes ++ t.nodes).Pairwise _
    rw [List.pairwise_append]
    refine ⟨hp.sep, ht.sep, ?_⟩
    intro a ha b hb
    right
    have := (hp.enc a ha).1; have := (ht.enc b hb).2; linarith
  · intro n hn
    rcases List.mem_append.1 hn with hn | hn
    · exact hp.sz n hn
    · exact ht.sz n hn

theorem fCentral_ok {d gap P} (t p : Level) (ht : LevelOK d gap P t) (_hp : LevelOK d gap P p)
    (hc : p.nodes = []) : LevelOK d gap P (fCentral t p) := by
  refine ⟨ht.le, ?_, ?_, ?_⟩
  · intro n hn
    have hn' : n ∈ t.nodes := by simpa [fCentral, hc] using hn
    exact ht.enc n hn'
  · show (p.nodes ++ t.nodes).Pairwise _
    rw [hc]; simpa using ht.sep
  · intro n hn
    have hn' : n ∈ t.nodes := by simpa [fCentral, hc] using hn
    exact ht.sz n hn'

/-! ### the running max / min -/

theorem le_rmax_left (a b : Rat) : a ≤ rmax a b := by
  unfold rmax; split <;> [exact le_of_lt ‹_›; exact le_refl _]
theorem le_rmax_right (a b : Rat) : b ≤ rmax a b := by
  unfold rmax; split <;> [exact le_refl _; exact not_lt.1 ‹_›]
theorem rmin_le_left (a b : Rat) : rmin a b ≤ a := by
  unfold rmin; split <;> [exact le_of_lt ‹_›; exact le_refl _]
theorem rmin_le_right (a b : Rat) : rmin a b ≤ b := by
  unfold rmin; split <;> [exact le_refl _; exact not_lt.1 ‹_›]

theorem foldl_rmax_ge : ∀ (l : List Rat) (i : Rat), i ≤ l.foldl rmax i ∧ ∀ c ∈ l, c ≤ l.foldl rmax i
  | [], i => ⟨le_refl _, by simp⟩
  | a :: l, i => by
    have ih := foldl_rmax_ge l (rmax i a)
    refine ⟨le_trans (le_rmax_left i a) ih.1, ?_⟩
    intro c hc
    rcases List.mem_cons.1 hc with rfl | hc
    · exact le_trans (le_rmax_right i c) ih.1
    · exact ih.2 c hc

theorem foldl_rmin_le : ∀ (l : List Rat) (i : Rat), l.foldl rmin i ≤ i ∧ ∀ c ∈ l, l.foldl rmin i ≤ c
  | [], i => ⟨le_refl _, by simp⟩
  | a :: l, i => by
    have ih := foldl_rmin_le l (rmin i a)
    refine ⟨le_trans ih.1 (rmin_le_left i a), ?_⟩
    intro c hc
    rcases List.mem_cons.1 hc with rfl | hc
    · exact le_trans ih.1 (rmin_le_right i c)
    · exact ih.2 c hc

/-- the chosen root position respects every candidate -/
theorem rootPos_pos (cands : List Rat) : ∀ c ∈ cands, c ≤ rootPosOf true cands := by
  intro c hc; simpa [rootPosOf] using (foldl_rmax_ge cands dblMin).2 c hc
theorem rootPos_neg (cands : List Rat) : ∀ c ∈ cands, rootPosOf false cands ≤ c := by
  intro c hc; simpa [rootPosOf] using (foldl_rmin_le cands dblMax).2 c hc

/-- positive side: after the translation by `R ≥` every candidate, the subtree's lower bound of every
    common rank is `2·nodeSep` above the parent's upper bound -/
theorem zip_sep_pos (d : Dir) (ns R : Rat) (v : Pt) (hv : disp d v = R) :
    ∀ (ts ps : List Level), (∀ c ∈ candidates true ns ps ts, c ≤ R) →
      ∀ x ∈ (ts.map (Level.translate d v)).zip ps, x.2.hi + 2 * ns ≤ x.1.lo
  | [], _, _ => by simp
  | _ :: _, [], _ => by simp
  | t :: ts, p :: ps, hc => by
    intro x hx
    simp only [List.map_cons, List.zip_cons_cons, List.mem_cons] at hx
    rcases hx with rfl | hx
    · have := hc ((p.hi + ns) - (t.lo - ns)) (by simp [candidates])
      show p.hi + 2 * ns ≤ t.lo + disp d v
      rw [hv]; linarith
    · refine zip_sep_pos d ns R v hv ts ps ?_ x hx
      intro c hc'
      exact hc c (by simp only [candidates, List.zipWith_cons_cons, List.mem_cons]; right; exact hc')

theorem zip_sep_neg (d : Dir) (ns R : Rat) (v : Pt) (hv : disp d v = R) :
    ∀ (ts ps : List Level), (∀ c ∈ candidates false ns ps ts, R ≤ c) →
      ∀ x ∈ (ts.map (Level.translate d v)).zip ps, x.1.hi + 2 * ns ≤ x.2.lo
  | [], _, _ => by simp
  | _ :: _, [], _ => by simp
  | t :: ts, p :: ps, hc => by
    intro x hx
    simp only [List.map_cons, List.zip_cons_cons, List.mem_cons] at hx
    rcases hx with rfl | hx
    · have := hc ((p.lo - ns) - (t.hi + ns)) (by simp [candidates])
      show t.hi + disp d v + 2 * ns ≤ p.lo
      rw [hv]; linarith
    · refine zip_sep_neg d ns R v hv ts ps ?_ x hx
      intro c hc'
      exact hc c (by simp only [candidates, List.zipWith_cons_cons, List.mem_cons]; right; exact hc')

end AdaptaVerif.Lemmas.TreeLayout
