/-
Composition of the two stages of `Model.Planarise.planarise` from the route segments on (`segsAOf`): under `GoodA` the
list handed to the sweep is `Good`, paths of overlap-free edges stay connections after the sweep.
-/
import AdaptaVerif.Lemmas.PlanariseOverlap
import AdaptaVerif.Lemmas.PlanariseNoCrossSweep
namespace AdaptaVerif.Lemmas.Planarise
open AdaptaVerif.Model.Planarise

/-! ### the whole pipeline, from the route segments on -/

theorem Reach.mono {segs : List Seg} {new new' : List Node} (h : ∀ m ∈ new, m ∈ new') {a b : Node}
    (hr : Reach segs new a b) : Reach segs new' a b := by
  induction hr with
  | edge hj => exact Reach.edge hj
  | step hj hm _ ih => exact Reach.step hj (h _ hm) ih

theorem Reach.trans {segs : List Seg} {new : List Node} {a m b : Node}
    (h1 : Reach segs new a m) (hm : m ∈ new) (h2 : Reach segs new m b) : Reach segs new a b := by
  induction h1 with
  | edge hj => exact Reach.step hj hm h2
  | step hj hm' _ ih => exact Reach.step hj hm' (ih hm h2)

theorem planarise_segs (inp : Input) :
    (planarise inp).segs = (computeCrossings (segsBOf inp)
      (uniqueBends { nextId := firstFreeId inp.nodes } inp.edges).1.nextId).segs ∧
    (planarise inp).crossNodes = (computeCrossings (segsBOf inp)
      (uniqueBends { nextId := firstFreeId inp.nodes } inp.edges).1.nextId).cross.reverse ∧
    (planarise inp).ofEdges = overlapFreeEdges (segsAOf inp) := by
  simp [planarise, segsBOf, segsAOf]

/-- a path of overlap-free edges is still a connection after the sweep -/
theorem reach_of_path {segsA : List Seg} (hA : GoodA segsA) (nid : Nat) (extra : List Node) :
    ∀ (l : List Node) (a b : Node), PathIn (overlapFreeEdges segsA) (a :: l ++ [b]) → (∀ m ∈ l, m ∈ extra) →
      Reach (computeCrossings ((overlapFreeEdges segsA).map (fun e => mkSeg e.1 e.2)) nid).segs
        ((computeCrossings ((overlapFreeEdges segsA).map (fun e => mkSeg e.1 e.2)) nid).cross ++ extra) a b := by
  have hG := overlapFree_good hA
  have hedge : ∀ e ∈ overlapFreeEdges segsA,
      Reach (computeCrossings ((overlapFreeEdges segsA).map (fun e => mkSeg e.1 e.2)) nid).segs
        ((computeCrossings ((overlapFreeEdges segsA).map (fun e => mkSeg e.1 e.2)) nid).cross ++ extra) e.1 e.2 := by
    intro e he
    have hm : mkSeg e.1 e.2 ∈ (overlapFreeEdges segsA).map (fun e => mkSeg e.1 e.2) := List.mem_map.2 ⟨e, he, rfl⟩
    obtain ⟨i, hi⟩ := List.getElem?_of_mem hm
    have hr := computeCrossings_reach hG nid i _ hi
    have hends : (mkSeg e.1 e.2).on = e.1 ∧ (mkSeg e.1 e.2).cn = e.2 := by
      rw [overlapFreeEdges_eq] at he
      rcases List.mem_append.1 he with h | h
      · rw [((edgesOf_facts hA .H).1 e h).1]; exact ⟨rfl, rfl⟩
      · rw [((edgesOf_facts hA .V).1 e h).1]; exact ⟨rfl, rfl⟩
    rw [hends.1, hends.2] at hr
    exact hr.mono (fun m hm => List.mem_append_left _ hm)
  intro l
  induction l with
  | nil =>
    intro a b hp _
    exact hedge (a, b) (hp (a, b) (by simp [consecutive]))
  | cons m r ih =>
    intro a b hp hm
    have h1 := hedge (a, m) (hp (a, m) (by simp [consecutive]))
    have h2 := ih m b (fun p hpp => hp p (by simp only [List.cons_append, consecutive, List.mem_cons]; exact Or.inr hpp))
      (fun x hx => hm x (List.mem_cons_of_mem _ hx))
    exact h1.trans (List.mem_append_right _ (hm m (by simp))) h2

/-- **Pipeline, from the route segments on**: under `GoodA (segsAOf inp)` the segment list handed to the sweep
satisfies `Good`, so all sweep theorems apply to `planarise inp`; and every route segment is connected end to end in
the planar graph through crossing nodes and segment ends lying strictly inside it. -/
theorem pipeline_good {inp : Input} (hA : GoodA (segsAOf inp)) : Good (segsBOf inp) := overlapFree_good hA

theorem pipeline_connections {inp : Input} (hA : GoodA (segsAOf inp)) :
    ∀ s ∈ segsAOf inp, ∃ inner : List Node,
      (∀ m ∈ inner, (∃ t ∈ segsAOf inp, m = t.on ∨ m = t.cn) ∧ ccOf s.ori m = s.cc ∧
          vcOf s.ori s.on < vcOf s.ori m ∧ vcOf s.ori m < vcOf s.ori s.cn) ∧
      Reach (planarise inp).segs ((planarise inp).crossNodes ++ inner) s.on s.cn := by
  intro s hs
  obtain ⟨mids, hp, hm⟩ := overlapFree_chain hA s hs
  obtain ⟨h1, h2, _⟩ := planarise_segs inp
  refine ⟨mids, hm, ?_⟩
  rw [h1, h2]
  have := reach_of_path hA (uniqueBends { nextId := firstFreeId inp.nodes } inp.edges).1.nextId mids mids s.on s.cn hp
    (fun m h => h)
  exact this.mono (by
    intro m hmm
    rcases List.mem_append.1 hmm with h | h
    · exact List.mem_append_left _ (List.mem_reverse.2 h)
    · exact List.mem_append_right _ h)


end AdaptaVerif.Lemmas.Planarise
