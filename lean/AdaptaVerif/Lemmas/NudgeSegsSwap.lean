/-
Invariance of the segment construction of `Model/NudgeSegs.lean` under transposition: exchanging x ↔ y of
every point and rectangle and processing the other dimension gives literally the same segment list
(`buildSegs`), the same scan-line nodes (`scanObs`) and the same limits (`passSegs`).  All statements hold
for every `dim : Nat` (the model reads `dim = 0` as x and anything else as y).
-/
import AdaptaVerif.Model.NudgeSegs
namespace AdaptaVerif.Lemmas.NudgeSegsSwap
open AdaptaVerif.Model.NudgeSegs AdaptaVerif.Model.NudgeRegion
open AdaptaVerif.Model.FinalSegLimits (insideBounds stepShape shapeLimits finalLimits Lim)

/-! ### coordinates -/

@[simp] theorem alt_alt_alt (d : Nat) : alt (alt (alt d)) = alt d := by
  unfold alt; by_cases h : d = 0 <;> simp [h]

@[simp] theorem decide_alt (d : Nat) : decide (alt d = 0) = !decide (d = 0) := by
  unfold alt; by_cases h : d = 0 <;> simp [h]

@[simp] theorem Pt.swap_swap (p : Pt) : p.swap.swap = p := rfl
@[simp] theorem Rect.swap_swap (r : Rect) : r.swap.swap = r := rfl

@[simp] theorem Pt.swap_c_alt (p : Pt) (d : Nat) : (Pt.swap p).c (alt d) = p.c d := by
  unfold Pt.c alt Pt.swap; by_cases h : d = 0 <;> simp [h]

@[simp] theorem Pt.swap_c_alt_alt (p : Pt) (d : Nat) : (Pt.swap p).c (alt (alt d)) = p.c (alt d) := by
  unfold Pt.c alt Pt.swap; by_cases h : d = 0 <;> simp [h]

@[simp] theorem Rect.swap_mnc_alt (r : Rect) (d : Nat) : (Rect.swap r).mnc (alt d) = r.mnc d := by
  unfold Rect.mnc alt Rect.swap; by_cases h : d = 0 <;> simp [h]

@[simp] theorem Rect.swap_mnc_alt_alt (r : Rect) (d : Nat) : (Rect.swap r).mnc (alt (alt d)) = r.mnc (alt d) := by
  unfold Rect.mnc alt Rect.swap; by_cases h : d = 0 <;> simp [h]

@[simp] theorem Rect.swap_mxc_alt (r : Rect) (d : Nat) : (Rect.swap r).mxc (alt d) = r.mxc d := by
  unfold Rect.mxc alt Rect.swap; by_cases h : d = 0 <;> simp [h]

@[simp] theorem Rect.swap_mxc_alt_alt (r : Rect) (d : Nat) : (Rect.swap r).mxc (alt (alt d)) = r.mxc (alt d) := by
  unfold Rect.mxc alt Rect.swap; by_cases h : d = 0 <;> simp [h]

/-! ### first / last segment rule (`Model/FinalSegLimits.lean`) -/

@[simp] theorem co_swap (p : Pt) (dx : Bool) :
    AdaptaVerif.Model.FinalSegLimits.P.co p.swap (!dx) = AdaptaVerif.Model.FinalSegLimits.P.co p dx := by
  cases dx <;> rfl

@[simp] theorem lo_swap (r : Rect) (dx : Bool) :
    AdaptaVerif.Model.FinalSegLimits.Rect.lo r.swap (!dx) = AdaptaVerif.Model.FinalSegLimits.Rect.lo r dx := by
  cases dx <;> rfl

@[simp] theorem hi_swap (r : Rect) (dx : Bool) :
    AdaptaVerif.Model.FinalSegLimits.Rect.hi r.swap (!dx) = AdaptaVerif.Model.FinalSegLimits.Rect.hi r dx := by
  cases dx <;> rfl

@[simp] theorem insideBounds_swap (p : Pt) (r : Rect) : insideBounds p.swap r.swap = insideBounds p r := by
  unfold insideBounds Pt.swap Rect.swap
  simp only
  generalize decide (r.x0 = 0) = a
  generalize decide (r.y0 = 0) = b
  generalize decide (r.x1 = 0) = c
  generalize decide (r.y1 = 0) = d
  generalize decide (r.x0 ≤ p.x) = e
  generalize decide (p.x ≤ r.x1) = f
  generalize decide (r.y0 ≤ p.y) = g
  generalize decide (p.y ≤ r.y1) = h
  cases a <;> cases b <;> cases c <;> cases d <;> cases e <;> cases f <;> cases g <;> cases h <;> rfl

@[simp] theorem clamp_swap (l : Lim) (dx : Bool) (r : Rect) : l.clamp (!dx) r.swap = l.clamp dx r := by
  unfold Lim.clamp; simp

theorem stepShape_swap (dx : Bool) (a b : Pt) (l : Lim) (r : Rect) :
    stepShape (!dx) a.swap b.swap l r.swap = stepShape dx a b l r := by
  unfold stepShape; simp

theorem shapeLimits_swap (dx : Bool) (a b : Pt) (lims : List Rect) :
    shapeLimits (!dx) a.swap b.swap (lims.map Rect.swap) = shapeLimits dx a b lims := by
  unfold shapeLimits
  rw [List.foldl_map]
  congr 1
  funext l r
  exact stepShape_swap dx a b l r

theorem finalLimits_swap (dx : Bool) (a b : Pt) (lims : List Rect) :
    finalLimits (!dx) a.swap b.swap (lims.map Rect.swap) = finalLimits dx a b lims := by
  unfold finalLimits
  simp only [shapeLimits_swap, co_swap]

/-! ### one route index -/

theorem cpsOnSegment_swap (cache : List (Nat × Pt)) (s m : Nat) :
    cpsOnSegment (cache.map (fun e => (e.1, e.2.swap))) s m = (cpsOnSegment cache s m).map Pt.swap := by
  unfold cpsOnSegment
  simp only [List.filter_map, List.map_map]
  rfl

theorem cpLimits_swap (dim : Nat) (p : Rat) (l : List Pt) (acc : Rat × Rat) :
    cpLimits (alt dim) p (l.map Pt.swap) acc = cpLimits dim p l acc := by
  unfold cpLimits
  rw [List.foldl_map]
  simp only [Pt.swap_c_alt]

theorem segAt_swap (nf : Bool) (lims : List Rect) (dim : Nat) (c : Conn) (i : Nat) :
    segAt nf (lims.map Rect.swap) (alt dim) c.swap i = segAt nf lims dim c i := by
  unfold segAt
  by_cases hi : i = 0
  · simp [hi]
  · simp only [hi, if_false, Conn.swap, List.getElem?_map, List.length_map, cpsOnSegment_swap]
    cases h1 : c.ps[i - 1]? with
    | none => simp
    | some a =>
      cases h2 : c.ps[i]? with
      | none => simp
      | some b =>
        cases h3 : c.ps[i - 2]? with
        | none => simp [finalLimits_swap]
        | some pv =>
          cases h4 : c.ps[i + 1]? with
          | none => simp [finalLimits_swap]
          | some nx => simp [cpLimits_swap, finalLimits_swap, Function.comp_def]

/-! ### the two outer loops -/

theorem connSegs_swap (nf : Bool) (lims : List Rect) (dim : Nat) (c : Conn) :
    connSegs nf (lims.map Rect.swap) (alt dim) c.swap = connSegs nf lims dim c := by
  unfold connSegs
  have hl : c.swap.ps.length = c.ps.length := by simp [Conn.swap]
  rw [hl]
  congr 1
  funext i
  exact segAt_swap nf lims dim c i

theorem shapeLimit_swap (o : Obs) : shapeLimit o.swap = (shapeLimit o).swap := by
  unfold shapeLimit Obs.swap
  cases o.kind <;> rfl

theorem buildSegs_swap (pz nf : Bool) (obs : List Obs) (dim : Nat) (conns : List Conn) :
    buildSegs pz nf (obs.map Obs.swap) (alt dim) (conns.map Conn.swap) = buildSegs pz nf obs dim conns := by
  unfold buildSegs
  cases pz
  · have hl : (if nf then (obs.map Obs.swap).map shapeLimit else [])
        = (if nf then obs.map shapeLimit else []).map Rect.swap := by
      cases nf
      · rfl
      · simp only [if_true, List.map_map]
        congr 1
        funext o
        exact shapeLimit_swap o
    simp only [hl, List.flatMap_map, Bool.false_eq_true, if_false]
    congr 1
    funext c
    exact connSegs_swap nf _ dim c
  · rfl

/-! ### the scan line -/

theorem scanObs_swap (dim : Nat) (obs : List Obs) : scanObs (alt dim) (obs.map Obs.swap) = scanObs dim obs := by
  unfold scanObs
  rw [List.filter_map, List.map_map]
  have hf : ((fun o : Obs => o.inScan) ∘ Obs.swap) = (fun o : Obs => o.inScan) := by
    funext o; rfl
  rw [hf]
  congr 1
  funext o
  simp [Obs.swap]

theorem passSegs_swap (tie pz nf : Bool) (obs : List Obs) (dim : Nat) (conns : List Conn) :
    passSegs tie pz nf (obs.map Obs.swap) (alt dim) (conns.map Conn.swap) = passSegs tie pz nf obs dim conns := by
  unfold passSegs
  rw [buildSegs_swap, scanObs_swap]

end AdaptaVerif.Lemmas.NudgeSegsSwap
