/-
C19 (libdialect peel): the root chosen by `identifyRoot` for every connected component of the
stem graph H is the unique node of the component that is never a leaf. Core Lean only.
-/
import AdaptaVerif.Spec.UGraph
import AdaptaVerif.Model.Peel
import AdaptaVerif.Lemmas.PeelDefs
import AdaptaVerif.Lemmas.PeelRank
import AdaptaVerif.Lemmas.PeelComps

namespace AdaptaVerif.Lemmas.PeelRoot
open AdaptaVerif.Spec.UGraph AdaptaVerif.Model.Peel AdaptaVerif.Lemmas.PeelDefs
open AdaptaVerif.Lemmas.PeelRank AdaptaVerif.Lemmas.PeelComps

/-! ### small list facts -/

private theorem idxOf_cons_ne' {a b : Nat} (l : List Nat) (h : a ≠ b) :
    List.idxOf a (b :: l) = List.idxOf a l + 1 := by
  rw [List.idxOf_cons]
  have : (b == a) = false := by
    cases hb : b == a
    · rfl
    · exact absurd (eq_of_beq hb).symm h
  rw [this]
  rfl

private theorem idxOf_append_notMem {a : Nat} {l1 : List Nat} (l2 : List Nat) (h : a ∉ l1) :
    List.idxOf a (l1 ++ l2) = l1.length + List.idxOf a l2 := by
  rw [List.idxOf_append, if_neg h, Nat.add_comm]

theorem leafList_append (A B : List (Nat × Nat)) :
    leafList (A ++ B) = leafList A ++ leafList B := by
  simp [leafList]

theorem leafList_cons (s : Nat × Nat) (B : List (Nat × Nat)) :
    leafList (s :: B) = s.1 :: leafList B := rfl

theorem length_leafList (A : List (Nat × Nat)) : (leafList A).length = A.length := by
  simp [leafList]

theorem mem_leafList {v : Nat} {stems : List (Nat × Nat)} :
    v ∈ leafList stems ↔ ∃ s, s ∈ stems ∧ s.1 = v := by
  simp [leafList]

/-! ### 1. rank / parent structure of the stems -/

/-- position facts for the stem `(l, r)` sitting at index `|A|` -/
theorem stem_split_facts {stems A B : List (Nat × Nat)} {l r : Nat} (hr : Ranked stems)
    (hs : stems = A ++ (l, r) :: B) :
    parentOf stems l = r ∧ List.idxOf l (leafList stems) = A.length ∧
      A.length < List.idxOf r (leafList stems) := by
  obtain ⟨hnd, hrk⟩ := hr
  obtain ⟨hne, hnA⟩ := hrk A (l, r) B hs
  have hne : r ≠ l := hne
  have hnA : r ∉ leafList A := hnA
  have hll : leafList stems = leafList A ++ l :: leafList B := by
    rw [hs, leafList_append, leafList_cons]
  have hlA : l ∉ leafList A := by
    intro hm
    rw [hll] at hnd
    exact (List.nodup_append.mp hnd).2.2 l hm l List.mem_cons_self rfl
  refine ⟨?_, ?_, ?_⟩
  · unfold parentOf
    have hnone : A.find? (fun s => s.1 == l) = none := by
      rw [List.find?_eq_none]
      intro x hx hxl
      exact hlA (mem_leafList.mpr ⟨x, hx, eq_of_beq hxl⟩)
    have : stems.find? (fun s => s.1 == l) = some (l, r) := by
      rw [hs, List.find?_append, hnone, List.find?_cons_of_pos]
      · rfl
      · exact beq_self_eq_true l
    rw [this]
  · rw [hll, idxOf_append_notMem _ hlA, List.idxOf_cons_self, length_leafList]
    rfl
  · rw [hll, idxOf_append_notMem _ hnA, idxOf_cons_ne' _ hne, length_leafList]
    omega

theorem stem_facts {stems : List (Nat × Nat)} (hr : Ranked stems) {l r : Nat}
    (hm : (l, r) ∈ stems) : parentOf stems l = r ∧ rankOf stems l < rankOf stems r := by
  obtain ⟨A, B, hs⟩ := List.append_of_mem hm
  obtain ⟨h1, h2, h3⟩ := stem_split_facts hr hs
  refine ⟨h1, ?_⟩
  unfold rankOf
  omega

theorem mem_hEdges {stems : List (Nat × Nat)} {a b : Nat} :
    (a, b) ∈ hEdges stems ↔ (b, a) ∈ stems := by
  unfold hEdges
  constructor
  · intro h
    obtain ⟨s, hs, he⟩ := List.mem_map.mp h
    have h1 : s.2 = a := congrArg Prod.fst he
    have h2 : s.1 = b := congrArg Prod.snd he
    rw [← h1, ← h2]
    exact hs
  · intro h
    exact List.mem_map.mpr ⟨(b, a), h, rfl⟩

theorem ranked_edges {stems : List (Nat × Nat)} (hr : Ranked stems) :
    ∀ a b, (a, b) ∈ hEdges stems →
      (parentOf stems a = b ∧ rankOf stems a < rankOf stems b) ∨
      (parentOf stems b = a ∧ rankOf stems b < rankOf stems a) := by
  intro a b hab
  exact Or.inr (stem_facts hr (mem_hEdges.mp hab))

/-! ### 2. tops -/

theorem rankOf_le (stems : List (Nat × Nat)) (v : Nat) : rankOf stems v ≤ (stems.length : Int) := by
  unfold rankOf
  have := @List.idxOf_le_length _ _ _ (leafList stems) v
  rw [length_leafList] at this
  omega

theorem rankOf_notMem {stems : List (Nat × Nat)} {t : Nat} (ht : t ∉ leafList stems) :
    rankOf stems t = (stems.length : Int) := by
  unfold rankOf
  rw [List.idxOf_eq_length ht, length_leafList]

theorem top_of_not_leaf {stems : List (Nat × Nat)} (hr : Ranked stems) {t : Nat}
    (ht : t ∉ leafList stems) :
    Top (hEdges stems) (parentOf stems) (rankOf stems) t := by
  intro b hab
  cases hab with
  | inl h => exact stem_facts hr (mem_hEdges.mp h)
  | inr h =>
    exact absurd (mem_leafList.mpr ⟨(t, b), mem_hEdges.mp h, rfl⟩) ht

theorem not_leaf_unique {stems : List (Nat × Nat)} (hr : Ranked stems) {t1 t2 : Nat}
    (h1 : t1 ∉ leafList stems) (h2 : t2 ∉ leafList stems)
    (hreach : Reach (hEdges stems) t1 t2) : t1 = t2 :=
  tops_unique (hEdges stems) (parentOf stems) (rankOf stems) (ranked_edges hr)
    (top_of_not_leaf hr h1) (top_of_not_leaf hr h2) hreach

/-! ### 3. existence of a top in every class -/

private theorem mem_hNodes_aux (stems : List (Nat × Nat)) : ∀ (acc : List Nat) (v : Nat),
    v ∈ stems.foldl (fun acc s =>
      let acc := if acc.contains s.1 then acc else acc ++ [s.1]
      if acc.contains s.2 then acc else acc ++ [s.2]) acc ↔
    v ∈ acc ∨ ∃ s, s ∈ stems ∧ (v = s.1 ∨ v = s.2) := by
  induction stems with
  | nil => intro acc v; simp
  | cons s t ih =>
    intro acc v
    rw [List.foldl_cons, ih]
    have key : v ∈ (let acc := if acc.contains s.1 then acc else acc ++ [s.1]
        if acc.contains s.2 then acc else acc ++ [s.2]) ↔ v ∈ acc ∨ v = s.1 ∨ v = s.2 := by
      show v ∈ (if (if acc.contains s.1 then acc else acc ++ [s.1]).contains s.2 then
        (if acc.contains s.1 then acc else acc ++ [s.1]) else
        (if acc.contains s.1 then acc else acc ++ [s.1]) ++ [s.2]) ↔ _
      by_cases h1 : acc.contains s.1 = true
      · rw [if_pos h1]
        by_cases h2 : acc.contains s.2 = true
        · rw [if_pos h2]
          have m1 := List.contains_iff_mem.mp h1
          have m2 := List.contains_iff_mem.mp h2
          constructor
          · exact Or.inl
          · rintro (h | h | h)
            · exact h
            · exact h ▸ m1
            · exact h ▸ m2
        · rw [if_neg h2]
          have m1 := List.contains_iff_mem.mp h1
          simp only [List.mem_append, List.mem_singleton]
          constructor
          · rintro (h | h)
            · exact Or.inl h
            · exact Or.inr (Or.inr h)
          · rintro (h | h | h)
            · exact Or.inl h
            · exact Or.inl (h ▸ m1)
            · exact Or.inr h
      · rw [if_neg h1]
        by_cases h2 : (acc ++ [s.1]).contains s.2 = true
        · rw [if_pos h2]
          have m2 := List.contains_iff_mem.mp h2
          simp only [List.mem_append, List.mem_singleton] at m2 ⊢
          constructor
          · rintro (h | h)
            · exact Or.inl h
            · exact Or.inr (Or.inl h)
          · rintro (h | h | h)
            · exact Or.inl h
            · exact Or.inr h
            · rw [h]; exact m2
        · rw [if_neg h2]
          simp only [List.mem_append, List.mem_singleton]
          constructor
          · rintro ((h | h) | h)
            · exact Or.inl h
            · exact Or.inr (Or.inl h)
            · exact Or.inr (Or.inr h)
          · rintro (h | h | h)
            · exact Or.inl (Or.inl h)
            · exact Or.inl (Or.inr h)
            · exact Or.inr h
    rw [key]
    simp only [List.mem_cons]
    constructor
    · rintro ((h | h) | ⟨s', hs', h⟩)
      · exact Or.inl h
      · exact Or.inr ⟨s, Or.inl rfl, h⟩
      · exact Or.inr ⟨s', Or.inr hs', h⟩
    · rintro (h | ⟨s', hs' | hs', h⟩)
      · exact Or.inl (Or.inl h)
      · exact Or.inl (Or.inr (hs' ▸ h))
      · exact Or.inr ⟨s', hs', h⟩

theorem mem_hNodes {stems : List (Nat × Nat)} {v : Nat} :
    v ∈ hNodes stems ↔ ∃ s, s ∈ stems ∧ (v = s.1 ∨ v = s.2) := by
  unfold hNodes
  rw [mem_hNodes_aux]
  simp

/-- climbing parent chains: from any node of H one reaches a never-leaf node, and any function
    that strictly increases from leaf to root of every stem increases along the way -/
theorem exists_top_mono {stems : List (Nat × Nat)} (hr : Ranked stems) (f : Nat → Nat)
    (hf : ∀ l r, (l, r) ∈ stems → f l < f r) :
    ∀ v, v ∈ hNodes stems →
      ∃ t, t ∈ hNodes stems ∧ t ∉ leafList stems ∧ Reach (hEdges stems) v t ∧
        (v = t ∨ f v < f t) := by
  have main : ∀ n v, stems.length - List.idxOf v (leafList stems) ≤ n → v ∈ hNodes stems →
      ∃ t, t ∈ hNodes stems ∧ t ∉ leafList stems ∧ Reach (hEdges stems) v t ∧
        (v = t ∨ f v < f t) := by
    intro n
    induction n with
    | zero =>
      intro v hn hv
      by_cases hl : v ∈ leafList stems
      · have := List.idxOf_lt_length_iff.mpr hl
        rw [length_leafList] at this
        omega
      · exact ⟨v, hv, hl, Reach.refl v, Or.inl rfl⟩
    | succ n ih =>
      intro v hn hv
      by_cases hl : v ∈ leafList stems
      · obtain ⟨s, hs, hsv⟩ := mem_leafList.mp hl
        have hs' : (v, s.2) ∈ stems := by rw [← hsv]; exact hs
        obtain ⟨_, hrank⟩ := stem_facts hr hs'
        unfold rankOf at hrank
        have hlt := List.idxOf_lt_length_iff.mpr hl
        rw [length_leafList] at hlt
        have hp : s.2 ∈ hNodes stems := mem_hNodes.mpr ⟨s, hs, Or.inr rfl⟩
        obtain ⟨t, ht1, ht2, ht3, ht4⟩ := ih s.2 (by omega) hp
        have hadj : Adj (hEdges stems) v s.2 := Or.inr (mem_hEdges.mpr hs')
        refine ⟨t, ht1, ht2, Reach.step hadj ht3, Or.inr ?_⟩
        have h1 := hf v s.2 hs'
        cases ht4 with
        | inl h => rw [← h]; exact h1
        | inr h => omega
      · exact ⟨v, hv, hl, Reach.refl v, Or.inl rfl⟩
  intro v hv
  exact main _ v (Nat.le_refl _) hv

theorem exists_top {stems : List (Nat × Nat)} (hr : Ranked stems) {v : Nat}
    (hv : v ∈ hNodes stems) :
    ∃ t, t ∈ hNodes stems ∧ t ∉ leafList stems ∧ Reach (hEdges stems) v t := by
  have hf : ∀ l r, (l, r) ∈ stems →
      List.idxOf l (leafList stems) < List.idxOf r (leafList stems) := by
    intro l r hm
    have := (stem_facts hr hm).2
    unfold rankOf at this
    omega
  obtain ⟨t, h1, h2, h3, _⟩ := exists_top_mono hr _ hf v hv
  exact ⟨t, h1, h2, h3⟩

/-! ### 4. serial numbers -/

/-- `m_treeSerialNumber` of `v` (0 if the node was never created) -/
def serialOf (ser : List (Nat × Nat)) (v : Nat) : Nat := (ser.lookup v).getD 0

/-- make sure `k` has a serial (node creation) -/
def ensure (mc : List (Nat × Nat) × Nat) (k : Nat) : List (Nat × Nat) × Nat :=
  if (mc.1.lookup k).isSome then mc else ((k, mc.2) :: mc.1, mc.2 + 1)

/-- one `Stem::addSelfToGraph` -/
def stepF (mc : List (Nat × Nat) × Nat) (s : Nat × Nat) : List (Nat × Nat) × Nat :=
  let mc2 := ensure (ensure mc s.1) s.2
  ((s.2, mc2.2) :: mc2.1, mc2.2 + 1)

theorem assignSerials_eq (stems : List (Nat × Nat)) :
    assignSerials stems = (stems.foldl stepF ([], 0)).1 := rfl

/-- all serials handed out so far are below the counter -/
def Inv (mc : List (Nat × Nat) × Nat) : Prop := ∀ v x, mc.1.lookup v = some x → x < mc.2

private theorem lookup_cons_ne' {m : List (Nat × Nat)} {k x v : Nat} (h : v ≠ k) :
    ((k, x) :: m).lookup v = m.lookup v := by
  rw [List.lookup_cons]
  have : (v == k) = false := by
    cases hb : v == k
    · rfl
    · exact absurd (eq_of_beq hb) h
  rw [this]

private theorem lookup_cons_self' {m : List (Nat × Nat)} {k x : Nat} :
    ((k, x) :: m).lookup k = some x := List.lookup_cons_self

theorem inv_push {mc : List (Nat × Nat) × Nat} (h : Inv mc) (k : Nat) :
    Inv ((k, mc.2) :: mc.1, mc.2 + 1) := by
  intro v x hx
  show x < mc.2 + 1
  by_cases hv : v = k
  · subst hv
    rw [show ((v, mc.2) :: mc.1, mc.2 + 1).1 = (v, mc.2) :: mc.1 from rfl, lookup_cons_self'] at hx
    have : mc.2 = x := Option.some.inj hx
    omega
  · rw [show ((k, mc.2) :: mc.1, mc.2 + 1).1 = (k, mc.2) :: mc.1 from rfl, lookup_cons_ne' hv] at hx
    have := h v x hx
    omega

theorem ensure_spec {mc : List (Nat × Nat) × Nat} (h : Inv mc) (k : Nat) :
    Inv (ensure mc k) ∧ mc.2 ≤ (ensure mc k).2 ∧
    (∀ v x, mc.1.lookup v = some x → (ensure mc k).1.lookup v = some x) ∧
    (∃ x, (ensure mc k).1.lookup k = some x) ∧
    (∀ v, v ≠ k → (ensure mc k).1.lookup v = mc.1.lookup v) := by
  unfold ensure
  by_cases hk : (mc.1.lookup k).isSome = true
  · rw [if_pos hk]
    exact ⟨h, Nat.le_refl _, fun _ _ hx => hx, Option.isSome_iff_exists.mp hk, fun _ _ => rfl⟩
  · rw [if_neg hk]
    refine ⟨inv_push h k, Nat.le_succ _, ?_, ⟨mc.2, lookup_cons_self'⟩,
      fun v hv => lookup_cons_ne' hv⟩
    intro v x hx
    have hv : v ≠ k := by
      intro hvk
      rw [hvk] at hx
      rw [hx] at hk
      exact hk rfl
    show ((k, mc.2) :: mc.1).lookup v = some x
    rw [lookup_cons_ne' hv]
    exact hx

/-- everything we need to know about one step -/
theorem step_spec {mc : List (Nat × Nat) × Nat} (h : Inv mc) (l r : Nat) :
    Inv (stepF mc (l, r)) ∧
    (∀ v x, mc.1.lookup v = some x → ∃ y, (stepF mc (l, r)).1.lookup v = some y ∧ x ≤ y) ∧
    (∀ v x, v ≠ r → mc.1.lookup v = some x → (stepF mc (l, r)).1.lookup v = some x) ∧
    (l ≠ r → ∃ x y, (stepF mc (l, r)).1.lookup l = some x ∧
      (stepF mc (l, r)).1.lookup r = some y ∧ x < y) ∧
    (∃ y, (stepF mc (l, r)).1.lookup r = some y) := by
  obtain ⟨i1, c1, k1, e1, n1⟩ := ensure_spec h l
  obtain ⟨i2, c2, k2, e2, n2⟩ := ensure_spec i1 r
  have hst : stepF mc (l, r) =
      ((r, (ensure (ensure mc l) r).2) :: (ensure (ensure mc l) r).1,
        (ensure (ensure mc l) r).2 + 1) := rfl
  have hr : (stepF mc (l, r)).1.lookup r = some (ensure (ensure mc l) r).2 := by
    rw [hst]; exact lookup_cons_self'
  have hne : ∀ v, v ≠ r → (stepF mc (l, r)).1.lookup v = (ensure (ensure mc l) r).1.lookup v := by
    intro v hv
    rw [hst]; exact lookup_cons_ne' hv
  refine ⟨?_, ?_, ?_, ?_, ⟨_, hr⟩⟩
  · rw [hst]; exact inv_push i2 r
  · intro v x hx
    by_cases hv : v = r
    · subst hv
      refine ⟨_, hr, ?_⟩
      have := h v x hx
      omega
    · refine ⟨x, ?_, Nat.le_refl _⟩
      rw [hne v hv]
      exact k2 v x (k1 v x hx)
  · intro v x hv hx
    rw [hne v hv]
    exact k2 v x (k1 v x hx)
  · intro hlr
    obtain ⟨x, hx⟩ := e1
    refine ⟨x, _, ?_, hr, ?_⟩
    · rw [hne l hlr]
      exact k2 l x hx
    · have := i1 l x hx
      omega

theorem foldl_inv (stems : List (Nat × Nat)) : ∀ mc, Inv mc → Inv (stems.foldl stepF mc) := by
  induction stems with
  | nil => intro mc h; exact h
  | cons s t ih =>
    intro mc h
    rw [List.foldl_cons]
    exact ih _ (step_spec h s.1 s.2).1

/-- serials only grow -/
theorem foldl_mono (stems : List (Nat × Nat)) : ∀ mc, Inv mc → ∀ v x, mc.1.lookup v = some x →
    ∃ y, (stems.foldl stepF mc).1.lookup v = some y ∧ x ≤ y := by
  induction stems with
  | nil => intro mc _ v x hx; exact ⟨x, hx, Nat.le_refl _⟩
  | cons s t ih =>
    intro mc h v x hx
    rw [List.foldl_cons]
    obtain ⟨hi, hm, _⟩ := step_spec h s.1 s.2
    obtain ⟨y, hy, hxy⟩ := hm v x hx
    obtain ⟨z, hz, hyz⟩ := ih _ hi v y hy
    exact ⟨z, hz, Nat.le_trans hxy hyz⟩

/-- a node that is not the root of any later stem keeps its serial -/
theorem foldl_stable (stems : List (Nat × Nat)) : ∀ mc, Inv mc → ∀ v x,
    (∀ s, s ∈ stems → s.2 ≠ v) → mc.1.lookup v = some x →
    (stems.foldl stepF mc).1.lookup v = some x := by
  induction stems with
  | nil => intro mc _ v x _ hx; exact hx
  | cons s t ih =>
    intro mc h v x hnr hx
    rw [List.foldl_cons]
    obtain ⟨hi, _, hs, _⟩ := step_spec h s.1 s.2
    have hv : v ≠ s.2 := fun e => hnr s List.mem_cons_self e.symm
    exact ih _ hi v x (fun s' hs' => hnr s' (List.mem_cons_of_mem _ hs')) (hs v x hv hx)

theorem ranked_tail {s : Nat × Nat} {t : List (Nat × Nat)} (hr : Ranked (s :: t)) :
    Ranked t ∧ s.2 ≠ s.1 ∧ ∀ s', s' ∈ t → s'.2 ≠ s.1 := by
  obtain ⟨hnd, hrk⟩ := hr
  refine ⟨⟨?_, ?_⟩, ?_, ?_⟩
  · rw [leafList_cons] at hnd
    exact (List.nodup_cons.mp hnd).2
  · intro A s' B ht
    have := hrk (s :: A) s' B (by rw [ht]; rfl)
    refine ⟨this.1, ?_⟩
    intro hm
    apply this.2
    rw [leafList_cons]
    exact List.mem_cons_of_mem _ hm
  · exact (hrk [] s t rfl).1
  · intro s' hs'
    obtain ⟨A, B, ht⟩ := List.append_of_mem hs'
    have := hrk (s :: A) s' B (by rw [ht]; rfl)
    intro e
    apply this.2
    rw [leafList_cons, e]
    exact List.mem_cons_self

/-- (4a)+(4b) for an arbitrary starting state -/
theorem foldl_serials (stems : List (Nat × Nat)) : ∀ mc, Inv mc → Ranked stems →
    ∀ l r, (l, r) ∈ stems → ∃ x y, (stems.foldl stepF mc).1.lookup l = some x ∧
      (stems.foldl stepF mc).1.lookup r = some y ∧ x < y := by
  induction stems with
  | nil => intro mc _ _ l r hm; cases hm
  | cons s t ih =>
    intro mc h hr l r hm
    obtain ⟨hrt, hne, hnr⟩ := ranked_tail hr
    rw [List.foldl_cons]
    obtain ⟨hi, _, _, hlt, _⟩ := step_spec h s.1 s.2
    cases List.mem_cons.mp hm with
    | inl he =>
      subst he
      have hne' : r ≠ l := hne
      have hnr' : ∀ s', s' ∈ t → s'.2 ≠ l := hnr
      have hi' : Inv (stepF mc (l, r)) := hi
      obtain ⟨x, y, hx, hy, hxy⟩ := hlt (fun e => hne' e.symm)
      have hx : (stepF mc (l, r)).1.lookup l = some x := hx
      have hy : (stepF mc (l, r)).1.lookup r = some y := hy
      show ∃ x y, (t.foldl stepF (stepF mc (l, r))).1.lookup l = some x ∧
        (t.foldl stepF (stepF mc (l, r))).1.lookup r = some y ∧ x < y
      obtain ⟨z, hz, hyz⟩ := foldl_mono t _ hi' r y hy
      exact ⟨x, z, foldl_stable t _ hi' l x hnr' hx, hz, by omega⟩
    | inr hmt => exact ih _ hi hrt l r hmt

theorem inv_init : Inv ([], 0) := by
  intro v x hx
  cases hx

/-- (4b) the leaf of a stem has a smaller final serial than its root -/
theorem serial_lt {stems : List (Nat × Nat)} (hr : Ranked stems) {l r : Nat}
    (hm : (l, r) ∈ stems) :
    serialOf (assignSerials stems) l < serialOf (assignSerials stems) r := by
  obtain ⟨x, y, hx, hy, hxy⟩ := foldl_serials stems _ inv_init hr l r hm
  unfold serialOf
  rw [assignSerials_eq, hx, hy]
  exact hxy

/-- (4a) every node of H has a serial -/
theorem serial_exists {stems : List (Nat × Nat)} {v : Nat} (hv : v ∈ hNodes stems) :
    ∃ x, (assignSerials stems).lookup v = some x := by
  obtain ⟨s, hs, hvs⟩ := mem_hNodes.mp hv
  obtain ⟨A, B, hsp⟩ := List.append_of_mem hs
  rw [assignSerials_eq, hsp, List.foldl_append, List.foldl_cons]
  have hA := foldl_inv A _ inv_init
  obtain ⟨hi, _, _, hlt, hrr⟩ := step_spec hA s.1 s.2
  have hboth : ∃ x, (stepF (A.foldl stepF ([], 0)) s).1.lookup v = some x := by
    cases hvs with
    | inr h2 => rw [h2]; exact hrr
    | inl h1 =>
      by_cases hlr : s.1 = s.2
      · rw [h1, hlr]; exact hrr
      · obtain ⟨x, _, hx, _⟩ := hlt hlr
        rw [h1]; exact ⟨x, hx⟩
  obtain ⟨x, hx⟩ := hboth
  obtain ⟨y, hy, _⟩ := foldl_mono B _ hi v x hx
  exact ⟨y, hy⟩

/-- (4c) the never-leaf node of a class has the strictly largest serial of the class -/
theorem exists_top_serial {stems : List (Nat × Nat)} (hr : Ranked stems) {v : Nat}
    (hv : v ∈ hNodes stems) :
    ∃ t, t ∈ hNodes stems ∧ t ∉ leafList stems ∧ Reach (hEdges stems) v t ∧
      (v = t ∨ serialOf (assignSerials stems) v < serialOf (assignSerials stems) t) :=
  exists_top_mono hr _ (fun _ _ hm => serial_lt hr hm) v hv

/-! ### 5. identifyRoot -/

/-- the scan step of `identifyRootNode` -/
def scanF (ser : List (Nat × Nat)) (cm : Nat × Nat) (v : Nat) : Nat × Nat :=
  if serialOf ser v ≥ cm.2 then (v, serialOf ser v) else cm

theorem identifyRoot_eq (ser : List (Nat × Nat)) (l : List Nat) :
    identifyRoot ser l = (l.foldl (scanF ser) (0, 0)).1 := rfl

private theorem scan_after (ser : List (Nat × Nat)) (t : Nat) : ∀ l : List Nat,
    (∀ v, v ∈ l → v ≠ t → serialOf ser v < serialOf ser t) →
    l.foldl (scanF ser) (t, serialOf ser t) = (t, serialOf ser t) := by
  intro l
  induction l with
  | nil => intro _; rfl
  | cons a l ih =>
    intro hmax
    rw [List.foldl_cons]
    have hstep : scanF ser (t, serialOf ser t) a = (t, serialOf ser t) := by
      unfold scanF
      by_cases ha : a = t
      · subst ha
        rw [if_pos (Nat.le_refl _)]
      · have := hmax a List.mem_cons_self ha
        rw [if_neg (by show ¬ (serialOf ser a ≥ serialOf ser t); omega)]
    rw [hstep]
    exact ih (fun v hv => hmax v (List.mem_cons_of_mem _ hv))

private theorem scan_before (ser : List (Nat × Nat)) (t : Nat) : ∀ (l : List Nat) (cm : Nat × Nat),
    cm.2 ≤ serialOf ser t → t ∈ l →
    (∀ v, v ∈ l → v ≠ t → serialOf ser v < serialOf ser t) →
    l.foldl (scanF ser) cm = (t, serialOf ser t) := by
  intro l
  induction l with
  | nil => intro _ _ ht; cases ht
  | cons a l ih =>
    intro cm hcm ht hmax
    rw [List.foldl_cons]
    by_cases ha : a = t
    · subst ha
      have hstep : scanF ser cm a = (a, serialOf ser a) := by
        unfold scanF
        rw [if_pos hcm]
      rw [hstep]
      exact scan_after ser a l (fun v hv => hmax v (List.mem_cons_of_mem _ hv))
    · have htl : t ∈ l := by
        cases List.mem_cons.mp ht with
        | inl h => exact absurd h.symm ha
        | inr h => exact h
      have hlt := hmax a List.mem_cons_self ha
      apply ih _ _ htl (fun v hv => hmax v (List.mem_cons_of_mem _ hv))
      unfold scanF
      by_cases hc : serialOf ser a ≥ cm.2
      · rw [if_pos hc]
        show serialOf ser a ≤ serialOf ser t
        omega
      · rw [if_neg hc]
        exact hcm

/-- a strict maximum of the serials in the scanned list is what `identifyRoot` returns -/
theorem identifyRoot_of_max (ser : List (Nat × Nat)) {l : List Nat} {t : Nat} (ht : t ∈ l)
    (hmax : ∀ v, v ∈ l → v ≠ t → serialOf ser v < serialOf ser t) :
    identifyRoot ser l = t := by
  rw [identifyRoot_eq, scan_before ser t l (0, 0) (Nat.zero_le _) ht hmax]

/-! ### 6. the root of every H-component -/

theorem hEdges_endpoints (stems : List (Nat × Nat)) :
    ∀ e, e ∈ hEdges stems → e.1 ∈ sortNat (hNodes stems) ∧ e.2 ∈ sortNat (hNodes stems) := by
  intro e he
  have he' : (e.1, e.2) ∈ hEdges stems := he
  have hm := mem_hEdges.mp he'
  unfold sortNat
  rw [List.mem_mergeSort, List.mem_mergeSort]
  exact ⟨mem_hNodes.mpr ⟨_, hm, Or.inr rfl⟩, mem_hNodes.mpr ⟨_, hm, Or.inl rfl⟩⟩

/-- version with the serial inequality as a hypothesis -/
theorem identifyRoot_spec_of_serials {stems : List (Nat × Nat)} (hr : Ranked stems)
    (hser : ∀ l r, (l, r) ∈ stems →
      serialOf (assignSerials stems) l < serialOf (assignSerials stems) r)
    {cs : List Comp}
    (h : getConnComps (sortNat (hNodes stems)) (hEdges stems) = some cs) :
    ∀ c, c ∈ cs →
      let root := identifyRoot (assignSerials stems) (sortNat c.nodes)
      root ∈ c.nodes ∧ root ∉ leafList stems ∧ ∀ v, v ∈ c.nodes → v ∉ leafList stems → v = root := by
  intro c hc
  have hE := hEdges_endpoints stems
  have hsub : ∀ v, v ∈ c.nodes → v ∈ hNodes stems := by
    intro v hv
    have := comps_subset h hE c hc v hv
    unfold sortNat at this
    exact List.mem_mergeSort.mp this
  have hcls := comps_class h hE c hc
  obtain ⟨u, hu⟩ := List.exists_mem_of_ne_nil _ (comps_nonempty h hE c hc)
  obtain ⟨t, _, htl, hut, _⟩ := exists_top_mono hr _ hser u (hsub u hu)
  have htc : t ∈ c.nodes := (hcls u hu t).2 hut
  have hmax : ∀ v, v ∈ sortNat c.nodes → v ≠ t →
      serialOf (assignSerials stems) v < serialOf (assignSerials stems) t := by
    intro v hv hvt
    have hvc : v ∈ c.nodes := by
      unfold sortNat at hv
      exact List.mem_mergeSort.mp hv
    obtain ⟨t', _, ht'l, hvt', hlt⟩ := exists_top_mono hr _ hser v (hsub v hvc)
    have ht't : t' = t :=
      not_leaf_unique hr ht'l htl (hvt'.symm.trans ((hcls v hvc t).1 htc))
    rw [ht't] at hlt
    cases hlt with
    | inl e => exact absurd e hvt
    | inr e => exact e
  have hts : t ∈ sortNat c.nodes := by
    unfold sortNat
    exact List.mem_mergeSort.mpr htc
  have hroot : identifyRoot (assignSerials stems) (sortNat c.nodes) = t :=
    identifyRoot_of_max _ hts hmax
  show identifyRoot (assignSerials stems) (sortNat c.nodes) ∈ c.nodes ∧
    identifyRoot (assignSerials stems) (sortNat c.nodes) ∉ leafList stems ∧
    ∀ v, v ∈ c.nodes → v ∉ leafList stems →
      v = identifyRoot (assignSerials stems) (sortNat c.nodes)
  rw [hroot]
  refine ⟨htc, htl, ?_⟩
  intro v hvc hvl
  exact not_leaf_unique hr hvl htl ((hcls v hvc t).1 htc)

theorem identifyRoot_spec {stems : List (Nat × Nat)} (hr : Ranked stems) {cs : List Comp}
    (h : getConnComps (sortNat (hNodes stems)) (hEdges stems) = some cs) :
    ∀ c, c ∈ cs →
      let root := identifyRoot (assignSerials stems) (sortNat c.nodes)
      root ∈ c.nodes ∧ root ∉ leafList stems ∧ ∀ v, v ∈ c.nodes → v ∉ leafList stems → v = root :=
  identifyRoot_spec_of_serials hr (fun _ _ hm => serial_lt hr hm) h

end AdaptaVerif.Lemmas.PeelRoot
