/-
Partial-correctness theorems for the executable model of `Graph::getConnComps`
(`AdaptaVerif.Model.Peel.getConnComps`) against the list-graph theory of `Spec.UGraph`,
plus fuel sufficiency (the model never returns `none`). Core Lean only.
-/
import AdaptaVerif.Spec.UGraph
import AdaptaVerif.Model.Peel

namespace AdaptaVerif.Lemmas.PeelComps
open AdaptaVerif.Spec.UGraph AdaptaVerif.Model.Peel

/-! ### neighbours -/

theorem mem_nbrs {es : List (Nat × Nat)} {v w : Nat} : w ∈ nbrs es v ↔ Adj es v w := by
  unfold nbrs Adj
  simp only [List.mem_map, List.mem_filter, incident, otherEnd, Bool.or_eq_true, beq_iff_eq]
  constructor
  · rintro ⟨⟨a, b⟩, ⟨hmem, hinc⟩, hw⟩
    simp only at hinc hw
    by_cases ha : a = v
    · rw [if_pos ha] at hw
      subst ha; subst hw
      exact Or.inl hmem
    · rw [if_neg ha] at hw
      cases hinc with
      | inl h => exact absurd h ha
      | inr h =>
        subst h; subst hw
        exact Or.inr hmem
  · intro h
    cases h with
    | inl h =>
      refine ⟨(v, w), ⟨h, Or.inl rfl⟩, ?_⟩
      simp only [if_true]
    | inr h =>
      refine ⟨(w, v), ⟨h, Or.inr rfl⟩, ?_⟩
      by_cases hwv : w = v
      · simp only [if_pos hwv]; exact hwv.symm
      · simp only [if_neg hwv]

/-! ### BFS -/

/-- generic invariant principle for `bfs`: a predicate on (queue, visited) preserved by the
    two kinds of step holds of `([], out)` at exit -/
theorem bfs_inv {es : List (Nat × Nat)} (I : List Nat → List Nat → Prop)
    (hskip : ∀ v q vis, v ∈ vis → I (v :: q) vis → I q vis)
    (hvisit : ∀ v q vis, v ∉ vis → I (v :: q) vis → I (q ++ nbrs es v) (v :: vis)) :
    ∀ (f : Nat) (q vis out : List Nat), bfs es f q vis = some out → I q vis → I [] out := by
  intro f
  induction f with
  | zero =>
    intro q vis out h hI
    cases q with
    | nil =>
      simp only [bfs, Option.some.injEq] at h
      subst h; exact hI
    | cons v q => simp only [bfs, reduceCtorEq] at h
  | succ f ih =>
    intro q vis out h hI
    cases q with
    | nil =>
      simp only [bfs, Option.some.injEq] at h
      subst h; exact hI
    | cons v q =>
      simp only [bfs] at h
      by_cases hv : v ∈ vis
      · rw [if_pos (List.contains_iff_mem.2 hv)] at h
        exact ih q vis out h (hskip v q vis hv hI)
      · rw [if_neg (fun hc => hv (List.contains_iff_mem.1 hc))] at h
        exact ih _ _ out h (hvisit v q vis hv hI)

theorem bfs_sound {es : List (Nat × Nat)} {s f : Nat} {q vis out : List Nat}
    (h : bfs es f q vis = some out) (hvis : ∀ x, x ∈ vis → Reach es s x)
    (hq : ∀ x, x ∈ q → Reach es s x) : ∀ x, x ∈ out → Reach es s x := by
  have := bfs_inv (es := es)
    (fun q vis => (∀ x, x ∈ vis → Reach es s x) ∧ (∀ x, x ∈ q → Reach es s x))
    (fun v q vis _ hI => ⟨hI.1, fun x hx => hI.2 x (List.mem_cons_of_mem _ hx)⟩)
    (fun v q vis _ hI => by
      have hsv : Reach es s v := hI.2 v (List.mem_cons_self)
      refine ⟨fun x hx => ?_, fun x hx => ?_⟩
      · cases List.mem_cons.1 hx with
        | inl h => exact h ▸ hsv
        | inr h => exact hI.1 x h
      · cases List.mem_append.1 hx with
        | inl h => exact hI.2 x (List.mem_cons_of_mem _ h)
        | inr h => exact hsv.tail (mem_nbrs.1 h))
    f q vis out h ⟨hvis, hq⟩
  exact this.1

/-- everything visited or queued at some point ends up in the output -/
theorem bfs_mono_all {es : List (Nat × Nat)} {f : Nat} {q vis out : List Nat}
    (h : bfs es f q vis = some out) : ∀ x, x ∈ vis ∨ x ∈ q → x ∈ out := by
  have := bfs_inv (es := es)
    (fun q' vis' => ∀ x, x ∈ vis ∨ x ∈ q → x ∈ vis' ∨ x ∈ q')
    (fun v q' vis' hv hI x hx => by
      cases hI x hx with
      | inl h => exact Or.inl h
      | inr h =>
        cases List.mem_cons.1 h with
        | inl h => exact Or.inl (h ▸ hv)
        | inr h => exact Or.inr h)
    (fun v q' vis' _ hI x hx => by
      cases hI x hx with
      | inl h => exact Or.inl (List.mem_cons_of_mem _ h)
      | inr h =>
        cases List.mem_cons.1 h with
        | inl h => exact Or.inl (h ▸ List.mem_cons_self)
        | inr h => exact Or.inr (List.mem_append_left _ h))
    f q vis out h (fun x hx => hx)
  intro x hx
  cases this x hx with
  | inl h => exact h
  | inr h => cases h

theorem bfs_mono {es : List (Nat × Nat)} {f : Nat} {q vis out : List Nat}
    (h : bfs es f q vis = some out) : ∀ x, x ∈ vis → x ∈ out :=
  fun x hx => bfs_mono_all h x (Or.inl hx)

theorem bfs_queue_sub {es : List (Nat × Nat)} {f : Nat} {q vis out : List Nat}
    (h : bfs es f q vis = some out) : ∀ x, x ∈ q → x ∈ out :=
  fun x hx => bfs_mono_all h x (Or.inr hx)

theorem bfs_closed {es : List (Nat × Nat)} {f : Nat} {q vis out : List Nat}
    (h : bfs es f q vis = some out)
    (hinv : ∀ a, a ∈ vis → ∀ b, Adj es a b → b ∈ vis ∨ b ∈ q) :
    ∀ a, a ∈ out → ∀ b, Adj es a b → b ∈ out := by
  have := bfs_inv (es := es)
    (fun q vis => ∀ a, a ∈ vis → ∀ b, Adj es a b → b ∈ vis ∨ b ∈ q)
    (fun v q vis hv hI a ha b hab => by
      cases hI a ha b hab with
      | inl h => exact Or.inl h
      | inr h =>
        cases List.mem_cons.1 h with
        | inl h => exact Or.inl (h ▸ hv)
        | inr h => exact Or.inr h)
    (fun v q vis _ hI a ha b hab => by
      cases List.mem_cons.1 ha with
      | inl h =>
        subst h
        exact Or.inr (List.mem_append_right _ (mem_nbrs.2 hab))
      | inr h =>
        cases hI a h b hab with
        | inl h => exact Or.inl (List.mem_cons_of_mem _ h)
        | inr h =>
          cases List.mem_cons.1 h with
          | inl h => exact Or.inl (h ▸ List.mem_cons_self)
          | inr h => exact Or.inr (List.mem_append_left _ h))
    f q vis out h hinv
  intro a ha b hab
  cases this a ha b hab with
  | inl h => exact h
  | inr h => cases h

theorem bfs_nodup {es : List (Nat × Nat)} {f : Nat} {q vis out : List Nat}
    (h : bfs es f q vis = some out) (hnd : vis.Nodup) : out.Nodup :=
  bfs_inv (es := es) (fun _ vis => vis.Nodup)
    (fun _ _ _ _ hI => hI)
    (fun _ _ _ hv hI => List.nodup_cons.2 ⟨hv, hI⟩)
    f q vis out h hnd

/-- the BFS started at `u0` returns exactly the reachability class of `u0` -/
theorem bfs_component {es : List (Nat × Nat)} {f u0 : Nat} {vis : List Nat}
    (h : bfs es f (nbrs es u0) [u0] = some vis) : ∀ x, x ∈ vis ↔ Reach es u0 x := by
  intro x
  constructor
  · refine bfs_sound h (fun y hy => ?_) (fun y hy => ?_) x
    · rw [List.mem_singleton.1 hy]; exact Reach.refl _
    · exact Reach.single (mem_nbrs.1 hy)
  · intro hr
    have hcl := bfs_closed h (fun a ha b hab => by
      rw [List.mem_singleton.1 ha] at hab
      exact Or.inr (mem_nbrs.2 hab))
    exact Reach.closed (P := fun y => y ∈ vis) (fun a b ha hab => hcl a ha b hab) hr
      (bfs_mono h u0 (List.mem_singleton.2 rfl))

/-! ### outer loop -/

/-- `rem` is a union of reachability classes -/
def Closed (es : List (Nat × Nat)) (rem : List Nat) : Prop :=
  ∀ a, a ∈ rem → ∀ b, Reach es a b → b ∈ rem

theorem closed_of_endpoints {ns : List Nat} {es : List (Nat × Nat)}
    (hE : ∀ e, e ∈ es → e.1 ∈ ns ∧ e.2 ∈ ns) : Closed es ns := by
  intro a ha b hr
  refine Reach.closed (P := fun y => y ∈ ns) (fun a b _ hab => ?_) hr ha
  cases hab with
  | inl h => exact (hE _ h).2
  | inr h => exact (hE _ h).1

/-- what the outer loop establishes -/
structure LoopSpec (es : List (Nat × Nat)) (rem : List Nat) (cs : List Comp) : Prop where
  cover : ∀ v, v ∈ rem ↔ ∃ c, c ∈ cs ∧ v ∈ c.nodes
  cls : ∀ c, c ∈ cs → ∃ u0, u0 ∈ c.nodes ∧ (∀ x, x ∈ c.nodes ↔ Reach es u0 x) ∧
    c.edges = compEdges es c.nodes
  nodup : ∀ c, c ∈ cs → c.nodes.Nodup
  disj : cs.Pairwise (fun c d => ∀ v, v ∈ c.nodes → v ∉ d.nodes)

theorem loopSpec_nil {es : List (Nat × Nat)} : LoopSpec es [] [] where
  cover := fun _ => ⟨fun hv => (nomatch hv), fun ⟨_, hc, _⟩ => (nomatch hc)⟩
  cls := fun _ hc => (nomatch hc)
  nodup := fun _ hc => (nomatch hc)
  disj := List.Pairwise.nil

theorem compsLoop_spec {es : List (Nat × Nat)} :
    ∀ (f : Nat) (rem : List Nat) (cs : List Comp),
      compsLoop es f rem = some cs → Closed es rem → LoopSpec es rem cs := by
  intro f
  induction f with
  | zero =>
    intro rem cs h _
    cases rem with
    | nil =>
      simp only [compsLoop, Option.some.injEq] at h
      subst h
      exact loopSpec_nil
    | cons u0 rem => simp only [compsLoop, reduceCtorEq] at h
  | succ f ih =>
    intro rem cs h hcl
    cases rem with
    | nil =>
      simp only [compsLoop, Option.some.injEq] at h
      subst h
      exact loopSpec_nil
    | cons u0 rem =>
      simp only [compsLoop] at h
      cases hb : bfs es (bfsFuel es) (nbrs es u0) [u0] with
      | none => simp only [hb, reduceCtorEq] at h
      | some vis =>
        simp only [hb] at h
        cases hl : compsLoop es f (rem.filter (fun x => !vis.contains x)) with
        | none => simp only [hl, reduceCtorEq] at h
        | some cs' =>
          simp only [hl, Option.some.injEq] at h
          subst h
          have hvis := bfs_component hb
          have hu0 : u0 ∈ vis := (hvis u0).2 (Reach.refl _)
          have hmemf : ∀ x, x ∈ rem.filter (fun x => !vis.contains x) ↔ x ∈ rem ∧ x ∉ vis := by
            intro x
            simp only [List.mem_filter, Bool.not_eq_true', List.contains_eq_mem,
              decide_eq_false_iff_not]
          have hcl' : Closed es (rem.filter (fun x => !vis.contains x)) := by
            intro a ha b hr
            have ha' := (hmemf a).1 ha
            have hbv : b ∉ vis := fun hbv =>
              ha'.2 ((hvis a).2 (((hvis b).1 hbv).trans hr.symm))
            have hbr := hcl a (List.mem_cons_of_mem _ ha'.1) b hr
            cases List.mem_cons.1 hbr with
            | inl h => exact absurd (h ▸ hu0) hbv
            | inr h => exact (hmemf b).2 ⟨h, hbv⟩
          have sp := ih _ cs' hl hcl'
          refine ⟨fun v => ⟨fun hv => ?_, fun ⟨c, hc, hvc⟩ => ?_⟩, fun c hc => ?_,
            fun c hc => ?_, List.pairwise_cons.2 ⟨fun d hd v hv hvd => ?_, sp.disj⟩⟩
          · by_cases hvv : v ∈ vis
            · exact ⟨_, List.mem_cons_self, hvv⟩
            · cases List.mem_cons.1 hv with
              | inl h => exact absurd (h ▸ hu0) hvv
              | inr h =>
                obtain ⟨c, hc, hvc⟩ := (sp.cover v).1 ((hmemf v).2 ⟨h, hvv⟩)
                exact ⟨c, List.mem_cons_of_mem _ hc, hvc⟩
          · cases List.mem_cons.1 hc with
            | inl h =>
              subst h
              exact hcl u0 List.mem_cons_self v ((hvis v).1 hvc)
            | inr h =>
              exact List.mem_cons_of_mem _
                ((hmemf v).1 ((sp.cover v).2 ⟨c, h, hvc⟩)).1
          · cases List.mem_cons.1 hc with
            | inl h =>
              subst h
              exact ⟨u0, hu0, hvis, rfl⟩
            | inr h => exact sp.cls c h
          · cases List.mem_cons.1 hc with
            | inl h =>
              subst h
              exact bfs_nodup hb (List.nodup_cons.2 ⟨fun hx => (nomatch hx), List.nodup_nil⟩)
            | inr h => exact sp.nodup c h
          · exact ((hmemf v).1 ((sp.cover v).2 ⟨d, hd, hvd⟩)).2 hv

/-! ### `getConnComps` -/

section
variable {ns : List Nat} {es : List (Nat × Nat)} {cs : List Comp}

theorem comps_spec (h : getConnComps ns es = some cs)
    (hE : ∀ e, e ∈ es → e.1 ∈ ns ∧ e.2 ∈ ns) : LoopSpec es ns cs :=
  compsLoop_spec _ _ _ h (closed_of_endpoints hE)

/-- every node lies in some component -/
theorem comps_cover (h : getConnComps ns es = some cs)
    (hE : ∀ e, e ∈ es → e.1 ∈ ns ∧ e.2 ∈ ns) :
    ∀ v, v ∈ ns → ∃ c, c ∈ cs ∧ v ∈ c.nodes :=
  fun v hv => ((comps_spec h hE).cover v).1 hv

/-- components only contain nodes of the graph -/
theorem comps_subset (h : getConnComps ns es = some cs)
    (hE : ∀ e, e ∈ es → e.1 ∈ ns ∧ e.2 ∈ ns) :
    ∀ c, c ∈ cs → ∀ v, v ∈ c.nodes → v ∈ ns :=
  fun c hc v hv => ((comps_spec h hE).cover v).2 ⟨c, hc, hv⟩

theorem comps_nodup (h : getConnComps ns es = some cs)
    (hE : ∀ e, e ∈ es → e.1 ∈ ns ∧ e.2 ∈ ns) :
    ∀ c, c ∈ cs → c.nodes.Nodup :=
  (comps_spec h hE).nodup

theorem comps_nonempty (h : getConnComps ns es = some cs)
    (hE : ∀ e, e ∈ es → e.1 ∈ ns ∧ e.2 ∈ ns) :
    ∀ c, c ∈ cs → c.nodes ≠ [] := by
  intro c hc hnil
  obtain ⟨u0, hu0, _⟩ := (comps_spec h hE).cls c hc
  rw [hnil] at hu0
  cases hu0

/-- different components share no node -/
theorem comps_disjoint (h : getConnComps ns es = some cs)
    (hE : ∀ e, e ∈ es → e.1 ∈ ns ∧ e.2 ∈ ns) :
    cs.Pairwise (fun c d => ∀ v, v ∈ c.nodes → v ∉ d.nodes) :=
  (comps_spec h hE).disj

/-- each component is exactly a reachability class -/
theorem comps_class (h : getConnComps ns es = some cs)
    (hE : ∀ e, e ∈ es → e.1 ∈ ns ∧ e.2 ∈ ns) :
    ∀ c, c ∈ cs → ∀ u, u ∈ c.nodes → ∀ x, x ∈ c.nodes ↔ Reach es u x := by
  intro c hc u hu x
  obtain ⟨u0, _, hcls, _⟩ := (comps_spec h hE).cls c hc
  have huu : Reach es u0 u := (hcls u).1 hu
  exact ⟨fun hx => huu.symm.trans ((hcls x).1 hx), fun hr => (hcls x).2 (huu.trans hr)⟩

/-- no edge leaves a component -/
theorem comps_closed (h : getConnComps ns es = some cs)
    (hE : ∀ e, e ∈ es → e.1 ∈ ns ∧ e.2 ∈ ns) :
    ∀ c, c ∈ cs → ∀ a, a ∈ c.nodes → ∀ b, Adj es a b → b ∈ c.nodes :=
  fun c hc a ha b hab => (comps_class h hE c hc a ha b).2 (Reach.single hab)

theorem comps_edges_eq (h : getConnComps ns es = some cs)
    (hE : ∀ e, e ∈ es → e.1 ∈ ns ∧ e.2 ∈ ns) :
    ∀ c, c ∈ cs → c.edges = compEdges es c.nodes := by
  intro c hc
  obtain ⟨_, _, _, he⟩ := (comps_spec h hE).cls c hc
  exact he

theorem mem_compEdges {vis : List Nat} {e : Nat × Nat} :
    e ∈ compEdges es vis ↔ e ∈ es ∧ (e.1 ∈ vis ∨ e.2 ∈ vis) := by
  simp only [compEdges, List.mem_filter, Bool.or_eq_true, List.contains_eq_mem,
    decide_eq_true_eq]

/-- the edges of a component are the edges whose source lies in it -/
theorem comps_edges_iff (h : getConnComps ns es = some cs)
    (hE : ∀ e, e ∈ es → e.1 ∈ ns ∧ e.2 ∈ ns) :
    ∀ c, c ∈ cs → ∀ e, e ∈ c.edges ↔ (e ∈ es ∧ e.1 ∈ c.nodes) := by
  intro c hc e
  rw [comps_edges_eq h hE c hc, mem_compEdges]
  constructor
  · rintro ⟨hes, h1 | h2⟩
    · exact ⟨hes, h1⟩
    · exact ⟨hes, comps_closed h hE c hc e.2 h2 e.1 (Or.inr hes)⟩
  · rintro ⟨hes, h1⟩
    exact ⟨hes, Or.inl h1⟩

/-- … equivalently the edges whose target lies in it -/
theorem comps_edges_iff' (h : getConnComps ns es = some cs)
    (hE : ∀ e, e ∈ es → e.1 ∈ ns ∧ e.2 ∈ ns) :
    ∀ c, c ∈ cs → ∀ e, e ∈ c.edges ↔ (e ∈ es ∧ e.2 ∈ c.nodes) := by
  intro c hc e
  rw [comps_edges_iff h hE c hc e]
  constructor
  · rintro ⟨hes, h1⟩
    exact ⟨hes, comps_closed h hE c hc e.1 h1 e.2 (Or.inl hes)⟩
  · rintro ⟨hes, h2⟩
    exact ⟨hes, comps_closed h hE c hc e.2 h2 e.1 (Or.inr hes)⟩

/-- every edge belongs to some component -/
theorem comps_edge_cover (h : getConnComps ns es = some cs)
    (hE : ∀ e, e ∈ es → e.1 ∈ ns ∧ e.2 ∈ ns) :
    ∀ e, e ∈ es → ∃ c, c ∈ cs ∧ e ∈ c.edges := by
  intro e he
  obtain ⟨c, hc, h1⟩ := comps_cover h hE e.1 (hE e he).1
  exact ⟨c, hc, (comps_edges_iff h hE c hc e).2 ⟨he, h1⟩⟩

/-- different components share no edge -/
theorem comps_edge_disjoint (h : getConnComps ns es = some cs)
    (hE : ∀ e, e ∈ es → e.1 ∈ ns ∧ e.2 ∈ ns) :
    cs.Pairwise (fun c d => ∀ e, e ∈ c.edges → e ∉ d.edges) := by
  refine List.Pairwise.imp_of_mem (fun {c d} hc hd hcd e hec hed => ?_) (comps_disjoint h hE)
  exact hcd e.1 ((comps_edges_iff h hE c hc e).1 hec).2 ((comps_edges_iff h hE d hd e).1 hed).2

theorem comps_edges_sublist (h : getConnComps ns es = some cs)
    (hE : ∀ e, e ∈ es → e.1 ∈ ns ∧ e.2 ∈ ns) :
    ∀ c, c ∈ cs → c.edges.Sublist es := by
  intro c hc
  rw [comps_edges_eq h hE c hc]
  exact List.filter_sublist

/-- a walk of `es` starting inside a component only uses edges of that component -/
theorem comps_reach_own (h : getConnComps ns es = some cs)
    (hE : ∀ e, e ∈ es → e.1 ∈ ns ∧ e.2 ∈ ns) {c : Comp} (hc : c ∈ cs) {u x : Nat}
    (hr : Reach es u x) : u ∈ c.nodes → Reach c.edges u x := by
  induction hr with
  | refl _ => exact fun _ => Reach.refl _
  | @step u v w hab _ ih =>
    intro hu
    have hv : v ∈ c.nodes := comps_closed h hE c hc u hu v hab
    refine Reach.step ?_ (ih hv)
    cases hab with
    | inl hm => exact Or.inl ((comps_edges_iff h hE c hc (u, v)).2 ⟨hm, hu⟩)
    | inr hm => exact Or.inr ((comps_edges_iff h hE c hc (v, u)).2 ⟨hm, hv⟩)

/-- each component is connected by its own edges -/
theorem comps_connected (h : getConnComps ns es = some cs)
    (hE : ∀ e, e ∈ es → e.1 ∈ ns ∧ e.2 ∈ ns) :
    ∀ c, c ∈ cs → Connected c.nodes c.edges :=
  fun c hc u hu v hv => comps_reach_own h hE hc ((comps_class h hE c hc u hu v).1 hv) hu

end

/-! ### fuel sufficiency (the model never returns `none`) -/

/-- number of entries of `l` whose `g`-end is not yet visited -/
def unvis (g : Nat × Nat → Nat) (l : List (Nat × Nat)) (vis : List Nat) : Nat :=
  (l.filter (fun e => !vis.contains (g e))).length

theorem unvis_cons (g : Nat × Nat → Nat) (l : List (Nat × Nat)) {v : Nat} {vis : List Nat}
    (hv : v ∉ vis) :
    unvis g l (v :: vis) + (l.filter (fun e => g e == v)).length = unvis g l vis := by
  unfold unvis
  induction l with
  | nil => rfl
  | cons e l ih =>
    simp only [List.filter_cons, List.contains_eq_mem, List.mem_cons, Bool.not_eq_true',
      decide_eq_false_iff_not, beq_iff_eq] at ih ⊢
    by_cases h1 : g e = v
    · have h2 : g e ∉ vis := h1 ▸ hv
      simp only [h1, true_or, not_true_eq_false, if_false, if_true, hv, not_false_eq_true,
        List.length_cons] at ih ⊢
      omega
    · by_cases h2 : g e ∈ vis
      · simp only [h1, h2, or_true, not_true_eq_false, if_false] at ih ⊢
        exact ih
      · simp only [h1, h2, or_self, not_false_eq_true, if_true, if_false,
          List.length_cons] at ih ⊢
        omega

theorem length_nbrs_le (l : List (Nat × Nat)) (v : Nat) :
    (nbrs l v).length ≤
      (l.filter (fun e => e.1 == v)).length + (l.filter (fun e => e.2 == v)).length := by
  unfold nbrs
  rw [List.length_map]
  induction l with
  | nil => exact Nat.le_refl _
  | cons e l ih =>
    simp only [List.filter_cons, incident, Bool.or_eq_true, beq_iff_eq]
    by_cases h1 : e.1 = v <;> by_cases h2 : e.2 = v <;>
      simp only [h1, h2, or_self, or_true, true_or, if_true, if_false, List.length_cons] <;>
      omega

/-- potential of a BFS state without the queue: edge ends at unvisited nodes -/
def pot (es : List (Nat × Nat)) (vis : List Nat) : Nat :=
  unvis (fun e => e.1) es vis + unvis (fun e => e.2) es vis

theorem pot_visit (es : List (Nat × Nat)) {v : Nat} {vis : List Nat} (hv : v ∉ vis) :
    pot es (v :: vis) + (nbrs es v).length ≤ pot es vis := by
  have h1 := unvis_cons (fun e => e.1) es hv
  have h2 := unvis_cons (fun e => e.2) es hv
  have h3 := length_nbrs_le es v
  unfold pot
  omega

theorem pot_nil (es : List (Nat × Nat)) : pot es [] = 2 * es.length := by
  have h : ∀ g : Nat × Nat → Nat,
      (es.filter (fun e => !([] : List Nat).contains (g e))).length = es.length := by
    intro g
    exact congrArg List.length
      (List.filter_eq_self (p := fun e => !([] : List Nat).contains (g e)) (l := es)
        |>.2 (fun _ _ => rfl))
  simp only [pot, unvis, h]
  omega

/-- `bfs` succeeds whenever the fuel covers queue length + potential -/
theorem bfs_total {es : List (Nat × Nat)} :
    ∀ (f : Nat) (q vis : List Nat), q.length + pot es vis ≤ f →
      ∃ out, bfs es f q vis = some out := by
  intro f
  induction f with
  | zero =>
    intro q vis hle
    cases q with
    | nil => exact ⟨vis, by simp only [bfs]⟩
    | cons v q => simp only [List.length_cons] at hle; omega
  | succ f ih =>
    intro q vis hle
    cases q with
    | nil => exact ⟨vis, by simp only [bfs]⟩
    | cons v q =>
      simp only [bfs]
      simp only [List.length_cons] at hle
      by_cases hv : v ∈ vis
      · rw [if_pos (List.contains_iff_mem.2 hv)]
        exact ih q vis (by omega)
      · rw [if_neg (fun hc => hv (List.contains_iff_mem.1 hc))]
        refine ih _ _ ?_
        have := pot_visit es hv
        rw [List.length_append]
        omega

/-- the fuel `bfsFuel es` used by `compsLoop` is always enough -/
theorem bfs_start_total (es : List (Nat × Nat)) (u0 : Nat) :
    ∃ vis, bfs es (bfsFuel es) (nbrs es u0) [u0] = some vis := by
  refine bfs_total _ _ _ ?_
  have h1 := pot_visit es (v := u0) (vis := []) (fun h => nomatch h)
  have h2 := pot_nil es
  unfold bfsFuel
  omega

theorem compsLoop_total {es : List (Nat × Nat)} :
    ∀ (f : Nat) (rem : List Nat), rem.length ≤ f → ∃ cs, compsLoop es f rem = some cs := by
  intro f
  induction f with
  | zero =>
    intro rem hle
    cases rem with
    | nil => exact ⟨[], by simp only [compsLoop]⟩
    | cons v q => simp only [List.length_cons] at hle; omega
  | succ f ih =>
    intro rem hle
    cases rem with
    | nil => exact ⟨[], by simp only [compsLoop]⟩
    | cons u0 rem =>
      simp only [List.length_cons] at hle
      obtain ⟨vis, hb⟩ := bfs_start_total es u0
      have hlen : (rem.filter (fun x => !vis.contains x)).length ≤ f :=
        Nat.le_trans (List.length_filter_le _ _) (by omega)
      obtain ⟨cs', hl⟩ := ih _ hlen
      exact ⟨⟨vis, compEdges es vis⟩ :: cs', by simp only [compsLoop, hb, hl]⟩

/-- `getConnComps` never runs out of fuel (no hypotheses needed) -/
theorem getConnComps_total (ns : List Nat) (es : List (Nat × Nat)) :
    ∃ cs, getConnComps ns es = some cs :=
  compsLoop_total _ _ (Nat.le_refl _)

end AdaptaVerif.Lemmas.PeelComps
