/-
Lemmas about the model of `Tree::symmetricLayout`, part 6: the level list of a tree has exactly
`1 + max depth of the placed c-trees` entries (`m_depth`), so the second equation of `overlay` (subtree deeper
than the parent's pre-allocated rank bounds) is never used by `placeAll`.
-/
import AdaptaVerif.Lemmas.TreeLayoutPerm
namespace AdaptaVerif.Lemmas.TreeLayout
open AdaptaVerif.Model.TreeLayout

theorem overlay_length (f : Level → Level → Level) : ∀ (ts ps : List Level), ts.length ≤ ps.length →
    (overlay f ts ps).length = ps.length
  | [], _, _ => by simp [overlay]
  | _ :: _, [], h => by simp at h
  | t :: ts, p :: ps, h => by
    simp only [overlay, List.length_cons, Nat.add_right_cancel_iff]
    exact overlay_length f ts ps (by simpa using h)

theorem foldl_max_ge (g : Lay → Nat) : ∀ (ls : List Lay) (m : Nat),
    m ≤ ls.foldl (fun m l => max m (g l)) m ∧ ∀ t ∈ ls, g t ≤ ls.foldl (fun m l => max m (g l)) m
  | [], m => ⟨Nat.le_refl _, by simp⟩
  | a :: ls, m => by
    have ih := foldl_max_ge g ls (max m (g a))
    refine ⟨Nat.le_trans (Nat.le_max_left _ _) ih.1, ?_⟩
    intro t ht
    rcases List.mem_cons.1 ht with rfl | ht
    · exact Nat.le_trans (Nat.le_max_right _ _) ih.1
    · exact ih.2 t ht

theorem le_maxDepth {ls : List Lay} {t : Lay} (h : t ∈ ls) : t.levels.length ≤ maxDepth ls :=
  (foldl_max_ge (fun l => l.levels.length) ls 0).2 t h

theorem sideMoved_length (cfg : Cfg) (st : St) (t : Lay) :
    (sideMoved cfg st t).levels.length = t.levels.length := by
  unfold sideMoved
  cases st.positiveNext <;> simp [Lay.translate, Lay.flip]

theorem place_rest_length (cfg : Cfg) (st : St) (t : Lay) (h : t.levels.length ≤ st.rest.length) :
    (place cfg st t).rest.length = st.rest.length := by
  unfold place
  split
  · simp only [placeCentral]
    exact overlay_length _ _ _ (by simpa [Lay.translate] using h)
  · simp only [placeSide]
    exact overlay_length _ _ _ (by rw [sideMoved_length]; exact h)

theorem foldl_place_rest_length (cfg : Cfg) : ∀ (ts : List Lay) (st : St),
    (∀ t ∈ ts, t.levels.length ≤ st.rest.length) →
    (ts.foldl (place cfg) st).rest.length = st.rest.length
  | [], _, _ => rfl
  | t :: ts, st, h => by
    have h1 := place_rest_length cfg st t (h t (List.mem_cons_self ..))
    rw [List.foldl_cons, foldl_place_rest_length cfg ts _ (fun x hx => by
      rw [h1]; exact h x (List.mem_cons_of_mem _ hx)), h1]

/-- `m_boundsByRank.size() = m_depth = 1 + max depth of the c-trees` -/
theorem placeAll_levels_length (cfg : Cfg) (id : Nat) (w h : Rat) (ordered : List Lay) (c : Bool) :
    (placeAll cfg id w h ordered c).levels.length = maxDepth ordered + 1 := by
  unfold placeAll St.toLay
  simp only [List.length_cons, Nat.add_right_cancel_iff]
  rw [foldl_place_rest_length cfg ordered _ (fun t ht => by
    simp only [initSt, List.length_replicate]; exact le_maxDepth ht)]
  simp [initSt]

/-- in every step of the placement loop of `placeAll` the subtree has at most as many ranks as the parent
    has below its root, i.e. `overlay` never takes its second equation -/
theorem placeAll_overlay_total (cfg : Cfg) (id : Nat) (w h : Rat) (c : Bool) :
    ∀ (pre post : List Lay) (t : Lay),
      t.levels.length ≤ ((pre.foldl (place cfg) (initSt cfg id w h (maxDepth (pre ++ t :: post)) c))).rest.length := by
  intro pre post t
  rw [foldl_place_rest_length cfg pre _ (fun x hx => by
    simp only [initSt, List.length_replicate]
    exact le_maxDepth (List.mem_append_left _ hx))]
  simp only [initSt, List.length_replicate]
  exact le_maxDepth (List.mem_append_right _ (List.mem_cons_self ..))

/-! ### the two notions of depth agree: `m_depth` from the constructor's BFS (`Key.depth`) and the number of
rank bounds the layout ends up with -/

theorem maxDepth_perm {l₁ l₂ : List Lay} (p : l₁.Perm l₂) : maxDepth l₁ = maxDepth l₂ := by
  unfold maxDepth
  exact p.foldl_eq' (fun x _ y _ z => by omega) 0

theorem maxDepth_eq (ls : List Lay) : maxDepth ls = (ls.map (·.levels.length)).foldl max 0 := by
  unfold maxDepth
  rw [List.foldl_map]

theorem zipLong_length {α : Type} (f : α → α → α) : ∀ xs ys : List α,
    (zipLong f xs ys).length = max xs.length ys.length
  | [], ys => by simp [zipLong]
  | _ :: _, [] => by simp [zipLong]
  | x :: xs, y :: ys => by simp [zipLong, zipLong_length f xs ys]

theorem foldl_zipLong_length {α : Type} (f : α → α → α) : ∀ (ls : List (List α)) (acc : List α),
    (ls.foldl (zipLong f) acc).length = (ls.map List.length).foldl max acc.length
  | [], _ => rfl
  | l :: ls, acc => by
    rw [List.foldl_cons, foldl_zipLong_length f ls, zipLong_length, List.map_cons, List.foldl_cons]

theorem mkKey_depth (ks : List Key) : (mkKey ks).depth = (ks.map Key.depth).foldl max 0 + 1 := by
  unfold mkKey Key.depth
  simp only [List.length_cons, Nat.add_right_cancel_iff]
  rw [foldl_zipLong_length, List.map_map]
  rfl

/-- every c-tree layout has as many ranks as its key's depth, for every permutation-valued ordering -/
theorem layoutAll_depths {ord : Order} (hord : OrderPerm ord) (cfg : Cfg) : ∀ f : Forest,
    (layoutAll ord cfg f).map (·.levels.length) = (keys f).map Key.depth := by
  intro f
  induction f with
  | nil => rfl
  | cons id w h kids rest ihk ihr =>
    simp only [layoutAll, keys, List.map_cons, ihr, List.cons.injEq, and_true]
    unfold layoutNode
    rw [placeAll_levels_length, mkKey_depth, ← ihk, ← maxDepth_eq]
    congr 1
    refine maxDepth_perm (pick_perm ?_)
    rw [← (length_keys kids).trans (length_layoutAll ord cfg kids).symm]
    exact hord true (keys kids)

theorem layoutWith_depth {ord : Order} (hord : OrderPerm ord) (cfg : Cfg) (convex : Bool) (id : Nat) (w h : Rat)
    (kids : Forest) :
    (layoutWith ord cfg convex id w h kids).levels.length = (mkKey (keys kids)).depth := by
  unfold layoutWith layoutNode
  rw [placeAll_levels_length, mkKey_depth, ← layoutAll_depths hord cfg kids, ← maxDepth_eq]
  congr 1
  refine maxDepth_perm (pick_perm ?_)
  rw [← (length_keys kids).trans (length_layoutAll ord cfg kids).symm]
  exact hord convex (keys kids)

end AdaptaVerif.Lemmas.TreeLayout
