/-
Lemmas about the model of `Tree::symmetricLayout`, part 6: the level list of a tree has exactly
`1 + max depth of the placed c-trees` entries (`m_depth`), so the second equation of `overlay` (subtree deeper
than the parent's pre-allocated rank bounds) is never used by `placeAll`.
-/
import AdaptaVerif.Lemmas.TreeLayoutInv
namespace AdaptaVerif.Lemmas.TreeLayout
open AdaptaVerif.Model.TreeLayout

theorem overlay_length (f : Level → Level → Level) : ∀ (ts ps : List Level), ts.length ≤ ps.length →
    (overlay f ts ps).length = ps.length
  | [], _, _ => by simp [overlay]
  | _ :: _, [], h => by simp at h
  | t :: ts, p :: ps, h => by
    simp only [overlay, List.length_cons, Nat.add_right_cancel_iff]
    exact overlay_length f ts ps (by simpa using h)

theorem foldl_max_ge (g : Lay → Nat) : ∀ (ls : List Lay) (m : Nat),
    m ≤ ls.foldl (fun m l => max m (g l)) m ∧ ∀ t ∈ ls, g t ≤ ls.foldl (fun m l => max m (g l)) m
  | [], m => ⟨Nat.le_refl _, by simp⟩
  | a :: ls, m => by
    have ih := foldl_max_ge g ls (max m (g a))
    refine ⟨Nat.le_trans (Nat.le_max_left _ _) ih.1, ?_⟩
    intro t ht
    rcases List.mem_cons.1 ht with rfl | ht
    · exact Nat.le_trans (Nat.le_max_right _ _) ih.1
    · exact ih.2 t ht

theorem le_maxDepth {ls : List Lay} {t : Lay} (h : t ∈ ls) : t.levels.length ≤ maxDepth ls :=
  (foldl_max_ge (fun l => l.levels.length) ls 0).2 t h

theorem sideMoved_length (cfg : Cfg) (st : St) (t : Lay) :
    (sideMoved cfg st t).levels.length = t.levels.length := by
  unfold sideMoved
  cases st.positiveNext <;> simp [Lay.translate, Lay.flip]

theorem place_rest_length (cfg : Cfg) (st : St) (t : Lay) (h : t.levels.length ≤ st.rest.length) :
    (place cfg st t).rest.length = st.rest.length := by
  unfold place
  split
  · simp only [placeCentral]
    exact overlay_length _ _ _ (by simpa [Lay.translate] using h)
  · simp only [placeSide]
    exact overlay_length _ _ _ (by rw [sideMoved_length]; exact h)

theorem foldl_place_rest_length (cfg : Cfg) : ∀ (ts : List Lay) (st : St),
    (∀ t ∈ ts, t.levels.length ≤ st.rest.length) →
    (ts.foldl (place cfg) st).rest.length = st.rest.length
  | [], _, _ => rfl
  | t :: ts, st, h => by
    have h1 := place_rest_length cfg st t (h t (List.mem_cons_self ..))
    rw [List.foldl_cons, foldl_place_rest_length cfg ts _ (fun x hx => by
      rw [h1]; exact h x (List.mem_cons_of_mem _ hx)), h1]

/-- `m_boundsByRank.size() = m_depth = 1 + max depth of the c-trees` -/
theorem placeAll_levels_length (cfg : Cfg) (id : Nat) (w h : Rat) (ordered : List Lay) (c : Bool) :
    (placeAll cfg id w h ordered c).levels.length = maxDepth ordered + 1 := by
  unfold placeAll St.toLay
  simp only [List.length_cons, Nat.add_right_cancel_iff]
  rw [foldl_place_rest_length cfg ordered _ (fun t ht => by
    simp only [initSt, List.length_replicate]; exact le_maxDepth ht)]
  simp [initSt]

/-- in every step of the placement loop of `placeAll` the subtree has at most as many ranks as the parent
    has below its root, i.e. `overlay` never takes its second equation -/
theorem placeAll_overlay_total (cfg : Cfg) (id : Nat) (w h : Rat) (c : Bool) :
    ∀ (pre post : List Lay) (t : Lay),
      t.levels.length ≤ ((pre.foldl (place cfg) (initSt cfg id w h (maxDepth (pre ++ t :: post)) c))).rest.length := by
  intro pre post t
  rw [foldl_place_rest_length cfg pre _ (fun x hx => by
    simp only [initSt, List.length_replicate]
    exact le_maxDepth (List.mem_append_left _ hx))]
  simp only [initSt, List.length_replicate]
  exact le_maxDepth (List.mem_append_right _ (List.mem_cons_self ..))

end AdaptaVerif.Lemmas.TreeLayout
