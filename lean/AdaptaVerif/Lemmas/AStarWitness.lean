/-
Concrete witnesses used by Props/C05AStar.lean (definitions only; the facts about them are proved there).
-/
import AdaptaVerif.Lemmas.AStarSpec
namespace AdaptaVerif.Lemmas.AStarWitness
open AdaptaVerif.Model.AStar

/-- Five vertices S=0, A=1, B=2, C=3, T=4.  Edges S→A (3), S→B (1), B→A (1), A→C (1), C→T (2).
    Heuristic 0 everywhere except at A when entered from B, where it is 3 — the exact remaining cost
    (A→C→T), so the heuristic is admissible; but 3 > c(A→C) + h(C) = 1 + 0: it is not consistent.
    The state (C, entered from A) is closed with g = 4 (via S→A) before the cheaper way to it
    (S→B→A, g = 3) is expanded, and a DONE entry is never re-opened. -/
def closedList : Problem where
  succs := fun pv v => match v, pv with
    | 0, none => [some ⟨1, 3, 0⟩, some ⟨2, 1, 0⟩]
    | 2, some 0 => [some ⟨1, 1, 3⟩]
    | 1, some _ => [some ⟨3, 1, 0⟩]
    | 3, some 1 => [some ⟨4, 2, 0⟩]
    | _, _ => []
  src := 0
  tar := 4
  h0 := 0
  eps := 0

end AdaptaVerif.Lemmas.AStarWitness
