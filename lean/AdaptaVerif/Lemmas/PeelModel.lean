/-
C19 — correctness of the executable leaf-stripping model `AdaptaVerif.Model.Peel.peel`
against the list-graph theory of `Spec.UGraph` / `Spec.GraphParts`. Core Lean only.
-/
import AdaptaVerif.Spec.UGraph
import AdaptaVerif.Spec.GraphParts
import AdaptaVerif.Model.Peel
import AdaptaVerif.Lemmas.PeelDefs
import AdaptaVerif.Lemmas.PeelComps
import AdaptaVerif.Lemmas.PeelRank

namespace AdaptaVerif.Lemmas.PeelModel
open AdaptaVerif.Spec.UGraph AdaptaVerif.Model.Peel AdaptaVerif.Lemmas.PeelDefs
open AdaptaVerif.Lemmas.PeelComps (mem_nbrs)

/-! ### A. degree-one facts -/

theorem nbrs_of_degree_one {es : List (Nat × Nat)} {v : Nat} (h : degree es v = 1) :
    ∃ w, nbrs es v = [w] := by
  unfold degree at h
  obtain ⟨e, he⟩ := List.length_eq_one_iff.1 h
  exact ⟨otherEnd v e, by rw [nbrs, he]; rfl⟩

/-- a leaf has a unique neighbour, which is the root of its stem -/
theorem leaf_stem {es : List (Nat × Nat)} {l : Nat} (h : degree es l = 1) :
    ∃ w, stemOf es l = (l, w) ∧ Adj es l w ∧ ∀ b, Adj es l b → b = w := by
  obtain ⟨w, hw⟩ := nbrs_of_degree_one h
  refine ⟨w, ?_, ?_, ?_⟩
  · rw [stemOf, hw]; rfl
  · exact mem_nbrs.1 (by rw [hw]; exact List.mem_singleton.2 rfl)
  · intro b hb
    have := mem_nbrs.2 hb
    rw [hw] at this
    exact List.mem_singleton.1 this

theorem stemOf_fst (es : List (Nat × Nat)) (l : Nat) : (stemOf es l).1 = l := rfl

/-! ### C3. ranked stems give a rank/parent witness, hence acyclicity of H -/

theorem leafList_append (A B : List (Nat × Nat)) : leafList (A ++ B) = leafList A ++ leafList B := by
  simp [leafList]

theorem leafList_cons (s : Nat × Nat) (B : List (Nat × Nat)) : leafList (s :: B) = s.1 :: leafList B := rfl

theorem mem_leafList {stems : List (Nat × Nat)} {v : Nat} :
    v ∈ leafList stems ↔ ∃ r, (v, r) ∈ stems := by
  unfold leafList
  constructor
  · intro h
    obtain ⟨⟨a, b⟩, hm, rfl⟩ := List.mem_map.1 h
    exact ⟨b, hm⟩
  · rintro ⟨r, hr⟩
    exact List.mem_map.2 ⟨(v, r), hr, rfl⟩

theorem idxOf_append_not_mem {x : Nat} {l1 l2 : List Nat} (h : x ∉ l1) :
    (l1 ++ l2).idxOf x = l1.length + l2.idxOf x := by
  rw [List.idxOf_append, if_neg h, Nat.add_comm]

/-- position facts for a stem `s` at `stems = A ++ s :: B` of a ranked list -/
theorem ranked_at {stems A B : List (Nat × Nat)} {s : Nat × Nat} (hr : Ranked stems)
    (hs : stems = A ++ s :: B) :
    parentOf stems s.1 = s.2 ∧ rankOf stems s.1 = (A.length : Int) ∧
      (A.length : Int) < rankOf stems s.2 := by
  obtain ⟨hnd, hroot⟩ := hr
  obtain ⟨hne, hnA⟩ := hroot A s B hs
  have hll : leafList stems = leafList A ++ s.1 :: leafList B := by
    rw [hs, leafList_append, leafList_cons]
  have hlA : s.1 ∉ leafList A := by
    rw [hll] at hnd
    intro hm
    exact (List.nodup_append.1 hnd).2.2 _ hm _ (List.mem_cons_self) rfl
  have hlen : (leafList A).length = A.length := by simp [leafList]
  refine ⟨?_, ?_, ?_⟩
  · unfold parentOf
    have : stems.find? (fun t => t.1 == s.1) = some s := by
      rw [hs, List.find?_append]
      have hnone : A.find? (fun t => t.1 == s.1) = none := by
        rw [List.find?_eq_none]
        intro t ht hts
        have : t.1 = s.1 := by simpa using hts
        exact hlA (this ▸ List.mem_map.2 ⟨t, ht, rfl⟩)
      rw [hnone]
      simp
    rw [this]
  · unfold rankOf
    rw [hll, idxOf_append_not_mem hlA, List.idxOf_cons_self, hlen]
    simp
  · unfold rankOf
    have hb : (s.1 == s.2) = false := by
      rw [beq_eq_false_iff_ne]; exact fun h => hne h.symm
    rw [hll, idxOf_append_not_mem hnA, List.idxOf_cons, hb, hlen]
    simp only [cond_false]
    omega

theorem mem_hEdges {stems : List (Nat × Nat)} {a b : Nat} :
    (a, b) ∈ hEdges stems ↔ (b, a) ∈ stems := by
  unfold hEdges
  constructor
  · intro h
    obtain ⟨⟨x, y⟩, hm, he⟩ := List.mem_map.1 h
    simp only [Prod.mk.injEq] at he
    obtain ⟨rfl, rfl⟩ := he
    exact hm
  · intro h
    exact List.mem_map.2 ⟨(b, a), h, rfl⟩

/-- every edge of H joins a leaf to its parent, which has strictly larger rank -/
theorem ranked_edges {stems : List (Nat × Nat)} (hr : Ranked stems) :
    ∀ a b, (a, b) ∈ hEdges stems →
      (parentOf stems a = b ∧ rankOf stems a < rankOf stems b) ∨
      (parentOf stems b = a ∧ rankOf stems b < rankOf stems a) := by
  intro a b hab
  have hm : (b, a) ∈ stems := mem_hEdges.1 hab
  obtain ⟨A, B, hs⟩ := List.append_of_mem hm
  obtain ⟨h1, h2, h3⟩ := ranked_at hr hs
  exact Or.inr ⟨h1, by rw [h2]; exact h3⟩

theorem ranked_acyclic {stems : List (Nat × Nat)} (hr : Ranked stems) :
    Acyclic (hEdges stems) :=
  AdaptaVerif.Lemmas.PeelRank.acyclic_of_rank (hEdges stems) (parentOf stems) (rankOf stems)
    (ranked_edges hr)

/-! ### B. one round -/

theorem mem_leavesOf {ns : List Nat} {es : List (Nat × Nat)} {v : Nat} :
    v ∈ leavesOf ns es ↔ v ∈ ns ∧ degree es v = 1 := by
  simp only [leavesOf, List.mem_filter, beq_iff_eq]

theorem stemOf_eq {es : List (Nat × Nat)} {l w : Nat} (hd : degree es l = 1) (ha : Adj es l w) :
    stemOf es l = (l, w) := by
  obtain ⟨w', h1, _, h3⟩ := leaf_stem hd
  rw [h1, h3 w ha]

/-- leaves whose stems are kept by the round (all, or all but the last when the graph
    becomes empty) -/
def kept (s : PState) : List Nat :=
  if (s.nodes.filter (fun v => !(leavesOf s.nodes s.edges).contains v)).isEmpty
  then (leavesOf s.nodes s.edges).dropLast else leavesOf s.nodes s.edges

theorem round_eq {s s' : PState} (h : round s = some s') :
    leavesOf s.nodes s.edges ≠ [] ∧
    s'.nodes = s.nodes.filter (fun v => !(leavesOf s.nodes s.edges).contains v) ∧
    s'.edges = s.edges.filter (fun e => !((leavesOf s.nodes s.edges).contains e.1 ||
        (leavesOf s.nodes s.edges).contains e.2)) ∧
    s'.stems = s.stems ++ (kept s).map (stemOf s.edges) := by
  unfold round at h
  simp only at h
  split at h
  · cases h
  · rename_i hne
    injection h with h
    subst h
    refine ⟨?_, rfl, rfl, ?_⟩
    · intro h0; rw [h0] at hne; exact hne rfl
    · simp only [kept]
      split
      · rw [List.map_dropLast]
      · rfl

theorem round_none {s : PState} (h : round s = none) : leavesOf s.nodes s.edges = [] := by
  unfold round at h
  simp only at h
  split at h
  · rename_i he
    exact List.isEmpty_iff.1 he
  · cases h

theorem kept_sublist (s : PState) : (kept s).Sublist (leavesOf s.nodes s.edges) := by
  unfold kept
  split
  · exact List.dropLast_sublist _
  · exact List.Sublist.refl _

theorem kept_cases (s : PState) :
    kept s = leavesOf s.nodes s.edges ∨
    (s.nodes.filter (fun v => !(leavesOf s.nodes s.edges).contains v) = [] ∧
      ∃ c, leavesOf s.nodes s.edges = kept s ++ [c]) := by
  unfold kept
  split
  · rename_i he
    by_cases hne : leavesOf s.nodes s.edges = []
    · left; rw [hne]; rfl
    · right
      exact ⟨List.isEmpty_iff.1 he, _, (List.dropLast_concat_getLast hne).symm⟩
  · exact Or.inl rfl

/-- local well-formedness of a state: distinct nodes, edges join two different listed nodes -/
def WF (s : PState) : Prop :=
  s.nodes.Nodup ∧ ∀ e, e ∈ s.edges → e.1 ∈ s.nodes ∧ e.2 ∈ s.nodes ∧ e.1 ≠ e.2

theorem adj_wf {s : PState} (hwf : WF s) {a b : Nat} (h : Adj s.edges a b) :
    a ∈ s.nodes ∧ b ∈ s.nodes ∧ a ≠ b := by
  cases h with
  | inl h => exact hwf.2 _ h
  | inr h =>
    obtain ⟨h1, h2, h3⟩ := hwf.2 _ h
    exact ⟨h2, h1, fun e => h3 e.symm⟩

theorem mem_nodes_filter {s : PState} {v : Nat} :
    v ∈ s.nodes.filter (fun v => !(leavesOf s.nodes s.edges).contains v) ↔
      v ∈ s.nodes ∧ v ∉ leavesOf s.nodes s.edges := by
  simp only [List.mem_filter, Bool.not_eq_true', List.contains_eq_mem, decide_eq_false_iff_not]

/-- a leaf `l` of the round with neighbour `w` appears in a kept stem together with `w` -/
theorem new_stem_cover {s : PState} (hwf : WF s) {l w : Nat}
    (hl : l ∈ leavesOf s.nodes s.edges) (hw : Adj s.edges l w) :
    (l, w) ∈ (kept s).map (stemOf s.edges) ∨ (w, l) ∈ (kept s).map (stemOf s.edges) := by
  have hdl := (mem_leavesOf.1 hl).2
  by_cases hk : l ∈ kept s
  · exact Or.inl (List.mem_map.2 ⟨l, hk, stemOf_eq hdl hw⟩)
  · right
    cases kept_cases s with
    | inl h => rw [h] at hk; exact absurd hl hk
    | inr h =>
      obtain ⟨hnil, c, hc⟩ := h
      obtain ⟨_, hwn, hne⟩ := adj_wf hwf hw
      have hwl : w ∈ leavesOf s.nodes s.edges := by
        apply Classical.byContradiction
        intro hnot
        have : w ∈ s.nodes.filter (fun v => !(leavesOf s.nodes s.edges).contains v) :=
          mem_nodes_filter.2 ⟨hwn, hnot⟩
        rw [hnil] at this
        cases this
      have hlc : l = c := by
        rw [hc] at hl
        cases List.mem_append.1 hl with
        | inl h => exact absurd h hk
        | inr h => exact List.mem_singleton.1 h
      have hwk : w ∈ kept s := by
        rw [hc] at hwl
        cases List.mem_append.1 hwl with
        | inl h => exact h
        | inr h => exact absurd ((List.mem_singleton.1 h).trans hlc.symm).symm hne
      exact List.mem_map.2 ⟨w, hwk, stemOf_eq (mem_leavesOf.1 hwl).2 hw.symm⟩

/-- shape of a kept stem -/
theorem new_stem_spec {s : PState} {l r : Nat} (h : (l, r) ∈ (kept s).map (stemOf s.edges)) :
    l ∈ kept s ∧ l ∈ leavesOf s.nodes s.edges ∧ Adj s.edges l r := by
  obtain ⟨x, hx, he⟩ := List.mem_map.1 h
  have hxl := (kept_sublist s).subset hx
  obtain ⟨w, h1, h2, _⟩ := leaf_stem (mem_leavesOf.1 hxl).2
  rw [h1] at he
  simp only [Prod.mk.injEq] at he
  obtain ⟨rfl, rfl⟩ := he
  exact ⟨hx, hxl, h2⟩

/-! ### B. the round invariant (no connectivity needed) -/

theorem mem_step (acc : List Nat) (x v : Nat) :
    v ∈ (if acc.contains x then acc else acc ++ [x]) ↔ v ∈ acc ∨ v = x := by
  split
  · rename_i h
    have hx : x ∈ acc := by simpa using h
    constructor
    · exact Or.inl
    · rintro (h | h)
      · exact h
      · exact h ▸ hx
  · simp only [List.mem_append, List.mem_singleton]

theorem mem_hNodes_aux (stems : List (Nat × Nat)) : ∀ (acc : List Nat) (v : Nat),
    v ∈ stems.foldl (fun acc s =>
      let acc := if acc.contains s.1 then acc else acc ++ [s.1]
      if acc.contains s.2 then acc else acc ++ [s.2]) acc ↔
    v ∈ acc ∨ ∃ st, st ∈ stems ∧ (v = st.1 ∨ v = st.2) := by
  induction stems with
  | nil =>
    intro acc v
    simp only [List.foldl_nil, List.not_mem_nil, false_and, exists_false, or_false]
  | cons s rest ih =>
    intro acc v
    rw [List.foldl_cons, ih]
    simp only [mem_step, List.mem_cons]
    constructor
    · rintro (((h | h) | h) | ⟨st, hst, hv⟩)
      · exact Or.inl h
      · exact Or.inr ⟨s, Or.inl rfl, Or.inl h⟩
      · exact Or.inr ⟨s, Or.inl rfl, Or.inr h⟩
      · exact Or.inr ⟨st, Or.inr hst, hv⟩
    · rintro (h | ⟨st, hst | hst, hv⟩)
      · exact Or.inl (Or.inl (Or.inl h))
      · subst hst
        cases hv with
        | inl hv => exact Or.inl (Or.inl (Or.inr hv))
        | inr hv => exact Or.inl (Or.inr hv)
      · exact Or.inr ⟨st, hst, hv⟩

theorem mem_hNodes {stems : List (Nat × Nat)} {v : Nat} :
    v ∈ hNodes stems ↔ ∃ st, st ∈ stems ∧ (v = st.1 ∨ v = st.2) := by
  unfold hNodes
  rw [mem_hNodes_aux]
  simp only [List.not_mem_nil, false_or]

structure Inv (ns : List Nat) (es : List (Nat × Nat)) (s : PState) : Prop where
  nodes_sub : s.nodes.Sublist ns
  edges_eq : s.edges = es.filter (fun e => s.nodes.contains e.1 && s.nodes.contains e.2)
  node_cover : ∀ v, v ∈ ns → v ∈ s.nodes ∨ ∃ st, st ∈ s.stems ∧ (v = st.1 ∨ v = st.2)
  stem_ok : ∀ l r, (l, r) ∈ s.stems → Adj es l r ∧ l ∉ s.nodes
  leaves_nodup : (leafList s.stems).Nodup
  edge_cover : ∀ e, e ∈ es → e ∈ s.edges ∨ (e.1, e.2) ∈ s.stems ∨ (e.2, e.1) ∈ s.stems

theorem simple_adj {ns : List Nat} {es : List (Nat × Nat)} (hs : Simple ns es) {a b : Nat}
    (h : Adj es a b) : a ∈ ns ∧ b ∈ ns ∧ a ≠ b := by
  cases h with
  | inl h => exact hs.2.1 _ h
  | inr h =>
    obtain ⟨h1, h2, h3⟩ := hs.2.1 _ h
    exact ⟨h2, h1, fun e => h3 e.symm⟩

theorem inv_init {ns : List Nat} {es : List (Nat × Nat)} (hs : Simple ns es) :
    Inv ns es ⟨ns, es, []⟩ where
  nodes_sub := List.Sublist.refl _
  edges_eq := by
    symm
    apply List.filter_eq_self.2
    intro e he
    obtain ⟨h1, h2, _⟩ := hs.2.1 e he
    simp only [List.contains_eq_mem, h1, h2, decide_true, Bool.and_self]
  node_cover := fun v hv => Or.inl hv
  stem_ok := fun l r h => nomatch h
  leaves_nodup := List.nodup_nil
  edge_cover := fun e he => Or.inl he

section
variable {ns : List Nat} {es : List (Nat × Nat)} {s : PState}

theorem Inv.mem_edges (hinv : Inv ns es s) {e : Nat × Nat} :
    e ∈ s.edges ↔ e ∈ es ∧ e.1 ∈ s.nodes ∧ e.2 ∈ s.nodes := by
  rw [hinv.edges_eq]
  simp only [List.mem_filter, Bool.and_eq_true, List.contains_eq_mem, decide_eq_true_eq]

theorem Inv.edges_sublist (hinv : Inv ns es s) : s.edges.Sublist es := by
  rw [hinv.edges_eq]; exact List.filter_sublist

theorem Inv.adj_mono (hinv : Inv ns es s) {a b : Nat} (h : Adj s.edges a b) : Adj es a b :=
  h.mono (fun _ he => (hinv.mem_edges.1 he).1)

theorem Inv.wf (hs : Simple ns es) (hinv : Inv ns es s) : WF s :=
  ⟨hinv.nodes_sub.nodup hs.1, fun e he =>
    ⟨(hinv.mem_edges.1 he).2.1, (hinv.mem_edges.1 he).2.2, (hs.2.1 e (hinv.mem_edges.1 he).1).2.2⟩⟩

end

theorem filter_induced (es : List (Nat × Nat)) (N L : List Nat) :
    (es.filter (fun e => N.contains e.1 && N.contains e.2)).filter
        (fun e => !(L.contains e.1 || L.contains e.2)) =
      es.filter (fun e => (N.filter (fun v => !L.contains v)).contains e.1 &&
        (N.filter (fun v => !L.contains v)).contains e.2) := by
  rw [List.filter_filter]
  apply List.filter_congr
  intro e _
  rw [Bool.eq_iff_iff]
  simp only [Bool.and_eq_true, Bool.not_eq_true', Bool.or_eq_false_iff, List.contains_eq_mem,
    decide_eq_true_eq, decide_eq_false_iff_not, List.mem_filter]
  constructor
  · rintro ⟨⟨a, b⟩, c, d⟩; exact ⟨⟨c, a⟩, d, b⟩
  · rintro ⟨⟨c, a⟩, d, b⟩; exact ⟨⟨a, b⟩, c, d⟩

theorem leafList_map_stemOf (es : List (Nat × Nat)) (K : List Nat) :
    leafList (K.map (stemOf es)) = K := by
  unfold leafList
  rw [List.map_map]
  have : (Prod.fst ∘ stemOf es) = id := rfl
  rw [this, List.map_id]

theorem inv_round {ns : List Nat} {es : List (Nat × Nat)} {s s' : PState} (hs : Simple ns es)
    (h : round s = some s') (hinv : Inv ns es s) : Inv ns es s' := by
  obtain ⟨_, hn', he', hst'⟩ := round_eq h
  have hwf := hinv.wf hs
  have hmn : ∀ v, v ∈ s'.nodes ↔ v ∈ s.nodes ∧ v ∉ leavesOf s.nodes s.edges := by
    intro v; rw [hn']; exact mem_nodes_filter
  refine ⟨?_, ?_, ?_, ?_, ?_, ?_⟩
  · rw [hn']; exact List.filter_sublist.trans hinv.nodes_sub
  · rw [he', hn']
    have := filter_induced es s.nodes (leavesOf s.nodes s.edges)
    rw [← hinv.edges_eq] at this
    exact this
  · intro v hv
    cases hinv.node_cover v hv with
    | inl hvn =>
      by_cases hvl : v ∈ leavesOf s.nodes s.edges
      · right
        obtain ⟨w, _, haw, _⟩ := leaf_stem (mem_leavesOf.1 hvl).2
        rw [hst']
        cases new_stem_cover hwf hvl haw with
        | inl hm => exact ⟨(v, w), List.mem_append_right _ hm, Or.inl rfl⟩
        | inr hm => exact ⟨(w, v), List.mem_append_right _ hm, Or.inr rfl⟩
      · exact Or.inl ((hmn v).2 ⟨hvn, hvl⟩)
    | inr hst =>
      obtain ⟨st, hst, hor⟩ := hst
      exact Or.inr ⟨st, by rw [hst']; exact List.mem_append_left _ hst, hor⟩
  · intro l r hlr
    rw [hst'] at hlr
    cases List.mem_append.1 hlr with
    | inl hm =>
      obtain ⟨h1, h2⟩ := hinv.stem_ok l r hm
      exact ⟨h1, fun hm' => h2 ((hmn l).1 hm').1⟩
    | inr hm =>
      obtain ⟨_, hl, ha⟩ := new_stem_spec hm
      exact ⟨hinv.adj_mono ha, fun hm' => ((hmn l).1 hm').2 hl⟩
  · rw [hst', leafList_append, leafList_map_stemOf]
    refine List.nodup_append.2 ⟨hinv.leaves_nodup, ?_, ?_⟩
    · exact (kept_sublist s).nodup (List.filter_sublist.nodup hwf.1)
    · intro a ha b hb hab
      obtain ⟨r, hr⟩ := mem_leafList.1 ha
      have hb' := (mem_leavesOf.1 ((kept_sublist s).subset hb)).1
      exact (hinv.stem_ok a r hr).2 (hab ▸ hb')
  · intro e hee
    rw [hst']
    cases hinv.edge_cover e hee with
    | inl hes =>
      by_cases h1 : e.1 ∈ leavesOf s.nodes s.edges
      · right
        cases new_stem_cover hwf h1 (Or.inl hes : Adj s.edges e.1 e.2) with
        | inl hm => exact Or.inl (List.mem_append_right _ hm)
        | inr hm => exact Or.inr (List.mem_append_right _ hm)
      · by_cases h2 : e.2 ∈ leavesOf s.nodes s.edges
        · right
          cases new_stem_cover hwf h2 (Or.inr hes : Adj s.edges e.2 e.1) with
          | inl hm => exact Or.inr (List.mem_append_right _ hm)
          | inr hm => exact Or.inl (List.mem_append_right _ hm)
        · left
          rw [he']
          refine List.mem_filter.2 ⟨hes, ?_⟩
          simp only [List.contains_eq_mem, h1, h2, decide_false, Bool.or_self, Bool.not_false]
    | inr hst =>
      cases hst with
      | inl hm => exact Or.inr (Or.inl (List.mem_append_left _ hm))
      | inr hm => exact Or.inr (Or.inr (List.mem_append_left _ hm))

/-! ### B. iterating rounds -/

/-- invariant principle for `rounds` -/
theorem rounds_inv (P : PState → Prop) (hP : ∀ s s', round s = some s' → P s → P s') :
    ∀ (f : Nat) (s s' : PState), rounds f s = some s' → P s → P s' ∧ round s' = none := by
  intro f
  induction f with
  | zero => intro s s' h; cases h
  | succ f ih =>
    intro s s' h hp
    unfold rounds at h
    split at h
    · rename_i hr
      injection h with h
      subst h
      exact ⟨hp, hr⟩
    · rename_i s1 hr
      exact ih s1 s' h (hP s s1 hr hp)

theorem round_length_lt {s s' : PState} (h : round s = some s') :
    s'.nodes.length < s.nodes.length := by
  obtain ⟨hne, hn', _, _⟩ := round_eq h
  rw [hn', List.length_filter_lt_length_iff_exists]
  obtain ⟨x, hx⟩ := List.exists_mem_of_ne_nil _ hne
  refine ⟨x, (mem_leavesOf.1 hx).1, ?_⟩
  simp only [List.contains_eq_mem, hx, decide_true, Bool.not_true, Bool.false_eq_true,
    not_false_eq_true]

/-- B6: `rounds` does not run out of fuel -/
theorem rounds_total : ∀ (f : Nat) (s : PState), s.nodes.length < f → ∃ s', rounds f s = some s' := by
  intro f
  induction f with
  | zero => intro s h; omega
  | succ f ih =>
    intro s h
    unfold rounds
    split
    · exact ⟨s, rfl⟩
    · rename_i s1 hr
      have := round_length_lt hr
      exact ih s1 (by omega)

theorem peel_rounds_total (ns : List Nat) (es : List (Nat × Nat)) :
    ∃ s, rounds (ns.length + 1) ⟨ns, es, []⟩ = some s :=
  rounds_total _ _ (Nat.lt_succ_self _)

theorem peel_total (ns : List Nat) (es : List (Nat × Nat)) : ∃ out, peel ns es = some out := by
  obtain ⟨s, hs⟩ := peel_rounds_total ns es
  obtain ⟨cs, hcs⟩ := AdaptaVerif.Lemmas.PeelComps.getConnComps_total
    (sortNat (hNodes s.stems)) (hEdges s.stems)
  unfold peel
  rw [hs]
  simp only [finish, hcs]
  exact ⟨_, rfl⟩

/-- B1–B4, B5: the invariant holds at loop exit, and no leaf is left -/
theorem rounds_final {ns : List Nat} {es : List (Nat × Nat)} (hs : Simple ns es) {f : Nat}
    {s : PState} (h : rounds f ⟨ns, es, []⟩ = some s) :
    Inv ns es s ∧ leavesOf s.nodes s.edges = [] := by
  obtain ⟨h1, h2⟩ := rounds_inv (Inv ns es) (fun _ _ hr hi => inv_round hs hr hi) f _ _ h
    (inv_init hs)
  exact ⟨h1, round_none h2⟩

theorem noDegreeOne_of_leaves_nil {ns : List Nat} {es : List (Nat × Nat)}
    (h : leavesOf ns es = []) : NoDegreeOne ns es := by
  intro v hv hd
  have : v ∈ leavesOf ns es := mem_leavesOf.2 ⟨hv, hd⟩
  rw [h] at this
  cases this

section
variable {ns : List Nat} {es : List (Nat × Nat)} {s : PState}

theorem Inv.nodes_nodup (hs : Simple ns es) (hinv : Inv ns es s) : s.nodes.Nodup :=
  hinv.nodes_sub.nodup hs.1

theorem Inv.nodes_subset (hinv : Inv ns es s) : ∀ v, v ∈ s.nodes → v ∈ ns :=
  fun _ hv => hinv.nodes_sub.subset hv

/-- B2 in terms of `hNodes` -/
theorem Inv.node_cover' (hinv : Inv ns es s) : ∀ v, v ∈ ns → v ∈ s.nodes ∨ v ∈ hNodes s.stems :=
  fun v hv => (hinv.node_cover v hv).imp id mem_hNodes.2

/-- B3 -/
theorem Inv.stem_mem (hs : Simple ns es) (hinv : Inv ns es s) {l r : Nat} (h : (l, r) ∈ s.stems) :
    Adj es l r ∧ l ∉ s.nodes ∧ l ∈ ns ∧ r ∈ ns ∧ l ≠ r := by
  obtain ⟨h1, h2⟩ := hinv.stem_ok l r h
  obtain ⟨a, b, c⟩ := simple_adj hs h1
  exact ⟨h1, h2, a, b, c⟩

/-- B4 exclusivity: a remaining edge is not a stem edge -/
theorem Inv.edge_not_stem (hinv : Inv ns es s) {e : Nat × Nat} (he : e ∈ s.edges) :
    (e.1, e.2) ∉ s.stems ∧ (e.2, e.1) ∉ s.stems := by
  obtain ⟨_, h1, h2⟩ := hinv.mem_edges.1 he
  exact ⟨fun h => (hinv.stem_ok _ _ h).2 h1, fun h => (hinv.stem_ok _ _ h).2 h2⟩

end

/-! ### C1. connectivity is preserved -/

/-- two adjacent leaves of a connected graph are the whole graph -/
theorem adjacent_leaves_all {s : PState} (hc : Connected s.nodes s.edges) {l r : Nat}
    (hl : l ∈ leavesOf s.nodes s.edges) (hr : r ∈ leavesOf s.nodes s.edges)
    (ha : Adj s.edges l r) : ∀ v, v ∈ s.nodes → v = l ∨ v = r := by
  intro v hv
  obtain ⟨hln, hld⟩ := mem_leavesOf.1 hl
  obtain ⟨_, hrd⟩ := mem_leavesOf.1 hr
  obtain ⟨wl, _, _, hul⟩ := leaf_stem hld
  obtain ⟨wr, _, _, hur⟩ := leaf_stem hrd
  refine Reach.closed (P := fun x => x = l ∨ x = r) ?_ (hc l hln v hv) (Or.inl rfl)
  intro a b hp hab
  cases hp with
  | inl h =>
    subst h
    exact Or.inr ((hul b hab).trans (hul r ha).symm)
  | inr h =>
    subst h
    exact Or.inl ((hur b hab).trans (hur l ha.symm).symm)

theorem connected_round {s s' : PState} (h : round s = some s')
    (hc : Connected s.nodes s.edges) : Connected s'.nodes s'.edges := by
  obtain ⟨_, hn', he', _⟩ := round_eq h
  have hmn : ∀ v, v ∈ s'.nodes ↔ v ∈ s.nodes ∧ v ∉ leavesOf s.nodes s.edges := by
    intro v; rw [hn']; exact mem_nodes_filter
  by_cases hadj : ∃ l r, l ∈ leavesOf s.nodes s.edges ∧ r ∈ leavesOf s.nodes s.edges ∧
      Adj s.edges l r
  · obtain ⟨l, r, hl, hr, ha⟩ := hadj
    intro u hu
    obtain ⟨hun, hul⟩ := (hmn u).1 hu
    cases adjacent_leaves_all hc hl hr ha u hun with
    | inl h => exact absurd (h ▸ hl) hul
    | inr h => exact absurd (h ▸ hr) hul
  · let rep : Nat → Nat := fun x =>
      if x ∈ leavesOf s.nodes s.edges then (stemOf s.edges x).2 else x
    have key : ∀ u w, Reach s.edges u w → Reach s'.edges (rep u) (rep w) := by
      intro u w hr
      induction hr with
      | refl _ => exact Reach.refl _
      | @step a b c hab _ ih =>
        refine Reach.trans ?_ ih
        by_cases ha : a ∈ leavesOf s.nodes s.edges
        · by_cases hb : b ∈ leavesOf s.nodes s.edges
          · exact absurd ⟨a, b, ha, hb, hab⟩ hadj
          · have e1 : rep a = b := by
              simp only [rep, if_pos ha, stemOf_eq (mem_leavesOf.1 ha).2 hab]
            have e2 : rep b = b := by simp only [rep, if_neg hb]
            rw [e1, e2]; exact Reach.refl _
        · by_cases hb : b ∈ leavesOf s.nodes s.edges
          · have e1 : rep a = a := by simp only [rep, if_neg ha]
            have e2 : rep b = a := by
              simp only [rep, if_pos hb, stemOf_eq (mem_leavesOf.1 hb).2 hab.symm]
            rw [e1, e2]; exact Reach.refl _
          · have e1 : rep a = a := by simp only [rep, if_neg ha]
            have e2 : rep b = b := by simp only [rep, if_neg hb]
            rw [e1, e2]
            apply Reach.single
            have hk : ∀ e : Nat × Nat, e ∈ s.edges → e.1 ∉ leavesOf s.nodes s.edges →
                e.2 ∉ leavesOf s.nodes s.edges → e ∈ s'.edges := by
              intro e hes h1 h2
              rw [he']
              refine List.mem_filter.2 ⟨hes, ?_⟩
              simp only [List.contains_eq_mem, h1, h2, decide_false, Bool.or_self, Bool.not_false]
            cases hab with
            | inl hm => exact Or.inl (hk _ hm ha hb)
            | inr hm => exact Or.inr (hk _ hm hb ha)
    intro u hu w hw
    obtain ⟨hun, hul⟩ := (hmn u).1 hu
    obtain ⟨hwn, hwl⟩ := (hmn w).1 hw
    have := key u w (hc u hun w hwn)
    have e1 : rep u = u := by simp only [rep, if_neg hul]
    have e2 : rep w = w := by simp only [rep, if_neg hwl]
    rw [e1, e2] at this
    exact this

/-! ### C2. rankedness is preserved -/

theorem pairwise_of_prefix (stems : List (Nat × Nat)) :
    (∀ A t B, stems = A ++ t :: B → t.2 ∉ leafList A) →
      stems.Pairwise (fun a b => b.2 ≠ a.1) := by
  induction stems with
  | nil => intro _; exact List.Pairwise.nil
  | cons x rest ih =>
    intro h
    refine List.Pairwise.cons ?_ (ih ?_)
    · intro b hb hbx
      obtain ⟨A', B', hr⟩ := List.append_of_mem hb
      have := h (x :: A') b B' (by rw [hr]; rfl)
      exact this (by rw [leafList_cons, hbx]; exact List.mem_cons_self)
    · intro A t B hr hm
      exact h (x :: A) t B (by rw [hr]; rfl) (by rw [leafList_cons]; exact List.mem_cons_of_mem _ hm)

theorem ranked_iff {stems : List (Nat × Nat)} :
    Ranked stems ↔ (leafList stems).Nodup ∧ (∀ t, t ∈ stems → t.2 ≠ t.1) ∧
      stems.Pairwise (fun a b => b.2 ≠ a.1) := by
  constructor
  · rintro ⟨h1, h2⟩
    refine ⟨h1, ?_, pairwise_of_prefix stems (fun A t B h => (h2 A t B h).2)⟩
    intro t ht
    obtain ⟨A, B, hs⟩ := List.append_of_mem ht
    exact (h2 A t B hs).1
  · rintro ⟨h1, h2, h3⟩
    refine ⟨h1, ?_⟩
    intro A t B hs
    refine ⟨h2 t (by rw [hs]; exact List.mem_append_right _ List.mem_cons_self), ?_⟩
    rw [hs] at h3
    obtain ⟨_, _, hx⟩ := List.pairwise_append.1 h3
    intro hm
    obtain ⟨a, ha, hat⟩ := List.mem_map.1 hm
    exact hx a ha t List.mem_cons_self hat.symm

theorem ranked_nil : Ranked [] := by
  refine ⟨List.nodup_nil, ?_⟩
  intro A t B h
  cases A <;> cases h

theorem kept_of_empty {s : PState}
    (h : s.nodes.filter (fun v => !(leavesOf s.nodes s.edges).contains v) = [])
    (hne : leavesOf s.nodes s.edges ≠ []) : ∃ c, leavesOf s.nodes s.edges = kept s ++ [c] := by
  unfold kept
  rw [h]
  simp only [List.isEmpty_nil, if_true]
  exact ⟨_, (List.dropLast_concat_getLast hne).symm⟩

theorem ranked_round {ns : List Nat} {es : List (Nat × Nat)} {s s' : PState} (hs : Simple ns es)
    (h : round s = some s') (hinv : Inv ns es s) (hc : Connected s.nodes s.edges)
    (hr : Ranked s.stems) : Ranked s'.stems := by
  obtain ⟨_, _, _, hst'⟩ := round_eq h
  have hwf := hinv.wf hs
  obtain ⟨_, r2, r3⟩ := ranked_iff.1 hr
  refine ranked_iff.2 ⟨(inv_round hs h hinv).leaves_nodup, ?_, ?_⟩
  · intro t ht
    rw [hst'] at ht
    cases List.mem_append.1 ht with
    | inl hm => exact r2 t hm
    | inr hm =>
      obtain ⟨_, _, ha⟩ := new_stem_spec (l := t.1) (r := t.2) hm
      exact fun e => (adj_wf hwf ha).2.2 e.symm
  · rw [hst']
    refine List.pairwise_append.2 ⟨r3, ?_, ?_⟩
    · rw [List.pairwise_map]
      have hKnd : (kept s).Nodup := (kept_sublist s).nodup (List.filter_sublist.nodup hwf.1)
      refine List.Pairwise.imp_of_mem ?_ (List.nodup_iff_pairwise_ne.1 hKnd)
      intro x y hx hy hxy heq
      have hxl := (kept_sublist s).subset hx
      have hyl := (kept_sublist s).subset hy
      obtain ⟨w, hw1, hw2, _⟩ := leaf_stem (mem_leavesOf.1 hyl).2
      rw [hw1] at heq
      have hwx : w = x := heq
      subst hwx
      -- `y` and `w` are adjacent leaves: they are the whole graph
      have hall := adjacent_leaves_all hc hyl hxl hw2
      have hnil : s.nodes.filter (fun v => !(leavesOf s.nodes s.edges).contains v) = [] := by
        apply List.filter_eq_nil_iff.2
        intro v hv
        have hvl : v ∈ leavesOf s.nodes s.edges := by
          cases hall v hv with
          | inl e => exact e ▸ hyl
          | inr e => exact e ▸ hxl
        simp only [List.contains_eq_mem, hvl, decide_true, Bool.not_true, Bool.false_eq_true,
          not_false_eq_true]
      obtain ⟨c, hc'⟩ := kept_of_empty hnil (List.ne_nil_of_mem hxl)
      have hnd : (kept s ++ [c]).Nodup := hc' ▸ List.filter_sublist.nodup hwf.1
      have hcK := (List.nodup_append.1 hnd).2.2
      have hcl : c ∈ leavesOf s.nodes s.edges := by
        rw [hc']; exact List.mem_append_right _ (List.mem_singleton.2 rfl)
      cases hall c (mem_leavesOf.1 hcl).1 with
      | inl e => exact hcK y hy c (List.mem_singleton.2 rfl) e.symm
      | inr e => exact hcK w hx c (List.mem_singleton.2 rfl) e.symm
    · intro a ha b hb hab
      obtain ⟨_, _, hadj⟩ := new_stem_spec (l := b.1) (r := b.2) hb
      have h1 := (adj_wf hwf hadj).2.1
      exact (hinv.stem_ok a.1 a.2 ha).2 (hab ▸ h1)

/-- invariant of the loop on a connected simple graph -/
def CInv (ns : List Nat) (es : List (Nat × Nat)) (s : PState) : Prop :=
  Inv ns es s ∧ Connected s.nodes s.edges ∧ Ranked s.stems

theorem rounds_final_connected {ns : List Nat} {es : List (Nat × Nat)} (hs : Simple ns es)
    (hc : Connected ns es) {f : Nat} {s : PState} (h : rounds f ⟨ns, es, []⟩ = some s) :
    Connected s.nodes s.edges ∧ Ranked s.stems := by
  have := (rounds_inv (CInv ns es)
    (fun s s' hr hi => ⟨inv_round hs hr hi.1, connected_round hr hi.2.1,
      ranked_round hs hr hi.1 hi.2.1 hi.2.2⟩) f _ _ h ⟨inv_init hs, hc, ranked_nil⟩).1
  exact this.2

/-- C2 -/
theorem rounds_ranked {ns : List Nat} {es : List (Nat × Nat)} (hs : Simple ns es)
    (hc : Connected ns es) {s : PState}
    (h : rounds (ns.length + 1) ⟨ns, es, []⟩ = some s) : Ranked s.stems :=
  (rounds_final_connected hs hc h).2

/-! ### C4. stem edges are pairwise distinct as undirected edges -/

open AdaptaVerif.Spec.GraphParts (SameEdge HasEdge ExactlyOne)

theorem hEdges_same_eq {stems : List (Nat × Nat)} (hr : Ranked stems) {f f' : Nat × Nat}
    (hf : f ∈ hEdges stems) (hf' : f' ∈ hEdges stems) (h : SameEdge f f') : f = f' := by
  cases h with
  | inl h => exact h
  | inr h =>
    exfalso
    obtain ⟨a, b⟩ := f
    obtain ⟨a', b'⟩ := f'
    simp only [Prod.mk.injEq] at h
    obtain ⟨rfl, rfl⟩ := h
    have h1 : (b, a) ∈ stems := mem_hEdges.1 hf
    have h2 : (a, b) ∈ stems := mem_hEdges.1 hf'
    obtain ⟨A1, B1, e1⟩ := List.append_of_mem h1
    obtain ⟨A2, B2, e2⟩ := List.append_of_mem h2
    obtain ⟨_, p1, q1⟩ := ranked_at hr e1
    obtain ⟨_, p2, q2⟩ := ranked_at hr e2
    simp only at p1 q1 p2 q2
    omega

theorem hEdges_pairwise {stems : List (Nat × Nat)} (hr : Ranked stems) :
    (hEdges stems).Pairwise (fun e f => ¬ SameEdge e f) := by
  obtain ⟨r1, _, r3⟩ := ranked_iff.1 hr
  unfold hEdges
  rw [List.pairwise_map]
  have r1' : stems.Pairwise (fun a b => a.1 ≠ b.1) := by
    have := List.nodup_iff_pairwise_ne.1 r1
    unfold leafList at this
    exact List.pairwise_map.1 this
  refine List.Pairwise.imp ?_ (r1'.and r3)
  intro a b hab hse
  cases hse with
  | inl h =>
    simp only [Prod.mk.injEq] at h
    exact hab.1 h.2
  | inr h =>
    simp only [Prod.mk.injEq] at h
    exact hab.2 h.2.symm

end AdaptaVerif.Lemmas.PeelModel
