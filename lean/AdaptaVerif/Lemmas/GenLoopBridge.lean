/-
Generic lemma library for the loop / container combinators of `Gen/PreludeLoops.lean`
(`forRange`, `forRangePre`, `forEach`, `forEachPre`, `aget`, `aset`): the generated loops are
folds, invariants lift through them, and their obligations follow from an invariant.
Bridges `Gen.f = Model.f` for loop kernels are instances of these.
-/
import AdaptaVerif.Gen.PreludeLoops
namespace AdaptaVerif.Lemmas.GenLoopBridge
open AdaptaVerif.Gen

/-! ### `forRange` -/

theorem forRange_eq_foldl {σ : Type} (body : Nat → σ → σ) (fuel i : Nat) (s : σ) :
    forRange body fuel i s = (List.range' i fuel).foldl (fun s i => body i s) s := by
  induction fuel generalizing i s with
  | zero => rfl
  | succ k ih => simp only [forRange, List.range'_succ, List.foldl_cons]; exact ih _ _

/-- `for (i = 0; i < n; ++i)` is the fold over `List.range n` -/
theorem forRange_zero {σ : Type} (body : Nat → σ → σ) (n : Nat) (s : σ) :
    forRange body (n - 0) 0 s = (List.range n).foldl (fun s i => body i s) s := by
  rw [forRange_eq_foldl, Nat.sub_zero, List.range_eq_range']

/-- an invariant `Inv i s` ("before iteration i") lifts through the loop -/
theorem forRange_inv {σ : Type} (Inv : Nat → σ → Prop) (body : Nat → σ → σ) (fuel i0 : Nat) (s : σ)
    (h0 : Inv i0 s)
    (hstep : ∀ i s, i0 ≤ i → i < i0 + fuel → Inv i s → Inv (i + 1) (body i s)) :
    Inv (i0 + fuel) (forRange body fuel i0 s) := by
  induction fuel generalizing i0 s with
  | zero => simpa [forRange] using h0
  | succ k ih =>
    simp only [forRange]
    have := ih (i0 + 1) (body i0 s) (hstep i0 s (Nat.le_refl _) (by omega) h0)
      (fun i s hi hlt hI => hstep i s (by omega) (by omega) hI)
    simpa [Nat.add_assoc, Nat.add_comm 1 k] using this

/-- the obligations of every iteration hold if an invariant implies them and is preserved -/
theorem forRangePre_of_inv {σ : Type} (Inv : Nat → σ → Prop) (pre : Nat → σ → Bool) (body : Nat → σ → σ)
    (fuel i0 : Nat) (s : σ) (h0 : Inv i0 s)
    (hstep : ∀ i s, i0 ≤ i → i < i0 + fuel → Inv i s → pre i s = true ∧ Inv (i + 1) (body i s)) :
    forRangePre pre body fuel i0 s = true := by
  induction fuel generalizing i0 s with
  | zero => rfl
  | succ k ih =>
    simp only [forRangePre, Bool.and_eq_true]
    have h := hstep i0 s (Nat.le_refl _) (by omega) h0
    exact ⟨h.1, ih (i0 + 1) (body i0 s) h.2 (fun i s hi hlt hI => hstep i s (by omega) (by omega) hI)⟩

/-- two loop bodies that agree on the states an invariant allows give the same loop -/
theorem forRange_congr_inv {σ : Type} (Inv : Nat → σ → Prop) (body body' : Nat → σ → σ) (fuel i0 : Nat) (s : σ)
    (h0 : Inv i0 s)
    (hstep : ∀ i s, i0 ≤ i → i < i0 + fuel → Inv i s → body i s = body' i s ∧ Inv (i + 1) (body i s)) :
    forRange body fuel i0 s = forRange body' fuel i0 s := by
  induction fuel generalizing i0 s with
  | zero => rfl
  | succ k ih =>
    simp only [forRange]
    have h := hstep i0 s (Nat.le_refl _) (by omega) h0
    rw [← h.1]
    exact ih (i0 + 1) (body i0 s) h.2 (fun i s hi hlt hI => hstep i s (by omega) (by omega) hI)

theorem forRange_congr {σ : Type} (body body' : Nat → σ → σ) (fuel i0 : Nat) (s : σ)
    (h : ∀ i s, i0 ≤ i → i < i0 + fuel → body i s = body' i s) :
    forRange body fuel i0 s = forRange body' fuel i0 s :=
  forRange_congr_inv (fun _ _ => True) body body' fuel i0 s trivial (fun i s hi hlt _ => ⟨h i s hi hlt, trivial⟩)

/-- an indexed loop over a container (`for (i = k; i < k + l.size(); ++i) … l[i - k] …`) is the fold over the list -/
theorem forRange_list {α σ : Type} (l : List α) (body : Nat → σ → σ) (f : σ → α → σ) (k : Nat) (s : σ)
    (h : ∀ i (hi : i < l.length) s, body (k + i) s = f s l[i]) :
    forRange body l.length k s = l.foldl f s := by
  induction l generalizing k s with
  | nil => rfl
  | cons x xs ih =>
    simp only [List.length_cons, forRange, List.foldl_cons]
    have h0 := h 0 (by simp) s
    simp only [Nat.add_zero, List.getElem_cons_zero] at h0
    rw [h0]
    apply ih
    intro i hi s
    have := h (i + 1) (by simp; omega) s
    simpa [Nat.add_assoc, Nat.add_comm 1 i] using this

/-- … with an invariant under which the body is the list step -/
theorem forRange_list_inv {α σ : Type} (Inv : σ → Prop) (l : List α) (body : Nat → σ → σ) (f : σ → α → σ) (k : Nat) (s : σ)
    (h0 : Inv s) (h : ∀ i (hi : i < l.length) s, Inv s → body (k + i) s = f s l[i] ∧ Inv (f s l[i])) :
    forRange body l.length k s = l.foldl f s ∧ Inv (l.foldl f s) := by
  induction l generalizing k s with
  | nil => exact ⟨rfl, h0⟩
  | cons x xs ih =>
    simp only [List.length_cons, forRange, List.foldl_cons]
    have hx := h 0 (by simp) s h0
    simp only [Nat.add_zero, List.getElem_cons_zero] at hx
    rw [hx.1]
    apply ih (k + 1) (f s x) hx.2
    intro i hi s' hs'
    have := h (i + 1) (by simp; omega) s' hs'
    simpa [Nat.add_assoc, Nat.add_comm 1 i] using this

/-! ### `forEach` -/

theorem forEach_eq_foldl {α σ : Type} (body : α → σ → σ) (l : List α) (s : σ) :
    forEach body l s = l.foldl (fun s x => body x s) s := by
  induction l generalizing s with
  | nil => rfl
  | cons x xs ih => simp only [forEach, List.foldl_cons]; exact ih _

theorem forEach_append {α σ : Type} (body : α → σ → σ) (l₁ l₂ : List α) (s : σ) :
    forEach body (l₁ ++ l₂) s = forEach body l₂ (forEach body l₁ s) := by
  simp only [forEach_eq_foldl, List.foldl_append]

theorem forEach_inv {α σ : Type} (Inv : σ → Prop) (body : α → σ → σ) (l : List α) (s : σ) (h0 : Inv s)
    (hstep : ∀ x ∈ l, ∀ s, Inv s → Inv (body x s)) : Inv (forEach body l s) := by
  induction l generalizing s with
  | nil => exact h0
  | cons x xs ih =>
    exact ih (body x s) (hstep x (by simp) s h0) (fun y hy s hs => hstep y (by simp [hy]) s hs)

theorem forEachPre_of_inv {α σ : Type} (Inv : σ → Prop) (pre : α → σ → Bool) (body : α → σ → σ) (l : List α) (s : σ)
    (h0 : Inv s) (hstep : ∀ x ∈ l, ∀ s, Inv s → pre x s = true ∧ Inv (body x s)) :
    forEachPre pre body l s = true := by
  induction l generalizing s with
  | nil => rfl
  | cons x xs ih =>
    simp only [forEachPre, Bool.and_eq_true]
    have h := hstep x (by simp) s h0
    exact ⟨h.1, ih (body x s) h.2 (fun y hy s hs => hstep y (by simp [hy]) s hs)⟩

/-- a loop that appends one element computed from each item is a `map` -/
theorem forEach_push_map {α β : Type} (g : α → β) (l : List α) (acc : List β) :
    forEach (fun x (s : List β) => s ++ [g x]) l acc = acc ++ l.map g := by
  induction l generalizing acc with
  | nil => simp [forEach]
  | cons x xs ih => simp only [forEach, List.map_cons]; rw [ih]; simp

/-- … or a `flatMap` when each item contributes a list -/
theorem forEach_append_flatMap {α β : Type} (g : α → List β) (l : List α) (acc : List β) :
    forEach (fun x (s : List β) => s ++ g x) l acc = acc ++ l.flatMap g := by
  induction l generalizing acc with
  | nil => simp [forEach]
  | cons x xs ih => simp only [forEach, List.flatMap_cons]; rw [ih]; simp

/-! ### `aget` / `aset` -/

theorem aget_eq {α : Type} [Inhabited α] (a : Array α) (i : Nat) : aget a i = (a[i]?).getD default := by
  simp [aget]

theorem aset_size {α : Type} (a : Array α) (i : Nat) (x : α) : (aset a i x).size = a.size := by
  simp [aset]

theorem aget_aset_eq {α : Type} [Inhabited α] (a : Array α) (i : Nat) (x : α) (h : i < a.size) :
    aget (aset a i x) i = x := by
  simp [aget, aset, h]

theorem aget_aset_ne {α : Type} [Inhabited α] (a : Array α) (i j : Nat) (x : α) (h : i ≠ j) :
    aget (aset a i x) j = aget a j := by
  simp [aget, aset, h]

end AdaptaVerif.Lemmas.GenLoopBridge
