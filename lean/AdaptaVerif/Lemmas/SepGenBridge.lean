/-
C18 — bridge between `SepPair::generateSeparationConstraint` as GENERATED from
cola/libdialect/constraints.cpp (`Gen/SepGenK.lean`) and the hand transcription
`Model.Sep.SepPair.generateSeparationConstraint` (whose `genCon` is what Props/C18 `sat_iff_vpsc` is about).
-/
import AdaptaVerif.Gen.SepGenK
namespace AdaptaVerif.Lemmas.SepGenBridge
open AdaptaVerif.Model.Sep AdaptaVerif.Num AdaptaVerif.Gen

theorem toRat_two : SZ.toRat (SZ.ofRat (2 : Rat)) = 2 := by
  have h : ¬ ((2 : Rat) < 0) := by decide
  simp [SZ.toRat, SZ.ofRat, h]

/-- extent of node `id` in dimension `d` as the C++ reads it: through `cgr.id2ix` and `cgr.rs` -/
def sizeOf (id2ix : Nat → Nat) (rsW rsH : Nat → Rat) (id : Nat) : Dim → Rat
  | .x => rsW (id2ix id)
  | .y => rsH (id2ix id)

/-- node ids → variable indices -/
def relabel (id2ix : Nat → Nat) (c : VCon) : VCon := { c with left := id2ix c.left, right := id2ix c.right }

theorem gen_eq (dim : Dim) (nvars : Nat) (sp : SepPair) (id2ix : Nat → Nat) (rsW rsH : Nat → Rat) (extra : Rat) :
    AdaptaVerif.Gen.SepGenK.generateSeparationConstraint dim () () nvars sp id2ix rsW rsH extra =
      (sp.generateSeparationConstraint dim extra (sizeOf id2ix rsW rsH)).map (relabel id2ix) := by
  unfold AdaptaVerif.Gen.SepGenK.generateSeparationConstraint SepPair.generateSeparationConstraint genCon relabel sizeOf
  simp only [toRat_two]
  cases dim
  · cases hst : sp.xst <;> cases hsb : sp.xgap.signbit <;> cases hgt : sp.xgt <;> simp [Rat.add_assoc]
  · cases hst : sp.yst <;> cases hsb : sp.ygap.signbit <;> cases hgt : sp.ygt <;> simp [Rat.add_assoc]

/-- the only obligations are the two `vs[·]` accesses: both variable indices must exist -/
theorem gen_pre_true (dim : Dim) (nvars : Nat) (sp : SepPair) (id2ix : Nat → Nat) (rsW rsH : Nat → Rat) (extra : Rat)
    (hs : id2ix sp.src < nvars) (ht : id2ix sp.tgt < nvars) :
    AdaptaVerif.Gen.SepGenK.generateSeparationConstraint_pre dim () () nvars sp id2ix rsW rsH extra = true := by
  unfold AdaptaVerif.Gen.SepGenK.generateSeparationConstraint_pre
  cases dim
  · cases hst : sp.xst <;> cases hsb : sp.xgap.signbit <;> cases hgt : sp.xgt <;> simp [hs, ht]
  · cases hst : sp.yst <;> cases hsb : sp.ygap.signbit <;> cases hgt : sp.ygt <;> simp [hs, ht]

end AdaptaVerif.Lemmas.SepGenBridge
