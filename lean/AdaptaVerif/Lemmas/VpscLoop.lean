/-
The solver loops of the IncSolver model preserve the block invariant:
splitBlocks, mostViolated, the body of the satisfy loop (`process`), satisfy, solve.
-/
import AdaptaVerif.Lemmas.VpscSplit
import AdaptaVerif.Lemmas.VpscTraverse
namespace AdaptaVerif.Lemmas.VpscLoop
open AdaptaVerif.Model.Vpsc
open AdaptaVerif.Lemmas.VpscGraph AdaptaVerif.Lemmas.VpscModel AdaptaVerif.Lemmas.VpscHistory
open AdaptaVerif.Lemmas.VpscInv AdaptaVerif.Lemmas.VpscMerge AdaptaVerif.Lemmas.VpscSplit
open AdaptaVerif.Lemmas.VpscTraverse AdaptaVerif.Lemmas.VpscWalk
open AdaptaVerif.Lemmas.VpscFlag (toC)
open AdaptaVerif.Spec.Vpsc (PosCycle)
open Relation

/-! ### small facts about the invariant -/

theorem InvC.congr_inactive {vars cons n} {ia ia' : Array Nat} (hm : ∀ j, j ∈ ia ↔ j ∈ ia')
    (h : InvC vars cons n ia) : InvC vars cons n ia' :=
  { h with
    cover := fun j hj => by
      rcases h.cover j hj with c | c | c
      · exact Or.inl c
      · exact Or.inr (Or.inl c)
      · exact Or.inr (Or.inr ((hm j).1 c))
    inact_lt := fun j hj => h.inact_lt j ((hm j).2 hj) }

theorem InvC.drop_push {vars cons n} {ia : Array Nat} {x : Nat} (h : InvC vars cons n (ia.push x))
    (hx : (cons[x]!).active = true ∨ (cons[x]!).unsat = true) : InvC vars cons n ia :=
  { h with
    cover := fun j hj => by
      rcases h.cover j hj with c | c | c
      · exact Or.inl c
      · exact Or.inr (Or.inl c)
      · rcases Array.mem_push.1 c with c | rfl
        · exact Or.inr (Or.inr c)
        · rcases hx with hx | hx
          · exact Or.inl hx
          · exact Or.inr (Or.inl hx)
    inact_lt := fun j hj => h.inact_lt j (Array.mem_push.2 (Or.inl hj)) }

theorem InvC.add_push {vars cons n} {ia : Array Nat} {x : Nat} (h : InvC vars cons n ia)
    (hx : x < cons.size) : InvC vars cons n (ia.push x) :=
  { h with
    cover := fun j hj => by
      rcases h.cover j hj with c | c | c
      · exact Or.inl c
      · exact Or.inr (Or.inl c)
      · exact Or.inr (Or.inr (Array.mem_push.2 (Or.inl c)))
    inact_lt := fun j hj => by
      rcases Array.mem_push.1 hj with c | rfl
      · exact h.inact_lt j c
      · exact hx }

theorem active_lt (cons : Array Con) (j : Nat) (h : (cons[j]!).active = true) : j < cons.size := by
  by_contra hlt
  rw [getElem!_neg cons j hlt] at h
  exact absurd h (by decide)

/-- flagging a constraint keeps the invariant, provided (inequality-only systems) the flag is
    justified by a positive-gap cycle -/
theorem InvC.set_unsat {vars cons n} {ia : Array Nat} (h : InvC vars cons n ia) (x : Nat)
    (hx : x < cons.size)
    (hj : (∀ j : Nat, j < cons.size → (cons[j]!).eq = false) → PosCycle (cons.toList.map toC)) :
    InvC vars (cons.set! x { cons[x]! with unsat := true }) n ia := by
  have hsz : (cons.set! x { cons[x]! with unsat := true }).size = cons.size := set!_size _ _ _
  have hd : ∀ j : Nat, SameData ((cons.set! x { cons[x]! with unsat := true })[j]!) (cons[j]!) ∧
      ((cons.set! x { cons[x]! with unsat := true })[j]!).active = (cons[j]!).active ∧
      ((cons[j]!).unsat = true → ((cons.set! x { cons[x]! with unsat := true })[j]!).unsat = true) := by
    intro j
    rw [cons_set_get]
    split
    · rename_i hh
      obtain ⟨rfl, _⟩ := hh
      exact ⟨⟨rfl, rfl, rfl, rfl⟩, rfl, fun _ => rfl⟩
    · exact ⟨⟨rfl, rfl, rfl, rfl⟩, rfl, fun hh => hh⟩
  have hae : ∀ j a b, AE (cons.set! x { cons[x]! with unsat := true }) j a b ↔ AE cons j a b := by
    intro j a b
    unfold AE
    rw [hsz, (hd j).2.1, (hd j).1.1, (hd j).1.2.1]
  have hrtg : ∀ (P : Nat → Prop) (a b : Nat),
      ReflTransGen (Adj P (cons.set! x { cons[x]! with unsat := true })) a b ↔
      ReflTransGen (Adj P cons) a b := fun P a b =>
    ⟨reflTransGen_adj_mono (fun j a b hp hh => ⟨hp, (hae j a b).1 hh⟩),
     reflTransGen_adj_mono (fun j a b hp hh => ⟨hp, (hae j a b).2 hh⟩)⟩
  have htc := toC_set cons x { cons[x]! with unsat := true } ⟨rfl, rfl, rfl, rfl⟩
  refine
    { outs_sound := ?_, outs_complete := ?_, ins_sound := ?_, ins_complete := ?_, tight := ?_,
      bridge := ?_, conn := ?_, fresh := h.fresh, cover := ?_, inact_lt := ?_, flags := ?_ }
  · intro u j hj
    obtain ⟨a, b⟩ := h.outs_sound u j hj
    exact ⟨by rw [hsz]; exact a, by rw [(hd j).1.1]; exact b⟩
  · intro j hj; rw [(hd j).1.1]; exact h.outs_complete j (by rw [hsz] at hj; exact hj)
  · intro u j hj
    obtain ⟨a, b⟩ := h.ins_sound u j hj
    exact ⟨by rw [hsz]; exact a, by rw [(hd j).1.2.1]; exact b⟩
  · intro j hj; rw [(hd j).1.2.1]; exact h.ins_complete j (by rw [hsz] at hj; exact hj)
  · intro j hj ha
    rw [hsz] at hj
    rw [(hd j).2.1] at ha
    rw [(hd j).1.1, (hd j).1.2.1, (hd j).1.2.2.1]
    exact h.tight j hj ha
  · intro j hj ha
    rw [hsz] at hj
    rw [(hd j).2.1] at ha
    rw [(hd j).1.1, (hd j).1.2.1, ReachAvoid, hrtg]
    exact h.bridge j hj ha
  · intro a b ha hb hab
    rw [Reach, hrtg]
    exact h.conn a b ha hb hab
  · intro j hj
    rw [hsz] at hj
    rcases h.cover j hj with c | c | c
    · exact Or.inl (by rw [(hd j).2.1]; exact c)
    · exact Or.inr (Or.inl ((hd j).2.2 c))
    · exact Or.inr (Or.inr c)
  · intro j hj; rw [hsz]; exact h.inact_lt j hj
  · intro hineq j _ _
    rw [htc]
    exact hj (fun k hk => by
      have := hineq k (by rw [hsz]; exact hk)
      rw [(hd k).1.2.2.2] at this
      exact this)

/-! ### transfer of `J` along steps that do not touch the components the invariant reads -/

theorem J.of_core {st st' : St} (hv : st'.vars = st.vars) (hc : st'.cons = st.cons)
    (hb : st'.blocks.size = st.blocks.size) (hi : st'.inactive = st.inactive)
    (hf : st'.fuelOut = false → st.fuelOut = false) (h : J st) : J st' := by
  by_cases hfo : st'.fuelOut = true
  · exact Or.inl hfo
  · have hfo' : st'.fuelOut = false := by simpa using hfo
    rcases h with h | h
    · rw [hf hfo'] at h; exact absurd h (by simp)
    · right
      unfold VpscInv.Inv
      rw [hv, hc, hb, hi]
      exact h

theorem J.inv {st : St} (h : J st) (hf : st.fuelOut = false) : Inv st := by
  rcases h with h | h
  · rw [hf] at h; exact absurd h (by simp)
  · exact h

end AdaptaVerif.Lemmas.VpscLoop
