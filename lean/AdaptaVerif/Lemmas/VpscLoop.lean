/-
The solver loops of the IncSolver model preserve the block invariant:
splitBlocks, mostViolated, the body of the satisfy loop (`process`), satisfy, solve.
-/
import AdaptaVerif.Lemmas.VpscSplit
import AdaptaVerif.Lemmas.VpscTraverse
import AdaptaVerif.Lemmas.VpscFeasible
namespace AdaptaVerif.Lemmas.VpscLoop
open AdaptaVerif.Model.Vpsc
open AdaptaVerif.Lemmas.VpscGraph AdaptaVerif.Lemmas.VpscModel AdaptaVerif.Lemmas.VpscHistory
open AdaptaVerif.Lemmas.VpscInv AdaptaVerif.Lemmas.VpscMerge AdaptaVerif.Lemmas.VpscSplit
open AdaptaVerif.Lemmas.VpscTraverse AdaptaVerif.Lemmas.VpscWalk
open AdaptaVerif.Lemmas.VpscFlag (toC)
open AdaptaVerif.Spec.Vpsc (PosCycle)
open Relation

/-! ### small facts about the invariant -/

theorem InvC.congr_inactive {vars cons n} {ia ia' : Array Nat} (hm : ∀ j, j ∈ ia ↔ j ∈ ia')
    (h : InvC vars cons n ia) : InvC vars cons n ia' :=
  { h with
    cover := fun j hj => by
      rcases h.cover j hj with c | c | c
      · exact Or.inl c
      · exact Or.inr (Or.inl c)
      · exact Or.inr (Or.inr ((hm j).1 c))
    inact_lt := fun j hj => h.inact_lt j ((hm j).2 hj) }

theorem InvC.drop_push {vars cons n} {ia : Array Nat} {x : Nat} (h : InvC vars cons n (ia.push x))
    (hx : (cons[x]!).active = true ∨ (cons[x]!).unsat = true) : InvC vars cons n ia :=
  { h with
    cover := fun j hj => by
      rcases h.cover j hj with c | c | c
      · exact Or.inl c
      · exact Or.inr (Or.inl c)
      · rcases Array.mem_push.1 c with c | rfl
        · exact Or.inr (Or.inr c)
        · rcases hx with hx | hx
          · exact Or.inl hx
          · exact Or.inr (Or.inl hx)
    inact_lt := fun j hj => h.inact_lt j (Array.mem_push.2 (Or.inl hj)) }

theorem InvC.add_push {vars cons n} {ia : Array Nat} {x : Nat} (h : InvC vars cons n ia)
    (hx : x < cons.size) : InvC vars cons n (ia.push x) :=
  { h with
    cover := fun j hj => by
      rcases h.cover j hj with c | c | c
      · exact Or.inl c
      · exact Or.inr (Or.inl c)
      · exact Or.inr (Or.inr (Array.mem_push.2 (Or.inl c)))
    inact_lt := fun j hj => by
      rcases Array.mem_push.1 hj with c | rfl
      · exact h.inact_lt j c
      · exact hx }

theorem active_lt (cons : Array Con) (j : Nat) (h : (cons[j]!).active = true) : j < cons.size := by
  by_contra hlt
  rw [getElem!_neg cons j hlt] at h
  exact absurd h (by decide)

/-- flagging a constraint keeps the invariant, provided (inequality-only systems) the flag is
    justified by a positive-gap cycle -/
theorem InvC.set_unsat {vars cons n} {ia : Array Nat} (h : InvC vars cons n ia) (x : Nat)
    (hx : x < cons.size)
    (hj : (∀ j : Nat, j < cons.size → (cons[j]!).eq = false) → PosCycle (cons.toList.map toC)) :
    InvC vars (cons.set! x { cons[x]! with unsat := true }) n ia := by
  have hsz : (cons.set! x { cons[x]! with unsat := true }).size = cons.size := set!_size _ _ _
  have hd : ∀ j : Nat, SameData ((cons.set! x { cons[x]! with unsat := true })[j]!) (cons[j]!) ∧
      ((cons.set! x { cons[x]! with unsat := true })[j]!).active = (cons[j]!).active ∧
      ((cons[j]!).unsat = true → ((cons.set! x { cons[x]! with unsat := true })[j]!).unsat = true) := by
    intro j
    rw [cons_set_get]
    split
    · rename_i hh
      obtain ⟨rfl, _⟩ := hh
      exact ⟨⟨rfl, rfl, rfl, rfl⟩, rfl, fun _ => rfl⟩
    · exact ⟨⟨rfl, rfl, rfl, rfl⟩, rfl, fun hh => hh⟩
  have hae : ∀ j a b, AE (cons.set! x { cons[x]! with unsat := true }) j a b ↔ AE cons j a b := by
    intro j a b
    unfold AE
    rw [hsz, (hd j).2.1, (hd j).1.1, (hd j).1.2.1]
  have hrtg : ∀ (P : Nat → Prop) (a b : Nat),
      ReflTransGen (Adj P (cons.set! x { cons[x]! with unsat := true })) a b ↔
      ReflTransGen (Adj P cons) a b := fun P a b =>
    ⟨reflTransGen_adj_mono (fun j a b hp hh => ⟨hp, (hae j a b).1 hh⟩),
     reflTransGen_adj_mono (fun j a b hp hh => ⟨hp, (hae j a b).2 hh⟩)⟩
  have htc := toC_set cons x { cons[x]! with unsat := true } ⟨rfl, rfl, rfl, rfl⟩
  refine
    { outs_sound := ?_, outs_complete := ?_, ins_sound := ?_, ins_complete := ?_, tight := ?_,
      bridge := ?_, conn := ?_, fresh := h.fresh, cover := ?_, inact_lt := ?_, flags := ?_,
      outs_nodup := h.outs_nodup, ins_nodup := h.ins_nodup }
  · intro u j hj
    obtain ⟨a, b⟩ := h.outs_sound u j hj
    exact ⟨by rw [hsz]; exact a, by rw [(hd j).1.1]; exact b⟩
  · intro j hj; rw [(hd j).1.1]; exact h.outs_complete j (by rw [hsz] at hj; exact hj)
  · intro u j hj
    obtain ⟨a, b⟩ := h.ins_sound u j hj
    exact ⟨by rw [hsz]; exact a, by rw [(hd j).1.2.1]; exact b⟩
  · intro j hj; rw [(hd j).1.2.1]; exact h.ins_complete j (by rw [hsz] at hj; exact hj)
  · intro j hj ha
    rw [hsz] at hj
    rw [(hd j).2.1] at ha
    rw [(hd j).1.1, (hd j).1.2.1, (hd j).1.2.2.1]
    exact h.tight j hj ha
  · intro j hj ha
    rw [hsz] at hj
    rw [(hd j).2.1] at ha
    rw [(hd j).1.1, (hd j).1.2.1, ReachAvoid, hrtg]
    exact h.bridge j hj ha
  · intro a b ha hb hab
    rw [Reach, hrtg]
    exact h.conn a b ha hb hab
  · intro j hj
    rw [hsz] at hj
    rcases h.cover j hj with c | c | c
    · exact Or.inl (by rw [(hd j).2.1]; exact c)
    · exact Or.inr (Or.inl ((hd j).2.2 c))
    · exact Or.inr (Or.inr c)
  · intro j hj; rw [hsz]; exact h.inact_lt j hj
  · intro hineq j _ _
    rw [htc]
    exact hj (fun k hk => by
      have := hineq k (by rw [hsz]; exact hk)
      rw [(hd k).1.2.2.2] at this
      exact this)

/-! ### transfer of `J` along steps that do not touch the components the invariant reads -/

theorem J.of_core {st st' : St} (hv : st'.vars = st.vars) (hc : st'.cons = st.cons)
    (hb : st'.blocks.size = st.blocks.size) (hi : st'.inactive = st.inactive)
    (hf : st'.fuelOut = false → st.fuelOut = false) (h : J st) : J st' := by
  by_cases hfo : st'.fuelOut = true
  · exact Or.inl hfo
  · have hfo' : st'.fuelOut = false := by simpa using hfo
    rcases h with h | h
    · rw [hf hfo'] at h; exact absurd h (by simp)
    · right
      unfold VpscInv.Inv
      rw [hv, hc, hb, hi]
      exact h

theorem J.inv {st : St} (h : J st) (hf : st.fuelOut = false) : Inv st := by
  rcases h with h | h
  · rw [hf] at h; exact absurd h (by simp)
  · exact h

/-! ### frames -/

theorem refreshBlock_core (st : St) (bid : Nat) :
    (st.refreshBlock bid).vars = st.vars ∧ (st.refreshBlock bid).cons = st.cons ∧
    (st.refreshBlock bid).blocks.size = st.blocks.size ∧ (st.refreshBlock bid).inactive = st.inactive ∧
    (st.refreshBlock bid).fuelOut = st.fuelOut := by
  simp [St.refreshBlock]

theorem moveBlocks_core (st : St) :
    st.moveBlocks.vars = st.vars ∧ st.moveBlocks.cons = st.cons ∧
    st.moveBlocks.blocks.size = st.blocks.size ∧ st.moveBlocks.inactive = st.inactive ∧
    st.moveBlocks.fuelOut = st.fuelOut := by
  unfold St.moveBlocks
  apply Array.foldl_induction
    (motive := fun _ (s : St) => s.vars = st.vars ∧ s.cons = st.cons ∧
      s.blocks.size = st.blocks.size ∧ s.inactive = st.inactive ∧ s.fuelOut = st.fuelOut)
  · exact ⟨rfl, rfl, rfl, rfl, rfl⟩
  · intro i s hs
    obtain ⟨a, b, c, d, e⟩ := refreshBlock_core s st.order[i]
    exact ⟨a.trans hs.1, b.trans hs.2.1, c.trans hs.2.2.1, d.trans hs.2.2.2.1, e.trans hs.2.2.2.2⟩

theorem findMinLM_spec (st : St) (bid : Nat) :
    (st.findMinLM bid).1.vars = st.vars ∧ (st.findMinLM bid).1.cons = st.cons ∧
    (st.findMinLM bid).1.blocks = st.blocks ∧ (st.findMinLM bid).1.inactive = st.inactive ∧
    ((st.findMinLM bid).1.fuelOut = false → st.fuelOut = false) ∧
    (∀ ci lmv gap, (st.findMinLM bid).2 = some (ci, lmv, gap) → (st.cons[ci]!).active = true) := by
  unfold St.findMinLM
  simp only
  refine ⟨trivial, trivial, trivial, trivial, ?_, ?_⟩
  · intro h
    simp only [Bool.or_eq_false_iff] at h
    exact h.1
  · intro ci lmv gap h
    have hm := argMinFirst_mem _ _ _ _ h
    simp only [Array.mem_map, Array.mem_filter] at hm
    obtain ⟨cj, ⟨hcj, _⟩, heq⟩ := hm
    simp only [Prod.mk.injEq] at heq
    obtain ⟨rfl, _⟩ := heq
    have hempty : ∀ ci ∈ (#[] : Array Nat), (st.cons[ci]!).active = true :=
      fun ci hh => absurd hh (Array.not_mem_empty ci)
    exact computeDfdv_post st bid (st.vars.size + 1) st.lm #[] _ none hempty cj hcj

/-! ### the split as the callers perform it -/

theorem splitOn_core (st : St) (ci : Nat) (ia : Array Nat)
    (h : InvC st.vars st.cons st.blocks.size ia) (hact : (st.cons[ci]!).active = true)
    (hfo : (st.splitOn (blk st.vars (st.cons[ci]!).l) ci).1.fuelOut = false) :
    InvC (st.splitOn (blk st.vars (st.cons[ci]!).l) ci).1.vars
      (st.splitOn (blk st.vars (st.cons[ci]!).l) ci).1.cons
      (st.splitOn (blk st.vars (st.cons[ci]!).l) ci).1.blocks.size (ia.push ci) ∧
    (∀ x, ReachAvoid st.cons ci (st.cons[ci]!).l x →
      blk (st.splitOn (blk st.vars (st.cons[ci]!).l) ci).1.vars x =
        (st.splitOn (blk st.vars (st.cons[ci]!).l) ci).2.1) ∧
    (∀ x, ReachAvoid st.cons ci (st.cons[ci]!).r x →
      blk (st.splitOn (blk st.vars (st.cons[ci]!).l) ci).1.vars x =
        (st.splitOn (blk st.vars (st.cons[ci]!).l) ci).2.2) ∧
    (st.splitOn (blk st.vars (st.cons[ci]!).l) ci).2.1 ≠
      (st.splitOn (blk st.vars (st.cons[ci]!).l) ci).2.2 ∧
    (st.splitOn (blk st.vars (st.cons[ci]!).l) ci).1.inactive = st.inactive.push ci ∧
    st.fuelOut = false ∧
    (st.splitOn (blk st.vars (st.cons[ci]!).l) ci).1.cons =
      st.cons.set! ci { st.cons[ci]! with active := false } := by
  have hci := active_lt _ _ hact
  unfold St.splitOn St.split at hfo ⊢
  simp only [St.refreshBlock, St.markDeleted, St.pushInactive] at hfo ⊢
  simp only [Bool.or_eq_false_iff, Bool.not_eq_false'] at hfo
  obtain ⟨⟨hf0, hok1⟩, hok2⟩ := hfo
  obtain ⟨c1, c2, c3⟩ := split_core st.vars st.cons st.blocks.size ia h ci hci hact
    (st.vars.size + 1) #[] #[] hok1 hok2
  refine ⟨by simpa using c1, c2, c3, by omega, trivial, hf0, trivial⟩

/-! ### splitBlocks -/

/-- the split step, seen from any state that agrees with its result on the components the
    invariant reads -/
theorem splitOn_J (st : St) (ci : Nat) (h : J st) (hact : (st.cons[ci]!).active = true)
    (st' : St)
    (hv : st'.vars = (st.splitOn (blk st.vars (st.cons[ci]!).l) ci).1.vars)
    (hc : st'.cons = (st.splitOn (blk st.vars (st.cons[ci]!).l) ci).1.cons)
    (hb : st'.blocks.size = (st.splitOn (blk st.vars (st.cons[ci]!).l) ci).1.blocks.size)
    (hi : st'.inactive = (st.splitOn (blk st.vars (st.cons[ci]!).l) ci).1.inactive)
    (hf : st'.fuelOut = (st.splitOn (blk st.vars (st.cons[ci]!).l) ci).1.fuelOut) : J st' := by
  by_cases hfo : st'.fuelOut = true
  · exact Or.inl hfo
  · right
    have hfo' : (st.splitOn (blk st.vars (st.cons[ci]!).l) ci).1.fuelOut = false := by
      rw [← hf]; simpa using hfo
    -- first get `st.fuelOut = false` (with a dummy inactive list the invariant is not needed for it)
    have hf0 : st.fuelOut = false := by
      rcases h with h | h
      · -- fuelOut only grows
        have : (st.splitOn (blk st.vars (st.cons[ci]!).l) ci).1.fuelOut = true := by
          unfold St.splitOn St.split
          simp [St.refreshBlock, St.markDeleted, St.pushInactive, h]
        rw [this] at hfo'
        exact absurd hfo' (by simp)
      · by_contra hne
        have h1 : st.fuelOut = true := by simpa using hne
        have : (st.splitOn (blk st.vars (st.cons[ci]!).l) ci).1.fuelOut = true := by
          unfold St.splitOn St.split
          simp [St.refreshBlock, St.markDeleted, St.pushInactive, h1]
        rw [this] at hfo'
        exact absurd hfo' (by simp)
    obtain ⟨c1, _, _, _, c5, _, _⟩ := splitOn_core st ci st.inactive (J.inv h hf0) hact hfo'
    unfold VpscInv.Inv
    rw [hv, hc, hb, hi, c5]
    exact c1

theorem splitBlockStep_J (st : St) (i : Nat) (h : J st) : J (st.splitBlockStep i) := by
  unfold St.splitBlockStep
  simp only
  obtain ⟨f1, f2, f3, f4, f5, f6⟩ := findMinLM_spec st st.order[i]!
  have hJ1 : J (st.findMinLM st.order[i]!).1 := J.of_core f1 f2 (by rw [f3]) f4 f5 h
  split
  · exact hJ1
  · rename_i ci lmv gap hm
    have hact := f6 ci lmv gap hm
    split
    · generalize hst2 : ((st.findMinLM st.order[i]!).1.note (lmv - LAGRANGIAN_TOLERANCE)).note gap = st2
      have hJ2 : J st2 := by
        subst hst2
        exact J.of_core (st := (st.findMinLM st.order[i]!).1) rfl rfl rfl rfl (fun hh => hh) hJ1
      have hact2 : (st2.cons[ci]!).active = true := by
        subst hst2
        have : (((st.findMinLM st.order[i]!).1.note (lmv - LAGRANGIAN_TOLERANCE)).note gap).cons = st.cons := f2
        rw [this]; exact hact
      apply splitOn_J st2 ci hJ2 hact2 <;> simp only [St.incSplit, St.insertBlocks] <;> rfl
    · exact J.of_core (st := (st.findMinLM st.order[i]!).1) rfl rfl rfl rfl (fun hh => hh) hJ1

theorem foldl_J {α : Type} (f : St → α → St) (hf : ∀ st a, J st → J (f st a)) :
    ∀ (l : List α) (st : St), J st → J (l.foldl f st) := by
  intro l
  induction l with
  | nil => intro st h; exact h
  | cons a l ih => intro st h; exact ih _ (hf st a h)

theorem cleanup_core (st : St) :
    st.cleanup.vars = st.vars ∧ st.cleanup.cons = st.cons ∧ st.cleanup.blocks = st.blocks ∧
    st.cleanup.inactive = st.inactive ∧ st.cleanup.fuelOut = st.fuelOut :=
  ⟨rfl, rfl, rfl, rfl, rfl⟩

theorem splitBlocks_J (st : St) (h : J st) : J st.splitBlocks := by
  unfold St.splitBlocks
  simp only
  obtain ⟨a, b, c, d, e⟩ := moveBlocks_core st
  have h1 : J st.moveBlocks := J.of_core a b c d (fun hh => by rw [← e]; exact hh) h
  have h2 := foldl_J St.splitBlockStep splitBlockStep_J (List.range st.moveBlocks.order.size) _ h1
  exact J.of_core (st := (List.range st.moveBlocks.order.size).foldl St.splitBlockStep st.moveBlocks)
    rfl rfl rfl rfl (fun hh => hh) h2

/-! ### mostViolated -/

theorem mem_swapRemove_sub (l : Array Nat) (k x : Nat) (h : x ∈ (l.set! k l[l.size - 1]!).pop) : x ∈ l := by
  obtain ⟨i, hi, rfl⟩ := Array.mem_iff_getElem.1 h
  have hi' : i < l.size := by simp at hi; omega
  rw [Array.getElem_pop]
  have e : (l.set! k l[l.size - 1]!)[i]'(by simp; exact hi') = (l.set! k l[l.size - 1]!)[i]! :=
    (getElem!_pos _ i (by simp; exact hi')).symm
  rw [e, get!_set!]
  split
  · have hlast : l.size - 1 < l.size := by omega
    rw [getElem!_pos l _ hlast]
    exact Array.getElem_mem _
  · rw [getElem!_pos l i hi']
    exact Array.getElem_mem _

theorem mem_swapRemove_of_ne (l : Array Nat) (k x : Nat) (hk : k < l.size) (hx : x ∈ l)
    (hne : x ≠ l[k]!) : x ∈ (l.set! k l[l.size - 1]!).pop := by
  obtain ⟨i, hi, rfl⟩ := Array.mem_iff_getElem.1 hx
  have hik : i ≠ k := by
    rintro rfl
    exact hne (getElem!_pos l i hi).symm
  rw [Array.mem_iff_getElem]
  by_cases hlast : i = l.size - 1
  · -- the last element has been moved to position k
    have hk' : k < (l.set! k l[l.size - 1]!).pop.size := by simp; omega
    refine ⟨k, hk', ?_⟩
    rw [Array.getElem_pop]
    have e : (l.set! k l[l.size - 1]!)[k]'(by simp; exact hk) = (l.set! k l[l.size - 1]!)[k]! :=
      (getElem!_pos _ k (by simp; exact hk)).symm
    rw [e, get!_set!]
    simp only [hk, and_self, if_true]
    subst hlast
    exact getElem!_pos l _ hi
  · have hi' : i < (l.set! k l[l.size - 1]!).pop.size := by simp; omega
    refine ⟨i, hi', ?_⟩
    rw [Array.getElem_pop]
    have e : (l.set! k l[l.size - 1]!)[i]'(by simp; exact hi) = (l.set! k l[l.size - 1]!)[i]! :=
      (getElem!_pos _ i (by simp; exact hi)).symm
    rw [e, get!_set!]
    have : ¬ (k = i ∧ i < l.size) := fun hh => hik hh.1.symm
    rw [if_neg this]
    exact getElem!_pos l i hi

theorem slack_note (st : St) (m : Rat) (ci : Nat) : (st.note m).slack ci = st.slack ci := rfl

/-- what `mostViolated` returns -/
structure MVSpec (st : St) (r : St × Option Nat) : Prop where
  vars : r.1.vars = st.vars
  cons : r.1.cons = st.cons
  blocks : r.1.blocks = st.blocks
  fuel : r.1.fuelOut = st.fuelOut
  sub : ∀ j ∈ r.1.inactive, j ∈ st.inactive
  none_case : r.2 = none → r.1.inactive = st.inactive ∧ ∀ j ∈ st.inactive, (st.cons[j]!).eq = false
  some_case : ∀ v, r.2 = some v → v ∈ st.inactive ∧
    (∀ j ∈ st.inactive, j ≠ v → j ∈ r.1.inactive) ∧
    (r.1.goCond v = false → r.1.inactive = st.inactive ∧ ∀ j ∈ st.inactive, (st.cons[j]!).eq = false)

theorem mostViolated_spec (st : St) : MVSpec st st.mostViolated := by
  unfold St.mostViolated
  simp only
  split
  · -- empty list
    rename_i hsz
    have hempty : ∀ j, j ∉ st.inactive := by
      intro j hj
      obtain ⟨i, hi, _⟩ := Array.mem_iff_getElem.1 hj
      have : st.inactive.size = 0 := by simpa using hsz
      omega
    exact ⟨rfl, rfl, rfl, rfl, fun j hj => hj, fun _ => ⟨rfl, fun j hj => absurd hj (hempty j)⟩,
      fun v hv => by simp at hv⟩
  · split
    · -- an equality is in the list
      rename_i k hk
      obtain ⟨hklt, hp, _⟩ := Array.findIdx?_eq_some_iff_getElem.1 hk
      have hkk : st.inactive[k]! = st.inactive[k] := getElem!_pos _ k hklt
      refine ⟨rfl, rfl, rfl, rfl, fun j hj => mem_swapRemove_sub _ _ _ hj, fun hh => by simp at hh, ?_⟩
      intro v hv
      simp only [Option.some.injEq] at hv
      subst hv
      refine ⟨by rw [hkk]; exact Array.getElem_mem _, fun j hj hne => mem_swapRemove_of_ne _ _ _ hklt hj hne, ?_⟩
      intro hgo
      exfalso
      have heq : (st.cons[st.inactive[k]!]!).eq = true := by rw [hkk]; exact hp
      simp only [St.goCond, Bool.or_eq_false_iff] at hgo
      have := hgo.1
      rw [heq] at this
      exact absurd this (by simp)
    · rename_i hnoeq
      have hall : ∀ j ∈ st.inactive, (st.cons[j]!).eq = false :=
        fun j hj => Array.findIdx?_eq_none_iff.1 hnoeq j hj
      split
      · exact ⟨rfl, rfl, rfl, rfl, fun j hj => hj, fun _ => ⟨rfl, hall⟩, fun v hv => by simp at hv⟩
      · rename_i ci s gap hmin
        have hmem := argMinFirst_mem _ _ _ _ hmin
        simp only [Array.mem_filterMap, Option.map_eq_some_iff, Prod.mk.injEq] at hmem
        obtain ⟨cj, hcj, s', hs', rfl, rfl⟩ := hmem
        split
        · rename_i hcond
          split
          · rename_i k hk
            obtain ⟨hklt, hp, _⟩ := Array.findIdx?_eq_some_iff_getElem.1 hk
            have hkk : st.inactive[k]! = cj := by
              rw [getElem!_pos _ k hklt]; simpa using hp
            refine ⟨rfl, rfl, rfl, rfl, fun j hj => mem_swapRemove_sub _ _ _ hj,
              fun hh => by simp at hh, ?_⟩
            intro v hv
            simp only [Option.some.injEq] at hv
            subst hv
            refine ⟨hcj, fun j hj hne => mem_swapRemove_of_ne _ _ _ hklt hj (by rw [hkk]; exact hne), ?_⟩
            intro hgo
            exfalso
            simp only [St.goCond, Bool.or_eq_false_iff] at hgo
            have h2 := hgo.2
            have hsl : St.slack { ((st.note (s' - ZERO_UPPERBOUND)).note gap) with
                inactive := (st.inactive.set! k st.inactive[st.inactive.size - 1]!).pop } cj = some s' := hs'
            rw [hsl] at h2
            simp only at h2
            exact absurd (hcond.symm.trans h2) (by simp)
          · refine ⟨rfl, rfl, rfl, rfl, fun j hj => hj, fun hh => by simp at hh, ?_⟩
            intro v hv
            simp only [Option.some.injEq] at hv
            subst hv
            exact ⟨hcj, fun j hj _ => hj, fun _ => ⟨rfl, hall⟩⟩
        · refine ⟨rfl, rfl, rfl, rfl, fun j hj => hj, fun hh => by simp at hh, ?_⟩
          intro v hv
          simp only [Option.some.injEq] at hv
          subst hv
          exact ⟨hcj, fun j hj _ => hj, fun _ => ⟨rfl, hall⟩⟩

/-! ### the body of the satisfy loop -/

/-- merging across the constraint that was just taken off the `inactive` list -/
theorem mergeAcross_hole (st : St) (v : Nat)
    (h : InvC st.vars st.cons st.blocks.size (st.inactive.push v)) (hv : v < st.cons.size)
    (hne : blk st.vars (st.cons[v]!).l ≠ blk st.vars (st.cons[v]!).r) :
    Inv (st.mergeAcross v).1 := by
  unfold VpscInv.Inv
  rw [(mergeAcross_frame st v).1, (mergeAcross_frame st v).2.1, mergeAcross_cons, mergeAcross_vars]
  simp only
  have hactive : ((st.cons.set! v { st.cons[v]! with active := true })[v]!).active = true := by
    rw [cons_set_get]; simp [hv]
  split
  · exact InvC.drop_push (merge_core _ _ _ _ h v hv hne _ _ _ (Or.inl ⟨rfl, rfl, rfl⟩)) (Or.inl hactive)
  · exact InvC.drop_push (merge_core _ _ _ _ h v hv hne _ _ _ (Or.inr ⟨rfl, rfl, rfl⟩)) (Or.inl hactive)

theorem slack_none (st : St) (v : Nat) (h : st.slack v = none) : (st.cons[v]!).unsat = true := by
  unfold St.slack at h
  simp only at h
  split at h
  · assumption
  · simp at h

theorem afterSplit_J (st : St) (v lid rid : Nat)
    (h : InvC st.vars st.cons st.blocks.size (st.inactive.push v)) (hv : v < st.cons.size)
    (hne : blk st.vars (st.cons[v]!).l ≠ blk st.vars (st.cons[v]!).r) :
    (st.afterSplit v lid rid).fuelOut = st.fuelOut ∧ Inv (st.afterSplit v lid rid) := by
  unfold St.afterSplit
  split
  · rename_i hs
    exact ⟨rfl, InvC.drop_push h (Or.inr (slack_none st v hs))⟩
  · rename_i s hs
    simp only
    split
    · refine ⟨rfl, ?_⟩
      unfold VpscInv.Inv
      simp only [St.incResat, St.insertBlocks, St.pushInactive, St.note]
      exact h
    · have := mergeAcross_hole (st.note s) v h hv hne
      refine ⟨(mergeAcross_frame (st.note s) v).2.2, ?_⟩
      unfold VpscInv.Inv at this ⊢
      simp only [St.insertBlock]
      exact this

/-! ### justification of the two flagging branches -/

open AdaptaVerif.Lemmas.VpscFlag in
theorem tightActive_of_inv {st : St} {n : Nat} {ia : Array Nat}
    (h : InvC st.vars st.cons n ia) : TightActive st := by
  intro c hc hact
  obtain ⟨j, hj, rfl⟩ := Array.mem_iff_getElem.1 hc
  have e : st.cons[j] = st.cons[j]! := (getElem!_pos _ j hj).symm
  rw [e] at hact ⊢
  obtain ⟨t1, t2⟩ := h.tight j hj hact
  unfold blk at t1
  unfold offs at t2
  simp only [St.uval, t1]
  linarith

theorem getElem!_mem' (cons : Array Con) (v : Nat) (hv : v < cons.size) : cons[v]! ∈ cons := by
  rw [getElem!_pos cons v hv]; exact Array.getElem_mem hv

theorem viol_of_slack (st : St) (v : Nat) (s : Rat) (hs : st.slack v = some s) (hneg : s < 0) :
    st.uval (st.cons[v]!).r - (st.cons[v]!).gap - st.uval (st.cons[v]!).l < 0 := by
  unfold St.slack at hs
  simp only at hs
  split at hs
  · simp at hs
  · simp only [Option.some.injEq] at hs
    rw [hs]; exact hneg

/-- a walk all of whose steps run against the direction of their constraint is a directed walk of
    constraints from its end to its start -/
theorem backward_walk (cons : Array Con) : ∀ (W : List Step) (x y : Nat), Walk cons x y W →
    (∀ s ∈ W, s.2.1 = (cons[s.1]!).r ∧ s.2.2 = (cons[s.1]!).l) →
    ∃ p : List Con, (∀ c ∈ p, c ∈ cons ∧ c.active = true) ∧
      AdaptaVerif.Check.Vpsc.walkEnd y (p.map conEdge) = some x := by
  intro W
  induction W with
  | nil => intro x y h _; cases h; exact ⟨[], by simp, by simp [AdaptaVerif.Check.Vpsc.walkEnd]⟩
  | cons s W ih =>
    intro x y h hb
    cases h with
    | @cons j a b c rest hae hrest =>
      obtain ⟨p, hp, hw⟩ := ih b y hrest (fun s hs => hb s (List.mem_cons_of_mem _ hs))
      have hj := hb (j, x, b) List.mem_cons_self
      simp only at hj
      refine ⟨p ++ [cons[j]!], ?_, ?_⟩
      · intro c' hc'
        rcases List.mem_append.1 hc' with h1 | h1
        · exact hp c' h1
        · simp only [List.mem_singleton] at h1
          subst h1
          exact ⟨getElem!_mem' cons j hae.1, hae.2.1⟩
      · rw [List.map_append, AdaptaVerif.Lemmas.VpscFeasible.walkEnd_append, hw]
        simp [AdaptaVerif.Check.Vpsc.walkEnd, conEdge, hj.1, hj.2]

theorem walk_steps_ae {cons : Array Con} : ∀ {W : List Step} {x y : Nat}, Walk cons x y W →
    ∀ s ∈ W, AE cons s.1 s.2.1 s.2.2 := by
  intro W
  induction W with
  | nil => intro x y _ s hs; simp at hs
  | cons t W ih =>
    intro x y h s hs
    cases h with
    | cons hae hrest =>
      rcases List.mem_cons.1 hs with rfl | hs
      · exact hae
      · exact ih hrest s hs

theorem walk_start_reach {cons : Array Con} : ∀ {W : List Step} {x y : Nat}, Walk cons x y W →
    ∀ s ∈ W, Reach cons x s.2.1 := by
  intro W
  induction W with
  | nil => intro x y _ s hs; simp at hs
  | cons t W ih =>
    intro x y h s hs
    cases h with
    | cons hae hrest =>
      rcases List.mem_cons.1 hs with rfl | hs
      · exact ReflTransGen.refl
      · exact ReflTransGen.head ⟨_, trivial, hae⟩ (ih hrest s hs)

theorem forest_of_inv {vars cons n ia} (h : InvC vars cons n ia) : Forest cons := by
  intro j a b hae hre
  obtain ⟨hj, ha, hends⟩ := hae
  rcases hends with ⟨rfl, rfl⟩ | ⟨rfl, rfl⟩
  · exact h.bridge j hj ha hre
  · exact h.bridge j hj ha hre.symm

theorem isActiveDirectedPathBetween_self (st : St) (bid fuel u : Nat) :
    (isActiveDirectedPathBetween st bid (fuel + 1) u u).1 = true := by
  unfold isActiveDirectedPathBetween
  simp

theorem splitOn_fuel_true (st : St) (old ci : Nat) (h : st.fuelOut = true) :
    (st.splitOn old ci).1.fuelOut = true := by
  unfold St.splitOn St.split
  simp [St.refreshBlock, St.markDeleted, St.pushInactive, h]

theorem afterSplit_fuel (st : St) (v lid rid : Nat) :
    (st.afterSplit v lid rid).fuelOut = st.fuelOut := by
  unfold St.afterSplit
  split
  · rfl
  · simp only
    split
    · simp only [St.incResat, St.insertBlocks, St.pushInactive, St.note]
    · simp only [St.insertBlock]
      exact (mergeAcross_frame _ v).2.2

/-- the tail of `splitBetween` once the split constraint `sc` has been chosen -/
theorem splitTail_J (st : St) (v sc lb : Nat)
    (hlb : lb = blk st.vars (st.cons[sc]!).l)
    (hH : InvC st.vars st.cons st.blocks.size (st.inactive.push v))
    (hact : (st.cons[sc]!).active = true)
    (hside1 : ReachAvoid st.cons sc (st.cons[sc]!).l (st.cons[v]!).l)
    (hside2 : ReachAvoid st.cons sc (st.cons[sc]!).r (st.cons[v]!).r) :
    J ((st.splitOn lb sc).1.incSplitBetween.afterSplit v (st.splitOn lb sc).2.1 (st.splitOn lb sc).2.2) := by
  subst hlb
  by_cases hfo : (st.splitOn (blk st.vars (st.cons[sc]!).l) sc).1.fuelOut = true
  · left
    rw [afterSplit_fuel]
    exact hfo
  · have hfo' : (st.splitOn (blk st.vars (st.cons[sc]!).l) sc).1.fuelOut = false := by simpa using hfo
    obtain ⟨c1, c2, c3, c4, c5, _, c7⟩ := splitOn_core st sc (st.inactive.push v) hH hact hfo'
    generalize hq : st.splitOn (blk st.vars (st.cons[sc]!).l) sc = q at *
    have hH' : InvC q.1.incSplitBetween.vars q.1.incSplitBetween.cons q.1.incSplitBetween.blocks.size
        (q.1.incSplitBetween.inactive.push v) := by
      simp only [St.incSplitBetween]
      rw [c5]
      refine InvC.congr_inactive ?_ c1
      intro j
      simp only [Array.mem_push]
      tauto
    have hv' : v < q.1.incSplitBetween.cons.size :=
      hH'.inact_lt v (Array.mem_push.2 (Or.inr rfl))
    have hdata : (q.1.incSplitBetween.cons[v]!).l = (st.cons[v]!).l ∧
        (q.1.incSplitBetween.cons[v]!).r = (st.cons[v]!).r := by
      simp only [St.incSplitBetween]
      rw [c7, cons_set_get]
      split
      · rename_i hh
        obtain ⟨rfl, _⟩ := hh
        exact ⟨rfl, rfl⟩
      · exact ⟨rfl, rfl⟩
    have hne : blk q.1.incSplitBetween.vars (q.1.incSplitBetween.cons[v]!).l ≠
        blk q.1.incSplitBetween.vars (q.1.incSplitBetween.cons[v]!).r := by
      rw [hdata.1, hdata.2]
      simp only [St.incSplitBetween]
      rw [c2 _ hside1, c3 _ hside2]
      exact c4
    obtain ⟨_, hinv⟩ := afterSplit_J q.1.incSplitBetween v q.2.1 q.2.2 hH' hv' hne
    exact Or.inr hinv

/-- what the path search of `splitBetween` delivers (when it did not run out of fuel) -/
structure SearchSpec (st : St) (v : Nat) (path : Option (Array Nat)) : Prop where
  found : ∀ cs, path = some cs → PathSpec st (st.cons[v]!).r (st.cons[v]!).l none cs
  notfound : path = none → ∀ W : List Step,
    Walk st.cons (st.cons[v]!).l (st.cons[v]!).r W → NB none W → W = []

theorem SearchSpec.congr {st st' : St} (hc : st'.cons = st.cons) {v : Nat} {path : Option (Array Nat)}
    (h : SearchSpec st v path) : SearchSpec st' v path := by
  obtain ⟨h1, h2⟩ := h
  refine ⟨?_, ?_⟩
  · intro cs hcs
    have := h1 cs hcs
    unfold PathSpec at this ⊢
    rw [hc]; exact this
  · intro hn
    rw [hc]; exact h2 hn

theorem search_aux (st st1 : St) (hv : st1.vars = st.vars) (hc : st1.cons = st.cons) {n : Nat}
    {ia : Array Nat} (h : InvC st.vars st.cons n ia) (v fuel : Nat)
    (hp2 : (splitPath st1 (blk st.vars (st.cons[v]!).l) (st.cons[v]!).r fuel (st.cons[v]!).l none).2 = true) :
    SearchSpec st v (splitPath st1 (blk st.vars (st.cons[v]!).l) (st.cons[v]!).r fuel (st.cons[v]!).l none).1 := by
  have h1 : InvC st1.vars st1.cons n ia := by rw [hv, hc]; exact h
  refine ⟨?_, ?_⟩
  · intro cs hcs
    have := splitPath_some st1 _ _ h1.ins_sound h1.outs_sound
      (fun j x hae => forest_of_inv h1 j x x hae ReflTransGen.refl) _ _ _ _ hcs
    unfold PathSpec at this ⊢
    rw [hc] at this; exact this
  · intro hnone W hW hnb
    have := splitPath_none st1 (blk st.vars (st.cons[v]!).l) (st.cons[v]!).r
      h1.outs_complete h1.ins_complete (fun j x y hae => h1.ae_blk hae)
      fuel (st.cons[v]!).l none (by rw [hv]) (Prod.ext hnone hp2) W (by rw [hc]; exact hW) hnb
    exact this

theorem searchSplit_spec (st : St) (v : Nat) {n : Nat} {ia : Array Nat}
    (h : InvC st.vars st.cons n ia) :
    (st.searchSplit v).1.vars = st.vars ∧ (st.searchSplit v).1.cons = st.cons ∧
    (st.searchSplit v).1.blocks = st.blocks ∧ (st.searchSplit v).1.inactive = st.inactive ∧
    ((st.searchSplit v).1.fuelOut = true ∨
      (st.fuelOut = false ∧ SearchSpec st v (st.searchSplit v).2)) := by
  unfold St.searchSplit
  simp only
  refine ⟨rfl, rfl, rfl, rfl, ?_⟩
  have hfu : ((st.setLm (computeDfdv st (st.vars[(st.cons[v]!).l]!).block (st.vars.size + 1) st.lm #[]
      (st.blocks[(st.vars[(st.cons[v]!).l]!).block]!).vars[0]! none).1).okAnd
      (computeDfdv st (st.vars[(st.cons[v]!).l]!).block (st.vars.size + 1) st.lm #[]
      (st.blocks[(st.vars[(st.cons[v]!).l]!).block]!).vars[0]! none).2.2.2).fuelOut = false →
      st.fuelOut = false := by
    intro hh
    simp only [St.okAnd, St.setLm, Bool.or_eq_false_iff] at hh
    exact hh.1
  generalize hst1 : ((st.setLm (computeDfdv st (st.vars[(st.cons[v]!).l]!).block (st.vars.size + 1) st.lm #[]
      (st.blocks[(st.vars[(st.cons[v]!).l]!).block]!).vars[0]! none).1).okAnd
      (computeDfdv st (st.vars[(st.cons[v]!).l]!).block (st.vars.size + 1) st.lm #[]
      (st.blocks[(st.vars[(st.cons[v]!).l]!).block]!).vars[0]! none).2.2.2) = st1 at hfu ⊢
  have hv1 : st1.vars = st.vars := by rw [← hst1]; simp only [St.okAnd, St.setLm]
  have hc1 : st1.cons = st.cons := by rw [← hst1]; simp only [St.okAnd, St.setLm]
  by_cases hf : (st1.okAnd (splitPath st1 (st.vars[(st.cons[v]!).l]!).block (st.cons[v]!).r
      (st.vars.size + 1) (st.cons[v]!).l none).2).fuelOut = true
  · exact Or.inl hf
  · right
    simp only [St.okAnd, Bool.or_eq_true, Bool.not_eq_true', not_or, Bool.not_eq_true,
      Bool.not_eq_false] at hf
    exact ⟨hfu hf.1, search_aux st st1 hv1 hc1 h v _ hf.2⟩

theorem walk_nil_eq {cons : Array Con} {x y : Nat} (h : Walk cons x y []) : x = y := by
  generalize hw : ([] : List Step) = W at h
  cases h with
  | nil => rfl
  | cons _ _ => simp at hw

theorem splitBetweenWith_J (st : St) (v : Nat) (path : Option (Array Nat))
    (hH : InvC st.vars st.cons st.blocks.size (st.inactive.push v)) (hv : v < st.cons.size)
    (hsame : blk st.vars (st.cons[v]!).l = blk st.vars (st.cons[v]!).r)
    (hlr : (st.cons[v]!).l ≠ (st.cons[v]!).r)
    (hsp : SearchSpec st v path)
    (hviol : (∀ j : Nat, j < st.cons.size → (st.cons[j]!).eq = false) →
      ∃ s, st.slack v = some s ∧ s < 0) :
    J (st.splitBetweenWith v path) := by
  have hforest := forest_of_inv hH
  unfold St.splitBetweenWith
  simp only
  split
  · -- no split point: flag
    rename_i hn
    have hempty := argMinFirst_none _ hn
    have hsz : (path.getD #[]).size = 0 := by
      have := congrArg Array.size hempty
      simpa using this
    right
    unfold VpscInv.Inv
    simp only [St.incFlagNoSplit, St.flag]
    refine InvC.drop_push (InvC.set_unsat hH v hv ?_) (Or.inr ?_)
    · intro hineq
      obtain ⟨s, hs, hneg⟩ := hviol hineq
      cases path with
      | none =>
        exfalso
        have hreach := hH.conn _ _ (hH.l_lt v hv) (hH.r_lt v hv) hsame
        obtain ⟨W, hW, hnb⟩ := exists_nb_walk hreach
        have := hsp.notfound rfl W hW hnb
        subst this
        exact hlr (walk_nil_eq hW)
      | some cs =>
        have hcs0 : cs.size = 0 := by simpa using hsz
        obtain ⟨W, hW, _, _, _, hc2⟩ := hsp.found cs rfl
        have hback : ∀ s ∈ W, s.2.1 = (st.cons[s.1]!).r ∧ s.2.2 = (st.cons[s.1]!).l := by
          intro s hs
          obtain ⟨hj, _, hends⟩ := walk_steps_ae hW s hs
          rcases hends with ⟨h1, h2⟩ | ⟨h1, h2⟩
          · exfalso
            have hmem := hc2 s hs h1.symm h2.symm (hineq _ hj)
            obtain ⟨i, hi, _⟩ := Array.mem_iff_getElem.1 hmem
            omega
          · exact ⟨h2.symm, h1.symm⟩
        obtain ⟨p, hp, hw⟩ := backward_walk st.cons W _ _ hW hback
        exact AdaptaVerif.Lemmas.VpscFlag.flag_walk_sound st v p hp hw (tightActive_of_inv hH)
          (getElem!_mem' _ v hv) (viol_of_slack st v s hs hneg)
    · rw [cons_set_get]; simp [hv]
  · -- split on `sc`
    rename_i sc x gap hmin
    have hmem := argMinFirst_mem _ _ _ _ hmin
    simp only [Array.mem_map, Prod.mk.injEq] at hmem
    obtain ⟨ci, hci, rfl, _⟩ := hmem
    cases path with
    | none => simp at hci
    | some cs =>
      simp only [Option.getD_some] at hci
      obtain ⟨W, hW, _, hnb, hc1, _⟩ := hsp.found cs rfl
      obtain ⟨hstep, _⟩ := hc1 ci hci
      obtain ⟨P, S, hPS⟩ := List.append_of_mem hstep
      have hnd := Walk.nodup hforest hW hnb
      subst hPS
      obtain ⟨m, hP, hS⟩ := Walk.split hW
      cases hS with
      | cons hae hS' =>
        have hPavoid : ∀ s ∈ P, s.1 ≠ ci := by
          intro s hs heq
          rw [List.map_append, List.map_cons, List.nodup_append] at hnd
          exact hnd.2.2 _ (List.mem_map.2 ⟨s, hs, rfl⟩) _ (List.mem_cons_self) heq
        have hSavoid : ∀ s ∈ S, s.1 ≠ ci := by
          intro s hs heq
          rw [List.map_append, List.map_cons, List.nodup_append, List.nodup_cons] at hnd
          exact hnd.2.1.1 (by rw [← heq]; exact List.mem_map.2 ⟨s, hs, rfl⟩)
        have side1 := (Walk.reachAvoid hP hPavoid).symm
        have side2 := Walk.reachAvoid hS' hSavoid
        have hlb : (st.vars[(st.cons[v]!).l]!).block = blk st.vars (st.cons[ci]!).l :=
          hH.reach_blk (Walk.reach hP)
        exact splitTail_J (st.note gap) v ci _ hlb hH hae.2.1 side1 side2


theorem slack_congr {st st' : St} (hv : st'.vars = st.vars) (hc : st'.cons = st.cons)
    (hb : st'.blocks = st.blocks) (v : Nat) : st'.slack v = st.slack v := by
  unfold St.slack St.uval
  rw [hv, hc, hb]

theorem splitBetweenWith_fuel_true (st : St) (v : Nat) (path : Option (Array Nat))
    (h : st.fuelOut = true) : (st.splitBetweenWith v path).fuelOut = true := by
  unfold St.splitBetweenWith
  simp only
  split
  · simp only [St.incFlagNoSplit, St.flag]; exact h
  · rw [afterSplit_fuel]
    simp only [St.incSplitBetween]
    exact splitOn_fuel_true _ _ _ h

theorem process_J (st : St) (v : Nat)
    (hH : InvC st.vars st.cons st.blocks.size (st.inactive.push v)) (hv : v < st.cons.size)
    (hviol : (∀ j : Nat, j < st.cons.size → (st.cons[j]!).eq = false) →
      ∃ s, st.slack v = some s ∧ s < 0) :
    J (st.process v) := by
  unfold St.process
  simp only
  split
  · rename_i hne
    right
    exact mergeAcross_hole st v hH hv (by simpa [blk] using hne)
  · rename_i hne
    have hsame : blk st.vars (st.cons[v]!).l = blk st.vars (st.cons[v]!).r := by
      simpa [blk] using hne
    split
    · -- a directed active path from right to left: flag
      rename_i hdp
      by_cases hfo : (st.okAnd (isActiveDirectedPathBetween st (st.vars[(st.cons[v]!).l]!).block
          (st.vars.size + 1) (st.cons[v]!).r (st.cons[v]!).l).2).fuelOut = true
      · left
        simp only [St.incFlagPath, St.flag]
        exact hfo
      · right
        unfold VpscInv.Inv
        simp only [St.incFlagPath, St.flag, St.okAnd]
        refine InvC.drop_push (InvC.set_unsat hH v hv ?_) (Or.inr ?_)
        · intro hineq
          obtain ⟨s, hs, hneg⟩ := hviol hineq
          exact AdaptaVerif.Lemmas.VpscFlag.flag_path_sound st _ _ v
            (fun u ci hci => (hH.outs_sound u ci hci).2) (tightActive_of_inv hH)
            (getElem!_mem' _ v hv) hdp (viol_of_slack st v s hs hneg)
        · rw [cons_set_get]; simp [hv]
    · rename_i hdp
      have hlr : (st.cons[v]!).l ≠ (st.cons[v]!).r := by
        intro heq
        apply hdp
        rw [heq]
        exact isActiveDirectedPathBetween_self st _ _ _
      generalize hst1 : st.okAnd (isActiveDirectedPathBetween st (st.vars[(st.cons[v]!).l]!).block
          (st.vars.size + 1) (st.cons[v]!).r (st.cons[v]!).l).2 = st1
      have e1 : st1.vars = st.vars := by rw [← hst1]; simp only [St.okAnd]
      have e2 : st1.cons = st.cons := by rw [← hst1]; simp only [St.okAnd]
      have e3 : st1.blocks = st.blocks := by rw [← hst1]; simp only [St.okAnd]
      have e4 : st1.inactive = st.inactive := by rw [← hst1]; simp only [St.okAnd]
      have hH1 : InvC st1.vars st1.cons st1.blocks.size (st1.inactive.push v) := by
        rw [e1, e2, e3, e4]; exact hH
      unfold St.splitBetween
      simp only
      obtain ⟨f1, f2, f3, f4, f5⟩ := searchSplit_spec st1 v hH1
      rcases f5 with f5 | ⟨_, f5⟩
      · exact Or.inl (splitBetweenWith_fuel_true _ _ _ f5)
      · apply splitBetweenWith_J
        · rw [f1, f2, f3, f4]; exact hH1
        · rw [f2, e2]; exact hv
        · rw [f1, f2, e1, e2]; exact hsame
        · rw [f2, e2]; exact hlr
        · exact f5.congr f2
        · intro hineq
          rw [slack_congr (f1.trans e1) (f2.trans e2) (f3.trans e3)]
          rw [f2, e2] at hineq
          exact hviol hineq


end AdaptaVerif.Lemmas.VpscLoop
